(* C06, part 1: the stream invariant.  After any well-formed, timed history the played stream holds, for every
   logged (non-cancelled) trial, its waveform at its notified start; logged trials are ordered and disjoint;
   every other position holds silence or a sample of some notified trial at its own offset. *)
From Coq Require Import ZArith List Bool Lia ZifyBool.
From PV Require Import Queue.LemmasC04 EndToEnd.Model EndToEnd.Spec EndToEnd.ListLemmas.
Import ListNotations.
Open Scope Z_scope.

Definition iend (i : info) : Z := i_t0 i + i_dur i.

(* every earlier entry ends at or before the start of every later one *)
Fixpoint chain (g : list info) : Prop :=
  match g with [] => True | a :: t => Forall (fun b => iend a <= i_t0 b) t /\ chain t end.

Lemma chain_snoc g x : chain g -> Forall (fun a => iend a <= i_t0 x) g -> chain (g ++ [x]).
Proof.
  induction g as [|a g IH]; cbn [chain app]; intros C F.
  - split; constructor.
  - destruct C as [C1 C2]. inversion F; subst. split; [|apply IH; assumption].
    apply Forall_app. split; [assumption|]. constructor; [assumption|constructor].
Qed.

Lemma chain_filter (c : info -> bool) g : chain g -> chain (filter c g).
Proof.
  induction g as [|a g IH]; cbn [chain filter]; [auto|]. intros [C1 C2].
  destruct (c a); cbn [chain]; [split|]; auto. apply Forall_filter. exact C1.
Qed.

(* the waveform lengths the running queue uses are those of the stimuli it was built from *)
Definition shape_ok (es d : list entry) : Prop :=
  forall k e, znth d k = Some e ->
    exists e0, znth es k = Some e0 /\ e_len e = e_len e0 /\ e_dur e = e_len e0 /\ 0 <= e_len e0.

Lemma shape_upd es d key f : (forall e, e_len (f e) = e_len e /\ e_dur (f e) = e_dur e) ->
  shape_ok es d -> shape_ok es (upd_entry d key f).
Proof.
  intros Hf S k e H. rewrite znth_upd in H. destruct (k =? key); [|eauto].
  destruct (znth d k) as [e1|] eqn:E; [|discriminate]. cbn in H. inversion H; subst.
  destruct (S k e1 E) as (e0 & H0 & H1 & H2 & H3). destruct (Hf e1) as [F1 F2].
  exists e0. repeat split; congruence || assumption.
Qed.

Lemma shape_requeue es l : forall d, shape_ok es d ->
  shape_ok es (fold_left (fun d k => upd_entry d k (add_trials 1)) l d).
Proof.
  induction l as [|x l IH]; intros d S; [exact S|]. cbn [fold_left]. apply IH.
  apply shape_upd; [|exact S]. intros e. split; reflexivity.
Qed.

Lemma shape_init p es : wf_queue p es = true -> shape_ok es es.
Proof.
  unfold wf_queue. intros W k e H. exists e. split; [exact H|].
  assert (W2 : forallb wf_entry es = true) by lia. rewrite forallb_forall in W2.
  apply LemmasC04.znth_In in H. apply W2 in H. unfold wf_entry in H. lia.
Qed.

Lemma shape_len es d k e : shape_ok es d -> znth d k = Some e -> len_of es k = e_len e /\ e_dur e = e_len e /\ 0 <= e_len e.
Proof.
  intros S H. destruct (S k e H) as (e0 & H0 & H1 & H2 & H3). unfold len_of. rewrite H0. lia.
Qed.

(* ------------------------------------------------------------------ *)
(* the invariant, over the components of the queue state it mentions    *)
(* ------------------------------------------------------------------ *)
Record sinv' (es : list entry) (c : Z) (d : list entry) (g : list info) (src : option (Z * Z * Z))
       (P : list osample) (A : list (Z * Z)) : Prop := {
  sv_clock : 0 <= c;
  sv_shape : shape_ok es d;
  sv_log : Forall (fun i => i_dur i = len_of es (q_key i) /\ 0 <= i_dur i /\ 0 <= i_t0 i /\ In (q_key i, i_t0 i) A /\
                           0 <= q_key i < zlen es) g;
  sv_chain : chain g;
  sv_src : match src with
           | None => Forall (fun i => iend i <= c) g
           | Some (k, pos, len) =>
             exists g' i, g = g' ++ [i] /\ q_key i = k /\ i_dur i = len /\ 0 <= pos <= len /\
                          i_t0 i + pos <= c /\ (pos < len -> i_t0 i + pos = c) /\
                          Forall (fun i' => iend i' <= i_t0 i) g'
           end;
  sv_wave : forall i j, In i g -> 0 <= j < i_dur i -> i_t0 i + j < c ->
                        znth P (i_t0 i + j) = Some (OWave (q_key i) j);
  sv_all : forall s x, znth P s = Some x ->
                       x = OZero \/ exists k t0, In (k, t0) A /\ x = OWave k (s - t0) /\ t0 <= s < t0 + len_of es k
}.

Definition sinv (es : list entry) (q : qstate) (P : list osample) (A : list (Z * Z)) : Prop :=
  sinv' es (q_samples q) (q_data q) (q_generated q) (q_source q) P A.

Lemma sinv_ext es c d g src P P' A : (forall s, znth P' s = znth P s) ->
  sinv' es c d g src P A -> sinv' es c d g src P' A.
Proof.
  intros E [I1 I2 I3 I4 I5 I6 I7]. constructor; auto.
  - intros i j Hi Hj Hc. rewrite E. auto.
  - intros s x H. rewrite E in H. auto.
Qed.

Lemma sinv_more es c d g src P A A' : (forall x, In x A -> In x A') ->
  sinv' es c d g src P A -> sinv' es c d g src P A'.
Proof.
  intros E [I1 I2 I3 I4 I5 I6 I7]. constructor; auto.
  - eapply Forall_impl; [|exact I3]. cbn. intros i (H1 & H2 & H3 & H4 & H5). repeat split; auto; lia.
  - intros s x H. destruct (I7 s x H) as [H0|(k & t0 & H1 & H2)]; [left; exact H0|].
    right. exists k, t0. split; [auto|exact H2].
Qed.

(* every logged trial that is not in progress ends at or before the clock *)
Lemma sinv_ends es c d g src P A : sinv' es c d g src P A ->
  match src with Some (_, pos, len) => pos = len | None => True end -> Forall (fun i => iend i <= c) g.
Proof.
  intros [I1 I2 I3 I4 I5 I6 I7] H. destruct src as [[[k pos] len]|]; [|exact I5].
  destruct I5 as (g' & i & -> & H1 & H2 & H3 & H4 & H5 & H6). subst pos.
  apply Forall_app. split.
  - eapply Forall_impl; [|exact H6]. cbn. intros a Ha. lia.
  - constructor; [|constructor]. unfold iend. lia.
Qed.

(* padding the buffer with silence up to the clock *)
Lemma pad_sinv es c d g src P A : sinv' es c d g src P A -> sinv' es c d g src (splice P c []) A.
Proof.
  intros [I1 I2 I3 I4 I5 I6 I7]. constructor; auto.
  - intros i j Hi Hj Hc. rewrite znth_splice by exact I1.
    pose proof (I6 i j Hi Hj Hc) as H. pose proof (znth_Some_lt _ _ _ H) as Hl.
    destruct (i_t0 i + j <? c) eqn:E1; [|lia]. destruct (i_t0 i + j <? zlen P) eqn:E2; [exact H|lia].
  - intros s x H. rewrite znth_splice in H by exact I1. change (zlen (@nil osample)) with 0 in H.
    destruct (s <? c) eqn:E1.
    + destruct (s <? zlen P) eqn:E2; [eauto|]. destruct (0 <=? s); [|discriminate]. inversion H. left. reflexivity.
    + destruct (s <? c + 0) eqn:E2; [lia|]. eauto.
Qed.

(* silence is generated while no waveform is in progress *)
Lemma zeros_sinv es c d g src P A m : sinv' es c d g src P A -> 0 <= m ->
  match src with Some (_, pos, len) => pos = len | None => True end ->
  sinv' es (c + m) d g src (splice P c (repeat OZero (Z.to_nat m))) A.
Proof.
  intros I Hm Hs. pose proof (sinv_ends _ _ _ _ _ _ _ I Hs) as Hends.
  destruct I as [I1 I2 I3 I4 I5 I6 I7]. constructor; auto; try lia.
  - destruct src as [[[k pos] len]|].
    + destruct I5 as (g' & i & E & H1 & H2 & H3 & H4 & H5 & H6). exists g', i. repeat split; auto; lia.
    + eapply Forall_impl; [|exact I5]. cbn. intros a Ha. lia.
  - intros i j Hi Hj Hc. rewrite Forall_forall in Hends. specialize (Hends i Hi). unfold iend in Hends.
    assert (Hlt : i_t0 i + j < c) by lia.
    rewrite znth_splice by exact I1.
    pose proof (I6 i j Hi Hj Hlt) as H. pose proof (znth_Some_lt _ _ _ H) as Hl.
    destruct (i_t0 i + j <? c) eqn:E1; [|lia]. destruct (i_t0 i + j <? zlen P) eqn:E2; [exact H|lia].
  - intros s x H. rewrite znth_splice in H by exact I1. rewrite Zlen_repeat in H.
    destruct (s <? c) eqn:E1.
    + destruct (s <? zlen P) eqn:E2; [eauto|]. destruct (0 <=? s); [|discriminate]. inversion H. left. reflexivity.
    + destruct (s <? c + Z.of_nat (Z.to_nat m)) eqn:E2; [|eauto].
      rewrite znth_repeat in H. destruct ((0 <=? s - c) && (s - c <? Z.of_nat (Z.to_nat m))); [|discriminate].
      inversion H. left. reflexivity.
Qed.

(* m samples of the waveform in progress are generated *)
Lemma emit_sinv es c d g key pos len src' P A m : sinv' es c d g (Some (key, pos, len)) P A ->
  0 <= m <= len - pos ->
  (src' = Some (key, pos + m, len) \/ (src' = None /\ pos + m = len)) ->
  sinv' es (c + m) d g src' (splice P c (zrange (fun i => OWave key i) pos m)) A.
Proof.
  intros [I1 I2 I3 I4 I5 I6 I7] Hm Hs.
  destruct I5 as (g' & i & E & H1 & H2 & H3 & H4 & H5 & H6).
  assert (Hc : 0 < m -> i_t0 i + pos = c) by (intros; apply H5; lia).
  assert (Hi : In i g) by (rewrite E; apply in_or_app; right; left; reflexivity).
  assert (Hlen : zlen (zrange (fun i => OWave key i) pos m) = m) by (rewrite Zlen_zrange; lia).
  constructor; auto; try lia.
  - destruct Hs as [->|[-> Hfin]].
    + exists g', i. repeat split; auto; lia.
    + rewrite E. apply Forall_app. split.
      * eapply Forall_impl; [|exact H6]. cbn. intros a Ha. lia.
      * constructor; [|constructor]. unfold iend. lia.
  - intros i0 j Hi0 Hj Hlt. rewrite znth_splice by exact I1. rewrite Hlen.
    assert (Hold : i_t0 i0 + j < c -> znth P (i_t0 i0 + j) = Some (OWave (q_key i0) j)) by (intros; apply I6; auto).
    destruct (i_t0 i0 + j <? c) eqn:E1.
    + pose proof (Hold ltac:(lia)) as H. pose proof (znth_Some_lt _ _ _ H) as Hl.
      destruct (i_t0 i0 + j <? zlen P) eqn:E2; [exact H|lia].
    + (* a newly generated position: only the entry in progress reaches it *)
      rewrite E in Hi0. apply in_app_or in Hi0. destruct Hi0 as [Hi0|[<-|[]]].
      * rewrite Forall_forall in H6. specialize (H6 i0 Hi0). unfold iend in H6. lia.
      * assert (Hm0 : 0 < m) by lia. specialize (Hc Hm0).
        destruct (i_t0 i + j <? c + m) eqn:E2; [|lia].
        rewrite znth_zrange. destruct ((0 <=? i_t0 i + j - c) && (i_t0 i + j - c <? m)) eqn:E3; [|lia].
        rewrite H1. f_equal. f_equal. lia.
  - intros s x H. rewrite znth_splice in H by exact I1. rewrite Hlen in H.
    destruct (s <? c) eqn:E1.
    + destruct (s <? zlen P) eqn:E2; [eauto|]. destruct (0 <=? s); [|discriminate]. inversion H. left. reflexivity.
    + destruct (s <? c + m) eqn:E2; [|eauto].
      rewrite znth_zrange in H. destruct ((0 <=? s - c) && (s - c <? m)) eqn:E3; [|discriminate].
      inversion H; subst x. right. exists key, (i_t0 i).
      assert (Hm0 : 0 < m) by lia. specialize (Hc Hm0).
      rewrite Forall_forall in I3. destruct (I3 i Hi) as (L1 & L2 & L3 & L4 & _).
      rewrite H1 in L4, L1. split; [exact L4|]. split; [f_equal; lia|]. rewrite <- L1, H2. lia.
Qed.

(* a trial is set up at the clock *)
Lemma trial_sinv es c d d' g P A key dur len : sinv' es c d g None P A ->
  shape_ok es d' -> dur = len_of es key -> len = dur -> 0 <= dur -> 0 <= key < zlen es ->
  sinv' es c d' (g ++ [{| i_t0 := c; i_dur := dur; q_key := key; i_dec := true |}]) (Some (key, 0, len)) P
        (A ++ [(key, c)]).
Proof.
  intros [I1 I2 I3 I4 I5 I6 I7] S' Hd Hl Hn Hk. constructor; auto.
  - apply Forall_app. split.
    + eapply Forall_impl; [|exact I3]. cbn. intros i (H1 & H2 & H3 & H4 & H5). repeat split; auto; try lia.
      apply in_or_app. left. exact H4.
    + constructor; [|constructor]. cbn. repeat split; auto; try lia. apply in_or_app. right. left. reflexivity.
  - apply chain_snoc; [exact I4|]. eapply Forall_impl; [|exact I5]. cbn. auto.
  - eexists g, _. split; [reflexivity|]. cbn. repeat split; auto; try lia.
  - intros i j Hi Hj Hlt. apply in_app_or in Hi. destruct Hi as [Hi|[<-|[]]]; [auto|]. cbn in Hlt. lia.
  - intros s x H. destruct (I7 s x H) as [H0|(k & t0 & H1 & H2)]; [left; exact H0|].
    right. exists k, t0. split; [apply in_or_app; left; exact H1|exact H2].
Qed.

(* ------------------------------------------------------------------ *)
(* next_trial: what LemmasC04.trial_step does not record               *)
(* ------------------------------------------------------------------ *)
Lemma next_trial_src R q q' ev : next_trial R q = NTok q' ev ->
  exists key e e0, znth (q_data q) key = Some e0 /\ e = add_trials (-1) e0 /\
    q_data q' = upd_entry (upd_entry (q_data q) key (add_trials (-1))) key adv_delay /\
    q_generated q' = q_generated q ++ [{| i_t0 := q_samples q; i_dur := e_dur e; q_key := key; i_dec := true |}] /\
    ev = EAdded key (q_samples q) /\ q_source q' = Some (key, 0, e_len e) /\
    q_samples q' = q_samples q /\ q_paused q' = q_paused q.
Proof.
  unfold next_trial. intros H.
  destruct (next_key R q) as [key q1| |] eqn:NK; try discriminate.
  destruct (decrement_key q1 key) as [q2|] eqn:DK; [|discriminate].
  destruct (znth (q_data q2) key) as [e|] eqn:ZE; [|discriminate].
  destruct (next_delay e) as [dl|]; [|discriminate].
  destruct (dl <? 0); [discriminate|].
  apply next_key_core in NK. destruct NK as [Hc Hi].
  pose proof Hc as (Hp & Hd & Ho & Hs & Hdl & Hsm & Hpa & Hem & Hg & Hcm).
  apply decrement_key_spec in DK.
  destruct DK as (M & D2 & O2 & C2 & P2 & S2 & DL2 & SM2 & PA2 & EM2 & G2).
  inversion H; subst q' ev; clear H.
  rewrite D2, Hd in ZE. rewrite znth_upd, Z.eqb_refl in ZE.
  destruct (znth (q_data q) key) as [e0|] eqn:E0; [|discriminate]. cbn in ZE. inversion ZE; subst e.
  exists key, (add_trials (-1) e0), e0. cbn.
  repeat split; try congruence.
Qed.

Lemma in_progress_false q : in_progress q = false ->
  match q_source q with Some (_, pos, len) => len <= pos | None => True end.
Proof. unfold in_progress. destruct (q_source q) as [[[k pos] len]|]; [lia|auto]. Qed.

(* ------------------------------------------------------------------ *)
(* one step of the generation loop                                     *)
(* ------------------------------------------------------------------ *)
Lemma pop_step_sinv es q P A n : sinv es q P A -> 0 < n ->
  (q_paused q = true -> in_progress q = false) ->
  match pop_step all_rep q n with
  | PBok q1 out ev =>
    sinv' es (q_samples q + zlen out) (q_data q1) (q_generated q1) (q_source q1)
          (splice P (q_samples q) out) (A ++ added_of ev) /\
    q_samples q1 = q_samples q /\ q_paused q1 = q_paused q /\
    (q_paused q = true -> in_progress q1 = false)
  | PBempty => sinv' es (q_samples q + n) (q_data q) (q_generated q) (q_source q)
                     (splice P (q_samples q) (repeat OZero (Z.to_nat n))) A
  | PBerror => True
  end.
Proof.
  unfold sinv. intros I Hn Hp. unfold pop_step.
  destruct (q_paused q) eqn:PA.
  { (* paused: silence *)
    specialize (Hp eq_refl). cbn [added_of flat_map]. rewrite app_nil_r, Zlen_repeat.
    replace (Z.of_nat (Z.to_nat n)) with n by lia.
    split; [|auto]. apply zeros_sinv; [exact I|lia|].
    apply in_progress_false in Hp. destruct (q_source q) as [[[k pos] len]|]; [|trivial].
    destruct I as [_ _ _ _ I5 _ _]. destruct I5 as (g' & i & _ & _ & _ & H3 & _). lia. }
  destruct (q_source q) as [[[key pos] len]|] eqn:SRC.
  { pose proof I as [_ _ _ _ I5 _ _]. destruct I5 as (g' & i & _ & _ & _ & H3 & _).
    destruct (kind_of q key).
    - destruct (n >? len - pos) eqn:E.
      + cbn [added_of flat_map q_data q_generated q_source q_samples q_paused set_src]. rewrite app_nil_r, Zlen_zrange.
        replace (Z.max 0 (len - pos)) with (len - pos) by lia.
        split; [|split; [reflexivity|split; [exact PA|discriminate]]].
        apply emit_sinv with (pos := pos) (len := len); [exact I|lia|]. right. split; [reflexivity|lia].
      + cbn [added_of flat_map q_data q_generated q_source q_samples q_paused set_src]. rewrite app_nil_r, Zlen_zrange.
        replace (Z.max 0 n) with n by lia.
        split; [|split; [reflexivity|split; [exact PA|discriminate]]].
        apply emit_sinv with (pos := pos) (len := len); [exact I|lia|]. left. reflexivity.
    - cbn [added_of flat_map q_data q_generated q_source q_samples q_paused set_src]. rewrite app_nil_r, Zlen_zrange.
      replace (Z.max 0 (Z.min (len - pos) n)) with (Z.min (len - pos) n) by lia.
      split; [|split; [reflexivity|split; [exact PA|discriminate]]].
      apply emit_sinv with (pos := pos) (len := len); [exact I|lia|].
      destruct (pos + Z.min (len - pos) n >=? len) eqn:E; [right; split; [reflexivity|lia]|left; reflexivity]. }
  destruct (q_delay q >? 0) eqn:DL.
  { cbn [added_of flat_map q_data q_generated q_source q_samples q_paused set_src]. rewrite app_nil_r, Zlen_repeat.
    replace (Z.of_nat (Z.to_nat (Z.min (q_delay q) n))) with (Z.min (q_delay q) n) by lia.
    split; [|split; [reflexivity|split; [exact PA|discriminate]]].
    apply zeros_sinv; [exact I|lia|exact Logic.I]. }
  destruct (next_trial all_rep q) as [q' e| |] eqn:NT.
  - apply next_trial_src in NT.
    destruct NT as (key & en & e0 & Z0 & En & D' & G' & EV & S' & SM & PA').
    subst e. cbn [added_of flat_map app]. change (zlen (@nil osample)) with 0. rewrite Z.add_0_r.
    split; [|split; [exact SM|split; [congruence|intros; discriminate]]].
    rewrite D', G', S'.
    pose proof (sv_shape _ _ _ _ _ _ _ I) as SH.
    destruct (shape_len _ _ _ _ SH Z0) as (L1 & L2 & L3).
    assert (Hkey : 0 <= key < zlen es).
    { destruct (SH key e0 Z0) as (e00 & H00 & _). eapply znth_Some_lt. exact H00. }
    subst en. apply trial_sinv with (d := q_data q); cbn [add_trials e_dur e_len]; auto; try lia.
    + apply pad_sinv. exact I.
    + apply shape_upd; [intros e; split; reflexivity|]. apply shape_upd; [intros e; split; reflexivity|]. exact SH.
  - apply zeros_sinv; [exact I|lia|exact Logic.I].
  - exact Logic.I.
Qed.

(* ------------------------------------------------------------------ *)
(* the generation loop                                                 *)
(* ------------------------------------------------------------------ *)
Lemma pop_loop_sinv es : forall fuel q n P A q' out ev,
  sinv es q P A -> (0 < n -> q_paused q = true -> in_progress q = false) ->
  pop_loop fuel all_rep q n = Some (q', out, ev) ->
  sinv es q' (splice P (q_samples q) out) (A ++ added_of ev).
Proof.
  induction fuel as [|f IH]; intros q n P A q' out ev I Hp H; cbn [pop_loop] in H.
  - destruct (n <=? 0); [|discriminate]. inversion H; subst. cbn [added_of flat_map]. rewrite app_nil_r.
    apply pad_sinv. exact I.
  - destruct (n <=? 0) eqn:En.
    { inversion H; subst. cbn [added_of flat_map]. rewrite app_nil_r. apply pad_sinv. exact I. }
    assert (Hn : 0 < n) by lia.
    pose proof (pop_step_sinv es q P A n I Hn (Hp Hn)) as PS.
    destruct (pop_step all_rep q n) as [q1 o1 e1| |].
    + destruct PS as (I1 & SM & PA & IP).
      destruct (pop_loop f all_rep (add_samples q1 (zlen o1) false) (n - zlen o1)) as [[[q2 o2] e2]|] eqn:R;
        [|discriminate].
      inversion H; subst q' out ev.
      assert (I1' : sinv es (add_samples q1 (zlen o1) false) (splice P (q_samples q) o1) (A ++ added_of e1)).
      { unfold sinv. cbn [add_samples q_samples q_data q_generated q_source]. rewrite SM. exact I1. }
      specialize (IH _ _ _ _ _ _ _ I1' (fun _ (E : q_paused (add_samples q1 (zlen o1) false) = true) =>
                                           IP (eq_trans (eq_sym PA) E)) R).
      cbn [add_samples q_samples] in IH. rewrite SM in IH.
      rewrite added_of_app, app_assoc.
      eapply sinv_ext; [|exact IH]. intros s. symmetry. apply splice_app_znth.
      apply (sv_clock _ _ _ _ _ _ _ I).
    + inversion H; subst q' out ev. cbn [added_of flat_map]. rewrite app_nil_r. exact PS.
    + discriminate.
Qed.

Lemma pop_buffer_sinv es q n P A q' out ev :
  sinv es q P A -> timed_op q (Pop n) = true -> pop_buffer all_rep q n = Some (q', out, ev) ->
  sinv es q' (splice P (q_samples q) out) (A ++ added_of ev).
Proof.
  intros I T H. eapply pop_loop_sinv; [exact I| |exact H].
  intros Hn Hpa. cbn [timed_op] in T. rewrite Hpa in T. destruct (in_progress q); [|reflexivity]. lia.
Qed.

(* ------------------------------------------------------------------ *)
(* pause / resume                                                      *)
(* ------------------------------------------------------------------ *)
Lemma pause_sinv es q P A t : sinv es q P A -> 0 <= t <= q_samples q ->
  sinv es (pause_state q t) (firstn (Z.to_nat t) P) A.
Proof.
  unfold sinv. intros [I1 I2 I3 I4 I5 I6 I7] Ht.
  cbn [pause_state set_pause q_samples q_data q_generated q_source].
  assert (K : forall i, In i (filter (fun i => negb (ends_after i t)) (q_generated q)) ->
                        In i (q_generated q) /\ iend i <= t).
  { intros i Hi. apply filter_In in Hi. destruct Hi as [Hi He]. split; [exact Hi|].
    unfold ends_after in He. unfold iend. lia. }
  constructor.
  - lia.
  - apply shape_requeue. exact I2.
  - apply Forall_filter. exact I3.
  - apply chain_filter. exact I4.
  - apply Forall_forall. intros i Hi. apply K in Hi. tauto.
  - intros i j Hi Hj Hlt. apply K in Hi. destruct Hi as [Hi He].
    rewrite znth_firstn. destruct (i_t0 i + j <? t) eqn:E; [|lia]. apply I6; auto. lia.
  - intros s x H. rewrite znth_firstn in H. destruct (s <? t); [|discriminate]. eauto.
Qed.

Lemma ends_by_Forall q x : ends_by q x = true -> Forall (fun i => iend i <= x) (q_generated q).
Proof.
  unfold ends_by. rewrite forallb_forall. intros H. apply Forall_forall. intros i Hi. apply H in Hi. unfold iend. lia.
Qed.

Lemma resume_sinv es q P A tm : sinv es q P A -> timed_op q (Resume tm) = true ->
  match tm with Some x => 0 <= x | None => True end -> sinv es (resume q tm) P A.
Proof.
  unfold sinv. intros I T Hx. cbn [resume set_pause q_samples q_data q_generated q_source].
  destruct tm as [x|]; [|exact I]. cbn [timed_op] in T.
  destruct (in_progress q) eqn:IP.
  { assert (x = q_samples q) by lia. subst x. exact I. }
  apply ends_by_Forall in T.
  pose proof (sinv_ends _ _ _ _ _ _ _ I) as Hends.
  apply in_progress_false in IP.
  destruct I as [I1 I2 I3 I4 I5 I6 I7].
  assert (Hc : Forall (fun i => iend i <= q_samples q) (q_generated q)).
  { apply Hends. destruct (q_source q) as [[[k pos] len]|]; [|exact Logic.I].
    destruct I5 as (g' & i & _ & _ & _ & H3 & _). lia. }
  constructor; auto.
  - destruct (q_source q) as [[[k pos] len]|]; [|exact T].
    destruct I5 as (g' & i & E & H1 & H2 & H3 & H4 & H5 & H6). exists g', i.
    assert (Hi : In i (q_generated q)) by (rewrite E; apply in_or_app; right; left; reflexivity).
    rewrite Forall_forall in T. specialize (T i Hi). unfold iend in T.
    repeat split; auto; lia.
  - intros i j Hi Hj Hlt. apply I6; auto.
    rewrite Forall_forall in Hc. specialize (Hc i Hi). unfold iend in Hc. lia.
Qed.

Lemma pause_none_sinv es q P A : sinv es q P A -> sinv es (fst (fst (pause all_rep q None))) P A.
Proof. intros I. exact I. Qed.

(* ------------------------------------------------------------------ *)
(* histories                                                           *)
(* ------------------------------------------------------------------ *)
Lemma sinv_init p es ch pm : wf_queue p es = true -> sinv es (qinit p es ch pm) [] [].
Proof.
  intros W. unfold sinv. cbn [qinit q_samples q_data q_generated q_source]. constructor; cbn [chain]; auto.
  - lia.
  - eapply shape_init. exact W.
  - intros i j [].
  - intros s x H. unfold znth in H. destruct (s <? 0); [discriminate|]. destruct (Z.to_nat s); discriminate.
Qed.

Lemma play_hist_sinv es : forall ops q P A q' ev P',
  sinv es q P A -> wf_hist all_rep q ops = true -> timed_hist all_rep q ops = true ->
  play_hist all_rep q P ops = Some (q', ev, P') -> sinv es q' P' (A ++ added_of ev).
Proof.
  induction ops as [|op ops IH]; intros q P A q' ev P' I W T H; cbn [play_hist wf_hist timed_hist] in *.
  - inversion H; subst. cbn [added_of flat_map]. rewrite app_nil_r. exact I.
  - destruct op as [n|tm|tm].
    + destruct (pop_buffer all_rep q n) as [[[q1 o1] e1]|] eqn:PB; [|discriminate].
      destruct (play_hist all_rep q1 _ ops) as [[[q2 e2] P2]|] eqn:RH; [|discriminate].
      inversion H; subst q' ev P'. rewrite added_of_app, app_assoc.
      apply andb_true_iff in W. destruct W as [W1 W2]. apply andb_true_iff in T. destruct T as [T1 T2].
      eapply IH; [|exact W2|exact T2|exact RH]. eapply pop_buffer_sinv; eauto.
    + destruct tm as [t|].
      * apply andb_true_iff in W. destruct W as [W1 W2].
        assert (Ht : 0 <= t <= q_samples q) by lia.
        rewrite (pause_all_rep q t) in H, W2, T by lia.
        destruct (play_hist all_rep (pause_state q t) _ ops) as [[[q2 e2] P2]|] eqn:RH; [|discriminate].
        inversion H; subst q' ev P'. rewrite added_of_app, added_of_map_removed. cbn [app].
        eapply IH; [|exact W2|exact T|exact RH]. cbn [truncate]. apply pause_sinv; assumption.
      * cbn [pause] in H, W, T.
        destruct (play_hist all_rep _ _ ops) as [[[q2 e2] P2]|] eqn:RH; [|discriminate].
        inversion H; subst q' ev P'. cbn [app]. eapply IH; [|exact W|exact T|exact RH]. exact I.
    + apply andb_true_iff in W. destruct W as [W1 W2]. apply andb_true_iff in T. destruct T as [T1 T2].
      eapply IH; [|exact W2|exact T2|exact H]. apply resume_sinv; [exact I|exact T1|].
      destruct tm; [lia|exact Logic.I].
Qed.

(* play_hist is run_hist plus the stream *)
Lemma play_hist_run R : forall ops q P q' ev P',
  play_hist R q P ops = Some (q', ev, P') -> run_hist R q ops = Some (q', ev).
Proof.
  induction ops as [|op ops IH]; intros q P q' ev P' H; cbn [play_hist run_hist] in *.
  - inversion H; reflexivity.
  - destruct op as [n|tm|tm].
    + destruct (pop_buffer R q n) as [[[q1 o1] e1]|]; [|discriminate].
      destruct (play_hist R q1 _ ops) as [[[q2 e2] P2]|] eqn:RH; [|discriminate].
      rewrite (IH _ _ _ _ _ RH). inversion H; reflexivity.
    + destruct (pause R q tm) as [[q1 e1] err]. destruct err; [discriminate|].
      destruct (play_hist R q1 _ ops) as [[[q2 e2] P2]|] eqn:RH; [|discriminate].
      rewrite (IH _ _ _ _ _ RH). inversion H; reflexivity.
    + rewrite (IH _ _ _ _ _ H). reflexivity.
Qed.

(* ------------------------------------------------------------------ *)
(* the statements of Props/C06.v about the stream                      *)
(* ------------------------------------------------------------------ *)
Lemma live_In q k t0 : In (k, t0) (live_of q) -> exists i, In i (q_generated q) /\ q_key i = k /\ i_t0 i = t0.
Proof.
  unfold live_of. intros H. apply in_map_iff in H. destruct H as (i & E & Hi). inversion E. eauto.
Qed.

Lemma chain_disjoint es g : chain g -> Forall (fun i => i_dur i = len_of es (q_key i)) g ->
  disjoint_live es (map (fun i => (q_key i, i_t0 i)) g).
Proof.
  induction g as [|a g IH]; cbn [chain map disjoint_live]; [auto|]. intros [C1 C2] F.
  inversion F as [|? ? Fa Fg]; subst. split; [|auto].
  apply Forall_map. eapply Forall_impl; [|exact C1]. cbn. intros b Hb. unfold iend in Hb. lia.
Qed.

Theorem trials_in_stream : forall p es ch pm ops q ev P,
  wf_queue p es = true -> wf_hist all_rep (qinit p es ch pm) ops = true ->
  timed_hist all_rep (qinit p es ch pm) ops = true ->
  play_hist all_rep (qinit p es ch pm) [] ops = Some (q, ev, P) ->
  (forall k t0 j, In (k, t0) (live_of q) -> 0 <= j < len_of es k -> t0 + j < q_samples q ->
                  znth P (t0 + j) = Some (OWave k j)) /\
  disjoint_live es (live_of q) /\
  (forall k t0, In (k, t0) (live_of q) -> In (k, t0) (added_of ev) /\ 0 <= t0 /\
                (t0 + len_of es k <= q_samples q \/ in_progress q = true)) /\
  (forall s x, znth P s = Some x ->
               x = OZero \/ exists k t0, In (k, t0) (added_of ev) /\ x = OWave k (s - t0) /\
                                          t0 <= s < t0 + len_of es k).
Proof.
  intros p es ch pm ops q ev P W WH TH H.
  pose proof (play_hist_sinv es ops _ _ _ _ _ _ (sinv_init p es ch pm W) WH TH H) as I.
  cbn [app] in I. unfold sinv in I. pose proof I as [I1 I2 I3 I4 I5 I6 I7].
  rewrite Forall_forall in I3.
  split; [|split; [|split]].
  - intros k t0 j L Hj Hlt. apply live_In in L. destruct L as (i & Hi & <- & <-).
    destruct (I3 i Hi) as (L1 & _). apply I6; auto. lia.
  - apply chain_disjoint; [exact I4|]. apply Forall_forall. intros i Hi. apply (I3 i Hi).
  - intros k t0 L. apply live_In in L. destruct L as (i & Hi & <- & <-).
    destruct (I3 i Hi) as (L1 & L2 & L3 & L4 & _). split; [exact L4|]. split; [exact L3|].
    destruct (in_progress q) eqn:IP; [right; reflexivity|left].
    apply in_progress_false in IP.
    assert (Hc : Forall (fun i => iend i <= q_samples q) (q_generated q)).
    { eapply sinv_ends; [exact I|]. destruct (q_source q) as [[[k pos] len]|]; [|exact Logic.I].
      destruct I5 as (g' & i' & _ & _ & _ & H3 & _). lia. }
    rewrite Forall_forall in Hc. specialize (Hc i Hi). unfold iend in Hc. lia.
  - exact I7.
Qed.

(* positions that no notified trial (kept or cancelled) covers are silent *)
Corollary silence_elsewhere : forall p es ch pm ops q ev P,
  wf_queue p es = true -> wf_hist all_rep (qinit p es ch pm) ops = true ->
  timed_hist all_rep (qinit p es ch pm) ops = true ->
  play_hist all_rep (qinit p es ch pm) [] ops = Some (q, ev, P) ->
  forall s, 0 <= s < zlen P ->
    (forall k t0, In (k, t0) (added_of ev) -> ~ (t0 <= s < t0 + len_of es k)) ->
    znth P s = Some OZero.
Proof.
  intros p es ch pm ops q ev P W WH TH H s Hs Hn.
  destruct (trials_in_stream p es ch pm ops q ev P W WH TH H) as (_ & _ & _ & HA).
  destruct (znth_lt_Some P s Hs) as [x Hx]. rewrite Hx. f_equal.
  destruct (HA s x Hx) as [H0|(k & t0 & Hin & _ & Hr)]; [exact H0|]. exfalso. exact (Hn k t0 Hin Hr).
Qed.
