(* C06 composition over the GENERATED definitions of both components.
   source_run_steps executes a combined schedule (EndToEnd/Model.v `step`) with
     - the queue operations regenerated from psiaudio/queue.py (gen/QueueStepGen.v: g_pop_buffer / g_pause / g_resume),
       called on the queue object with an emptied recorder (`mk q []`): what they notify is appended to the deques,
     - the extractor send regenerated from psiaudio/pipeline.py (gen/CaptureGen.v: extract_epochs_send through
       Extract/ProofsTieSend.source_send), fed the chunk of the device buffer and the notifications waiting in the deques;
       after a send has raised the generator is dead and receives nothing more.
   Theorem source_run_steps_is_model: from the initial states the C06 theorems start from, this is run_steps of the
   hand-written composition followed by the model extractor's run (up to sout_of), for EVERY schedule; the queue
   invariants (ProofsC04Inv.inv, ProofsTie.tie_wf) and the extractor's domain wf_xe are carried along.
   Then C06_end_to_end / C06_trials_in_stream are restated over source_run_steps.  Stdlib only, no axioms. *)
From Coq Require Import ZArith List Bool Lia.
From PV Require Import EndToEnd.Model EndToEnd.Spec EndToEnd.ProofsStream EndToEnd.ProofsLive EndToEnd.ProofsCompose.
From PV Require Import gen.CaptureGen Extract.ProofsTieSend.
From PV Require Import Queue.LemmasC04 Queue.ProofsC04Inv.
From PV Require Import Queue.TieLib Queue.TieLibC04 gen.QueueStepGen Queue.ProofsTie Queue.ProofsTieC04.
Import ListNotations.
Open Scope Z_scope.

(* ---- 1. the schedule run with the generated operations ---- *)
Definition source_qstep (st : cstate) (o : qop) : option cstate :=
  let q := s_q st in
  match o with
  | Pop n =>
    match g_pop_buffer (pop_fuel q n) (mk q []) n true with
    | GOk self out =>
      Some {| s_q := o_q self; s_P := splice (s_P st) (q_samples q) out; s_acq := s_acq st;
              s_notes := s_notes st ++ o_ev self; s_live := s_live st; s_added := s_added st ++ added_of (o_ev self) |}
    | GRaise _ _ => None
    end
  | Pause tm =>
    match g_pause (mk q []) tm with
    | GOk self _ =>
      Some {| s_q := o_q self; s_P := truncate (s_P st) tm; s_acq := s_acq st;
              s_notes := s_notes st ++ o_ev self; s_live := s_live st; s_added := s_added st |}
    | GRaise _ _ => None
    end
  | Resume tm =>
    match g_resume (mk q []) tm with
    | GOk self _ =>
      Some {| s_q := o_q self; s_P := s_P st; s_acq := s_acq st; s_notes := s_notes st ++ o_ev self;
              s_live := s_live st; s_added := s_added st |}
    | GRaise _ _ => None
    end
  end.

(* the outputs of the sends, in order; None = a queue operation raised *)
Fixpoint source_run_steps (B : Z) (k : kind) (X : ecfg) (st : cstate) (g : option xe_state) (steps : list step)
  : option (cstate * list sout) :=
  match steps with
  | [] => Some (st, [])
  | SQ o :: t => match source_qstep st o with None => None | Some st1 => source_run_steps B k X st1 g t end
  | SA m :: t =>
    match g with
    | None => source_run_steps B k X (astep st m) None t
    | Some gx =>
      match source_send B k gx (feed_of X st m) with
      | XOk (g', tgt, cb) =>
        match source_run_steps B k X (astep st m) (Some g') t with
        | None => None
        | Some (st', outs) => Some (st', SOut (batch_of_target tgt) cb :: outs)
        end
      | XRaise e =>
        match source_run_steps B k X (astep st m) None t with
        | None => None
        | Some (st', outs) => Some (st', SRaise e :: outs)
        end
      end
    end
  end.

(* ---- 2. one queue operation: the generated one is the model's, and the invariants are kept ---- *)
Definition qinv (p : policy) (es : list entry) (q : qstate) : Prop := (exists evI, inv p es q evI) /\ tie_wf q.

Lemma source_qstep_is_qstep p es st o : qinv p es (s_q st) ->
  source_qstep st o = qstep all_rep st o /\
  (forall st1, qstep all_rep st o = Some st1 -> qinv p es (s_q st1)).
Proof.
  intros [[evI I] Hw]. unfold source_qstep, qstep. destruct o as [n|tm|tm].
  - pose proof (tie_pop_buffer_ev (pop_fuel (s_q st) n) (s_q st) [] n Hw) as H1. unfold pop_buffer.
    destruct (pop_loop (pop_fuel (s_q st) n) all_rep (s_q st) n) as [[[q1 o1] e1]|] eqn:PB.
    + rewrite H1. cbn [o_q o_ev mk app]. split; [reflexivity|].
      intros st1 H; injection H as <-. cbn [s_q]. split.
      * exists (evI ++ e1). eapply pop_loop_inv; eauto.
      * eapply tie_wf_loop; eauto.
    + destruct H1 as (x & s & H1). rewrite H1. split; [reflexivity|discriminate].
  - pose proof (inv_log_keys_ok _ _ _ _ I) as Hl. rewrite (tie_pause (s_q st) [] tm Hl).
    destruct tm as [t|].
    + destruct (Z_le_dec t (q_samples (s_q st))) as [Ht|Ht].
      * rewrite (pause_all_rep (s_q st) t Ht). cbn [o_q o_ev mk app]. split; [reflexivity|].
        intros st1 H; injection H as <-. cbn [s_q]. split.
        -- eexists. apply inv_pause. exact I.
        -- now apply tie_wf_pause_state.
      * unfold pause. cbn [r_pause_atomic all_rep andb]. assert (E : t >? q_samples (s_q st) = true) by lia.
        rewrite E. split; [reflexivity|discriminate].
    + cbn [pause o_q o_ev mk app]. split; [reflexivity|].
      intros st1 H; injection H as <-. cbn [s_q]. split.
      * exists evI. exact (inv_pause_none p es all_rep (s_q st) evI I).
      * eapply tie_wf_ext; [| | | | |exact Hw]; reflexivity.
  - rewrite tie_resume. cbn [o_q o_ev mk]. rewrite app_nil_r. split; [reflexivity|].
    intros st1 H; injection H as <-. cbn [s_q]. split.
    + exists evI. now apply inv_resume.
    + eapply tie_wf_ext; [| | | | |exact Hw]; reflexivity.
Qed.

(* ---- 3. the whole schedule ---- *)
Lemma source_run_steps_dead B k X p es : forall steps st, qinv p es (s_q st) ->
  source_run_steps B k X st None steps =
  match run_steps all_rep X st steps with None => None | Some (st', _) => Some (st', []) end.
Proof.
  induction steps as [|[o|m] t IH]; intros st Hq; cbn [source_run_steps run_steps]; [reflexivity| |].
  - destruct (source_qstep_is_qstep p es st o Hq) as [-> Hk].
    destruct (qstep all_rep st o) as [st1|]; [|reflexivity]. apply IH. now apply Hk.
  - rewrite (IH (astep st m) Hq). destruct (run_steps all_rep X (astep st m) t) as [[st' fs]|]; reflexivity.
Qed.

Lemma source_run_steps_tie B k X p es : 0 <= B -> forall steps st g, qinv p es (s_q st) -> wf_xe g ->
  source_run_steps B k X st (Some g) steps =
  match run_steps all_rep X st steps with None => None | Some (st', fs) => Some (st', source_trace B k g fs) end.
Proof.
  intros HB. induction steps as [|[o|m] t IH]; intros st g Hq Hg; cbn [source_run_steps run_steps]; [reflexivity| |].
  - destruct (source_qstep_is_qstep p es st o Hq) as [-> Hk].
    destruct (qstep all_rep st o) as [st1|]; [|reflexivity]. apply IH; [now apply Hk|exact Hg].
  - pose proof (source_send_is_feed_step B k g (feed_of X st m) HB Hg) as Hs.
    destruct (source_send B k g (feed_of X st m)) as [[[g' tgt] cb]|e] eqn:Es.
    + destruct Hs as [_ Hg']. rewrite (IH (astep st m) g' Hq Hg').
      destruct (run_steps all_rep X (astep st m) t) as [[st' fs]|]; [|reflexivity].
      cbn [source_trace]. rewrite Es. reflexivity.
    + rewrite (source_run_steps_dead B k X p es t (astep st m) Hq).
      destruct (run_steps all_rep X (astep st m) t) as [[st' fs]|]; [|reflexivity].
      cbn [source_trace]. rewrite Es. reflexivity.
Qed.

Lemma qinv_init p es ch pm : wf_queue p es = true -> oracle_ok p pm -> qinv p es (qinit p es ch pm).
Proof.
  intros W Ho. split; [exists []; now apply inv_init|].
  apply tie_wf_init; [now apply wf_queue_policy|exact Ho].
Qed.

Theorem source_run_steps_is_model : forall p es ch pm B k X steps,
  wf_queue p es = true -> oracle_ok p pm -> 0 <= B ->
  source_run_steps B k X (cinit (qinit p es ch pm)) (Some (extract_epochs_init true)) steps =
  match run_steps all_rep X (cinit (qinit p es ch pm)) steps with
  | None => None
  | Some (st, fs) => Some (st, map sout_of (run B k fs))
  end.
Proof.
  intros p es ch pm B k X steps W Ho HB.
  rewrite (source_run_steps_tie B k X p es HB steps (cinit (qinit p es ch pm)) (extract_epochs_init true)
             (qinv_init p es ch pm W Ho) (proj1 (proj2 source_init))).
  destruct (run_steps all_rep X (cinit (qinit p es ch pm)) steps) as [[st fs]|]; [|reflexivity].
  f_equal. f_equal. exact (source_run_is_run B k fs HB).
Qed.

(* ---- 4. the C06 theorems over source_run_steps ---- *)
Definition s_raised (o : sout) : bool := match o with SRaise _ => true | SOut _ _ => false end.
Definition s_delivered (outs : list sout) : list item :=
  flat_map (fun o => match o with SOut b _ => b | SRaise _ => [] end) outs.

Lemma s_delivered_map outs : s_delivered (map sout_of outs) = delivered outs.
Proof.
  unfold s_delivered, delivered. induction outs as [|o t IH]; [reflexivity|]. cbn [map flat_map]. rewrite IH.
  destruct o as [b cb|[|]]; reflexivity.
Qed.

Lemma s_raised_map outs : Forall (fun o => PV.Extract.Spec.is_err o = false) outs ->
  Forall (fun o => s_raised o = false) (map sout_of outs).
Proof.
  induction 1 as [|o t Ho _ IH]; cbn [map]; constructor; [|exact IH]. destruct o as [b cb|[|]]; [reflexivity|discriminate..].
Qed.

Theorem source_end_to_end : forall p es ch pm B k X steps st outs,
  wf_queue p es = true -> oracle_ok p pm -> 0 <= B ->
  minlen es = true -> forallb (fun e => e_len e <=? x_n X) es = true ->
  x_K X = zlen es -> x_pre X = 0 ->
  wf_steps all_rep (cinit (qinit p es ch pm)) steps = true ->
  source_run_steps B k X (cinit (qinit p es ch pm)) (Some (extract_epochs_init true)) steps = Some (st, outs) ->
  s_notes st = [] ->
  poststim_fits es (x_n X) (s_added st) (live_of (s_q st)) = true ->
  Forall (fun o => s_raised o = false) outs /\
  s_delivered outs = map (epoch_item X es) (filter (complete (x_n X) (s_acq st)) (live_of (s_q st))).
Proof.
  intros p es ch pm B k X steps st outs W Ho HB Hm Hl HK Hp Hwf Hr Hn Hf.
  rewrite (source_run_steps_is_model p es ch pm B k X steps W Ho HB) in Hr.
  destruct (run_steps all_rep X (cinit (qinit p es ch pm)) steps) as [[st' fs]|] eqn:Er; [|discriminate].
  injection Hr as <- <-.
  destruct (end_to_end p es ch pm B k X steps st' fs W Hm Hl HK Hp Hwf Er Hn Hf) as [E1 E2].
  split; [now apply s_raised_map|]. rewrite s_delivered_map. exact E2.
Qed.

Theorem source_trials_in_stream : forall p es ch pm B k X steps st outs,
  wf_queue p es = true -> oracle_ok p pm -> 0 <= B ->
  wf_steps all_rep (cinit (qinit p es ch pm)) steps = true ->
  source_run_steps B k X (cinit (qinit p es ch pm)) (Some (extract_epochs_init true)) steps = Some (st, outs) ->
  let q := s_q st in let P := s_P st in
  (forall k t0 j, In (k, t0) (live_of q) -> 0 <= j < len_of es k -> t0 + j < q_samples q ->
                  znth P (t0 + j) = Some (OWave k j)) /\
  disjoint_live es (live_of q) /\
  (forall k t0, In (k, t0) (live_of q) -> In (k, t0) (s_added st) /\ 0 <= t0 /\
                (t0 + len_of es k <= q_samples q \/ in_progress q = true)) /\
  (forall s x, znth P s = Some x ->
               x = OZero \/ exists k t0, In (k, t0) (s_added st) /\ x = OWave k (s - t0) /\
                                          t0 <= s < t0 + len_of es k).
Proof.
  intros p es ch pm B k X steps st outs W Ho HB Hwf Hr.
  rewrite (source_run_steps_is_model p es ch pm B k X steps W Ho HB) in Hr.
  destruct (run_steps all_rep X (cinit (qinit p es ch pm)) steps) as [[st' fs]|] eqn:Er; [|discriminate].
  injection Hr as <- _.
  destruct (run_steps_play _ _ _ _ _ _ Er) as (ev & Hp & Ha). cbn [cinit s_q s_P s_added app] in Hp, Ha.
  destruct (wf_steps_hist _ _ _ Hwf) as [H1 H2]. cbn [cinit s_q] in H1, H2.
  rewrite Ha. exact (trials_in_stream p es ch pm (ops_of steps) (s_q st') ev (s_P st') W H1 H2 Hp).
Qed.
