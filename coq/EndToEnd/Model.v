(* C06: the queue -> playback device -> epoch extractor loop (tests/test_queue.py), composed from the
   two models that are tied to the code on their own: coq/Queue/Model.v (psiaudio/queue.py) and
   coq/Extract/Model.v (psiaudio.pipeline.extract_epochs).  Definitions only.

   Everything is in samples of the acquisition clock.  A queue whose start offset is T0 = j/fs
   (set_t0) is modelled by a history that begins with `Resume (Some j)`: its clock then counts
   acquisition samples, exactly as the times it publishes do (t0 = T0 + samples/fs).

   loop in tests/test_queue.py / harness/C06.py          model
   ----------------------------------------------------  ---------------------------------------------
   w = queue.pop_buffer(n); device buffer[c:c+n] = w      SQ (Pop n): splice P c w
   queue.pause(t); device keeps buffer[:round(t*fs)]      SQ (Pause (Some t)): firstn t P
   queue.pause() / queue.resume(t) / queue.resume()       SQ (Pause None) / SQ (Resume ..): P unchanged
   queue.connect(added.append, 'added') ...               s_notes: notifications not yet seen by the extractor
   extractor.send(buffer[acq:acq+m])                      SA m: one feed of Extract.Model with the chunk, the
                                                          pending `removed` and `added` notifications
   (t0, key) of extract_epochs' dictionary                pkey K key t0 = t0 * K + key  (K = number of stimuli)
   round((t0 - prestim)*fs), round(total_size*fs)         t0 - pre, n   (given integers; the float part is
                                                          coq/FloatGrid/Grid.v)                              *)
From PV Require Export Queue.Spec.
From PV Require Export Extract.Spec.

(* both models have a field called i_key; the unqualified name is Extract's (epoch items) *)
Notation q_key := PV.Queue.Model.i_key.

(* ---------- the played stream ---------- *)
(* the device buffer after `out` has been written at clock position c: positions below c keep what they
   held (silence where nothing had been written), [c, c+|out|) hold out, later positions keep what they held *)
Definition splice (P : list osample) (c : Z) (out : list osample) : list osample :=
  firstn (Z.to_nat c) P ++ repeat OZero (Z.to_nat (c - zlen P)) ++ out
  ++ skipn (Z.to_nat (c + zlen out)) P.

Definition truncate (P : list osample) (tm : option Z) : list osample :=
  match tm with Some t => firstn (Z.to_nat t) P | None => P end.

(* run_hist of Queue/Spec.v, additionally returning the played stream *)
Fixpoint play_hist (R : qrep) (q : qstate) (P : list osample) (ops : list qop)
  : option (qstate * list event * list osample) :=
  match ops with
  | [] => Some (q, [], P)
  | Pop n :: t =>
    match pop_buffer R q n with
    | None => None
    | Some (q1, out, e1) =>
      match play_hist R q1 (splice P (q_samples q) out) t with
      | None => None
      | Some (q2, e2, P2) => Some (q2, e1 ++ e2, P2)
      end
    end
  | Pause tm :: t =>
    let '(q1, e1, err) := pause R q tm in
    if err then None
    else match play_hist R q1 (truncate P tm) t with
         | None => None
         | Some (q2, e2, P2) => Some (q2, e1 ++ e2, P2)
         end
  | Resume tm :: t => play_hist R (resume q tm) P t
  end.

(* ---------- histories in which every interruption of a waveform is a timed pause ---------- *)
(* a waveform is being generated: some of its samples are still to come *)
Definition in_progress (q : qstate) : bool :=
  match q_source q with Some (_, pos, len) => pos <? len | None => false end.
(* every logged (non-cancelled) trial ends at or before t *)
Definition ends_by (q : qstate) (t : Z) : bool :=
  forallb (fun i => i_t0 i + i_dur i <=? t) (q_generated q).

(* what one operation must satisfy, checked on the running state:
   - no silence is generated into the middle of a waveform (an un-timed pause() while a waveform is in
     progress, followed by paused generation, splits the trial without cancelling it),
   - resume(t) does not move the clock under a waveform in progress, nor back before the end of a kept trial *)
Definition timed_op (q : qstate) (o : qop) : bool :=
  match o with
  | Pop n => negb (q_paused q && in_progress q && (0 <? n))
  | Pause _ => true
  | Resume None => true
  | Resume (Some x) => if in_progress q then x =? q_samples q else ends_by q x
  end.

Fixpoint timed_hist (R : qrep) (q : qstate) (ops : list qop) : bool :=
  match ops with
  | [] => true
  | Pop n :: t =>
    timed_op q (Pop n) && match pop_buffer R q n with Some (q1, _, _) => timed_hist R q1 t | None => false end
  | Pause tm :: t => let '(q1, _, _) := pause R q tm in timed_hist R q1 t
  | Resume tm :: t => timed_op q (Resume tm) && timed_hist R (resume q tm) t
  end.

(* ---------- notifications as the extractor sees them ---------- *)
Fixpoint remove_pair (x : Z * Z) (l : list (Z * Z)) : list (Z * Z) :=
  match l with [] => [] | y :: t => if eqb_pairZ x y then t else y :: remove_pair x t end.

(* the (key, t0) pairs requested and not cancelled after the notifications ev, starting from L *)
Fixpoint net_live (L : list (Z * Z)) (ev : list event) : list (Z * Z) :=
  match ev with
  | [] => L
  | EAdded k t :: r => net_live (L ++ [(k, t)]) r
  | ERemoved k t :: r => net_live (remove_pair (k, t) L) r
  | EEmpty :: r => net_live L r
  end.

Definition pkey (K k t0 : Z) : Z := t0 * K + k.
Definition req_of (K n pre : Z) (kt : Z * Z) : request :=
  {| r_key := pkey K (fst kt) (snd kt); r_lo := snd kt - pre; r_n := n; r_rid := fst kt |}.

(* ---------- the combined schedule ---------- *)
Inductive step := SQ (o : qop) | SA (m : Z).

Record cstate := {
  s_q : qstate;
  s_P : list osample;          (* the device buffer: what has been / will be played *)
  s_acq : Z;                   (* samples already sent to the extractor *)
  s_notes : list event;        (* notifications waiting in the two deques *)
  s_live : list (Z * Z);       (* ghost: the queue's non-cancelled trials when the deques were last emptied *)
  s_added : list (Z * Z)       (* ghost: every (key, t0) notified as added so far, cancelled or not *)
}.
Definition cinit (q : qstate) : cstate :=
  {| s_q := q; s_P := []; s_acq := 0; s_notes := []; s_live := []; s_added := [] |}.

Record ecfg := { x_val : osample -> Z;   (* the value of a sample (stands for the float) *)
                 x_K : Z;                (* number of stimuli *)
                 x_n : Z;                (* epoch length  round((epoch_size + post + pre) * fs) *)
                 x_pre : Z }.            (* round(prestim * fs) *)

Definition feed_of (X : ecfg) (st : cstate) (m : Z) : feed :=
  {| f_chunk := map (x_val X) (firstn (Z.to_nat m) (skipn (Z.to_nat (s_acq st)) (s_P st)));
     f_rems := map (fun kt => pkey (x_K X) (fst kt) (snd kt)) (removed_of (s_notes st));
     f_reqs := map (req_of (x_K X) (x_n X) (x_pre X)) (added_of (s_notes st));
     f_complete := true |}.

Definition qstep (R : qrep) (st : cstate) (o : qop) : option cstate :=
  let q := s_q st in
  match o with
  | Pop n =>
    match pop_buffer R q n with
    | None => None
    | Some (q1, out, e1) =>
      Some {| s_q := q1; s_P := splice (s_P st) (q_samples q) out; s_acq := s_acq st;
              s_notes := s_notes st ++ e1; s_live := s_live st; s_added := s_added st ++ added_of e1 |}
    end
  | Pause tm =>
    let '(q1, e1, err) := pause R q tm in
    if err then None
    else Some {| s_q := q1; s_P := truncate (s_P st) tm; s_acq := s_acq st;
                 s_notes := s_notes st ++ e1; s_live := s_live st; s_added := s_added st |}
  | Resume tm =>
    Some {| s_q := resume q tm; s_P := s_P st; s_acq := s_acq st; s_notes := s_notes st;
            s_live := s_live st; s_added := s_added st |}
  end.

Definition astep (st : cstate) (m : Z) : cstate :=
  {| s_q := s_q st; s_P := s_P st; s_acq := s_acq st + m; s_notes := [];
     s_live := live_of (s_q st); s_added := s_added st |}.

(* the feeds the extractor receives; None = the queue raised *)
Fixpoint run_steps (R : qrep) (X : ecfg) (st : cstate) (steps : list step) : option (cstate * list feed) :=
  match steps with
  | [] => Some (st, [])
  | SQ o :: t => match qstep R st o with None => None | Some st1 => run_steps R X st1 t end
  | SA m :: t =>
    match run_steps R X (astep st m) t with
    | None => None
    | Some (st', fs) => Some (st', feed_of X st m :: fs)
    end
  end.

(* schedules the property quantifies over.  Queue operations as in wf_hist (non-negative requests, pause
   times not after the clock) and timed_hist; the playback device: a chunk is acquired only after it has
   been generated, and a pause or resume time is never earlier than what has already been acquired *)
Definition wf_qop (R : qrep) (st : cstate) (o : qop) : bool :=
  let q := s_q st in
  timed_op q o &&
  match o with
  | Pop n => 0 <=? n
  | Pause (Some x) => (0 <=? x) && (x <=? q_samples q) && (s_acq st <=? x)
  | Pause None => true
  | Resume (Some x) => (0 <=? x) && (s_acq st <=? x)
  | Resume None => true
  end.

Fixpoint wf_steps (R : qrep) (st : cstate) (steps : list step) : bool :=
  match steps with
  | [] => true
  | SQ o :: t => wf_qop R st o && match qstep R st o with Some st1 => wf_steps R st1 t | None => false end
  | SA m :: t =>
    (0 <=? m) && (s_acq st + m <=? q_samples (s_q st)) && (s_acq st + m <=? zlen (s_P st))
    && wf_steps R (astep st m) t
  end.

Fixpoint ops_of (steps : list step) : list qop :=
  match steps with [] => [] | SQ o :: t => o :: ops_of t | SA _ :: t => ops_of t end.
