(* C06, part 3: what one extractor.send() does with a batch of notifications.  extract_epochs first drains the
   whole `removed` deque (cancelling pending epochs, remembering in `skip` the keys it does not know yet) and
   then the whole `added` deque (dropping one request per remembered key).  For notifications issued in a
   valid order this two-phase processing has the same effect as replaying them one by one (net_live), also
   when a cancelled trial is presented again with the same (key, t0). *)
From Coq Require Import ZArith List Bool Lia ZifyBool.
From PV Require Import EndToEnd.Model EndToEnd.Spec EndToEnd.ListLemmas EndToEnd.ProofsStream EndToEnd.ProofsLive.
From PV Require Import Extract.ProofsCapture Extract.ProofsRefine.
Import ListNotations.
Open Scope Z_scope.

Lemma Memz_In k l : memz k l = true <-> In k l.
Proof.
  unfold memz. rewrite existsb_exists. split.
  - intros (y & Hy & E). apply Z.eqb_eq in E. subst. exact Hy.
  - intros H. exists k. split; [exact H|apply Z.eqb_refl].
Qed.
Lemma Memz_false k l : memz k l = false <-> ~ In k l.
Proof. rewrite <- Memz_In. destruct (memz k l); split; congruence. Qed.
Lemma Memz_app k a b : memz k (a ++ b) = memz k a || memz k b.
Proof. unfold memz. apply existsb_app. Qed.

Lemma remove_first_app_in k a b : In k a -> remove_first k (a ++ b) = remove_first k a ++ b.
Proof.
  induction a as [|x a IH]; cbn [remove_first app]; [intros []|]. intros H.
  destruct (x =? k) eqn:E; [reflexivity|]. cbn [app]. f_equal. apply IH. destruct H; [lia|assumption].
Qed.
Lemma remove_first_app_notin k a : ~ In k a -> remove_first k (a ++ [k]) = a.
Proof.
  induction a as [|x a IH]; cbn [remove_first app]; intros H.
  - rewrite Z.eqb_refl. reflexivity.
  - destruct (x =? k) eqn:E; [exfalso; apply H; left; lia|]. f_equal. apply IH. intros Hi. apply H. right. exact Hi.
Qed.

Lemma NoDup_app_snoc {A} (l : list A) x : NoDup l -> ~ In x l -> NoDup (l ++ [x]).
Proof.
  induction l as [|y l IH]; cbn [app]; intros N H; [constructor; [intros []|constructor]|].
  inversion N as [|? ? Hn Hd]; subst. constructor.
  - intros Hin. apply in_app_or in Hin. destruct Hin as [Hin|[<-|[]]]; [contradiction|]. apply H. left. reflexivity.
  - apply IH; [exact Hd|]. intros Hi. apply H. right. exact Hi.
Qed.
Lemma NoDup_app_remove_l {A} (a b : list A) : NoDup (a ++ b) -> NoDup b.
Proof. induction a as [|x a IH]; cbn [app]; [auto|]. intros N. inversion N; auto. Qed.
Lemma NoDup_app_remove_r {A} (a b : list A) : NoDup (a ++ b) -> NoDup a.
Proof.
  induction a as [|x a IH]; cbn [app]; [constructor|]. intros N. inversion N as [|? ? Hn Hd]; subst.
  constructor; [|auto]. intros Hi. apply Hn. apply in_or_app. left. exact Hi.
Qed.

Section Batch.
  Variables K n pre : Z.
  Let rq := req_of K n pre.
  Let pk := fun kt : Z * Z => pkey K (fst kt) (snd kt).
  Let dom := fun kt : Z * Z => 0 <= fst kt < K.

  Lemma pk_inj x y : dom x -> dom y -> pk x = pk y -> x = y.
  Proof.
    unfold pk, dom. destruct x as [a b], y as [c d]. cbn [fst snd]. intros Hx Hy E.
    apply pkey_inj in E; [|assumption|assumption]. destruct E; subst; reflexivity.
  Qed.

  Lemma rq_key x : r_key (rq x) = pk x.
  Proof. reflexivity. Qed.

  Lemma has_key_pk k l : has_key pk k l = true <-> exists y, In y l /\ pk y = k.
  Proof.
    induction l as [|x l IH]; cbn [has_key]; [split; [discriminate|intros (y & [] & _)]|].
    rewrite orb_true_iff, IH, Z.eqb_eq. split.
    - intros [H|(y & Hy & E)]; [exists x; split; [left; reflexivity|exact H]|exists y; split; [right; exact Hy|exact E]].
    - intros (y & [<-|Hy] & E); [left; exact E|right; eauto].
  Qed.

  Lemma del_key_remove_pair x l : Forall dom l -> dom x -> del_key pk (pk x) l = remove_pair x l.
  Proof.
    induction 1 as [|y l Hy Hl IH]; intros Hx; cbn [del_key remove_pair]; [reflexivity|].
    destruct (pk y =? pk x) eqn:E.
    - assert (y = x) by (apply pk_inj; auto; lia). subst.
      assert (E2 : eqb_pairZ x x = true) by (apply eqb_pairZ_iff; reflexivity). rewrite E2. reflexivity.
    - destruct (eqb_pairZ x y) eqn:E2; [apply eqb_pairZ_iff in E2; subst; lia|]. f_equal. auto.
  Qed.

  Lemma NoDup_pk_remove x l : NoDup (map pk l) -> NoDup (map pk (remove_pair x l)).
  Proof.
    induction l as [|y l IH]; cbn [remove_pair map]; [auto|]. intros N. inversion N as [|? ? Hn Hd]; subst.
    destruct (eqb_pairZ x y); [exact Hd|]. cbn [map]. constructor; [|auto].
    intros Hin. apply Hn. apply in_map_iff in Hin. destruct Hin as (z & E & Hz). rewrite <- E.
    apply in_map. eapply In_remove_pair. exact Hz.
  Qed.

  Lemma Forall_remove_pair (Q : Z * Z -> Prop) x l : Forall Q l -> Forall Q (remove_pair x l).
  Proof.
    induction 1 as [|y l Hy Hl IH]; cbn [remove_pair]; [constructor|].
    destruct (eqb_pairZ x y); [assumption|constructor; assumption].
  Qed.

  (* the `added` deque against the remembered keys: requests kept, keys left over *)
  Fixpoint eff (A : list (Z * Z)) (skip : list Z) : list (Z * Z) * list Z :=
    match A with
    | [] => ([], skip)
    | a :: t => if memz (pk a) skip then eff t (remove_first (pk a) skip)
                else let '(r, s) := eff t skip in (a :: r, s)
    end.

  Lemma eff_app A : forall B skip,
    eff (A ++ B) skip = (fst (eff A skip) ++ fst (eff B (snd (eff A skip))), snd (eff B (snd (eff A skip)))).
  Proof.
    induction A as [|a A IH]; intros B skip; cbn [eff app fst snd].
    - destruct (eff B skip); reflexivity.
    - destruct (memz (pk a) skip); [apply IH|].
      rewrite IH. destruct (eff A skip) as [r s]. cbn [fst snd]. reflexivity.
  Qed.

  Lemma eff_sub A : forall skip x, In x (fst (eff A skip)) -> In x A.
  Proof.
    induction A as [|a A IH]; intros skip x; cbn [eff fst]; [auto|].
    destruct (memz (pk a) skip).
    - intros H. right. eapply IH. exact H.
    - destruct (eff A skip) as [r s] eqn:E. cbn [fst]. intros [<-|H]; [left; reflexivity|right].
      apply (IH skip). rewrite E. exact H.
  Qed.

  Lemma eff_snoc_skip A : forall skip x, Forall dom A -> dom x ->
    snd (eff A skip) = [] -> In x (fst (eff A skip)) -> NoDup (map pk (fst (eff A skip))) ->
    eff A (skip ++ [pk x]) = (remove_pair x (fst (eff A skip)), []).
  Proof.
    induction A as [|a A IH]; intros skip x HA Hx Hs Hin Hnd; cbn [eff fst snd] in *; [destruct Hin|].
    inversion HA as [|? ? Ha HA']; subst.
    rewrite Memz_app.
    destruct (memz (pk a) skip) eqn:E; cbn [orb].
    - rewrite remove_first_app_in by (apply Memz_In; exact E). apply IH; assumption.
    - destruct (eff A skip) as [r s] eqn:Er. cbn [fst snd] in *. subst s.
      cbn [memz existsb]. rewrite orb_false_r.
      destruct (pk a =? pk x) eqn:E2.
      + assert (a = x) by (apply pk_inj; auto; lia). subst a.
        replace (pk x) with (pk x) by reflexivity.
        rewrite remove_first_app_notin by (apply Memz_false; exact E). rewrite Er.
        cbn [remove_pair]. assert (E3 : eqb_pairZ x x = true) by (apply eqb_pairZ_iff; reflexivity).
        rewrite E3. reflexivity.
      + assert (Hne : x <> a) by (intros ->; lia).
        destruct Hin as [Hin|Hin]; [congruence|].
        cbn [map] in Hnd. inversion Hnd as [|? ? Hn Hd]; subst.
        specialize (IH skip x HA' Hx). rewrite Er in IH. cbn [fst snd] in IH.
        rewrite (IH eq_refl Hin Hd). cbn [remove_pair].
        destruct (eqb_pairZ x a) eqn:E3; [apply eqb_pairZ_iff in E3; congruence|]. reflexivity.
  Qed.

  Definition dom_ev (e : event) : Prop :=
    match e with EAdded k _ => 0 <= k < K | ERemoved k _ => 0 <= k < K | EEmpty => True end.
  Definition rems_of (notes : list event) : list Z := map pk (removed_of notes).

  (* drain all removals, then take all additions = replay the notifications in order *)
  Lemma two_phase : forall notes W A sk,
    Forall dom W -> Forall dom A -> Forall dom_ev notes ->
    snd (eff A sk) = [] -> NoDup (map pk (W ++ fst (eff A sk))) ->
    valid_notes (W ++ fst (eff A sk)) notes ->
    snd (eff (A ++ added_of notes) (snd (drain pk (rems_of notes) W sk))) = [] /\
    fst (drain pk (rems_of notes) W sk) ++ fst (eff (A ++ added_of notes) (snd (drain pk (rems_of notes) W sk)))
    = net_live (W ++ fst (eff A sk)) notes.
  Proof.
    induction notes as [|e notes IH]; intros W A sk DW DA DN Hs Hnd V.
    - cbn [rems_of removed_of added_of flat_map map drain fst snd net_live]. rewrite app_nil_r. auto.
    - inversion DN as [|? ? De DN']; subst. destruct e as [k t|k t|].
      + (* added *)
        cbn [valid_notes net_live] in *. destruct V as [Vn V].
        change (rems_of (EAdded k t :: notes)) with (rems_of notes).
        change (added_of (EAdded k t :: notes)) with ((k, t) :: added_of notes).
        replace (A ++ (k, t) :: added_of notes) with ((A ++ [(k, t)]) ++ added_of notes)
          by (rewrite <- app_assoc; reflexivity).
        assert (Ee : eff (A ++ [(k, t)]) sk = (fst (eff A sk) ++ [(k, t)], [])).
        { rewrite eff_app, Hs. reflexivity. }
        specialize (IH W (A ++ [(k, t)]) sk DW).
        rewrite Ee in IH. cbn [fst snd] in IH.
        replace ((W ++ fst (eff A sk)) ++ [(k, t)]) with (W ++ fst (eff A sk) ++ [(k, t)]) in * by apply app_assoc.
        apply IH; auto.
        * apply Forall_app. split; [exact DA|]. constructor; [exact De|constructor].
        * rewrite app_assoc, map_app. cbn [map]. apply NoDup_app_snoc; [exact Hnd|].
          intros Hin. apply in_map_iff in Hin. destruct Hin as (y & E & Hy).
          assert (y = (k, t)).
          { apply pk_inj; auto.
            apply in_app_or in Hy. destruct Hy as [Hy|Hy].
            - rewrite Forall_forall in DW. auto.
            - apply eff_sub in Hy. rewrite Forall_forall in DA. auto. }
          subst. contradiction.
      + (* removed *)
        cbn [valid_notes net_live] in *. destruct V as [Vi V].
        change (rems_of (ERemoved k t :: notes)) with (pk (k, t) :: rems_of notes).
        change (added_of (ERemoved k t :: notes)) with (added_of notes).
        cbn [drain].
        assert (Hx : dom (k, t)) by exact De.
        destruct (has_key pk (pk (k, t)) W) eqn:HK.
        * apply has_key_pk in HK. destruct HK as (y & Hy & E).
          assert (y = (k, t)) by (apply pk_inj; auto; rewrite Forall_forall in DW; auto). subst y.
          rewrite del_key_remove_pair by assumption.
          rewrite remove_pair_app_l in V |- * by exact Hy.
          apply IH; auto.
          -- apply Forall_remove_pair. exact DW.
          -- rewrite <- remove_pair_app_l by exact Hy. apply NoDup_pk_remove. exact Hnd.
        * assert (HnW : ~ In (k, t) W).
          { intros Hin. assert (has_key pk (pk (k, t)) W = true) by (apply has_key_pk; eauto). congruence. }
          assert (HiE : In (k, t) (fst (eff A sk))).
          { apply in_app_or in Vi. tauto. }
          rewrite remove_pair_app_r in V |- * by exact HnW.
          assert (NdE : NoDup (map pk (fst (eff A sk)))).
          { rewrite map_app in Hnd. apply NoDup_app_remove_l in Hnd. exact Hnd. }
          pose proof (eff_snoc_skip A sk (k, t) DA Hx Hs HiE NdE) as Es.
          specialize (IH W A (sk ++ [pk (k, t)]) DW DA DN').
          rewrite Es in IH. cbn [fst snd] in IH. apply IH; auto.
          rewrite <- remove_pair_app_r by exact HnW. apply NoDup_pk_remove. exact Hnd.
      + cbn [valid_notes net_live] in *. apply IH; auto.
  Qed.
End Batch.

Section Intake.
  Variables K n pre : Z.
  Let rq := req_of K n pre.
  Let pk := fun kt : Z * Z => pkey K (fst kt) (snd kt).

  Lemma has_key_rq k W : has_key r_key k W = true <-> In k (map r_key W).
  Proof.
    induction W as [|x t IH]; cbn; [split; [discriminate|tauto]|].
    rewrite orb_true_iff, IH, Z.eqb_eq. tauto.
  Qed.

  (* the `while queue:` loop on the requests of the batch, given the keys remembered by the removal loop *)
  Lemma sintake_eff S T P : forall A W skip,
    NoDup (map r_key W ++ map pk (fst (eff K A skip))) ->
    Forall (fun kt => P <= r_lo (rq kt)) (fst (eff K A skip)) ->
    sintake S T P (map rq A) W skip =
    Some (W ++ filter (nready T) (map rq (fst (eff K A skip))),
          map (s_item S) (filter (ready T) (map rq (fst (eff K A skip))))).
  Proof.
    induction A as [|a A IH]; intros W skip Hnd Hvis.
    - cbn. rewrite app_nil_r. reflexivity.
    - assert (Eeff : eff K (a :: A) skip = if memz (pk a) skip then eff K A (remove_first (pk a) skip)
                                           else let '(r, s) := eff K A skip in (a :: r, s)) by reflexivity.
      rewrite Eeff in *. clear Eeff. cbn [map sintake]. change (r_key (rq a)) with (pk a).
      destruct (memz (pk a) skip) eqn:E.
      + apply IH; assumption.
      + 
        destruct (eff K A skip) as [r s] eqn:Er. cbn [fst map] in *.
        inversion Hvis as [|? ? Ha Hr]; subst.
        destruct (r_lo (rq a) <? P) eqn:E1; [lia|].
        assert (Hnd' : NoDup (map r_key W ++ map pk r)) by (eapply NoDup_remove_1; exact Hnd).
        assert (Enr : nready T (rq a) = negb (r_lo (rq a) + r_n (rq a) <=? T)) by reflexivity.
        assert (Erd : ready T (rq a) = (r_lo (rq a) + r_n (rq a) <=? T)) by reflexivity.
        cbn [filter]. rewrite Enr, Erd. clear Enr Erd.
        destruct (r_lo (rq a) + r_n (rq a) <=? T) eqn:E2; cbn [negb].
        * specialize (IH W skip). rewrite Er in IH. cbn [fst] in IH. rewrite IH by assumption. reflexivity.
        * assert (Hk : has_key r_key (pk a) W = false).
          { destruct (has_key r_key (pk a) W) eqn:HK; [|reflexivity]. apply has_key_rq in HK.
            apply NoDup_remove_2 in Hnd. exfalso. apply Hnd. apply in_or_app. left. exact HK. }
          rewrite Hk. specialize (IH (W ++ [rq a]) skip). rewrite Er in IH. cbn [fst] in IH. rewrite IH.
          -- rewrite <- app_assoc. reflexivity.
          -- rewrite map_app, <- app_assoc. exact Hnd.
          -- assumption.
  Qed.
End Intake.
