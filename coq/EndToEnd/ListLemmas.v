(* C06 support: znth / zlen facts about firstn, skipn, app, repeat, zrange, splice and sl.  No property statements. *)
From Coq Require Import ZArith List Bool Lia ZifyBool.
From PV Require Import EndToEnd.Model.
Import ListNotations.
Open Scope Z_scope.

Lemma Zlen_nil {A} : zlen (@nil A) = 0. Proof. reflexivity. Qed.
Lemma Zlen_cons {A} (x : A) l : zlen (x :: l) = 1 + zlen l.
Proof. unfold zlen. cbn [length]. lia. Qed.
Lemma Zlen_app {A} (a b : list A) : zlen (a ++ b) = zlen a + zlen b.
Proof. unfold zlen. rewrite app_length. lia. Qed.
Lemma Zlen_nonneg {A} (l : list A) : 0 <= zlen l.
Proof. unfold zlen. lia. Qed.
Lemma Zlen_repeat {A} (x : A) n : zlen (repeat x n) = Z.of_nat n.
Proof. unfold zlen. now rewrite repeat_length. Qed.
Lemma Zlen_map {A B} (f : A -> B) l : zlen (map f l) = zlen l.
Proof. unfold zlen. now rewrite map_length. Qed.
Lemma Zlen_firstn {A} (l : list A) t : zlen (firstn (Z.to_nat t) l) = Z.max 0 (Z.min t (zlen l)).
Proof. unfold zlen. rewrite firstn_length. lia. Qed.
Lemma Zlen_skipn {A} (l : list A) t : zlen (skipn (Z.to_nat t) l) = Z.max 0 (zlen l - Z.max 0 t).
Proof. unfold zlen. rewrite skipn_length. lia. Qed.
Lemma zr_length {A} (f : Z -> A) n : forall lo, length (zr f lo n) = n.
Proof. induction n as [|n IH]; intros lo; cbn; [reflexivity|]. now rewrite IH. Qed.
Lemma Zlen_zrange {A} (f : Z -> A) lo n : zlen (zrange f lo n) = Z.max 0 n.
Proof. unfold zlen, zrange. rewrite zr_length. lia. Qed.

Lemma znth_neg {A} (l : list A) i : i < 0 -> znth l i = None.
Proof. intros H. unfold znth. destruct (i <? 0) eqn:E; [reflexivity|lia]. Qed.

Lemma znth_Some_lt {A} (l : list A) i x : znth l i = Some x -> 0 <= i < zlen l.
Proof.
  unfold znth, zlen. destruct (i <? 0) eqn:E; [discriminate|]. intros H.
  assert (nth_error l (Z.to_nat i) <> None) by congruence. apply nth_error_Some in H0. lia.
Qed.

Lemma znth_lt_Some {A} (l : list A) i : 0 <= i < zlen l -> exists x, znth l i = Some x.
Proof.
  unfold znth, zlen. intros H. destruct (i <? 0) eqn:E; [lia|].
  destruct (nth_error l (Z.to_nat i)) eqn:N; [eauto|]. apply nth_error_None in N. lia.
Qed.

Lemma znth_ge_None {A} (l : list A) i : zlen l <= i -> znth l i = None.
Proof.
  unfold znth, zlen. intros H. destruct (i <? 0); [reflexivity|]. apply nth_error_None. lia.
Qed.

Lemma znth_app {A} (a b : list A) i :
  znth (a ++ b) i = if i <? zlen a then znth a i else znth b (i - zlen a).
Proof.
  unfold znth, zlen. destruct (i <? 0) eqn:E.
  - destruct (i <? Z.of_nat (length a)) eqn:E2; [reflexivity|lia].
  - destruct (i <? Z.of_nat (length a)) eqn:E2.
    + apply nth_error_app1. lia.
    + destruct (i - Z.of_nat (length a) <? 0) eqn:E3; [lia|].
      rewrite nth_error_app2 by lia. f_equal. lia.
Qed.

Lemma nth_error_firstn {A} (l : list A) : forall n i,
  nth_error (firstn n l) i = if Nat.ltb i n then nth_error l i else None.
Proof.
  induction l as [|x l IH]; intros n i.
  - rewrite firstn_nil. destruct (Nat.ltb i n); destruct i; reflexivity.
  - destruct n as [|n]; [destruct i; reflexivity|]. destruct i as [|i]; [reflexivity|].
    cbn [firstn nth_error]. rewrite IH. reflexivity.
Qed.

Lemma znth_firstn {A} (l : list A) t i :
  znth (firstn (Z.to_nat t) l) i = if i <? t then znth l i else None.
Proof.
  unfold znth. destruct (i <? 0) eqn:E; [destruct (i <? t); reflexivity|].
  rewrite nth_error_firstn. destruct (Nat.ltb_spec (Z.to_nat i) (Z.to_nat t)); destruct (i <? t) eqn:E2; try reflexivity; lia.
Qed.

Lemma nth_error_skipn {A} (l : list A) : forall n i, nth_error (skipn n l) i = nth_error l (n + i).
Proof.
  induction l as [|x l IH]; intros n i.
  - rewrite skipn_nil. destruct i, n; reflexivity.
  - destruct n as [|n]; [reflexivity|]. cbn [skipn Nat.add nth_error]. apply IH.
Qed.

Lemma znth_skipn {A} (l : list A) c i : 0 <= c -> 0 <= i -> znth (skipn (Z.to_nat c) l) i = znth l (c + i).
Proof.
  intros Hc Hi. unfold znth. destruct (i <? 0) eqn:E; [lia|]. destruct (c + i <? 0) eqn:E2; [lia|].
  rewrite nth_error_skipn. f_equal. lia.
Qed.

Lemma nth_error_repeat {A} (x : A) : forall n i, nth_error (repeat x n) i = if Nat.ltb i n then Some x else None.
Proof.
  induction n as [|n IH]; intros i; [destruct i; reflexivity|].
  destruct i as [|i]; [reflexivity|]. cbn [repeat nth_error]. rewrite IH. reflexivity.
Qed.

Lemma znth_repeat {A} (x : A) n i :
  znth (repeat x n) i = if (0 <=? i) && (i <? Z.of_nat n) then Some x else None.
Proof.
  unfold znth. destruct (i <? 0) eqn:E.
  - destruct (0 <=? i) eqn:E2; [lia|reflexivity].
  - rewrite nth_error_repeat. destruct (Nat.ltb_spec (Z.to_nat i) n); destruct ((0 <=? i) && (i <? Z.of_nat n)) eqn:E2;
      try reflexivity; lia.
Qed.

Lemma nth_error_zr {A} (f : Z -> A) : forall n lo i,
  nth_error (zr f lo n) i = if Nat.ltb i n then Some (f (lo + Z.of_nat i)) else None.
Proof.
  induction n as [|n IH]; intros lo i; [destruct i; reflexivity|].
  destruct i as [|i]; cbn [zr nth_error]; [cbn; f_equal; f_equal; lia|].
  rewrite IH. destruct (Nat.ltb_spec i n); destruct (Nat.ltb_spec (S i) (S n)); try lia; [|reflexivity].
  f_equal. f_equal. lia.
Qed.

Lemma znth_zrange {A} (f : Z -> A) lo n i :
  znth (zrange f lo n) i = if (0 <=? i) && (i <? n) then Some (f (lo + i)) else None.
Proof.
  unfold znth, zrange. destruct (i <? 0) eqn:E.
  - destruct (0 <=? i) eqn:E2; [lia|reflexivity].
  - rewrite nth_error_zr. destruct (Nat.ltb_spec (Z.to_nat i) (Z.to_nat n)); destruct ((0 <=? i) && (i <? n)) eqn:E2;
      try reflexivity; try lia. f_equal. f_equal. lia.
Qed.

Lemma znth_map {A B} (g : A -> B) l i : znth (map g l) i = option_map g (znth l i).
Proof. unfold znth. destruct (i <? 0); [reflexivity|]. apply nth_error_map. Qed.

Lemma list_ext_znth {A} (a b : list A) : (forall i, znth a i = znth b i) -> a = b.
Proof.
  revert b. induction a as [|x a IH]; intros b H.
  - destruct b as [|y b]; [reflexivity|]. specialize (H 0). discriminate.
  - destruct b as [|y b]; [specialize (H 0); discriminate|].
    pose proof (H 0) as H0. cbn in H0. inversion H0; subst. f_equal. apply IH. intros i.
    destruct (Z_lt_dec i 0) as [Hi|Hi]; [now rewrite !znth_neg|].
    specialize (H (i + 1)). unfold znth in *. destruct (i + 1 <? 0) eqn:E; [lia|]. destruct (i <? 0) eqn:E2; [lia|].
    replace (Z.to_nat (i + 1)) with (S (Z.to_nat i)) in H by lia. exact H.
Qed.

(* ---------- splice ---------- *)
Lemma zlen_splice P c out : 0 <= c -> zlen (splice P c out) = Z.max (zlen P) (c + zlen out).
Proof.
  intros Hc. unfold splice. rewrite !Zlen_app, Zlen_firstn, Zlen_repeat, Zlen_skipn.
  pose proof (Zlen_nonneg P). pose proof (Zlen_nonneg out). lia.
Qed.

Lemma znth_splice P c out s : 0 <= c ->
  znth (splice P c out) s =
  if s <? c then (if s <? zlen P then znth P s else if 0 <=? s then Some OZero else None)
  else if s <? c + zlen out then znth out (s - c) else znth P s.
Proof.
  intros Hc. unfold splice.
  pose proof (Zlen_nonneg P) as HP. pose proof (Zlen_nonneg out) as HO.
  rewrite znth_app, Zlen_firstn.
  destruct (s <? Z.max 0 (Z.min c (zlen P))) eqn:E1.
  - rewrite znth_firstn. destruct (s <? c) eqn:E2; [|lia]. destruct (s <? zlen P) eqn:E3; [reflexivity|lia].
  - rewrite znth_app, Zlen_repeat.
    destruct (s - Z.max 0 (Z.min c (zlen P)) <? Z.of_nat (Z.to_nat (c - zlen P))) eqn:E2.
    + rewrite znth_repeat. destruct (s <? c) eqn:E3; [|lia]. destruct (s <? zlen P) eqn:E4; [lia|].
      destruct (0 <=? s) eqn:E5; [|lia].
      destruct ((0 <=? s - Z.max 0 (Z.min c (zlen P))) && (s - Z.max 0 (Z.min c (zlen P)) <? Z.of_nat (Z.to_nat (c - zlen P)))) eqn:E6;
        [reflexivity|lia].
    + rewrite znth_app.
      assert (Hoff : Z.max 0 (Z.min c (zlen P)) + Z.of_nat (Z.to_nat (c - zlen P)) = c) by lia.
      destruct (s <? c) eqn:E3; [lia|].
      destruct (s - Z.max 0 (Z.min c (zlen P)) - Z.of_nat (Z.to_nat (c - zlen P)) <? zlen out) eqn:E4.
      * destruct (s <? c + zlen out) eqn:E5; [|lia]. f_equal. lia.
      * destruct (s <? c + zlen out) eqn:E5; [lia|].
        rewrite znth_skipn by lia. f_equal. lia.
Qed.

Lemma splice_nil P c : 0 <= c -> c <= zlen P -> forall s, znth (splice P c []) s = znth P s.
Proof.
  intros Hc Hl s. rewrite znth_splice by exact Hc. change (zlen (@nil osample)) with 0.
  destruct (s <? c) eqn:E1.
  - destruct (s <? zlen P) eqn:E2; [reflexivity|lia].
  - destruct (s <? c + 0) eqn:E2; [lia|reflexivity].
Qed.

Lemma splice_app_znth P c o1 o2 s : 0 <= c ->
  znth (splice (splice P c o1) (c + zlen o1) o2) s = znth (splice P c (o1 ++ o2)) s.
Proof.
  intros Hc. pose proof (Zlen_nonneg o1) as H1. pose proof (Zlen_nonneg o2) as H2. pose proof (Zlen_nonneg P) as HP.
  rewrite (znth_splice (splice P c o1)) by lia. rewrite (znth_splice P c (o1 ++ o2)) by lia.
  rewrite zlen_splice by lia. rewrite Zlen_app. rewrite !znth_splice by lia.
  rewrite znth_app.
  destruct (s <? c + zlen o1) eqn:E1.
  - destruct (s <? Z.max (zlen P) (c + zlen o1)) eqn:E2; [|lia].
    destruct (s <? c) eqn:E3; [reflexivity|].
    destruct (s <? c + (zlen o1 + zlen o2)) eqn:E4; [|lia].
    destruct (s - c <? zlen o1) eqn:E5; [reflexivity|lia].
  - destruct (s <? c) eqn:E3; [lia|].
    destruct (s <? c + zlen o1 + zlen o2) eqn:E4.
    + destruct (s <? c + (zlen o1 + zlen o2)) eqn:E5; [|lia].
      destruct (s - c <? zlen o1) eqn:E6; [lia|]. f_equal. lia.
    + destruct (s <? c + (zlen o1 + zlen o2)) eqn:E5; [lia|]. reflexivity.
Qed.

(* ---------- sl (Extract/Spec.v) as positions ---------- *)
Lemma znth_sl (l : list Z) a n i : 0 <= a -> znth (sl l a n) i = if (0 <=? i) && (i <? n) then znth l (a + i) else None.
Proof.
  intros Ha. unfold sl. rewrite znth_firstn.
  destruct (i <? n) eqn:E1.
  - destruct (0 <=? i) eqn:E2; cbn [andb].
    + apply znth_skipn; lia.
    + apply znth_neg. lia.
  - rewrite andb_false_r. reflexivity.
Qed.

Lemma sl_positions (l : list Z) a n (f : Z -> Z) : 0 <= a -> 0 <= n ->
  (forall j, 0 <= j < n -> znth l (a + j) = Some (f j)) -> sl l a n = zrange f 0 n.
Proof.
  intros Ha Hn H. apply list_ext_znth. intros i. rewrite znth_sl by exact Ha. rewrite znth_zrange.
  destruct ((0 <=? i) && (i <? n)) eqn:E; [|reflexivity]. rewrite H by lia. reflexivity.
Qed.
