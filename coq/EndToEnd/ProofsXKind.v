(* C06, coverage-audit addition: Spec.c06_runk, the loop with any kind of acquisition chunk (annot: the chunks
   are PipelineData, multi: two channels).  The theorems of Props/C06.v about the composition are stated for
   `run B k fs` with k universally quantified; here they are tied to what the harness term c06_runk encodes:
   - the kind is irrelevant for the whole encoded outcome as soon as the epoch has at least one sample (n >= 1),
     on EVERY schedule (well-formed or not); with n = 0 it is not (witness);
   - on the schedules the property quantifies over, c06_runk a m encodes, for every a m: no raise, every send
     answered, exactly one epoch per kept trial whose window was acquired = waveform followed by silence. *)
From Coq Require Import ZArith List Bool Lia ZifyBool.
From PV Require Import EndToEnd.Model EndToEnd.Spec EndToEnd.ProofsCompose.
From PV Require Import Extract.SpecX Extract.ProofsXKind.
Import ListNotations.
Open Scope Z_scope.

Lemma c06_runk_plain p es ch pm B n pre steps :
  c06_runk false false p es ch pm B n pre steps = c06_run p es ch pm B n pre steps.
Proof. reflexivity. Qed.

(* every request the extractor receives in the loop has the one epoch length n *)
Lemma run_steps_reqs_n R X : forall steps st st' fs,
  run_steps R X st steps = Some (st', fs) -> Forall (fun r => r_n r = x_n X) (all_reqs fs).
Proof.
  induction steps as [|s t IH]; intros st st' fs H; cbn [run_steps] in H.
  - inversion H; subst. constructor.
  - destruct s as [o|m].
    + destruct (qstep R st o) as [st1|]; [|discriminate]. now apply (IH st1 st').
    + destruct (run_steps R X (astep st m) t) as [[st2 fs2]|] eqn:E; [|discriminate].
      inversion H; subst. unfold all_reqs. cbn [flat_map]. apply Forall_app. split.
      * cbn [feed_of f_reqs]. apply Forall_forall. intros r Hr. apply in_map_iff in Hr.
        destruct Hr as (kt & <- & _). reflexivity.
      * now apply (IH (astep st m) st').
Qed.

Theorem runk_kind_irrelevant a m p es ch pm B n pre steps : 1 <= n ->
  c06_runk a m p es ch pm B n pre steps = c06_run p es ch pm B n pre steps.
Proof.
  intros Hn. unfold c06_runk, c06_run.
  destruct (run_steps all_rep _ (cinit (qinit p es ch pm)) steps) as [[st fs]|] eqn:E; [|reflexivity].
  pose proof (run_steps_reqs_n _ _ _ _ _ _ E) as Hr. cbn [x_n] in Hr.
  assert (H1 : Forall (fun r => 1 <= r_n r) (all_reqs fs)).
  { eapply Forall_impl; [|exact Hr]. cbn. intros r ->. exact Hn. }
  destruct (kind_irrelevant B (mkkind a m) (mkkind false false) fs H1) as (_ & -> & _). reflexivity.
Qed.

(* n = 0 (and a pre-stimulus time, so that a request can start before the look-back): a zero-length epoch and a
   "missed" stub reach the target in one send; PipelineData chunks stack them, plain arrays raise *)
Theorem runk_kind_irrelevant_refuted : exists a m p es ch pm B n pre steps,
  n = 0 /\ c06_runk a m p es ch pm B n pre steps <> c06_run p es ch pm B n pre steps.
Proof.
  exists true, false, PFifo, [mk_entry 2 3 KArray [0] true; mk_entry 1 2 KArray [0] true], [], [], 0, 0, 3,
    [SQ (Pop 3); SA 1; SA 2; SQ (Pop 10); SA 10].
  split; [reflexivity|]. vm_compute. discriminate.
Qed.

Lemma trace_len_noerr B k : forall fs st, Forall (fun o => is_err o = false) (map snd (trace B k st fs)) ->
  length (trace B k st fs) = length fs.
Proof.
  induction fs as [|f rest IH]; intros st H; [reflexivity|]. cbn [trace] in *.
  destruct (feed_step B k st f) as [st' o]. destruct o as [b cb|e].
  - cbn [map snd length] in *. inversion H; subst. f_equal. now apply IH.
  - cbn in H. inversion H; subst. discriminate.
Qed.

(* an answered send is encoded with the leading code 0 (1 and 2 are the two exceptions) *)
Lemma enc_fout_noerr o : is_err o = false -> exists b cb, o = FOut b cb /\ hd 9 (enc_fout o) = 0.
Proof. destruct o as [b cb|e]; [intros _; exists b, cb; split; reflexivity|discriminate]. Qed.

(* two runs in which no send raises do not depend on the kind at all *)
Lemma trace_noerr_kind B k1 k2 : forall fs0 st0,
  Forall (fun o => is_err o = false) (map snd (trace B k1 st0 fs0)) ->
  Forall (fun o => is_err o = false) (map snd (trace B k2 st0 fs0)) ->
  trace B k1 st0 fs0 = trace B k2 st0 fs0.
Proof.
  induction fs0 as [|f rest IH]; intros st0 H1 H2; [reflexivity|]. cbn [trace] in *.
      assert (S : feed_step B k1 st0 f = feed_step B k2 st0 f).
      { unfold feed_step in *.
        destruct (drain fst (f_rems f) (pending st0) []) as [pend1 skip].
        destruct (send_all (tlb st0) (f_chunk f) pend1) as [pend2 ev1].
        destruct (intake (f_reqs f) (prior st0 ++ [(tlb st0, f_chunk f)]) pend2 skip) as [[pend3 ev2]|];
          [|reflexivity].
        destruct (negb (stack_ok k1 (ev1 ++ ev2))); [cbn in H1; inversion H1; discriminate|].
        destruct (negb (stack_ok k2 (ev1 ++ ev2))); [cbn in H2; inversion H2; discriminate|].
        reflexivity. }
      rewrite S in *. destruct (feed_step B k2 st0 f) as [st' o].
      destruct o as [b cb|e]; [|reflexivity]. cbn [map snd] in H1, H2. inversion H1; inversion H2; subst.
      f_equal. now apply IH.
Qed.

(* END TO END, for every kind of acquisition chunk, in the terms of the harness encoding *)
Theorem end_to_end_k a m p es ch pm B n pre steps st fs :
  let X := {| x_val := val64; x_K := zlen es; x_n := n; x_pre := pre |} in
  let outs := run B (mkkind a m) fs in
  let live := live_of (s_q st) in
  wf_queue p es = true -> minlen es = true -> forallb (fun e => e_len e <=? n) es = true -> pre = 0 ->
  wf_steps all_rep (cinit (qinit p es ch pm)) steps = true ->
  run_steps all_rep X (cinit (qinit p es ch pm)) steps = Some (st, fs) ->
  s_notes st = [] ->
  poststim_fits es n (s_added st) live = true ->
  c06_runk a m p es ch pm B n pre steps =
    [1; 1; 1; zlen (s_P st)] ++ map val64 (s_P st) ++ [zlen live] ++ flat_map (fun kt => [fst kt; snd kt]) live
    ++ [zlen outs] ++ flat_map enc_fout outs /\
  length outs = length fs /\
  Forall (fun o => is_err o = false) outs /\
  delivered outs = map (epoch_item X es) (filter (complete n (s_acq st)) live) /\
  outs = run B (mkkind false false) fs.
Proof.
  intros X outs live Wq Mn Hc Hp W H Hnotes Hfits.
  destruct (end_to_end p es ch pm B (mkkind a m) X steps st fs Wq Mn Hc eq_refl Hp W H Hnotes Hfits) as [He Hd].
  destruct (end_to_end p es ch pm B (mkkind false false) X steps st fs Wq Mn Hc eq_refl Hp W H Hnotes Hfits)
    as [He0 _].
  split; [|split; [|split; [exact He|split; [exact Hd|]]]].
  - unfold c06_runk. fold X. rewrite H. fold outs. fold live.
    rewrite Wq, Mn, Hc, W, Hnotes, Hfits. subst pre. reflexivity.
  - unfold outs, run. rewrite map_length. apply trace_len_noerr. exact He.
  - (* no send raises for either kind, so the kind never decides anything *)
    unfold outs, run in *. f_equal.
    apply trace_noerr_kind; assumption.
Qed.

(* the same at ANY moment of a well-formed schedule (notifications may still wait, poststim_fits not assumed): for
   every kind no send raises, every send is answered, the delivered epochs are the slices [t0, t0+n) of the played
   stream, and the whole encoded outcome is that of the plain 1-D run - without any assumption on n *)
Theorem end_to_end_slices_k a m p es ch pm B n pre steps st fs :
  let X := {| x_val := val64; x_K := zlen es; x_n := n; x_pre := pre |} in
  let outs := run B (mkkind a m) fs in
  wf_queue p es = true -> minlen es = true -> forallb (fun e => e_len e <=? n) es = true -> pre = 0 ->
  wf_steps all_rep (cinit (qinit p es ch pm)) steps = true ->
  run_steps all_rep X (cinit (qinit p es ch pm)) steps = Some (st, fs) ->
  c06_runk a m p es ch pm B n pre steps = c06_run p es ch pm B n pre steps /\
  length outs = length fs /\
  Forall (fun o => is_err o = false) outs /\
  delivered outs =
    map (s_item (map val64 (firstn (Z.to_nat (s_acq st)) (s_P st))))
        (map (req_of (zlen es) n pre) (filter (complete n (s_acq st)) (s_live st))).
Proof.
  intros X outs Wq Mn Hc Hp W H.
  destruct (end_to_end_slices p es ch pm B (mkkind a m) X steps st fs Wq Mn Hc eq_refl Hp W H) as (He & Hd & _).
  destruct (end_to_end_slices p es ch pm B (mkkind false false) X steps st fs Wq Mn Hc eq_refl Hp W H)
    as (He0 & _ & _).
  assert (Eo : outs = run B (mkkind false false) fs).
  { unfold outs, run in *. f_equal. apply trace_noerr_kind; assumption. }
  split; [|split; [|split; [exact He|exact Hd]]].
  - unfold c06_runk, c06_run. fold X. rewrite H. fold outs. rewrite Eo. reflexivity.
  - unfold outs, run. rewrite map_length. apply trace_len_noerr. exact He.
Qed.

(* the hypotheses are satisfiable (the schedule of Props/C06.v, two-channel PipelineData chunks) *)
Example end_to_end_k_ex :
  let es := [mk_entry 2 3 KArray [2] true; mk_entry 1 2 KGen [1] true] in
  let steps := [SQ (Resume (Some 2)); SQ (Pop 7); SA 4; SQ (Pause (Some 6)); SQ (Pop 3); SQ (Resume (Some 9));
                SQ (Pop 20); SA 25] in
  firstn 3 (c06_runk true true PFifo es [] [] 0 5 0 steps) = [1; 1; 1] /\
  c06_runk true true PFifo es [] [] 0 5 0 steps = c06_run PFifo es [] [] 0 5 0 steps.
Proof. vm_compute. split; reflexivity. Qed.
