(* Vocabulary of the C06 theorems (no proofs here). *)
From PV Require Export EndToEnd.Model.

(* live trials, as (key, t0) pairs in log order: each ends at or before the start of every later one *)
Fixpoint disjoint_live (es : list entry) (l : list (Z * Z)) : Prop :=
  match l with
  | [] => True
  | a :: t => Forall (fun b => snd a + len_of es (fst a) <= snd b) t /\ disjoint_live es t
  end.

(* every stimulus has at least one sample (an empty waveform cannot be recovered from the stream, and two
   empty trials can share a start sample, which extract_epochs rejects as duplicates) *)
Definition minlen (es : list entry) : bool := forallb (fun e => 1 <=? e_len e) es.

(* notifications in the order the queue issues them: a trial is requested only while no request with the
   same (key, t0) is outstanding, and only outstanding requests are cancelled *)
Fixpoint valid_notes (L : list (Z * Z)) (ev : list event) : Prop :=
  match ev with
  | [] => True
  | EAdded k t :: r => ~ In (k, t) L /\ valid_notes (L ++ [(k, t)]) r
  | ERemoved k t :: r => In (k, t) L /\ valid_notes (remove_pair (k, t) L) r
  | EEmpty :: r => valid_notes L r
  end.

(* the stimulus waveform followed by silence, n samples in all *)
Definition wave (k len : Z) : list osample := zrange (fun i => OWave k i) 0 len.
Definition epoch_of (es : list entry) (n : Z) (k : Z) : list osample :=
  wave k (len_of es k) ++ repeat OZero (Z.to_nat (n - len_of es k)).

(* the epoch window [t0, t0+n) of every kept trial contains no sample of any other notified trial (kept or
   cancelled): each of them ends by the end of this waveform or starts at/after the end of the window.
   (An inter-trial delay >= n - len gives this when no pause intervenes; a pause forgets the pending delay,
   so the time at which generation is resumed decides.) *)
Definition poststim_fits (es : list entry) (n : Z) (added live : list (Z * Z)) : bool :=
  forallb (fun kt => forallb (fun kt' => (snd kt' + len_of es (fst kt') <=? snd kt + len_of es (fst kt))
                                         || (snd kt + n <=? snd kt')) added) live.

(* the epoch window of trial (k, t0) has been acquired *)
Definition complete (n acq : Z) (kt : Z * Z) : bool := snd kt + n <=? acq.

(* what the extractor must deliver for trial (k, t0) *)
Definition epoch_item (X : ecfg) (es : list entry) (kt : Z * Z) : item :=
  {| i_key := pkey (x_K X) (fst kt) (snd kt); i_rid := fst kt; i_s0 := snd kt;
     i_data := map (x_val X) (epoch_of es (x_n X) (fst kt)); i_missed := false |}.

(* ---------- what the harness compares (outputs mode) ---------- *)
(* sample values: 0 = silence, 1 + key + 64 * idx = sample idx of stimulus key (key < 64) *)
Definition val64 (s : osample) : Z := match s with OZero => 0 | OWave k i => 1 + k + 64 * i end.

Definition enc_fout (o : fout) : list Z :=
  match o with
  | FErr EDuplicate => [1]
  | FErr EStack => [2]
  | FOut b _ =>
    [0; zlen b] ++ flat_map (fun it => [i_rid it; i_s0 it; if i_missed it then 1 else 0; zlen (i_data it)]
                                        ++ i_data it) b
  end.

(* [1; wf; fits; |P|; P...; #live; (k, t0)...; #sends; per send: enc_fout] or [0] when the queue raised.
   wf = the schedule is one the theorems quantify over (wf_queue, minlen, waveforms not longer than the epoch,
   wf_steps, all notifications handed over); fits = poststim_fits *)
Definition c06_run (p : policy) (es : list entry) (ch : list Z) (pm : list (list Z))
           (B n pre : Z) (steps : list step) : list Z :=
  let X := {| x_val := val64; x_K := zlen es; x_n := n; x_pre := pre |} in
  match run_steps all_rep X (cinit (qinit p es ch pm)) steps with
  | None => [0]
  | Some (st, fs) =>
    let outs := run B (mkkind false false) fs in
    [1;
     if wf_queue p es && minlen es && forallb (fun e => e_len e <=? n) es && (pre =? 0)
        && wf_steps all_rep (cinit (qinit p es ch pm)) steps && is_nil (s_notes st) then 1 else 0;
     if poststim_fits es n (s_added st) (live_of (s_q st)) then 1 else 0;
     zlen (s_P st)] ++ map val64 (s_P st)
    ++ [zlen (live_of (s_q st))] ++ flat_map (fun kt => [fst kt; snd kt]) (live_of (s_q st))
    ++ [zlen outs] ++ flat_map enc_fout outs
  end.

(* the same, for any kind of acquisition chunk (PipelineData or ndarray, one or two channels); added for the
   coverage audit, c06_run = c06_runk false false *)
Definition c06_runk (annot multi : bool) (p : policy) (es : list entry) (ch : list Z) (pm : list (list Z))
           (B n pre : Z) (steps : list step) : list Z :=
  let X := {| x_val := val64; x_K := zlen es; x_n := n; x_pre := pre |} in
  match run_steps all_rep X (cinit (qinit p es ch pm)) steps with
  | None => [0]
  | Some (st, fs) =>
    let outs := run B (mkkind annot multi) fs in
    [1;
     if wf_queue p es && minlen es && forallb (fun e => e_len e <=? n) es && (pre =? 0)
        && wf_steps all_rep (cinit (qinit p es ch pm)) steps && is_nil (s_notes st) then 1 else 0;
     if poststim_fits es n (s_added st) (live_of (s_q st)) then 1 else 0;
     zlen (s_P st)] ++ map val64 (s_P st)
    ++ [zlen (live_of (s_q st))] ++ flat_map (fun kt => [fst kt; snd kt]) (live_of (s_q st))
    ++ [zlen outs] ++ flat_map enc_fout outs
  end.
