(* Vocabulary of the C06 theorems (no proofs here). *)
From PV Require Export EndToEnd.Model.

(* live trials, as (key, t0) pairs in log order: each ends at or before the start of every later one *)
Fixpoint disjoint_live (es : list entry) (l : list (Z * Z)) : Prop :=
  match l with
  | [] => True
  | a :: t => Forall (fun b => snd a + len_of es (fst a) <= snd b) t /\ disjoint_live es t
  end.

(* every stimulus has at least one sample (an empty waveform cannot be recovered from the stream, and two
   empty trials can share a start sample, which extract_epochs rejects as duplicates) *)
Definition minlen (es : list entry) : bool := forallb (fun e => 1 <=? e_len e) es.

(* notifications in the order the queue issues them: a trial is requested only while no request with the
   same (key, t0) is outstanding, and only outstanding requests are cancelled *)
Fixpoint valid_notes (L : list (Z * Z)) (ev : list event) : Prop :=
  match ev with
  | [] => True
  | EAdded k t :: r => ~ In (k, t) L /\ valid_notes (L ++ [(k, t)]) r
  | ERemoved k t :: r => In (k, t) L /\ valid_notes (remove_pair (k, t) L) r
  | EEmpty :: r => valid_notes L r
  end.

(* the stimulus waveform followed by silence, n samples in all *)
Definition wave (k len : Z) : list osample := zrange (fun i => OWave k i) 0 len.
Definition epoch_of (es : list entry) (n : Z) (k : Z) : list osample :=
  wave k (len_of es k) ++ repeat OZero (Z.to_nat (n - len_of es k)).

(* the epoch window [t0, t0+n) of every kept trial contains no sample of any other notified trial (kept or
   cancelled): each of them ends by the end of this waveform or starts at/after the end of the window.
   (An inter-trial delay >= n - len gives this when no pause intervenes; a pause forgets the pending delay,
   so the time at which generation is resumed decides.) *)
Definition poststim_fits (es : list entry) (n : Z) (added live : list (Z * Z)) : bool :=
  forallb (fun kt => forallb (fun kt' => (snd kt' + len_of es (fst kt') <=? snd kt + len_of es (fst kt))
                                         || (snd kt + n <=? snd kt')) added) live.

(* the epoch window of trial (k, t0) has been acquired *)
Definition complete (n acq : Z) (kt : Z * Z) : bool := snd kt + n <=? acq.

(* what the extractor must deliver for trial (k, t0) *)
Definition epoch_item (X : ecfg) (es : list entry) (kt : Z * Z) : item :=
  {| i_key := pkey (x_K X) (fst kt) (snd kt); i_rid := fst kt; i_s0 := snd kt;
     i_data := map (x_val X) (epoch_of es (x_n X) (fst kt)); i_missed := false |}.
