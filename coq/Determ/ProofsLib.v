(* C10 library: Z-indexed lists, heap reads/writes, masks.  No property statements here. *)
From PV Require Import Determ.Model Determ.Spec.
From PV Require Import Stim.ProofsLib.
From Coq Require Import ZArith List Bool Lia ZifyBool.
Import ListNotations.
Open Scope Z_scope.

(* ---------- znth / zupd / zset ---------- *)
Section ZL.
Context {A : Type}.
Implicit Types (l e : list A).

Lemma zlen_app l e : zlen (l ++ e) = zlen l + zlen e.
Proof. unfold zlen. rewrite app_length. lia. Qed.

Lemma zlen_nonneg l : 0 <= zlen l.
Proof. unfold zlen. lia. Qed.

Lemma zlen_one (x : A) : zlen [x] = 1.
Proof. reflexivity. Qed.

Lemma znth_some_range l i x : znth l i = Some x -> 0 <= i < zlen l.
Proof.
  unfold znth, zlen. destruct (i <? 0) eqn:E; [discriminate|]. intros H.
  assert (Hn : (Z.to_nat i < length l)%nat) by (apply nth_error_Some; congruence). lia.
Qed.

Lemma znth_range_some l i : 0 <= i < zlen l -> exists x, znth l i = Some x.
Proof.
  unfold znth, zlen. intros H. destruct (i <? 0) eqn:E; [lia|].
  destruct (nth_error l (Z.to_nat i)) eqn:E2; [eauto|].
  apply nth_error_None in E2. lia.
Qed.

Lemma znth_none_ge l i : zlen l <= i -> znth l i = None.
Proof.
  unfold znth, zlen. intros H. destruct (i <? 0) eqn:E; [reflexivity|].
  apply nth_error_None. lia.
Qed.

Lemma znth_neg l i : i < 0 -> znth l i = None.
Proof. unfold znth. intros H. destruct (i <? 0) eqn:E; [reflexivity|lia]. Qed.

Lemma znth_app_l l e i : i < zlen l -> znth (l ++ e) i = znth l i.
Proof.
  unfold znth, zlen. intros H. destruct (i <? 0) eqn:E; [reflexivity|].
  apply nth_error_app1. lia.
Qed.

Lemma znth_app_last l (x : A) : znth (l ++ [x]) (zlen l) = Some x.
Proof.
  unfold znth, zlen. destruct (Z.of_nat (length l) <? 0) eqn:E; [lia|].
  rewrite Nat2Z.id. rewrite nth_error_app2 by lia. rewrite Nat.sub_diag. reflexivity.
Qed.

Lemma znth_app_some l e i x : znth l i = Some x -> znth (l ++ e) i = Some x.
Proof. intros H. rewrite znth_app_l; [exact H|]. apply znth_some_range in H. lia. Qed.

Lemma znth_in l i x : znth l i = Some x -> In x l.
Proof. unfold znth. destruct (i <? 0); [discriminate|]. apply nth_error_In. Qed.

Lemma zupd_length l n (f : A -> A) : length (zupd l n f) = length l.
Proof. revert n; induction l as [|x t IH]; intros [|n]; cbn [zupd length]; auto. Qed.

Lemma zlen_zupd l n (f : A -> A) : zlen (zupd l n f) = zlen l.
Proof. unfold zlen. now rewrite zupd_length. Qed.

Lemma nth_error_zupd_same l n (f : A -> A) :
  nth_error (zupd l n f) n = option_map f (nth_error l n).
Proof. revert n; induction l as [|x t IH]; intros [|n]; cbn [zupd nth_error option_map]; auto. Qed.

Lemma nth_error_zupd_other l n m (f : A -> A) : n <> m ->
  nth_error (zupd l n f) m = nth_error l m.
Proof.
  revert n m; induction l as [|x t IH]; intros [|n] [|m] H; cbn [zupd nth_error]; auto; try congruence.
Qed.

Lemma zupd_app_last l (x : A) (f : A -> A) : zupd (l ++ [x]) (length l) f = l ++ [f x].
Proof. induction l as [|y t IH]; cbn [zupd app length]; [reflexivity|]. now rewrite IH. Qed.

Lemma in_zupd l n (f : A -> A) y : In y (zupd l n f) -> In y l \/ exists x, In x l /\ y = f x.
Proof.
  revert n; induction l as [|x t IH]; intros [|n]; cbn [zupd In]; auto.
  - intros [H|H]; [right; exists x; auto|auto].
  - intros [H|H]; [auto|]. apply IH in H. destruct H as [H|[z [H1 H2]]]; [auto|]. right; exists z; auto.
Qed.

Definition zset l (i : Z) (x : A) : list A :=
  if i <? 0 then l else zupd l (Z.to_nat i) (fun _ => x).

Lemma zlen_zset l i x : zlen (zset l i x) = zlen l.
Proof. unfold zset. destruct (i <? 0); [reflexivity|apply zlen_zupd]. Qed.

Lemma znth_zset_same l i x y : znth l i = Some y -> znth (zset l i x) i = Some x.
Proof.
  unfold zset, znth. destruct (i <? 0) eqn:E; [discriminate|]. intros H.
  rewrite nth_error_zupd_same, H. reflexivity.
Qed.

Lemma znth_zset_other l i j x : i <> j -> znth (zset l i x) j = znth l j.
Proof.
  unfold zset, znth. intros H. destruct (i <? 0) eqn:E; [reflexivity|].
  destruct (j <? 0) eqn:E2; [reflexivity|]. apply nth_error_zupd_other. lia.
Qed.

Lemma in_zset l i x y : In y (zset l i x) -> y = x \/ In y l.
Proof.
  unfold zset. destruct (i <? 0); [auto|]. intros H. apply in_zupd in H.
  destruct H as [H|[z [_ H]]]; auto.
Qed.

Lemma skipn_skipn' (a b : nat) l : skipn b (skipn a l) = skipn (a + b) l.
Proof.
  revert l; induction a as [|a IH]; intros l; [reflexivity|].
  destruct l as [|x t]; [now rewrite !skipn_nil|]. cbn [skipn Nat.add]. apply IH.
Qed.

(* a slice taken inside a prefix can be read from the prefix *)
Lemma sub_slice (X : list A) (len lo got : nat) : (lo + got <= len)%nat ->
  firstn got (skipn lo X) = firstn got (skipn lo (firstn len X)).
Proof.
  intros H. rewrite (skipn_firstn_comm lo len X). rewrite firstn_firstn.
  f_equal. lia.
Qed.
End ZL.

Lemma set_obj_zset l i o : set_obj l i o = zset l i o.
Proof. reflexivity. Qed.
Lemma pset_zset l i o : pset l i o = zset l i o.
Proof. reflexivity. Qed.

(* ---------- heap ---------- *)
Definition mks (d : list Z) (ro : bool) : store := {| s_data := d; s_ro := ro |}.
Definition mkv (s o l : Z) : view := {| v_sid := s; v_off := o; v_len := l |}.

Lemma read_view_ext h h' v : znth h' (v_sid v) = znth h (v_sid v) -> read_view h' v = read_view h v.
Proof. unfold read_view. intros ->. reflexivity. Qed.

Lemma read_view_app h e v : v_sid v < zlen h -> read_view (h ++ e) v = read_view h v.
Proof. intros H. apply read_view_ext. now apply znth_app_l. Qed.

Lemma read_view_fresh h d ro : read_view (h ++ [mks d ro]) (mkv (zlen h) 0 (zlen d)) = d.
Proof.
  unfold read_view, mkv, mks. cbn [v_sid v_off v_len]. rewrite znth_app_last. cbn [s_data].
  cbn [Z.to_nat skipn]. unfold zlen. rewrite Nat2Z.id. apply firstn_all.
Qed.

Lemma alloc_eq h d ro : alloc h d ro = (h ++ [mks d ro], mkv (zlen h) 0 (zlen d)).
Proof. reflexivity. Qed.

Lemma write_view_inv h v i x h' : write_view h v i x = Some h' ->
  exists st, znth h (v_sid v) = Some st /\ s_ro st = false /\ 0 <= i < v_len v /\
    h' = zupd h (Z.to_nat (v_sid v))
           (fun s => {| s_data := zupd (s_data s) (Z.to_nat (v_off v + i)) (fun _ => x); s_ro := s_ro s |}).
Proof.
  unfold write_view. destruct ((i <? 0) || (v_len v <=? i)) eqn:E; [discriminate|].
  destruct (znth h (v_sid v)) as [st|] eqn:E2; [|discriminate].
  destruct (s_ro st) eqn:E3; [discriminate|]. intros H. injection H as <-.
  exists st. repeat split; auto; lia.
Qed.

Lemma write_view_len h v i x h' : write_view h v i x = Some h' -> zlen h' = zlen h.
Proof. intros H. apply write_view_inv in H. destruct H as [st [_ [_ [_ ->]]]]. apply zlen_zupd. Qed.

Lemma write_view_other h v i x h' s : write_view h v i x = Some h' -> s <> v_sid v ->
  znth h' s = znth h s.
Proof.
  intros H Hs. apply write_view_inv in H. destruct H as [st [H1 [_ [_ ->]]]].
  apply znth_some_range in H1. unfold znth. destruct (s <? 0) eqn:E; [reflexivity|].
  apply nth_error_zupd_other. lia.
Qed.

(* read-only storages survive any successful write *)
Lemma write_view_ro h v i x h' s st : write_view h v i x = Some h' ->
  znth h s = Some st -> s_ro st = true -> znth h' s = Some st.
Proof.
  intros H H1 H2. rewrite (write_view_other _ _ _ _ _ s H); [exact H1|].
  intros ->. apply write_view_inv in H. destruct H as [st' [E1 [E2 _]]]. congruence.
Qed.

Lemma write_last h d L i x : 0 <= i < L ->
  write_view (h ++ [mks d false]) (mkv (zlen h) 0 L) i x
  = Some (h ++ [mks (zupd d (Z.to_nat i) (fun _ => x)) false]).
Proof.
  intros H. unfold write_view, mkv. cbn [v_sid v_off v_len].
  destruct ((i <? 0) || (L <=? i)) eqn:E; [lia|].
  rewrite znth_app_last. unfold mks at 1. cbn [s_ro]. f_equal.
  unfold zlen. rewrite Nat2Z.id. rewrite zupd_app_last. reflexivity.
Qed.

(* ---------- masks ---------- *)
Fixpoint gmask (f : Z -> bool) (lo : Z) (d : list Z) : list Z :=
  match d with
  | [] => []
  | x :: t => (if f lo then x else 0) :: gmask f (lo + 1) t
  end.

Lemma gmask_length f lo d : length (gmask f lo d) = length d.
Proof. revert lo; induction d as [|x t IH]; intros lo; cbn [gmask length]; auto. Qed.

Lemma zlen_gmask f lo d : zlen (gmask f lo d) = zlen d.
Proof. unfold zlen. now rewrite gmask_length. Qed.

Lemma gmask_ext f g lo d : (forall i, lo <= i < lo + zlen d -> f i = g i) ->
  gmask f lo d = gmask g lo d.
Proof.
  revert lo; induction d as [|x t IH]; intros lo H; cbn [gmask]; [reflexivity|].
  unfold zlen in H. cbn [length] in H. f_equal.
  - rewrite H by lia. reflexivity.
  - apply IH. intros i Hi. apply H. unfold zlen in Hi. lia.
Qed.

Lemma gmask_true f lo d : (forall i, lo <= i < lo + zlen d -> f i = true) -> gmask f lo d = d.
Proof.
  revert lo; induction d as [|x t IH]; intros lo H; cbn [gmask]; [reflexivity|].
  unfold zlen in H. cbn [length] in H. f_equal.
  - rewrite H by lia. reflexivity.
  - apply IH. intros i Hi. apply H. unfold zlen in Hi. lia.
Qed.

Lemma gmask_gmask f g lo d : gmask f lo (gmask g lo d) = gmask (fun i => f i && g i) lo d.
Proof.
  revert lo; induction d as [|x t IH]; intros lo; cbn [gmask]; [reflexivity|].
  rewrite IH. f_equal. destruct (f lo), (g lo); reflexivity.
Qed.

Lemma gmask_zupd f lo d j :
  gmask f lo (zupd d j (fun _ => 0)) = gmask (fun i => f i && negb (i =? lo + Z.of_nat j)) lo d.
Proof.
  revert lo j; induction d as [|x t IH]; intros lo j; [destruct j; reflexivity|].
  destruct j as [|j]; cbn [zupd gmask].
  - f_equal.
    + replace (lo =? lo + Z.of_nat 0) with true by lia. destruct (f lo); reflexivity.
    + apply gmask_ext. intros i Hi. replace (i =? lo + Z.of_nat 0) with false by lia.
      now rewrite andb_true_r.
  - f_equal.
    + replace (lo =? lo + Z.of_nat (S j)) with false by lia. now rewrite andb_true_r.
    + rewrite IH. apply gmask_ext. intros i Hi. do 2 f_equal. lia.
Qed.

Lemma map_combine_gmask (f : Z -> bool) lo m vals : (length vals <= m)%nat ->
  map (fun kv : Z * Z => if f (fst kv) then snd kv else 0) (combine (zr (fun k => k) lo m) vals)
  = gmask f lo vals.
Proof.
  revert lo m; induction vals as [|x t IH]; intros lo m H.
  - destruct m; reflexivity.
  - destruct m as [|m]; cbn [length] in H; [lia|].
    cbn [zr combine map gmask fst snd]. f_equal. apply IH. lia.
Qed.

(* zeroing v[a:a+k] of the last (fresh, writable) storage through the view that covers it *)
Lemma zero_range_last k : forall h d a L, L = zlen d -> 0 <= a -> a + Z.of_nat k <= L ->
  zero_range (h ++ [mks d false]) (mkv (zlen h) 0 L) a k
  = Some (h ++ [mks (gmask (fun i => negb ((a <=? i) && (i <? a + Z.of_nat k))) 0 d) false]).
Proof.
  induction k as [|k IH]; intros h d a L HL Ha Hk; cbn [zero_range].
  - rewrite gmask_true; [reflexivity|]. intros i Hi. lia.
  - rewrite write_last by lia.
    rewrite IH; [|rewrite zlen_zupd; exact HL|lia|lia].
    rewrite gmask_zupd. do 4 f_equal. apply gmask_ext. intros i Hi. lia.
Qed.

Example zero_range_last_ex :
  zero_range ([] ++ [mks [5; 6; 7] false]) (mkv 0 0 3) 1 2 = Some [mks [5; 0; 0] false].
Proof. reflexivity. Qed.
