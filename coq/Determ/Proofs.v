(* C10 proofs, re-exported for Props/C10.v:
     ProofsLib  Z-indexed lists, heap reads / writes, masks
     ProofsObj  abstraction of heap objects; next / reset / deepcopy of one object (onext_spec)
     ProofsInv  world invariant, step_sound, refines_pure, cached_pure
     ProofsNI   noninterference, reset_replays, deepcopy_replays, the two refutations *)
From PV Require Export Determ.ProofsLib Determ.ProofsObj Determ.ProofsInv Determ.ProofsNI.
