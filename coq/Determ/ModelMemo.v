(* C10 - memoisation over MUTABLE argument objects.  Definitions only (proofs: Determ/ProofsMemo.v).

   Determ/Model.v models a memoised call as `CachedCall key n` with an abstract integer key, i.e. it takes for
   granted that the key determines the result.  That is true of plain (immutable, compared-by-value) arguments.
   It is NOT true when an argument is a mutable object that the memo table compares by identity: psiaudio's
   calibration objects define neither __eq__ nor __hash__, and `set_fixed_gain(g)` / `cal.fixed_gain = g` change
   what `get_sf` returns.  This file models exactly that situation.

   Python                                                     model
   a calibration object (identity never reused: the memo      an object id `o` = index into m_objs; its mutable state
     table keeps every key alive)                               (what get_sf reads: the net gain at 1 kHz) is an integer
   Calibration(..., fixed_gain=g)                             NewObj v
   cal.set_fixed_gain(g)   /   cal.fixed_gain = g             SetState o v
   load_wav(fs, file, level, cal, norm),                      Call f args     (an argument is a plain value or a reference)
     WavFileFactory(...).waveform
   the true result: a function of the argument VALUES         true_result f vals = body f (digest f vals),
     sf = np.float64(cal.get_sf(1e3, level))                    digest = what load_wav computes before the memoised call
     _load_wav(fs, file, sf, norm)                              body   = the memoised function proper
   fast_cache on load_wav itself (before 2334879):            key_by_identity  key = the argument list as passed (object
     key = (fs, file, level, <cal object>, norm)                               references compared by identity)
   fast_cache on _load_wav(fs, file, sf, norm) (repaired):    key_by_value     key = digest of the CURRENT argument values
   load_wav.__wrapped__ / _load_wav.__wrapped__               no_memo          every call computes afresh
   the array object a call hands out                          storage id `sid` (allocation counter): two calls return the
                                                                same sid iff they return the very same stored entry       *)
From Coq Require Import ZArith List Bool.
Import ListNotations.
Open Scope Z_scope.

Inductive arg := AVal (v : Z) | ARef (o : Z).
Inductive mop :=
| NewObj (v : Z)                     (* a new object with state v; its id is the number of objects made before *)
| SetState (o v : Z)                 (* mutate object o *)
| Call (f : Z) (args : list arg).    (* memoised function f (one memo table per f) *)

Inductive discipline := key_by_identity | key_by_value | no_memo.

Definition mnth (l : list Z) (i : Z) : option Z :=
  if i <? 0 then None else nth_error l (Z.to_nat i).
Fixpoint mset (l : list Z) (i : nat) (x : Z) : list Z :=
  match l, i with
  | [], _ => []
  | _ :: t, O => x :: t
  | y :: t, S k => y :: mset t k x
  end.

(* the VALUE of an argument now: a plain value is itself, an object is its current state *)
Definition arg_val (objs : list Z) (a : arg) : option Z :=
  match a with AVal v => Some v | ARef o => mnth objs o end.
Fixpoint arg_vals (objs : list Z) (args : list arg) : option (list Z) :=
  match args with
  | [] => Some []
  | a :: t =>
    match arg_val objs a, arg_vals objs t with
    | Some v, Some vs => Some (v :: vs)
    | _, _ => None
    end
  end.

(* the objects an argument list mentions *)
Fixpoint refs (args : list arg) : list Z :=
  match args with
  | [] => []
  | ARef o :: t => o :: refs t
  | AVal _ :: t => refs t
  end.

(* dictionary lookup: plain values compare by value, references by identity *)
Definition arg_eqb (a b : arg) : bool :=
  match a, b with
  | AVal x, AVal y => x =? y
  | ARef x, ARef y => x =? y
  | _, _ => false
  end.
Fixpoint key_eqb (a b : list arg) : bool :=
  match a, b with
  | [], [] => true
  | x :: s, y :: t => arg_eqb x y && key_eqb s t
  | _, _ => false
  end.

Record mentry := { e_fun : Z; e_key : list arg; e_res : Z; e_sid : Z }.
Fixpoint mlookup (f : Z) (k : list arg) (m : list mentry) : option mentry :=
  match m with
  | [] => None
  | e :: t => if (e_fun e =? f) && key_eqb (e_key e) k then Some e else mlookup f k t
  end.

Record mworld := { m_objs : list Z; m_memo : list mentry; m_next : Z }.
Definition mw0 : mworld := {| m_objs := []; m_memo := []; m_next := 0 |}.

Inductive mobs := MRes (r sid : Z) | MNothing | MRaised.
(* what the caller can compute with: the value, not which array object carries it *)
Definition mobs_val (o : mobs) : mobs :=
  match o with MRes r _ => MRes r 0 | x => x end.

Section Memo.
  Variable digest : Z -> list Z -> list Z.
  Variable body : Z -> list Z -> Z.

  Definition true_result (f : Z) (vals : list Z) : Z := body f (digest f vals).

  Definition memo_key (D : discipline) (f : Z) (args : list arg) (vals : list Z) : list arg :=
    match D with
    | key_by_value => map AVal (digest f vals)
    | _ => args
    end.

  Definition mstep (D : discipline) (w : mworld) (o : mop) : mworld * mobs :=
    match o with
    | NewObj v =>
      ({| m_objs := m_objs w ++ [v]; m_memo := m_memo w; m_next := m_next w |}, MNothing)
    | SetState o v =>
      match mnth (m_objs w) o with
      | Some _ => ({| m_objs := mset (m_objs w) (Z.to_nat o) v; m_memo := m_memo w; m_next := m_next w |}, MNothing)
      | None => (w, MRaised)
      end
    | Call f args =>
      match arg_vals (m_objs w) args with
      | None => (w, MRaised)
      | Some vals =>
        match D with
        | no_memo =>
          ({| m_objs := m_objs w; m_memo := m_memo w; m_next := m_next w + 1 |}, MRes (true_result f vals) (m_next w))
        | _ =>
          let k := memo_key D f args vals in
          match mlookup f k (m_memo w) with
          | Some e => (w, MRes (e_res e) (e_sid e))
          | None =>
            let r := true_result f vals in
            ({| m_objs := m_objs w;
                m_memo := {| e_fun := f; e_key := k; e_res := r; e_sid := m_next w |} :: m_memo w;
                m_next := m_next w + 1 |}, MRes r (m_next w))
          end
        end
      end
    end.

  Fixpoint mrun_from (D : discipline) (w : mworld) (p : list mop) : list mobs :=
    match p with
    | [] => []
    | o :: t => let '(w', r) := mstep D w o in r :: mrun_from D w' t
    end.
  Fixpoint mexec (D : discipline) (w : mworld) (p : list mop) : mworld :=
    match p with
    | [] => w
    | o :: t => mexec D (fst (mstep D w o)) t
    end.
  Definition mrun (D : discipline) (p : list mop) : list mobs := mrun_from D mw0 p.
End Memo.

(* the side condition under which comparing by identity is still right: no object is mutated after it was
   used as an argument of a memoised call *)
Fixpoint set_before_use (used : list Z) (p : list mop) : bool :=
  match p with
  | [] => true
  | NewObj _ :: t => set_before_use used t
  | SetState o _ :: t => negb (existsb (Z.eqb o) used) && set_before_use used t
  | Call _ args :: t => set_before_use (refs args ++ used) t
  end.

(* ---------- the instance the correspondence harness evaluates: load_wav ----------
   Call 0 [AVal file; AVal norm; AVal level; ARef cal]      load_wav(fs, file, level, cal, norm)
   Call 0 [AVal file; AVal norm]                            load_wav(fs, file, None, None, norm)
   state of a calibration = fixed_gain - sensitivity(1 kHz) in dB, so that sf = 10**((level + state)/20);
   the result is summarised by the scaling applied, in dB.                                                   *)
Definition wav_digest (f : Z) (vals : list Z) : list Z :=
  match vals with
  | [file; norm; level; g] => [file; norm; level + g]
  | _ => vals
  end.
Definition wav_body (f : Z) (d : list Z) : Z :=
  match d with
  | [file; norm; s] => 1000000 * file + 10000 * norm + (s + 5000)      (* -5000 < s < 4999 *)
  | [file; norm] => 1000000 * file + 10000 * norm + 9999               (* not scaled at all *)
  | _ => -1
  end.
Definition wav_run (D : discipline) (p : list mop) : list mobs := mrun wav_digest wav_body D p.

Definition enc_mobs (o : mobs) : list Z :=
  match o with
  | MRes r sid => [1; r; sid]
  | MNothing => [3; 0; 0]
  | MRaised => [4; 0; 0]
  end.
(* per op [code; result; sid] under the repaired discipline, then one flag: does the un-memoised run give the same values? *)
Fixpoint zlist_eqb (a b : list Z) : bool :=
  match a, b with
  | [], [] => true
  | x :: s, y :: t => (x =? y) && zlist_eqb s t
  | _, _ => false
  end.
Definition wav_out (p : list mop) : list Z :=
  flat_map enc_mobs (wav_run key_by_value p) ++
  [if zlist_eqb (flat_map enc_mobs (map mobs_val (wav_run key_by_value p)))
                (flat_map enc_mobs (map mobs_val (wav_run no_memo p))) then 1 else 0].
Definition wav_out_identity (p : list mop) : list Z := flat_map enc_mobs (wav_run key_by_identity p).
