(* C10: the world invariant under both repairs, one step of the heap semantics against one step of the
   pure semantics, refinement and memoised calls. *)
From PV Require Import Determ.Model Determ.Spec Determ.ProofsLib Determ.ProofsObj.
From PV Require Import Stim.ProofsLib.
From Coq Require Import ZArith List Bool Lia ZifyBool.
Import ListNotations.
Open Scope Z_scope.

(* ---------- the invariant ---------- *)
Definition owned (objs : list (option obj)) (s : Z) : Prop :=
  exists o, In (Some o) objs /\ In s (osids o).
Definition held (views : list view) (memo : list (Z * view)) (s : Z) : Prop :=
  (exists v, In v views /\ v_sid v = s) \/ (exists k v, In (k, v) memo /\ v_sid v = s).

(* live objects are pristine; every storage the caller or the memo table can reach exists and is owned by
   no live object *)
Definition InvC (h : heap) (objs : list (option obj)) (views : list view) (memo : list (Z * view)) : Prop :=
  (forall o, In (Some o) objs -> ok h o) /\
  (forall s, held views memo s -> s < zlen h) /\
  (forall s, owned objs s -> held views memo s -> False).
Definition Inv (w : world) : Prop := InvC (w_heap w) (w_objs w) (w_views w) (w_memo w).

Lemma inv_w0 : Inv w0.
Proof.
  unfold Inv, InvC, w0. cbn [w_heap w_objs w_views w_memo]. repeat split.
  - intros o [].
  - intros s [[v [[] _]]|[k [v [[] _]]]].
  - intros s [o [[] _]].
Qed.

Lemma owned_lt h objs views memo s : InvC h objs views memo -> owned objs s -> s < zlen h.
Proof. intros [H1 _] [o [Ho Hs]]. eapply ok_osids; eauto. Qed.

Lemma inv_intro h objs views memo h' objs' views' memo' :
  InvC h objs views memo ->
  zlen h <= zlen h' ->
  (forall s, owned objs s -> znth h' s = znth h s) ->
  (forall o', In (Some o') objs' -> In (Some o') objs \/ ok h' o') ->
  (forall s, owned objs' s -> owned objs s \/ zlen h <= s) ->
  (forall s, held views' memo' s -> s < zlen h' /\ (held views memo s \/ zlen h <= s)) ->
  (forall s, zlen h <= s -> owned objs' s -> held views' memo' s -> False) ->
  InvC h' objs' views' memo'.
Proof.
  intros HI H1 H2 H3 H4 H5 H6. pose proof HI as [Iok [Iheld Isep]]. repeat split.
  - intros o' Ho'. destruct (H3 o' Ho') as [Hold|Hnew]; [|exact Hnew].
    apply (ok_ext h); [auto|exact H1|]. intros s Hs. apply H2. exists o'. auto.
  - intros s Hs. apply H5. exact Hs.
  - intros s Ho Hh. destruct (H4 s Ho) as [Hold|Hnew].
    + destruct (H5 s Hh) as [_ [Hh'|Hge]].
      * exact (Isep s Hold Hh').
      * pose proof (owned_lt _ _ _ _ s HI Hold). lia.
    + exact (H6 s Hnew Ho Hh).
Qed.

(* the heap grows, objects are replaced / added, the caller holds what it held *)
Lemma inv_ext_objs h e objs objs' views memo :
  InvC h objs views memo ->
  (forall o', In (Some o') objs' -> In (Some o') objs \/
     (ok (h ++ e) o' /\ forall s, In s (osids o') -> owned objs s \/ zlen h <= s)) ->
  InvC (h ++ e) objs' views memo.
Proof.
  intros HI H. pose proof HI as [Iok [Iheld Isep]].
  apply (inv_intro h objs views memo); auto.
  - rewrite zlen_app. pose proof (zlen_nonneg e). lia.
  - intros s Hs. apply znth_app_l. eapply owned_lt; eauto.
  - intros o' Ho'. destruct (H o' Ho') as [Hold|[Hnew _]]; auto.
  - intros s [o' [Ho' Hs]]. destruct (H o' Ho') as [Hold|[_ Hnew]]; [|auto].
    left. exists o'. auto.
  - intros s Hs. pose proof (Iheld s Hs). rewrite zlen_app. pose proof (zlen_nonneg e). split; [lia|auto].
  - intros s Hge _ Hh. pose proof (Iheld s Hh). lia.
Qed.

(* the heap grows, objects are replaced by objects over the same storages, the caller obtains views onto
   held or fresh storages *)
Lemma inv_ext_held h e objs objs' views memo views' memo' :
  InvC h objs views memo ->
  (forall o', In (Some o') objs' -> In (Some o') objs \/
     (ok (h ++ e) o' /\ forall s, In s (osids o') -> owned objs s)) ->
  (forall s, held views' memo' s -> held views memo s \/ zlen h <= s < zlen (h ++ e)) ->
  InvC (h ++ e) objs' views' memo'.
Proof.
  intros HI H Hh. pose proof HI as [Iok [Iheld Isep]].
  assert (Hown : forall s, owned objs' s -> owned objs s).
  { intros s [o' [Ho' Hs]]. destruct (H o' Ho') as [Hold|[_ Hnew]]; [|auto]. exists o'. auto. }
  apply (inv_intro h objs views memo); auto.
  - rewrite zlen_app. pose proof (zlen_nonneg e). lia.
  - intros s Hs. apply znth_app_l. eapply owned_lt; eauto.
  - intros o' Ho'. destruct (H o' Ho') as [Hold|[Hnew _]]; auto.
  - intros s Hs. destruct (Hh s Hs) as [Hold|Hnew].
    + pose proof (Iheld s Hold). rewrite zlen_app. pose proof (zlen_nonneg e). split; [lia|auto].
    + split; [lia|right; lia].
  - intros s Hge Ho _. apply Hown in Ho. pose proof (owned_lt _ _ _ _ s HI Ho). lia.
Qed.

Lemma inv_write h objs views memo v i x h' :
  InvC h objs views memo -> In v views -> write_view h v i x = Some h' -> InvC h' objs views memo.
Proof.
  intros HI Hv Hw. pose proof HI as [Iok [Iheld Isep]].
  pose proof (write_view_len _ _ _ _ _ Hw) as Hl.
  apply (inv_intro h objs views memo); auto.
  - lia.
  - intros s Hs. apply (write_view_other _ _ _ _ _ s Hw). intros ->.
    apply (Isep (v_sid v) Hs). left. exists v. auto.
  - intros s Hs. pose proof (Iheld s Hs). split; [lia|auto].
  - intros s Hge Ho _. pose proof (owned_lt _ _ _ _ s HI Ho). lia.
Qed.

(* ---------- abstraction of the object table ---------- *)
Definition pabsl (objs : list (option obj)) : list (option pobj) := map (option_map absf) objs.
Definition pabs (w : world) : list (option pobj) := pabsl (w_objs w).

Lemma znth_map {A B} (f : A -> B) l i : znth (map f l) i = option_map f (znth l i).
Proof.
  unfold znth. destruct (i <? 0); [reflexivity|].
  revert l; induction (Z.to_nat i) as [|n IH]; intros [|x t]; cbn [map nth_error option_map]; auto.
Qed.

Lemma zupd_map {A B} (g : A -> B) l n x :
  map g (zupd l n (fun _ => x)) = zupd (map g l) n (fun _ => g x).
Proof. revert n; induction l as [|y t IH]; intros [|n]; cbn [zupd map]; auto. now rewrite IH. Qed.

Lemma pabsl_set objs i x : pabsl (set_obj objs i x) = pset (pabsl objs) i (option_map absf x).
Proof. unfold pabsl, set_obj, pset. destruct (i <? 0); [reflexivity|]. apply zupd_map. Qed.

Lemma pabsl_app objs x : pabsl (objs ++ [x]) = pabsl objs ++ [option_map absf x].
Proof. unfold pabsl. now rewrite map_app. Qed.

Lemma pget_pabsl objs i :
  pget (pabsl objs) i = match znth objs i with Some (Some o) => Some (absf o) | _ => None end.
Proof. unfold pget, pabsl. rewrite znth_map. destruct (znth objs i) as [[o|]|]; reflexivity. Qed.

Lemma zlen_pabsl objs : zlen (pabsl objs) = zlen objs.
Proof. unfold pabsl, zlen. now rewrite map_length. Qed.

(* ---------- one step of either semantics ---------- *)
Definition pstep (objs : list (option pobj)) (o : op) : list (option pobj) * option (option (list Z)) :=
  match o with
  | MkFixed w n => (objs ++ [Some (PFixed w n 0)], None)
  | MkCar c => (objs ++ [Some (PCar c 0)], None)
  | MkGate s d oid =>
    match pget objs oid with
    | Some i => (pset objs oid None ++ [Some (PGate s d 0 (preset i))], None)
    | None => (objs, None)
    end
  | Next oid n =>
    match pget objs oid with
    | Some o => (pset objs oid (Some (fst (pnext o n))), Some (Some (snd (pnext o n))))
    | None => (objs, Some None)
    end
  | Reset oid =>
    match pget objs oid with
    | Some o => (pset objs oid (Some (preset o)), None)
    | None => (objs, None)
    end
  | DeepCopy oid =>
    match pget objs oid with
    | Some o => (objs ++ [Some o], None)
    | None => (objs, None)
    end
  | _ => (objs, None)
  end.

Lemma prun_cons objs o t :
  prun objs (o :: t) =
  match snd (pstep objs o) with
  | Some e => e :: prun (fst (pstep objs o)) t
  | None => prun (fst (pstep objs o)) t
  end.
Proof.
  destruct o; cbn [prun pstep]; try reflexivity; destruct (pget objs oid) as [x|]; try reflexivity.
  destruct (pnext x n) as [o' vals]. reflexivity.
Qed.

Definition nobs (o : op) (r : obs) : option (option (list Z)) :=
  match o with
  | Next _ _ => Some (match r with OVals l => Some l | _ => None end)
  | _ => None
  end.

Lemma next_obs_cons o t r rt :
  next_obs (o :: t) (r :: rt) =
  match nobs o r with Some e => e :: next_obs t rt | None => next_obs t rt end.
Proof. destruct o, r; reflexivity. Qed.

Lemma run_cons R w o t : run R w (o :: t) = snd (step R w o) :: run R (fst (step R w o)) t.
Proof. cbn [run]. destruct (step R w o). reflexivity. Qed.

Definition ro_pres (h h' : heap) : Prop :=
  forall s st, znth h s = Some st -> s_ro st = true -> znth h' s = Some st.

Lemma ro_pres_refl h : ro_pres h h.
Proof. intros s st H _. exact H. Qed.
Lemma ro_pres_app h e : ro_pres h (h ++ e).
Proof. intros s st H _. now apply znth_app_some. Qed.

Lemma read_view_fresh' h d ro n : zlen d = n -> read_view (h ++ [mks d ro]) (mkv (zlen h) 0 n) = d.
Proof. intros <-. apply read_view_fresh. Qed.

Lemma znth_live (objs : list (option obj)) i o : znth objs i = Some (Some o) -> In (Some o) objs.
Proof. apply znth_in. Qed.

Lemma in_app_one {A} (l : list A) x y : In y (l ++ [x]) -> In y l \/ y = x.
Proof. intros H. apply in_app_or in H. destruct H as [H|[H|[]]]; auto. Qed.

Lemma assoc_in k memo v : assoc k memo = Some v -> In (k, v) memo.
Proof.
  induction memo as [|[k' v'] t IH]; cbn [assoc]; [discriminate|].
  destruct (k =? k') eqn:E.
  - intros H. injection H as ->. left. f_equal. lia.
  - intros H. right. auto.
Qed.

Theorem step_sound w o w' r :
  Inv w -> wf_op o = true -> step all_repaired w o = (w', r) ->
  Inv w' /\ ro_pres (w_heap w) (w_heap w') /\
  pstep (pabs w) o = (pabs w', nobs o r) /\
  match o with CachedCall _ _ => True | _ => w_memo w' = w_memo w end.
Proof.
  destruct w as [h objs views memo g]. unfold Inv, pabs. cbn [w_heap w_objs w_views w_memo].
  intros HI Hwf E. pose proof HI as [Iok [Iheld Isep]].
  destruct o as [wid n|c|s d oid|oid n|oid|oid|vid i x|vid|key n|];
    cbn [step w_heap w_objs w_views w_memo w_global] in E; try unfold get_obj in E;
    cbn [w_heap w_objs w_views w_memo w_global] in E; cbn [wf_op] in Hwf.
  - (* MkFixed *)
    rewrite alloc_eq in E. injection E as Ew Er. subst w' r. cbn [w_heap w_objs w_views w_memo].
    split; [|split; [apply ro_pres_app|split; [|reflexivity]]].
    + apply (inv_ext_objs h _ objs); [exact HI|]. intros o' Ho'.
      apply in_app_one in Ho'. destruct Ho' as [Ho'|Ho']; [auto|]. right. injection Ho' as ->.
      assert (Hz : zlen (zrange (wave_code wid) 0 n) = n) by (apply zlen_zrange; lia).
      split.
      * cbn [ok]. rewrite read_view_fresh. cbn [mkv v_sid v_off v_len]. rewrite Hz.
        rewrite zlen_app, zlen_one. repeat split; auto; lia.
      * cbn [osids mkv v_sid In]. intros s0 [<-|[]]. right. lia.
    + cbn [pstep nobs]. rewrite pabsl_app. cbn [option_map absf mkv v_len].
      rewrite zlen_zrange by lia. reflexivity.
  - (* MkCar *)
    injection E as Ew Er. subst w' r. cbn [w_heap w_objs w_views w_memo].
    split; [|split; [apply ro_pres_refl|split; [|reflexivity]]].
    + rewrite <- (app_nil_r h). apply (inv_ext_objs h _ objs); [exact HI|]. intros o' Ho'.
      apply in_app_one in Ho'. destruct Ho' as [Ho'|Ho']; [auto|]. right. injection Ho' as ->.
      split; [exact I|intros s0 []].
    + cbn [pstep nobs]. rewrite pabsl_app. reflexivity.
  - (* MkGate *)
    cbn [pstep nobs]. rewrite pget_pabsl.
    destruct (znth objs oid) as [[i|]|] eqn:Ez; cbv beta iota in E; injection E as Ew Er; subst w' r;
      cbn [w_heap w_objs w_views w_memo];
      try (split; [exact HI|split; [apply ro_pres_refl|split; reflexivity]]).
    split; [|split; [apply ro_pres_refl|split; [|reflexivity]]].
    + rewrite <- (app_nil_r h). apply (inv_ext_objs h _ objs); [exact HI|]. intros o' Ho'.
      apply in_app_one in Ho'. destruct Ho' as [Ho'|Ho'].
      * rewrite set_obj_zset in Ho'. apply in_zset in Ho'. destruct Ho' as [Ho'|Ho']; [discriminate|auto].
      * right. injection Ho' as ->. apply znth_live in Ez. split.
        -- cbn [ok]. rewrite app_nil_r. apply ok_oreset. auto.
        -- cbn [osids]. rewrite osids_oreset. intros s0 Hs0. left. exists i. auto.
    + rewrite pabsl_app, pabsl_set. cbn [option_map absf]. now rewrite absf_oreset.
  - (* Next *)
    cbn [pstep nobs]. rewrite pget_pabsl.
    destruct (znth objs oid) as [[ob|]|] eqn:Ez; cbv beta iota in E;
      try (injection E as Ew Er; subst w' r; cbn [w_heap w_objs w_views w_memo];
           split; [exact HI|split; [apply ro_pres_refl|split; reflexivity]]).
    apply znth_live in Ez.
    destruct (onext_spec ob h n (Iok ob Ez) ltac:(lia)) as [ob' [Eo [Ha [Hs Ho]]]].
    rewrite Eo in E. injection E as Ew Er. subst w' r. cbn [w_heap w_objs w_views w_memo].
    split; [|split; [apply ro_pres_app|split; [|reflexivity]]].
    + apply (inv_ext_held h _ objs _ views memo); [exact HI| |].
      * intros o' Ho'. rewrite set_obj_zset in Ho'. apply in_zset in Ho'.
        destruct Ho' as [Ho'|Ho']; [|auto]. right. injection Ho' as ->. split.
        -- now apply ok_app.
        -- rewrite Hs. intros s0 Hs0. exists ob. auto.
      * intros s0 [[v [Hv Hsv]]|Hm]; [|left; right; exact Hm].
        apply in_app_one in Hv. destruct Hv as [Hv|Hv].
        -- left. left. exists v. auto.
        -- right. subst v. cbn [mkv v_sid] in Hsv. rewrite zlen_app, zlen_one. lia.
    + rewrite pabsl_set. cbn [option_map]. rewrite Ha.
      rewrite read_view_fresh' by (apply zlen_pnext; lia). reflexivity.
  - (* Reset *)
    cbn [pstep nobs]. rewrite pget_pabsl.
    destruct (znth objs oid) as [[ob|]|] eqn:Ez; cbv beta iota in E; injection E as Ew Er; subst w' r;
      cbn [w_heap w_objs w_views w_memo];
      try (split; [exact HI|split; [apply ro_pres_refl|split; reflexivity]]).
    split; [|split; [apply ro_pres_refl|split; [|reflexivity]]].
    + rewrite <- (app_nil_r h). apply (inv_ext_objs h _ objs); [exact HI|]. intros o' Ho'.
      rewrite set_obj_zset in Ho'. apply in_zset in Ho'. destruct Ho' as [Ho'|Ho']; [|auto].
      right. injection Ho' as ->. apply znth_live in Ez. split.
      * rewrite app_nil_r. apply ok_oreset. auto.
      * rewrite osids_oreset. intros s0 Hs0. left. exists ob. auto.
    + rewrite pabsl_set. cbn [option_map]. now rewrite absf_oreset.
  - (* DeepCopy *)
    cbn [pstep nobs]. rewrite pget_pabsl.
    destruct (znth objs oid) as [[ob|]|] eqn:Ez; cbv beta iota in E;
      try (injection E as Ew Er; subst w' r; cbn [w_heap w_objs w_views w_memo];
           split; [exact HI|split; [apply ro_pres_refl|split; reflexivity]]).
    apply znth_live in Ez.
    destruct (odeepcopy_spec ob h (Iok ob Ez)) as [e [ob' [Ed [Ha [Ho Hs]]]]].
    rewrite Ed in E. injection E as Ew Er. subst w' r. cbn [w_heap w_objs w_views w_memo].
    split; [|split; [apply ro_pres_app|split; [|reflexivity]]].
    + apply (inv_ext_objs h _ objs); [exact HI|]. intros o' Ho'.
      apply in_app_one in Ho'. destruct Ho' as [Ho'|Ho']; [auto|]. right. injection Ho' as ->.
      split; [exact Ho|]. intros s0 Hs0. right. auto.
    + rewrite pabsl_app. cbn [option_map]. now rewrite Ha.
  - (* Write *)
    cbn [pstep nobs].
    destruct (znth views vid) as [v|] eqn:Ev;
      [|injection E as Ew Er; subst w' r; cbn [w_heap w_objs w_views w_memo];
        split; [exact HI|split; [apply ro_pres_refl|split; reflexivity]]].
    destruct (write_view h v i x) as [h'|] eqn:Ew';
      [|injection E as Ew Er; subst w' r; cbn [w_heap w_objs w_views w_memo];
        split; [exact HI|split; [apply ro_pres_refl|split; reflexivity]]].
    injection E as Ew Er. subst w' r. cbn [w_heap w_objs w_views w_memo].
    split; [|split; [|split; reflexivity]].
    + apply (inv_write h objs views memo v i x); auto. eapply znth_in; eauto.
    + intros s0 st H1 H2. eapply write_view_ro; eauto.
  - (* ReadView *)
    cbn [pstep nobs].
    destruct (znth views vid) as [v|] eqn:Ev; injection E as Ew Er; subst w' r;
      cbn [w_heap w_objs w_views w_memo];
      (split; [exact HI|split; [apply ro_pres_refl|split; reflexivity]]).
  - (* CachedCall *)
    cbn [pstep nobs].
    destruct (assoc key memo) as [v|] eqn:Ea.
    + injection E as Ew Er. subst w' r. cbn [w_heap w_objs w_views w_memo].
      split; [|split; [apply ro_pres_refl|split; [reflexivity|exact I]]].
      rewrite <- (app_nil_r h). apply (inv_ext_held h _ objs _ views memo); [exact HI|auto|].
      intros s0 [[v0 [Hv Hsv]]|Hm]; [|left; right; exact Hm].
      apply in_app_one in Hv. destruct Hv as [Hv|Hv].
      * left. left. exists v0. auto.
      * left. right. subst v0. exists key, v. split; [now apply assoc_in|exact Hsv].
    + rewrite alloc_eq in E. injection E as Ew Er. subst w' r. cbn [w_heap w_objs w_views w_memo].
      split; [|split; [apply ro_pres_app|split; [reflexivity|exact I]]].
      apply (inv_ext_held h _ objs _ views memo); [exact HI|auto|].
      assert (Hfresh : zlen h <= zlen h < zlen (h ++ [mks (zrange (memo_code key) 0 n) (r_cache_ro all_repaired)]))
        by (rewrite zlen_app, zlen_one; lia).
      intros s0 [[v0 [Hv Hsv]]|[k0 [v0 [Hm Hsv]]]].
      * apply in_app_one in Hv. destruct Hv as [Hv|Hv].
        -- left. left. exists v0. auto.
        -- right. subst v0. cbn [mkv v_sid] in Hsv. subst s0. exact Hfresh.
      * destruct Hm as [Hm|Hm].
        -- right. injection Hm as _ <-. cbn [mkv v_sid] in Hsv. subst s0. exact Hfresh.
        -- left. right. exists k0, v0. auto.
  - (* GlobalRandom *)
    injection E as Ew Er. subst w' r. cbn [w_heap w_objs w_views w_memo].
    split; [exact HI|split; [apply ro_pres_refl|split; reflexivity]].
Qed.

(* ---------- refinement ---------- *)
Lemma refines_gen p : forall w, Inv w -> forallb wf_op p = true ->
  next_obs p (run all_repaired w p) = prun (pabs w) p.
Proof.
  induction p as [|o t IH]; intros w HI Hwf; [reflexivity|].
  cbn [forallb] in Hwf. apply andb_prop in Hwf. destruct Hwf as [Hwf Hwft].
  rewrite run_cons, next_obs_cons, prun_cons.
  destruct (step all_repaired w o) as [w' r] eqn:E. cbn [fst snd].
  destruct (step_sound w o w' r HI Hwf E) as [HI' [_ [Hp _]]].
  rewrite Hp. cbn [fst snd]. destruct (nobs o r); [f_equal|]; apply IH; auto.
Qed.

Theorem refines_pure : forall p, forallb wf_op p = true ->
  next_obs p (run all_repaired w0 p) = prun [] p.
Proof. intros p H. apply (refines_gen p w0 inv_w0 H). Qed.

Example refines_pure_ex : forallb wf_op [MkFixed 0 6; MkGate 1 3 0; Next 1 4] = true.
Proof. reflexivity. Qed.

(* ---------- memoised calls ---------- *)
Definition MemoOk (w : world) : Prop :=
  forall k v, assoc k (w_memo w) = Some v ->
    exists st n, znth (w_heap w) (v_sid v) = Some st /\ s_ro st = true /\
                 read_view (w_heap w) v = zrange (memo_code k) 0 n.

Lemma memook_w0 : MemoOk w0.
Proof. intros k v H. discriminate. Qed.

Lemma memook_pres w w' : MemoOk w -> ro_pres (w_heap w) (w_heap w') -> w_memo w' = w_memo w -> MemoOk w'.
Proof.
  intros HM Hro Hm k v Ha. rewrite Hm in Ha. destruct (HM k v Ha) as [st [n [H1 [H2 H3]]]].
  exists st, n. pose proof (Hro _ _ H1 H2) as H1'. split; [exact H1'|split; [exact H2|]].
  rewrite <- H3. apply read_view_ext. congruence.
Qed.

Lemma cached_gen p : forall w k o, Inv w -> MemoOk w -> forallb wf_op p = true ->
  In (k, o) (cached_obs p (run all_repaired w p)) ->
  exists n, o = OVals (zrange (memo_code k) 0 n) /\
    match assoc k (w_memo w) with
    | Some v => read_view (w_heap w) v = zrange (memo_code k) 0 n
    | None => first_n k p = Some n
    end.
Proof.
  induction p as [|op t IH]; intros w k o HI HM Hwf Hin; [destruct Hin|].
  cbn [forallb] in Hwf. apply andb_prop in Hwf. destruct Hwf as [Hwf Hwft].
  rewrite run_cons in Hin.
  destruct (step all_repaired w op) as [w' r] eqn:E. cbn [fst snd] in Hin.
  destruct (step_sound w op w' r HI Hwf E) as [HI' [Hro [_ Hmemo]]].
  assert (Hother : (forall key n, op <> CachedCall key n) -> w_memo w' = w_memo w ->
            In (k, o) (cached_obs t (run all_repaired w' t)) ->
            exists n, o = OVals (zrange (memo_code k) 0 n) /\
              match assoc k (w_memo w) with
              | Some v => read_view (w_heap w) v = zrange (memo_code k) 0 n
              | None => first_n k (op :: t) = Some n
              end).
  { intros Hne Hm Hin'.
    destruct (IH w' k o HI' (memook_pres w w' HM Hro Hm) Hwft Hin') as [n [Ho Hn]].
    exists n. split; [exact Ho|]. rewrite Hm in Hn.
    destruct (assoc k (w_memo w)) as [v|] eqn:Ea.
    - destruct (HM k v Ea) as [st [n0 [H1 [H2 H3]]]]. rewrite <- Hn. symmetry.
      apply read_view_ext. rewrite (Hro _ _ H1 H2). symmetry. exact H1.
    - destruct op; try exact Hn. exfalso. eapply Hne. reflexivity. }
  destruct op as [wid n|c|s d oid|oid n|oid|oid|vid i x|vid|key n|];
    try (cbn [cached_obs] in Hin; apply Hother; [intros; discriminate|exact Hmemo|exact Hin]).
  clear Hother Hmemo.
  destruct w as [h objs views memo g]. unfold MemoOk in HM.
  cbn [step w_heap w_objs w_views w_memo w_global] in E, HM |- *.
  cbn [cached_obs In] in Hin. cbn [first_n]. cbn [wf_op] in Hwf.
  destruct (assoc key memo) as [v|] eqn:Ea.
  - (* hit *)
    injection E as Ew Er. subst w' r.
    destruct Hin as [Hin|Hin].
    + injection Hin as -> <-. rewrite Ea.
      destruct (HM k v Ea) as [st [n0 [H1 [H2 H3]]]]. exists n0. rewrite H3. auto.
    + assert (HM' : MemoOk {| w_heap := h; w_objs := objs; w_views := views ++ [v];
                             w_memo := memo; w_global := g |}) by exact HM.
      destruct (IH _ k o HI' HM' Hwft Hin) as [n1 [Ho Hn]].
      cbn [w_memo w_heap] in Hn. exists n1. split; [exact Ho|].
      destruct (assoc k memo) as [v1|] eqn:Ea1; [exact Hn|].
      destruct (key =? k) eqn:Ek; [|exact Hn].
      assert (key = k) by lia. subst key. congruence.
  - (* miss *)
    rewrite alloc_eq in E. injection E as Ew Er. subst w' r.
    cbn [r_cache_ro all_repaired] in *.
    set (d := zrange (memo_code key) 0 n) in *.
    assert (Hd : read_view (h ++ [mks d true]) (mkv (zlen h) 0 (zlen d)) = d) by apply read_view_fresh.
    assert (HM' : MemoOk {| w_heap := h ++ [mks d true]; w_objs := objs;
                            w_views := views ++ [mkv (zlen h) 0 (zlen d)];
                            w_memo := (key, mkv (zlen h) 0 (zlen d)) :: memo; w_global := g |}).
    { intros k1 v1. cbn [w_memo w_heap assoc]. destruct (k1 =? key) eqn:Ek.
      - intros H. injection H as <-. exists (mks d true), n. cbn [mkv v_sid].
        rewrite znth_app_last. split; [reflexivity|split; [reflexivity|]].
        change (read_view (h ++ [mks d true]) (mkv (zlen h) 0 (zlen d)) = zrange (memo_code k1) 0 n).
        rewrite Hd. unfold d. f_equal. f_equal. lia.
      - intros H. destruct (HM k1 v1 H) as [st [n0 [H1 [H2 H3]]]]. exists st, n0.
        split; [now apply znth_app_some|split; [exact H2|]].
        rewrite <- H3. apply read_view_ext. rewrite H1. now apply znth_app_some. }
    destruct Hin as [Hin|Hin].
    + injection Hin as -> <-. rewrite Ea. exists n. rewrite Z.eqb_refl. rewrite Hd. auto.
    + destruct (IH _ k o HI' HM' Hwft Hin) as [n1 [Ho Hn]].
      cbn [w_memo w_heap assoc] in Hn. rewrite (Z.eqb_sym key k).
      destruct (k =? key) eqn:Ek.
      * assert (k = key) by lia. subst k. rewrite Ea. exists n. split; [|reflexivity].
        rewrite Ho. f_equal. rewrite <- Hn. rewrite Hd. reflexivity.
      * exists n1. split; [exact Ho|].
        destruct (assoc k memo) as [v1|] eqn:Ea1; [|exact Hn].
        destruct (HM k v1 Ea1) as [st [n0 [H1 [H2 H3]]]]. rewrite <- Hn. symmetry.
        apply read_view_ext. rewrite H1. now apply znth_app_some.
Qed.

Theorem cached_pure : forall p k o, forallb wf_op p = true ->
  In (k, o) (cached_obs p (run all_repaired w0 p)) ->
  exists n, first_n k p = Some n /\ o = OVals (zrange (memo_code k) 0 n).
Proof.
  intros p k o Hwf Hin.
  destruct (cached_gen p w0 k o inv_w0 memook_w0 Hwf Hin) as [n [Ho Hn]].
  exists n. cbn [w0 w_memo assoc] in Hn. auto.
Qed.

Example cached_pure_ex :
  In (0, OVals [500000000; 500000001]) (cached_obs [CachedCall 0 2; Write 0 1 900000000; CachedCall 0 5]
       (run all_repaired w0 [CachedCall 0 2; Write 0 1 900000000; CachedCall 0 5])).
Proof. vm_compute. auto. Qed.
