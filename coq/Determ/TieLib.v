(* Vocabulary of the ALIASING translator tie of C10:
     translate/pydeterm2coq.py  ->  coq/gen/DetermGen.v   (definitions `gen_*`, regenerated from psiaudio/stim.py on every run)
     coq/Determ/ProofsTie.v     :   the generated definitions equal the hand-written aliasing model (Determ/Model.v).
   Definitions only.  What is written here is LIBRARY behaviour the translator maps source constructs to (the trusted
   NumPy / Python table):
     x[a:b]                         basic slicing                  a VIEW of the same storage            a_slice
     np.zeros / np.full             allocation                     a FRESH writable array                a_zeros / a_full
     np.concatenate, x.copy(),      allocation + copy              a FRESH writable array                a_concat / a_copy
       np.array(x)
     np.asarray(x),                 on an ndarray                  THE SAME object                       a_same
       np.ascontiguousarray(x)
     x[a:b] = 0                     slice assignment               a write THROUGH the view (raises on   a_set_zero
                                                                   a read-only array)
     a.setflags(write=False)                                       the storage becomes read-only         setflags_ro
     return x                                                      a fresh array becomes a storage of    a_ret
                                                                   the caller's heap; a view is handed
                                                                   out as it is
   A fresh array that never leaves the function (np.zeros used as padding) is carried as its values: it has no
   alias anybody else could hold.  dict / tuple / sorted / isinstance of the memo wrapper: pycache, pyval, pyobj below. *)
From PV Require Export Common.PySlice Determ.Model.
Open Scope Z_scope.

(* ---------- arrays as a function body sees them ---------- *)
Inductive aval := AView (v : view) | AFresh (d : list Z).

Definition a_len (a : aval) : Z := match a with AView v => v_len v | AFresh d => zlen d end.
Definition a_vals (h : heap) (a : aval) : list Z := match a with AView v => read_view h v | AFresh d => d end.

(* v[lo:hi] of a view: CPython's index normalisation (Common/PySlice.v) on the view's length *)
Definition view_slice (lo hi : option Z) (v : view) : view :=
  let a := py_lo (v_len v) lo in
  let b := py_hi (v_len v) hi in
  {| v_sid := v_sid v; v_off := v_off v + a; v_len := Z.max (b - a) 0 |}.
Definition a_slice (lo hi : option Z) (a : aval) : aval :=
  match a with AView v => AView (view_slice lo hi v) | AFresh d => AFresh (py_slice lo hi d) end.

Definition a_zeros (n : Z) : aval := AFresh (repeat 0 (Z.to_nat n)).
Definition a_full (n x : Z) : aval := AFresh (repeat x (Z.to_nat n)).
Definition a_concat (h : heap) (l : list aval) : aval := AFresh (concat (map (a_vals h) l)).
Definition a_copy (h : heap) (a : aval) : aval := AFresh (a_vals h a).
Definition a_same (a : aval) : aval := a.

(* x[lo:hi] = 0; None = the write raised (read-only array) *)
Definition a_set_zero (h : heap) (a : aval) (lo hi : option Z) : option (heap * aval) :=
  match a with
  | AView v =>
    let x := py_lo (v_len v) lo in
    let y := py_hi (v_len v) hi in
    match zero_range h v x (Z.to_nat (y - x)) with
    | Some h' => Some (h', a)
    | None => None
    end
  | AFresh d => Some (h, AFresh (py_set_const lo hi 0 d))
  end.

Definition a_ret (h : heap) (a : aval) : heap * view :=
  match a with AView v => (h, v) | AFresh d => alloc h d false end.

(* ---------- the memo wrapper's Python values ---------- *)
(* what a key is made of: an argument value (a code; equal codes = equal and equally hashed Python values), an
   item (name, value) of kw.items(), the private marker object() of the closure *)
Inductive pyval := PInt (z : Z) | PPair (name v : Z) | PMarker.
Definition pyval_eqb (a b : pyval) : bool :=
  match a, b with
  | PInt x, PInt y => x =? y
  | PPair n x, PPair m y => (n =? m) && (x =? y)
  | PMarker, PMarker => true
  | _, _ => false
  end.
Definition key_eqb (a b : list pyval) : bool := eqb_list pyval_eqb a b.

Definition kw_items (kw : list (Z * Z)) : list pyval := map (fun p => PPair (fst p) (snd p)) kw.
(* sorted(): a stable insertion sort; (name, value) tuples compare by name, then value *)
Definition pyval_leb (a b : pyval) : bool :=
  match a, b with
  | PInt x, PInt y => x <=? y
  | PPair n x, PPair m y => (n <? m) || ((n =? m) && (x <=? y))
  | _, _ => true
  end.
Fixpoint py_insert (x : pyval) (l : list pyval) : list pyval :=
  match l with
  | [] => [x]
  | y :: t => if pyval_leb x y then x :: l else y :: py_insert x t
  end.
Definition py_sorted (l : list pyval) : list pyval := fold_right py_insert [] l.

(* objects a memoised function hands back, once they live in the heap *)
Inductive pyobj := OArr (v : view) | OOther (z : Z) | OTuple (l : list pyobj).
Definition is_tuple (o : pyobj) : bool := match o with OTuple _ => true | _ => false end.
Definition is_ndarray (o : pyobj) : bool := match o with OArr _ => true | _ => false end.
Definition tuple_elems (o : pyobj) : list pyobj := match o with OTuple l => l | _ => [] end.

(* what the call of the memoised function f itself computes: arrays nobody else holds (the memoised functions build their results by
   arithmetic / np.concatenate / scipy: pinned by the translator), scalars, or a tuple of these *)
Inductive relem := EArr (d : list Z) | EOther (z : Z).
Inductive pyres := ROne (e : relem) | RTuple (l : list relem).
Definition elem_alloc (h : heap) (e : relem) : heap * pyobj :=
  match e with
  | EArr d => let '(h', v) := alloc h d false in (h', OArr v)
  | EOther z => (h, OOther z)
  end.
Fixpoint elems_alloc (h : heap) (l : list relem) : heap * list pyobj :=
  match l with
  | [] => (h, [])
  | e :: t => let '(h1, o) := elem_alloc h e in let '(h2, os) := elems_alloc h1 t in (h2, o :: os)
  end.
Definition res_alloc (h : heap) (r : pyres) : heap * pyobj :=
  match r with
  | ROne e => elem_alloc h e
  | RTuple l => let '(h', os) := elems_alloc h l in (h', OTuple os)
  end.

Definition set_ro (h : heap) (sid : Z) : heap :=
  if sid <? 0 then h else zupd h (Z.to_nat sid) (fun s => {| s_data := s_data s; s_ro := true |}).
Definition setflags_ro (h : heap) (o : pyobj) : heap :=
  match o with OArr v => set_ro h (v_sid v) | _ => h end.

(* the dict of the closure: first match wins, an insertion goes in front *)
Definition pycache := list (list pyval * pyobj).
Fixpoint cache_get (k : list pyval) (c : pycache) : option pyobj :=
  match c with [] => None | (k', o) :: t => if key_eqb k k' then Some o else cache_get k t end.
Definition cache_mem (k : list pyval) (c : pycache) : bool :=
  match cache_get k c with Some _ => true | None => false end.
Definition cache_set (k : list pyval) (o : pyobj) (c : pycache) : pycache := (k, o) :: c.
