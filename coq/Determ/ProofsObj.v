(* C10: abstraction of heap objects to pure objects; next / reset / deepcopy of one object. *)
From PV Require Import Determ.Model Determ.Spec Determ.ProofsLib.
From PV Require Import Stim.ProofsLib.
From Coq Require Import ZArith List Bool Lia ZifyBool.
Import ListNotations.
Open Scope Z_scope.

Fixpoint absf (o : obj) : pobj :=
  match o with
  | OFixed w arr off => PFixed w (v_len arr) off
  | OCar c off => PCar c off
  | OGate s d off i => PGate s d off (absf i)
  end.

(* storages an object reads from *)
Fixpoint osids (o : obj) : list Z :=
  match o with
  | OFixed _ arr _ => [v_sid arr]
  | OCar _ _ => []
  | OGate _ _ _ i => osids i
  end.

(* the array behind a FixedWaveform is pristine *)
Fixpoint ok (h : heap) (o : obj) : Prop :=
  match o with
  | OFixed w arr off =>
    0 <= off /\ 0 <= v_off arr /\ 0 <= v_len arr /\ v_sid arr < zlen h /\
    read_view h arr = zrange (wave_code w) 0 (v_len arr)
  | OCar _ _ => True
  | OGate _ _ _ i => ok h i
  end.

Lemma ok_osids h o s : ok h o -> In s (osids o) -> s < zlen h.
Proof.
  induction o as [w arr off|c off|s0 d off i IH]; cbn [ok osids In]; intros H Hs.
  - destruct Hs as [<-|[]]. tauto.
  - destruct Hs.
  - auto.
Qed.

Lemma ok_ext h h' o : ok h o -> zlen h <= zlen h' ->
  (forall s, In s (osids o) -> znth h' s = znth h s) -> ok h' o.
Proof.
  induction o as [w arr off|c off|s0 d off i IH]; cbn [ok osids]; intros H Hl Hs.
  - destruct H as [H1 [H2 [H3 [H4 H5]]]]. repeat split; auto; [lia|].
    rewrite <- H5. apply read_view_ext. apply Hs. cbn [In]. auto.
  - exact I.
  - auto.
Qed.

Lemma ok_app h e o : ok h o -> ok (h ++ e) o.
Proof.
  intros H. apply (ok_ext h); [exact H| |].
  - rewrite zlen_app. pose proof (zlen_nonneg e). lia.
  - intros s Hs. apply znth_app_l. eapply ok_osids; eauto.
Qed.

(* ---------- reset ---------- *)
Lemma absf_oreset o : absf (oreset o) = preset (absf o).
Proof. induction o as [w arr off|c off|s d off i IH]; cbn [oreset absf preset]; congruence. Qed.

Lemma osids_oreset o : osids (oreset o) = osids o.
Proof. induction o as [w arr off|c off|s d off i IH]; cbn [oreset osids]; auto. Qed.

Lemma ok_oreset h o : ok h o -> ok h (oreset o).
Proof.
  induction o as [w arr off|c off|s d off i IH]; cbn [oreset ok]; auto.
  intros [H1 H2]. split; [lia|exact H2].
Qed.

(* ---------- pure objects ---------- *)
Lemma pnext_len po n : length (snd (pnext po n)) = Z.to_nat n.
Proof.
  induction po as [w len off|c off|s d off i IH]; cbn [pnext snd].
  - apply zr_length.
  - apply zr_length.
  - destruct (pnext i n) as [i' vals]. cbn [snd] in *.
    rewrite map_length, combine_length. unfold zrange. rewrite zr_length. lia.
Qed.

Lemma zlen_pnext po n : 0 <= n -> zlen (snd (pnext po n)) = n.
Proof. intros H. unfold zlen. rewrite pnext_len. lia. Qed.

Lemma preset_pnext po n : preset (fst (pnext po n)) = preset po.
Proof.
  induction po as [w len off|c off|s d off i IH]; cbn [pnext fst preset]; auto.
  destruct (pnext i n) as [i' vals]. cbn [fst preset] in *. congruence.
Qed.

Lemma pnext_gate s d off i n :
  pnext (PGate s d off i) n =
  (PGate s d (off + n) (fst (pnext i n)),
   gmask (fun k => (s <=? off + k) && (off + k <? s + d)) 0 (snd (pnext i n))).
Proof.
  cbn [pnext]. pose proof (pnext_len i n) as Hl. destruct (pnext i n) as [i' vals]. cbn [fst snd] in *.
  f_equal. unfold zrange.
  apply (map_combine_gmask (fun k => (s <=? off + k) && (off + k <? s + d))). lia.
Qed.

(* ---------- next ---------- *)
Lemma fixed_slice_data h w arr off n :
  0 <= off -> 0 <= n -> 0 <= v_off arr -> 0 <= v_len arr ->
  read_view h arr = zrange (wave_code w) 0 (v_len arr) ->
  let lo := np_clip off 0 (v_len arr) in
  let hi := np_clip (off + n) 0 (v_len arr) in
  read_view h {| v_sid := v_sid arr; v_off := v_off arr + lo; v_len := hi - lo |}
    ++ repeat 0 (Z.to_nat (n - (hi - lo)))
  = zrange (fixed_at w (v_len arr)) off n.
Proof.
  intros Hoff Hn Hvo Hvl Hrd lo hi.
  set (len := v_len arr) in *.
  assert (Hlo : lo = Z.min off len) by (unfold lo, np_clip; lia).
  assert (Hhi : hi = Z.min (off + n) len) by (unfold hi, np_clip; lia).
  clearbody lo hi.
  assert (Hsl : read_view h {| v_sid := v_sid arr; v_off := v_off arr + lo; v_len := hi - lo |}
                = zrange (wave_code w) lo (hi - lo)).
  { unfold read_view in *. cbn [v_sid v_off v_len]. fold len in Hrd.
    destruct (znth h (v_sid arr)) as [st|].
    - replace (Z.to_nat (v_off arr + lo)) with (Z.to_nat (v_off arr) + Z.to_nat lo)%nat by lia.
      rewrite <- skipn_skipn'.
      rewrite (sub_slice _ (Z.to_nat len)) by lia.
      rewrite Hrd. rewrite slice_core by lia. f_equal.
    - assert (len = 0).
      { apply (f_equal (@length Z)) in Hrd. unfold zrange in Hrd. rewrite zr_length in Hrd.
        cbn [length] in Hrd. lia. }
      symmetry. apply zrange_nil. lia. }
  rewrite Hsl.
  replace n with ((hi - lo) + (n - (hi - lo))) at 2 by lia.
  rewrite zrange_app by lia.
  rewrite (repeat_zr 0 (off + (hi - lo))).
  f_equal.
  - apply zrange_ext. intros k Hk. unfold fixed_at.
    destruct ((0 <=? off + k) && (off + k <? len)) eqn:E; [f_equal; lia|lia].
  - apply zr_ext. intros k Hk. unfold fixed_at.
    destruct ((0 <=? off + (hi - lo) + k) && (off + (hi - lo) + k <? len)) eqn:E; [lia|reflexivity].
Qed.

Lemma gate_masks (s d off lb ub L : Z) (vals : list Z) :
  lb = s - off -> ub = lb + d -> L = zlen vals ->
  let k1 := Z.to_nat (np_clip lb 0 L) in
  let a := np_clip (Z.max ub 0) 0 L in
  let k2 := Z.to_nat (L - a) in
  gmask (fun i => negb ((a <=? i) && (i <? a + Z.of_nat k2))) 0
    (if lb >=? 0 then gmask (fun i => negb ((0 <=? i) && (i <? 0 + Z.of_nat k1))) 0 vals else vals)
  = gmask (fun k => (s <=? off + k) && (off + k <? s + d)) 0 vals.
Proof.
  intros Hlb Hub HL k1 a k2.
  assert (Hk1 : Z.of_nat k1 = Z.min (Z.max lb 0) L).
  { unfold k1, np_clip. pose proof (zlen_nonneg vals). lia. }
  assert (Ha : a = Z.min (Z.max ub 0) L).
  { unfold a, np_clip. pose proof (zlen_nonneg vals). lia. }
  assert (Hk2 : Z.of_nat k2 = L - a).
  { unfold k2. pose proof (zlen_nonneg vals). lia. }
  clearbody k1 a k2.
  destruct (lb >=? 0) eqn:E.
  - rewrite gmask_gmask. apply gmask_ext. intros i Hi. rewrite <- HL in Hi.
    clear - Hlb Hub Hk1 Ha Hk2 E Hi. lia.
  - apply gmask_ext. intros i Hi. rewrite <- HL in Hi.
    clear - Hlb Hub Ha Hk2 E Hi. lia.
Qed.

Theorem onext_spec o : forall h n, ok h o -> 0 <= n ->
  exists o',
    onext all_repaired h o n =
      Some (o', h ++ [mks (snd (pnext (absf o) n)) false], mkv (zlen h) 0 n) /\
    absf o' = fst (pnext (absf o) n) /\ osids o' = osids o /\ ok h o'.
Proof.
  induction o as [w arr off|c off|s d off i IH]; intros h n Hok Hn.
  - cbn [ok] in Hok. destruct Hok as [H1 [H2 [H3 [H4 H5]]]].
    exists (OFixed w arr (off + n)).
    split; [|split; [reflexivity|split; [reflexivity|cbn [ok]; repeat split; auto; lia]]].
    cbn [onext absf pnext snd r_fixed_copy all_repaired]. rewrite orb_true_r.
    rewrite alloc_eq.
    rewrite (fixed_slice_data h w arr off n) by assumption.
    rewrite zlen_zrange by lia. reflexivity.
  - exists (OCar c (off + n)).
    split; [|split; [reflexivity|split; [reflexivity|exact I]]].
    cbn [onext absf pnext snd]. rewrite alloc_eq. rewrite zlen_zrange by lia. reflexivity.
  - cbn [ok] in Hok. destruct (IH h n Hok Hn) as [i' [E [Ha [Hs Ho]]]].
    exists (OGate s d (off + n) i').
    split; [|split; [|split; [exact Hs|exact Ho]]].
    + cbn [onext absf]. rewrite E. rewrite pnext_gate. cbn [snd].
      set (vals := snd (pnext (absf i) n)) in *.
      assert (HL : n = zlen vals) by (unfold vals; now rewrite zlen_pnext).
      change (v_len (mkv (zlen h) 0 n)) with n.
      set (lb := s - off). set (ub := lb + d).
      set (k1 := Z.to_nat (np_clip lb 0 n)).
      set (a := np_clip (Z.max ub 0) 0 n).
      assert (Hk1 : 0 + Z.of_nat k1 <= n) by (unfold k1, np_clip; lia).
      assert (Ha0 : 0 <= a) by (unfold a, np_clip; lia).
      assert (Ha1 : a + Z.of_nat (Z.to_nat (n - a)) <= n) by (unfold a, np_clip; lia).
      pose proof (gate_masks s d off lb ub n vals eq_refl eq_refl HL) as G. cbv zeta in G.
      fold k1 a in G.
      destruct (lb >=? 0) eqn:Elb.
      * rewrite (zero_range_last k1 h vals 0 n HL) by lia.
        rewrite (zero_range_last (Z.to_nat (n - a)) h _ a n) by (try rewrite zlen_gmask; auto).
        rewrite G. reflexivity.
      * rewrite (zero_range_last (Z.to_nat (n - a)) h vals a n HL) by auto.
        rewrite G. reflexivity.
    + cbn [absf]. rewrite pnext_gate. cbn [fst]. now rewrite Ha.
Qed.

Lemma onext_view_len o h n : ok h o -> 0 <= n ->
  zlen (snd (pnext (absf o) n)) = n.
Proof. intros _ H. now apply zlen_pnext. Qed.

(* ---------- deep copy ---------- *)
Lemma odeepcopy_spec o : forall h, ok h o ->
  exists e o', odeepcopy h o = (h ++ e, o') /\ absf o' = absf o /\ ok (h ++ e) o' /\
    (forall s, In s (osids o') -> zlen h <= s).
Proof.
  induction o as [w arr off|c off|s d off i IH]; intros h Hok.
  - cbn [ok] in Hok. destruct Hok as [H1 [H2 [H3 [H4 H5]]]].
    cbn [odeepcopy]. rewrite alloc_eq.
    exists [mks (read_view h arr) false], (OFixed w (mkv (zlen h) 0 (zlen (read_view h arr))) off).
    split; [reflexivity|].
    assert (HL : zlen (read_view h arr) = v_len arr) by (rewrite H5; now apply zlen_zrange).
    split; [cbn [absf mkv v_len]; now rewrite HL|].
    split.
    + cbn [ok]. rewrite read_view_fresh. cbn [mkv v_sid v_off v_len].
      rewrite zlen_app, zlen_one, HL. repeat split; auto; lia.
    + cbn [osids mkv v_sid In]. intros s0 [<-|[]]. lia.
  - exists [], (OCar c off). cbn [odeepcopy]. rewrite app_nil_r.
    split; [reflexivity|split; [reflexivity|split; [exact I|intros s []]]].
  - cbn [ok] in Hok. destruct (IH h Hok) as [e [i' [E [Ha [Ho Hs]]]]].
    exists e, (OGate s d off i'). cbn [odeepcopy]. rewrite E.
    split; [reflexivity|split; [cbn [absf]; now rewrite Ha|split; [exact Ho|exact Hs]]].
Qed.

Example onext_spec_ex :
  onext all_repaired [mks [1000000; 1000001; 1000002] false] (OGate 1 1 0 (OFixed 0 (mkv 0 0 3) 0)) 4
  = Some (OGate 1 1 4 (OFixed 0 (mkv 0 0 3) 4),
          [mks [1000000; 1000001; 1000002] false; mks [0; 1000001; 0; 0] false], mkv 1 0 4).
Proof. reflexivity. Qed.
