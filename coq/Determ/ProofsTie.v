(* C10 - translator tie of the array handling of psiaudio/stim.py.
   coq/gen/DetermGen.v is regenerated from the source on every run (translate/pydeterm2coq.py); this file proves that the
   regenerated definitions equal the hand-written aliasing model of Determ/Model.v (with every repair on), for ALL heaps,
   objects and requests satisfying the stated index invariant, and transports the main theorems of C10 to programs that are
   run with the generated next / reset / memo functions. *)
From PV Require Import Determ.Model Determ.Spec Determ.TieLib Determ.ProofsLib Determ.ProofsObj Determ.ProofsInv.
From PV Require Import gen.DetermGen.
From Coq Require Import ZArith List Bool Lia ZifyBool.
Import ListNotations.
Open Scope Z_scope.

(* ---------- Python slice bounds that are not negative ---------- *)
Lemma adj_bound_nonneg n b : 0 <= b -> adj_bound n b = Z.min b n.
Proof. intros H. unfold adj_bound. destruct (b <? 0) eqn:E; lia. Qed.

(* ================= FixedWaveform ================= *)
Definition fixed_of (arr : view) (off : Z) : fixed_st := {| fixed_waveform := arr; fixed_offset := off |}.
Definition lift_fixed (w : Z) (r : option (fixed_st * heap * view)) : option (obj * heap * view) :=
  match r with
  | Some (s, h, v) => Some (OFixed w (fixed_waveform s) (fixed_offset s), h, v)
  | None => None
  end.

(* next(): a copy of the slice / the zero-padded concatenation, never a view of the stored waveform.
   Invariant needed: the position is not negative (a negative bound of a Python slice counts from the end; the
   model clips it to 0), and the request is not negative. *)
Theorem fixed_next_tie : forall h w arr off n, 0 <= off -> 0 <= n ->
  lift_fixed w (gen_fixed_next h (fixed_of arr off) n) = onext all_repaired h (OFixed w arr off) n.
Proof.
  intros h w arr off n Hoff Hn.
  unfold gen_fixed_next, fixed_of, lift_fixed. cbv zeta.
  cbn [fixed_waveform fixed_offset a_slice a_len onext all_repaired r_fixed_copy].
  unfold view_slice, np_clip. cbn [v_len v_sid v_off py_lo py_hi].
  rewrite !adj_bound_nonneg by lia. rewrite orb_true_r.
  replace (Z.min (Z.max off 0) (v_len arr)) with (Z.min off (v_len arr)) by lia.
  replace (Z.min (Z.max (off + n) 0) (v_len arr)) with (Z.min (off + n) (v_len arr)) by lia.
  replace (Z.max (Z.min (off + n) (v_len arr) - Z.min off (v_len arr)) 0)
    with (Z.min (off + n) (v_len arr) - Z.min off (v_len arr)) by lia.
  set (got := Z.min (off + n) (v_len arr) - Z.min off (v_len arr)).
  set (sl := {| v_sid := v_sid arr; v_off := v_off arr + Z.min off (v_len arr); v_len := got |}).
  destruct (got <? n) eqn:E.
  - cbn [a_concat a_zeros a_vals map concat a_ret]. rewrite app_nil_r.
    destruct (alloc h (read_view h sl ++ repeat 0 (Z.to_nat (n - got))) false) as [h' v]. reflexivity.
  - cbn [a_copy a_vals a_ret].
    replace (Z.to_nat (n - got)) with 0%nat by lia. cbn [repeat]. rewrite app_nil_r.
    destruct (alloc h (read_view h sl) false) as [h' v]. reflexivity.
Qed.

Example fixed_next_tie_ex : 0 <= 2 /\ 0 <= 3 /\
  lift_fixed 0 (gen_fixed_next [mks [5; 6; 7] false] (fixed_of (mkv 0 0 3) 2) 3)
  = Some (OFixed 0 (mkv 0 0 3) 5, [mks [5; 6; 7] false; mks [7; 0; 0] false], mkv 1 0 3).
Proof. repeat split; try lia. Qed.

(* without the invariant the equality fails: a negative position is a bound counted from the end in the code *)
Theorem fixed_next_tie_refuted : exists h w arr off n, 0 <= n /\
  lift_fixed w (gen_fixed_next h (fixed_of arr off) n) <> onext all_repaired h (OFixed w arr off) n.
Proof. exists [mks [5; 6; 7] false], 0, (mkv 0 0 3), (-1), 3. split; [lia|]. vm_compute. discriminate. Qed.

Theorem fixed_reset_tie : forall w arr off,
  OFixed w (fixed_waveform (gen_fixed_reset (fixed_of arr off))) (fixed_offset (gen_fixed_reset (fixed_of arr off)))
  = oreset (OFixed w arr off).
Proof. reflexivity. Qed.

(* ================= carriers ================= *)
Definition lift_car (c : Z) (r : option (car_st * heap * view)) : option (obj * heap * view) :=
  match r with
  | Some (s, h, v) => Some (OCar c (car_offset s), h, v)
  | None => None
  end.

(* ToneFactory.next: a fresh writable array holding the next stream positions; nothing else is touched *)
Theorem tone_next_tie : forall h c off n,
  lift_car c (gen_tone_next c h {| car_offset := off |} n) = onext all_repaired h (OCar c off) n.
Proof.
  intros h c off n. unfold gen_tone_next, lift_car. cbn [car_offset a_ret onext].
  destruct (alloc h (zrange (car_code c) off n) false) as [h' v]. reflexivity.
Qed.

Theorem tone_reset_tie : forall c off, OCar c (car_offset (gen_tone_reset {| car_offset := off |})) = oreset (OCar c off).
Proof. reflexivity. Qed.

(* SilenceFactory.next: the object has no position at all; what it hands out is, like the model's carrier, a FRESH writable
   storage appended to the heap, of the same length, seen through the same view; nothing else is touched.  (The model
   tells the samples of a carrier apart by their stream position, the code fills in one constant: the values are
   related by the harness, the aliasing is what is tied here.) *)
Theorem silence_next_tie : forall h st n c off, exists d d',
  gen_silence_next h st n = Some (st, h ++ [mks d false], mkv (zlen h) 0 (zlen d)) /\
  onext all_repaired h (OCar c off) n = Some (OCar c (off + n), h ++ [mks d' false], mkv (zlen h) 0 (zlen d')) /\
  zlen d = zlen d' /\ d = repeat (silence_fill_value st) (Z.to_nat n).
Proof.
  intros h st n c off. exists (repeat (silence_fill_value st) (Z.to_nat n)), (zrange (car_code c) off n).
  unfold gen_silence_next. cbn [a_ret a_full onext]. rewrite !alloc_eq.
  repeat split. unfold zlen, zrange. rewrite repeat_length. f_equal.
  generalize (Z.to_nat n) off. intros k. induction k as [|k IH]; intros o; cbn [zr length]; [reflexivity|]. now rewrite <- IH.
Qed.

Theorem silence_reset_tie : forall st, gen_silence_reset st = st.
Proof. reflexivity. Qed.

(* ================= GateFactory ================= *)
Definition gate_of (s d off : Z) : gate_st := {| gate_start_samples := s; gate_duration_samples := d; gate_offset := off |}.
Definition lift_gate (r : option (gate_st * obj * heap * view)) : option (obj * heap * view) :=
  match r with
  | Some (g, i, h, v) => Some (OGate (gate_start_samples g) (gate_duration_samples g) (gate_offset g) i, h, v)
  | None => None
  end.

(* next(): whatever the wrapped generator hands out is zeroed IN PLACE outside the gate (two slice assignments through
   the view) and handed on; holds for every wrapped generator, heap and request *)
Theorem gate_next_tie : forall (inner_next : heap -> Z -> option (obj * heap * view)) h s d off n,
  lift_gate (gen_gate_next inner_next h (gate_of s d off) n) =
  match inner_next h n with
  | None => None
  | Some (inner', h1, v) =>
    let lb := s - off in
    let ub := lb + d in
    let h2 := if lb >=? 0 then zero_range h1 v 0 (Z.to_nat (np_clip lb 0 (v_len v))) else Some h1 in
    match h2 with
    | None => None
    | Some h2 =>
      let a := np_clip (Z.max ub 0) 0 (v_len v) in
      match zero_range h2 v a (Z.to_nat (v_len v - a)) with
      | None => None
      | Some h3 => Some (OGate s d (off + n) inner', h3, v)
      end
    end
  end.
Proof.
  intros inner_next h s d off n. unfold gen_gate_next, gate_of, lift_gate.
  cbn [gate_start_samples gate_duration_samples gate_offset].
  destruct (inner_next h n) as [[[i h1] v]|]; [|reflexivity].
  cbn zeta. unfold a_set_zero, np_clip. cbn [py_lo py_hi].
  assert (E2 : forall ub, adj_bound (v_len v) (Z.max ub 0) = Z.min (Z.max (Z.max ub 0) 0) (v_len v)).
  { intros ub. rewrite adj_bound_nonneg by lia. lia. }
  destruct (s - off >=? 0) eqn:E.
  - rewrite adj_bound_nonneg by lia. rewrite Z.sub_0_r.
    replace (Z.min (Z.max (s - off) 0) (v_len v)) with (Z.min (s - off) (v_len v)) by lia.
    destruct (zero_range h1 v 0 (Z.to_nat (Z.min (s - off) (v_len v)))) as [h2|]; [|reflexivity].
    rewrite E2. destruct (zero_range h2 v _ _) as [h3|]; reflexivity.
  - rewrite E2. destruct (zero_range h1 v _ _) as [h3|]; reflexivity.
Qed.

(* ================= dynamic dispatch: next() / reset() of any object the model knows ================= *)
Fixpoint gen_onext (o : obj) (h : heap) (n : Z) {struct o} : option (obj * heap * view) :=
  match o with
  | OFixed w arr off => lift_fixed w (gen_fixed_next h (fixed_of arr off) n)
  | OCar c off => lift_car c (gen_tone_next c h {| car_offset := off |} n)
  | OGate s d off inner => lift_gate (gen_gate_next (gen_onext inner) h (gate_of s d off) n)
  end.

Fixpoint gen_oreset (o : obj) : obj :=
  match o with
  | OFixed w arr off => let s := gen_fixed_reset (fixed_of arr off) in OFixed w (fixed_waveform s) (fixed_offset s)
  | OCar c off => OCar c (car_offset (gen_tone_reset {| car_offset := off |}))
  | OGate s d off inner =>
    let '(g, i) := gen_gate_reset (fun _ => gen_oreset inner) (gate_of s d off) inner in
    OGate (gate_start_samples g) (gate_duration_samples g) (gate_offset g) i
  end.

(* the index invariant of an object: every FixedWaveform in it stands at a position that is not negative *)
Fixpoint idx_ok (o : obj) : Prop :=
  match o with
  | OFixed _ _ off => 0 <= off
  | OCar _ _ => True
  | OGate _ _ _ i => idx_ok i
  end.

Lemma ok_idx_ok h o : ok h o -> idx_ok o.
Proof. induction o as [w arr off|c off|s d off i IH]; cbn [ok idx_ok]; tauto. Qed.

Example idx_ok_ex : idx_ok (OGate 1 3 0 (OFixed 0 (mkv 0 0 6) 0)).
Proof. cbn. lia. Qed.

Theorem gen_onext_tie : forall o h n, idx_ok o -> 0 <= n -> gen_onext o h n = onext all_repaired h o n.
Proof.
  induction o as [w arr off|c off|s d off i IH]; intros h n Hok Hn; cbn [gen_onext idx_ok] in *.
  - apply fixed_next_tie; assumption.
  - apply tone_next_tie.
  - rewrite gate_next_tie. rewrite IH by assumption. cbn [onext].
    destruct (onext all_repaired h i n) as [[[i' h1] v]|]; reflexivity.
Qed.

Theorem gen_oreset_tie : forall o, gen_oreset o = oreset o.
Proof.
  induction o as [w arr off|c off|s d off i IH]; cbn [gen_oreset oreset]; [reflexivity|reflexivity|].
  unfold gen_gate_reset, gate_of. cbn. now rewrite IH.
Qed.

(* ================= fast_cache: the memo wrapper ================= *)
(* the key of a call, as the model of the wrapper builds it: the positional arguments, the private marker, the keyword
   items in sorted order *)
Definition ref_key (args : list pyval) (kw : list (Z * Z)) : list pyval := args ++ [PMarker] ++ py_sorted (kw_items kw).
(* every ndarray of a tuple result / the bare ndarray result becomes read-only *)
Definition freeze (h : heap) (o : pyobj) : heap :=
  fold_left (fun h a => if is_ndarray a then setflags_ro h a else h) (if is_tuple o then tuple_elems o else [o]) h.
(* hit: the stored object itself, nothing changes; miss: the result is stored, frozen, and handed out *)
Definition ref_wrapper (h : heap) (cache : pycache) (args : list pyval) (kw : list (Z * Z)) (fres : pyres)
  : option (heap * pycache * pyobj) :=
  match cache_get (ref_key args kw) cache with
  | Some o => Some (h, cache, o)
  | None => let '(h1, o) := res_alloc h fres in Some (freeze h1 o, (ref_key args kw, o) :: cache, o)
  end.

Lemma pyval_eqb_eq a b : pyval_eqb a b = true <-> a = b.
Proof.
  destruct a as [x|n x|], b as [y|m y|]; cbn [pyval_eqb]; split; intros H; try discriminate; try reflexivity.
  - f_equal. lia.
  - injection H as ->. lia.
  - apply andb_prop in H. destruct H. f_equal; lia.
  - injection H as -> ->. rewrite !Z.eqb_refl. reflexivity.
Qed.

Lemma key_eqb_eq a : forall b, key_eqb a b = true <-> a = b.
Proof.
  unfold key_eqb. induction a as [|x s IH]; intros [|y t]; cbn [eqb_list]; split; intros H; try discriminate; try reflexivity.
  - apply andb_prop in H. destruct H as [H1 H2]. apply pyval_eqb_eq in H1. apply IH in H2. congruence.
  - injection H as -> ->. apply andb_true_intro. split; [now apply pyval_eqb_eq|now apply IH].
Qed.

Lemma key_eqb_refl a : key_eqb a a = true.
Proof. now apply key_eqb_eq. Qed.

Theorem wrapper_tie : forall h cache args kw fres,
  gen_fast_cache_wrapper h cache args kw fres = ref_wrapper h cache args kw fres.
Proof.
  intros h cache args kw fres. unfold gen_fast_cache_wrapper, ref_wrapper, ref_key. cbv zeta.
  rewrite <- app_assoc. set (key := args ++ [PMarker] ++ py_sorted (kw_items kw)).
  unfold cache_mem. destruct (cache_get key cache) as [o|] eqn:E; cbn [negb].
  - rewrite E. reflexivity.
  - destruct (res_alloc h fres) as [h1 o]. unfold cache_set. cbn [cache_get]. rewrite key_eqb_refl.
    unfold freeze. reflexivity.
Qed.

(* ---- the key determines the call ---- *)
Lemma in_py_insert x y l : In y (py_insert x l) -> y = x \/ In y l.
Proof.
  induction l as [|z t IH]; cbn [py_insert].
  - intros [H|[]]. auto.
  - destruct (pyval_leb x z).
    + intros [H|H]; auto.
    + intros [H|H]; [right; left; exact H|]. destruct (IH H) as [H1|H1]; [auto|right; right; exact H1].
Qed.

Lemma in_py_sorted y l : In y (py_sorted l) -> In y l.
Proof.
  induction l as [|x t IH]; cbn [py_sorted fold_right]; [auto|].
  intros H. apply in_py_insert in H. destruct H as [->|H]; [left; reflexivity|right; apply IH; exact H].
Qed.

Lemma no_marker_in_items kw : ~ In PMarker (py_sorted (kw_items kw)).
Proof.
  intros H. apply in_py_sorted in H. unfold kw_items in H. apply in_map_iff in H.
  destruct H as [p [H _]]. discriminate.
Qed.

Lemma split_first (m : pyval) : forall x1 x2 y1 y2, ~ In m x1 -> ~ In m x2 ->
  x1 ++ m :: y1 = x2 ++ m :: y2 -> x1 = x2 /\ y1 = y2.
Proof.
  induction x1 as [|a x1 IH]; intros [|b x2] y1 y2 H1 H2 E; cbn [app] in E.
  - injection E as ->. auto.
  - injection E as <- _. exfalso. apply H2. left. reflexivity.
  - injection E as -> _. exfalso. apply H1. left. reflexivity.
  - injection E as -> E. destruct (IH x2 y1 y2) as [-> ->]; auto.
    + intros H. apply H1. right. exact H.
    + intros H. apply H2. right. exact H.
Qed.

Lemma split_last (m : pyval) x1 x2 y1 y2 : ~ In m y1 -> ~ In m y2 ->
  x1 ++ m :: y1 = x2 ++ m :: y2 -> x1 = x2 /\ y1 = y2.
Proof.
  intros H1 H2 E. apply (f_equal (@rev pyval)) in E. rewrite !rev_app_distr in E. cbn [rev] in E.
  rewrite <- !app_assoc in E. cbn [app] in E.
  apply split_first in E; [|rewrite <- in_rev; assumption|rewrite <- in_rev; assumption].
  destruct E as [Ea Eb]. split.
  - rewrite <- (rev_involutive x1), <- (rev_involutive x2). now f_equal.
  - rewrite <- (rev_involutive y1), <- (rev_involutive y2). now f_equal.
Qed.

(* equal keys = the same positional arguments and the same keyword items (in whatever order they were written): a
   positional argument that happens to be a (name, value) tuple is not taken for a keyword argument, thanks to the marker *)
Theorem ref_key_inj : forall a1 k1 a2 k2, ref_key a1 k1 = ref_key a2 k2 ->
  a1 = a2 /\ py_sorted (kw_items k1) = py_sorted (kw_items k2).
Proof. intros a1 k1 a2 k2 E. unfold ref_key in E. cbn [app] in E. apply split_last in E; auto using no_marker_in_items. Qed.

Example ref_key_marker_ex : ref_key [PPair 1 2] [] <> ref_key [] [(1, 2)].
Proof. discriminate. Qed.

(* ---- what a miss does to the heap: every array of the result is a NEW read-only storage ---- *)
Definition arrs (l : list relem) : list (list Z) := flat_map (fun e => match e with EArr d => [d] | EOther _ => [] end) l.
Fixpoint objs_at (base : Z) (l : list relem) : list pyobj :=
  match l with
  | [] => []
  | EArr d :: t => OArr (mkv base 0 (zlen d)) :: objs_at (base + 1) t
  | EOther z :: t => OOther z :: objs_at base t
  end.

Lemma elems_alloc_eq : forall l h,
  elems_alloc h l = (h ++ map (fun d => mks d false) (arrs l), objs_at (zlen h) l).
Proof.
  induction l as [|[d|z] t IH]; intros h;
    [|change (arrs (EArr d :: t)) with (d :: arrs t)|change (arrs (EOther z :: t)) with (arrs t)];
    cbn [elems_alloc objs_at map app elem_alloc].
  - cbn. now rewrite app_nil_r.
  - rewrite alloc_eq. rewrite IH. rewrite zlen_app, zlen_one. rewrite <- app_assoc. reflexivity.
  - rewrite IH. reflexivity.
Qed.

Lemma set_ro_at h d rest : set_ro (h ++ mks d false :: rest) (zlen h) = h ++ mks d true :: rest.
Proof.
  unfold set_ro. pose proof (zlen_nonneg h). destruct (zlen h <? 0) eqn:E; [lia|].
  unfold zlen. rewrite Nat2Z.id. clear. induction h as [|x h IH]; cbn [length zupd app]; [reflexivity|now rewrite IH].
Qed.

Lemma freeze_elems : forall l h rest,
  fold_left (fun h a => if is_ndarray a then setflags_ro h a else h) (objs_at (zlen h) l)
            (h ++ map (fun d => mks d false) (arrs l) ++ rest)
  = h ++ map (fun d => mks d true) (arrs l) ++ rest.
Proof.
  induction l as [|[d|z] t IH]; intros h rest.
  - reflexivity.
  - change (arrs (EArr d :: t)) with (d :: arrs t).
    cbn [objs_at map app fold_left is_ndarray setflags_ro mkv v_sid]. rewrite set_ro_at.
    replace (h ++ mks d true :: map (fun d0 => mks d0 false) (arrs t) ++ rest)
      with ((h ++ [mks d true]) ++ map (fun d0 => mks d0 false) (arrs t) ++ rest) by (now rewrite <- app_assoc).
    replace (zlen h + 1) with (zlen (h ++ [mks d true])) by (now rewrite zlen_app, zlen_one).
    rewrite IH. now rewrite <- app_assoc.
  - change (arrs (EOther z :: t)) with (arrs t). cbn [objs_at fold_left is_ndarray]. apply IH.
Qed.

(* a miss on a bare array: exactly the model's read-only allocation *)
Theorem miss_array : forall h cache args kw d, cache_get (ref_key args kw) cache = None ->
  gen_fast_cache_wrapper h cache args kw (ROne (EArr d)) =
  (let '(h', v) := alloc h d true in Some (h', (ref_key args kw, OArr v) :: cache, OArr v)).
Proof.
  intros h cache args kw d E. rewrite wrapper_tie. unfold ref_wrapper. rewrite E.
  cbn [res_alloc elem_alloc]. rewrite !alloc_eq. unfold freeze. cbn [is_tuple fold_left is_ndarray setflags_ro mkv v_sid].
  rewrite set_ro_at. reflexivity.
Qed.

(* a miss on a tuple: EVERY array in it is a new read-only storage (and nothing else in the heap changes) *)
Theorem miss_tuple : forall h cache args kw l, cache_get (ref_key args kw) cache = None ->
  gen_fast_cache_wrapper h cache args kw (RTuple l) =
  Some (h ++ map (fun d => mks d true) (arrs l), (ref_key args kw, OTuple (objs_at (zlen h) l)) :: cache,
        OTuple (objs_at (zlen h) l)).
Proof.
  intros h cache args kw l E. rewrite wrapper_tie. unfold ref_wrapper. rewrite E.
  cbn [res_alloc]. rewrite elems_alloc_eq. unfold freeze. cbn [is_tuple tuple_elems].
  pose proof (freeze_elems l h []) as F. rewrite !app_nil_r in F. rewrite F. reflexivity.
Qed.

Example miss_tuple_ex :
  gen_fast_cache_wrapper [] [] [PInt 1] [(2, 3)] (RTuple [EArr [4; 5]; EOther 6; EArr [7]]) =
  Some ([mks [4; 5] true; mks [7] true],
        [([PInt 1; PMarker; PPair 2 3], OTuple [OArr (mkv 0 0 2); OOther 6; OArr (mkv 1 0 1)])],
        OTuple [OArr (mkv 0 0 2); OOther 6; OArr (mkv 1 0 1)]).
Proof. reflexivity. Qed.

(* a hit: the stored object itself; heap and table unchanged *)
Theorem hit_same_object : forall h cache args kw fres o, cache_get (ref_key args kw) cache = Some o ->
  gen_fast_cache_wrapper h cache args kw fres = Some (h, cache, o).
Proof. intros h cache args kw fres o E. rewrite wrapper_tie. unfold ref_wrapper. now rewrite E. Qed.

(* ================= programs run with the GENERATED next / reset / memo functions ================= *)
Section Programs.
  (* what call the model's memoised call number `key` is: its positional and its keyword arguments *)
  Variable argsof : Z -> list pyval.
  Variable kwof : Z -> list (Z * Z).
  Definition keyof (k : Z) : list pyval := ref_key (argsof k) (kwof k).
  (* different model keys are different calls (by ref_key_inj: different positional arguments or keyword items) *)
  Definition calls_distinct : Prop := forall k1 k2, keyof k1 = keyof k2 -> k1 = k2.

  Definition enc_cache (memo : list (Z * view)) : pycache := map (fun kv => (keyof (fst kv), OArr (snd kv))) memo.

  Lemma cache_get_enc memo k : calls_distinct ->
    cache_get (keyof k) (enc_cache memo) = option_map OArr (assoc k memo).
  Proof.
    intros Hd. induction memo as [|[k' v] t IH]; cbn [enc_cache map cache_get assoc fst snd]; [reflexivity|].
    destruct (k =? k') eqn:E.
    - assert (k = k') by lia. subst k'. rewrite key_eqb_refl. reflexivity.
    - destruct (key_eqb (keyof k) (keyof k')) eqn:E2.
      + apply key_eqb_eq in E2. apply Hd in E2. lia.
      + exact IH.
  Qed.

  (* the wrapper on the model's memoised call = the CachedCall step of Determ/Model.v with the cache repair on *)
  Theorem wrapper_cachedcall_tie : forall h memo k n, calls_distinct ->
    gen_fast_cache_wrapper h (enc_cache memo) (argsof k) (kwof k) (ROne (EArr (zrange (memo_code k) 0 n))) =
    match assoc k memo with
    | Some v => Some (h, enc_cache memo, OArr v)
    | None => let '(h', v) := alloc h (zrange (memo_code k) 0 n) (r_cache_ro all_repaired) in
              Some (h', enc_cache ((k, v) :: memo), OArr v)
    end.
  Proof.
    intros h memo k n Hd. pose proof (cache_get_enc memo k Hd) as G. fold (keyof k) in G.
    destruct (assoc k memo) as [v|] eqn:E; cbn [option_map] in G.
    - now apply hit_same_object.
    - rewrite miss_array by exact G. cbn [all_repaired r_cache_ro]. rewrite alloc_eq. reflexivity.
  Qed.

  (* one operation of a program; the caller's own operations (construction, deepcopy, writes into arrays it holds, reads,
     the global random state) are those of the model; next(), reset() (also the one the GateFactory constructor runs) and
     memoised calls go through the generated definitions *)
  Definition gen_step (st : world * pycache) (o : op) : (world * pycache) * obs :=
    let '(w, cache) := st in
    match o with
    | Next oid n =>
      match get_obj w oid with
      | Some ob =>
        match gen_onext ob (w_heap w) n with
        | Some (ob', h, v) =>
          (({| w_heap := h; w_objs := set_obj (w_objs w) oid (Some ob'); w_views := w_views w ++ [v];
               w_memo := w_memo w; w_global := w_global w |}, cache), OVals (read_view h v))
        | None => ((w, cache), ORaised)
        end
      | None => ((w, cache), ORaised)
      end
    | Reset oid =>
      match get_obj w oid with
      | Some ob => (({| w_heap := w_heap w; w_objs := set_obj (w_objs w) oid (Some (gen_oreset ob));
                        w_views := w_views w; w_memo := w_memo w; w_global := w_global w |}, cache), ONothing)
      | None => ((w, cache), ORaised)
      end
    | MkGate s d oid =>
      match get_obj w oid with
      | Some i =>
        (({| w_heap := w_heap w; w_objs := set_obj (w_objs w) oid None ++ [Some (OGate s d 0 (gen_oreset i))];
             w_views := w_views w; w_memo := w_memo w; w_global := w_global w |}, cache), ONothing)
      | None => ((w, cache), ORaised)
      end
    | CachedCall key n =>
      match gen_fast_cache_wrapper (w_heap w) cache (argsof key) (kwof key) (ROne (EArr (zrange (memo_code key) 0 n))) with
      | Some (h, cache', OArr v) =>
        (({| w_heap := h; w_objs := w_objs w; w_views := w_views w ++ [v]; w_memo := w_memo w;
             w_global := w_global w |}, cache'), OVals (read_view h v))
      | _ => ((w, cache), ORaised)
      end
    | _ => let '(w', r) := step all_repaired w o in ((w', cache), r)
    end.

  Fixpoint gen_run (st : world * pycache) (p : list op) : list obs :=
    match p with
    | [] => []
    | o :: t => let '(st', r) := gen_step st o in r :: gen_run st' t
    end.

  (* the generated semantics keeps its memo table in the wrapper's own dict: the world's w_memo stays empty *)
  Definition strip (w : world) : world :=
    {| w_heap := w_heap w; w_objs := w_objs w; w_views := w_views w; w_memo := []; w_global := w_global w |}.

  Ltac fin := cbn [fst snd strip w_heap w_objs w_views w_memo w_global]; reflexivity.

  Lemma gen_step_tie w o : calls_distinct -> Inv w -> wf_op o = true ->
    gen_step (strip w, enc_cache (w_memo w)) o =
    ((strip (fst (step all_repaired w o)), enc_cache (w_memo (fst (step all_repaired w o)))), snd (step all_repaired w o)).
  Proof.
    intros Hd HI Hwf. destruct w as [h objs views memo g]. pose proof HI as [Iok _].
    cbn [w_heap w_objs w_views w_memo] in Iok.
    assert (Hget : forall (w1 : world) oid, get_obj (strip w1) oid = get_obj w1 oid) by reflexivity.
    destruct o as [wid n|c|s d oid|oid n|oid|oid|vid i x|vid|key n|]; cbn [gen_step step]; rewrite ?Hget;
      unfold get_obj; cbn [strip w_heap w_objs w_views w_memo w_global].
    - destruct (alloc h (zrange (wave_code wid) 0 n) false) as [h' v]. fin.
    - fin.
    - destruct (znth objs oid) as [[i|]|]; first [fin | rewrite gen_oreset_tie; fin].
    - destruct (znth objs oid) as [[ob|]|] eqn:E; try fin.
      cbn [wf_op] in Hwf. rewrite gen_onext_tie; [| |lia].
      + destruct (onext all_repaired h ob n) as [[[ob' h'] v]|]; fin.
      + apply (ok_idx_ok h). apply Iok. eapply znth_live. exact E.
    - destruct (znth objs oid) as [[ob|]|]; first [fin | rewrite gen_oreset_tie; fin].
    - destruct (znth objs oid) as [[ob|]|]; try fin.
      destruct (odeepcopy h ob) as [h' ob']. fin.
    - destruct (znth views vid) as [v|]; try fin.
      destruct (write_view h v i x) as [h'|]; fin.
    - destruct (znth views vid) as [v|]; fin.
    - rewrite wrapper_cachedcall_tie by exact Hd.
      destruct (assoc key memo) as [v|]; [fin|].
      destruct (alloc h (zrange (memo_code key) 0 n) (r_cache_ro all_repaired)) as [h' v]. fin.
    - fin.
  Qed.

  Theorem gen_run_tie : calls_distinct -> forall p w, Inv w -> forallb wf_op p = true ->
    gen_run (strip w, enc_cache (w_memo w)) p = run all_repaired w p.
  Proof.
    intros Hd. induction p as [|o t IH]; intros w HI Hwf; [reflexivity|].
    cbn [forallb] in Hwf. apply andb_prop in Hwf. destruct Hwf as [Hwf Hwft].
    rewrite run_cons. cbn [gen_run]. rewrite (gen_step_tie w o Hd HI Hwf).
    destruct (step all_repaired w o) as [w' r] eqn:E. cbn [fst snd].
    destruct (step_sound w o w' r HI Hwf E) as [HI' _]. f_equal. apply IH; assumption.
  Qed.

  (* every program, run from the empty world with the generated functions, behaves as the model says *)
  Theorem gen_run_w0 : calls_distinct -> forall p, forallb wf_op p = true ->
    gen_run (w0, []) p = run all_repaired w0 p.
  Proof. intros Hd p Hwf. exact (gen_run_tie Hd p w0 inv_w0 Hwf). Qed.

  (* C10_refines_pure over the generated next / reset / memo functions *)
  Theorem source_refines_pure : calls_distinct -> forall p, forallb wf_op p = true ->
    next_obs p (gen_run (w0, []) p) = prun [] p.
  Proof. intros Hd p Hwf. rewrite gen_run_w0 by assumption. now apply refines_pure. Qed.

  (* C10_cached_pure over the generated next / reset / memo functions *)
  Theorem source_cached_pure : calls_distinct -> forall p k o, forallb wf_op p = true ->
    In (k, o) (cached_obs p (gen_run (w0, []) p)) ->
    exists n, first_n k p = Some n /\ o = OVals (zrange (memo_code k) 0 n).
  Proof. intros Hd p k o Hwf Hin. rewrite gen_run_w0 in Hin by assumption. now apply cached_pure. Qed.
End Programs.

(* the hypothesis is satisfiable: call number k = f(k) *)
Example calls_distinct_ex : calls_distinct (fun k => [PInt k]) (fun _ => []).
Proof. intros k1 k2 E. unfold keyof, ref_key in E. cbn in E. now injection E. Qed.

(* ... and needed: if two model keys are the SAME call, the second one is (rightly) answered from the table *)
Theorem source_cached_pure_refuted : exists p k o, forallb wf_op p = true /\
  In (k, o) (cached_obs p (gen_run (fun _ => []) (fun _ => []) (w0, []) p)) /\
  forall n, o <> OVals (zrange (memo_code k) 0 n).
Proof.
  exists [CachedCall 0 2; CachedCall 1 2], 1, (OVals [500000000; 500000001]).
  split; [reflexivity|split; [vm_compute; auto|]].
  intros n H. injection H as H. unfold zrange in H. destruct (Z.to_nat n) as [|m]; [discriminate|].
  cbn [zr] in H. injection H as H _. vm_compute in H. discriminate.
Qed.

Example source_ex :
  gen_run (fun k => [PInt k]) (fun _ => []) (w0, [])
    [MkFixed 0 6; MkGate 1 3 0; Next 1 4; Write 0 2 900000001; Reset 1; Next 1 4; CachedCall 7 3; Write 2 0 900000002; CachedCall 7 3]
  = run all_repaired w0
    [MkFixed 0 6; MkGate 1 3 0; Next 1 4; Write 0 2 900000001; Reset 1; Next 1 4; CachedCall 7 3; Write 2 0 900000002; CachedCall 7 3].
Proof. vm_compute. reflexivity. Qed.

From PV Require Determ.ModelMemo.
(* ================= the memo table over mutable argument objects (Determ/ModelMemo.v) =================
   ModelMemo keeps one table per memoised function f, keyed by the argument list as passed (plain values compare by
   value, objects by identity); an entry records WHICH stored array (allocation number) it hands out.  The generated
   wrapper on the same calls: an argument is its code (a value v: 2v, an object o: 2o+1 - its identity), the result
   is a one-element array, the heap has one storage per allocation. *)
Module MM := Determ.ModelMemo.
Definition enc_arg (a : MM.arg) : pyval := match a with MM.AVal v => PInt (2 * v) | MM.ARef o => PInt (2 * o + 1) end.
Definition mkey (k : list MM.arg) : list pyval := ref_key (map enc_arg k) [].
Definition enc_mcache (f : Z) (m : list MM.mentry) : pycache :=
  flat_map (fun e => if MM.e_fun e =? f then [(mkey (MM.e_key e), OArr (mkv (MM.e_sid e) 0 1))] else []) m.

Lemma mkey_eqb a : forall b, key_eqb (mkey a) (mkey b) = MM.key_eqb a b.
Proof.
  unfold mkey, ref_key, key_eqb. cbn [kw_items map py_sorted fold_right app].
  induction a as [|x s IH]; intros [|y t]; cbn [map app eqb_list MM.key_eqb pyval_eqb]; try reflexivity.
  - destruct y; reflexivity.
  - destruct x; reflexivity.
  - rewrite IH. f_equal. destruct x as [v|o], y as [v'|o']; cbn [enc_arg pyval_eqb MM.arg_eqb]; lia.
Qed.

Lemma mm_key_eqb_sym a : forall b, MM.key_eqb a b = MM.key_eqb b a.
Proof.
  induction a as [|x s IH]; intros [|y t]; cbn [MM.key_eqb]; try reflexivity.
  rewrite IH. f_equal. destruct x, y; cbn [MM.arg_eqb]; try reflexivity; apply Z.eqb_sym.
Qed.

Lemma cache_get_mcache f k m :
  cache_get (mkey k) (enc_mcache f m) = option_map (fun e => OArr (mkv (MM.e_sid e) 0 1)) (MM.mlookup f k m).
Proof.
  induction m as [|e t IH]; cbn [enc_mcache flat_map MM.mlookup]; [reflexivity|].
  destruct (MM.e_fun e =? f) eqn:E; cbn [andb app cache_get].
  - rewrite mkey_eqb, mm_key_eqb_sym. destruct (MM.key_eqb (MM.e_key e) k); [reflexivity|exact IH].
  - exact IH.
Qed.

(* one memoised call: a hit hands out the stored array of the entry the model finds (same allocation number) and
   changes nothing; a miss allocates storage number m_next (read-only) and records it under the key *)
Theorem wrapper_mstep_tie : forall h f k (m : list MM.mentry) next r, zlen h = next ->
  gen_fast_cache_wrapper h (enc_mcache f m) (map enc_arg k) [] (ROne (EArr [r])) =
  match MM.mlookup f k m with
  | Some e => Some (h, enc_mcache f m, OArr (mkv (MM.e_sid e) 0 1))
  | None => Some (h ++ [mks [r] true],
                  enc_mcache f ({| MM.e_fun := f; MM.e_key := k; MM.e_res := r; MM.e_sid := next |} :: m),
                  OArr (mkv next 0 1))
  end.
Proof.
  intros h f k m next r Hn. pose proof (cache_get_mcache f k m) as G. unfold mkey in G.
  destruct (MM.mlookup f k m) as [e|]; cbn [option_map] in G.
  - now apply hit_same_object.
  - rewrite miss_array by exact G. rewrite alloc_eq. cbn [enc_mcache flat_map MM.e_fun MM.e_key MM.e_sid].
    rewrite Z.eqb_refl. subst next. reflexivity.
Qed.
