(* C10: noninterference (via refinement + a lemma on the pure semantics), reset / deepcopy replay,
   and the two refutations for the unrepaired code. *)
From PV Require Import Determ.Model Determ.Spec Determ.ProofsLib Determ.ProofsObj Determ.ProofsInv.
From PV Require Import Stim.ProofsLib.
From Coq Require Import ZArith List Bool Lia ZifyBool.
Import ListNotations.
Open Scope Z_scope.

(* ---------- more znth ---------- *)
Lemma znth_app1 {A} (l : list A) x j :
  znth (l ++ [x]) j = if j <? zlen l then znth l j else if j =? zlen l then Some x else None.
Proof.
  destruct (j <? zlen l) eqn:E1; [apply znth_app_l; lia|].
  destruct (j =? zlen l) eqn:E2.
  - assert (j = zlen l) by lia. subst j. apply znth_app_last.
  - apply znth_none_ge. rewrite zlen_app, zlen_one. lia.
Qed.

Lemma znth_zset {A} (l : list A) i x j :
  znth (zset l i x) j =
  if j =? i then match znth l i with Some _ => Some x | None => None end else znth l j.
Proof.
  destruct (j =? i) eqn:E.
  - assert (j = i) by lia. subst j. destruct (znth l i) as [y|] eqn:Ez.
    + eapply znth_zset_same; eauto.
    + destruct (Z.ltb_spec i 0).
      * now apply znth_neg.
      * apply znth_none_ge. rewrite zlen_zset.
        destruct (Z.ltb_spec i (zlen l)); [|lia].
        destruct (znth_range_some l i) as [y Hy]; [lia|congruence].
  - apply znth_zset_other. lia.
Qed.

(* ---------- the pure stream of one generator ---------- *)
Definition pstream (oid : Z) (objs : list (option pobj)) (p : list op) : list (option (list Z)) :=
  map snd (filter (fun x => fst x =? oid) (combine (next_ids p) (prun objs p))).

Lemma stream_pure oid p : forallb wf_op p = true -> stream_of all_repaired oid p = pstream oid [] p.
Proof. intros H. unfold stream_of, pstream. now rewrite refines_pure. Qed.

Definition pemit (oid : Z) (objs : list (option pobj)) (o : op) : list (option (list Z)) :=
  match o with
  | Next j n =>
    if j =? oid
    then [match pget objs j with Some x => Some (snd (pnext x n)) | None => None end]
    else []
  | _ => []
  end.

Lemma pstream_cons oid objs o t :
  pstream oid objs (o :: t) = pemit oid objs o ++ pstream oid (fst (pstep objs o)) t.
Proof.
  unfold pstream. rewrite prun_cons.
  destruct o; cbn [next_ids pstep pemit]; try reflexivity;
    try (destruct (pget objs oid0); reflexivity).
  destruct (pget objs oid0) as [x|]; cbn [fst snd combine filter];
    destruct (oid0 =? oid); reflexivity.
Qed.

(* ---------- states that differ only in positions of objects nobody copies later ---------- *)
Definition psim (a b : option (option pobj)) : Prop :=
  match a, b with
  | None, None => True
  | Some None, Some None => True
  | Some (Some x), Some (Some y) => preset x = preset y
  | _, _ => False
  end.
Definition PS (l l' : list (option pobj)) : Prop := forall j, psim (znth l j) (znth l' j).
Definition QS (C : Z -> Prop) (l l' : list (option pobj)) : Prop := forall j, C j -> znth l j = znth l' j.
Definition keepset (oid : Z) (q : list op) (j : Z) : Prop := j = oid \/ copies_of j q = true.
Definition Rel (oid : Z) (q : list op) (l l' : list (option pobj)) : Prop :=
  PS l l' /\ QS (keepset oid q) l l'.

Lemma psim_refl a : psim a a.
Proof. destruct a as [[x|]|]; cbn; auto. Qed.

Lemma ps_len l l' : PS l l' -> zlen l = zlen l'.
Proof.
  intros H. destruct (Z.lt_trichotomy (zlen l) (zlen l')) as [Hlt|[Heq|Hgt]]; [|exact Heq|].
  - specialize (H (zlen l)). rewrite (znth_none_ge l) in H by lia.
    destruct (znth_range_some l' (zlen l)) as [y Hy]; [pose proof (zlen_nonneg l); lia|].
    rewrite Hy in H. destruct y; destruct H.
  - specialize (H (zlen l')). rewrite (znth_none_ge l') in H by lia.
    destruct (znth_range_some l (zlen l')) as [y Hy]; [pose proof (zlen_nonneg l'); lia|].
    rewrite Hy in H. destruct y; destruct H.
Qed.

Lemma ps_app l l' x x' : PS l l' -> psim (Some x) (Some x') -> PS (l ++ [x]) (l' ++ [x']).
Proof.
  intros H Hx j. rewrite !znth_app1. rewrite <- (ps_len l l' H).
  destruct (j <? zlen l); [apply H|]. destruct (j =? zlen l); [exact Hx|exact I].
Qed.

Lemma qs_app C l l' x : PS l l' -> QS C l l' -> QS C (l ++ [x]) (l' ++ [x]).
Proof.
  intros HP H j Hj. rewrite !znth_app1. rewrite <- (ps_len l l' HP).
  destruct (j <? zlen l); [now apply H|reflexivity].
Qed.

Lemma ps_set l l' i x x' : PS l l' -> psim (Some x) (Some x') -> PS (zset l i x) (zset l' i x').
Proof.
  intros H Hx j. rewrite !znth_zset. destruct (j =? i); [|apply H].
  specialize (H i). destruct (znth l i) as [a|], (znth l' i) as [a'|]; auto;
    try (destruct a; destruct H); try (destruct a'; destruct H).
Qed.

Lemma qs_set C l l' i x x' : PS l l' -> QS C l l' -> (C i -> x = x') ->
  QS C (zset l i x) (zset l' i x').
Proof.
  intros HP H Hx j Hj. rewrite !znth_zset. destruct (j =? i) eqn:E; [|now apply H].
  assert (j = i) by lia. subst j. rewrite (Hx Hj). rewrite (H i Hj). reflexivity.
Qed.

Lemma ps_set_r l l' i a a' b : PS l l' ->
  znth l i = Some (Some a) -> znth l' i = Some (Some a') -> preset a = preset b ->
  PS l (zset l' i (Some b)).
Proof.
  intros H Ha Ha' Hb j. rewrite znth_zset. destruct (j =? i) eqn:E; [|apply H].
  assert (j = i) by lia. subst j. rewrite Ha, Ha'. exact Hb.
Qed.

Lemma qs_set_r C l l' i x : QS C l l' -> ~ C i -> QS C l (zset l' i x).
Proof.
  intros H Hi j Hj. rewrite znth_zset. destruct (j =? i) eqn:E; [|now apply H].
  assert (j = i) by lia. subst j. contradiction.
Qed.

Lemma qs_weaken (C C' : Z -> Prop) l l' : (forall j, C j -> C' j) -> QS C' l l' -> QS C l l'.
Proof. intros H HQ j Hj. apply HQ. auto. Qed.

Lemma keepset_cons oid o q j : keepset oid q j -> keepset oid (o :: q) j.
Proof.
  unfold keepset, copies_of. cbn [existsb]. intros [H|H]; [auto|]. right. rewrite H. apply orb_true_r.
Qed.

Lemma pget_znth (l : list (option pobj)) i :
  pget l i = match znth l i with Some (Some o) => Some o | _ => None end.
Proof. reflexivity. Qed.

(* a kept operation acts alike on related states *)
Lemma rel_keep oid o q l l' : Rel oid (o :: q) l l' ->
  Rel oid q (fst (pstep l o)) (fst (pstep l' o)).
Proof.
  intros [HP HQ].
  assert (HQ' : QS (keepset oid q) l l') by (eapply qs_weaken; [apply keepset_cons|exact HQ]).
  assert (Hid : Rel oid q l l') by (split; assumption).
  destruct o as [wid n|c|s d i|i n|i|i|vid i x|vid|key n|]; cbn [pstep]; try exact Hid.
  - cbn [fst]. split; [apply ps_app; [exact HP|apply psim_refl]|now apply qs_app].
  - cbn [fst]. split; [apply ps_app; [exact HP|apply psim_refl]|now apply qs_app].
  - (* MkGate *)
    rewrite !pget_znth. pose proof (HP i) as Hi.
    destruct (znth l i) as [[a|]|] eqn:Ea, (znth l' i) as [[a'|]|] eqn:Ea'; cbn [psim] in Hi;
      try contradiction; try exact Hid.
    cbn [fst]. rewrite !pset_zset. rewrite Hi. split.
    + apply ps_app; [|apply psim_refl]. apply ps_set; [exact HP|exact I].
    + apply qs_app; [apply ps_set; [exact HP|exact I]|]. apply qs_set; auto.
  - (* Next *)
    rewrite !pget_znth. pose proof (HP i) as Hi.
    destruct (znth l i) as [[a|]|] eqn:Ea, (znth l' i) as [[a'|]|] eqn:Ea'; cbn [psim] in Hi;
      try contradiction; try exact Hid.
    cbn [fst]. rewrite !pset_zset. split.
    + apply ps_set; [exact HP|]. cbn [psim]. now rewrite !preset_pnext.
    + apply qs_set; auto. intros Hk. apply keepset_cons with (o := Next i n) in Hk.
      pose proof (HQ i Hk) as He. rewrite Ea, Ea' in He. injection He as ->. reflexivity.
  - (* Reset *)
    rewrite !pget_znth. pose proof (HP i) as Hi.
    destruct (znth l i) as [[a|]|] eqn:Ea, (znth l' i) as [[a'|]|] eqn:Ea'; cbn [psim] in Hi;
      try contradiction; try exact Hid.
    cbn [fst]. rewrite !pset_zset. rewrite Hi. split.
    + apply ps_set; [exact HP|apply psim_refl].
    + apply qs_set; auto.
  - (* DeepCopy *)
    rewrite !pget_znth. pose proof (HP i) as Hi.
    destruct (znth l i) as [[a|]|] eqn:Ea, (znth l' i) as [[a'|]|] eqn:Ea'; cbn [psim] in Hi;
      try contradiction; try exact Hid.
    cbn [fst].
    assert (Hk : keepset oid (DeepCopy i :: q) i).
    { right. unfold copies_of. cbn [existsb]. rewrite Z.eqb_refl. reflexivity. }
    pose proof (HQ i Hk) as He. rewrite Ea, Ea' in He. injection He as ->.
    split; [apply ps_app; [exact HP|apply psim_refl]|now apply qs_app].
Qed.

(* an inserted operation leaves the states related *)
Lemma rel_add oid o q l l' : irrelevant oid o = true ->
  (forall j, touches o = Some j -> copies_of j q = false) ->
  Rel oid (o :: q) l l' -> Rel oid q l (fst (pstep l' o)).
Proof.
  intros Hirr Ht [HP HQ].
  assert (HQ' : QS (keepset oid q) l l') by (eapply qs_weaken; [apply keepset_cons|exact HQ]).
  assert (Hid : Rel oid q l l') by (split; assumption).
  destruct o as [wid n|c|s d i|i n|i|i|vid i x|vid|key n|]; cbn [irrelevant] in Hirr;
    try discriminate; cbn [pstep]; try exact Hid.
  - (* Next *)
    rewrite pget_znth. pose proof (HP i) as Hi.
    destruct (znth l i) as [[a|]|] eqn:Ea, (znth l' i) as [[a'|]|] eqn:Ea'; cbn [psim] in Hi;
      try contradiction; try exact Hid.
    cbn [fst]. rewrite pset_zset. split.
    + apply (ps_set_r l l' i a a'); auto. now rewrite preset_pnext.
    + apply qs_set_r; [exact HQ'|]. intros [Hk|Hk]; [lia|].
      rewrite (Ht i eq_refl) in Hk. discriminate.
  - (* Reset *)
    rewrite pget_znth. pose proof (HP i) as Hi.
    destruct (znth l i) as [[a|]|] eqn:Ea, (znth l' i) as [[a'|]|] eqn:Ea'; cbn [psim] in Hi;
      try contradiction; try exact Hid.
    cbn [fst]. rewrite pset_zset. split.
    + apply (ps_set_r l l' i a a'); auto.
      clear - Hi. induction a' as [w len off|c off|s d off ii IH] in a, Hi |- *; destruct a; cbn [preset] in *;
        try discriminate; try congruence.
      injection Hi as -> -> Hi. f_equal. now apply IH.
    + apply qs_set_r; [exact HQ'|]. intros [Hk|Hk]; [lia|].
      rewrite (Ht i eq_refl) in Hk. discriminate.
Qed.

Lemma pemit_irrelevant oid objs o : irrelevant oid o = true -> pemit oid objs o = [].
Proof.
  destruct o; cbn [irrelevant pemit]; try reflexivity; try discriminate.
  intros H. destruct (oid0 =? oid); [discriminate|reflexivity].
Qed.

Lemma pemit_rel oid o q l l' : Rel oid (o :: q) l l' -> pemit oid l' o = pemit oid l o.
Proof.
  intros [_ HQ]. destruct o; cbn [pemit]; try reflexivity.
  destruct (oid0 =? oid) eqn:E; [|reflexivity].
  assert (oid0 = oid) by lia. subst oid0.
  rewrite !pget_znth. rewrite (HQ oid); [reflexivity|]. left. reflexivity.
Qed.

Lemma pstream_inserted oid p q : inserted oid p q ->
  forall l l', Rel oid q l l' -> pstream oid l' q = pstream oid l p.
Proof.
  induction 1 as [|o p q Hins IH|o p q Hirr Hwf Ht Hins IH]; intros l l' HR.
  - reflexivity.
  - rewrite !pstream_cons. rewrite (pemit_rel oid o q l l' HR). f_equal.
    apply IH. now apply rel_keep.
  - rewrite pstream_cons. rewrite pemit_irrelevant by exact Hirr. cbn [app].
    apply IH. now apply rel_add.
Qed.

Lemma inserted_wf oid p q : inserted oid p q -> forallb wf_op p = true -> forallb wf_op q = true.
Proof.
  induction 1 as [|o p q Hins IH|o p q Hirr Hwf Ht Hins IH]; cbn [forallb]; intros H.
  - reflexivity.
  - apply andb_prop in H. destruct H as [H1 H2]. rewrite H1. cbn [andb]. auto.
  - rewrite Hwf. cbn [andb]. auto.
Qed.

Theorem noninterference : forall oid p q, forallb wf_op p = true -> inserted oid p q ->
  stream_of all_repaired oid q = stream_of all_repaired oid p.
Proof.
  intros oid p q Hwf Hins.
  rewrite (stream_pure oid p Hwf), (stream_pure oid q (inserted_wf oid p q Hins Hwf)).
  apply (pstream_inserted oid p q Hins). split; intros j; [apply psim_refl|reflexivity].
Qed.

Example noninterference_ex :
  inserted 0 [MkCar 0; Next 0 2] [MkCar 0; Write 0 0 900000000; GlobalRandom; Next 0 2].
Proof.
  apply ins_keep. apply ins_add; [reflexivity|reflexivity|intros j H; discriminate|].
  apply ins_add; [reflexivity|reflexivity|intros j H; discriminate|]. apply ins_keep. apply ins_nil.
Qed.

(* Without the "not deep-copied later" premise of ins_add the statement is false: the copy at position 1
   legitimately starts from generator 0's new offset. *)
Inductive inserted_uncond (oid : Z) : list op -> list op -> Prop :=
| insu_nil : inserted_uncond oid [] []
| insu_keep : forall o p q, inserted_uncond oid p q -> inserted_uncond oid (o :: p) (o :: q)
| insu_add : forall o p q, irrelevant oid o = true -> wf_op o = true ->
    inserted_uncond oid p q -> inserted_uncond oid p (o :: q).

Theorem noninterference_without_copy_condition_refuted : exists oid p q,
  forallb wf_op p = true /\ inserted_uncond oid p q /\
  stream_of all_repaired oid q <> stream_of all_repaired oid p.
Proof.
  exists 1, [MkCar 0; DeepCopy 0; Next 1 3], [MkCar 0; Next 0 5; DeepCopy 0; Next 1 3].
  split; [reflexivity|split].
  - apply insu_keep. apply insu_add; [reflexivity|reflexivity|].
    apply insu_keep. apply insu_keep. apply insu_nil.
  - intros H. vm_compute in H. discriminate H.
Qed.

(* ---------- reset / deep copy ---------- *)
Theorem reset_replays : forall o n m,
  0 <= n -> 0 <= m -> snd (pnext (preset (fst (pnext o n))) m) = snd (pnext (preset o) m).
Proof. intros o n m _ _. now rewrite preset_pnext. Qed.

Theorem deepcopy_replays : forall objs oid o n, pget objs oid = Some o -> 0 <= n ->
  prun objs [DeepCopy oid; Next (zlen objs) n; Next oid n] =
  [Some (snd (pnext o n)); Some (snd (pnext o n))].
Proof.
  intros objs oid o n Hg Hn.
  assert (Hr : 0 <= oid < zlen objs).
  { rewrite pget_znth in Hg. destruct (znth objs oid) as [x|] eqn:E; [|discriminate].
    eapply znth_some_range; eauto. }
  cbn [prun]. rewrite Hg.
  assert (H1 : pget (objs ++ [Some o]) (zlen objs) = Some o).
  { rewrite pget_znth. now rewrite znth_app_last. }
  rewrite H1. destruct (pnext o n) as [o' vals] eqn:E.
  assert (H2 : pget (pset (objs ++ [Some o]) (zlen objs) (Some o')) oid = Some o).
  { rewrite pget_znth, pset_zset. rewrite znth_zset_other by lia. rewrite znth_app_l by lia.
    rewrite pget_znth in Hg. exact Hg. }
  rewrite H2, E. reflexivity.
Qed.

Example deepcopy_replays_ex : pget [Some (PCar 0 4)] 0 = Some (PCar 0 4).
Proof. reflexivity. Qed.

(* ---------- the unrepaired code ---------- *)
Theorem fixed_view_unrepaired_refuted : exists p, forallb wf_op p = true /\
  next_obs p (run {| r_fixed_copy := false; r_cache_ro := true |} w0 p) <> prun [] p.
Proof.
  exists [MkFixed 1 8; Next 0 3; Write 0 0 900000005; Reset 0; Next 0 8].
  split; [reflexivity|]. intros H. vm_compute in H. discriminate H.
Qed.

Theorem cache_unrepaired_refuted : exists p k o, forallb wf_op p = true /\
  In (k, o) (cached_obs p (run {| r_fixed_copy := true; r_cache_ro := false |} w0 p)) /\
  forall n, o <> OVals (zrange (memo_code k) 0 n).
Proof.
  exists [CachedCall 0 6; Write 0 2 900000007; CachedCall 0 6], 0,
         (OVals [500000000; 500000001; 900000007; 500000003; 500000004; 500000005]).
  split; [reflexivity|split].
  - vm_compute. right. left. reflexivity.
  - intros n H. injection H as H. unfold zrange in H.
    assert (Hn : Z.to_nat n = 6%nat).
    { apply (f_equal (@length Z)) in H. rewrite zr_length in H. cbn [length] in H. lia. }
    rewrite Hn in H. vm_compute in H. discriminate H.
Qed.
