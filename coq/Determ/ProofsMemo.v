(* C10 - proofs about memoisation over mutable argument objects (model: Determ/ModelMemo.v).
   key_by_value  (the repaired load_wav):  every call returns the function of the CURRENT argument values, for every
                  program; a repeated call with equal values is a hit on the very same stored entry.
   key_by_identity (the code before 2334879): returns a stale result as soon as an object is mutated after it was
                  used; correct exactly on the programs that never do that.                                         *)
From Coq Require Import ZArith List Bool Lia.
From PV Require Import Determ.ModelMemo.
Import ListNotations.
Open Scope Z_scope.

(* ---------- dictionary keys ---------- *)
Lemma arg_eqb_eq : forall a b, arg_eqb a b = true -> a = b.
Proof.
  intros [x|x] [y|y] H; cbn in H; try discriminate; apply Z.eqb_eq in H; subst; reflexivity.
Qed.

Lemma arg_eqb_refl : forall a, arg_eqb a a = true.
Proof. intros [x|x]; cbn; apply Z.eqb_refl. Qed.

Lemma key_eqb_eq : forall a b, key_eqb a b = true -> a = b.
Proof.
  induction a as [|x s IH]; intros [|y t] H; cbn in H; try discriminate; [reflexivity|].
  apply andb_true_iff in H. destruct H as [H1 H2].
  apply arg_eqb_eq in H1. apply IH in H2. subst. reflexivity.
Qed.

Lemma key_eqb_refl : forall a, key_eqb a a = true.
Proof. induction a as [|x s IH]; cbn; [reflexivity|]. rewrite arg_eqb_refl, IH. reflexivity. Qed.

Lemma mlookup_some : forall f k m e, mlookup f k m = Some e -> In e m /\ e_fun e = f /\ e_key e = k.
Proof.
  induction m as [|x t IH]; intros e H; cbn in H; [discriminate|].
  destruct ((e_fun x =? f) && key_eqb (e_key x) k) eqn:E.
  - injection H as <-. apply andb_true_iff in E. destruct E as [E1 E2].
    apply Z.eqb_eq in E1. apply key_eqb_eq in E2. auto with datatypes.
  - destruct (IH e H) as (Hi & Hf & Hk). auto with datatypes.
Qed.

Lemma mlookup_cons_self : forall f k r s m,
  mlookup f k ({| e_fun := f; e_key := k; e_res := r; e_sid := s |} :: m) =
  Some {| e_fun := f; e_key := k; e_res := r; e_sid := s |}.
Proof. intros. cbn. rewrite Z.eqb_refl, key_eqb_refl. reflexivity. Qed.

(* an entry is never shadowed: new entries are only made for keys that are absent *)
Lemma mlookup_cons_keep : forall f k e f' k' r s m,
  mlookup f k m = Some e -> mlookup f' k' m = None ->
  mlookup f k ({| e_fun := f'; e_key := k'; e_res := r; e_sid := s |} :: m) = Some e.
Proof.
  intros f k e f' k' r s m Hs Hn. cbn.
  destruct ((f' =? f) && key_eqb k' k) eqn:E; [|exact Hs].
  apply andb_true_iff in E. destruct E as [E1 E2].
  apply Z.eqb_eq in E1. apply key_eqb_eq in E2. subst. rewrite Hs in Hn. discriminate.
Qed.

Lemma map_AVal_inj : forall a b, map AVal a = map AVal b -> a = b.
Proof.
  induction a as [|x s IH]; intros [|y t] H; cbn in H; try discriminate; [reflexivity|].
  injection H as -> H. apply IH in H. subst. reflexivity.
Qed.

(* ---------- object states ---------- *)
Lemma mnth_app : forall l l' o x, mnth l o = Some x -> mnth (l ++ l') o = Some x.
Proof.
  unfold mnth. intros l l' o x H. destruct (o <? 0); [discriminate|].
  rewrite nth_error_app1; [exact H|]. apply nth_error_Some. rewrite H. discriminate.
Qed.

Lemma arg_vals_app : forall l l' k vals, arg_vals l k = Some vals -> arg_vals (l ++ l') k = Some vals.
Proof.
  induction k as [|a t IH]; intros vals H; cbn in *; [exact H|].
  destruct (arg_val l a) as [v|] eqn:Ea; [|discriminate].
  destruct (arg_vals l t) as [vs|] eqn:Et; [|discriminate].
  injection H as <-.
  assert (Ea' : arg_val (l ++ l') a = Some v).
  { destruct a as [x|o]; cbn in *; [exact Ea|]. apply mnth_app. exact Ea. }
  rewrite Ea', (IH vs eq_refl). reflexivity.
Qed.

Lemma nth_error_mset_other : forall l i j x, i <> j -> nth_error (mset l i x) j = nth_error l j.
Proof.
  induction l as [|y t IH]; intros i j x Hij; [destruct i; reflexivity|].
  destruct i as [|i], j as [|j]; cbn; try reflexivity; [congruence|].
  apply IH. congruence.
Qed.

Lemma mnth_mset_other : forall l o o' x, 0 <= o -> o' <> o -> mnth (mset l (Z.to_nat o) x) o' = mnth l o'.
Proof.
  unfold mnth. intros l o o' x Ho Hne. destruct (o' <? 0) eqn:E; [reflexivity|].
  apply nth_error_mset_other. apply Z.ltb_ge in E. lia.
Qed.

Lemma mnth_some_nonneg : forall l o x, mnth l o = Some x -> 0 <= o.
Proof. unfold mnth. intros l o x H. destruct (o <? 0) eqn:E; [discriminate|]. apply Z.ltb_ge in E. exact E. Qed.

Lemma arg_vals_mset_other : forall l o x k, 0 <= o -> ~ In o (refs k) ->
  arg_vals (mset l (Z.to_nat o) x) k = arg_vals l k.
Proof.
  induction k as [|a t IH]; intros Ho Hn; cbn; [reflexivity|].
  destruct a as [v|o']; cbn in *.
  - rewrite IH by assumption. reflexivity.
  - rewrite mnth_mset_other by (try assumption; intro; subst; auto).
    rewrite IH by (try assumption; intro; auto). reflexivity.
Qed.

(* ---------- the object states never depend on the discipline ---------- *)
Section Proofs.
  Variable digest : Z -> list Z -> list Z.
  Variable body : Z -> list Z -> Z.
  Notation step := (mstep digest body).
  Notation F := (true_result digest body).

  Lemma step_objs : forall D D' w w' o, m_objs w = m_objs w' ->
    m_objs (fst (step D w o)) = m_objs (fst (step D' w' o)).
  Proof.
    intros D D' w w' o H. destruct o as [v|x v|f args]; cbn; rewrite <- H.
    - reflexivity.
    - destruct (mnth (m_objs w) x); cbn; congruence.
    - destruct (arg_vals (m_objs w) args) as [vals|]; [|exact H].
      destruct D, D'; cbn;
        repeat match goal with |- context [mlookup ?f ?k ?m] => destruct (mlookup f k m) end; cbn; congruence.
  Qed.

  (* ---------- key_by_value ---------- *)
  Definition inv_value (m : list mentry) : Prop :=
    forall e, In e m -> exists d, e_key e = map AVal d /\ e_res e = body (e_fun e) d.

  Lemma step_value : forall w w' o, m_objs w = m_objs w' -> inv_value (m_memo w) ->
    inv_value (m_memo (fst (step key_by_value w o))) /\
    mobs_val (snd (step key_by_value w o)) = mobs_val (snd (step no_memo w' o)).
  Proof.
    intros w w' o Ho Hi. destruct o as [v|x v|f args]; cbn; try rewrite <- Ho.
    - auto.
    - destruct (mnth (m_objs w) x); cbn; auto.
    - destruct (arg_vals (m_objs w) args) as [vals|]; cbn; [|auto].
      destruct (mlookup f (map AVal (digest f vals)) (m_memo w)) as [e|] eqn:El; cbn.
      + split; [exact Hi|].
        apply mlookup_some in El. destruct El as (Hin & Hf & Hk).
        destruct (Hi e Hin) as (d & Hd & Hr).
        rewrite Hd in Hk. apply map_AVal_inj in Hk. subst d. rewrite Hr, Hf. reflexivity.
      + split; [|reflexivity].
        intros e [<-|Hin]; [|exact (Hi e Hin)].
        exists (digest f vals). split; reflexivity.
  Qed.

  Lemma run_value_from : forall p w w', m_objs w = m_objs w' -> inv_value (m_memo w) ->
    map mobs_val (mrun_from digest body key_by_value w p) = map mobs_val (mrun_from digest body no_memo w' p).
  Proof.
    induction p as [|o t IH]; intros w w' Ho Hi; cbn; [reflexivity|].
    pose proof (step_value w w' o Ho Hi) as (Hi' & Hv).
    pose proof (step_objs key_by_value no_memo w w' o Ho) as Ho'.
    destruct (step key_by_value w o) as [w1 r1]. destruct (step no_memo w' o) as [w1' r1'].
    cbn in *. rewrite Hv. f_equal. apply IH; assumption.
  Qed.

  Theorem memo_by_value_pure : forall p,
    map mobs_val (mrun digest body key_by_value p) = map mobs_val (mrun digest body no_memo p).
  Proof. intro p. apply run_value_from; [reflexivity|]. intros e []. Qed.

  (* the un-memoised run, spelled out: each call returns the function of the current argument values *)
  Theorem no_memo_explicit : forall w f args,
    snd (step no_memo w (Call f args)) =
    match arg_vals (m_objs w) args with Some vals => MRes (F f vals) (m_next w) | None => MRaised end.
  Proof. intros. cbn. destruct (arg_vals (m_objs w) args); reflexivity. Qed.

  (* entries persist, whatever happens next (any discipline) *)
  Lemma step_keeps : forall D w o f k e, mlookup f k (m_memo w) = Some e ->
    mlookup f k (m_memo (fst (step D w o))) = Some e.
  Proof.
    intros D w o f k e H. destruct o as [v|x v|f' args]; cbn.
    - exact H.
    - destruct (mnth (m_objs w) x); exact H.
    - destruct (arg_vals (m_objs w) args) as [vals|]; [|exact H].
      destruct D; cbn; try exact H.
      + destruct (mlookup f' args (m_memo w)) eqn:El; cbn; [exact H|]. apply mlookup_cons_keep; assumption.
      + destruct (mlookup f' (map AVal (digest f' vals)) (m_memo w)) eqn:El; cbn; [exact H|].
        apply mlookup_cons_keep; assumption.
  Qed.

  Lemma exec_keeps : forall D p w f k e, mlookup f k (m_memo w) = Some e ->
    mlookup f k (m_memo (mexec digest body D w p)) = Some e.
  Proof.
    induction p as [|o t IH]; intros w f k e H; cbn; [exact H|]. apply IH. apply step_keeps. exact H.
  Qed.

  Theorem memo_by_value_hit : forall p1 f a1 p2 a2 v1 v2,
    let w1 := mexec digest body key_by_value mw0 p1 in
    let s1 := step key_by_value w1 (Call f a1) in
    let w2 := mexec digest body key_by_value (fst s1) p2 in
    let s2 := step key_by_value w2 (Call f a2) in
    arg_vals (m_objs w1) a1 = Some v1 -> arg_vals (m_objs w2) a2 = Some v2 ->
    digest f v1 = digest f v2 ->
    exists r sid, snd s1 = MRes r sid /\ snd s2 = MRes r sid /\ fst s2 = w2.
  Proof.
    intros p1 f a1 p2 a2 v1 v2 w1 s1 w2 s2 H1 H2 Hd.
    assert (Hs1 : exists e, snd s1 = MRes (e_res e) (e_sid e) /\
                            mlookup f (map AVal (digest f v1)) (m_memo (fst s1)) = Some e).
    { subst s1. cbn. rewrite H1. cbn.
      destruct (mlookup f (map AVal (digest f v1)) (m_memo w1)) as [e|] eqn:El; cbn.
      - exists e. auto.
      - eexists. split; [|apply mlookup_cons_self]. reflexivity. }
    destruct Hs1 as (e & Hr1 & Hl1).
    assert (Hl2 : mlookup f (map AVal (digest f v2)) (m_memo w2) = Some e).
    { rewrite <- Hd. subst w2. apply exec_keeps. exact Hl1. }
    exists (e_res e), (e_sid e). split; [exact Hr1|].
    subst s2. cbn. rewrite H2. cbn. rewrite Hl2. cbn. auto.
  Qed.

  (* ---------- key_by_identity ---------- *)
  Definition inv_ident (used objs : list Z) (m : list mentry) : Prop :=
    forall e, In e m -> incl (refs (e_key e)) used /\
                        exists vals, arg_vals objs (e_key e) = Some vals /\ e_res e = F (e_fun e) vals.

  Definition used_after (used : list Z) (o : mop) : list Z :=
    match o with Call _ args => refs args ++ used | _ => used end.

  Lemma existsb_eqb_false : forall o l, existsb (Z.eqb o) l = false -> ~ In o l.
  Proof.
    intros o l H Hin. assert (existsb (Z.eqb o) l = true); [|congruence].
    apply existsb_exists. exists o. split; [exact Hin|apply Z.eqb_refl].
  Qed.

  Lemma step_ident : forall used w w' o t, m_objs w = m_objs w' ->
    inv_ident used (m_objs w) (m_memo w) -> set_before_use used (o :: t) = true ->
    inv_ident (used_after used o) (m_objs (fst (step key_by_identity w o))) (m_memo (fst (step key_by_identity w o))) /\
    set_before_use (used_after used o) t = true /\
    mobs_val (snd (step key_by_identity w o)) = mobs_val (snd (step no_memo w' o)).
  Proof.
    intros used w w' o t Ho Hi Hs. destruct o as [v|x v|f args]; cbn in Hs |- *; try rewrite <- Ho.
    - split; [|auto]. intros e Hin. destruct (Hi e Hin) as (Hu & vals & Hv & Hr).
      split; [exact Hu|]. exists vals. split; [apply arg_vals_app; exact Hv|exact Hr].
    - apply andb_true_iff in Hs. destruct Hs as [Hx Hs]. apply negb_true_iff in Hx.
      apply existsb_eqb_false in Hx.
      destruct (mnth (m_objs w) x) as [y|] eqn:En; cbn; [|auto].
      split; [|auto]. intros e Hin. destruct (Hi e Hin) as (Hu & vals & Hv & Hr).
      split; [exact Hu|]. exists vals. split; [|exact Hr].
      rewrite arg_vals_mset_other; [exact Hv|eapply mnth_some_nonneg; exact En|].
      intro Hc. apply Hx. apply Hu. exact Hc.
    - assert (Hw : forall m, inv_ident used (m_objs w) m -> inv_ident (refs args ++ used) (m_objs w) m).
      { intros m Hm e Hin. destruct (Hm e Hin) as (Hu & Hrest). split; [|exact Hrest].
        apply incl_appr. exact Hu. }
      destruct (arg_vals (m_objs w) args) as [vals|] eqn:Ev; cbn; [|auto].
      destruct (mlookup f args (m_memo w)) as [e|] eqn:El; cbn.
      + split; [auto|]. split; [exact Hs|].
        apply mlookup_some in El. destruct El as (Hin & Hf & Hk).
        destruct (Hi e Hin) as (_ & vals' & Hv & Hr).
        rewrite Hk, Ev in Hv. injection Hv as <-. rewrite Hr, Hf. reflexivity.
      + split; [|auto].
        intros e [<-|Hin]; [|exact (Hw _ Hi e Hin)]. cbn.
        split; [apply incl_appl; apply incl_refl|]. exists vals. auto.
  Qed.

  Lemma run_ident_from : forall p used w w', m_objs w = m_objs w' ->
    inv_ident used (m_objs w) (m_memo w) -> set_before_use used p = true ->
    map mobs_val (mrun_from digest body key_by_identity w p) = map mobs_val (mrun_from digest body no_memo w' p).
  Proof.
    induction p as [|o t IH]; intros used w w' Ho Hi Hs; cbn; [reflexivity|].
    pose proof (step_ident used w w' o t Ho Hi Hs) as (Hi' & Hs' & Hv).
    pose proof (step_objs key_by_identity no_memo w w' o Ho) as Ho'.
    destruct (step key_by_identity w o) as [w1 r1]. destruct (step no_memo w' o) as [w1' r1'].
    cbn [fst snd] in *. cbn. rewrite Hv. f_equal. eapply IH; eassumption.
  Qed.

  Theorem memo_by_identity_partial : forall p, set_before_use [] p = true ->
    map mobs_val (mrun digest body key_by_identity p) = map mobs_val (mrun digest body no_memo p).
  Proof. intros p H. eapply run_ident_from; [reflexivity| |exact H]. intros e []. Qed.

  (* whenever the function depends on an object's state AT ALL, mutating the object after a call makes the
     identity-keyed table return the result for the old state *)
  Theorem memo_by_identity_stale : forall f v0 v1, F f [v0] <> F f [v1] ->
    let p := [NewObj v0; Call f [ARef 0]; SetState 0 v1; Call f [ARef 0]] in
    mrun digest body key_by_identity p = [MNothing; MRes (F f [v0]) 0; MNothing; MRes (F f [v0]) 0] /\
    mrun digest body key_by_value p = [MNothing; MRes (F f [v0]) 0; MNothing; MRes (F f [v1]) 1] /\
    mrun digest body no_memo p = [MNothing; MRes (F f [v0]) 0; MNothing; MRes (F f [v1]) 1].
  Proof.
    intros f v0 v1 Hne p. subst p. unfold mrun. cbn. rewrite Z.eqb_refl. cbn.
    split; [reflexivity|]. split; [|reflexivity].
    destruct (key_eqb (map AVal (digest f [v0])) (map AVal (digest f [v1]))) eqn:E; [|reflexivity].
    exfalso. apply Hne.
    apply key_eqb_eq, map_AVal_inj in E.
    unfold true_result. rewrite E. reflexivity.
  Qed.
End Proofs.

(* ---------- the load_wav instance ---------- *)
Theorem memo_by_identity_refuted :
  let p := [NewObj 0; Call 0 [AVal 1; AVal 1; AVal 5; ARef 0]; SetState 0 1; Call 0 [AVal 1; AVal 1; AVal 5; ARef 0]] in
  map mobs_val (wav_run key_by_identity p) <> map mobs_val (wav_run no_memo p) /\
  wav_run key_by_identity p = [MNothing; MRes 1015005 0; MNothing; MRes 1015005 0] /\
  wav_run key_by_value p = [MNothing; MRes 1015005 0; MNothing; MRes 1015006 1].
Proof. vm_compute. split; [discriminate|split; reflexivity]. Qed.

Example memo_hit_ex :
  wav_run key_by_value [NewObj 3; NewObj 2; Call 0 [AVal 1; AVal 1; AVal 5; ARef 0]; SetState 1 3;
                        Call 0 [AVal 1; AVal 1; AVal 5; ARef 1]; Call 0 [AVal 1; AVal 1; AVal 4; ARef 1]]
  = [MNothing; MNothing; MRes 1015008 0; MNothing; MRes 1015008 0; MRes 1015007 1].
Proof. vm_compute. reflexivity. Qed.

Example set_before_use_ex :
  set_before_use [] [NewObj 0; SetState 0 4; Call 0 [AVal 1; AVal 1; AVal 5; ARef 0]; NewObj 1; SetState 1 2;
                     Call 0 [AVal 1; AVal 1; AVal 5; ARef 1]; Call 0 [AVal 1; AVal 1; AVal 5; ARef 0]] = true.
Proof. vm_compute. reflexivity. Qed.
