(* Heap-free reference semantics for C10: every generator is a pure function of its own parameters
   and of the calls made on it.  No arrays, no aliasing, no global state. *)
From PV Require Export Determ.Model.

Inductive pobj :=
| PFixed (w len : Z) (offset : Z)
| PCar (c : Z) (offset : Z)
| PGate (start dur : Z) (offset : Z) (inner : pobj).

Definition fixed_at (w len i : Z) : Z := if (0 <=? i) && (i <? len) then wave_code w i else 0.

Fixpoint pnext (o : pobj) (n : Z) : pobj * list Z :=
  match o with
  | PFixed w len off => (PFixed w len (off + n), zrange (fixed_at w len) off n)
  | PCar c off => (PCar c (off + n), zrange (car_code c) off n)
  | PGate s d off i =>
    let '(i', vals) := pnext i n in
    (PGate s d (off + n) i',
     map (fun kv => if (s <=? off + fst kv) && (off + fst kv <? s + d) then snd kv else 0)
         (combine (zrange (fun k => k) 0 n) vals))
  end.

Fixpoint preset (o : pobj) : pobj :=
  match o with
  | PFixed w len _ => PFixed w len 0
  | PCar c _ => PCar c 0
  | PGate s d _ i => PGate s d 0 (preset i)
  end.

(* the pure interpretation of a program: only the operations on generators matter *)
Definition pset (l : list (option pobj)) (i : Z) (o : option pobj) : list (option pobj) :=
  if i <? 0 then l else zupd l (Z.to_nat i) (fun _ => o).
Definition pget (l : list (option pobj)) (i : Z) : option pobj :=
  match znth l i with Some (Some o) => Some o | _ => None end.

Fixpoint prun (objs : list (option pobj)) (p : list op) : list (option (list Z)) :=
  (* one entry per Next: Some values, or None when the call is on a missing object *)
  match p with
  | [] => []
  | MkFixed w n :: t => prun (objs ++ [Some (PFixed w n 0)]) t
  | MkCar c :: t => prun (objs ++ [Some (PCar c 0)]) t
  | MkGate s d oid :: t =>
    match pget objs oid with
    | Some i => prun (pset objs oid None ++ [Some (PGate s d 0 (preset i))]) t
    | None => prun objs t
    end
  | Next oid n :: t =>
    match pget objs oid with
    | Some o => let '(o', vals) := pnext o n in Some vals :: prun (pset objs oid (Some o')) t
    | None => None :: prun objs t
    end
  | Reset oid :: t =>
    match pget objs oid with
    | Some o => prun (pset objs oid (Some (preset o))) t
    | None => prun objs t
    end
  | DeepCopy oid :: t =>
    match pget objs oid with
    | Some o => prun (objs ++ [Some o]) t
    | None => prun objs t
    end
  | _ :: t => prun objs t                 (* Write, ReadView, CachedCall, GlobalRandom: irrelevant *)
  end.

(* what the heap semantics reports for the Next operations of a program *)
Fixpoint next_obs (p : list op) (r : list obs) : list (option (list Z)) :=
  match p, r with
  | Next _ _ :: t, OVals l :: rt => Some l :: next_obs t rt
  | Next _ _ :: t, _ :: rt => None :: next_obs t rt
  | _ :: t, _ :: rt => next_obs t rt
  | _, _ => []
  end.

(* programs the property quantifies over: non-negative sizes *)
Definition wf_op (o : op) : bool :=
  match o with
  | MkFixed _ n => 0 <=? n
  | MkGate s d _ => (0 <=? s) && (0 <=? d)
  | Next _ n => 0 <=? n
  | CachedCall _ n => 0 <=? n
  | _ => true
  end.

(* memoised calls: the value a pure function returns for `key` (n is fixed by the first call) *)
Fixpoint first_n (key : Z) (p : list op) : option Z :=
  match p with
  | [] => None
  | CachedCall k n :: t => if k =? key then Some n else first_n key t
  | _ :: t => first_n key t
  end.
Fixpoint cached_obs (p : list op) (r : list obs) : list (Z * obs) :=
  match p, r with
  | CachedCall k _ :: t, o :: rt => (k, o) :: cached_obs t rt
  | _ :: t, _ :: rt => cached_obs t rt
  | _, _ => []
  end.

Definition eqb_optlist (a b : option (list Z)) : bool := eqb_option eqb_listZ a b.
Definition isolation_test (p : list op) : bool :=
  negb (forallb wf_op p) ||
  eqb_list eqb_optlist (next_obs p (run all_repaired w0 p)) (prun [] p).

(* ---------- noninterference, stated on the heap semantics itself ---------- *)
Fixpoint next_ids (p : list op) : list Z :=
  match p with
  | [] => []
  | Next oid _ :: t => oid :: next_ids t
  | _ :: t => next_ids t
  end.
(* the stream of observations object `oid` produced in a run *)
Definition stream_of (R : repairs) (oid : Z) (p : list op) : list (option (list Z)) :=
  map snd (filter (fun x => fst x =? oid) (combine (next_ids p) (next_obs p (run R w0 p)))).

(* operations that must not matter to generator `oid`: anything the caller does with arrays it was
   handed, memoised calls, the global random state, and use of OTHER generators *)
Definition irrelevant (oid : Z) (o : op) : bool :=
  match o with
  | Write _ _ _ | ReadView _ | CachedCall _ _ | GlobalRandom => true
  | Next j _ | Reset j => negb (j =? oid)
  | _ => false
  end.
(* an inserted next()/reset() on generator j must not be followed by a deep copy OF j (the copy would
   legitimately start from j's new position: it is j's descendant, not an unrelated object) *)
Definition copies_of (j : Z) (q : list op) : bool :=
  existsb (fun o => match o with DeepCopy j' => j' =? j | _ => false end) q.
Definition touches (o : op) : option Z :=
  match o with Next j _ | Reset j => Some j | _ => None end.
(* q is p with irrelevant operations inserted anywhere (subject to the condition above) *)
Inductive inserted (oid : Z) : list op -> list op -> Prop :=
| ins_nil : inserted oid [] []
| ins_keep : forall o p q, inserted oid p q -> inserted oid (o :: p) (o :: q)
| ins_add : forall o p q, irrelevant oid o = true -> wf_op o = true ->
    (forall j, touches o = Some j -> copies_of j q = false) ->
    inserted oid p q -> inserted oid p (o :: q).
