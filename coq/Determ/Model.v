(* C10 - an aliasing model of stimulus generation: arrays live in a heap of storages, results of
   next() and of memoised functions are VIEWS onto storages, callers may write through any view they
   hold.  Definitions only.

   Values are integer codes that the harness evaluates with the implementation's one-shot functions:
     0                         exact zero
     wave w i  = 1000000*(w+1) + i        element i of the array the fixed waveform w was built from
     car c i   = -(1000000*(c+1) + i)     carrier c (tone / silence / seeded noise) at stream index i
     memo k i  = 500000000 + 1000*k + i   element i of the pure function result for argument key k
     other values >= 900000000            values written by the caller
   Python                                   model
   FixedWaveform.next                       fixed_next  (repaired: copy of the slice; unrepaired: a view when no padding is needed)
   GateFactory.next (in-place zeroing)      gate_next   (writes zeros through the view it received)
   fast_cache                               CachedCall  (returns a view of the stored array; repaired: stored read-only)
   copy.deepcopy / queue.append / clone     DeepCopy    (copies the object and every storage it reaches)
   np.random.* (global state)               GlobalRandom (advances a counter no generator reads)            *)
From PV Require Export Common.PySlice.

Record view := { v_sid : Z; v_off : Z; v_len : Z }.
Record store := { s_data : list Z; s_ro : bool }.
Definition heap := list store.

Definition wave_code (w i : Z) : Z := 1000000 * (w + 1) + i.
Definition car_code (c i : Z) : Z := - (1000000 * (c + 1) + i).
Definition memo_code (k i : Z) : Z := 500000000 + 1000 * k + i.

Definition znth {A} (l : list A) (i : Z) : option A :=
  if i <? 0 then None else nth_error l (Z.to_nat i).
Fixpoint zupd {A} (l : list A) (i : nat) (f : A -> A) : list A :=
  match l, i with
  | [], _ => []
  | x :: t, O => f x :: t
  | x :: t, S k => x :: zupd t k f
  end.

Definition alloc (h : heap) (d : list Z) (ro : bool) : heap * view :=
  (h ++ [{| s_data := d; s_ro := ro |}], {| v_sid := zlen h; v_off := 0; v_len := zlen d |}).

Definition read_view (h : heap) (v : view) : list Z :=
  match znth h (v_sid v) with
  | Some s => firstn (Z.to_nat (v_len v)) (skipn (Z.to_nat (v_off v)) (s_data s))
  | None => []
  end.

(* write x at index i of the view; None = rejected (read-only array or index out of range) *)
Definition write_view (h : heap) (v : view) (i x : Z) : option heap :=
  if (i <? 0) || (v_len v <=? i) then None
  else
    match znth h (v_sid v) with
    | Some s =>
      if s_ro s then None
      else Some (zupd h (Z.to_nat (v_sid v))
                      (fun s => {| s_data := zupd (s_data s) (Z.to_nat (v_off v + i)) (fun _ => x); s_ro := s_ro s |}))
    | None => None
    end.

(* v[a:b] = 0 for 0 <= a <= b <= len, writing through the view (GateFactory never meets a read-only array
   it cannot write: if it does the call raises, modelled as None) *)
Fixpoint zero_range (h : heap) (v : view) (a : Z) (n : nat) : option heap :=
  match n with
  | O => Some h
  | S k => match write_view h v a 0 with
           | Some h' => zero_range h' v (a + 1) k
           | None => None
           end
  end.

(* ---------- generator objects ---------- *)
Inductive obj :=
| OFixed (w : Z) (arr : view) (offset : Z)        (* FixedWaveform over the array `arr` (shared with whoever built it) *)
| OCar (c : Z) (offset : Z)                       (* tone / silence / seeded noise: private offset or RNG position *)
| OGate (start dur : Z) (offset : Z) (inner : obj).

Record repairs := { r_fixed_copy : bool; r_cache_ro : bool }.
Definition all_repaired := {| r_fixed_copy := true; r_cache_ro := true |}.
Definition none_repaired := {| r_fixed_copy := false; r_cache_ro := false |}.

Definition np_clip (a lo hi : Z) : Z := Z.min (Z.max a lo) hi.

(* next(n): returns the new object, the heap, and the view handed to the caller; None = raised *)
Fixpoint onext (R : repairs) (h : heap) (o : obj) (n : Z) : option (obj * heap * view) :=
  match o with
  | OFixed w arr off =>
    (* waveform[offset:offset+n], zero padded to n *)
    let lo := np_clip off 0 (v_len arr) in
    let hi := np_clip (off + n) 0 (v_len arr) in
    let got := hi - lo in
    let slice := {| v_sid := v_sid arr; v_off := v_off arr + lo; v_len := got |} in
    if (got <? n) || r_fixed_copy R then
      (* np.concatenate (padding) or the repaired .copy(): a fresh writable array *)
      let '(h', v) := alloc h (read_view h slice ++ repeat 0 (Z.to_nat (n - got))) false in
      Some (OFixed w arr (off + n), h', v)
    else Some (OFixed w arr (off + n), h, slice)
  | OCar c off =>
    let '(h', v) := alloc h (zrange (car_code c) off n) false in
    Some (OCar c (off + n), h', v)
  | OGate start dur off inner =>
    match onext R h inner n with
    | None => None
    | Some (inner', h1, v) =>
      let lb := start - off in
      let ub := lb + dur in
      let h2 := if lb >=? 0 then zero_range h1 v 0 (Z.to_nat (np_clip lb 0 (v_len v))) else Some h1 in
      match h2 with
      | None => None
      | Some h2 =>
        let a := np_clip (Z.max ub 0) 0 (v_len v) in
        match zero_range h2 v a (Z.to_nat (v_len v - a)) with
        | None => None
        | Some h3 => Some (OGate start dur (off + n) inner', h3, v)
        end
      end
    end
  end.

Fixpoint oreset (o : obj) : obj :=
  match o with
  | OFixed w arr _ => OFixed w arr 0
  | OCar c _ => OCar c 0
  | OGate s d _ i => OGate s d 0 (oreset i)
  end.

(* copy.deepcopy: the object and every array it holds *)
Fixpoint odeepcopy (h : heap) (o : obj) : heap * obj :=
  match o with
  | OFixed w arr off =>
    let '(h', v) := alloc h (read_view h arr) false in (h', OFixed w v off)
  | OCar c off => (h, OCar c off)
  | OGate s d off i => let '(h', i') := odeepcopy h i in (h', OGate s d off i')
  end.

(* ---------- programs ---------- *)
Inductive op :=
| MkFixed (w n : Z)            (* a FixedWaveform over a fresh array of n samples (the caller keeps no reference to it) *)
| MkCar (c : Z)
| MkGate (start dur : Z) (oid : Z)   (* wraps object oid (which must not be used directly afterwards) *)
| Next (oid n : Z)             (* result becomes the caller's next view *)
| Reset (oid : Z)
| DeepCopy (oid : Z)           (* new object *)
| Write (vid i x : Z)          (* caller writes through a view it holds *)
| ReadView (vid : Z)
| CachedCall (key n : Z)       (* memoised pure function of `key` returning n values; result is a view *)
| GlobalRandom.                (* np.random.seed / uniform: touches only the global state *)

Record world := {
  w_heap : heap;
  w_objs : list (option obj);       (* None = moved into a gate *)
  w_views : list view;              (* every array the caller holds, in order of acquisition *)
  w_memo : list (Z * view);
  w_global : Z
}.
Definition w0 : world := {| w_heap := []; w_objs := []; w_views := []; w_memo := []; w_global := 0 |}.

Inductive obs := OVals (l : list Z) | ORejected | ONothing | ORaised.

Definition set_obj (l : list (option obj)) (i : Z) (o : option obj) : list (option obj) :=
  if i <? 0 then l else zupd l (Z.to_nat i) (fun _ => o).
Definition get_obj (w : world) (oid : Z) : option obj :=
  match znth (w_objs w) oid with Some (Some o) => Some o | _ => None end.

Fixpoint assoc (k : Z) (l : list (Z * view)) : option view :=
  match l with [] => None | (k', v) :: t => if k =? k' then Some v else assoc k t end.

Definition step (R : repairs) (w : world) (o : op) : world * obs :=
  match o with
  | MkFixed wid n =>
    let '(h, v) := alloc (w_heap w) (zrange (wave_code wid) 0 n) false in
    ({| w_heap := h; w_objs := w_objs w ++ [Some (OFixed wid v 0)]; w_views := w_views w;
        w_memo := w_memo w; w_global := w_global w |}, ONothing)
  | MkCar c =>
    ({| w_heap := w_heap w; w_objs := w_objs w ++ [Some (OCar c 0)]; w_views := w_views w;
        w_memo := w_memo w; w_global := w_global w |}, ONothing)
  | MkGate s d oid =>
    match get_obj w oid with
    | Some i =>
      ({| w_heap := w_heap w; w_objs := set_obj (w_objs w) oid None ++ [Some (OGate s d 0 (oreset i))];   (* the constructor calls reset() *)
          w_views := w_views w; w_memo := w_memo w; w_global := w_global w |}, ONothing)
    | None => (w, ORaised)
    end
  | Next oid n =>
    match get_obj w oid with
    | Some ob =>
      match onext R (w_heap w) ob n with
      | Some (ob', h, v) =>
        ({| w_heap := h; w_objs := set_obj (w_objs w) oid (Some ob'); w_views := w_views w ++ [v];
            w_memo := w_memo w; w_global := w_global w |}, OVals (read_view h v))
      | None => (w, ORaised)
      end
    | None => (w, ORaised)
    end
  | Reset oid =>
    match get_obj w oid with
    | Some ob => ({| w_heap := w_heap w; w_objs := set_obj (w_objs w) oid (Some (oreset ob));
                     w_views := w_views w; w_memo := w_memo w; w_global := w_global w |}, ONothing)
    | None => (w, ORaised)
    end
  | DeepCopy oid =>
    match get_obj w oid with
    | Some ob =>
      let '(h, ob') := odeepcopy (w_heap w) ob in
      ({| w_heap := h; w_objs := w_objs w ++ [Some ob']; w_views := w_views w;
          w_memo := w_memo w; w_global := w_global w |}, ONothing)
    | None => (w, ORaised)
    end
  | Write vid i x =>
    match znth (w_views w) vid with
    | Some v =>
      match write_view (w_heap w) v i x with
      | Some h => ({| w_heap := h; w_objs := w_objs w; w_views := w_views w; w_memo := w_memo w;
                      w_global := w_global w |}, ONothing)
      | None => (w, ORejected)
      end
    | None => (w, ORaised)
    end
  | ReadView vid =>
    match znth (w_views w) vid with
    | Some v => (w, OVals (read_view (w_heap w) v))
    | None => (w, ORaised)
    end
  | CachedCall key n =>
    match assoc key (w_memo w) with
    | Some v => ({| w_heap := w_heap w; w_objs := w_objs w; w_views := w_views w ++ [v];
                    w_memo := w_memo w; w_global := w_global w |}, OVals (read_view (w_heap w) v))
    | None =>
      let '(h, v) := alloc (w_heap w) (zrange (memo_code key) 0 n) (r_cache_ro R) in
      ({| w_heap := h; w_objs := w_objs w; w_views := w_views w ++ [v];
          w_memo := (key, v) :: w_memo w; w_global := w_global w |}, OVals (read_view h v))
    end
  | GlobalRandom =>
    ({| w_heap := w_heap w; w_objs := w_objs w; w_views := w_views w; w_memo := w_memo w;
        w_global := w_global w + 1 |}, ONothing)
  end.

Fixpoint run (R : repairs) (w : world) (p : list op) : list obs :=
  match p with
  | [] => []
  | o :: t => let '(w', r) := step R w o in r :: run R w' t
  end.

(* flattened for printing: per op  [code; n; values...]  code 1 values, 2 rejected, 3 nothing, 4 raised *)
Definition enc_obs (o : obs) : list Z :=
  match o with
  | OVals l => 1 :: zlen l :: l
  | ORejected => [2; 0]
  | ONothing => [3; 0]
  | ORaised => [4; 0]
  end.
Definition run_prog (p : list op) : list Z := flat_map enc_obs (run all_repaired w0 p).
