(* C04: the invariant of pause/resume histories under the repaired code (all_rep) and its preservation
   by every step of run_hist. *)
From Coq Require Import ZArith List Bool Lia ZifyBool.
From PV Require Import Queue.Model Queue.Spec Queue.LemmasC04.
Import ListNotations.
Open Scope Z_scope.

(* per-policy part: what the ordering / completion flag know about the remaining trials *)
Definition pol_inv (p : policy) (q : qstate) : Prop :=
  match p with
  | PFifo | PRandom =>
    NoDup (q_ordering q) /\
    (forall k, In k (q_ordering q) <-> 1 <= trials_of (q_data q) k) /\
    (forall k, 0 <= trials_of (q_data q) k)
  | PGrouped _ => forall k, 0 < trials_of (q_data q) k -> In k (q_ordering q)
  | PInter keep =>
    (q_complete q = true \/ q_ordering q = [] -> forall k, trials_of (q_data q) k <= 0) /\
    (keep = false -> forall k, 0 <= trials_of (q_data q) k)
  | PBlockedRandom => q_complete q = true \/ q_ordering q = [] -> forall k, trials_of (q_data q) k <= 0
  end.

Record inv (p : policy) (es : list entry) (q : qstate) (ev : list event) : Prop := {
  inv_pol : q_pol q = p;
  inv_len : zlen (q_data q) = zlen es;
  inv_log : Forall (fun i => 0 <= i_key i < zlen es /\ i_dec i = true) (q_generated q);
  inv_cnt : forall kt, zlen (filter (eqb_pairZ kt) (live_of q)) =
                       zlen (filter (eqb_pairZ kt) (added_of ev)) - zlen (filter (eqb_pairZ kt) (removed_of ev));
  inv_net : forall k, net_presented k ev = countZ k (map fst (live_of q));
  inv_req : forall k e, znth es k = Some e ->
                        trials_of (q_data q) k + countZ k (map fst (live_of q)) = e_requested e;
  inv_empty : q_empty q = true -> forall k, trials_of (q_data q) k <= 0;
  inv_policy : pol_inv p q
}.

Lemma live_keys q : map fst (live_of q) = map i_key (q_generated q).
Proof. unfold live_of. rewrite map_map. reflexivity. Qed.

(* ---------- changes of fields the invariant does not look at ---------- *)
Lemma inv_frame' p es q q' ev :
  q_pol q' = q_pol q -> q_data q' = q_data q -> q_generated q' = q_generated q ->
  q_ordering q' = q_ordering q -> q_complete q' = q_complete q ->
  (q_empty q' = true -> q_empty q = true \/ forall k, trials_of (q_data q) k <= 0) ->
  inv p es q ev -> inv p es q' ev.
Proof.
  intros Hp Hd Hg Ho Hc He [I1 I2 I3 I4 I5 I6 I7 I8].
  constructor; unfold live_of, pol_inv in *; rewrite ?Hp, ?Hd, ?Hg, ?Ho, ?Hc; auto.
  intros E. destruct (He E) as [E'|E']; auto.
Qed.

Lemma inv_frame p es q q' ev :
  q_pol q' = q_pol q -> q_data q' = q_data q -> q_generated q' = q_generated q ->
  q_ordering q' = q_ordering q -> q_complete q' = q_complete q -> q_empty q' = q_empty q ->
  inv p es q ev -> inv p es q' ev.
Proof.
  intros Hp Hd Hg Ho Hc He. apply inv_frame'; auto. rewrite He. auto.
Qed.

Lemma inv_set_src p es q ev s dl : inv p es q ev -> inv p es (set_src q s dl) ev.
Proof. apply inv_frame; reflexivity. Qed.

Lemma inv_add_samples p es q ev m : inv p es q ev -> inv p es (add_samples q m false) ev.
Proof. apply inv_frame; try reflexivity. cbn. apply orb_false_r. Qed.

Lemma inv_resume p es q ev t : inv p es q ev -> inv p es (resume q t) ev.
Proof. apply inv_frame; reflexivity. Qed.

Lemma inv_pause_none p es R q ev : inv p es q ev -> inv p es (fst (fst (pause R q None))) ev.
Proof. apply inv_frame; reflexivity. Qed.

Lemma inv_ev_empty p es q ev : inv p es q ev -> inv p es q (ev ++ [EEmpty]).
Proof.
  intros [I1 I2 I3 I4 I5 I6 I7 I8]. constructor; auto.
  - intros kt. rewrite added_of_app, removed_of_app. cbn [added_of removed_of flat_map].
    rewrite !app_nil_r. apply I4.
  - intros k. rewrite <- I5. unfold net_presented. rewrite added_of_app, removed_of_app.
    cbn [added_of removed_of flat_map]. rewrite !app_nil_r. reflexivity.
Qed.

(* ---------- initial state ---------- *)
Lemma wf_entry_facts e : wf_entry e = true -> 1 <= e_trials e /\ e_requested e = e_trials e.
Proof. unfold wf_entry. intros H. lia. Qed.

Lemma inv_init p es ch pm : wf_queue p es = true -> inv p es (qinit p es ch pm) [].
Proof.
  unfold wf_queue. intros W.
  assert (W1 : 1 <= zlen es) by lia.
  assert (W2 : forallb wf_entry es = true) by lia.
  rewrite forallb_forall in W2.
  assert (T : forall k, (0 <= k < zlen es -> 1 <= trials_of es k) /\ (~ (0 <= k < zlen es) -> trials_of es k = 0)).
  { intros k. split; intros Hk.
    - apply znth_valid in Hk. destruct Hk as [e He]. unfold trials_of. rewrite He.
      apply znth_In in He. apply W2, wf_entry_facts in He. lia.
    - apply trials_of_invalid. exact Hk. }
  constructor; cbn [qinit q_pol q_data q_generated q_empty live_of map]; auto.
  - intros k e He. unfold trials_of. rewrite He. cbn [map]. rewrite countZ_nil.
    apply znth_In in He. apply W2, wf_entry_facts in He. lia.
  - discriminate.
  - assert (O : forall k, In k (zrange (fun i => i) 0 (zlen es)) <-> 1 <= trials_of es k).
    { intros k. rewrite In_zrange_id by lia. destruct (T k) as [T1 T2]. split; [auto|].
      intros H. destruct (Z_le_dec 0 k); [destruct (Z_lt_dec k (zlen es)); [lia|]|]; rewrite T2 in H; lia. }
    assert (N : forall k, 0 <= trials_of es k).
    { intros k. destruct (T k) as [T1 T2].
      destruct (Z_le_dec 0 k); [destruct (Z_lt_dec k (zlen es)); [specialize (T1 (conj l l0)); lia|]|]; rewrite T2; lia. }
    unfold pol_inv. cbn [qinit q_ordering q_data q_complete].
    assert (E0 : zrange (fun i => i) 0 (zlen es) = [] -> forall k, trials_of es k <= 0).
    { intros E k. assert (Hin : In 0 (zrange (fun i => i) 0 (zlen es))) by (apply In_zrange_id; lia).
      rewrite E in Hin. destruct Hin. }
    destruct p.
    + split; [apply NoDup_zr_id|]. split; assumption.
    + split; [intros [H|H]; [discriminate|apply E0; exact H]|]. intros _. exact N.
    + split; [apply NoDup_zr_id|]. split; assumption.
    + intros [H|H]; [discriminate|apply E0; exact H].
    + intros k Hk. apply O. lia.
Qed.

(* ---------- one trial set-up ---------- *)
Lemma trial_trials q q' ev key e : trial_step q q' ev key e ->
  0 <= key < zlen (q_data q) /\
  (forall k, trials_of (upd_entry (q_data q) key (add_trials (-1))) k =
             trials_of (q_data q) k - (if k =? key then 1 else 0)) /\
  (forall k, trials_of (q_data q') k = trials_of (q_data q) k - (if k =? key then 1 else 0)).
Proof.
  intros TS. pose proof (ts_e _ _ _ _ _ TS) as E. rewrite znth_upd, Z.eqb_refl in E.
  destruct (znth (q_data q) key) as [e0|] eqn:E0; [|discriminate].
  assert (V : 0 <= key < zlen (q_data q)) by (eapply znth_Some_valid; eauto).
  assert (T1 : forall k, trials_of (upd_entry (q_data q) key (add_trials (-1))) k =
                         trials_of (q_data q) k - (if k =? key then 1 else 0)).
  { intros k. rewrite trials_upd_add. unfold trials_of.
    destruct (Z.eqb_spec k key).
    - subst. rewrite E0. lia.
    - destruct (znth (q_data q) k); lia. }
  split; [exact V|]. split; [exact T1|].
  intros k. rewrite (ts_data _ _ _ _ _ TS), trials_upd_adv. apply T1.
Qed.

Lemma pol_inv_trial q q' ev key e : trial_step q q' ev key e -> pol_inv (q_pol q) q -> pol_inv (q_pol q) q'.
Proof.
  intros TS PI. destruct (trial_trials _ _ _ _ _ TS) as (V & T1 & T).
  pose proof (ts_mem _ _ _ _ _ TS) as M. apply memZ_In in M.
  pose proof (ts_ord _ _ _ _ _ TS) as O. pose proof (ts_compl _ _ _ _ _ TS) as C.
  pose proof (ts_inter _ _ _ _ _ TS) as TI.
  unfold pol_inv, dec_ordering, dec_complete in *.
  assert (FR : NoDup (q_ordering q) /\ (forall k, In k (q_ordering q) <-> 1 <= trials_of (q_data q) k) /\
               (forall k, 0 <= trials_of (q_data q) k) ->
               q_ordering q' = (if trials_of (upd_entry (q_data q) key (add_trials (-1))) key <=? 0
                                then remove1 key (q_ordering q) else q_ordering q) ->
               NoDup (q_ordering q') /\ (forall k, In k (q_ordering q') <-> 1 <= trials_of (q_data q') k) /\
               (forall k, 0 <= trials_of (q_data q') k)).
  { clear PI O C TI. intros (ND & IO & NN) O. rewrite O.
    pose proof (proj1 (IO key) M) as K1.
    pose proof (T1 key) as T1k. rewrite Z.eqb_refl in T1k.
    destruct (trials_of (upd_entry (q_data q) key (add_trials (-1))) key <=? 0) eqn:LE.
    - split; [apply NoDup_remove1; exact ND|]. split.
      + intros k. rewrite T. split.
        * intros H. pose proof (In_remove1 _ _ _ H) as H1. apply IO in H1.
          destruct (Z.eqb_spec k key); [|lia]. subst. exfalso. eapply NoDup_remove1_notin; eauto.
        * intros H. destruct (Z.eqb_spec k key); [subst; lia|].
          apply In_remove1_neq; [assumption|]. apply IO. lia.
      + intros k. rewrite T. specialize (NN k). destruct (Z.eqb_spec k key); [subst|]; lia.
    - split; [exact ND|]. split.
      + intros k. rewrite T, IO. destruct (Z.eqb_spec k key); [subst|]; lia.
      + intros k. rewrite T. specialize (NN k). destruct (Z.eqb_spec k key); [subst|]; lia. }
  assert (CR : (q_complete q = true \/ q_ordering q = [] -> forall k, trials_of (q_data q) k <= 0) ->
               q_complete q' = q_complete q || all_done (upd_entry (q_data q) key (add_trials (-1))) ->
               q_ordering q' = q_ordering q ->
               q_complete q' = true \/ q_ordering q' = [] -> forall k, trials_of (q_data q') k <= 0).
  { clear PI O C TI. intros Old C O [C'|C'] k.
    - rewrite C in C'. apply orb_true_iff in C'. destruct C' as [C'|C'].
      + rewrite T. specialize (Old (or_introl C') k). destruct (k =? key); lia.
      + rewrite all_done_iff in C'. specialize (C' k). rewrite T1 in C'. rewrite T. exact C'.
    - rewrite O in C'. rewrite C' in M. destruct M. }
  destruct (q_pol q) eqn:P.
  - apply FR; assumption.
  - destruct PI as [PI1 PI2]. split; [apply CR; assumption|].
    intros -> k. specialize (PI2 eq_refl k). specialize (TI eq_refl). rewrite T.
    destruct (Z.eqb_spec k key); [subst|]; lia.
  - apply FR; assumption.
  - apply CR; assumption.
  - intros k Hk. rewrite T in Hk.
    assert (Hk0 : 0 < trials_of (q_data q) k) by (destruct (k =? key); lia).
    apply PI in Hk0. rewrite O.
    destruct (forallb _ _) eqn:F; [|exact Hk0].
    apply In_fold_remove1; [|exact Hk0].
    intros Hin. rewrite forallb_forall in F. apply F in Hin. rewrite T1 in Hin. lia.
Qed.

Lemma inv_trial p es q q' ev0 ev key e :
  trial_step q q' ev key e -> inv p es q ev0 -> inv p es q' (ev0 ++ [ev]).
Proof.
  intros TS [I1 I2 I3 I4 I5 I6 I7 I8].
  destruct (trial_trials _ _ _ _ _ TS) as (V & T1 & T).
  assert (L : live_of q' = live_of q ++ [(key, q_samples q)]).
  { unfold live_of. rewrite (ts_gen _ _ _ _ _ TS), map_app. reflexivity. }
  pose proof (ts_ev _ _ _ _ _ TS) as EV. subst ev.
  constructor.
  - rewrite (ts_pol _ _ _ _ _ TS). exact I1.
  - rewrite (ts_data _ _ _ _ _ TS), !zlen_upd_entry. exact I2.
  - rewrite (ts_gen _ _ _ _ _ TS). apply Forall_app. split; [exact I3|].
    constructor; [|constructor]. cbn. split; [lia|reflexivity].
  - intros kt. rewrite L, added_of_app, removed_of_app. cbn [added_of removed_of flat_map].
    rewrite !app_nil_r, !zfilt_app, I4. lia.
  - intros k. unfold net_presented in *. rewrite L, added_of_app, removed_of_app.
    cbn [added_of removed_of flat_map]. rewrite !app_nil_r, !map_app, !countZ_app, <- I5. cbn [map fst]. lia.
  - intros k e0 He0. rewrite T, L, map_app, countZ_app. cbn [map fst].
    rewrite countZ_cons, countZ_nil. specialize (I6 k e0 He0). destruct (k =? key); lia.
  - rewrite (ts_empty _ _ _ _ _ TS). intros E k. rewrite T. specialize (I7 E k). destruct (k =? key); lia.
  - subst p. eapply pol_inv_trial; eauto.
Qed.

(* ---------- the queue reports empty ---------- *)
Lemma inv_nempty p es R q ev : inv p es q ev -> next_key R q = NEmpty ->
  forall k, trials_of (q_data q) k <= 0.
Proof.
  intros [I1 I2 I3 I4 I5 I6 I7 I8] NK k. apply next_key_empty in NK.
  unfold pol_inv in I8. rewrite I1 in NK. destruct p.
  - destruct I8 as (_ & IO & _). specialize (IO k). rewrite NK in IO. cbn in IO.
    destruct (Z_le_dec 1 (trials_of (q_data q) k)); [|lia]. exfalso. apply IO. assumption.
  - destruct I8 as [I8 _]. auto.
  - destruct I8 as (_ & IO & _). specialize (IO k). rewrite NK in IO. cbn in IO.
    destruct (Z_le_dec 1 (trials_of (q_data q) k)); [|lia]. exfalso. apply IO. assumption.
  - auto.
  - destruct (Z_lt_dec 0 (trials_of (q_data q) k)); [|lia].
    apply I8 in l. rewrite NK in l. destruct l.
Qed.

Lemma inv_report_empty p es R q ev n : inv p es q ev -> next_key R q = NEmpty ->
  inv p es (add_samples q n true) (ev ++ [EEmpty]).
Proof.
  intros I NK. apply inv_ev_empty. eapply inv_frame'; try exact I; try reflexivity.
  intros _. right. eapply inv_nempty; eauto.
Qed.

(* ---------- pop_step / pop_loop / pop_buffer ---------- *)
Lemma pop_step_inv p es q n ev0 : inv p es q ev0 ->
  match pop_step all_rep q n with
  | PBok q1 out ev => forall m, inv p es (add_samples q1 m false) (ev0 ++ ev)
  | PBempty => inv p es (add_samples q n true) (ev0 ++ [EEmpty])
  | PBerror => True
  end.
Proof.
  intros I. unfold pop_step.
  destruct (q_paused q).
  { intros m. rewrite app_nil_r. apply inv_add_samples. exact I. }
  destruct (q_source q) as [[[key pos] len]|].
  { destruct (kind_of q key).
    - destruct (n >? len - pos); intros m; rewrite app_nil_r; apply inv_add_samples, inv_set_src; exact I.
    - intros m; rewrite app_nil_r; apply inv_add_samples, inv_set_src; exact I. }
  destruct (q_delay q >? 0).
  { intros m; rewrite app_nil_r; apply inv_add_samples, inv_set_src; exact I. }
  destruct (next_trial all_rep q) as [q' e| |] eqn:NT.
  - intros m. apply inv_add_samples. apply next_trial_ok in NT. destruct NT as (key & en & TS).
    eapply inv_trial; eauto.
  - apply next_trial_empty in NT. eapply inv_report_empty; eauto.
  - constructor.
Qed.

Lemma pop_loop_inv p es : forall fuel q n q' out ev ev0,
  inv p es q ev0 -> pop_loop fuel all_rep q n = Some (q', out, ev) -> inv p es q' (ev0 ++ ev).
Proof.
  induction fuel as [|f IH]; intros q n q' out ev ev0 I H; cbn [pop_loop] in H.
  - destruct (n <=? 0); [|discriminate]. inversion H; subst. rewrite app_nil_r. exact I.
  - destruct (n <=? 0). { inversion H; subst. rewrite app_nil_r. exact I. }
    pose proof (pop_step_inv p es q n ev0 I) as PS.
    destruct (pop_step all_rep q n) as [q1 o1 e1| |].
    + destruct (pop_loop f all_rep (add_samples q1 (zlen o1) false) (n - zlen o1)) as [[[q2 o2] e2]|] eqn:R;
        [|discriminate].
      inversion H; subst. rewrite app_assoc. eapply IH; [|exact R]. apply PS.
    + inversion H; subst. exact PS.
    + discriminate.
Qed.

(* ---------- pause ---------- *)
Lemma inv_pause p es q ev t : inv p es q ev ->
  inv p es (pause_state q t)
      (ev ++ map (fun i => ERemoved (i_key i) (i_t0 i)) (filter (fun i => ends_after i t) (rev (q_generated q)))).
Proof.
  intros [I1 I2 I3 I4 I5 I6 I7 I8].
  set (P := fun i => ends_after i t).
  set (g := q_generated q) in *.
  set (l := pause_requeue q t).
  assert (Lg : l = map i_key (filter P (rev g))).
  { unfold l, pause_requeue. fold g. fold P. f_equal. apply filter_all.
    apply Forall_filter. apply Forall_rev. eapply Forall_impl; [|exact I3]. cbn. tauto. }
  assert (Lv : forall k, In k l -> 0 <= k < zlen es).
  { intros k Hk. rewrite Lg in Hk. apply in_map_iff in Hk. destruct Hk as (i & <- & Hi).
    apply filter_In in Hi. destruct Hi as [Hi _]. apply in_rev in Hi.
    rewrite Forall_forall in I3. apply I3 in Hi. tauto. }
  assert (Lc : forall k, countZ k l = countZ k (map i_key (filter P g))).
  { intros k. rewrite Lg. unfold countZ. apply zfilt_map_filter_rev. }
  set (d2 := fold_left (fun d k => upd_entry d k (add_trials 1)) l (q_data q)).
  assert (T : forall k, trials_of d2 k = trials_of (q_data q) k + countZ k l).
  { intros k. unfold d2. rewrite trials_fold_requeue. unfold trials_of.
    destruct (znth (q_data q) k) eqn:E; [reflexivity|].
    apply znth_None_iff in E. rewrite I2 in E.
    pose proof (countZ_nonneg k l). destruct (Z_lt_dec 0 (countZ k l)); [|lia].
    apply countZ_pos_In, Lv in l0. contradiction. }
  assert (Dq : q_data (pause_state q t) = d2) by reflexivity.
  assert (Lq : live_of (pause_state q t) = map (fun i => (i_key i, i_t0 i)) (filter (fun i => negb (P i)) g))
    by reflexivity.
  assert (Sp : forall k, countZ k (map i_key g) =
                         countZ k (map i_key (filter P g)) + countZ k (map i_key (filter (fun i => negb (P i)) g))).
  { intros k. unfold countZ. apply zfilt_split. }
  rewrite live_keys in *. fold g in I5, I6.
  constructor.
  - exact I1.
  - rewrite Dq. unfold d2. rewrite zlen_fold_requeue. exact I2.
  - cbn. apply Forall_filter. exact I3.
  - intros kt. rewrite Lq, added_of_app, removed_of_app, added_of_map_removed, removed_of_map_removed.
    rewrite app_nil_r, zfilt_app, zfilt_map_filter_rev.
    specialize (I4 kt). unfold live_of in I4. fold g in I4.
    rewrite (zfilt_split (fun i => (i_key i, i_t0 i)) (eqb_pairZ kt) P g) in I4. fold P. clear - I4. lia.
  - intros k. unfold net_presented in *.
    rewrite added_of_app, removed_of_app, added_of_map_removed, removed_of_map_removed, app_nil_r.
    rewrite map_app, countZ_app, live_keys. cbn [pause_state set_pause q_generated].
    rewrite map_map. cbn [fst]. fold P. fold g.
    specialize (I5 k). specialize (Sp k).
    assert (R : countZ k (map i_key (filter P (rev g))) = countZ k (map i_key (filter P g))).
    { unfold countZ. apply zfilt_map_filter_rev. }
    change (fun x : info => i_key x) with i_key.
    change (fun i : info => negb (ends_after i t)) with (fun i => negb (P i)).
    clear - I5 Sp R. lia.
  - intros k e He. rewrite live_keys, Dq, T, Lc. cbn [pause_state set_pause q_generated]. fold P. fold g.
    change (fun i : info => negb (ends_after i t)) with (fun i => negb (P i)).
    specialize (I6 k e He). specialize (Sp k). clear - I6 Sp. lia.
  - cbn [pause_state set_pause q_empty q_data]. fold l. fold d2.
    destruct l eqn:El; [|discriminate]. intros E k. rewrite T, countZ_nil. specialize (I7 E k). lia.
  - unfold pol_inv in *. cbn [pause_state set_pause q_ordering q_data q_complete]. fold l. fold d2.
    assert (FR : NoDup (q_ordering q) /\ (forall k, In k (q_ordering q) <-> 1 <= trials_of (q_data q) k) /\
                 (forall k, 0 <= trials_of (q_data q) k) ->
                 NoDup (requeue_ord l (q_ordering q)) /\
                 (forall k, In k (requeue_ord l (q_ordering q)) <-> 1 <= trials_of d2 k) /\
                 (forall k, 0 <= trials_of d2 k)).
    { intros (ND & IO & NN). split; [apply NoDup_requeue_ord; exact ND|]. split.
      - intros k. rewrite In_requeue_ord, T, IO, <- countZ_pos_In.
        specialize (NN k). pose proof (countZ_nonneg k l). lia.
      - intros k. rewrite T. specialize (NN k). pose proof (countZ_nonneg k l). lia. }
    assert (OE : (q_complete q = true \/ q_ordering q = [] -> forall k, trials_of (q_data q) k <= 0) ->
                 all_done d2 = true \/ requeue_ord l (q_ordering q) = [] -> forall k, trials_of d2 k <= 0).
    { intros Old [C|C]; [apply all_done_iff; exact C|]. intros k. rewrite T.
      assert (Onil : q_ordering q = []).
      { destruct (q_ordering q) as [|x o'] eqn:EO; [reflexivity|]. exfalso.
        assert (Hx : In x (requeue_ord l (x :: o'))) by (apply In_requeue_ord; right; left; reflexivity).
        try rewrite EO in C. rewrite C in Hx. destruct Hx. }
      assert (Cz : countZ k l = 0).
      { pose proof (countZ_nonneg k l). destruct (Z_lt_dec 0 (countZ k l)) as [Hc|Hc]; [|lia]. exfalso.
        apply countZ_pos_In in Hc.
        assert (Hx : In k (requeue_ord l (q_ordering q))) by (apply In_requeue_ord; left; exact Hc).
        rewrite C in Hx. destruct Hx. }
      specialize (Old (or_intror Onil) k). lia. }
    rewrite I1. destruct p.
    + apply FR. exact I8.
    + destruct I8 as [I8a I8]. split; [apply OE; exact I8a|].
      intros K k. rewrite T. specialize (I8 K k). pose proof (countZ_nonneg k l). lia.
    + apply FR. exact I8.
    + apply OE. exact I8.
    + intros k Hk. rewrite T in Hk. apply In_requeue_ord.
      destruct (Z_lt_dec 0 (countZ k l)); [left; apply countZ_pos_In; assumption|].
      right. apply I8. lia.
Qed.

(* ---------- histories ---------- *)
Lemma run_hist_inv p es : forall ops q ev0 q' ev,
  inv p es q ev0 -> run_hist all_rep q ops = Some (q', ev) -> inv p es q' (ev0 ++ ev).
Proof.
  induction ops as [|op ops IH]; intros q ev0 q' ev I H; cbn [run_hist] in H.
  - inversion H; subst. rewrite app_nil_r. exact I.
  - destruct op as [n|tm|tm].
    + destruct (pop_buffer all_rep q n) as [[[q1 o1] e1]|] eqn:PB; [|discriminate].
      destruct (run_hist all_rep q1 ops) as [[q2 e2]|] eqn:RH; [|discriminate].
      inversion H; subst. rewrite app_assoc. eapply IH; [|exact RH].
      eapply pop_loop_inv; [exact I|exact PB].
    + destruct tm as [t|].
      * destruct (Z_le_dec t (q_samples q)) as [Ht|Ht].
        -- rewrite (pause_all_rep q t Ht) in H.
           destruct (run_hist all_rep (pause_state q t) ops) as [[q2 e2]|] eqn:RH; [|discriminate].
           inversion H; subst. rewrite app_assoc. eapply IH; [|exact RH]. apply inv_pause. exact I.
        -- exfalso. unfold pause in H. assert (E : t >? q_samples q = true) by lia. rewrite E in H. discriminate.
      * pose proof (inv_pause_none p es all_rep q ev0 I) as IP.
        destruct (pause all_rep q None) as [[q1 e1] err] eqn:PN.
        cbn [pause] in PN. inversion PN; subst q1 e1 err. cbn [fst] in IP.
        destruct (run_hist all_rep _ ops) as [[q2 e2]|] eqn:RH; [|discriminate].
        inversion H; subst. cbn [app]. eapply IH; [exact IP|exact RH].
    + destruct (run_hist all_rep (resume q tm) ops) as [[q2 e2]|] eqn:RH; [|discriminate].
      inversion H; subst. eapply IH; [|exact RH]. apply inv_resume. exact I.
Qed.

Lemma reachable_inv p es ch pm ops q ev :
  wf_queue p es = true -> run_hist all_rep (qinit p es ch pm) ops = Some (q, ev) -> inv p es q ev.
Proof.
  intros W H. change ev with ([] ++ ev). eapply run_hist_inv; [|exact H]. apply inv_init. exact W.
Qed.
