(* Vocabulary of the C04 theorems about the ADDITIONS of the coverage audit in Queue/Model.v
   (xop histories: pop_buffer(n, decrement=False), rejected pauses that do NOT end the history,
   declared durations different from the waveform length, get_closest_key).  No proofs here. *)
From PV Require Export Queue.Model Queue.Spec.

(* ---------- well-formed queues, without the restrictions of Spec.wf_entry ----------
   Only the trial counters are constrained: the waveform length, the DECLARED duration (mk_entry_dur:
   e_dur <> e_len, even negative), the kind, and the delays (scalar or finite list, any sign - a
   negative delay or an exhausted list makes the run None, like the exception it models) are arbitrary. *)
Definition wf_entry_x (e : entry) : bool := (1 <=? e_trials e) && (e_requested e =? e_trials e).
Definition wf_queue_x (es : list entry) : bool := forallb wf_entry_x es.

(* declared durations are not negative (needed only for the sortedness of the log) *)
Definition dur_nonneg (es : list entry) : bool := forallb (fun e => 0 <=? e_dur e) es.

(* ---------- histories over xop ----------
   Every notification carries the info dict of the trial, whose 'decrement' field tells whether the
   trial was set up by a decrementing request: a tagged event is (event, that field).  'added' events
   carry the flag of the request that set the trial up, 'removed' events the flag logged with the trial;
   the flag of 'empty' (which has no info dict) is irrelevant and set to true. *)
Definition tevent := (event * bool)%type.

Definition pop_x (R : qrep) (q : qstate) (n : Z) (dec : bool) :=
  if dec then pop_buffer R q n else pop_buffer_nd R q n.

(* the 'decrement' fields of the trials pause(t) announces as removed, in the order of the notifications *)
Definition pause_flags (q : qstate) (tm : option Z) : list bool :=
  match tm with
  | None => []
  | Some t => map i_dec (filter (fun i => ends_after i t) (rev (q_generated q)))
  end.

(* A REJECTED pause (time after the clock, err = true) does not end the history: whatever it notified
   is part of the stream and the history goes on from the state it left (as in run_qx).  Under the
   repaired code (all_rep, r_pause_atomic) that is: nothing notified, state untouched. *)
Fixpoint run_hist_x (R : qrep) (q : qstate) (ops : list xop) : option (qstate * list tevent) :=
  match ops with
  | [] => Some (q, [])
  | XPop n dec :: t =>
    match pop_x R q n dec with
    | None => None
    | Some (q1, _, e1) =>
      match run_hist_x R q1 t with
      | None => None
      | Some (q2, e2) => Some (q2, map (fun e => (e, dec)) e1 ++ e2)
      end
    end
  | XPause tm :: t =>
    let '(q1, e1, _) := pause R q tm in
    match run_hist_x R q1 t with
    | None => None
    | Some (q2, e2) => Some (q2, combine e1 (pause_flags q tm) ++ e2)
    end
  | XResume tm :: t => run_hist_x R (resume q tm) t
  | XClosest _ :: t => run_hist_x R q t
  end.

(* sanity conditions on a history: non-negative requests and times.  Pause times are NOT bounded by
   the clock.  (The conservation theorems do not even need these.) *)
Fixpoint wf_hist_x (ops : list xop) : bool :=
  match ops with
  | [] => true
  | XPop n _ :: t => (0 <=? n) && wf_hist_x t
  | XPause tm :: t => match tm with Some x => 0 <=? x | None => true end && wf_hist_x t
  | XResume tm :: t => match tm with Some x => 0 <=? x | None => true end && wf_hist_x t
  | XClosest _ :: t => wf_hist_x t
  end.

(* every repair in force except the one that makes a rejected pause atomic *)
Definition rep_nonatomic : qrep :=
  {| r_cancel_once := true; r_trim_log := true; r_complete_reset := true; r_grouped_mod := true;
     r_empty_reset := true; r_pause_atomic := false; r_empty_guard := true |}.

(* the history without its rejected pauses (judged against the running state) *)
Fixpoint drop_rejected (R : qrep) (q : qstate) (ops : list xop) : list xop :=
  match ops with
  | [] => []
  | XPop n dec :: t =>
    XPop n dec :: match pop_x R q n dec with Some (q1, _, _) => drop_rejected R q1 t | None => t end
  | XPause tm :: t =>
    let '(q1, _, err) := pause R q tm in
    if err then drop_rejected R q1 t else XPause tm :: drop_rejected R q1 t
  | XResume tm :: t => XResume tm :: drop_rejected R (resume q tm) t
  | XClosest x :: t => XClosest x :: drop_rejected R q t
  end.

(* number of pauses of a history that are rejected (time after the running clock) *)
Fixpoint rejected_pauses (R : qrep) (q : qstate) (ops : list xop) : Z :=
  match ops with
  | [] => 0
  | XPop n dec :: t => match pop_x R q n dec with Some (q1, _, _) => rejected_pauses R q1 t | None => 0 end
  | XPause tm :: t =>
    let '(q1, _, err) := pause R q tm in (if err then 1 else 0) + rejected_pauses R q1 t
  | XResume tm :: t => rejected_pauses R (resume q tm) t
  | XClosest _ :: t => rejected_pauses R q t
  end.

(* the sub-streams *)
Definition all_events (tev : list tevent) : list event := map fst tev.
Definition dec_events (tev : list tevent) : list event := map fst (filter (fun x => snd x) tev).
Definition nd_events (tev : list tevent) : list event := map fst (filter (fun x => negb (snd x)) tev).

(* logged trials by flag *)
Definition live_dec (q : qstate) : list Z := map i_key (filter i_dec (q_generated q)).
Definition live_nd (q : qstate) : list Z := map i_key (filter (fun i => negb (i_dec i)) (q_generated q)).

(* ---------- time only moves forward: every resume(t2) has t2 not before the running clock ---------- *)
Fixpoint fwd_hist_x (R : qrep) (q : qstate) (ops : list xop) : bool :=
  match ops with
  | [] => true
  | XPop n dec :: t =>
    (0 <=? n) && match pop_x R q n dec with Some (q1, _, _) => fwd_hist_x R q1 t | None => true end
  | XPause tm :: t => let '(q1, _, _) := pause R q tm in fwd_hist_x R q1 t
  | XResume tm :: t =>
    match tm with Some x => q_samples q <=? x | None => true end && fwd_hist_x R (resume q tm) t
  | XClosest _ :: t => fwd_hist_x R q t
  end.

Fixpoint sorted_t0 (l : list info) : bool :=
  match l with
  | a :: ((b :: _) as t) => (i_t0 a <=? i_t0 b) && sorted_t0 t
  | _ => true
  end.

(* ---------- executable form of the conservation statement (for the scratch tests / examples) ---------- *)
Definition conservation_x_test (p : policy) (es : list entry) (ch : list Z) (pm : list (list Z)) (ops : list xop) : bool :=
  let q0 := qinit p es ch pm in
  negb (wf_queue_x es) ||
  match run_hist_x all_rep q0 ops with
  | None => true
  | Some (q, tev) =>
    forallb (fun k => trials_of (q_data q) k + net_presented k (dec_events tev)
                      =? match znth es k with Some e => e_requested e | None => 0 end)
            (zrange (fun k => k) 0 (zlen es))
    && forallb (fun k => net_presented k (dec_events tev) =? countZ k (live_dec q)) (zrange (fun k => k) 0 (zlen es))
    && forallb (fun k => net_presented k (nd_events tev) =? countZ k (live_nd q)) (zrange (fun k => k) 0 (zlen es))
    && forallb (fun kt => zlen (filter (eqb_pairZ kt) (live_of q))
                          =? zlen (filter (eqb_pairZ kt) (added_of (all_events tev)))
                             - zlen (filter (eqb_pairZ kt) (removed_of (all_events tev))))
               (added_of (all_events tev))
    && (negb (q_empty q) ||
        forallb (fun k => let r := match znth es k with Some e => e_requested e | None => 0 end in
                          if exact_policy p then net_presented k (dec_events tev) =? r
                          else r <=? net_presented k (dec_events tev))
                (zrange (fun k => k) 0 (zlen es)))
  end.
