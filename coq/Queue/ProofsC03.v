(* C03: the lemmas closed by Props/C03.v. *)
From PV Require Import Queue.Model Queue.Spec.
From PV Require Export Queue.LemmasC03 Queue.ProofsC03Run Queue.ProofsC03Pol Queue.ProofsC03Inter
     Queue.ProofsC03Group.
From PV Require Import Stim.ProofsLib.
From Coq Require Import ZArith List Bool Lia ZifyBool.
Import ListNotations.
Open Scope Z_scope.

(* ---------- the state of a queue that has reported empty ---------- *)
Definition order_concl (p : policy) (es : list entry) (pm : list (list Z)) (keys : list Z) : Prop :=
  match p with
  | PFifo => keys = fifo_order es
  | PInter keep => keys = inter_order keep es /\
                   (if keep then stops_at_first_moment (requested_of es) keys = true
                    else counts_of (zlen es) keys = requested_of es)
  | PRandom => counts_of (zlen es) keys = requested_of es
  | PBlockedRandom => stops_at_first_moment (requested_of es) keys = true /\
                      is_prefix keys (blocks_order pm) = true
  | PGrouped gs => stops_at_first_moment (requested_of es) keys = true /\ groups_in_order gs keys = true
  end.

Lemma counts_of_eq es keys : (forall k, countZ k keys = reqk es k) ->
  counts_of (zlen es) keys = requested_of es.
Proof.
  intros H. unfold counts_of, requested_of. rewrite (map_as_zrange e_requested 0 es).
  apply zrange_ext. intros k Hk. rewrite Z.add_0_l. apply H.
Qed.

Lemma final_state p es ch pm ns q out ev :
  wf_queue p es = true -> pops all_rep (qinit p es ch pm) ns = Some (q, out, ev) -> q_empty q = true ->
  Base p es (keys_of ev) q /\ count_trials q = 0 /\ order_concl p es pm (keys_of ev).
Proof.
  intros Hwfq Hpops Hempty. destruct (wf_queue_facts _ _ Hwfq) as (Hn & Hwf & Hwp).
  pose proof (Base_init p es Hwf ch pm) as B0.
  destruct p as [|keep| | |gs]; unfold order_concl.
  - (* FIFO *)
    destruct (pops_inv PFifo es Hwf (CFifo es)
                (fun keys q s d H => H) (fun keys q n e H => H)
                (fun keys q q' k t B HC Hnt => CFifo_step PFifo es Hwf keys q q' k t eq_refl B HC Hnt)
                ns [] _ _ _ _ B0 (CFifo_init PFifo es Hwf ch pm eq_refl) Hpops) as [B HC].
    cbn [app] in *. split; [exact B|].
    destruct (b_empty _ _ _ _ _ _ _ _ _ _ _ _ B Hempty) as (_ & _ & Hcore).
    unfold is_empty_core in Hcore. rewrite (b_pol _ _ _ _ _ _ _ _ _ _ _ _ B) in Hcore.
    destruct (q_ordering q) eqn:Eo; [|discriminate].
    destruct HC as (HE & Hseq).
    destruct (CExact_done PFifo es Hwf _ _ B HE Eo) as (Hct & _). split; [exact Hct|].
    rewrite Eo in Hseq. unfold rest_of in Hseq. cbn in Hseq. now rewrite app_nil_r in Hseq.
  - (* interleaved *)
    destruct (pops_inv (PInter keep) es Hwf (CInter es keep)
                (fun keys q s d H => H) (fun keys q n e H => H)
                (CInter_step keep es Hwf Hn)
                ns [] _ _ _ _ B0 (CInter_init keep es Hwf Hn ch pm) Hpops) as [B HC].
    cbn [app] in *. split; [exact B|].
    destruct (b_empty _ _ _ _ _ _ _ _ _ _ _ _ B Hempty) as (_ & _ & Hcore).
    unfold is_empty_core in Hcore. rewrite (b_pol _ _ _ _ _ _ _ _ _ _ _ _ B) in Hcore.
    assert (Hcomp : q_complete q = true).
    { pose proof HC as HC'. unfold CInter, CInterR in HC'. destruct HC' as (Ho & _).
      rewrite Ho, zlen_zrange_nn in Hcore by lia. destruct (q_complete q); [reflexivity|]. cbn [orb] in Hcore. lia. }
    clear Hcore. rename Hcomp into Hcore.
    destruct (CInter_done keep es Hwf _ _ B HC Hcore) as (Hct & Hk & Hrest).
    split; [exact Hct|]. split; [exact Hk|]. destruct keep; [exact Hrest|]. now apply counts_of_eq.
  - (* random *)
    destruct (pops_inv PRandom es Hwf CExact
                (fun keys q s d H => H) (fun keys q n e H => H)
                (fun keys q q' k t B HC Hnt =>
                   proj1 (CExact_step PRandom es Hwf keys q q' k t B HC Hnt
                            (nt_random q q' k t (b_pol _ _ _ _ _ _ _ _ _ _ _ _ B) Hnt)))
                ns [] _ _ _ _ B0 (CExact_init PRandom es Hwf ch pm) Hpops) as [B HC].
    cbn [app] in *. split; [exact B|].
    destruct (b_empty _ _ _ _ _ _ _ _ _ _ _ _ B Hempty) as (_ & _ & Hcore).
    unfold is_empty_core in Hcore. rewrite (b_pol _ _ _ _ _ _ _ _ _ _ _ _ B) in Hcore.
    destruct (q_ordering q) eqn:Eo; [|discriminate].
    destruct (CExact_done PRandom es Hwf _ _ B HC Eo) as (Hct & Hcnt). split; [exact Hct|]. now apply counts_of_eq.
  - (* blocked random *)
    destruct (pops_inv PBlockedRandom es Hwf (CBlocked es pm)
                (fun keys q s d H => H) (fun keys q n e H => H)
                (CBlocked_step es pm)
                ns [] _ _ _ _ B0 (CBlocked_init es pm Hwf Hn ch) Hpops) as [B HC].
    cbn [app] in *. split; [exact B|].
    destruct (b_empty _ _ _ _ _ _ _ _ _ _ _ _ B Hempty) as (_ & _ & Hcore).
    unfold is_empty_core in Hcore. rewrite (b_pol _ _ _ _ _ _ _ _ _ _ _ _ B) in Hcore.
    assert (Hcomp : q_complete q = true).
    { pose proof HC as HC'. unfold CBlocked, CBlockedR in HC'. destruct HC' as (Ho & _).
      rewrite Ho, zlen_zrange_nn in Hcore by lia. destruct (q_complete q); [reflexivity|]. cbn [orb] in Hcore. lia. }
    apply (CBlocked_done es pm _ _ B HC Hcomp).
  - (* grouped *)
    assert (Hgs : 1 <= gs) by (cbn in Hwp; lia).
    destruct (pops_inv (PGrouped gs) es Hwf (CGrouped es gs)
                (fun keys q s d H => H) (fun keys q n e H => H)
                (CGrouped_step gs es Hwf Hn Hgs)
                ns [] _ _ _ _ B0 (CGrouped_init gs es Hwf Hn Hgs ch pm) Hpops) as [B HC].
    cbn [app] in *. split; [exact B|].
    destruct (b_empty _ _ _ _ _ _ _ _ _ _ _ _ B Hempty) as (_ & _ & Hcore).
    unfold is_empty_core in Hcore. rewrite (b_pol _ _ _ _ _ _ _ _ _ _ _ _ B) in Hcore.
    destruct (q_ordering q) eqn:Eo; [|discriminate].
    apply (CGrouped_done gs es Hwf _ _ B HC Eo).
Qed.

Lemma count_requested_static p es keys q : Base p es keys q -> count_requested q = sumZ (requested_of es).
Proof.
  intros B. unfold count_requested, requested_of. f_equal.
  apply (Forall2_map_eq same_static); [|apply (b_static _ _ _ _ _ _ _ _ _ _ _ _ B)].
  intros x y (H & _). exact H.
Qed.

Lemma policy_order : forall p es ch pm ns q out ev,
  wf_queue p es = true -> forallb progress_entry es = true -> forallb (fun n => 0 <=? n) ns = true ->
  pops all_rep (qinit p es ch pm) ns = Some (q, out, ev) -> q_empty q = true ->
  let keys := keys_of ev in
  let req := requested_of es in
  count_trials q = 0 /\ count_requested q = sumZ req /\
  match p with
  | PFifo => keys = fifo_order es
  | PInter keep => keys = inter_order keep es /\
                   (if keep then stops_at_first_moment req keys = true else counts_of (zlen es) keys = req)
  | PRandom => counts_of (zlen es) keys = req
  | PBlockedRandom => stops_at_first_moment req keys = true /\ is_prefix keys (blocks_order pm) = true
  | PGrouped gs => stops_at_first_moment req keys = true /\ groups_in_order gs keys = true
  end.
Proof.
  intros p es ch pm ns q out ev Hwf _ _ Hpops Hempty keys req.
  destruct (final_state _ _ _ _ _ _ _ _ Hwf Hpops Hempty) as (B & Hct & Hconcl).
  split; [exact Hct|]. split; [apply (count_requested_static _ _ _ _ B)|]. exact Hconcl.
Qed.

Example policy_order_ex :
  let es := [mk_entry 2 1 KArray [1] true; mk_entry 1 2 KGen [0] true] in
  wf_queue (PInter true) es = true /\ forallb progress_entry es = true /\
  exists q out ev, pops all_rep (qinit (PInter true) es [] []) [3; 40] = Some (q, out, ev) /\ q_empty q = true.
Proof. cbv zeta. split; [reflexivity|]. split; [reflexivity|]. vm_compute. eexists _, _, _. split; reflexivity. Qed.

(* ---------- after empty ---------- *)
Lemma after_empty : forall p es ch pm ns q out ev n,
  wf_queue p es = true -> forallb (fun n => 0 <=? n) ns = true -> 1 <= n ->
  pops all_rep (qinit p es ch pm) ns = Some (q, out, ev) -> q_empty q = true ->
  exists q', pop_buffer all_rep q n = Some (q', repeat OZero (Z.to_nat n), [EEmpty]) /\
    q_empty q' = true /\ count_trials q' = 0 /\ count_requested q' = count_requested q.
Proof.
  intros p es ch pm ns q out ev n Hwf _ Hn Hpops Hempty.
  destruct (final_state _ _ _ _ _ _ _ _ Hwf Hpops Hempty) as (B & Hct & _).
  destruct (b_empty _ _ _ _ _ _ _ _ _ _ _ _ B Hempty) as (Hsrc & Hdl & Hcore).
  pose proof (b_paused _ _ _ _ _ _ _ _ _ _ _ _ B) as Hp.
  apply (next_trial_empty all_rep eq_refl) in Hcore.
  exists (add_samples q n true). split; [|split; [|split]].
  - unfold pop_buffer.
    assert (Hf : exists f, pop_fuel q n = S f).
    { unfold pop_fuel. pose proof (zlen_nonneg (q_data q)). rewrite Hct.
      exists (Z.to_nat (4 * n + 4 * (0 + 1) * (zlen (q_data q) + 1) + 8) - 1)%nat. lia. }
    destruct Hf as [f ->]. cbn [pop_loop]. destruct (n <=? 0) eqn:E; [lia|].
    unfold pop_step. rewrite Hp, Hsrc. destruct (q_delay q >? 0) eqn:Ed; [lia|]. rewrite Hcore. reflexivity.
  - cbn. apply orb_true_r.
  - exact Hct.
  - reflexivity.
Qed.

(* ---------- the queue does reach empty ---------- *)
Lemma reaches_empty : forall p es ch pm,
  wf_queue p es = true -> forallb progress_entry es = true ->
  match p with PRandom | PBlockedRandom => True | _ =>
    exists N, forall ns q out ev, forallb (fun n => 0 <=? n) ns = true -> N <= sumZ ns ->
      pops all_rep (qinit p es ch pm) ns = Some (q, out, ev) -> q_empty q = true
  end.
Proof.
  intros p es ch pm Hwfq _. destruct (wf_queue_facts _ _ Hwfq) as (Hn & Hwf & Hwp).
  pose proof (Base_init p es Hwf ch pm) as B0. pose proof (Mtrial_nonneg es Hwf) as HM.
  assert (Hfin : forall Bd keys q ns out ev, Base p es keys q -> zlen keys <= Bd ->
            pops all_rep (qinit p es ch pm) ns = Some (q, out, ev) ->
            Bd * Mtrial es + 1 <= sumZ ns -> q_empty q = true).
  { intros Bd keys q ns out ev B Hb Hpops HN. destruct (q_empty q) eqn:E; [reflexivity|exfalso].
    pose proof (b_time _ _ _ _ _ _ _ _ _ _ _ _ B E) as Ht.
    pose proof (b_src _ _ _ _ _ _ _ _ _ _ _ _ B) as Hs.
    pose proof (b_delay _ _ _ _ _ _ _ _ _ _ _ _ B) as Hd.
    pose proof (pops_samples _ _ _ _ _ _ Hpops) as Hsm. cbn [q_samples qinit] in Hsm.
    pose proof (zlen_nonneg keys). nia. }
  destruct p as [|keep| | |gs]; try exact I.
  - exists (zlen (fifo_order es) * Mtrial es + 1). intros ns q out ev _ HN Hpops.
    destruct (pops_inv PFifo es Hwf (CFifo es)
                (fun keys q s d H => H) (fun keys q n e H => H)
                (fun keys q q' k t B HC Hnt => CFifo_step PFifo es Hwf keys q q' k t eq_refl B HC Hnt)
                ns [] _ _ _ _ B0 (CFifo_init PFifo es Hwf ch pm eq_refl) Hpops) as [B (_ & Hseq)].
    apply (Hfin _ _ _ _ _ _ B (zlen_concat_le _ _ _ Hseq) Hpops HN).
  - exists (zlen (inter_order keep es) * Mtrial es + 1). intros ns q out ev _ HN Hpops.
    destruct (pops_inv (PInter keep) es Hwf (CInter es keep)
                (fun keys q s d H => H) (fun keys q n e H => H)
                (CInter_step keep es Hwf Hn)
                ns [] _ _ _ _ B0 (CInter_init keep es Hwf Hn ch pm) Hpops) as [B HC].
    apply (Hfin _ _ _ _ _ _ B (CInter_bound keep es Hwf _ _ HC) Hpops HN).
  - assert (Hgs : 1 <= gs) by (cbn in Hwp; lia).
    exists ((gs * sumZ (requested_of es) + gs) * Mtrial es + 1). intros ns q out ev _ HN Hpops.
    destruct (pops_inv (PGrouped gs) es Hwf (CGrouped es gs)
                (fun keys q s d H => H) (fun keys q n e H => H)
                (CGrouped_step gs es Hwf Hn Hgs)
                ns [] _ _ _ _ B0 (CGrouped_init gs es Hwf Hn Hgs ch pm) Hpops) as [B HC].
    apply (Hfin _ _ _ _ _ _ B (CGrouped_bound gs es Hwf Hgs _ _ HC) Hpops HN).
Qed.

(* ---------- the reference orders ---------- *)
Section FifoRef.
Variable c : Z -> nat.
Definition Gseq (lo : Z) (n : nat) : list Z := concat (zr (fun j => repeat j (c j)) lo n).

Lemma countZ_repeat k j m : countZ k (repeat j m) = if k =? j then Z.of_nat m else 0.
Proof.
  induction m as [|m IH]; cbn [repeat]; [destruct (k =? j); reflexivity|].
  rewrite countZ_cons, IH. destruct (k =? j); lia.
Qed.
Lemma Gseq_in n : forall lo x, In x (Gseq lo n) -> lo <= x < lo + Z.of_nat n.
Proof.
  induction n as [|n IH]; intros lo x; unfold Gseq; cbn [zr concat]; [contradiction|].
  intros H. apply in_app_or in H. destruct H as [H|H].
  - apply repeat_spec in H. lia.
  - apply IH in H. lia.
Qed.
Lemma Gseq_count k n : forall lo,
  countZ k (Gseq lo n) = if (lo <=? k) && (k <? lo + Z.of_nat n) then Z.of_nat (c k) else 0.
Proof.
  induction n as [|n IH]; intros lo; unfold Gseq; cbn [zr concat].
  - rewrite countZ_nil. destruct ((lo <=? k) && (k <? lo + Z.of_nat 0)) eqn:E; [lia|reflexivity].
  - rewrite countZ_app, countZ_repeat. fold (Gseq (lo + 1) n). rewrite IH.
    destruct (Z.eqb_spec k lo) as [->|Hne].
    + replace ((lo + 1 <=? lo) && (lo <? lo + 1 + Z.of_nat n)) with false by lia.
      replace ((lo <=? lo) && (lo <? lo + Z.of_nat (S n))) with true by lia. lia.
    + destruct ((lo + 1 <=? k) && (k <? lo + 1 + Z.of_nat n)) eqn:E1;
        destruct ((lo <=? k) && (k <? lo + Z.of_nat (S n))) eqn:E2; lia.
Qed.
Lemma nondec_repeat x m : nondecreasing (repeat x m) = true.
Proof.
  destruct m as [|m]; [reflexivity|]. cbn [repeat].
  induction m as [|m IH]; [reflexivity|]. cbn [repeat].
  change (nondecreasing (x :: x :: repeat x m)) with ((x <=? x) && nondecreasing (x :: repeat x m)).
  rewrite IH, Z.leb_refl. reflexivity.
Qed.
Lemma nondec_app a : forall b, nondecreasing a = true -> nondecreasing b = true ->
  (forall x y, In x a -> In y b -> x <= y) -> nondecreasing (a ++ b) = true.
Proof.
  induction a as [|x a IH]; intros b Ha Hb H; [exact Hb|].
  destruct a as [|x' a].
  - cbn [app]. destruct b as [|y b]; [reflexivity|].
    change (nondecreasing (x :: y :: b)) with ((x <=? y) && nondecreasing (y :: b)).
    rewrite Hb, andb_true_r. apply Z.leb_le. apply H; now left.
  - change (nondecreasing (x :: x' :: a)) with ((x <=? x') && nondecreasing (x' :: a)) in Ha.
    apply andb_true_iff in Ha. destruct Ha as [Hx Ha].
    change (nondecreasing ((x :: x' :: a) ++ b)) with ((x <=? x') && nondecreasing ((x' :: a) ++ b)).
    rewrite Hx. cbn [andb]. apply IH; auto. intros u v Hu Hv. apply H; [now right|exact Hv].
Qed.
Lemma Gseq_nondec n : forall lo, nondecreasing (Gseq lo n) = true.
Proof.
  induction n as [|n IH]; intros lo; unfold Gseq; cbn [zr concat]; [reflexivity|].
  apply nondec_app; [apply nondec_repeat|apply IH|].
  intros x y Hx Hy. apply repeat_spec in Hx. apply Gseq_in in Hy. lia.
Qed.
End FifoRef.

Lemma fifo_order_counts : forall es, forallb wf_entry es = true ->
  counts_of (zlen es) (fifo_order es) = requested_of es /\ nondecreasing (fifo_order es) = true.
Proof.
  intros es Hwf.
  assert (Hf : fifo_order es = Gseq (fun k => Z.to_nat (reqk es k)) 0 (Z.to_nat (zlen es))) by reflexivity.
  rewrite Hf. split; [|apply Gseq_nondec].
  unfold counts_of, requested_of. rewrite (map_as_zrange e_requested 0 es).
  apply zrange_ext. intros k Hk. rewrite Z.add_0_l, Gseq_count.
  replace ((0 <=? k) && (k <? 0 + Z.of_nat (Z.to_nat (zlen es)))) with true by lia.
  unfold reqk. destruct (znth_some es k Hk) as [e He]. rewrite He.
  apply znth_In in He. pose proof (wf_entry_facts _ (es_wf _ Hwf _ He)). lia.
Qed.

Example fifo_order_counts_ex : forallb wf_entry [mk_entry 2 1 KArray [1] true] = true.
Proof. reflexivity. Qed.

Lemma countZ_rev k l : countZ k (rev l) = countZ k l.
Proof.
  induction l as [|x l IH]; [reflexivity|]. cbn [rev]. rewrite countZ_snoc, countZ_cons, IH. lia.
Qed.

Lemma blocks_are_permutations : forall n pm,
  forallb (is_perm_block n) pm = true ->
  forall k, 0 <= k < n -> countZ k (blocks_order pm) = zlen pm.
Proof.
  intros n pm H k Hk. induction pm as [|b pm IH]; [reflexivity|].
  cbn [forallb] in H. apply andb_true_iff in H. destruct H as [Hb H].
  unfold blocks_order in *. cbn [map concat]. rewrite countZ_app, countZ_rev, (IH H), zlen_cons.
  unfold is_perm_block in Hb. apply andb_true_iff in Hb. destruct Hb as [_ Hb].
  rewrite forallb_forall in Hb. specialize (Hb k). rewrite In_zrange_id in Hb.
  specialize (Hb ltac:(lia)). lia.
Qed.

Example blocks_are_permutations_ex : forallb (is_perm_block 3) [[2; 0; 1]; [0; 1; 2]] = true.
Proof. reflexivity. Qed.

Lemma grouped_unrepaired_refuted : exists es gs n,
  wf_queue (PGrouped gs) es = true /\ forallb progress_entry es = true /\ 0 <= n /\
  pop_buffer no_rep (qinit (PGrouped gs) es [] []) n = None.
Proof.
  exists [mk_entry 2 1 KArray [0] true], 2, 5.
  split; [reflexivity|]. split; [reflexivity|]. split; [lia|]. vm_compute. reflexivity.
Qed.
