(* C02 / C03 / C04 translator tie: the definitions `g_*` of gen/QueueStepGen.v - regenerated from psiaudio/queue.py by
   translate/pyqueue2coq.py on every run - against the hand-written model of Queue/Model.v (all repairs on: all_rep).

   Translated, statement by statement: _get_samples_waveform, _get_samples_generator, remove_key, decrement_key (base class,
   interleaved, grouped), next_key (FIFO, interleaved, random, blocked random, grouped), pop_key, pop_next, next_trial,
   _pop_buffer, pop_buffer, and the dispatch of next_key / decrement_key over the class hierarchy.

   Shape of the tie.  The object is `mk q ev` (the model's state + the notifications delivered so far).  A generated
   method answers `GOk object value` or `GRaise exception object`; the model answers with its own result types.  The
   `*_spec` predicates below say what "equal" means: the same state, value and notifications when the model succeeds,
   QueueEmptyError with the object untouched when the model says "empty", some other exception when the model says
   "error" (the model does not distinguish exceptions, and forgets the state).  For pop_buffer and runs this is a plain
   equality after `obs_pop`.

   Hypotheses (tie_wf; nothing for FIFO, random and interleaved-keeping-completed queues): every queued key has its
   stimulus dict (interleaved skipping completed; grouped), the group size is not negative (grouped), shuffled blocks hold
   indices >= 0 (blocked random); _pop_buffer: the request is not negative.  Each one is needed (section 12), and each is
   kept by every request (section 8), so runs need them for the initial queue only.
   Stdlib only, no axioms. *)
From Coq Require Import ZArith List Bool Lia ZifyBool.
From PV Require Import Queue.Model Queue.Spec Queue.LemmasC02 Queue.ProofsC02 Queue.TieLib gen.QueueStepGen.
Import ListNotations.
Open Scope Z_scope.

Definition mk (q : qstate) (ev : list event) : obj := {| o_q := q; o_ev := ev |}.

Ltac fsimpl :=
  cbn [o_q o_ev mk f_pol f_data f_ordering f_source f_delay f_samples f_paused f_empty f_generated f_i f_iperm
       f_complete f_choices f_perms set_data set_ordering set_source set_delay set_samples set_paused set_empty
       set_generated set_i set_iperm set_complete set_choices set_perms notify
       q_pol q_data q_ordering q_source q_delay q_samples q_paused q_empty q_generated q_i q_iperm
       q_complete q_choices q_perms set_src add_samples set_state] in *.

Lemma qexc_eqb_empty e : e <> EQueueEmpty -> qexc_eqb e EQueueEmpty = false.
Proof. destruct e; cbn; congruence. Qed.

(* ---- 1. the two readers of the current source ---- *)
Lemma tie_get_samples_waveform q ev n k a b : q_source q = Some (k, a, b) -> 0 <= n ->
  g__get_samples_waveform (mk q ev) n =
  GOk (mk (set_src q (if n >? b - a then None else Some (k, a + n, b)) (q_delay q)) ev)
      (zrange (fun i => OWave k i) a (if n >? b - a then b - a else n)).
Proof.
  intros Hs Hn. unfold g__get_samples_waveform. destruct q; fsimpl. subst q_source.
  cbn [view_len view_slice view_samples py_lo py_hi]. unfold adj_bound.
  destruct (n >? b - a) eqn:E; [reflexivity|].
  destruct (n <? 0) eqn:E0; [lia|].
  replace (a + Z.max 0 (Z.min n (b - a)) - (a + 0)) with n by lia.
  replace (a + 0) with a by lia.
  replace (a + Z.min n (b - a)) with (a + n) by lia.
  replace (a + Z.max (Z.min n (b - a)) (b - a)) with b by lia.
  reflexivity.
Qed.

Lemma tie_get_samples_generator q ev n k a b : q_source q = Some (k, a, b) ->
  g__get_samples_generator (mk q ev) n =
  GOk (mk (set_src q (if a + Z.min (b - a) n >=? b then None else Some (k, a + Z.min (b - a) n, b)) (q_delay q)) ev)
      (zrange (fun i => OWave k i) a (Z.min (b - a) n)).
Proof.
  intros Hs. unfold g__get_samples_generator. destruct q; fsimpl. subst q_source.
  cbn [gen_remaining gen_samples gen_advance gen_complete].
  destruct (a + Z.min (b - a) n >=? b); reflexivity.
Qed.

(* ---- 2. list primitives ---- *)
Lemma py_get_znth {A} (l : list A) i : 0 <= i ->
  py_get l i = match znth l i with Some x => Ret x | None => Raise EIndexError end.
Proof.
  intros Hi. unfold py_get, znth. destruct (i <? 0) eqn:E; [lia|].
  destruct ((0 <=? i) && (i <? zlen l)) eqn:E1.
  - destruct (nth_error l (Z.to_nat i)); reflexivity.
  - assert (H : (length l <= Z.to_nat i)%nat) by (unfold zlen in E1; lia).
    apply nth_error_None in H. rewrite H. reflexivity.
Qed.

Lemma py_slice_firstn {A} (l : list A) g : 0 <= g -> py_slice None (Some g) l = firstn (Z.to_nat g) l.
Proof.
  intros Hg. unfold py_slice, py_lo, py_hi, adj_bound. destruct (g <? 0) eqn:E; [lia|].
  cbn [skipn Z.to_nat]. rewrite Z.sub_0_r.
  destruct (Z.le_ge_cases g (zlen l)) as [H|H].
  - rewrite Z.min_l by lia. reflexivity.
  - rewrite Z.min_r by lia. unfold zlen. rewrite Nat2Z.id, firstn_all.
    symmetry. apply firstn_all2. unfold zlen in H. lia.
Qed.

Lemma exists_r_data l : exists_r (fun d : entry => Ret (e_trials d >? 0)) l = Ret (negb (all_done l)).
Proof.
  induction l as [|e t IH]; [reflexivity|]. cbn [exists_r all_done forallb].
  destruct (e_trials e >? 0) eqn:E.
  - replace (e_trials e <=? 0) with false by lia. reflexivity.
  - replace (e_trials e <=? 0) with true by lia. exact IH.
Qed.

Lemma exists_r_grp self l : (forall k, In k l -> exists e, znth (f_data self) k = Some e) ->
  exists_r (fun k => rbind (lookup self k) (fun _ => Ret (e_trials (deref self k) >? 0))) l
  = Ret (negb (forallb (fun k => trials_of (f_data self) k <=? 0) l)).
Proof.
  induction l as [|x t IH]; intros H; [reflexivity|]. cbn [exists_r forallb].
  destruct (H x (or_introl eq_refl)) as [e He]. unfold lookup at 1, deref at 1, trials_of at 1. rewrite He.
  cbn [rbind]. destruct (e_trials e >? 0) eqn:E.
  - replace (e_trials e <=? 0) with false by lia. reflexivity.
  - replace (e_trials e <=? 0) with true by lia. apply IH. intros k Hk. apply H. now right.
Qed.

(* ---- 3. the invariant the tie needs, per policy (nothing for FIFO, random, interleaved keeping completed) ---- *)
Definition keys_ok (q : qstate) : Prop := Forall (fun k => 0 <= k < zlen (q_data q)) (q_ordering q).
Definition perms_ok (q : qstate) : Prop :=
  Forall (fun i => 0 <= i) (q_iperm q) /\ Forall (Forall (fun i => 0 <= i)) (q_perms q).
Definition tie_wf (q : qstate) : Prop :=
  match q_pol q with
  | PFifo | PRandom | PInter true => True
  | PInter false => keys_ok q             (* every queued key has its stimulus dict *)
  | PGrouped gs => 0 <= gs /\ keys_ok q   (* and the group size is not negative *)
  | PBlockedRandom => perms_ok q          (* shuffled blocks hold indices, not negative numbers *)
  end.

Example tie_wf_ex : tie_wf (qinit (PGrouped 2) [mk_entry 2 3 KArray [1] true; mk_entry 1 2 KGen [0] true] [] []) /\
                    tie_wf (qinit PBlockedRandom [mk_entry 2 3 KArray [1] true] [] [[0]; [0]]) /\
                    tie_wf (qinit (PInter false) [mk_entry 2 3 KArray [1] true] [] []).
Proof.
  repeat split; cbn; try lia; repeat constructor; cbn; lia.
Qed.

(* ---- 4. next_key ---- *)
Definition nk_spec (q : qstate) (ev0 : list event) (r : gres Z) (m : nk) : Prop :=
  match m with
  | NKey k q1 => r = GOk (mk q1 ev0) k
  | NEmpty => r = GRaise EQueueEmpty (mk q ev0)
  | NError => exists e s, r = GRaise e s /\ e <> EQueueEmpty
  end.

Ltac err := do 2 eexists; split; [reflexivity|discriminate].

Lemma zlen_cons_ne0 {A} (x : A) l : (zlen (x :: l) =? 0) = false.
Proof. rewrite zlen_cons. pose proof (zlen_nonneg l). lia. Qed.

Lemma tie_next_key_fifo q ev0 : q_pol q = PFifo -> nk_spec q ev0 (g_FIFOSignalQueue_next_key (mk q ev0)) (next_key all_rep q).
Proof.
  intros Hp. unfold next_key, g_FIFOSignalQueue_next_key. rewrite Hp. destruct q; fsimpl.
  destruct q_ordering as [|k t]; [reflexivity|]. rewrite zlen_cons_ne0. reflexivity.
Qed.

Lemma tie_next_key_random q ev0 : q_pol q = PRandom -> nk_spec q ev0 (g_RandomSignalQueue_next_key (mk q ev0)) (next_key all_rep q).
Proof.
  intros Hp. unfold next_key, g_RandomSignalQueue_next_key, draw_choice. rewrite Hp. destruct q; fsimpl.
  destruct q_ordering as [|k t]; [reflexivity|]. rewrite zlen_cons_ne0.
  destruct q_choices as [|c rest]; [cbn; err|].
  destruct (memZ c (k :: t)); [reflexivity|cbn; err].
Qed.

Lemma tie_next_key_grouped q ev0 gs : q_pol q = PGrouped gs -> 0 <= gs ->
  nk_spec q ev0 (g_GroupedFIFOSignalQueue_next_key (mk q ev0)) (next_key all_rep q).
Proof.
  intros Hp Hgs. unfold next_key, g_GroupedFIFOSignalQueue_next_key, py_mod, f_group_size. rewrite Hp.
  destruct q; fsimpl. subst q_pol. cbn [r_grouped_mod all_rep].
  destruct q_ordering as [|k t]; [reflexivity|]. rewrite zlen_cons_ne0.
  set (o := k :: t) in *. set (m := Z.min gs (zlen o)).
  destruct (m =? 0) eqn:Em; [cbn; err|]. cbn [gtry]. fsimpl.
  assert (Hm : 0 < m) by (pose proof (zlen_nonneg o); lia).
  pose proof (Z.mod_pos_bound (q_i + 1) m Hm) as Hb.
  rewrite py_get_znth by lia.
  destruct (znth o ((q_i + 1) mod m)); cbn; [reflexivity|err].
Qed.

(* the `while True` loop of the interleaved queue against inter_skip (keep_complete_waveforms = False) *)
Lemma tie_inter_loop pol d o src dl smp pa em gen ip c ch pm ev0 :
  pol = PInter false -> zlen o <> 0 -> Forall (fun k => 0 <= k < zlen d) o ->
  forall fuel i,
  let q i := {| q_pol := pol; q_data := d; q_ordering := o; q_source := src; q_delay := dl; q_samples := smp;
                q_paused := pa; q_empty := em; q_generated := gen; q_i := i; q_iperm := ip; q_complete := c;
                q_choices := ch; q_perms := pm |} in
  match inter_skip fuel d o i with
  | Some (i', k) => g_InterleavedFIFOSignalQueue_next_key_loop fuel (mk (q i) ev0) = GOk (mk (q i') ev0) k
  | None => exists e s, g_InterleavedFIFOSignalQueue_next_key_loop fuel (mk (q i) ev0) = GRaise e s /\ e <> EQueueEmpty
  end.
Proof.
  intros Hp Hn Hk fuel. subst pol. induction fuel as [|f IH]; intros i q; [cbn; err|].
  cbn [inter_skip g_InterleavedFIFOSignalQueue_next_key_loop]. unfold py_mod, q. fsimpl.
  destruct (zlen o =? 0) eqn:E0; [lia|]. cbn [gtry]. fsimpl.
  assert (H0 : 0 < zlen o) by (pose proof (zlen_nonneg o); lia).
  pose proof (Z.mod_pos_bound (i + 1) (zlen o) H0) as Hb.
  rewrite py_get_znth by lia.
  destruct (znth_some o ((i + 1) mod zlen o) Hb) as [key Hkey]. rewrite Hkey. cbn [gtry].
  unfold f_keep. fsimpl.
  assert (Hin : 0 <= key < zlen d) by (rewrite Forall_forall in Hk; apply Hk; eapply znth_In; eauto).
  destruct (znth_some d key Hin) as [e He].
  unfold lookup, deref, trials_of. fsimpl. rewrite He. cbn [gtry].
  destruct (e_trials e >? 0); [reflexivity|]. exact (IH ((i + 1) mod zlen o)).
Qed.

Lemma tie_next_key_inter q ev0 keep : q_pol q = PInter keep -> (keep = false -> keys_ok q) ->
  nk_spec q ev0 (g_InterleavedFIFOSignalQueue_next_key (mk q ev0)) (next_key all_rep q).
Proof.
  intros Hp Hk. unfold next_key, g_InterleavedFIFOSignalQueue_next_key. rewrite Hp. unfold keys_ok in Hk.
  destruct q; fsimpl. subst q_pol. cbn [r_empty_guard all_rep].
  destruct q_complete; [reflexivity|]. cbn [orb].
  destruct (zlen q_ordering =? 0) eqn:E0; [reflexivity|].
  destruct keep.
  - destruct q_ordering as [|k0 t]; [cbn in E0; discriminate|].
    cbn [length g_InterleavedFIFOSignalQueue_next_key_loop]. set (o := k0 :: t) in *.
    unfold py_mod. fsimpl. rewrite E0. cbn [gtry]. fsimpl.
    assert (H0 : 0 < zlen o) by (pose proof (zlen_nonneg o); lia).
    pose proof (Z.mod_pos_bound (q_i + 1) (zlen o) H0) as Hb.
    rewrite py_get_znth by lia.
    destruct (znth o ((q_i + 1) mod zlen o)); cbn; [reflexivity|err].
  - pose proof (tie_inter_loop (PInter false) q_data q_ordering q_source q_delay q_samples q_paused q_empty
                               q_generated q_iperm false q_choices q_perms ev0 eq_refl ltac:(lia) (Hk eq_refl)
                               (length q_ordering) q_i) as H.
    cbn zeta in H. destruct (inter_skip (length q_ordering) q_data q_ordering q_i) as [[i' k]|]; exact H.
Qed.

Lemma tie_next_key_blocked q ev0 : q_pol q = PBlockedRandom -> perms_ok q ->
  nk_spec q ev0 (g_BlockedRandomSignalQueue_next_key (mk q ev0)) (next_key all_rep q).
Proof.
  intros Hp [Hi Hpm]. unfold next_key, g_BlockedRandomSignalQueue_next_key. rewrite Hp.
  destruct q; fsimpl. subst q_pol. cbn [r_empty_guard all_rep andb].
  destruct q_complete; [reflexivity|]. cbn [orb].
  destruct (zlen q_ordering =? 0) eqn:E0; [reflexivity|].
  destruct q_iperm as [|x ip'].
  - cbn [zlen length Z.of_nat Z.eqb]. unfold draw_perm. fsimpl.
    destruct q_perms as [|p rest]; [cbn; err|].
    destruct (zlen p =? zlen q_ordering); [|cbn; err]. cbn [negb gbind]. fsimpl.
    unfold py_pop_last. destruct (rev p) as [|i rr] eqn:Er; [cbn; err|]. cbn [gtry fst snd]. fsimpl.
    assert (H0 : 0 <= i).
    { inversion Hpm as [|? ? Hp0 _]; subst. rewrite Forall_forall in Hp0. apply Hp0.
      apply in_rev. rewrite Er. now left. }
    rewrite py_get_znth by exact H0.
    destruct (znth q_ordering i); cbn; [reflexivity|err].
  - rewrite zlen_cons_ne0. cbn [negb]. unfold py_pop_last.
    destruct (rev (x :: ip')) as [|i rr] eqn:Er; [cbn; err|]. cbn [gtry fst snd]. fsimpl.
    assert (H0 : 0 <= i).
    { rewrite Forall_forall in Hi. apply Hi. apply in_rev. rewrite Er. now left. }
    rewrite py_get_znth by exact H0.
    destruct (znth q_ordering i); cbn; [reflexivity|err].
Qed.

Lemma tie_next_key q ev0 : tie_wf q -> nk_spec q ev0 (g_next_key (mk q ev0)) (next_key all_rep q).
Proof.
  intros Hw. unfold g_next_key, tie_wf in *. unfold f_pol. cbn [o_q mk].
  destruct (q_pol q) as [|keep| | |gs] eqn:Ep.
  - now apply tie_next_key_fifo.
  - apply (tie_next_key_inter q ev0 keep Ep). intros ->. exact Hw.
  - now apply tie_next_key_random.
  - now apply tie_next_key_blocked.
  - destruct Hw. now apply (tie_next_key_grouped q ev0 gs).
Qed.

(* ---- 5. decrement_key ---- *)
Definition setord (q : qstate) (o : list Z) : qstate :=
  set_state q (q_data q) o (q_i q) (q_iperm q) (q_complete q) (q_choices q) (q_perms q).

Lemma remove_key_head q ev a r : q_ordering q = a :: r -> g_remove_key (mk q ev) a = GOk (mk (setord q r) ev) tt.
Proof.
  intros Ho. unfold g_remove_key, py_remove, f_ordering. cbn [o_q mk]. rewrite Ho.
  cbn [memZ existsb remove1]. rewrite Z.eqb_refl. cbn [orb gtry]. destruct q; reflexivity.
Qed.

Lemma gfold_remove_prefix : forall p s q ev, q_ordering q = p ++ s ->
  gfold (fun self k => g_remove_key self k) p (mk q ev)
  = GOk (mk (setord q (fold_left (fun o k => remove1 k o) p (p ++ s))) ev) tt.
Proof.
  induction p as [|a p IH]; intros s q ev Ho.
  - cbn [gfold fold_left app]. destruct q; unfold setord; fsimpl. cbn in Ho. subst. reflexivity.
  - cbn [gfold]. rewrite (remove_key_head q ev a (p ++ s)) by exact Ho.
    rewrite (IH s (setord q (p ++ s)) ev) by reflexivity.
    cbn [app fold_left remove1]. rewrite Z.eqb_refl. destruct q; reflexivity.
Qed.

Lemma In_firstn {A} (x : A) n l : In x (firstn n l) -> In x l.
Proof. intros H. rewrite <- (firstn_skipn n l). apply in_or_app. now left. Qed.

Definition dk_spec (q : qstate) (ev0 : list event) (r : gres bool) (m : option qstate) : Prop :=
  match m with
  | Some q2 => exists b, r = GOk (mk q2 ev0) b
  | None => exists x s, r = GRaise x s /\ x <> EQueueEmpty
  end.

Lemma deref_upd self key f e : znth (f_data self) key = Some e ->
  deref (set_data self (upd_entry (f_data self) key f)) key = f e.
Proof.
  intros He. unfold deref. destruct self as [q ev]; destruct q; fsimpl.
  rewrite znth_upd, Z.eqb_refl, He. reflexivity.
Qed.

Lemma tie_decrement_key_base q ev0 key e : (q_pol q = PFifo \/ q_pol q = PRandom) -> znth (q_data q) key = Some e ->
  dk_spec q ev0 (g_AbstractSignalQueue_decrement_key (mk q ev0) key 1) (decrement_key q key).
Proof.
  intros Hp He. unfold decrement_key, g_AbstractSignalQueue_decrement_key, dk_spec.
  destruct (negb (memZ key (q_ordering q))) eqn:Em.
  - unfold f_ordering. cbn [o_q mk]. rewrite Em. err.
  - unfold f_ordering at 1. cbn [o_q mk]. rewrite Em.
    unfold lookup at 1. unfold f_data at 1. cbn [o_q mk]. rewrite He. cbn [gtry].
    rewrite (deref_upd (mk q ev0) key _ e) by exact He.
    unfold trials_of. rewrite znth_upd, Z.eqb_refl, He. cbn [option_map].
    unfold g_remove_key, py_remove. destruct q; fsimpl.
    destruct (memZ key q_ordering) eqn:Em2; [|discriminate].
    destruct Hp as [Hp|Hp]; subst q_pol; cbn [add_trials e_trials Z.opp];
      (destruct (e_trials e + -1 <=? 0); cbn; eexists; reflexivity).
Qed.

Lemma tie_decrement_key_inter q ev0 key e : (exists keep, q_pol q = PInter keep) \/ q_pol q = PBlockedRandom ->
  znth (q_data q) key = Some e ->
  dk_spec q ev0 (g_InterleavedFIFOSignalQueue_decrement_key (mk q ev0) key 1) (decrement_key q key).
Proof.
  intros Hp He. unfold decrement_key, g_InterleavedFIFOSignalQueue_decrement_key, dk_spec.
  destruct (negb (memZ key (q_ordering q))) eqn:Em.
  - unfold f_ordering. cbn [o_q mk]. rewrite Em. err.
  - unfold f_ordering at 1. cbn [o_q mk]. rewrite Em.
    unfold lookup at 1. unfold f_data at 1. cbn [o_q mk]. rewrite He. cbn [gtry].
    rewrite exists_r_data. cbn [gtry]. destruct q; fsimpl. change (- (1)) with (-1).
    set (d := upd_entry q_data key (add_trials (-1))).
    assert (Hq : q_pol = q_pol) by reflexivity.
    destruct Hp as [[keep Hp]|Hp]; subst q_pol;
      (destruct (all_done d); cbn [negb]; [rewrite orb_true_r|rewrite orb_false_r]; eexists; reflexivity).
Qed.

Lemma tie_decrement_key_grouped q ev0 key e gs : q_pol q = PGrouped gs -> 0 <= gs -> keys_ok q ->
  znth (q_data q) key = Some e ->
  dk_spec q ev0 (g_GroupedFIFOSignalQueue_decrement_key (mk q ev0) key 1) (decrement_key q key).
Proof.
  intros Hp Hgs Hk He. unfold decrement_key, g_GroupedFIFOSignalQueue_decrement_key, dk_spec.
  destruct (negb (memZ key (q_ordering q))) eqn:Em.
  - unfold f_ordering. cbn [o_q mk]. rewrite Em. err.
  - unfold f_ordering at 1. cbn [o_q mk]. rewrite Em.
    unfold lookup at 1. unfold f_data at 1. cbn [o_q mk]. rewrite He. cbn [gtry]. rewrite Hp.
    unfold f_group_size, f_pol. cbn [o_q mk set_data q_pol]. rewrite Hp.
    rewrite !py_slice_firstn by exact Hgs.
    set (self1 := set_data (mk q ev0) (upd_entry (f_data (mk q ev0)) key (add_trials (- (1))))).
    assert (Hd : f_data self1 = upd_entry (q_data q) key (add_trials (-1))) by reflexivity.
    assert (Ho : f_ordering self1 = q_ordering q) by reflexivity.
    rewrite Ho. rewrite exists_r_grp.
    2:{ intros k Hin. apply In_firstn in Hin. unfold keys_ok in Hk. rewrite Forall_forall in Hk.
        apply znth_some. rewrite Hd. unfold zlen. rewrite upd_entry_length. apply Hk, Hin. }
    cbn [gtry]. rewrite Hd.
    destruct (forallb _ (firstn (Z.to_nat gs) (q_ordering q))); cbn [negb].
    + pose proof (firstn_skipn (Z.to_nat gs) (q_ordering q)) as Hfs.
      set (p := firstn (Z.to_nat gs) (q_ordering q)) in *. set (s := skipn (Z.to_nat gs) (q_ordering q)) in *.
      assert (H1 : self1 = mk (o_q self1) ev0) by reflexivity. rewrite H1.
      rewrite (gfold_remove_prefix p s (o_q self1) ev0) by (symmetry; exact Hfs).
      cbn [gbind]. rewrite Hfs. eexists. destruct q; reflexivity.
    + eexists. destruct q; reflexivity.
Qed.

Lemma tie_decrement_key q ev0 key e : tie_wf q -> znth (q_data q) key = Some e ->
  dk_spec q ev0 (g_decrement_key (mk q ev0) key 1) (decrement_key q key).
Proof.
  intros Hw He. unfold g_decrement_key, tie_wf in *. unfold f_pol. cbn [o_q mk].
  destruct (q_pol q) as [|keep| | |gs] eqn:Ep.
  - apply (tie_decrement_key_base q ev0 key e); auto.
  - apply (tie_decrement_key_inter q ev0 key e); eauto.
  - apply (tie_decrement_key_base q ev0 key e); auto.
  - apply (tie_decrement_key_inter q ev0 key e); auto.
  - destruct Hw. apply (tie_decrement_key_grouped q ev0 key e gs); auto.
Qed.

(* ---- 6. pop_key, pop_next, next_trial ---- *)
Definition nt_final (q2 : qstate) (key : Z) (e : entry) (dl : Z) (dec : bool) : qstate :=
  {| q_pol := q_pol q2; q_data := upd_entry (q_data q2) key adv_delay;
     q_ordering := q_ordering q2; q_source := Some (key, 0, e_len e); q_delay := dl;
     q_samples := q_samples q2; q_paused := q_paused q2; q_empty := q_empty q2;
     q_generated := q_generated q2 ++ [{| i_t0 := q_samples q2; i_dur := e_dur e; i_key := key; i_dec := dec |}];
     q_i := q_i q2; q_iperm := q_iperm q2;
     q_complete := q_complete q2; q_choices := q_choices q2; q_perms := q_perms q2 |}.

Definition is_err {A} (r : gres A) : Prop := exists x s, r = GRaise x s /\ x <> EQueueEmpty.

Lemma nt_tail q q2 ev0 key dec : g_pop_next (mk q ev0) dec = GOk (mk q2 ev0) (key, key) ->
  match znth (q_data q2) key with
  | Some e =>
    match next_delay e with
    | Some dl => if dl <? 0 then is_err (g_next_trial (mk q ev0) dec)
                 else g_next_trial (mk q ev0) dec
                      = GOk (mk (nt_final q2 key e dl dec) (ev0 ++ [EAdded key (q_samples q2)])) tt
    | None => is_err (g_next_trial (mk q ev0) dec)
    end
  | None => is_err (g_next_trial (mk q ev0) dec)
  end.
Proof.
  intros H. unfold g_next_trial, is_err. rewrite H. cbn [gbind fst snd].
  unfold next_delay_samples, fresh_source.
  assert (Hd : forall v, deref (set_source (mk q2 ev0) v) key = deref (mk q2 ev0) key) by (intros; destruct q2; reflexivity).
  rewrite !Hd.
  destruct (znth (q_data q2) key) as [e|] eqn:He.
  - assert (Hde : deref (mk q2 ev0) key = e) by (unfold deref, f_data; cbn [o_q mk]; rewrite He; reflexivity).
    rewrite !Hde.
    destruct (next_delay e) as [dl|]; [|cbn; err]. cbn [gbind].
    assert (Hdl : forall s, f_delay (set_delay s dl) = dl) by reflexivity. rewrite Hdl.
    destruct (dl <? 0); [err|].
    assert (Hdur : forall s1 v v2 , znth (f_data s1) key = Some e ->
              e_dur (deref (set_delay (set_data (set_source s1 v) (upd_entry (f_data (set_source s1 v)) key adv_delay)) v2) key) = e_dur e).
    { intros s1 v v2 H1. unfold deref. destruct s1 as [qq evv]; destruct qq; fsimpl. rewrite znth_upd, Z.eqb_refl, H1. reflexivity. }
    rewrite Hdur by exact He. destruct q2; reflexivity.
  - assert (Hde : deref (mk q2 ev0) key = null_entry) by (unfold deref, f_data; cbn [o_q mk]; rewrite He; reflexivity).
    rewrite !Hde. cbn. err.
Qed.

Definition dk_wf (q : qstate) : Prop :=
  match q_pol q with PGrouped gs => 0 <= gs /\ keys_ok q | _ => True end.

Lemma tie_decrement_key' q ev0 key e : dk_wf q -> znth (q_data q) key = Some e ->
  dk_spec q ev0 (g_decrement_key (mk q ev0) key 1) (decrement_key q key).
Proof.
  intros Hw He. unfold g_decrement_key, dk_wf in *. unfold f_pol. cbn [o_q mk].
  destruct (q_pol q) as [|keep| | |gs] eqn:Ep.
  - apply (tie_decrement_key_base q ev0 key e); auto.
  - apply (tie_decrement_key_inter q ev0 key e); eauto.
  - apply (tie_decrement_key_base q ev0 key e); auto.
  - apply (tie_decrement_key_inter q ev0 key e); auto.
  - destruct Hw. apply (tie_decrement_key_grouped q ev0 key e gs); auto.
Qed.

Lemma tie_wf_dk q q1 : tie_wf q -> same_core q q1 -> dk_wf q1.
Proof.
  unfold tie_wf, dk_wf, same_core, keys_ok. intros Hw (Hp & Hd & Ho & _). rewrite Hp, Hd, Ho.
  destruct (q_pol q); auto.
Qed.

Definition nt_spec (q : qstate) (ev0 : list event) (r : gres unit) (m : ntres) : Prop :=
  match m with
  | NTok q' e => r = GOk (mk q' (ev0 ++ [e])) tt
  | NTempty => r = GRaise EQueueEmpty (mk q ev0)
  | NTerror => is_err r
  end.

Lemma tie_next_trial q ev0 : tie_wf q -> nt_spec q ev0 (g_next_trial (mk q ev0) true) (next_trial all_rep q).
Proof.
  intros Hw. pose proof (tie_next_key q ev0 Hw) as Hk. unfold next_trial.
  destruct (next_key all_rep q) as [key q1| |] eqn:Enk; cbn [nk_spec] in Hk.
  - destruct (next_key_core _ _ _ _ Enk) as [Hcore _]. pose proof (tie_wf_dk q q1 Hw Hcore) as Hw1.
    destruct (znth (q_data q1) key) as [e1|] eqn:He1.
    + pose proof (tie_decrement_key' q1 ev0 key e1 Hw1 He1) as Hd.
      destruct (decrement_key q1 key) as [q2|] eqn:Edk; cbn [dk_spec] in Hd.
      * destruct Hd as [b Hd].
        assert (Hpn : g_pop_next (mk q ev0) true = GOk (mk q2 ev0) (key, key)).
        { unfold g_pop_next. rewrite Hk. cbn [gbind]. unfold g_pop_key, lookup. unfold f_data. cbn [o_q mk].
          rewrite He1. cbn [gtry]. rewrite Hd. reflexivity. }
        pose proof (nt_tail q q2 ev0 key true Hpn) as Ht.
        destruct (znth (q_data q2) key) as [e|]; [|exact Ht].
        destruct (next_delay e) as [dl|]; [|exact Ht].
        destruct (dl <? 0); [exact Ht|]. exact Ht.
      * destruct Hd as (x & s & Hd & Hx). exists x, s. split; [|exact Hx].
        unfold g_next_trial, g_pop_next. rewrite Hk. cbn [gbind]. unfold g_pop_key, lookup. unfold f_data. cbn [o_q mk].
        rewrite He1. cbn [gtry]. rewrite Hd. reflexivity.
    + assert (Hg : is_err (g_next_trial (mk q ev0) true)).
      { unfold g_next_trial, g_pop_next. rewrite Hk. cbn [gbind]. unfold g_pop_key, lookup. unfold f_data. cbn [o_q mk].
        rewrite He1. cbn. err. }
      destruct (decrement_key q1 key) as [q2|] eqn:Edk; [|exact Hg].
      destruct (decrement_key_facts _ _ _ Edk) as (_ & D2 & _).
      rewrite D2, znth_upd, Z.eqb_refl, He1. exact Hg.
  - unfold g_next_trial, g_pop_next. rewrite Hk. reflexivity.
  - destruct Hk as (x & s & Hk & Hx). exists x, s. split; [|exact Hx].
    unfold g_next_trial, g_pop_next. rewrite Hk. reflexivity.
Qed.

Lemma tie_next_trial_nd q ev0 : tie_wf q -> nt_spec q ev0 (g_next_trial (mk q ev0) false) (next_trial_nd all_rep q).
Proof.
  intros Hw. pose proof (tie_next_key q ev0 Hw) as Hk. unfold next_trial_nd.
  destruct (next_key all_rep q) as [key q1| |] eqn:Enk; cbn [nk_spec] in Hk.
  - destruct (znth (q_data q1) key) as [e1|] eqn:He1.
    + assert (Hpn : g_pop_next (mk q ev0) false = GOk (mk q1 ev0) (key, key)).
      { unfold g_pop_next. rewrite Hk. cbn [gbind]. unfold g_pop_key, lookup. unfold f_data. cbn [o_q mk].
        rewrite He1. reflexivity. }
      pose proof (nt_tail q q1 ev0 key false Hpn) as Ht. rewrite He1 in Ht.
      destruct (next_delay e1) as [dl|]; [|exact Ht].
      destruct (dl <? 0); exact Ht.
    + unfold g_next_trial, g_pop_next. rewrite Hk. cbn [gbind]. unfold g_pop_key, lookup. unfold f_data. cbn [o_q mk].
      rewrite He1. cbn. err.
  - unfold g_next_trial, g_pop_next. rewrite Hk. reflexivity.
  - destruct Hk as (x & s & Hk & Hx). exists x, s. split; [|exact Hx].
    unfold g_next_trial, g_pop_next. rewrite Hk. reflexivity.
Qed.

(* ---- 7. _pop_buffer ---- *)
Definition step_spec (q : qstate) (ev0 : list event) (r : gres (list osample)) (m : pbres) : Prop :=
  match m with
  | PBok q' out ev => r = GOk (mk q' (ev0 ++ ev)) out
  | PBempty => r = GRaise EQueueEmpty (mk q ev0)
  | PBerror => is_err r
  end.

Lemma np_zeros_nonneg n : 0 <= n -> np_zeros n = Ret (repeat OZero (Z.to_nat n)).
Proof. intros H. unfold np_zeros. destruct (n <? 0) eqn:E; [lia|reflexivity]. Qed.

Lemma tie_pop_step q ev0 n : tie_wf q -> 0 <= n ->
  step_spec q ev0 (g__pop_buffer (mk q ev0) n true) (pop_step all_rep q n).
Proof.
  intros Hw Hn. unfold pop_step, g__pop_buffer. unfold f_paused, has_source, src_kind, f_source, f_delay. cbn [o_q mk].
  destruct (q_paused q).
  { rewrite np_zeros_nonneg by exact Hn. cbn [gtry step_spec]. now rewrite app_nil_r. }
  destruct (q_source q) as [[[k a] b]|] eqn:Es.
  - destruct (kind_of q k).
    + rewrite (tie_get_samples_waveform q ev0 n k a b Es Hn).
      destruct (n >? b - a); cbn [step_spec]; now rewrite app_nil_r.
    + rewrite (tie_get_samples_generator q ev0 n k a b Es).
      cbn [step_spec]. now rewrite app_nil_r.
  - destruct (q_delay q >? 0) eqn:Ed.
    + rewrite np_zeros_nonneg by lia. cbn [gtry step_spec]. rewrite app_nil_r.
      destruct q; fsimpl. subst. reflexivity.
    + cbn [negb]. pose proof (tie_next_trial q ev0 Hw) as Ht.
      destruct (next_trial all_rep q) as [q' e| |]; cbn [nt_spec step_spec] in *.
      * rewrite Ht. reflexivity.
      * rewrite Ht. reflexivity.
      * destruct Ht as (x & s & Ht & Hx). rewrite Ht. exists x, s. split; [reflexivity|exact Hx].
Qed.

(* ---- 8. the invariant is kept ---- *)
Lemma decrement_key_oracles q key q2 : decrement_key q key = Some q2 ->
  q_iperm q2 = q_iperm q /\ q_perms q2 = q_perms q.
Proof.
  unfold decrement_key. destruct (negb _); [discriminate|].
  destruct (q_pol q); try destruct (forallb _ _); intros H; injection H as <-; qsimpl; auto.
Qed.

Lemma next_key_perms q key q1 : q_pol q = PBlockedRandom -> perms_ok q -> next_key all_rep q = NKey key q1 -> perms_ok q1.
Proof.
  intros Hp [Hi Hpm] H. unfold next_key in H. rewrite Hp in H.
  destruct (q_complete q); [discriminate|]. destruct (_ && _); [discriminate|].
  assert (Hsub : forall ip i rr, Forall (fun i => 0 <= i) ip -> rev ip = i :: rr -> Forall (fun i => 0 <= i) (rev rr)).
  { intros ip i rr Hf Hr. rewrite Forall_forall in *. intros x Hx. apply Hf. apply in_rev. rewrite Hr. right. now apply in_rev. }
  destruct (q_iperm q) as [|x ip] eqn:Eip.
  - destruct (q_perms q) as [|p rest] eqn:Epm; [discriminate|].
    destruct (zlen p =? zlen (q_ordering q)); [|discriminate]. cbn [negb] in H.
    destruct (rev p) as [|i rr] eqn:Er; [discriminate|].
    destruct (znth (q_ordering q) i); [|discriminate]. injection H as <- <-.
    inversion Hpm; subst. split; qsimpl; [eapply Hsub; eauto|assumption].
  - cbn [negb] in H. destruct (rev (x :: ip)) as [|i rr] eqn:Er; [discriminate|].
    destruct (znth (q_ordering q) i); [|discriminate]. injection H as <- <-.
    split; qsimpl; [eapply Hsub; eauto|assumption].
Qed.

Lemma tie_wf_next_trial q q' e : tie_wf q -> next_trial all_rep q = NTok q' e -> tie_wf q'.
Proof.
  intros Hw H. destruct (next_trial_ok _ _ _ _ H) as (key & en & dl & q1 & q2 & Hk & Hd & _ & _ & _ & _ & Hp & Hdat & _ & _ & _ & _ & _ & Hord & _).
  destruct (next_key_core _ _ _ _ Hk) as [(_ & _ & C3 & _) _].
  destruct (decrement_key_facts _ _ _ Hd) as (_ & _ & _ & _ & _ & _ & _ & _ & Hsub & _).
  assert (Hkeys : keys_ok q -> keys_ok q').
  { unfold keys_ok. rewrite !Forall_forall. intros Hk0 x Hx. rewrite Hord in Hx. apply Hsub in Hx. rewrite C3 in Hx.
    rewrite Hdat. unfold zlen. rewrite !upd_entry_length. apply Hk0, Hx. }
  unfold tie_wf in *. rewrite Hp. destruct (q_pol q) as [|keep| | |gs] eqn:Ep; auto.
  - destruct keep; auto.
  - pose proof (next_key_perms q key q1 Ep Hw Hk) as [H1 H2].
    destruct (decrement_key_oracles _ _ _ Hd) as [O1 O2].
    unfold next_trial in H. rewrite Hk, Hd in H.
    destruct (znth (q_data q2) key); [|discriminate]. destruct (next_delay _); [|discriminate].
    destruct (_ <? 0); [discriminate|]. injection H as <- _. split; qsimpl; congruence.
  - destruct Hw. split; auto.
Qed.

Lemma tie_wf_ext q q' : q_pol q' = q_pol q -> q_data q' = q_data q -> q_ordering q' = q_ordering q ->
  q_iperm q' = q_iperm q -> q_perms q' = q_perms q -> tie_wf q -> tie_wf q'.
Proof. unfold tie_wf, keys_ok, perms_ok. intros -> -> -> -> ->. auto. Qed.

Lemma tie_wf_step q n q' out ev : tie_wf q -> pop_step all_rep q n = PBok q' out ev -> tie_wf q'.
Proof.
  intros Hw. unfold pop_step. destruct (q_paused q); [intros H; injection H as <- _ _; exact Hw|].
  destruct (q_source q) as [[[k a] b]|].
  - destruct (kind_of q k); [destruct (_ >? _)|]; intros H; injection H as <- _ _;
      (eapply tie_wf_ext; [| | | | |exact Hw]; reflexivity).
  - destruct (_ >? 0).
    + intros H; injection H as <- _ _. eapply tie_wf_ext; [| | | | |exact Hw]; reflexivity.
    + destruct (next_trial all_rep q) as [q1 e| |] eqn:E; try discriminate.
      intros H; injection H as <- _ _. eapply tie_wf_next_trial; eauto.
Qed.

(* ---- 9. pop_buffer: the `while samples > 0` loop ---- *)
Definition loop_spec (ev0 : list event) (pre : list osample) (r : gres (list osample))
           (m : option (qstate * list osample * list event)) : Prop :=
  match m with
  | Some (q', out, ev) => r = GOk (mk q' (ev0 ++ ev)) (pre ++ out)
  | None => exists x s, r = GRaise x s
  end.

Lemma loop_exit fuel self n dec acc : n <= 0 ->
  g_pop_buffer_loop fuel self n dec acc = GOk self (concat acc).
Proof.
  intros Hn. destruct fuel; cbn [g_pop_buffer_loop]; (destruct (n >? 0) eqn:E; [lia|]);
    (destruct acc as [|w t]; [reflexivity|rewrite zlen_cons_ne0; reflexivity]).
Qed.

Lemma add_samples_mk q ev n : set_samples (mk q ev) (f_samples (mk q ev) + n) = mk (add_samples q n false) ev.
Proof. destruct q; unfold add_samples; fsimpl. now rewrite orb_false_r. Qed.

Lemma tie_pop_loop : forall fuel q ev0 n acc, tie_wf q ->
  loop_spec ev0 (concat acc) (g_pop_buffer_loop fuel (mk q ev0) n true acc) (pop_loop fuel all_rep q n).
Proof.
  induction fuel as [|f IH]; intros q ev0 n acc Hw.
  - cbn [pop_loop]. destruct (n <=? 0) eqn:E.
    + rewrite loop_exit by lia. cbn [loop_spec]. now rewrite !app_nil_r.
    + cbn [g_pop_buffer_loop]. destruct (n >? 0) eqn:E1; [|lia]. cbn [loop_spec]. eauto.
  - cbn [pop_loop]. destruct (n <=? 0) eqn:E.
    + rewrite loop_exit by lia. cbn [loop_spec]. now rewrite !app_nil_r.
    + cbn [g_pop_buffer_loop]. destruct (n >? 0) eqn:E1; [|lia].
      pose proof (tie_pop_step q ev0 n Hw ltac:(lia)) as Hs.
      destruct (pop_step all_rep q n) as [q1 out ev| |] eqn:Eps; cbn [step_spec] in Hs.
      * rewrite Hs. cbn [gcatch]. rewrite add_samples_mk.
        pose proof (tie_wf_step q n q1 out ev Hw Eps) as Hw1.
        assert (Hw2 : tie_wf (add_samples q1 (zlen out) false))
          by (eapply tie_wf_ext; [| | | | |exact Hw1]; reflexivity).
        pose proof (IH (add_samples q1 (zlen out) false) (ev0 ++ ev) (n - zlen out) (acc ++ [out]) Hw2) as Hi.
        destruct (pop_loop f all_rep (add_samples q1 (zlen out) false) (n - zlen out)) as [[[q2 o2] e2]|];
          cbn [loop_spec] in *.
        -- rewrite Hi. rewrite concat_app. cbn [concat]. now rewrite app_nil_r, <- !app_assoc.
        -- exact Hi.
      * rewrite Hs. cbn [gcatch qexc_eqb]. rewrite np_zeros_nonneg by lia. cbn [gtry].
        rewrite loop_exit.
        2:{ rewrite zlen_repeat by lia. lia. }
        cbn [loop_spec]. rewrite concat_app. cbn [concat]. rewrite app_nil_r. f_equal.
        rewrite zlen_repeat by lia. destruct q; unfold add_samples; fsimpl. now rewrite orb_true_r.
      * destruct Hs as (x & s & Hs & Hx). rewrite Hs. cbn [gcatch]. rewrite qexc_eqb_empty by exact Hx.
        cbn [loop_spec]. eauto.
Qed.

(* ---- 10. the tie theorems ---- *)
Theorem source_pop_buffer : forall fuel q n, tie_wf q ->
  obs_pop (g_pop_buffer fuel (mk q []) n true) = pop_loop fuel all_rep q n.
Proof.
  intros fuel q n Hw. unfold g_pop_buffer. pose proof (tie_pop_loop fuel q [] n [] Hw) as H.
  destruct (pop_loop fuel all_rep q n) as [[[q' out] ev]|]; cbn [loop_spec concat app] in H.
  - rewrite H. reflexivity.
  - destruct H as (x & s & H). rewrite H. reflexivity.
Qed.

Lemma tie_wf_loop : forall fuel q n q' out ev, tie_wf q -> pop_loop fuel all_rep q n = Some (q', out, ev) -> tie_wf q'.
Proof.
  induction fuel as [|f IH]; intros q n q' out ev Hw; cbn [pop_loop]; destruct (n <=? 0).
  - intros H; injection H as <- _ _; exact Hw.
  - discriminate.
  - intros H; injection H as <- _ _; exact Hw.
  - destruct (pop_step all_rep q n) as [q1 o1 e1| |] eqn:Eps; [| |discriminate].
    + pose proof (tie_wf_step q n q1 o1 e1 Hw Eps) as Hw1.
      destruct (pop_loop f all_rep (add_samples q1 (zlen o1) false) (n - zlen o1)) as [[[q2 o2] e2]|] eqn:El; [|discriminate].
      intros H; injection H as <- _ _. eapply IH; [|exact El]. eapply tie_wf_ext; [| | | | |exact Hw1]; reflexivity.
    + intros H; injection H as <- _ _. eapply tie_wf_ext; [| | | | |exact Hw]; reflexivity.
Qed.

(* one request on the object as it is (whatever has been notified before) *)
Lemma tie_pop_buffer_ev fuel q ev0 n : tie_wf q ->
  match pop_loop fuel all_rep q n with
  | Some (q', out, ev) => g_pop_buffer fuel (mk q ev0) n true = GOk (mk q' (ev0 ++ ev)) out
  | None => exists x s, g_pop_buffer fuel (mk q ev0) n true = GRaise x s
  end.
Proof.
  intros Hw. unfold g_pop_buffer. pose proof (tie_pop_loop fuel q ev0 n [] Hw) as H.
  destruct (pop_loop fuel all_rep q n) as [[[q' out] ev]|]; exact H.
Qed.

(* runs of the GENERATED pop_buffer, with the fuel the model's pop_buffer uses *)
Fixpoint g_pops (self : obj) (ns : list Z) : gres (list osample) :=
  match ns with
  | [] => GOk self []
  | n :: t =>
    gbind (g_pop_buffer (pop_fuel (o_q self) n) self n true) (fun self o1 =>
    gbind (g_pops self t) (fun self o2 => GOk self (o1 ++ o2)))
  end.

Lemma tie_pops : forall ns q ev0, tie_wf q ->
  match pops all_rep q ns with
  | Some (q', out, ev) => g_pops (mk q ev0) ns = GOk (mk q' (ev0 ++ ev)) out
  | None => exists x s, g_pops (mk q ev0) ns = GRaise x s
  end.
Proof.
  induction ns as [|n t IH]; intros q ev0 Hw; cbn [pops g_pops].
  - now rewrite app_nil_r.
  - unfold pop_buffer. cbn [o_q mk].
    pose proof (tie_pop_buffer_ev (pop_fuel q n) q ev0 n Hw) as H1.
    destruct (pop_loop (pop_fuel q n) all_rep q n) as [[[q1 o1] e1]|] eqn:E1.
    + rewrite H1. cbn [gbind]. pose proof (tie_wf_loop _ _ _ _ _ _ Hw E1) as Hw1.
      pose proof (IH q1 (ev0 ++ e1) Hw1) as H2.
      destruct (pops all_rep q1 t) as [[[q2 o2] e2]|].
      * rewrite H2. cbn [gbind]. now rewrite app_assoc.
      * destruct H2 as (x & s & H2). rewrite H2. cbn [gbind]. eauto.
    + destruct H1 as (x & s & H1). rewrite H1. cbn [gbind]. eauto.
Qed.

Theorem source_pops : forall ns q, tie_wf q -> obs_pop (g_pops (mk q []) ns) = pops all_rep q ns.
Proof.
  intros ns q Hw. pose proof (tie_pops ns q [] Hw) as H.
  destruct (pops all_rep q ns) as [[[q' out] ev]|].
  - rewrite H. reflexivity.
  - destruct H as (x & s & H). rewrite H. reflexivity.
Qed.

(* ---- 11. the C02 theorems over runs of the generated pop_buffer ---- *)
(* the shuffled blocks handed to a blocked-random queue hold indices (np.arange shuffled), not negative numbers *)
Definition oracle_ok (p : policy) (pm : list (list Z)) : Prop :=
  p = PBlockedRandom -> Forall (Forall (fun i => 0 <= i)) pm.

Lemma tie_wf_init p es ch pm : wf_policy p (zlen es) = true -> oracle_ok p pm -> tie_wf (qinit p es ch pm).
Proof.
  intros Hp Ho. unfold tie_wf, qinit, keys_ok, perms_ok. cbn [q_pol q_data q_ordering q_iperm q_perms].
  assert (Hk : Forall (fun k => 0 <= k < zlen es) (zrange (fun i => i) 0 (zlen es))).
  { rewrite Forall_forall. intros x Hx. unfold zrange in Hx. apply In_zr in Hx. destruct Hx as (i & Hi & ->).
    unfold zlen in *. rewrite Nat2Z.id in Hi. lia. }
  destruct p as [|keep| | |gs]; auto.
  - destruct keep; auto.
  - cbn in Hp. split; [lia|exact Hk].
Qed.

Lemma wf_queue_policy p es : wf_queue p es = true -> wf_policy p (zlen es) = true.
Proof. unfold wf_queue. rewrite !andb_true_iff. tauto. Qed.

Lemma tie_wf_pops : forall ns q q' o e, tie_wf q -> pops all_rep q ns = Some (q', o, e) -> tie_wf q'.
Proof.
  induction ns as [|n t IH]; intros q q' o e Hw; cbn [pops].
  - intros H; injection H as <- _ _; exact Hw.
  - unfold pop_buffer. destruct (pop_loop _ all_rep q n) as [[[q1 x1] y1]|] eqn:E1; [|discriminate].
    destruct (pops all_rep q1 t) as [[[q2 x2] y2]|] eqn:E2; [|discriminate].
    intros H; injection H as <- _ _. eapply IH; [|exact E2]. eapply tie_wf_loop; eauto.
Qed.

Theorem source_timeline : forall p es ch pm ns self out,
  wf_queue p es = true -> oracle_ok p pm -> forallb (fun n => 0 <=? n) ns = true ->
  g_pops (mk (qinit p es ch pm) []) ns = GOk self out ->
  out = render es (added_of (o_ev self)) (sumZ ns) /\ q_samples (o_q self) = sumZ ns /\
  spacing_ok es (added_of (o_ev self)) = true.
Proof.
  intros p es ch pm ns self out Hwf Ho Hns Hg.
  pose proof (tie_pops ns (qinit p es ch pm) [] (tie_wf_init p es ch pm (wf_queue_policy _ _ Hwf) Ho)) as H.
  destruct (pops all_rep (qinit p es ch pm) ns) as [[[q' o'] ev]|] eqn:Ep.
  - rewrite H in Hg. injection Hg as <- <-. cbn [o_q o_ev mk app].
    exact (timeline p es ch pm ns q' o' ev Hwf Hns Ep).
  - destruct H as (x & s & H). rewrite H in Hg. discriminate.
Qed.

Theorem source_chunk_invariant : forall p es ch pm pre a b s0 o0 s1 o1,
  wf_queue p es = true -> forallb progress_entry es = true -> oracle_ok p pm ->
  forallb (fun n => 0 <=? n) (a :: b :: pre) = true ->
  g_pops (mk (qinit p es ch pm) []) pre = GOk s0 o0 ->
  g_pop_buffer (pop_fuel (o_q s0) (a + b)) s0 (a + b) true = GOk s1 o1 ->
  exists s2 o2, g_pops s0 [a; b] = GOk s2 o2 /\
    o1 = o2 /\ added_of (o_ev s1) = added_of (o_ev s2) /\ q_samples (o_q s1) = q_samples (o_q s2) /\
    q_empty (o_q s1) = q_empty (o_q s2) /\ map e_trials (q_data (o_q s1)) = map e_trials (q_data (o_q s2)).
Proof.
  intros p es ch pm pre a b s0 o0 s1 o1 Hwf Hpr Ho Hns Hg0 Hg1.
  pose proof (tie_wf_init p es ch pm (wf_queue_policy _ _ Hwf) Ho) as Hw0.
  pose proof (tie_pops pre (qinit p es ch pm) [] Hw0) as H0.
  destruct (pops all_rep (qinit p es ch pm) pre) as [[[q o0'] e0]|] eqn:Ep.
  2:{ destruct H0 as (x & s & H0). rewrite H0 in Hg0. discriminate. }
  rewrite H0 in Hg0. injection Hg0 as <- <-. cbn [app o_q mk] in *.
  pose proof (tie_wf_pops _ _ _ _ _ Hw0 Ep) as Hw.
  pose proof (tie_pop_buffer_ev (pop_fuel q (a + b)) q e0 (a + b) Hw) as H1.
  destruct (pop_loop (pop_fuel q (a + b)) all_rep q (a + b)) as [[[q1 o1'] e1]|] eqn:E1.
  2:{ destruct H1 as (x & s & H1). rewrite H1 in Hg1. discriminate. }
  rewrite H1 in Hg1. injection Hg1 as <- <-.
  destruct (chunk_invariant p es ch pm pre a b q o0' e0 q1 o1' e1 Hwf Hpr Hns Ep E1)
    as (q2 & o2 & e2 & Hp2 & C1 & C2 & C3 & C4 & C5).
  pose proof (tie_pops [a; b] q e0 Hw) as H2. rewrite Hp2 in H2.
  exists (mk q2 (e0 ++ e2)), o2. cbn [o_q o_ev mk]. rewrite !added_of_app, C2. repeat split; auto.
Qed.

Theorem source_never_stuck : forall p es ch pm ns,
  wf_queue p es = true -> forallb progress_entry es = true -> forallb (fun n => 0 <=? n) ns = true ->
  match p with
  | PRandom | PBlockedRandom => True
  | _ => exists self out, g_pops (mk (qinit p es ch pm) []) ns = GOk self out
  end.
Proof.
  intros p es ch pm ns Hwf Hpr Hns.
  pose proof (never_stuck p es ch pm ns Hwf Hpr Hns) as Hn.
  assert (Ho : p <> PBlockedRandom -> oracle_ok p pm) by (intros H1 H2; contradiction).
  destruct p as [|keep| | |gs]; auto;
    (match type of Ho with (?pp <> _ -> _) =>
       pose proof (tie_pops ns (qinit pp es ch pm) [] (tie_wf_init pp es ch pm (wf_queue_policy _ _ Hwf) (Ho ltac:(discriminate)))) as H
     end;
     destruct (pops all_rep (qinit _ es ch pm) ns) as [[[q' o'] ev]|]; [eauto|contradiction]).
Qed.

(* ---- 12. the hypotheses are needed ---- *)
Definition q_ex (p : policy) (o : list Z) (i : Z) (ip : list Z) : qstate :=
  set_state (qinit p [mk_entry 1 3 KArray [1] true; mk_entry 1 2 KGen [0] true] [] []) 
            [mk_entry 1 3 KArray [1] true; mk_entry 1 2 KGen [0] true] o i ip false [] [].

(* a negative request (never made by pop_buffer): `self._source[:samples]` counts from the end, the model returns nothing *)
Lemma tie_pop_step_refuted : exists q out, tie_wf q /\
  g__pop_buffer (mk q []) (-1) true = GOk (mk (set_src q (Some (0, 2, 3)) 0) []) out /\ out = [OWave 0 0; OWave 0 1] /\
  pop_step all_rep q (-1) = PBok (set_src q (Some (0, -1, 3)) 0) [] [].
Proof.
  exists (set_src (q_ex PFifo [0; 1] (-1) []) (Some (0, 0, 3)) 0). eexists. vm_compute. repeat split; reflexivity.
Qed.

(* interleaved, keep_complete_waveforms = False: a queued key without a stimulus dict is a KeyError in the source;
   the model reads 0 remaining trials and goes on to the next key *)
Lemma tie_next_key_refuted_keys : exists q k q1 s, q_pol q = PInter false /\ ~ keys_ok q /\
  next_key all_rep q = NKey k q1 /\ g_next_key (mk q []) = GRaise EKeyError s.
Proof.
  exists (q_ex (PInter false) [5; 0] (-1) []). do 3 eexists. split; [reflexivity|]. split.
  - unfold keys_ok. cbn. intros H. inversion H; subst. lia.
  - vm_compute. split; reflexivity.
Qed.

(* grouped with a negative group size: the cursor goes negative, the source indexes from the end, the model reports an error *)
Lemma tie_next_key_refuted_group : exists q k s, q_pol q = PGrouped (-2) /\
  next_key all_rep q = NError /\ g_next_key (mk q []) = GOk s k.
Proof. exists (q_ex (PGrouped (-2)) [0; 1] 0 []). do 2 eexists. vm_compute. repeat split; reflexivity. Qed.

(* blocked random with a negative index in the block *)
Lemma tie_next_key_refuted_perm : exists q k s, q_pol q = PBlockedRandom /\
  next_key all_rep q = NError /\ g_next_key (mk q []) = GOk s k.
Proof. exists (q_ex PBlockedRandom [0; 1] (-1) [-1]). do 2 eexists. vm_compute. repeat split; reflexivity. Qed.

(* grouped: a key of the group without a stimulus dict: the source raises KeyError, the model counts it as done *)
Lemma tie_decrement_key_refuted : exists q q2 s, q_pol q = PGrouped 2 /\ ~ keys_ok q /\
  decrement_key q 0 = Some q2 /\ g_decrement_key (mk q []) 0 1 = GRaise EKeyError s.
Proof.
  exists (q_ex (PGrouped 2) [0; 7] (-1) []). do 2 eexists. split; [reflexivity|]. split.
  - unfold keys_ok. cbn. intros H. inversion H as [|? ? _ H2]; subst. inversion H2; subst. lia.
  - vm_compute. split; reflexivity.
Qed.

(* ---- 13. the statements of coq/Props/C02.v ---- *)
Definition source_get_samples_stmt : Prop :=
  forall q ev n k a b, q_source q = Some (k, a, b) ->
    (0 <= n ->
     g__get_samples_waveform (mk q ev) n =
     GOk (mk (set_src q (if n >? b - a then None else Some (k, a + n, b)) (q_delay q)) ev)
         (zrange (fun i => OWave k i) a (if n >? b - a then b - a else n))) /\
    g__get_samples_generator (mk q ev) n =
    GOk (mk (set_src q (if a + Z.min (b - a) n >=? b then None else Some (k, a + Z.min (b - a) n, b)) (q_delay q)) ev)
        (zrange (fun i => OWave k i) a (Z.min (b - a) n)).
Lemma source_get_samples : source_get_samples_stmt.
Proof.
  intros q ev n k a b Hs. split; [intros Hn; now apply tie_get_samples_waveform|now apply tie_get_samples_generator].
Qed.

Lemma source_next_key : forall q ev0, tie_wf q -> nk_spec q ev0 (g_next_key (mk q ev0)) (next_key all_rep q).
Proof. exact tie_next_key. Qed.
Lemma source_decrement_key : forall q ev0 key e, dk_wf q -> znth (q_data q) key = Some e ->
  dk_spec q ev0 (g_decrement_key (mk q ev0) key 1) (decrement_key q key).
Proof. exact tie_decrement_key'. Qed.
Lemma source_next_trial : forall q ev0, tie_wf q ->
  nt_spec q ev0 (g_next_trial (mk q ev0) true) (next_trial all_rep q) /\
  nt_spec q ev0 (g_next_trial (mk q ev0) false) (next_trial_nd all_rep q).
Proof. intros q ev0 Hw. split; [now apply tie_next_trial|now apply tie_next_trial_nd]. Qed.
Lemma source_pop_step : forall q ev0 n, tie_wf q -> 0 <= n ->
  step_spec q ev0 (g__pop_buffer (mk q ev0) n true) (pop_step all_rep q n).
Proof. exact tie_pop_step. Qed.
Lemma source_pop_buffer_model : forall q n, tie_wf q ->
  obs_pop (g_pop_buffer (pop_fuel q n) (mk q []) n true) = pop_buffer all_rep q n.
Proof. intros q n Hw. unfold pop_buffer. now apply source_pop_buffer. Qed.
Lemma source_wf_kept : forall q n q' out ev, tie_wf q -> pop_buffer all_rep q n = Some (q', out, ev) -> tie_wf q'.
Proof. intros q n q' out ev Hw H. unfold pop_buffer in H. eapply tie_wf_loop; eauto. Qed.

Example source_ex :
  let es := [mk_entry 2 3 KArray [1] true; mk_entry 1 2 KGen [0] true] in
  wf_queue (PGrouped 2) es = true /\ forallb progress_entry es = true /\ oracle_ok (PGrouped 2) [] /\
  tie_wf (qinit (PGrouped 2) es [] []) /\
  match g_pops (mk (qinit (PGrouped 2) es [] []) []) [2; 5; 0; 9] with
  | GOk self out => eqb_list eqb_pairZ (added_of (o_ev self)) [(0, 0); (1, 4); (0, 6)] && (zlen out =? 16)
  | GRaise _ _ => false
  end = true.
Proof.
  cbn zeta. split; [reflexivity|]. split; [reflexivity|]. split; [intros H; discriminate|]. split.
  - apply tie_wf_init; [reflexivity|intros H; discriminate].
  - vm_compute. reflexivity.
Qed.

(* ---- 14. pop_buffer(n, decrement=False) against the model's pop_buffer_nd ---- *)
Lemma tie_pop_step_nd q ev0 n : tie_wf q -> 0 <= n ->
  step_spec q ev0 (g__pop_buffer (mk q ev0) n false) (pop_step_nd all_rep q n).
Proof.
  intros Hw Hn. unfold pop_step_nd, pop_step, g__pop_buffer. unfold f_paused, has_source, src_kind, f_source, f_delay. cbn [o_q mk].
  destruct (q_paused q).
  { rewrite np_zeros_nonneg by exact Hn. cbn [gtry step_spec]. now rewrite app_nil_r. }
  destruct (q_source q) as [[[k a] b]|] eqn:Es.
  - destruct (kind_of q k).
    + rewrite (tie_get_samples_waveform q ev0 n k a b Es Hn).
      destruct (n >? b - a); cbn [step_spec]; now rewrite app_nil_r.
    + rewrite (tie_get_samples_generator q ev0 n k a b Es).
      cbn [step_spec]. now rewrite app_nil_r.
  - destruct (q_delay q >? 0) eqn:Ed.
    + rewrite np_zeros_nonneg by lia. cbn [gtry step_spec]. rewrite app_nil_r.
      destruct q; fsimpl. subst. reflexivity.
    + cbn [negb]. pose proof (tie_next_trial_nd q ev0 Hw) as Ht.
      destruct (next_trial_nd all_rep q) as [q' e| |]; cbn [nt_spec step_spec] in *.
      * rewrite Ht. reflexivity.
      * rewrite Ht. reflexivity.
      * destruct Ht as (x & s & Ht & Hx). rewrite Ht. exists x, s. split; [reflexivity|exact Hx].
Qed.

Lemma tie_wf_next_trial_nd q q' e : tie_wf q -> next_trial_nd all_rep q = NTok q' e -> tie_wf q'.
Proof.
  intros Hw H. unfold next_trial_nd in H.
  destruct (next_key all_rep q) as [key q1| |] eqn:Hk; try discriminate.
  destruct (next_key_core _ _ _ _ Hk) as [(C1 & C2 & C3 & _) _].
  destruct (znth (q_data q1) key); [|discriminate]. destruct (next_delay _); [|discriminate].
  destruct (_ <? 0); [discriminate|]. injection H as <- _.
  unfold tie_wf in *. qsimpl. rewrite C1. destruct (q_pol q) as [|keep| | |gs] eqn:Ep; auto.
  - destruct keep; auto. unfold keys_ok in *. qsimpl. rewrite C3. unfold zlen. rewrite upd_entry_length, C2. exact Hw.
  - pose proof (next_key_perms q key q1 Ep Hw Hk) as [H1 H2]. split; qsimpl; assumption.
  - destruct Hw as [Hg Hk0]. split; auto. unfold keys_ok in *. qsimpl. rewrite C3. unfold zlen. rewrite upd_entry_length, C2. exact Hk0.
Qed.

Lemma tie_wf_step_nd q n q' out ev : tie_wf q -> pop_step_nd all_rep q n = PBok q' out ev -> tie_wf q'.
Proof.
  intros Hw. unfold pop_step_nd. destruct (q_paused q) eqn:Ep; [apply tie_wf_step; exact Hw|].
  destruct (q_source q) as [v|] eqn:Es; [apply tie_wf_step; exact Hw|].
  destruct (q_delay q >? 0); [apply tie_wf_step; exact Hw|].
  destruct (next_trial_nd all_rep q) as [q1 e| |] eqn:E; try discriminate.
  intros H; injection H as <- _ _. eapply tie_wf_next_trial_nd; eauto.
Qed.

Lemma tie_pop_loop_nd : forall fuel q ev0 n acc, tie_wf q ->
  loop_spec ev0 (concat acc) (g_pop_buffer_loop fuel (mk q ev0) n false acc) (pop_loop_nd fuel all_rep q n).
Proof.
  induction fuel as [|f IH]; intros q ev0 n acc Hw.
  - cbn [pop_loop_nd]. destruct (n <=? 0) eqn:E.
    + rewrite loop_exit by lia. cbn [loop_spec]. now rewrite !app_nil_r.
    + cbn [g_pop_buffer_loop]. destruct (n >? 0) eqn:E1; [|lia]. cbn [loop_spec]. eauto.
  - cbn [pop_loop_nd]. destruct (n <=? 0) eqn:E.
    + rewrite loop_exit by lia. cbn [loop_spec]. now rewrite !app_nil_r.
    + cbn [g_pop_buffer_loop]. destruct (n >? 0) eqn:E1; [|lia].
      pose proof (tie_pop_step_nd q ev0 n Hw ltac:(lia)) as Hs.
      destruct (pop_step_nd all_rep q n) as [q1 out ev| |] eqn:Eps; cbn [step_spec] in Hs.
      * rewrite Hs. cbn [gcatch]. rewrite add_samples_mk.
        pose proof (tie_wf_step_nd q n q1 out ev Hw Eps) as Hw1.
        assert (Hw2 : tie_wf (add_samples q1 (zlen out) false))
          by (eapply tie_wf_ext; [| | | | |exact Hw1]; reflexivity).
        pose proof (IH (add_samples q1 (zlen out) false) (ev0 ++ ev) (n - zlen out) (acc ++ [out]) Hw2) as Hi.
        destruct (pop_loop_nd f all_rep (add_samples q1 (zlen out) false) (n - zlen out)) as [[[q2 o2] e2]|];
          cbn [loop_spec] in *.
        -- rewrite Hi. rewrite concat_app. cbn [concat]. now rewrite app_nil_r, <- !app_assoc.
        -- exact Hi.
      * rewrite Hs. cbn [gcatch qexc_eqb]. rewrite np_zeros_nonneg by lia. cbn [gtry].
        rewrite loop_exit.
        2:{ rewrite zlen_repeat by lia. lia. }
        cbn [loop_spec]. rewrite concat_app. cbn [concat]. rewrite app_nil_r. f_equal.
        rewrite zlen_repeat by lia. destruct q; unfold add_samples; fsimpl. now rewrite orb_true_r.
      * destruct Hs as (x & s & Hs & Hx). rewrite Hs. cbn [gcatch]. rewrite qexc_eqb_empty by exact Hx.
        cbn [loop_spec]. eauto.
Qed.

Theorem source_pop_buffer_nd : forall fuel q n, tie_wf q ->
  obs_pop (g_pop_buffer fuel (mk q []) n false) = pop_loop_nd fuel all_rep q n.
Proof.
  intros fuel q n Hw. unfold g_pop_buffer. pose proof (tie_pop_loop_nd fuel q [] n [] Hw) as H.
  destruct (pop_loop_nd fuel all_rep q n) as [[[q' out] ev]|]; cbn [loop_spec concat app] in H.
  - rewrite H. reflexivity.
  - destruct H as (x & s & H). rewrite H. reflexivity.
Qed.

(* ---- 15. the view representation of ndarray sources (Queue/TieLib.v) against Common/PySlice ---- *)
Lemma adj_bound_range n b : 0 <= n -> 0 <= adj_bound n b <= n.
Proof. intros H. unfold adj_bound. destruct (b <? 0) eqn:E; lia. Qed.

Lemma skipn_zrange {A} (f : Z -> A) s n m : 0 <= m <= n ->
  skipn (Z.to_nat m) (zrange f s n) = zrange f (s + m) (n - m).
Proof.
  intros H. replace n with (m + (n - m)) at 1 by lia. rewrite Qzrange_app by lia.
  rewrite skipn_app. replace (Z.to_nat m - length (zrange f s m))%nat with O.
  2:{ unfold zrange. rewrite Qzr_length. lia. }
  rewrite skipn_all2; [reflexivity|]. unfold zrange. rewrite Qzr_length. lia.
Qed.

Lemma firstn_zrange {A} (f : Z -> A) s n m : 0 <= m <= n ->
  firstn (Z.to_nat m) (zrange f s n) = zrange f s m.
Proof.
  intros H. replace n with (m + (n - m)) at 1 by lia. rewrite Qzrange_app by lia.
  rewrite firstn_app. replace (Z.to_nat m - length (zrange f s m))%nat with O.
  2:{ unfold zrange. rewrite Qzr_length. lia. }
  cbn [firstn]. rewrite app_nil_r. apply firstn_all2. unfold zrange. rewrite Qzr_length. lia.
Qed.

(* slicing a view is slicing the samples (Common/PySlice), for every pair of bounds, present or omitted *)
Lemma view_slice_is_py_slice lo hi k a b : a <= b ->
  view_samples (view_slice lo hi (k, a, b)) = py_slice lo hi (view_samples (k, a, b)).
Proof.
  intros Hab. unfold view_slice, view_samples, py_slice.
  rewrite Qzlen_zrange by lia. set (n := b - a).
  assert (Hlo : 0 <= py_lo n lo <= n) by (unfold py_lo; destruct lo; [apply adj_bound_range|]; lia).
  assert (Hhi : 0 <= py_hi n hi <= n) by (unfold py_hi; destruct hi; [apply adj_bound_range|]; lia).
  rewrite skipn_zrange by lia.
  destruct (Z.le_ge_cases (py_lo n lo) (py_hi n hi)) as [H|H].
  - rewrite Z.max_r by lia. rewrite firstn_zrange by lia. f_equal. lia.
  - rewrite Z.max_l by lia. replace (Z.to_nat (py_hi n hi - py_lo n lo)) with O by lia.
    cbn [firstn]. apply Qzrange_nil. lia.
Qed.

Example view_slice_ex : view_samples (view_slice (Some 1) (Some (-1)) (7, 2, 6)) = [OWave 7 3; OWave 7 4].
Proof. reflexivity. Qed.

(* a "view" whose stop lies before its start is not an array: the equality fails there *)
Lemma view_slice_refuted : exists lo hi k a b, b < a /\
  view_samples (view_slice lo hi (k, a, b)) <> py_slice lo hi (view_samples (k, a, b)).
Proof. exists (Some 0), (Some (-1)), 0, 3, 1. split; [lia|]. vm_compute. discriminate. Qed.
