(* C04 translator tie: the pause / resume path of psiaudio/queue.py - _ends_after, rewind_samples, cancel, requeue (base
   class and the interleaved override, dispatched as the class hierarchy says), pause, resume - as regenerated in
   gen/QueueStepGen.v, against `pause` / `resume` of Queue/Model.v with every repair on (all_rep, incl. the atomic
   rejection of a pause time after the clock), and the C04 theorems restated over histories run with the GENERATED
   pop_buffer / pause / resume.
   Hypothesis of the pause tie: every logged trial's key has its stimulus dict (log_keys_ok; part of the invariant `inv`
   of reachable states, Queue/ProofsC04Inv.v); it is needed (tie_pause_refuted).  Stdlib only, no axioms. *)
From Coq Require Import ZArith List Bool Lia ZifyBool.
From PV Require Import Queue.Model Queue.Spec Queue.LemmasC04 Queue.ProofsC04Inv Queue.ProofsC04.
From PV Require Import Queue.TieLib Queue.TieLibC04 gen.QueueStepGen Queue.ProofsTie.
Import ListNotations.
Open Scope Z_scope.

Definition removed_evs (t : Z) (l : list info) : list event :=
  map (fun i => ERemoved (i_key i) (i_t0 i)) (filter (fun i => ends_after i t) l).

(* ---- 0. collections.Counter: giving trials back per (key, count) item = one per occurrence ---- *)
Lemma zupd_comm {A} (f g : A -> A) : (forall x, f (g x) = g (f x)) ->
  forall l i j, zupd (zupd l i f) j g = zupd (zupd l j g) i f.
Proof.
  intros H. induction l as [|x l IH]; intros i j; [reflexivity|].
  destruct i, j; cbn [zupd]; try reflexivity.
  - now rewrite H.
  - now rewrite IH.
Qed.

Lemma zupd_merge {A} (f g : A -> A) : forall l i, zupd (zupd l i f) i g = zupd l i (fun x => g (f x)).
Proof. induction l as [|x l IH]; intros i; [reflexivity|]. destruct i; cbn [zupd]; [reflexivity|now rewrite IH]. Qed.

Lemma zupd_ext {A} (f g : A -> A) : (forall x, f x = g x) -> forall l i, zupd l i f = zupd l i g.
Proof. intros H. induction l as [|x l IH]; intros i; [reflexivity|]. destruct i; cbn [zupd]; [now rewrite H|now rewrite IH]. Qed.

Lemma add_trials_add n m e : add_trials m (add_trials n e) = add_trials (n + m) e.
Proof. destruct e; unfold add_trials; cbn. f_equal. lia. Qed.

Lemma upd_add_comm d a n b m :
  upd_entry (upd_entry d a (add_trials n)) b (add_trials m) = upd_entry (upd_entry d b (add_trials m)) a (add_trials n).
Proof.
  unfold upd_entry. destruct (a <? 0), (b <? 0); try reflexivity.
  apply zupd_comm. intros x. rewrite !add_trials_add. f_equal. lia.
Qed.

Lemma upd_add_merge d k n m : upd_entry (upd_entry d k (add_trials n)) k (add_trials m) = upd_entry d k (add_trials (n + m)).
Proof.
  unfold upd_entry. destruct (k <? 0); [reflexivity|]. rewrite zupd_merge. apply zupd_ext. intros x. apply add_trials_add.
Qed.

Definition counter_apply (c : list (Z * Z)) (d : list entry) : list entry :=
  fold_left (fun d kc => upd_entry d (fst kc) (add_trials (snd kc))) c d.

Lemma counter_apply_upd c : forall d k n,
  counter_apply c (upd_entry d k (add_trials n)) = upd_entry (counter_apply c d) k (add_trials n).
Proof.
  induction c as [|[k' n'] c IH]; intros d k n; [reflexivity|].
  unfold counter_apply in *. cbn [fold_left fst snd]. rewrite upd_add_comm. apply IH.
Qed.

Lemma counter_apply_add k : forall c d, counter_apply (counter_add k c) d = upd_entry (counter_apply c d) k (add_trials 1).
Proof.
  induction c as [|[k' n] c IH]; intros d; [reflexivity|]. cbn [counter_add].
  destruct (k =? k') eqn:E.
  - assert (k = k') by lia. subst k'. unfold counter_apply. cbn [fold_left fst snd].
    rewrite <- upd_add_merge. apply counter_apply_upd.
  - unfold counter_apply in *. cbn [fold_left fst snd]. apply IH.
Qed.

Lemma counter_apply_fold l : forall c d,
  counter_apply (fold_left (fun c k => counter_add k c) l c) d
  = fold_left (fun d k => upd_entry d k (add_trials 1)) l (counter_apply c d).
Proof.
  induction l as [|a l IH]; intros c d; [reflexivity|]. cbn [fold_left]. rewrite IH, counter_apply_add. reflexivity.
Qed.

(* giving the trials back per Counter item is giving one back per occurrence *)
Lemma py_counter_apply l d : counter_apply (py_counter l) d = fold_left (fun d k => upd_entry d k (add_trials 1)) l d.
Proof. unfold py_counter. now rewrite counter_apply_fold. Qed.

Lemma counter_add_keys k c kc : In kc (counter_add k c) -> fst kc = k \/ exists kc', In kc' c /\ fst kc' = fst kc.
Proof.
  induction c as [|[k' n] c IH]; cbn [counter_add In].
  - intros [<-|[]]. now left.
  - destruct (k =? k') eqn:E; cbn [In].
    + intros [<-|H]; [right; exists (k', n); cbn; auto|right; exists kc; auto].
    + intros [<-|H]; [right; exists (k', n); cbn; auto|].
      destruct (IH H) as [H1|(kc' & H1 & H2)]; [now left|right; exists kc'; auto].
Qed.

Lemma py_counter_keys l kc : In kc (py_counter l) -> In (fst kc) l.
Proof.
  unfold py_counter. assert (H : forall l c, In kc (fold_left (fun c k => counter_add k c) l c) ->
                                 In (fst kc) l \/ exists kc', In kc' c /\ fst kc' = fst kc).
  { induction l0 as [|a l0 IH]; intros c Hin; cbn [fold_left] in Hin.
    - right. exists kc. auto.
    - destruct (IH _ Hin) as [H1|(kc' & H1 & H2)]; [left; now right|].
      destruct (counter_add_keys _ _ _ H1) as [H3|(kc2 & H3 & H4)].
      + left. left. congruence.
      + right. exists kc2. split; [auto|congruence]. }
  intros Hin. destruct (H l [] Hin) as [H1|(kc' & [] & _)]. exact H1.
Qed.

(* ---- 1. the pieces, on any object ---- *)
Lemma tie_ends_after self i t : g__ends_after self i t = GOk self (ends_after i t).
Proof. reflexivity. Qed.

Lemma tie_rewind_ok self t check : (check && (t >? f_samples self)) = false ->
  g_rewind_samples self t check = GOk (set_samples self t) tt.
Proof. intros H. unfold g_rewind_samples. rewrite H. reflexivity. Qed.

Definition add_ev (self : obj) (ev : list event) : obj := {| o_q := o_q self; o_ev := o_ev self ++ ev |}.

Lemma tie_cancel self t dl :
  g_cancel self t dl = GOk (set_delay (set_source (add_ev self (removed_evs t (rev (f_generated self)))) None) dl) tt.
Proof.
  unfold g_cancel.
  match goal with |- context[gfoldl ?f _ _ _] => set (F := f) end.
  assert (H : forall l s, gfoldl F l s tt = GOk (add_ev s (removed_evs t l)) tt).
  { induction l as [|x l IH]; intros s; cbn [gfoldl].
    - unfold add_ev, removed_evs. cbn [filter map]. rewrite app_nil_r. destruct s; reflexivity.
    - unfold F at 1. rewrite tie_ends_after. cbn [gbind]. unfold removed_evs. cbn [filter].
      destruct (ends_after x t); cbn [map].
      + rewrite IH. unfold add_ev, notify, removed_evs. cbn [o_q o_ev]. now rewrite <- app_assoc.
      + apply IH. }
  rewrite H. reflexivity.
Qed.

Definition log_keys_in (self : obj) : Prop :=
  Forall (fun i => 0 <= i_key i < zlen (f_data self)) (f_generated self).

Lemma set_ordering_id self : set_ordering self (f_ordering self) = self.
Proof. destruct self as [q ev]; destruct q; reflexivity. Qed.
Lemma set_data_id self : set_data self (f_data self) = self.
Proof. destruct self as [q ev]; destruct q; reflexivity. Qed.

Lemma tie_requeue_base self t : log_keys_in self ->
  let l := map i_key (filter i_dec (filter (fun i => ends_after i t) (rev (f_generated self)))) in
  g_AbstractSignalQueue_requeue self t =
  GOk (let s1 := set_ordering self (requeue_ord l (f_ordering self)) in
       let s2 := set_data s1 (fold_left (fun d k => upd_entry d k (add_trials 1)) l (f_data self)) in
       match l with [] => s2 | _ => set_empty s2 false end) tt.
Proof.
  intros Hk l. unfold g_AbstractSignalQueue_requeue.
  (* first loop: which keys get a trial back *)
  match goal with |- context[gfoldl ?f (rev (f_generated self)) self _] => set (F1 := f) end.
  assert (H1 : forall li s acc, gfoldl F1 li s acc =
                 GOk s (acc ++ map i_key (filter i_dec (filter (fun i => ends_after i t) li)))).
  { induction li as [|x li IH]; intros s acc; cbn [gfoldl filter map].
    - now rewrite app_nil_r.
    - unfold F1 at 1. rewrite tie_ends_after. cbn [gbind].
      destruct (ends_after x t); cbn [negb filter].
      + destruct (i_dec x); cbn [map].
        * rewrite IH. now rewrite <- app_assoc.
        * apply IH.
      + apply IH. }
  rewrite H1. cbn [gbind app]. fold l.
  (* second loop: keys no longer queued are put in front *)
  match goal with |- context[gfoldl ?f l self tt] => set (F2 := f) end.
  assert (H2 : forall lk s, gfoldl F2 lk s tt = GOk (set_ordering s (requeue_ord lk (f_ordering s))) tt).
  { induction lk as [|k lk IH]; intros s; cbn [gfoldl].
    - unfold requeue_ord. cbn [fold_left]. now rewrite set_ordering_id.
    - unfold F2 at 1. unfold requeue_ord. cbn [fold_left]. destruct (memZ k (f_ordering s)); cbn [negb].
      + apply IH.
      + rewrite IH. destruct s as [q ev]; destruct q; reflexivity. }
  rewrite H2. cbn [gbind].
  (* third loop: the trials given back, per item of Counter(to_requeue) *)
  match goal with |- context[gfoldl ?f (py_counter l) ?s0 tt] => set (F3 := f); set (S0 := s0) end.
  assert (H3 : forall c s, Forall (fun kc => 0 <= fst kc < zlen (f_data s)) c ->
                 gfoldl F3 c s tt = GOk (set_data s (counter_apply c (f_data s))) tt).
  { induction c as [|[k n] c IH]; intros s Hf; cbn [gfoldl].
    - unfold counter_apply. cbn [fold_left]. now rewrite set_data_id.
    - inversion Hf as [|? ? Hk0 Hf']; subst. cbn [fst snd] in Hk0. unfold F3 at 1. cbn [fst snd]. unfold lookup.
      destruct (proj2 (znth_valid (f_data s) k) Hk0) as [e He]. rewrite He. cbn [gtry].
      rewrite IH.
      + unfold counter_apply. cbn [fold_left fst snd]. destruct s as [q ev]; destruct q; reflexivity.
      + replace (zlen (f_data (set_data s (upd_entry (f_data s) k (add_trials n))))) with (zlen (f_data s)); [exact Hf'|].
        destruct s as [q ev]; destruct q; cbn. now rewrite zlen_upd_entry. }
  rewrite H3.
  2:{ subst S0. replace (zlen (f_data (set_ordering self (requeue_ord l (f_ordering self))))) with (zlen (f_data self))
        by (destruct self as [q ev]; destruct q; reflexivity).
      unfold log_keys_in in Hk. rewrite Forall_forall in *. intros kc Hkc. apply py_counter_keys in Hkc.
      unfold l in Hkc. apply in_map_iff in Hkc. destruct Hkc as (i & Hi0 & Hi). rewrite <- Hi0.
      apply filter_In in Hi. destruct Hi as [Hi _].
      apply filter_In in Hi. destruct Hi as [Hi _]. apply Hk. now apply in_rev. }
  rewrite py_counter_apply.
  cbn [gbind]. subst S0.
  replace (f_data (set_ordering self (requeue_ord l (f_ordering self)))) with (f_data self)
    by (destruct self as [q ev]; destruct q; reflexivity).
  destruct l as [|k0 l0]; [reflexivity|]. rewrite zlen_cons.
  assert (E : (1 + zlen l0 =? 0) = false) by (pose proof (zlen_nonneg l0); lia). rewrite E. reflexivity.
Qed.

Lemma tie_filter_log self t l :
  gfilter (fun self i => gbind (g__ends_after self i t) (fun self r => GOk self (negb r))) l self
  = GOk self (filter (fun i => negb (ends_after i t)) l).
Proof.
  induction l as [|x l IH]; cbn [gfilter filter]; [reflexivity|].
  rewrite tie_ends_after. cbn [gbind]. rewrite IH. reflexivity.
Qed.

(* ---- 2. pause and resume against the model ---- *)
Definition log_keys_ok (q : qstate) : Prop := Forall (fun i => 0 <= i_key i < zlen (q_data q)) (q_generated q).

Theorem tie_pause_accepted q ev t : log_keys_ok q -> t <= q_samples q ->
  g_pause (mk q ev) (Some t) = GOk (mk (pause_state q t) (ev ++ removed_evs t (rev (q_generated q)))) tt.
Proof.
  intros Hk Ht. unfold g_pause. unfold f_samples at 1. cbn [o_q mk].
  assert (E : t >? q_samples q = false) by lia. rewrite E.
  rewrite tie_cancel. cbn [gbind].
  set (s1 := set_delay _ 0).
  assert (Hs1 : log_keys_in s1) by (destruct q; exact Hk).
  assert (Hgen : f_generated s1 = q_generated q) by (destruct q; reflexivity).
  assert (Hpol : f_pol s1 = q_pol q) by (destruct q; reflexivity).
  unfold g_requeue. rewrite Hpol.
  pose proof (tie_requeue_base s1 t Hs1) as HR. cbn zeta in HR. rewrite Hgen in HR.
  fold (pause_requeue q t) in HR.
  assert (Hrw : forall s, f_samples s = q_samples q -> g_rewind_samples s t true = GOk (set_samples s t) tt).
  { intros s Hs. apply tie_rewind_ok. rewrite Hs. lia. }
  unfold pause_state.
  destruct (q_pol q) eqn:Ep;
    try unfold g_InterleavedFIFOSignalQueue_requeue; rewrite HR; cbn [gbind]; rewrite tie_filter_log; cbn [gbind];
    (rewrite Hrw; [|destruct (pause_requeue q t); destruct q; reflexivity]); cbn [gbind];
    subst s1; destruct (pause_requeue q t) eqn:El; destruct q; cbn in Ep; subst; reflexivity.
Qed.

Theorem tie_pause_rejected q ev t : q_samples q < t ->
  g_pause (mk q ev) (Some t) = GRaise EValueError (mk q ev).
Proof.
  intros Ht. unfold g_pause. unfold f_samples at 1. cbn [o_q mk].
  assert (E : t >? q_samples q = true) by lia. now rewrite E.
Qed.

Theorem tie_pause_untimed q ev : g_pause (mk q ev) None = GOk (mk (fst (fst (pause all_rep q None))) ev) tt.
Proof. destruct q; reflexivity. Qed.

Theorem tie_resume q ev t : g_resume (mk q ev) t = GOk (mk (resume q t) ev) tt.
Proof.
  destruct t as [t|]; unfold g_resume.
  - rewrite tie_rewind_ok by reflexivity. destruct q; reflexivity.
  - destruct q; reflexivity.
Qed.

(* the whole of pause(t) in one statement: what the model's pause answers (state, removed notifications, rejected?) *)
Theorem tie_pause q ev t : log_keys_ok q ->
  g_pause (mk q ev) t =
  let '(q', evs, err) := pause all_rep q t in
  if err then GRaise EValueError (mk q ev) else GOk (mk q' (ev ++ evs)) tt.
Proof.
  intros Hk. destruct t as [t|].
  - destruct (Z_le_dec t (q_samples q)) as [Ht|Ht].
    + rewrite (pause_all_rep q t Ht). now apply tie_pause_accepted.
    + rewrite tie_pause_rejected by lia. unfold pause. cbn [r_pause_atomic all_rep andb].
      assert (E : t >? q_samples q = true) by lia. now rewrite E.
  - rewrite tie_pause_untimed. cbn [pause fst]. now rewrite app_nil_r.
Qed.

(* the hypothesis is needed: a logged, decrementing trial whose key has no stimulus dict - the source raises KeyError
   (after the removed notification, the queue already paused and its source dropped), the model gives nobody a trial back *)
Lemma tie_pause_refuted : exists q s q' evs, ~ log_keys_ok q /\
  g_pause (mk q []) (Some 0) = GRaise EKeyError s /\ pause all_rep q (Some 0) = (q', evs, false).
Proof.
  exists (set_pause (q_ex PFifo [0; 1] (-1) []) (q_data (q_ex PFifo [0; 1] (-1) [])) [0; 1] None 0 4 false false
                    [{| i_t0 := 0; i_dur := 3; i_key := 5; i_dec := true |}] false).
  do 3 eexists. split.
  - unfold log_keys_ok. cbn. intros H. inversion H as [|? ? H1 _]; subst. cbn in H1. lia.
  - vm_compute. split; reflexivity.
Qed.

(* ---- 3. the invariant across pause / resume ---- *)
Lemma inv_log_keys_ok p es q ev : inv p es q ev -> log_keys_ok q.
Proof.
  intros I. unfold log_keys_ok. rewrite (inv_len _ _ _ _ I). pose proof (inv_log _ _ _ _ I) as H.
  rewrite Forall_forall in *. intros i Hi. apply H in Hi. tauto.
Qed.

Lemma tie_wf_pause_state q t : log_keys_ok q -> tie_wf q -> tie_wf (pause_state q t).
Proof.
  intros Hl Hw.
  assert (Hk : keys_ok q -> keys_ok (pause_state q t)).
  { unfold keys_ok, pause_state. cbn [q_data q_ordering set_pause]. rewrite zlen_fold_requeue.
    rewrite !Forall_forall. intros Hk k Hin. apply In_requeue_ord in Hin. destruct Hin as [Hin|Hin]; [|now apply Hk].
    unfold pause_requeue in Hin. apply in_map_iff in Hin. destruct Hin as (i & <- & Hi).
    apply filter_In in Hi. destruct Hi as [Hi _]. apply filter_In in Hi. destruct Hi as [Hi _].
    unfold log_keys_ok in Hl. rewrite Forall_forall in Hl. apply Hl. now apply in_rev. }
  unfold tie_wf in *. change (q_pol (pause_state q t)) with (q_pol q).
  destruct (q_pol q) as [|keep| | |gs]; auto.
  - destruct keep; auto.
  - destruct Hw; split; auto.
Qed.

(* ---- 4. histories run with the GENERATED pop_buffer / pause / resume ---- *)
Fixpoint g_hist (self : obj) (ops : list qop) : option obj :=
  match ops with
  | [] => Some self
  | Pop n :: t =>
    match g_pop_buffer (pop_fuel (o_q self) n) self n true with GOk s _ => g_hist s t | GRaise _ _ => None end
  | Pause tm :: t => match g_pause self tm with GOk s _ => g_hist s t | GRaise _ _ => None end
  | Resume tm :: t => match g_resume self tm with GOk s _ => g_hist s t | GRaise _ _ => None end
  end.

Lemma tie_hist p es : forall ops q ev0 evI, inv p es q evI -> tie_wf q ->
  g_hist (mk q ev0) ops =
  match run_hist all_rep q ops with Some (q', ev) => Some (mk q' (ev0 ++ ev)) | None => None end.
Proof.
  induction ops as [|op ops IH]; intros q ev0 evI I Hw; cbn [run_hist g_hist].
  - now rewrite app_nil_r.
  - destruct op as [n|tm|tm].
    + cbn [o_q mk]. pose proof (tie_pop_buffer_ev (pop_fuel q n) q ev0 n Hw) as H1. unfold pop_buffer.
      destruct (pop_loop (pop_fuel q n) all_rep q n) as [[[q1 o1] e1]|] eqn:PB.
      * rewrite H1. rewrite (IH q1 (ev0 ++ e1) (evI ++ e1)).
        -- destruct (run_hist all_rep q1 ops) as [[q2 e2]|]; [now rewrite app_assoc|reflexivity].
        -- eapply pop_loop_inv; eauto.
        -- eapply tie_wf_loop; eauto.
      * destruct H1 as (x & s & H1). rewrite H1. reflexivity.
    + pose proof (inv_log_keys_ok _ _ _ _ I) as Hl. rewrite (tie_pause q ev0 tm Hl).
      destruct tm as [t|].
      * destruct (Z_le_dec t (q_samples q)) as [Ht|Ht].
        -- rewrite (pause_all_rep q t Ht).
           rewrite (IH (pause_state q t) _ _ (inv_pause p es q evI t I) (tie_wf_pause_state q t Hl Hw)).
           destruct (run_hist all_rep (pause_state q t) ops) as [[q2 e2]|]; [now rewrite app_assoc|reflexivity].
        -- unfold pause. cbn [r_pause_atomic all_rep andb]. assert (E : t >? q_samples q = true) by lia.
           rewrite E. reflexivity.
      * pose proof (inv_pause_none p es all_rep q evI I) as IP. cbn [pause fst] in *.
        rewrite (IH _ _ _ IP).
        -- rewrite app_nil_r. destruct (run_hist all_rep _ ops) as [[q2 e2]|]; reflexivity.
        -- eapply tie_wf_ext; [| | | | |exact Hw]; reflexivity.
    + rewrite tie_resume. rewrite (IH (resume q tm) ev0 evI (inv_resume p es q evI tm I)).
      * destruct (run_hist all_rep (resume q tm) ops) as [[q2 e2]|]; reflexivity.
      * eapply tie_wf_ext; [| | | | |exact Hw]; reflexivity.
Qed.

Theorem source_hist_is_model_hist : forall p es ch pm ops self,
  wf_queue p es = true -> oracle_ok p pm ->
  g_hist (mk (qinit p es ch pm) []) ops = Some self ->
  run_hist all_rep (qinit p es ch pm) ops = Some (o_q self, o_ev self).
Proof.
  intros p es ch pm ops self W Ho H.
  rewrite (tie_hist p es ops (qinit p es ch pm) [] [] (inv_init p es ch pm W)
                    (tie_wf_init p es ch pm (wf_queue_policy _ _ W) Ho)) in H.
  destruct (run_hist all_rep (qinit p es ch pm) ops) as [[q' ev]|]; [|discriminate].
  injection H as <-. reflexivity.
Qed.

(* ---- 5. the C04 theorems over generated histories ---- *)
Theorem source_conservation : forall p es ch pm ops self,
  wf_queue p es = true -> oracle_ok p pm -> wf_hist all_rep (qinit p es ch pm) ops = true ->
  g_hist (mk (qinit p es ch pm) []) ops = Some self ->
  (forall k t0, zlen (filter (eqb_pairZ (k, t0)) (live_of (o_q self))) =
                zlen (filter (eqb_pairZ (k, t0)) (added_of (o_ev self)))
                - zlen (filter (eqb_pairZ (k, t0)) (removed_of (o_ev self)))) /\
  (forall k e, znth es k = Some e -> trials_of (q_data (o_q self)) k + net_presented k (o_ev self) = e_requested e).
Proof.
  intros p es ch pm ops self W Ho Hh H.
  exact (conservation p es ch pm ops (o_q self) (o_ev self) W Hh (source_hist_is_model_hist _ _ _ _ _ _ W Ho H)).
Qed.

Theorem source_at_empty : forall p es ch pm ops self,
  wf_queue p es = true -> oracle_ok p pm -> wf_hist all_rep (qinit p es ch pm) ops = true ->
  g_hist (mk (qinit p es ch pm) []) ops = Some self -> q_empty (o_q self) = true ->
  forall k e, znth es k = Some e ->
    if exact_policy p then net_presented k (o_ev self) = e_requested e else e_requested e <= net_presented k (o_ev self).
Proof.
  intros p es ch pm ops self W Ho Hh H He.
  exact (at_empty p es ch pm ops (o_q self) (o_ev self) W Hh (source_hist_is_model_hist _ _ _ _ _ _ W Ho H) He).
Qed.

Theorem source_pause_exact : forall p es ch pm ops self t,
  wf_queue p es = true -> oracle_ok p pm -> wf_hist all_rep (qinit p es ch pm) ops = true ->
  g_hist (mk (qinit p es ch pm) []) ops = Some self -> 0 <= t <= q_samples (o_q self) ->
  exists self', g_pause self (Some t) = GOk self' tt /\
    o_ev self' = o_ev self ++ map (fun i => ERemoved (i_key i) (i_t0 i))
                                  (filter (fun i => ends_after i t) (rev (q_generated (o_q self)))) /\
    q_generated (o_q self') = filter (fun i => negb (ends_after i t)) (q_generated (o_q self)) /\
    q_samples (o_q self') = t /\ q_paused (o_q self') = true /\ q_source (o_q self') = None /\ q_delay (o_q self') = 0 /\
    (forall k, trials_of (q_data (o_q self')) k =
               trials_of (q_data (o_q self)) k +
               countZ k (map i_key (filter i_dec (filter (fun i => ends_after i t) (q_generated (o_q self)))))).
Proof.
  intros p es ch pm ops self t W Ho Hh H Ht.
  pose proof (source_hist_is_model_hist _ _ _ _ _ _ W Ho H) as RH.
  pose proof (reachable_inv _ _ _ _ _ _ _ W RH) as I.
  destruct (pause all_rep (o_q self) (Some t)) as [[q' ev] err] eqn:EP.
  destruct (pause_exact p es ch pm ops (o_q self) (o_ev self) t q' ev err W Hh RH Ht EP)
    as (-> & -> & P3 & P4 & P5 & P6 & P7 & P8).
  exists (mk q' (o_ev self ++ map (fun i => ERemoved (i_key i) (i_t0 i))
                                  (filter (fun i => ends_after i t) (rev (q_generated (o_q self)))))).
  cbn [o_q o_ev mk]. repeat split; auto.
  destruct self as [q ev0]. cbn [o_q o_ev] in *.
  change {| o_q := q; o_ev := ev0 |} with (mk q ev0).
  rewrite (tie_pause q ev0 (Some t) (inv_log_keys_ok _ _ _ _ I)), EP. reflexivity.
Qed.

(* a pause time after the clock: ValueError and the object untouched - in ANY state *)
Theorem source_future_pause_rejected : forall self t,
  q_samples (o_q self) < t -> g_pause self (Some t) = GRaise EValueError self.
Proof. intros [q ev] t Ht. now apply (tie_pause_rejected q ev t). Qed.

Example source_c04_ex :
  let es := [mk_entry 2 3 KArray [2] true; mk_entry 1 2 KGen [1] true] in
  let ops := [Pop 7; Pause (Some 4); Pop 3; Resume (Some 6); Pop 9; Pause (Some 8); Resume (Some 8); Pop 60] in
  wf_queue PFifo es = true /\ oracle_ok PFifo [] /\ wf_hist all_rep (qinit PFifo es [] []) ops = true /\
  match g_hist (mk (qinit PFifo es [] []) []) ops with
  | Some self => q_empty (o_q self) && (net_presented 0 (o_ev self) =? 2) && (net_presented 1 (o_ev self) =? 1)
  | None => false
  end = true.
Proof. cbn zeta. repeat split; try reflexivity. intros H; discriminate. Qed.
