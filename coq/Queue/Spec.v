(* Vocabulary of the C02 / C03 / C04 theorems about coq/Queue/Model.v (no proofs here). *)
From PV Require Export Queue.Model.

(* ---------- well-formed queues ---------- *)
Definition wf_entry (e : entry) : bool :=
  (1 <=? e_trials e) && (e_requested e =? e_trials e) && (0 <=? e_len e) && (e_dur e =? e_len e)
  && (e_dpos e =? 0) && e_cyclic e
  && match e_delays e with [] => false | _ => forallb (fun d => 0 <=? d) (e_delays e) end.
(* scalar (cycled) delays; per-trial delay lists are exercised by the correspondence only *)

Definition wf_policy (p : policy) (n : Z) : bool :=
  match p with PGrouped gs => 1 <=? gs | _ => true end.

Definition wf_queue (p : policy) (es : list entry) : bool :=
  (1 <=? zlen es) && forallb wf_entry es && wf_policy p (zlen es).

(* every trial occupies at least one sample (waveform or delay): excludes the degenerate stimuli on
   which a keep-completed policy would set up trial after trial without the clock advancing *)
Definition progress_entry (e : entry) : bool :=
  (1 <=? e_len e) || forallb (fun d => 1 <=? d) (e_delays e).

(* ---------- runs without pause ---------- *)
Fixpoint pops (R : qrep) (q : qstate) (ns : list Z) : option (qstate * list osample * list event) :=
  match ns with
  | [] => Some (q, [], [])
  | n :: t =>
    match pop_buffer R q n with
    | None => None
    | Some (q1, o1, e1) =>
      match pops R q1 t with
      | None => None
      | Some (q2, o2, e2) => Some (q2, o1 ++ o2, e1 ++ e2)
      end
    end
  end.

Definition added_of (ev : list event) : list (Z * Z) :=
  flat_map (fun e => match e with EAdded k t => [(k, t)] | _ => [] end) ev.
Definition removed_of (ev : list event) : list (Z * Z) :=
  flat_map (fun e => match e with ERemoved k t => [(k, t)] | _ => [] end) ev.
Definition keys_of (ev : list event) : list Z := map fst (added_of ev).

Definition len_of (d : list entry) (k : Z) : Z := match znth d k with Some e => e_len e | None => 0 end.
Definition delay_of (d : list entry) (k : Z) (nth_presentation : Z) : Z :=
  match znth d k with
  | Some e => match znth (e_delays e) (nth_presentation mod (Z.max 1 (zlen (e_delays e)))) with
              | Some x => x | None => 0 end
  | None => 0
  end.

(* the timeline the notifications describe: stimulus k from its notified start for its full length, zero elsewhere *)
Definition render_at (d : list entry) (added : list (Z * Z)) (p : Z) : osample :=
  match find (fun kt => (snd kt <=? p) && (p <? snd kt + len_of d (fst kt))) added with
  | Some (k, t0) => OWave k (p - t0)
  | None => OZero
  end.
Definition render (d : list entry) (added : list (Z * Z)) (n : Z) : list osample :=
  zrange (render_at d added) 0 n.

Definition countZ (k : Z) (l : list Z) : Z := zlen (filter (Z.eqb k) l).

(* consecutive trials are separated by exactly the delay chosen for the earlier one *)
Fixpoint spacing_from (d : list entry) (seen : list Z) (added : list (Z * Z)) : bool :=
  match added with
  | (k, t0) :: (((_, t1) :: _) as rest) =>
    (t1 =? t0 + len_of d k + delay_of d k (countZ k seen)) && spacing_from d (k :: seen) rest
  | _ => true
  end.
Definition spacing_ok (d : list entry) (added : list (Z * Z)) : bool := spacing_from d [] added.

Definition eqb_osample (a b : osample) : bool :=
  match a, b with
  | OZero, OZero => true
  | OWave k i, OWave k' i' => (k =? k') && (i =? i')
  | _, _ => false
  end.

(* ---------- policy orders (C03) ---------- *)
Definition requested_of (es : list entry) : list Z := map e_requested es.
Definition counts_of (n : Z) (keys : list Z) : list Z := zrange (fun k => countZ k keys) 0 n.

(* FIFO: stimulus 0 for all its trials, then stimulus 1, ... *)
Definition fifo_order (es : list entry) : list Z :=
  concat (zrange (fun k => repeat k (Z.to_nat (match znth es k with Some e => e_requested e | None => 0 end)))
                 0 (zlen es)).

(* round robin over n stimuli with remaining counts `left`; keep=false skips exhausted ones;
   stops the first moment nothing is left *)
Fixpoint rr_order (fuel : nat) (keep : bool) (n : Z) (i : Z) (left : list Z) : list Z :=
  match fuel with
  | O => []
  | S f =>
    if forallb (fun x => x <=? 0) left then []
    else
      let i' := (i + 1) mod n in
      let x := match znth left i' with Some x => x | None => 0 end in
      if keep || (0 <? x)
      then i' :: rr_order f keep n i' (zupd left (Z.to_nat i') (fun y => y - 1))
      else rr_order f keep n i' left
  end.
Definition inter_order (keep : bool) (es : list entry) : list Z :=
  let req := requested_of es in
  rr_order (Z.to_nat ((sumZ req + 1) * (zlen es + 1))) keep (zlen es) (-1) req.

(* a key sequence `satisfies and stops`: every count >= requested and before the last presentation
   some stimulus was still short *)
Definition satisfied (req : list Z) (keys : list Z) : bool :=
  forallb (fun kr => snd kr <=? countZ (fst kr) keys) (combine (zrange (fun k => k) 0 (zlen req)) req).
Definition stops_at_first_moment (req : list Z) (keys : list Z) : bool :=
  satisfied req keys && negb (satisfied req (removelast keys)).

(* grouped: the group index of the presented keys never decreases *)
Fixpoint nondecreasing (l : list Z) : bool :=
  match l with
  | a :: ((b :: _) as t) => (a <=? b) && nondecreasing t
  | _ => true
  end.
Definition groups_in_order (gs : Z) (keys : list Z) : bool := nondecreasing (map (fun k => k / gs) keys).

Definition is_perm_block (n : Z) (p : list Z) : bool :=
  (zlen p =? n) && forallb (fun k => countZ k p =? 1) (zrange (fun k => k) 0 n).

(* ---------- pause histories (C04) ---------- *)
Fixpoint run_hist (R : qrep) (q : qstate) (ops : list qop) : option (qstate * list event) :=
  match ops with
  | [] => Some (q, [])
  | Pop n :: t =>
    match pop_buffer R q n with
    | None => None
    | Some (q1, _, e1) =>
      match run_hist R q1 t with None => None | Some (q2, e2) => Some (q2, e1 ++ e2) end
    end
  | Pause tm :: t =>
    let '(q1, e1, err) := pause R q tm in
    if err then None
    else match run_hist R q1 t with None => None | Some (q2, e2) => Some (q2, e1 ++ e2) end
  | Resume tm :: t =>
    match run_hist R (resume q tm) t with None => None | Some (q2, e2) => Some (q2, e2) end
  end.

(* histories the property quantifies over: non-negative requests, pause times not after the clock
   (checked against the running clock), resume times >= 0 *)
Fixpoint wf_hist (R : qrep) (q : qstate) (ops : list qop) : bool :=
  match ops with
  | [] => true
  | Pop n :: t =>
    (0 <=? n) && match pop_buffer R q n with Some (q1, _, _) => wf_hist R q1 t | None => false end
  | Pause tm :: t =>
    match tm with Some x => (0 <=? x) && (x <=? q_samples q) | None => true end
    && (let '(q1, _, _) := pause R q tm in wf_hist R q1 t)
  | Resume tm :: t =>
    match tm with Some x => 0 <=? x | None => true end && wf_hist R (resume q tm) t
  end.

(* non-cancelled presentations of stimulus k in an event stream *)
Definition net_presented (k : Z) (ev : list event) : Z :=
  countZ k (map fst (added_of ev)) - countZ k (map fst (removed_of ev)).

Definition exact_policy (p : policy) : bool :=
  match p with PFifo | PRandom | PInter false => true | _ => false end.

Definition live_of (q : qstate) : list (Z * Z) := map (fun i => (i_key i, i_t0 i)) (q_generated q).

(* ---------- executable forms of the statements, evaluated on the correspondence cases ---------- *)
Definition timeline_test (p : policy) (es : list entry) (ch : list Z) (pm : list (list Z)) (ns : list Z) : bool :=
  negb (wf_queue p es && forallb (fun n => 0 <=? n) ns) ||
  match pops all_rep (qinit p es ch pm) ns with
  | None => true
  | Some (q, out, ev) =>
    eqb_list eqb_osample out (render es (added_of ev) (sumZ ns))
    && (q_samples q =? sumZ ns) && spacing_ok es (added_of ev)
  end.

Definition split_test (p : policy) (es : list entry) (ch : list Z) (pm : list (list Z)) (pre : list Z) (a b : Z) : bool :=
  negb (wf_queue p es && forallb (fun n => 0 <=? n) (a :: b :: pre)) ||
  match pops all_rep (qinit p es ch pm) pre with
  | None => true
  | Some (q, _, _) =>
    match pop_buffer all_rep q (a + b), pops all_rep q [a; b] with
    | Some (q1, o1, e1), Some (q2, o2, e2) =>
      eqb_list eqb_osample o1 o2 && eqb_list eqb_pairZ (added_of e1) (added_of e2)
      && (q_samples q1 =? q_samples q2) && Bool.eqb (q_empty q1) (q_empty q2)
      && eqb_listZ (map e_trials (q_data q1)) (map e_trials (q_data q2))
    | None, None => true
    | _, _ => false
    end
  end.

Definition conservation_test (p : policy) (es : list entry) (ch : list Z) (pm : list (list Z)) (ops : list qop) : bool :=
  let q0 := qinit p es ch pm in
  negb (wf_queue p es && wf_hist all_rep q0 ops) ||
  match run_hist all_rep q0 ops with
  | None => true
  | Some (q, ev) =>
    forallb (fun k => trials_of (q_data q) k + countZ k (map fst (live_of q))
                      =? match znth es k with Some e => e_requested e | None => 0 end)
            (zrange (fun k => k) 0 (zlen es))
    && forallb (fun k => net_presented k ev =? countZ k (map fst (live_of q))) (zrange (fun k => k) 0 (zlen es))
  end.

(* blocked random: the key sequence is the concatenation of the oracle's blocks, each read from its
   end (list.pop()), truncated *)
Definition blocks_order (pm : list (list Z)) : list Z := concat (map (@rev Z) pm).
Fixpoint is_prefix (a b : list Z) : bool :=
  match a, b with
  | [], _ => true
  | x :: a', y :: b' => (x =? y) && is_prefix a' b'
  | _, _ => false
  end.

Definition order_test (p : policy) (es : list entry) (ch : list Z) (pm : list (list Z)) (ns : list Z) : bool :=
  negb (wf_queue p es && forallb progress_entry es && forallb (fun n => 0 <=? n) ns) ||
  match pops all_rep (qinit p es ch pm) ns with
  | None => match p with PRandom | PBlockedRandom => true | _ => false end   (* only an exhausted oracle may stop a run *)
  | Some (q, out, ev) =>
    negb (q_empty q) ||
    let keys := keys_of ev in
    let req := requested_of es in
    (count_trials q =? 0) && (count_requested q =? sumZ req) &&
    match p with
    | PFifo => eqb_listZ keys (fifo_order es)
    | PInter keep => eqb_listZ keys (inter_order keep es)
                     && (if keep then stops_at_first_moment req keys else eqb_listZ (counts_of (zlen es) keys) req)
    | PRandom => eqb_listZ (counts_of (zlen es) keys) req
    | PBlockedRandom => stops_at_first_moment req keys && is_prefix keys (blocks_order pm)
    | PGrouped gs => stops_at_first_moment req keys && groups_in_order gs keys
    end
  end.

(* after the queue has reported empty: only silence, one empty notification per request, nothing remaining *)
Definition after_empty_test (p : policy) (es : list entry) (ch : list Z) (pm : list (list Z)) (ns : list Z) (n : Z) : bool :=
  negb (wf_queue p es && forallb (fun n => 0 <=? n) ns && (1 <=? n)) ||
  match pops all_rep (qinit p es ch pm) ns with
  | None => true
  | Some (q, _, _) =>
    negb (q_empty q) ||
    match pop_buffer all_rep q n with
    | Some (q', out, ev) =>
      eqb_list eqb_osample out (repeat OZero (Z.to_nat n))
      && match ev with [EEmpty] => true | _ => false end
      && q_empty q' && (count_trials q' =? 0) && (count_requested q' =? count_requested q)
    | None => false
    end
  end.
