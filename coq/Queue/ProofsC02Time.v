(* C02: the output of a no-pause run is the rendering of the "added" notifications. *)
From PV Require Import Queue.Model Queue.Spec Queue.LemmasC02.
From Coq Require Import ZArith List Bool Lia ZifyBool.
Import ListNotations.
Open Scope Z_scope.

(* ---------- countZ / spacing ---------- *)
Lemma countZ_nil k : countZ k [] = 0.
Proof. reflexivity. Qed.

Lemma countZ_cons k x l : countZ k (x :: l) = (if k =? x then 1 else 0) + countZ k l.
Proof.
  unfold countZ. cbn [filter]. destruct (k =? x); [rewrite zlen_cons; lia|lia].
Qed.

Lemma countZ_app k l1 l2 : countZ k (l1 ++ l2) = countZ k l1 + countZ k l2.
Proof. unfold countZ. rewrite filter_app, zlen_app. reflexivity. Qed.

Lemma spacing_snoc d : forall pre seen k0 t0 k t,
  spacing_from d seen (pre ++ [(k0, t0); (k, t)]) =
  spacing_from d seen (pre ++ [(k0, t0)]) &&
  (t =? t0 + len_of d k0 + delay_of d k0 (countZ k0 seen + countZ k0 (map fst pre))).
Proof.
  induction pre as [|[ka ta] pre IH]; intros seen k0 t0 k t.
  - cbn [app spacing_from map]. rewrite countZ_nil, Z.add_0_r, andb_true_r. reflexivity.
  - assert (Hc : countZ k0 seen + countZ k0 (map fst ((ka, ta) :: pre))
                 = countZ k0 (ka :: seen) + countZ k0 (map fst pre)).
    { cbn [map fst]. rewrite !countZ_cons. lia. }
    rewrite Hc. specialize (IH (ka :: seen) k0 t0 k t).
    destruct pre as [|[kb tb] pre']; cbn [app spacing_from] in *; rewrite IH, andb_assoc; reflexivity.
Qed.

Lemma list_last_cases {A} (l : list A) : l = [] \/ exists pre x, l = pre ++ [x].
Proof.
  destruct l as [|a l]; [now left|right]. destruct (@exists_last _ (a :: l)) as (pre & x & E); [discriminate|].
  eauto.
Qed.

(* ---------- render ---------- *)
Section RENDER.
Variable d : list entry.

Definition ends_by (T : Z) (kt : Z * Z) : Prop := snd kt + len_of d (fst kt) <= T.

Lemma ends_by_mono T T' l : T <= T' -> Forall (ends_by T) l -> Forall (ends_by T') l.
Proof. intros H. apply Forall_impl. unfold ends_by. intros; lia. Qed.

Lemma render_at_new added k t pp : pp < t -> render_at d (added ++ [(k, t)]) pp = render_at d added pp.
Proof.
  intros H. unfold render_at. rewrite Qfind_app. destruct (find _ added); [reflexivity|].
  cbn [find fst snd]. destruct (t <=? pp) eqn:E; [lia|reflexivity].
Qed.

Lemma render_at_playing pre k t0 pp : Forall (ends_by t0) pre -> t0 <= pp < t0 + len_of d k ->
  render_at d (pre ++ [(k, t0)]) pp = OWave k (pp - t0).
Proof.
  intros Hp H. unfold render_at. rewrite Qfind_app.
  rewrite (Qfind_none (fun kt : Z * Z => (snd kt <=? pp) && (pp <? snd kt + len_of d (fst kt))) pre).
  - cbn [find fst snd]. destruct ((t0 <=? pp) && (pp <? t0 + len_of d k)) eqn:E; [reflexivity|lia].
  - revert Hp. apply Forall_impl. unfold ends_by. intros [k' t'] H'. cbn [fst snd] in *.
    destruct (t' <=? pp); cbn [andb]; [|reflexivity]. destruct (pp <? t' + len_of d k') eqn:E; [lia|reflexivity].
Qed.

Lemma render_at_silent added T pp : Forall (ends_by T) added -> T <= pp -> render_at d added pp = OZero.
Proof.
  intros Hp H. unfold render_at.
  rewrite (Qfind_none (fun kt : Z * Z => (snd kt <=? pp) && (pp <? snd kt + len_of d (fst kt))) added); [reflexivity|].
  revert Hp. apply Forall_impl. unfold ends_by. intros [k' t'] H'. cbn [fst snd] in *.
  destruct (t' <=? pp); cbn [andb]; [|reflexivity]. destruct (pp <? t' + len_of d k') eqn:E; [lia|reflexivity].
Qed.

Lemma render_extend added T n : 0 <= T -> 0 <= n ->
  render d added (T + n) = render d added T ++ zrange (render_at d added) T n.
Proof. intros HT Hn. unfold render. rewrite Qzrange_app by lia. reflexivity. Qed.

Lemma render_silence added T n : 0 <= T -> 0 <= n -> Forall (ends_by T) added ->
  render d added (T + n) = render d added T ++ repeat OZero (Z.to_nat n).
Proof.
  intros HT Hn Hf. rewrite render_extend by lia. f_equal.
  rewrite (Qrepeat_zrange OZero T n). apply Qzrange_ext. intros k Hk.
  eapply render_at_silent; eauto. lia.
Qed.

Lemma render_play pre key t0 pos m T : Forall (ends_by t0) pre -> t0 + pos = T -> 0 <= pos ->
  pos + m <= len_of d key -> 0 <= m -> 0 <= T ->
  render d (pre ++ [(key, t0)]) (T + m) =
  render d (pre ++ [(key, t0)]) T ++ zrange (fun i => OWave key i) pos m.
Proof.
  intros Hf Ht Hp Hm Hm0 HT. rewrite render_extend by lia. f_equal.
  apply Qzrange_ext. intros k Hk. rewrite render_at_playing; auto; [|lia]. f_equal. lia.
Qed.

Lemma render_new added k T : render d (added ++ [(k, T)]) T = render d added T.
Proof.
  unfold render. apply Qzrange_ext. intros j Hj. apply render_at_new. lia.
Qed.

End RENDER.

(* ---------- the ghost invariant ---------- *)
Section TL.
Variable p : policy.
Variable es : list entry.
Hypothesis Hwf : wf_queue p es = true.
Notation Inv := (Inv p es).

Definition tsrc_ok (q : qstate) (added : list (Z * Z)) : Prop :=
  match q_source q with
  | Some (k, pos, len) =>
      exists pre t0, added = pre ++ [(k, t0)] /\ t0 + pos = q_samples q /\
                     q_delay q = delay_of es k (countZ k (map fst pre)) /\ Forall (ends_by es t0) pre
  | None =>
      Forall (ends_by es (q_samples q)) added /\
      (q_empty q = false -> forall pre k t0, added = pre ++ [(k, t0)] ->
         q_samples q + q_delay q = t0 + len_of es k + delay_of es k (countZ k (map fst pre)))
  end.

Record TI (q : qstate) (added : list (Z * Z)) : Prop := {
  t_clock : 0 <= q_samples q;
  t_spacing : spacing_ok es added = true;
  t_dpos : forall k e, znth (q_data q) k = Some e -> e_dpos e = countZ k (map fst added);
  t_empty : q_empty q = true -> is_empty_state q;
  t_src : tsrc_ok q added
}.

Lemma TI_init ch pm : TI (qinit p es ch pm) [].
Proof.
  destruct (wf_parts p es Hwf) as (_ & Hw & _).
  constructor; unfold tsrc_ok; cbn; try lia; auto; try discriminate.
  - intros k e He. pose proof (forallb_znth _ _ _ _ Hw He) as W. apply wf_entry_facts in W. tauto.
  - split; [constructor|]. intros _ pre k t0 E. destruct pre; discriminate.
Qed.

Lemma TI_play_end q added key pos len m : TI q added -> q_source q = Some (key, pos, len) ->
  len = len_of es key -> 0 <= pos -> pos + m = len -> 0 <= m ->
  TI (add_samples (set_src q None (q_delay q)) m false) added.
Proof.
  intros [C Sp Dp Em Sr] Es Hl Hp Hm Hm0. unfold tsrc_ok in Sr. rewrite Es in Sr.
  destruct Sr as (pre & t0 & Ha & Ht0 & Hdl & Hpre).
  constructor; unfold tsrc_ok; qsimpl; auto; try lia.
  - rewrite orb_false_r. exact Em.
  - split.
    + rewrite Ha. apply Forall_app. split.
      * eapply ends_by_mono; [|exact Hpre]. lia.
      * constructor; [|constructor]. unfold ends_by. cbn [fst snd]. lia.
    + intros _ pre' k' t0' E. rewrite Ha in E. apply app_inj_tail in E. destruct E as [<- E].
      injection E as <- <-. lia.
Qed.

Lemma TI_play_on q added key pos len m : TI q added -> q_source q = Some (key, pos, len) -> 0 <= m ->
  TI (add_samples (set_src q (Some (key, pos + m, len)) (q_delay q)) m false) added.
Proof.
  intros [C Sp Dp Em Sr] Es Hm0. unfold tsrc_ok in Sr. rewrite Es in Sr.
  destruct Sr as (pre & t0 & Ha & Ht0 & Hdl & Hpre).
  constructor; unfold tsrc_ok; qsimpl; auto; try lia.
  - rewrite orb_false_r. exact Em.
  - exists pre, t0. repeat split; auto. lia.
Qed.

Lemma TI_delay q added n : TI q added -> q_source q = None -> 0 <= n ->
  TI (add_samples (set_src q None (q_delay q - n)) n false) added.
Proof.
  intros [C Sp Dp Em Sr] Es Hn. unfold tsrc_ok in Sr. rewrite Es in Sr. destruct Sr as [Sr1 Sr2].
  constructor; unfold tsrc_ok; qsimpl; auto; try lia.
  - rewrite orb_false_r. exact Em.
  - split.
    + eapply ends_by_mono; [|exact Sr1]. lia.
    + rewrite orb_false_r. intros He pre k t0 E. specialize (Sr2 He pre k t0 E). lia.
Qed.

Lemma TI_empty q added n : TI q added -> q_source q = None -> is_empty_state q -> 0 <= n ->
  TI (add_samples q n true) added.
Proof.
  intros [C Sp Dp Em Sr] Es He Hn. unfold tsrc_ok in Sr. rewrite Es in Sr. destruct Sr as [Sr1 Sr2].
  constructor; unfold tsrc_ok; qsimpl; auto; try lia.
  rewrite Es. split.
  - eapply ends_by_mono; [|exact Sr1]. lia.
  - rewrite orb_true_r. discriminate.
Qed.

Lemma TI_trial q added q' ev : Inv q -> TI q added -> q_source q = None -> q_delay q <= 0 ->
  next_trial all_rep q = NTok q' ev ->
  exists key, ev = EAdded key (q_samples q) /\
              TI (add_samples q' 0 false) (added ++ [(key, q_samples q)]).
Proof.
  intros I [C Sp Dp Em Sr] Es Hd0 H.
  destruct (next_trial_ok _ _ _ _ H) as
    (key & e & dl & q1 & q2 & Hk & Hd & -> & He & Hdl & Hdl0 & F1 & F2 & F3 & F4 & F5 & F6 & F7 & F8 & F9).
  exists key. split; [reflexivity|].
  unfold tsrc_ok in Sr. rewrite Es in Sr. destruct Sr as [Sr1 Sr2].
  pose proof (inv_delay _ _ _ I) as Dl.
  assert (Hne : q_empty q = false).
  { destruct (q_empty q) eqn:E; [|reflexivity]. specialize (Em eq_refl).
    apply (next_key_empty all_rep eq_refl) in Em. rewrite Em in Hk. discriminate. }
  assert (Hst : map stat (upd_entry (q_data q) key (add_trials (-1))) = map stat es).
  { rewrite map_upd_entry; auto. apply (inv_stat _ _ _ I). }
  destruct (entry_facts p es Hwf _ _ _ Hst He) as (L1 & L2 & dl' & N1 & N2 & N3 & N4).
  assert (Hdd : dl' = dl) by (rewrite N1 in Hdl; injection Hdl; auto).
  rewrite znth_upd, Z.eqb_refl in He.
  destruct (znth (q_data q) key) as [e0|] eqn:E0; [|discriminate]. cbn [option_map] in He.
  injection He as <-. cbn [e_dpos add_trials] in N3. rewrite (Dp _ _ E0) in N3.
  clear H Hk Hd Hst N1 N4 Hdl.
  constructor; unfold tsrc_ok; qsimpl.
  - lia.
  - destruct (list_last_cases added) as [->|(pre & [k0 t0] & ->)]; [reflexivity|].
    rewrite <- app_assoc. cbn [app]. unfold spacing_ok in *. rewrite spacing_snoc, Sp. cbn [andb].
    specialize (Sr2 Hne pre k0 t0 eq_refl). rewrite countZ_nil. cbn [Z.add]. lia.
  - intros k e'. rewrite F2, !znth_upd. rewrite map_app, countZ_app. cbn [map fst]. rewrite countZ_cons, countZ_nil.
    destruct (k =? key) eqn:Ek.
    + assert (k = key) by lia. subst k. rewrite E0. cbn [option_map]. intros E. injection E as <-.
      cbn [e_dpos adv_delay add_trials]. rewrite (Dp _ _ E0). lia.
    + intros E. rewrite (Dp _ _ E). lia.
  - rewrite F7, orb_false_r, Hne. discriminate.
  - rewrite F3. exists added, (q_samples q). repeat split; auto.
    + rewrite F5. lia.
    + rewrite F4. lia.
Qed.

(* one successful step *)
Lemma tstep q added s q1 out ev : Inv q -> TI q added -> 0 < s ->
  pop_step all_rep q s = PBok q1 out ev ->
  TI (add_samples q1 (zlen out) false) (added ++ added_of ev) /\
  render es (added ++ added_of ev) (q_samples q + zlen out) = render es added (q_samples q) ++ out.
Proof.
  intros I T Hs H. pose proof (t_clock _ _ T) as C.
  unfold pop_step in H. rewrite (inv_paused _ _ _ I) in H.
  pose proof (inv_src _ _ _ I) as S. unfold src_ok in S. pose proof (inv_delay _ _ _ I) as Dl.
  pose proof (t_src _ _ T) as Sr. unfold tsrc_ok in Sr.
  destruct (q_source q) as [[[key pos] len]|] eqn:Es.
  - destruct S as (S1 & S2 & _). destruct Sr as (pre & t0 & Ha & Ht0 & Hdl & Hpre).
    destruct (kind_of q key).
    + destruct (s >? len - pos) eqn:E; injection H as <- <- <-; cbn [added_of flat_map]; rewrite app_nil_r;
        rewrite Qzlen_zrange by lia.
      * split; [eapply TI_play_end; eauto; lia|]. rewrite Ha. apply render_play; auto; lia.
      * split; [eapply TI_play_on; eauto; lia|]. rewrite Ha. apply render_play; auto; lia.
    + injection H as <- <- <-. cbn [added_of flat_map]. rewrite app_nil_r. rewrite Qzlen_zrange by lia.
      split; [|rewrite Ha; apply render_play; auto; lia].
      destruct (pos + Z.min (len - pos) s >=? len) eqn:E.
      * eapply TI_play_end; eauto; lia.
      * eapply TI_play_on; eauto; lia.
  - destruct Sr as [Sr1 Sr2]. destruct (q_delay q >? 0) eqn:E.
    + injection H as <- <- <-. cbn [added_of flat_map]. rewrite app_nil_r. rewrite zlen_repeat by lia.
      split; [apply TI_delay; auto; lia|]. apply render_silence; auto; lia.
    + destruct (next_trial all_rep q) as [q' ev'| |] eqn:En; try discriminate. injection H as <- <- <-.
      destruct (TI_trial _ _ _ _ I T Es ltac:(lia) En) as (key & -> & T').
      cbn [added_of flat_map app]. change (zlen (@nil osample)) with 0.
      split; [exact T'|]. rewrite Z.add_0_r, app_nil_r. apply render_new.
Qed.

Lemma step_empty_facts q s : Inv q -> pop_step all_rep q s = PBempty ->
  q_source q = None /\ is_empty_state q.
Proof.
  intros I H. unfold pop_step in H. rewrite (inv_paused _ _ _ I) in H.
  destruct (q_source q) as [[[key pos] len]|].
  { destruct (kind_of q key); [destruct (s >? len - pos)|]; discriminate. }
  destruct (q_delay q >? 0); [discriminate|].
  destruct (next_trial all_rep q) eqn:En; try discriminate.
  split; [reflexivity|]. now apply (next_trial_empty all_rep eq_refl).
Qed.

Lemma tloop f : forall q added s q2 o e, Inv q -> TI q added -> 0 <= s ->
  pop_loop f all_rep q s = Some (q2, o, e) ->
  TI q2 (added ++ added_of e) /\ q_samples q2 = q_samples q + s /\
  render es (added ++ added_of e) (q_samples q + s) = render es added (q_samples q) ++ o.
Proof.
  induction f as [|f IH]; intros q added s q2 o e I T Hs H.
  - destruct (Z.eq_dec s 0) as [->|Hne].
    + rewrite pop_loop_done in H by lia. injection H as <- <- <-.
      cbn [added_of flat_map]. rewrite !app_nil_r, Z.add_0_r. auto.
    + rewrite pop_loop_O in H by lia. discriminate.
  - destruct (Z.eq_dec s 0) as [->|Hne].
    + rewrite pop_loop_done in H by lia. injection H as <- <- <-.
      cbn [added_of flat_map]. rewrite !app_nil_r, Z.add_0_r. auto.
    + assert (Hs' : 0 < s) by lia. rewrite pop_loop_S in H by lia.
      destruct (pop_step all_rep q s) as [q1 out ev| |] eqn:Est; try discriminate.
      * destruct (pop_loop f all_rep _ _) as [[[q3 o3] e3]|] eqn:El; [|discriminate].
        injection H as <- <- <-.
        pose proof (step_len p es Hwf _ _ _ _ _ I Hs' Est) as L.
        destruct (tstep _ _ _ _ _ _ I T Hs' Est) as [T1 R1].
        assert (I1 : Inv (add_samples q1 (zlen out) false)).
        { apply Inv_add_samples. eapply Inv_step; eauto. }
        assert (Hs1 : 0 <= s - zlen out) by lia.
        destruct (IH _ _ _ _ _ _ I1 T1 Hs1 El) as (T2 & C2 & R2).
        qsimpl. rewrite added_of_app, app_assoc.
        replace (q_samples q1 + zlen out + (s - zlen out)) with (q_samples q1 + s) in * by lia.
        assert (Eq1 : q_samples q1 = q_samples q).
        { clear - I Est. unfold pop_step in Est. rewrite (inv_paused _ _ _ I) in Est.
          destruct (q_source q) as [[[key pos] len]|].
          - destruct (kind_of q key); [destruct (s >? len - pos)|]; injection Est as <- _ _; reflexivity.
          - destruct (q_delay q >? 0); [injection Est as <- _ _; reflexivity|].
            destruct (next_trial all_rep q) eqn:En; try discriminate. injection Est as <- _ _.
            destruct (next_trial_ok _ _ _ _ En) as
              (key & e & dl & q3 & q2 & _ & _ & _ & _ & _ & _ & _ & _ & _ & _ & F5 & _). exact F5. }
        rewrite Eq1 in *. split; [exact T2|]. split; [exact C2|].
        rewrite R2, R1, app_assoc. reflexivity.
      * injection H as <- <- <-. destruct (step_empty_facts _ _ I Est) as [Es He].
        cbn [added_of flat_map]. rewrite app_nil_r. qsimpl.
        split; [apply TI_empty; auto; lia|]. split; [reflexivity|].
        apply render_silence; try lia. apply (t_clock _ _ T).
        pose proof (t_src _ _ T) as Sr. unfold tsrc_ok in Sr. rewrite Es in Sr. tauto.
Qed.

Lemma tpops ns : forall q added q2 o e, Inv q -> TI q added ->
  forallb (fun n => 0 <=? n) ns = true -> pops all_rep q ns = Some (q2, o, e) ->
  TI q2 (added ++ added_of e) /\ q_samples q2 = q_samples q + sumZ ns /\
  render es (added ++ added_of e) (q_samples q + sumZ ns) = render es added (q_samples q) ++ o.
Proof.
  induction ns as [|n t IH]; intros q added q2 o e I T Hns H; cbn [pops] in H.
  - injection H as <- <- <-. cbn [added_of flat_map sumZ fold_right]. rewrite !app_nil_r, Z.add_0_r. auto.
  - cbn [forallb] in Hns. apply andb_true_iff in Hns. destruct Hns as [Hn Ht].
    destruct (pop_buffer all_rep q n) as [[[q1 o1] e1]|] eqn:E1; [|discriminate].
    destruct (pops all_rep q1 t) as [[[q3 o3] e3]|] eqn:E2; [|discriminate].
    injection H as <- <- <-. unfold pop_buffer in E1.
    assert (Hn0 : 0 <= n) by lia.
    destruct (tloop _ _ _ _ _ _ _ I T Hn0 E1) as (T1 & C1 & R1).
    assert (I1 : Inv q1) by (eapply Inv_loop; eauto).
    destruct (IH _ _ _ _ _ I1 T1 Ht E2) as (T2 & C2 & R2).
    rewrite added_of_app, app_assoc. cbn [sumZ fold_right]. fold (sumZ t).
    rewrite C1 in *. rewrite Z.add_assoc.
    split; [exact T2|]. split; [exact C2|]. rewrite R2, R1, app_assoc. reflexivity.
Qed.

End TL.

Lemma timeline : forall p es ch pm ns q out ev,
  wf_queue p es = true -> forallb (fun n => 0 <=? n) ns = true ->
  pops all_rep (qinit p es ch pm) ns = Some (q, out, ev) ->
  out = render es (added_of ev) (sumZ ns) /\ q_samples q = sumZ ns /\ spacing_ok es (added_of ev) = true.
Proof.
  intros p es ch pm ns q out ev Hwf Hns H.
  destruct (tpops p es Hwf ns _ [] _ _ _ (Inv_init p es Hwf ch pm) (TI_init p es Hwf ch pm) Hns H)
    as (T & C & R).
  cbn [app q_samples qinit] in *. rewrite Z.add_0_l in *.
  split; [|split; [exact C|exact (t_spacing _ _ _ T)]].
  rewrite R. reflexivity.
Qed.
