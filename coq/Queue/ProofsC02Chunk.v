(* C02: chunk invariance.  A fuel-free big-step semantics of the request loop, the splitting of a run
   for a+b samples into a run for a and a run for b, and the transfer back to pop_buffer's fuel. *)
From PV Require Import Queue.Model Queue.Spec Queue.LemmasC02 Queue.ProofsC02Fuel.
From Coq Require Import ZArith List Bool Lia ZifyBool.
Import ListNotations.
Open Scope Z_scope.

Inductive run : qstate -> Z -> qstate -> list osample -> list event -> Prop :=
| run_done q s : s <= 0 -> run q s q [] []
| run_empty q s : 0 < s -> pop_step all_rep q s = PBempty ->
    run q s (add_samples q s true) (repeat OZero (Z.to_nat s)) [EEmpty]
| run_step q s q1 out ev q2 out2 ev2 : 0 < s -> pop_step all_rep q s = PBok q1 out ev ->
    run (add_samples q1 (zlen out) false) (s - zlen out) q2 out2 ev2 ->
    run q s q2 (out ++ out2) (ev ++ ev2).

Lemma loop_run f : forall q s q2 o e, pop_loop f all_rep q s = Some (q2, o, e) -> run q s q2 o e.
Proof.
  induction f as [|f IH]; intros q s q2 o e H.
  - destruct (Z_le_gt_dec s 0) as [Hs|Hs].
    + rewrite pop_loop_done in H by lia. injection H as <- <- <-. now constructor.
    + rewrite pop_loop_O in H by lia. discriminate.
  - destruct (Z_le_gt_dec s 0) as [Hs|Hs].
    + rewrite pop_loop_done in H by lia. injection H as <- <- <-. now constructor.
    + rewrite pop_loop_S in H by lia.
      destruct (pop_step all_rep q s) as [q1 out ev| |] eqn:Est; try discriminate.
      * destruct (pop_loop f all_rep _ _) as [[[q3 o3] e3]|] eqn:El; [|discriminate].
        injection H as <- <- <-. eapply run_step; eauto. lia.
      * injection H as <- <- <-. apply run_empty; auto. lia.
Qed.

Lemma run_loop q s q2 o e : run q s q2 o e -> exists f, pop_loop f all_rep q s = Some (q2, o, e).
Proof.
  induction 1 as [q s Hs|q s Hs He|q s q1 out ev q2 out2 ev2 Hs Hst Hr [f IH]].
  - exists O. now apply pop_loop_done.
  - exists 1%nat. rewrite pop_loop_S by lia. now rewrite He.
  - exists (S f). rewrite pop_loop_S by lia. now rewrite Hst, IH.
Qed.

Lemma repeat_split {A} (x : A) a b : 0 <= a -> 0 <= b ->
  repeat x (Z.to_nat (a + b)) = repeat x (Z.to_nat a) ++ repeat x (Z.to_nat b).
Proof. intros Ha Hb. rewrite Z2Nat.inj_add by lia. apply repeat_app. Qed.

Section CHUNK.
Variable p : policy.
Variable es : list entry.
Hypothesis Hwf : wf_queue p es = true.
Notation Inv := (Inv p es).

Lemma step_empty q s : Inv q -> pop_step all_rep q s = PBempty ->
  (forall a, pop_step all_rep q a = PBempty) /\
  (forall a n, pop_step all_rep (add_samples q n true) a = PBempty).
Proof.
  intros I H. unfold pop_step in *. qsimpl. rewrite (inv_paused _ _ _ I) in *.
  destruct (q_source q) as [[[key pos] len]|].
  { destruct (kind_of q key); [destruct (s >? len - pos)|]; discriminate. }
  destruct (q_delay q >? 0); [discriminate|].
  destruct (next_trial all_rep q) eqn:En; try discriminate.
  split; [reflexivity|]. intros a n.
  apply (next_trial_empty all_rep eq_refl) in En.
  assert (E2 : next_trial all_rep (add_samples q n true) = NTempty) by (apply (next_trial_empty all_rep eq_refl); exact En).
  now rewrite E2.
Qed.

Lemma step_split q a b q1 out ev : Inv q -> 0 < a -> 0 <= b ->
  pop_step all_rep q (a + b) = PBok q1 out ev ->
  (zlen out < a /\ pop_step all_rep q a = PBok q1 out ev) \/
  (exists qa outa outb,
      pop_step all_rep q a = PBok qa outa [] /\ ev = [] /\ zlen outa = a /\ out = outa ++ outb /\
      ((outb = [] /\ add_samples qa a false = add_samples q1 (zlen out) false) \/
       (0 < b /\ exists qb, pop_step all_rep (add_samples qa a false) b = PBok qb outb [] /\
                            add_samples qb (zlen outb) false = add_samples q1 (zlen out) false))).
Proof.
  intros I Ha Hb H.
  pose proof (inv_paused _ _ _ I) as Hp.
  pose proof (inv_src _ _ _ I) as S. unfold src_ok in S. pose proof (inv_delay _ _ _ I) as Dl.
  unfold pop_step, kind_of in *. qsimpl. rewrite Hp in *.
  destruct (q_source q) as [[[key pos] len]|] eqn:Es.
  - destruct S as (S1 & S2 & _).
    destruct (match znth (q_data q) key with Some e => e_kind e | None => KArray end) eqn:Ek.
    + (* array *)
      destruct (a + b >? len - pos) eqn:E; injection H as <- <- <-.
      * destruct (a >? len - pos) eqn:Ea.
        { left. rewrite Qzlen_zrange by lia. split; [lia|reflexivity]. }
        right. exists (set_src q (Some (key, pos + a, len)) (q_delay q)),
                 (zrange (fun i => OWave key i) pos a),
                 (zrange (fun i => OWave key i) (pos + a) (len - pos - a)).
        split; [reflexivity|]. split; [reflexivity|]. split; [apply Qzlen_zrange; lia|].
        split. { rewrite <- Qzrange_app by lia. f_equal. lia. }
        right. split; [lia|]. eexists. qsimpl. rewrite Hp, Ek.
        destruct (b >? len - (pos + a)) eqn:Eb; [|lia].
        split. { f_equal. f_equal. lia. }
        apply qstate_eq; qsimpl; try reflexivity.
        -- rewrite !Qzlen_zrange by lia. lia.
        -- now rewrite !orb_false_r.
      * right. exists (set_src q (Some (key, pos + a, len)) (q_delay q)),
                 (zrange (fun i => OWave key i) pos a),
                 (zrange (fun i => OWave key i) (pos + a) b).
        destruct (a >? len - pos) eqn:Ea; [lia|].
        split; [reflexivity|]. split; [reflexivity|]. split; [apply Qzlen_zrange; lia|].
        split. { apply Qzrange_app; lia. }
        destruct (Z.eq_dec b 0) as [->|Hb0].
        -- left. split; [reflexivity|]. apply qstate_eq; qsimpl; try reflexivity.
           ++ do 3 f_equal. lia.
           ++ rewrite Qzlen_zrange by lia. lia.
        -- right. split; [lia|]. eexists. qsimpl. rewrite Hp, Ek.
           destruct (b >? len - (pos + a)) eqn:Eb; [lia|].
           split; [reflexivity|].
           apply qstate_eq; qsimpl; try reflexivity.
           ++ do 3 f_equal. lia.
           ++ rewrite !Qzlen_zrange by lia. lia.
           ++ now rewrite !orb_false_r.
    + (* generator *)
      injection H as <- <- <-.
      destruct (Z_lt_ge_dec (len - pos) a) as [Hr|Hr].
      { left. rewrite Qzlen_zrange by lia. split; [lia|].
        replace (Z.min (len - pos) (a + b)) with (Z.min (len - pos) a) by lia. reflexivity. }
      right.
      exists (set_src q (if pos + a >=? len then None else Some (key, pos + a, len)) (q_delay q)),
             (zrange (fun i => OWave key i) pos a),
             (zrange (fun i => OWave key i) (pos + a) (Z.min (len - pos) (a + b) - a)).
      split. { replace (Z.min (len - pos) a) with a by lia. reflexivity. }
      split; [reflexivity|]. split; [apply Qzlen_zrange; lia|].
      split. { rewrite <- Qzrange_app by lia. f_equal. lia. }
      destruct (Z.eq_dec (Z.min (len - pos) (a + b)) a) as [Hm|Hm].
      * left. rewrite Hm. split; [apply Qzrange_nil; lia|].
        apply qstate_eq; qsimpl; try reflexivity.
        rewrite Qzlen_zrange by lia. lia.
      * right. split; [lia|]. eexists. qsimpl. rewrite Hp.
        destruct (pos + a >=? len) eqn:Eg; [lia|]. qsimpl. rewrite Ek.
        replace (Z.min (len - (pos + a)) b) with (Z.min (len - pos) (a + b) - a) by lia.
        split; [reflexivity|].
        apply qstate_eq; qsimpl; try reflexivity.
        -- replace (pos + a + (Z.min (len - pos) (a + b) - a)) with (pos + Z.min (len - pos) (a + b)) by lia.
           reflexivity.
        -- rewrite !Qzlen_zrange by lia. lia.
        -- now rewrite !orb_false_r.
  - destruct (q_delay q >? 0) eqn:Ed.
    + injection H as <- <- <-.
      destruct (Z_lt_ge_dec (q_delay q) a) as [Hr|Hr].
      { left. rewrite zlen_repeat by lia. split; [lia|].
        replace (Z.min (q_delay q) (a + b)) with (Z.min (q_delay q) a) by lia. reflexivity. }
      right.
      exists (set_src q None (q_delay q - a)), (repeat OZero (Z.to_nat a)),
             (repeat OZero (Z.to_nat (Z.min (q_delay q) (a + b) - a))).
      split. { replace (Z.min (q_delay q) a) with a by lia. reflexivity. }
      split; [reflexivity|]. split; [apply zlen_repeat; lia|].
      split. { rewrite <- repeat_split by lia. do 2 f_equal. lia. }
      destruct (Z.eq_dec (Z.min (q_delay q) (a + b)) a) as [Hm|Hm].
      * left. rewrite Hm. split; [replace (a - a) with 0 by lia; reflexivity|].
        apply qstate_eq; qsimpl; try reflexivity.
        rewrite zlen_repeat by lia. lia.
      * right. split; [lia|]. eexists. qsimpl. rewrite Hp.
        destruct (q_delay q - a >? 0) eqn:Eg; [|lia].
        replace (Z.min (q_delay q - a) b) with (Z.min (q_delay q) (a + b) - a) by lia.
        split; [reflexivity|].
        apply qstate_eq; qsimpl; try reflexivity.
        -- lia.
        -- rewrite !zlen_repeat by lia. lia.
        -- now rewrite !orb_false_r.
    + left. destruct (next_trial all_rep q); try discriminate. injection H as <- <- <-.
      split; [unfold zlen; cbn [length]; lia|reflexivity].
Qed.

Lemma run_split q s q1 o1 e1 : run q s q1 o1 e1 ->
  forall a b, s = a + b -> 0 <= a -> 0 <= b -> Inv q ->
  exists qa oa ea ob eb, run q a qa oa ea /\ run qa b q1 ob eb /\
                         o1 = oa ++ ob /\ added_of e1 = added_of (ea ++ eb).
Proof.
  induction 1 as [q s Hs|q s Hs He|q s q1 out ev q2 out2 ev2 Hs Hst Hr IH]; intros a b -> Ha Hb I.
  - exists q, [], [], [], []. repeat split; try reflexivity; constructor; lia.
  - destruct (Z.eq_dec a 0) as [->|Ha0].
    { exists q, [], [], (repeat OZero (Z.to_nat (0 + b))), [EEmpty].
      repeat split; try reflexivity; [constructor; lia|].
      replace b with (0 + b) at 1 by lia. now apply run_empty. }
    destruct (step_empty _ _ I He) as [E1 E2].
    exists (add_samples q a true), (repeat OZero (Z.to_nat a)), [EEmpty].
    destruct (Z.eq_dec b 0) as [->|Hb0].
    + exists [], []. replace (a + 0) with a by lia.
      repeat split; try (now rewrite app_nil_r); [apply run_empty; auto; lia|constructor; lia].
    + exists (repeat OZero (Z.to_nat b)), [EEmpty].
      split; [apply run_empty; auto; lia|]. split.
      * replace (add_samples q (a + b) true) with (add_samples (add_samples q a true) b true).
        { apply run_empty; auto. lia. }
        apply qstate_eq; qsimpl; try reflexivity; [lia|]. destruct (q_empty q); reflexivity.
      * split; [apply repeat_split; lia|reflexivity].
  - destruct (Z.eq_dec a 0) as [->|Ha0].
    { exists q, [], [], (out ++ out2), (ev ++ ev2).
      repeat split; try reflexivity; [constructor; lia|].
      replace b with (0 + b) by lia. eapply run_step; eauto. }
    assert (Ha' : 0 < a) by lia.
    destruct (step_split _ _ _ _ _ _ I Ha' Hb Hst) as [[Hn Hsa]|(qa & outa & outb & Hsa & -> & Hla & -> & Hcase)].
    + assert (I1 : Inv (add_samples q1 (zlen out) false)).
      { apply Inv_add_samples. eapply Inv_step; eauto. }
      pose proof (step_len p es Hwf _ _ _ _ _ I Hs Hst) as L.
      destruct (IH (a - zlen out) b ltac:(lia) ltac:(lia) Hb I1) as (qa & oa & ea & ob & eb & R1 & R2 & -> & Hadd).
      exists qa, (out ++ oa), (ev ++ ea), ob, eb.
      split; [eapply run_step; eauto|]. split; [exact R2|]. split; [now rewrite app_assoc|].
      rewrite <- app_assoc, !added_of_app in *. now rewrite Hadd.
    + exists (add_samples qa a false), (outa ++ []), ([] ++ []), (outb ++ out2), ev2.
      split.
      { eapply run_step; eauto. rewrite Hla. constructor. lia. }
      split.
      { destruct Hcase as [[-> Heq]|[Hb0 (qb & Hsb & Heq)]].
        - rewrite Heq. cbn [app]. rewrite app_nil_r, Hla in Hr.
          rewrite app_nil_r, Hla. replace (a + b - a) with b in Hr by lia. exact Hr.
        - change ev2 with ([] ++ ev2). eapply run_step; eauto. rewrite Heq. rewrite zlen_app, Hla in *.
          replace (b - zlen outb) with (a + b - (a + zlen outb)) by lia. exact Hr. }
      split; [now rewrite !app_nil_r, app_assoc|reflexivity].
Qed.

End CHUNK.

Lemma chunk_invariant : forall p es ch pm pre a b q o0 e0 q1 o1 e1,
  wf_queue p es = true -> forallb progress_entry es = true ->
  forallb (fun n => 0 <=? n) (a :: b :: pre) = true ->
  pops all_rep (qinit p es ch pm) pre = Some (q, o0, e0) ->
  pop_buffer all_rep q (a + b) = Some (q1, o1, e1) ->
  exists q2 o2 e2, pops all_rep q [a; b] = Some (q2, o2, e2) /\
    o1 = o2 /\ added_of e1 = added_of e2 /\ q_samples q1 = q_samples q2 /\ q_empty q1 = q_empty q2 /\
    map e_trials (q_data q1) = map e_trials (q_data q2).
Proof.
  intros p es ch pm pre a b q o0 e0 q1 o1 e1 Hwf Hp Hns Hpre Hbuf.
  cbn [forallb] in Hns. apply andb_true_iff in Hns. destruct Hns as [Ha Hns].
  apply andb_true_iff in Hns. destruct Hns as [Hb _].
  assert (Ha0 : 0 <= a) by lia. assert (Hb0 : 0 <= b) by lia.
  assert (I : Inv p es q) by (eapply Inv_pops; eauto using Inv_init).
  unfold pop_buffer in Hbuf. apply loop_run in Hbuf.
  destruct (run_split p es Hwf _ _ _ _ _ Hbuf a b eq_refl Ha0 Hb0 I) as (qa & oa & ea & ob & eb & R1 & R2 & -> & Hadd).
  destruct (run_loop _ _ _ _ _ R1) as [fa L1]. destruct (run_loop _ _ _ _ _ R2) as [fb L2].
  assert (Ia : Inv p es qa) by (eapply Inv_loop; eauto).
  apply (loop_to_buffer p es Hwf Hp) in L1; auto. apply (loop_to_buffer p es Hwf Hp) in L2; auto.
  exists q1, (oa ++ ob ++ []), (ea ++ eb ++ []). cbn [pops]. rewrite L1, L2.
  repeat split; try reflexivity.
  - now rewrite app_nil_r.
  - now rewrite app_nil_r.
Qed.
