(* C03: the interleaved policy against the reference round robin rr_order. *)
From PV Require Import Queue.Model Queue.Spec Queue.LemmasC03 Queue.ProofsC03Run Queue.ProofsC03Pol.
From PV Require Import Stim.ProofsLib.
From Coq Require Import ZArith List Bool Lia ZifyBool.
Import ListNotations.
Open Scope Z_scope.

Definition sumpos (l : list Z) : Z := sumZ (map (fun x => Z.max x 0) l).
Notation donel := (forallb (fun x => x <=? 0)).

Lemma count_trials_sumpos q : count_trials q = sumpos (map e_trials (q_data q)).
Proof. unfold count_trials, sumpos. now rewrite map_map. Qed.
Lemma sumpos_nonneg l : 0 <= sumpos l.
Proof. unfold sumpos. apply sumZ_nonneg. intros x Hx. apply in_map_iff in Hx. destruct Hx as [y [<- _]]. lia. Qed.
Lemma sumpos_zero l : sumpos l <= 0 -> donel l = true.
Proof.
  induction l as [|x l IH]; [reflexivity|]. unfold sumpos in *. cbn [map forallb]. rewrite sumZ_cons.
  intros H. fold (sumpos l) in *. pose proof (sumpos_nonneg l). rewrite IH by lia. lia.
Qed.
Lemma sumpos_zupd l i x : nth_error l i = Some x ->
  sumpos (zupd l i (fun y => y - 1)) = sumpos l - Z.max x 0 + Z.max (x - 1) 0.
Proof. intros H. unfold sumpos. now rewrite (sum_map_zupd _ _ _ _ _ H). Qed.

Lemma rr_done f keep n i left : donel left = true -> rr_order f keep n i left = [].
Proof. destruct f; cbn [rr_order]; [reflexivity|]. intros ->. reflexivity. Qed.
Lemma rr_step f keep n i left : donel left = false ->
  rr_order (S f) keep n i left =
  if keep || (0 <? match znth left ((i + 1) mod n) with Some x => x | None => 0 end)
  then (i + 1) mod n :: rr_order f keep n ((i + 1) mod n) (zupd left (Z.to_nat ((i + 1) mod n)) (fun y => y - 1))
  else rr_order f keep n ((i + 1) mod n) left.
Proof. intros H. cbn [rr_order]. rewrite H. reflexivity. Qed.

Lemma znth_nth_error {A} (l : list A) i : 0 <= i -> znth l i = nth_error l (Z.to_nat i).
Proof. intros H. unfold znth. destruct (i <? 0) eqn:E; [lia|reflexivity]. Qed.

(* enough fuel: n * (sum of the positive parts) *)
Lemma rr_fuel keep n : 0 < n -> forall s left i f f',
  zlen left = n -> sumpos left <= Z.of_nat s ->
  n * Z.of_nat s <= Z.of_nat f -> n * Z.of_nat s <= Z.of_nat f' ->
  rr_order f keep n i left = rr_order f' keep n i left.
Proof.
  intros Hn. induction s as [|s IHs].
  - intros left i f f' Hlen Hsum _ _. rewrite !rr_done; auto; apply sumpos_zero; lia.
  - assert (Q : forall d left i f f', zlen left = n -> sumpos left <= Z.of_nat (S s) ->
        (exists x, znth left ((i + Z.of_nat d) mod n) = Some x /\ 0 < x) -> (1 <= d)%nat ->
        n * Z.of_nat s + Z.of_nat d <= Z.of_nat f -> n * Z.of_nat s + Z.of_nat d <= Z.of_nat f' ->
        rr_order f keep n i left = rr_order f' keep n i left).
    { induction d as [|d IHd]; [lia|]. intros left i f f' Hlen Hsum (x & Hx & Hpos) _ Hf Hf'.
      destruct f as [|f]; [lia|]. destruct f' as [|f']; [lia|].
      destruct (donel left) eqn:Ed; [rewrite !rr_done by exact Ed; reflexivity|].
      rewrite !rr_step by exact Ed.
      set (i' := (i + 1) mod n) in *.
      assert (Hi' : 0 <= i' < n) by (apply Z.mod_pos_bound; lia).
      destruct (znth_some left i') as [y Hy]; [lia|]. rewrite Hy.
      assert (Hyn : nth_error left (Z.to_nat i') = Some y) by (rewrite <- znth_nth_error by lia; exact Hy).
      destruct (0 <? y) eqn:Ey.
      - rewrite orb_true_r. f_equal. apply IHs.
        + now rewrite zlen_zupd.
        + rewrite (sumpos_zupd _ _ _ Hyn). lia.
        + lia.
        + lia.
      - destruct d as [|d].
        { exfalso. change (Z.of_nat 1) with 1 in Hx. fold i' in Hx. rewrite Hx in Hy. injection Hy as <-. lia. }
        assert (Hidx : (i' + Z.of_nat (S d)) mod n = (i + Z.of_nat (S (S d))) mod n).
        { unfold i'. rewrite Zplus_mod_idemp_l. f_equal. lia. }
        rewrite orb_false_r. destruct keep.
        + f_equal. apply IHd.
          * now rewrite zlen_zupd.
          * rewrite (sumpos_zupd _ _ _ Hyn). lia.
          * exists x. split; [|exact Hpos]. rewrite Hidx.
            pose proof (znth_range _ _ _ Hx) as Hr.
            rewrite znth_zupd by lia. rewrite Z2Nat.id by lia.
            destruct (_ =? i') eqn:E; [|exact Hx].
            apply Z.eqb_eq in E. rewrite E in Hx. rewrite Hx in Hy. injection Hy as <-. lia.
          * lia.
          * lia.
          * lia.
        + apply IHd; auto; try lia. exists x. rewrite Hidx. auto. }
    intros left i f f' Hlen Hsum Hf Hf'.
    destruct (donel left) eqn:Ed; [rewrite !rr_done by exact Ed; reflexivity|].
    apply forallb_false_ex in Ed. destruct Ed as (x & Hin & Hx).
    apply In_znth in Hin. destruct Hin as (pidx & Hp). pose proof (znth_range _ _ _ Hp) as Hr.
    pose proof (Z.mod_pos_bound (pidx - i - 1) n Hn) as Hb.
    apply (Q (Z.to_nat ((pidx - i - 1) mod n + 1))); auto; try lia.
    exists x. split; [|lia]. rewrite Z2Nat.id by lia.
    replace (i + ((pidx - i - 1) mod n + 1)) with ((i + 1) + (pidx - i - 1) mod n) by lia.
    rewrite Zplus_mod_idemp_r. replace (i + 1 + (pidx - i - 1)) with pidx by lia.
    rewrite Z.mod_small by lia. exact Hp.
Qed.

Lemma rr_length f keep n : forall i left, zlen (rr_order f keep n i left) <= Z.of_nat f.
Proof.
  induction f as [|f IH]; intros i left; [cbn; lia|].
  destruct (donel left) eqn:Ed; [rewrite rr_done by exact Ed; cbn; lia|].
  rewrite rr_step by exact Ed. destruct (_ || _).
  - rewrite zlen_cons. specialize (IH ((i + 1) mod n) (zupd left (Z.to_nat ((i + 1) mod n)) (fun y => y - 1))). lia.
  - specialize (IH ((i + 1) mod n) left). lia.
Qed.

(* ---------- the invariant ---------- *)
Definition CInterR (es : list entry) (keep : bool) (keys : list Z)
           (data : list entry) (ord : list Z) (i : Z) (complete : bool) : Prop :=
  ord = zrange idZ 0 (zlen es) /\
  complete = all_done data /\
  (keep = false -> forall k, 0 <= trials_of data k) /\
  satisfied (requested_of es) (removelast keys) = false /\
  (forall f, zlen es * sumpos (map e_trials data) <= Z.of_nat f ->
     inter_order keep es = keys ++ rr_order f keep (zlen es) i (map e_trials data)).
Definition CInter (es : list entry) (keep : bool) (keys : list Z) (q : qstate) : Prop :=
  CInterR es keep keys (q_data q) (q_ordering q) (q_i q) (q_complete q).

Lemma sat_all_done p es keys q : Base p es keys q -> satisfied (requested_of es) keys = all_done (q_data q).
Proof.
  intros B. pose proof (b_trials _ _ _ _ _ _ _ _ _ _ _ _ B) as Ht.
  apply eq_true_iff_eq. rewrite satisfied_iff, all_done_iff. unfold requested_of. split.
  - intros H k. rewrite Ht. unfold reqk. destruct (znth es k) as [e|] eqn:E.
    + specialize (H k (e_requested e)). rewrite znth_map, E in H. specialize (H eq_refl). lia.
    + pose proof (countZ_nonneg k keys). lia.
  - intros H k r Hk. rewrite znth_map in Hk. destruct (znth es k) as [e|] eqn:E; [|discriminate].
    injection Hk as <-. specialize (H k). rewrite Ht in H. unfold reqk in H. rewrite E in H. lia.
Qed.

Lemma map_trials_dec_adv d k : 0 <= k ->
  map e_trials (upd_entry (upd_entry d k (add_trials (-1))) k adv_delay)
  = zupd (map e_trials d) (Z.to_nat k) (fun y => y - 1).
Proof.
  intros Hk. rewrite map_trials_adv. unfold upd_entry. destruct (k <? 0) eqn:E; [lia|].
  apply map_zupd. intros x. cbn. lia.
Qed.

Lemma inter_skip_rr d n : 0 < n -> zlen d = n -> all_done d = false ->
  forall fu i i' key, inter_skip fu d (zrange idZ 0 n) i = Some (i', key) ->
  key = i' /\ 0 <= i' < n /\ 0 < trials_of d i' /\
  exists j, forall f, rr_order (j + f) false n i (map e_trials d)
                      = i' :: rr_order f false n i' (zupd (map e_trials d) (Z.to_nat i') (fun y => y - 1)).
Proof.
  intros Hn Hlen Hnd. rewrite all_done_map in Hnd.
  induction fu as [|fu IH]; intros i i' key; cbn [inter_skip]; [discriminate|].
  rewrite zlen_zrange_nn by lia.
  assert (Hi1 : 0 <= (i + 1) mod n < n) by (apply Z.mod_pos_bound; lia).
  rewrite znth_zrange by exact Hi1. rewrite Z.add_0_l.
  destruct (trials_of d ((i + 1) mod n) >? 0) eqn:Et.
  - intros [= <- <-]. split; [reflexivity|]. split; [exact Hi1|]. split; [lia|].
    exists 1%nat. intros f. cbn [Nat.add]. rewrite rr_step by exact Hnd.
    rewrite znth_map. unfold trials_of in Et. destruct (znth d ((i + 1) mod n)); cbn [option_map orb].
    + replace (0 <? e_trials e) with true by lia. reflexivity.
    + lia.
  - intros H. destruct (IH _ _ _ H) as (Hk & Hr & Hpos & j & Hj).
    split; [exact Hk|]. split; [exact Hr|]. split; [exact Hpos|].
    exists (S j). intros f. cbn [Nat.add]. rewrite rr_step by exact Hnd.
    rewrite znth_map. unfold trials_of in Et. destruct (znth d ((i + 1) mod n)); cbn [option_map orb].
    + replace (0 <? e_trials e) with false by lia. apply Hj.
    + cbn. apply Hj.
Qed.

Section Inter.
Variables (keep : bool) (es : list entry).
Hypothesis Hwf : forallb wf_entry es = true.
Hypothesis Hn : 1 <= zlen es.
Let p := PInter keep.

Lemma all_done_init : all_done es = false.
Proof.
  destruct (all_done es) eqn:E; [|reflexivity]. exfalso. rewrite all_done_iff in E.
  destruct (znth_some es 0) as [e He]; [lia|]. specialize (E 0). unfold trials_of in E. rewrite He in E.
  apply znth_In in He. pose proof (wf_entry_facts _ (es_wf _ Hwf _ He)). lia.
Qed.

Lemma sat_init : satisfied (requested_of es) [] = false.
Proof.
  destruct (satisfied (requested_of es) []) eqn:E; [|reflexivity]. exfalso. rewrite satisfied_iff in E.
  destruct (znth_some es 0) as [e He]; [lia|]. specialize (E 0 (e_requested e)).
  unfold requested_of in E. rewrite znth_map, He in E. specialize (E eq_refl). rewrite countZ_nil in E.
  apply znth_In in He. pose proof (wf_entry_facts _ (es_wf _ Hwf _ He)). lia.
Qed.

Lemma map_trials_init : map e_trials es = requested_of es.
Proof.
  unfold requested_of. apply map_ext_in. intros e He. pose proof (wf_entry_facts _ (es_wf _ Hwf _ He)). lia.
Qed.

Lemma sumZ_req_nonneg : 0 <= sumZ (requested_of es).
Proof.
  apply sumZ_nonneg. intros x Hx. unfold requested_of in Hx. apply in_map_iff in Hx.
  destruct Hx as [e [<- He]]. pose proof (wf_entry_facts _ (es_wf _ Hwf _ He)). lia.
Qed.

Lemma sumpos_init : sumpos (map e_trials es) = sumZ (requested_of es).
Proof.
  rewrite map_trials_init. unfold sumpos, requested_of. rewrite map_map. f_equal. apply map_ext_in.
  intros e He. pose proof (wf_entry_facts _ (es_wf _ Hwf _ He)). lia.
Qed.

Lemma CInter_init ch pm : CInter es keep [] (qinit p es ch pm).
Proof.
  unfold CInter, CInterR, qinit. prj. split; [reflexivity|]. split; [symmetry; apply all_done_init|].
  split; [|split; [apply sat_init|]].
  - intros _ k. unfold trials_of. destruct (znth es k) as [e|] eqn:E; [|lia].
    apply znth_In in E. pose proof (wf_entry_facts _ (es_wf _ Hwf _ E)). lia.
  - intros f Hf. unfold inter_order. rewrite <- map_trials_init.
    pose proof sumZ_req_nonneg as Hs. rewrite sumpos_init in Hf.
    apply (rr_fuel keep (zlen es) ltac:(lia) (Z.to_nat (sumZ (requested_of es)))).
    + unfold zlen. now rewrite map_length.
    + rewrite sumpos_init. lia.
    + rewrite map_trials_init. nia.
    + lia.
Qed.

Lemma CInter_step keys q q' k t : Base p es keys q -> CInter es keep keys q ->
  next_trial all_rep q = NTok q' (EAdded k t) -> CInter es keep (keys ++ [k]) q'.
Proof.
  intros B (Ho & Hc & Hnn & Hsat & Hrr) Hnt. pose proof (Base_zlen _ _ _ _ B) as Hlen.
  assert (Hpol : q_pol q = PInter keep) by apply (b_pol _ _ _ _ _ _ _ _ _ _ _ _ B).
  destruct (nt_inter _ _ _ _ _ Hpol Hnt) as (Hcf & Hz & Ho' & Hc' & Hcur).
  destruct (next_trial_facts _ _ _ _ Hnt) as (k' & e & dl & Hev & F). injection Hev as <- _.
  assert (Hk : 0 <= k < zlen es) by (apply (b_ord _ _ _ _ _ _ _ _ _ _ _ _ B); apply (nf_in _ _ _ _ _ F)).
  assert (Htr : forall j, trials_of (q_data q') j = trials_of (q_data q) j - (if j =? k then 1 else 0)).
  { intros j. rewrite (nf_data _ _ _ _ _ F). apply trials_of_dec_adv. lia. }
  assert (Hmap : map e_trials (q_data q') = zupd (map e_trials (q_data q)) (Z.to_nat k) (fun y => y - 1)).
  { rewrite (nf_data _ _ _ _ _ F). apply map_trials_dec_adv. lia. }
  assert (Hnd : all_done (q_data q) = false) by congruence.
  assert (Hndl : donel (map e_trials (q_data q)) = false) by (rewrite <- all_done_map; exact Hnd).
  assert (Hlm : zlen (map e_trials (q_data q)) = zlen es) by (unfold zlen in *; rewrite map_length; exact Hlen).
  destruct (znth_some (q_data q) k ltac:(lia)) as [ek Hek].
  assert (Hnk : nth_error (map e_trials (q_data q)) (Z.to_nat k) = Some (e_trials ek)).
  { rewrite <- znth_nth_error by lia. rewrite znth_map, Hek. reflexivity. }
  assert (Hsp : sumpos (map e_trials (q_data q')) = sumpos (map e_trials (q_data q)) - Z.max (e_trials ek) 0 + Z.max (e_trials ek - 1) 0).
  { rewrite Hmap. apply sumpos_zupd. exact Hnk. }
  unfold CInter, CInterR. rewrite Ho', Ho. split; [reflexivity|]. split; [exact Hc'|].
  rewrite removelast_snoc. rewrite (sat_all_done _ _ _ _ B). split; [|split; [exact Hnd|]].
  - (* keep = false: the chosen key had trials left *)
    intros -> j. specialize (Hnn eq_refl). rewrite Htr. rewrite Ho in Hcur.
    apply (inter_skip_rr _ (zlen es)) in Hcur; [|lia|exact Hlen|exact Hnd].
    destruct Hcur as (-> & _ & Hpos & _). specialize (Hnn j). destruct (Z.eqb_spec j (q_i q')) as [->|Hne]; lia.
  - intros f Hf.
    pose proof (sumpos_nonneg (map e_trials (q_data q'))) as Hsn.
    set (F' := (f + Z.to_nat (zlen es))%nat).
    assert (HF' : rr_order F' keep (zlen es) (q_i q') (map e_trials (q_data q')) = rr_order f keep (zlen es) (q_i q') (map e_trials (q_data q'))).
    { apply (rr_fuel keep (zlen es) ltac:(lia) (Z.to_nat (sumpos (map e_trials (q_data q'))))).
      - rewrite Hmap, zlen_zupd. exact Hlm.
      - lia.
      - unfold F'. nia.
      - nia. }
    rewrite <- HF', <- app_assoc. cbn [app].
    rewrite Ho in Hcur. rewrite zlen_zrange_nn in Hcur by lia.
    destruct keep.
    + destruct Hcur as (Hi' & Hzn). rewrite Hi' in Hzn. apply znth_zrange_inv in Hzn. destruct Hzn as (_ & Hki).
      rewrite Z.add_0_l in Hki.
      rewrite (Hrr (S F')).
      * rewrite rr_step by exact Hndl. cbn [orb]. rewrite Hi', <- Hki, Hmap. reflexivity.
      * unfold F'. nia.
    + replace (length (zrange idZ 0 (zlen es))) with (Z.to_nat (zlen es)) in Hcur
        by (unfold zrange; now rewrite zr_length).
      apply (inter_skip_rr _ (zlen es)) in Hcur; [|lia|exact Hlen|exact Hnd].
      destruct Hcur as (-> & _ & Hpos & j & Hj).
      rewrite (Hrr (j + F')%nat).
      * rewrite Hj, Hmap. reflexivity.
      * unfold F'. nia.
Qed.

Lemma CInter_done keys q : Base p es keys q -> CInter es keep keys q -> q_complete q = true ->
  count_trials q = 0 /\ keys = inter_order keep es /\
  (if keep then stops_at_first_moment (requested_of es) keys = true
   else forall k, countZ k keys = reqk es k).
Proof.
  intros B (Ho & Hc & Hnn & Hsat & Hrr) Hcomp. rewrite Hcomp in Hc. symmetry in Hc.
  split; [now apply count_trials_zero|]. split.
  - rewrite (Hrr (Z.to_nat (zlen es * sumpos (map e_trials (q_data q))))).
    + rewrite rr_done; [now rewrite app_nil_r|]. now rewrite <- all_done_map.
    + pose proof (sumpos_nonneg (map e_trials (q_data q))). nia.
  - destruct keep.
    + unfold stops_at_first_moment. rewrite Hsat, (sat_all_done _ _ _ _ B), Hc. reflexivity.
    + intros k. specialize (Hnn eq_refl k). rewrite all_done_iff in Hc. specialize (Hc k).
      pose proof (b_trials _ _ _ _ _ _ _ _ _ _ _ _ B k). lia.
Qed.

Lemma CInter_bound keys q : CInter es keep keys q -> zlen keys <= zlen (inter_order keep es).
Proof.
  intros (_ & _ & _ & _ & Hrr).
  specialize (Hrr (Z.to_nat (zlen es * sumpos (map e_trials (q_data q))))).
  pose proof (sumpos_nonneg (map e_trials (q_data q))).
  rewrite Hrr by nia. rewrite zlen_app.
  match goal with |- _ <= _ + zlen ?l => pose proof (zlen_nonneg l) end. lia.
Qed.
End Inter.
