(* More helpers for the translator tie of psiaudio.queue (pause / resume path; see Queue/TieLib.v).  Definitions only. *)
From PV Require Export Queue.TieLib.
Open Scope Z_scope.

(* `for x in l: body`, the body changing the object and one local (the accumulator s); an exception ends the loop *)
Fixpoint gfoldl {A S} (f : obj -> S -> A -> gres S) (l : list A) (self : obj) (s : S) : gres S :=
  match l with
  | [] => GOk self s
  | x :: t => match f self s x with GOk self' s' => gfoldl f t self' s' | GRaise e self' => GRaise e self' end
  end.

(* [x for x in l if c(x)], c a method call (evaluated in order, on the object as the calls before left it) *)
Fixpoint gfilter {A} (c : obj -> A -> gres bool) (l : list A) (self : obj) : gres (list A) :=
  match l with
  | [] => GOk self []
  | x :: t =>
    match c self x with
    | GRaise e s => GRaise e s
    | GOk s b => match gfilter c t s with
                 | GRaise e s' => GRaise e s'
                 | GOk s' r => GOk s' (if b then x :: r else r)
                 end
    end
  end.

(* collections.Counter(l).items(): (key, count) pairs, keys in order of first occurrence *)
Fixpoint counter_add (k : Z) (c : list (Z * Z)) : list (Z * Z) :=
  match c with
  | [] => [(k, 1)]
  | (k', n) :: t => if k =? k' then (k', n + 1) :: t else (k', n) :: counter_add k t
  end.
Definition py_counter (l : list Z) : list (Z * Z) := fold_left (fun c k => counter_add k c) l [].

