(* Model of psiaudio/queue.py: AbstractSignalQueue and its six policies (C02, C03, C04, C06).
   Definitions only.  Everything is in samples; keys are insertion indices 0,1,2,...

   Python field          model
   _data[key]            nth key (q_data)       trials / requested_trials / delays iterator / duration
   _ordering             q_ordering
   _source               q_source : option (key, pos, len)  -- array sources may be "empty but not None" (pos = len)
   _delay_samples        q_delay
   _samples              q_samples
   _paused / _empty      q_paused / q_empty
   _generated            q_generated (oldest first)
   _i / _complete        q_i, q_iperm / q_complete
   np.random / RandomState.shuffle   oracles: q_choices (keys chosen by RandomSignalQueue),
                                     q_perms (successive shuffles for BlockedRandomSignalQueue)            *)
From PV Require Export Common.ListX.

Inductive skind := KArray | KGen.
Scheme Equality for skind.

Record entry := {
  e_trials : Z; e_requested : Z;
  e_len : Z;            (* samples of the waveform *)
  e_kind : skind;       (* ndarray or generator factory *)
  e_delays : list Z;    (* inter-trial delays in samples: round(delay*fs) *)
  e_cyclic : bool;      (* scalar delay (cycled) or finite list (StopIteration when exhausted) *)
  e_dpos : Z;           (* delays consumed so far *)
  e_dur : Z             (* declared duration, in samples *)
}.

Inductive policy :=
| PFifo | PInter (keep : bool) | PRandom | PBlockedRandom | PGrouped (gs : Z).
(* BlockedFIFOSignalQueue = PGrouped (number of stimuli) *)

Record info := { i_t0 : Z; i_dur : Z; i_key : Z; i_dec : bool }.

Inductive event := EAdded (key t0 : Z) | ERemoved (key t0 : Z) | EEmpty.

(* which repairs are in force (all true = current /repo) *)
Record qrep := {
  r_cancel_once : bool;    (* cancel() no longer restores the trial in progress itself (requeue does) *)
  r_trim_log : bool;       (* pause() drops the cancelled entries from the log of generated trials *)
  r_complete_reset : bool; (* interleaved / blocked-random: `_complete` recomputed when trials are restored *)
  r_grouped_mod : bool;    (* grouped: cursor taken modulo min(group_size, len(ordering)) *)
  r_empty_reset : bool;    (* requeue clears the empty flag when it restores trials *)
  r_pause_atomic : bool;   (* pause(t) checks t against the clock BEFORE cancelling anything: a rejected pause
                              leaves the queue untouched *)
  r_empty_guard : bool     (* interleaved / blocked-random: next_key raises QueueEmptyError when nothing is queued
                              (`if self._complete or not self._ordering`) instead of ZeroDivisionError / IndexError *)
}.
Definition all_rep : qrep := {| r_cancel_once := true; r_trim_log := true; r_complete_reset := true;
                                r_grouped_mod := true; r_empty_reset := true; r_pause_atomic := true;
                                r_empty_guard := true |}.
Definition no_rep : qrep := {| r_cancel_once := false; r_trim_log := false; r_complete_reset := false;
                               r_grouped_mod := false; r_empty_reset := false; r_pause_atomic := false;
                               r_empty_guard := false |}.

Record qstate := {
  q_pol : policy;
  q_data : list entry;
  q_ordering : list Z;
  q_source : option (Z * Z * Z);
  q_delay : Z;
  q_samples : Z;
  q_paused : bool;
  q_empty : bool;
  q_generated : list info;
  q_i : Z;
  q_iperm : list Z;
  q_complete : bool;
  q_choices : list Z;
  q_perms : list (list Z)
}.

Definition mk_entry (trials len : Z) (k : skind) (delays : list Z) (cyc : bool) : entry :=
  {| e_trials := trials; e_requested := trials; e_len := len; e_kind := k; e_delays := delays;
     e_cyclic := cyc; e_dpos := 0; e_dur := len |}.

Definition qinit (p : policy) (es : list entry) (choices : list Z) (perms : list (list Z)) : qstate :=
  {| q_pol := p; q_data := es; q_ordering := zrange (fun i => i) 0 (zlen es); q_source := None;
     q_delay := 0; q_samples := 0; q_paused := false; q_empty := false; q_generated := [];
     q_i := -1; q_iperm := []; q_complete := false; q_choices := choices; q_perms := perms |}.

(* ---- small accessors ---- *)
Definition znth {A} (l : list A) (i : Z) : option A :=
  if i <? 0 then None else nth_error l (Z.to_nat i).
Fixpoint zupd {A} (l : list A) (i : nat) (f : A -> A) : list A :=
  match l, i with
  | [], _ => []
  | x :: t, O => f x :: t
  | x :: t, S k => x :: zupd t k f
  end.
Definition upd_entry (d : list entry) (key : Z) (f : entry -> entry) : list entry :=
  if key <? 0 then d else zupd d (Z.to_nat key) f.
Definition add_trials (n : Z) (e : entry) : entry :=
  {| e_trials := e_trials e + n; e_requested := e_requested e; e_len := e_len e; e_kind := e_kind e;
     e_delays := e_delays e; e_cyclic := e_cyclic e; e_dpos := e_dpos e; e_dur := e_dur e |}.
Definition adv_delay (e : entry) : entry :=
  {| e_trials := e_trials e; e_requested := e_requested e; e_len := e_len e; e_kind := e_kind e;
     e_delays := e_delays e; e_cyclic := e_cyclic e; e_dpos := e_dpos e + 1; e_dur := e_dur e |}.
Definition trials_of (d : list entry) (key : Z) : Z :=
  match znth d key with Some e => e_trials e | None => 0 end.
Definition memZ (x : Z) (l : list Z) : bool := existsb (Z.eqb x) l.
Fixpoint remove1 (x : Z) (l : list Z) : list Z :=         (* list.remove: first occurrence *)
  match l with [] => [] | y :: t => if x =? y then t else y :: remove1 x t end.
Definition all_done (d : list entry) : bool := forallb (fun e => e_trials e <=? 0) d.

Definition set_state (q : qstate) (d : list entry) (o : list Z) (i : Z) (ip : list Z) (c : bool)
           (ch : list Z) (pm : list (list Z)) : qstate :=
  {| q_pol := q_pol q; q_data := d; q_ordering := o; q_source := q_source q; q_delay := q_delay q;
     q_samples := q_samples q; q_paused := q_paused q; q_empty := q_empty q;
     q_generated := q_generated q; q_i := i; q_iperm := ip; q_complete := c; q_choices := ch; q_perms := pm |}.

(* ---- next_key per policy.  Results: key, or QueueEmptyError, or another exception ---- *)
Inductive nk := NKey (key : Z) (q : qstate) | NEmpty | NError.

(* interleaved keep=false: skip keys with no trials left; fuel = len ordering *)
Fixpoint inter_skip (fuel : nat) (d : list entry) (o : list Z) (i : Z) : option (Z * Z) :=
  match fuel with
  | O => None                                    (* would spin forever: every stimulus exhausted *)
  | S f =>
    let i' := (i + 1) mod (zlen o) in
    match znth o i' with
    | None => None
    | Some key => if trials_of d key >? 0 then Some (i', key) else inter_skip f d o i'
    end
  end.

Definition next_key (R : qrep) (q : qstate) : nk :=
  let o := q_ordering q in
  match q_pol q with
  | PFifo =>
    match o with [] => NEmpty | k :: _ => NKey k q end
  | PInter keep =>
    if q_complete q then NEmpty
    else if zlen o =? 0 then (if r_empty_guard R then NEmpty else NError)   (* before the repair: ZeroDivisionError *)
    else if keep then
      let i' := (q_i q + 1) mod (zlen o) in
      match znth o i' with
      | Some k => NKey k (set_state q (q_data q) o i' (q_iperm q) (q_complete q) (q_choices q) (q_perms q))
      | None => NError
      end
    else
      match inter_skip (length o) (q_data q) o (q_i q) with
      | Some (i', k) => NKey k (set_state q (q_data q) o i' (q_iperm q) (q_complete q) (q_choices q) (q_perms q))
      | None => NError
      end
  | PRandom =>
    match o with
    | [] => NEmpty
    | _ =>
      match q_choices q with
      | k :: rest => if memZ k o
                     then NKey k (set_state q (q_data q) o (q_i q) (q_iperm q) (q_complete q) rest (q_perms q))
                     else NError
      | [] => NError                                        (* oracle exhausted *)
      end
    end
  | PBlockedRandom =>
    if q_complete q then NEmpty
    else if r_empty_guard R && (zlen o =? 0) then NEmpty  (* before the repair: IndexError (pop from an empty block) *)
    else
      let '(ip, pm, ok) :=
        match q_iperm q with
        | [] => match q_perms q with
                | p :: rest => (p, rest, (zlen p =? zlen o))
                | [] => ([], [], false)
                end
        | ip => (ip, q_perms q, true)
        end in
      if negb ok then NError
      else
        (* self._i.pop(): last element *)
        match rev ip with
        | [] => NError
        | i :: rest_rev =>
          match znth o i with
          | Some k => NKey k (set_state q (q_data q) o (q_i q) (rev rest_rev) (q_complete q) (q_choices q) pm)
          | None => NError
          end
        end
  | PGrouped gs =>
    match o with
    | [] => NEmpty
    | _ =>
      let m := if r_grouped_mod R then Z.min gs (zlen o) else gs in
      if m =? 0 then NError
      else
        let i' := (q_i q + 1) mod m in
        match znth o i' with
        | Some k => NKey k (set_state q (q_data q) o i' (q_iperm q) (q_complete q) (q_choices q) (q_perms q))
        | None => NError                                    (* IndexError *)
        end
    end
  end.

(* ---- decrement_key per policy ---- *)
Definition decrement_key (q : qstate) (key : Z) : option qstate :=
  if negb (memZ key (q_ordering q)) then None               (* KeyError *)
  else
    let d := upd_entry (q_data q) key (add_trials (-1)) in
    match q_pol q with
    | PFifo | PRandom =>
      let o := if trials_of d key <=? 0 then remove1 key (q_ordering q) else q_ordering q in
      Some (set_state q d o (q_i q) (q_iperm q) (q_complete q) (q_choices q) (q_perms q))
    | PInter _ | PBlockedRandom =>
      Some (set_state q d (q_ordering q) (q_i q) (q_iperm q) (q_complete q || all_done d) (q_choices q) (q_perms q))
    | PGrouped gs =>
      let grp := firstn (Z.to_nat gs) (q_ordering q) in
      if forallb (fun k => trials_of d k <=? 0) grp
      then Some (set_state q d (fold_left (fun o k => remove1 k o) grp (q_ordering q))
                           (q_i q) (q_iperm q) (q_complete q) (q_choices q) (q_perms q))
      else Some (set_state q d (q_ordering q) (q_i q) (q_iperm q) (q_complete q) (q_choices q) (q_perms q))
    end.

(* ---- next_trial ---- *)
Inductive ntres := NTok (q : qstate) (ev : event) | NTempty | NTerror.

Definition next_delay (e : entry) : option Z :=
  let n := zlen (e_delays e) in
  if n =? 0 then None
  else if e_cyclic e then znth (e_delays e) (e_dpos e mod n)
  else znth (e_delays e) (e_dpos e).                      (* None = StopIteration *)

Definition next_trial (R : qrep) (q : qstate) : ntres :=
  match next_key R q with
  | NEmpty => NTempty
  | NError => NTerror
  | NKey key q1 =>
    match decrement_key q1 key with
    | None => NTerror
    | Some q2 =>
      match znth (q_data q2) key with
      | None => NTerror
      | Some e =>
        match next_delay e with
        | None => NTerror
        | Some dl =>
          if dl <? 0 then NTerror
          else
            let inf := {| i_t0 := q_samples q2; i_dur := e_dur e; i_key := key; i_dec := true |} in
            NTok {| q_pol := q_pol q2; q_data := upd_entry (q_data q2) key adv_delay;
                    q_ordering := q_ordering q2; q_source := Some (key, 0, e_len e); q_delay := dl;
                    q_samples := q_samples q2; q_paused := q_paused q2; q_empty := q_empty q2;
                    q_generated := q_generated q2 ++ [inf]; q_i := q_i q2; q_iperm := q_iperm q2;
                    q_complete := q_complete q2; q_choices := q_choices q2; q_perms := q_perms q2 |}
                 (EAdded key (q_samples q2))
        end
      end
    end
  end.

(* ---- output samples: zero, or sample idx of stimulus key ---- *)
Inductive osample := OZero | OWave (key idx : Z).

Definition set_src (q : qstate) (src : option (Z * Z * Z)) (dl : Z) : qstate :=
  {| q_pol := q_pol q; q_data := q_data q; q_ordering := q_ordering q; q_source := src; q_delay := dl;
     q_samples := q_samples q; q_paused := q_paused q; q_empty := q_empty q; q_generated := q_generated q;
     q_i := q_i q; q_iperm := q_iperm q; q_complete := q_complete q; q_choices := q_choices q; q_perms := q_perms q |}.

Definition kind_of (q : qstate) (key : Z) : skind :=
  match znth (q_data q) key with Some e => e_kind e | None => KArray end.

(* _pop_buffer: up to `samples` samples *)
Inductive pbres := PBok (q : qstate) (out : list osample) (ev : list event) | PBempty | PBerror.

Definition pop_step (R : qrep) (q : qstate) (samples : Z) : pbres :=
  if q_paused q then PBok q (repeat OZero (Z.to_nat samples)) []
  else
    match q_source q with
    | Some (key, pos, len) =>
      let rem := len - pos in
      match kind_of q key with
      | KArray =>
        if samples >? rem
        then PBok (set_src q None (q_delay q)) (zrange (fun i => OWave key i) pos rem) []
        else PBok (set_src q (Some (key, pos + samples, len)) (q_delay q))
                  (zrange (fun i => OWave key i) pos samples) []
      | KGen =>
        let n := Z.min rem samples in
        let pos' := pos + n in
        PBok (set_src q (if pos' >=? len then None else Some (key, pos', len)) (q_delay q))
             (zrange (fun i => OWave key i) pos n) []
      end
    | None =>
      if q_delay q >? 0 then
        let n := Z.min (q_delay q) samples in
        PBok (set_src q None (q_delay q - n)) (repeat OZero (Z.to_nat n)) []
      else
        match next_trial R q with
        | NTok q' ev => PBok q' [] [ev]
        | NTempty => PBempty
        | NTerror => PBerror
        end
    end.

Definition add_samples (q : qstate) (n : Z) (empty : bool) : qstate :=
  {| q_pol := q_pol q; q_data := q_data q; q_ordering := q_ordering q; q_source := q_source q;
     q_delay := q_delay q; q_samples := q_samples q + n; q_paused := q_paused q;
     q_empty := q_empty q || empty; q_generated := q_generated q; q_i := q_i q; q_iperm := q_iperm q;
     q_complete := q_complete q; q_choices := q_choices q; q_perms := q_perms q |}.

(* pop_buffer: the `while samples > 0` loop on fuel.  None = exception or out of fuel *)
Fixpoint pop_loop (fuel : nat) (R : qrep) (q : qstate) (samples : Z)
  : option (qstate * list osample * list event) :=
  if samples <=? 0 then Some (q, [], [])
  else
    match fuel with
    | O => None
    | S f =>
      match pop_step R q samples with
      | PBerror => None
      | PBempty =>
        let q' := add_samples q samples true in
        Some (q', repeat OZero (Z.to_nat samples), [EEmpty])
      | PBok q1 out ev =>
        let n := zlen out in
        match pop_loop f R (add_samples q1 n false) (samples - n) with
        | None => None
        | Some (q2, out2, ev2) => Some (q2, out ++ out2, ev ++ ev2)
        end
      end
    end.

Definition count_trials (q : qstate) : Z := sumZ (map (fun e => Z.max (e_trials e) 0) (q_data q)).
Definition count_requested (q : qstate) : Z := sumZ (map e_requested (q_data q)).

(* every trial costs at most 3 zero-length steps (set-up, empty leftover array, zero-length waveform) *)
Definition pop_fuel (q : qstate) (samples : Z) : nat :=
  Z.to_nat (4 * samples + 4 * (count_trials q + 1) * (zlen (q_data q) + 1) + 8).
Definition pop_buffer (R : qrep) (q : qstate) (samples : Z) :=
  pop_loop (pop_fuel q samples) R q samples.

(* ---- pause / resume (t in samples relative to the queue start) ---- *)
Definition ends_after (i : info) (t : Z) : bool := i_t0 i + i_dur i >? t.

Definition set_pause (q : qstate) (d : list entry) (o : list Z) (src : option (Z * Z * Z)) (dl s : Z)
           (p e : bool) (g : list info) (c : bool) : qstate :=
  {| q_pol := q_pol q; q_data := d; q_ordering := o; q_source := src; q_delay := dl; q_samples := s;
     q_paused := p; q_empty := e; q_generated := g; q_i := q_i q; q_iperm := q_iperm q;
     q_complete := c; q_choices := q_choices q; q_perms := q_perms q |}.

Fixpoint lastinfo (l : list info) : option info :=
  match l with [] => None | [x] => Some x | _ :: t => lastinfo t end.

(* pause(t): returns the new state, the removed notifications (newest trial first), and whether
   ValueError was raised.  Repaired code (r_pause_atomic): a time after the clock is rejected first, the
   queue is untouched.  Before the repair the error came out of rewind_samples, after cancel and requeue
   had already run. *)
Definition pause (R : qrep) (q : qstate) (t : option Z) : qstate * list event * bool :=
  match t with
  | None => (set_pause q (q_data q) (q_ordering q) (q_source q) (q_delay q) (q_samples q) true
                       (q_empty q) (q_generated q) (q_complete q), [], false)
  | Some t =>
    if r_pause_atomic R && (t >? q_samples q) then (q, [], true) else
    let newest_first := rev (q_generated q) in
    let cancelled := filter (fun i => ends_after i t) newest_first in
    let evs := map (fun i => ERemoved (i_key i) (i_t0 i)) cancelled in
    (* cancel: the trial in progress *)
    let d1 :=
      match q_source q, lastinfo (q_generated q) with
      | Some _, Some i => if r_cancel_once R then q_data q
                          else if i_dec i then upd_entry (q_data q) (i_key i) (add_trials 1) else q_data q
      | _, _ => q_data q
      end in
    (* requeue *)
    let to_requeue := map i_key (filter i_dec cancelled) in
    let o1 := fold_left (fun o k => if memZ k o then o else k :: o) to_requeue (q_ordering q) in
    let d2 := fold_left (fun d k => upd_entry d k (add_trials 1)) to_requeue d1 in
    let c1 := match q_pol q with
              | PInter _ | PBlockedRandom => if r_complete_reset R then all_done d2 else q_complete q
              | _ => q_complete q
              end in
    let e1 := if r_empty_reset R then
                match to_requeue with [] => q_empty q | _ => false end
              else q_empty q in
    let g1 := if r_trim_log R then filter (fun i => negb (ends_after i t)) (q_generated q)
              else q_generated q in
    if t >? q_samples q
    then (set_pause q d2 o1 None 0 (q_samples q) true e1 g1 c1, evs, true)
    else (set_pause q d2 o1 None 0 t true e1 g1 c1, evs, false)
  end.

Definition resume (q : qstate) (t : option Z) : qstate :=
  set_pause q (q_data q) (q_ordering q) (q_source q) (q_delay q)
            (match t with Some t => t | None => q_samples q end) false (q_empty q) (q_generated q)
            (q_complete q).

(* ---- histories and their flattened observables ---- *)
Inductive qop := Pop (n : Z) | Pause (t : option Z) | Resume (t : option Z).

Definition enc_sample (s : osample) : list Z :=
  match s with OZero => [-1; 0] | OWave k i => [k; i] end.
Definition enc_event (e : event) : list Z :=
  match e with EAdded k t => [1; k; t] | ERemoved k t => [2; k; t] | EEmpty => [3; 0; 0] end.
Definition enc_status (q : qstate) : list Z :=
  [q_samples q; if q_empty q then 1 else 0; count_trials q; count_requested q]
  ++ map e_trials (q_data q).

(* per op:  code (1 pop ok / 2 raised / 3 pause ok / 4 pause ValueError / 5 resume),
            #samples, samples..., #events, events..., status *)
Fixpoint run_q (R : qrep) (q : qstate) (ops : list qop) : list Z :=
  match ops with
  | [] => []
  | Pop n :: t =>
    match pop_buffer R q n with
    | None => [2]
    | Some (q', out, ev) =>
      [1; zlen out] ++ flat_map enc_sample out ++ [zlen ev] ++ flat_map enc_event ev
      ++ enc_status q' ++ run_q R q' t
    end
  | Pause tm :: t =>
    let '(q', ev, err) := pause R q tm in
    if err then [4; zlen ev] ++ flat_map enc_event ev
    else [3; 0; zlen ev] ++ flat_map enc_event ev ++ enc_status q' ++ run_q R q' t
  | Resume tm :: t =>
    let q' := resume q tm in
    [5; 0; 0] ++ enc_status q' ++ run_q R q' t
  end.
Definition run_queue (p : policy) (es : list entry) (choices : list Z) (perms : list (list Z))
           (ops : list qop) : list Z :=
  run_q all_rep (qinit p es choices perms) ops.

(* ======================================================================================
   ADDITIONS for the harness coverage audit (correspondence only: no theorem refers to them
   and nothing above is changed).  They reach the parts of the public surface the histories
   above cannot express:
     append(..., duration=d)                 declared duration different from the waveform length
     pop_buffer(n, decrement=False)          trial set up without touching the trial counter
     count_factories(), get_closest_key(t)   observers of _ordering / _generated
   Default operations go through the SAME pop_buffer / pause / resume as run_q.            *)

Definition mk_entry_dur (trials len : Z) (k : skind) (delays : list Z) (cyc : bool) (dur : Z) : entry :=
  {| e_trials := trials; e_requested := trials; e_len := len; e_kind := k; e_delays := delays;
     e_cyclic := cyc; e_dpos := 0; e_dur := dur |}.

(* next_trial(decrement=False): pop_key skips decrement_key; the log entry records decrement=False *)
Definition next_trial_nd (R : qrep) (q : qstate) : ntres :=
  match next_key R q with
  | NEmpty => NTempty
  | NError => NTerror
  | NKey key q2 =>
    match znth (q_data q2) key with
    | None => NTerror
    | Some e =>
      match next_delay e with
      | None => NTerror
      | Some dl =>
        if dl <? 0 then NTerror
        else
          let inf := {| i_t0 := q_samples q2; i_dur := e_dur e; i_key := key; i_dec := false |} in
          NTok {| q_pol := q_pol q2; q_data := upd_entry (q_data q2) key adv_delay;
                  q_ordering := q_ordering q2; q_source := Some (key, 0, e_len e); q_delay := dl;
                  q_samples := q_samples q2; q_paused := q_paused q2; q_empty := q_empty q2;
                  q_generated := q_generated q2 ++ [inf]; q_i := q_i q2; q_iperm := q_iperm q2;
                  q_complete := q_complete q2; q_choices := q_choices q2; q_perms := q_perms q2 |}
               (EAdded key (q_samples q2))
      end
    end
  end.

(* _pop_buffer(samples, decrement=False): only the trial set-up branch differs *)
Definition pop_step_nd (R : qrep) (q : qstate) (samples : Z) : pbres :=
  if q_paused q then pop_step R q samples
  else
    match q_source q with
    | Some _ => pop_step R q samples
    | None =>
      if q_delay q >? 0 then pop_step R q samples
      else
        match next_trial_nd R q with
        | NTok q' ev => PBok q' [] [ev]
        | NTempty => PBempty
        | NTerror => PBerror
        end
    end.

Fixpoint pop_loop_nd (fuel : nat) (R : qrep) (q : qstate) (samples : Z)
  : option (qstate * list osample * list event) :=
  if samples <=? 0 then Some (q, [], [])
  else
    match fuel with
    | O => None
    | S f =>
      match pop_step_nd R q samples with
      | PBerror => None
      | PBempty =>
        let q' := add_samples q samples true in
        Some (q', repeat OZero (Z.to_nat samples), [EEmpty])
      | PBok q1 out ev =>
        let n := zlen out in
        match pop_loop_nd f R (add_samples q1 n false) (samples - n) with
        | None => None
        | Some (q2, out2, ev2) => Some (q2, out ++ out2, ev ++ ev2)
        end
      end
    end.

(* without decrementing the trial counters bound nothing: the harness only issues such requests on
   stimuli that occupy at least one sample per trial, so 3 steps per sample (+ slack) suffice *)
Definition pop_buffer_nd (R : qrep) (q : qstate) (samples : Z) :=
  pop_loop_nd (Z.to_nat (4 * samples + 16)) R q samples.

(* get_closest_key(t): newest logged trial with t0 <= t; -1 = None *)
Definition closest_key (q : qstate) (t : Z) : Z :=
  match find (fun i => i_t0 i <=? t) (rev (q_generated q)) with
  | Some i => i_key i
  | None => -1
  end.

Definition count_factories (q : qstate) : Z := zlen (q_ordering q).

Inductive xop :=
| XPop (n : Z) (dec : bool) | XPause (t : option Z) | XResume (t : option Z) | XClosest (t : Z).

Definition dur_of (q : qstate) (k : Z) : Z :=
  match znth (q_data q) k with Some e => e_dur e | None => 0 end.
(* notifications with the duration field of the info dict *)
Definition enc_event_x (q : qstate) (e : event) : list Z :=
  match e with
  | EAdded k t => [1; k; t; dur_of q k]
  | ERemoved k t => [2; k; t; dur_of q k]
  | EEmpty => [3; 0; 0; 0]
  end.
Definition enc_status_x (q : qstate) : list Z := enc_status q ++ [count_factories q].

(* per op:  code (1 pop ok / 2 raised / 3 pause ok / 4 pause rejected with ValueError / 5 resume / 6 closest-key query) *)
Fixpoint run_qx (R : qrep) (q : qstate) (ops : list xop) : list Z :=
  match ops with
  | [] => []
  | XPop n dec :: t =>
    match (if dec then pop_buffer R q n else pop_buffer_nd R q n) with
    | None => [2]
    | Some (q', out, ev) =>
      [1; zlen out] ++ flat_map enc_sample out ++ [zlen ev] ++ flat_map (enc_event_x q') ev
      ++ enc_status_x q' ++ run_qx R q' t
    end
  | XPause tm :: t =>
    let '(q', ev, err) := pause R q tm in
    (* a rejected pause (ValueError) does not end the history: the caller goes on.  Repaired code: the queue
       is untouched; before the repair cancel, requeue and the trimming of the log had happened, the clock
       stayed and the queue was paused *)
    [(if err then 4 else 3); 0; zlen ev] ++ flat_map (enc_event_x q') ev ++ enc_status_x q' ++ run_qx R q' t
  | XResume tm :: t =>
    let q' := resume q tm in
    [5; 0; 0] ++ enc_status_x q' ++ run_qx R q' t
  | XClosest tm :: t =>
    [6; closest_key q tm] ++ run_qx R q t
  end.
Definition run_queue_x (p : policy) (es : list entry) (choices : list Z) (perms : list (list Z))
           (ops : list xop) : list Z :=
  run_qx all_rep (qinit p es choices perms) ops.
