(* Helpers for the translator tie of psiaudio.queue (AbstractSignalQueue and its subclasses):
     translate/pyqueue2coq.py  ->  coq/gen/QueueStepGen.v  (definitions `g_*`, regenerated from the source on every run)
     coq/Queue/ProofsTie.v     :   the generated definitions equal the hand-written model (Queue/Model.v).
   Definitions only.  What is written here is what the translator maps source constructs to: the object as the model's
   record `qstate` plus the notifications delivered so far, exceptions as values, a NumPy array source as a VIEW
   (key, start, stop) of the queued waveform, a generator source as (key, position, length), the few NumPy / list
   primitives the generation path uses. *)
From PV Require Export Common.PySlice Queue.Model.
Open Scope Z_scope.

(* EFuel is not a Python exception: the fuel of a translated `while` loop ran out (the loop would go on) *)
Inductive qexc := EQueueEmpty | EValueError | EKeyError | EIndexError | ETypeError | EStopIteration
                | EZeroDivision | EOracle | EFuel.
Definition qexc_eqb (a b : qexc) : bool :=
  match a, b with
  | EQueueEmpty, EQueueEmpty | EValueError, EValueError | EKeyError, EKeyError | EIndexError, EIndexError
  | ETypeError, ETypeError | EStopIteration, EStopIteration | EZeroDivision, EZeroDivision
  | EOracle, EOracle | EFuel, EFuel => true
  | _, _ => false
  end.

(* a source object: (key, a, b).  ndarray: the samples a..b-1 of the waveform queued under `key` (basic slicing of an
   ndarray gives a view of the same base); generator: the factory queued under `key`, at position a of b samples *)
Definition view := (Z * Z * Z)%type.

(* the object: the model's state and the notifications delivered to the subscribers so far (oldest first) *)
Record obj := { o_q : qstate; o_ev : list event }.

(* a value, or an exception, of an expression that does not change the object *)
Inductive res (A : Type) := Ret (a : A) | Raise (e : qexc).
Arguments Ret {A} a.
Arguments Raise {A} e.
(* outcome of a method: the object afterwards and the value returned, or the exception that escaped and the object
   as the statements before the raise left it *)
Inductive gres (A : Type) := GOk (self : obj) (a : A) | GRaise (e : qexc) (self : obj).
Arguments GOk {A} self a.
Arguments GRaise {A} e self.

Definition rbind {A B} (r : res A) (k : A -> res B) : res B :=
  match r with Ret a => k a | Raise e => Raise e end.
Definition gtry {A B} (r : res A) (self : obj) (k : A -> gres B) : gres B :=
  match r with Ret a => k a | Raise e => GRaise e self end.
Definition gbind {A B} (m : gres A) (k : obj -> A -> gres B) : gres B :=
  match m with GOk s a => k s a | GRaise e s => GRaise e s end.
(* try: m / except e: h *)
Definition gcatch {A B} (m : gres A) (e : qexc) (ok : obj -> A -> gres B) (h : obj -> gres B) : gres B :=
  match m with
  | GOk s a => ok s a
  | GRaise e' s => if qexc_eqb e' e then h s else GRaise e' s
  end.

(* ---- fields: self.<field> reads f_<field> self, `self.<field> = v` is set_<field> self v ----
   Python field               record field
   _data                      q_data        (dict keyed by uuid -> list indexed by insertion number)
   _ordering                  q_ordering
   _source                    q_source
   _delay_samples             q_delay
   _samples                   q_samples
   _paused / _empty           q_paused / q_empty
   _generated                 q_generated
   _i                         q_i (interleaved, grouped: a cursor) / q_iperm (blocked random: the block being consumed)
   _complete                  q_complete
   _keep_complete_waveforms   the argument of q_pol = PInter keep
   _group_size                the argument of q_pol = PGrouped gs *)
Definition f_pol (self : obj) : policy := q_pol (o_q self).
Definition f_data (self : obj) : list entry := q_data (o_q self).
Definition set_data (self : obj) (v : list entry) : obj :=
  {| o_q := {| q_pol := q_pol (o_q self); q_data := v; q_ordering := q_ordering (o_q self); q_source := q_source (o_q self); q_delay := q_delay (o_q self); q_samples := q_samples (o_q self); q_paused := q_paused (o_q self); q_empty := q_empty (o_q self); q_generated := q_generated (o_q self); q_i := q_i (o_q self); q_iperm := q_iperm (o_q self); q_complete := q_complete (o_q self); q_choices := q_choices (o_q self); q_perms := q_perms (o_q self) |}; o_ev := o_ev self |}.
Definition f_ordering (self : obj) : list Z := q_ordering (o_q self).
Definition set_ordering (self : obj) (v : list Z) : obj :=
  {| o_q := {| q_pol := q_pol (o_q self); q_data := q_data (o_q self); q_ordering := v; q_source := q_source (o_q self); q_delay := q_delay (o_q self); q_samples := q_samples (o_q self); q_paused := q_paused (o_q self); q_empty := q_empty (o_q self); q_generated := q_generated (o_q self); q_i := q_i (o_q self); q_iperm := q_iperm (o_q self); q_complete := q_complete (o_q self); q_choices := q_choices (o_q self); q_perms := q_perms (o_q self) |}; o_ev := o_ev self |}.
Definition f_source (self : obj) : option view := q_source (o_q self).
Definition set_source (self : obj) (v : option view) : obj :=
  {| o_q := {| q_pol := q_pol (o_q self); q_data := q_data (o_q self); q_ordering := q_ordering (o_q self); q_source := v; q_delay := q_delay (o_q self); q_samples := q_samples (o_q self); q_paused := q_paused (o_q self); q_empty := q_empty (o_q self); q_generated := q_generated (o_q self); q_i := q_i (o_q self); q_iperm := q_iperm (o_q self); q_complete := q_complete (o_q self); q_choices := q_choices (o_q self); q_perms := q_perms (o_q self) |}; o_ev := o_ev self |}.
Definition f_delay (self : obj) : Z := q_delay (o_q self).
Definition set_delay (self : obj) (v : Z) : obj :=
  {| o_q := {| q_pol := q_pol (o_q self); q_data := q_data (o_q self); q_ordering := q_ordering (o_q self); q_source := q_source (o_q self); q_delay := v; q_samples := q_samples (o_q self); q_paused := q_paused (o_q self); q_empty := q_empty (o_q self); q_generated := q_generated (o_q self); q_i := q_i (o_q self); q_iperm := q_iperm (o_q self); q_complete := q_complete (o_q self); q_choices := q_choices (o_q self); q_perms := q_perms (o_q self) |}; o_ev := o_ev self |}.
Definition f_samples (self : obj) : Z := q_samples (o_q self).
Definition set_samples (self : obj) (v : Z) : obj :=
  {| o_q := {| q_pol := q_pol (o_q self); q_data := q_data (o_q self); q_ordering := q_ordering (o_q self); q_source := q_source (o_q self); q_delay := q_delay (o_q self); q_samples := v; q_paused := q_paused (o_q self); q_empty := q_empty (o_q self); q_generated := q_generated (o_q self); q_i := q_i (o_q self); q_iperm := q_iperm (o_q self); q_complete := q_complete (o_q self); q_choices := q_choices (o_q self); q_perms := q_perms (o_q self) |}; o_ev := o_ev self |}.
Definition f_paused (self : obj) : bool := q_paused (o_q self).
Definition set_paused (self : obj) (v : bool) : obj :=
  {| o_q := {| q_pol := q_pol (o_q self); q_data := q_data (o_q self); q_ordering := q_ordering (o_q self); q_source := q_source (o_q self); q_delay := q_delay (o_q self); q_samples := q_samples (o_q self); q_paused := v; q_empty := q_empty (o_q self); q_generated := q_generated (o_q self); q_i := q_i (o_q self); q_iperm := q_iperm (o_q self); q_complete := q_complete (o_q self); q_choices := q_choices (o_q self); q_perms := q_perms (o_q self) |}; o_ev := o_ev self |}.
Definition f_empty (self : obj) : bool := q_empty (o_q self).
Definition set_empty (self : obj) (v : bool) : obj :=
  {| o_q := {| q_pol := q_pol (o_q self); q_data := q_data (o_q self); q_ordering := q_ordering (o_q self); q_source := q_source (o_q self); q_delay := q_delay (o_q self); q_samples := q_samples (o_q self); q_paused := q_paused (o_q self); q_empty := v; q_generated := q_generated (o_q self); q_i := q_i (o_q self); q_iperm := q_iperm (o_q self); q_complete := q_complete (o_q self); q_choices := q_choices (o_q self); q_perms := q_perms (o_q self) |}; o_ev := o_ev self |}.
Definition f_generated (self : obj) : list info := q_generated (o_q self).
Definition set_generated (self : obj) (v : list info) : obj :=
  {| o_q := {| q_pol := q_pol (o_q self); q_data := q_data (o_q self); q_ordering := q_ordering (o_q self); q_source := q_source (o_q self); q_delay := q_delay (o_q self); q_samples := q_samples (o_q self); q_paused := q_paused (o_q self); q_empty := q_empty (o_q self); q_generated := v; q_i := q_i (o_q self); q_iperm := q_iperm (o_q self); q_complete := q_complete (o_q self); q_choices := q_choices (o_q self); q_perms := q_perms (o_q self) |}; o_ev := o_ev self |}.
Definition f_i (self : obj) : Z := q_i (o_q self).
Definition set_i (self : obj) (v : Z) : obj :=
  {| o_q := {| q_pol := q_pol (o_q self); q_data := q_data (o_q self); q_ordering := q_ordering (o_q self); q_source := q_source (o_q self); q_delay := q_delay (o_q self); q_samples := q_samples (o_q self); q_paused := q_paused (o_q self); q_empty := q_empty (o_q self); q_generated := q_generated (o_q self); q_i := v; q_iperm := q_iperm (o_q self); q_complete := q_complete (o_q self); q_choices := q_choices (o_q self); q_perms := q_perms (o_q self) |}; o_ev := o_ev self |}.
Definition f_iperm (self : obj) : list Z := q_iperm (o_q self).
Definition set_iperm (self : obj) (v : list Z) : obj :=
  {| o_q := {| q_pol := q_pol (o_q self); q_data := q_data (o_q self); q_ordering := q_ordering (o_q self); q_source := q_source (o_q self); q_delay := q_delay (o_q self); q_samples := q_samples (o_q self); q_paused := q_paused (o_q self); q_empty := q_empty (o_q self); q_generated := q_generated (o_q self); q_i := q_i (o_q self); q_iperm := v; q_complete := q_complete (o_q self); q_choices := q_choices (o_q self); q_perms := q_perms (o_q self) |}; o_ev := o_ev self |}.
Definition f_complete (self : obj) : bool := q_complete (o_q self).
Definition set_complete (self : obj) (v : bool) : obj :=
  {| o_q := {| q_pol := q_pol (o_q self); q_data := q_data (o_q self); q_ordering := q_ordering (o_q self); q_source := q_source (o_q self); q_delay := q_delay (o_q self); q_samples := q_samples (o_q self); q_paused := q_paused (o_q self); q_empty := q_empty (o_q self); q_generated := q_generated (o_q self); q_i := q_i (o_q self); q_iperm := q_iperm (o_q self); q_complete := v; q_choices := q_choices (o_q self); q_perms := q_perms (o_q self) |}; o_ev := o_ev self |}.
Definition f_choices (self : obj) : list Z := q_choices (o_q self).
Definition set_choices (self : obj) (v : list Z) : obj :=
  {| o_q := {| q_pol := q_pol (o_q self); q_data := q_data (o_q self); q_ordering := q_ordering (o_q self); q_source := q_source (o_q self); q_delay := q_delay (o_q self); q_samples := q_samples (o_q self); q_paused := q_paused (o_q self); q_empty := q_empty (o_q self); q_generated := q_generated (o_q self); q_i := q_i (o_q self); q_iperm := q_iperm (o_q self); q_complete := q_complete (o_q self); q_choices := v; q_perms := q_perms (o_q self) |}; o_ev := o_ev self |}.
Definition f_perms (self : obj) : list (list Z) := q_perms (o_q self).
Definition set_perms (self : obj) (v : list (list Z)) : obj :=
  {| o_q := {| q_pol := q_pol (o_q self); q_data := q_data (o_q self); q_ordering := q_ordering (o_q self); q_source := q_source (o_q self); q_delay := q_delay (o_q self); q_samples := q_samples (o_q self); q_paused := q_paused (o_q self); q_empty := q_empty (o_q self); q_generated := q_generated (o_q self); q_i := q_i (o_q self); q_iperm := q_iperm (o_q self); q_complete := q_complete (o_q self); q_choices := q_choices (o_q self); q_perms := v |}; o_ev := o_ev self |}.
Definition f_keep (self : obj) : bool := match f_pol self with PInter k => k | _ => true end.
Definition f_group_size (self : obj) : Z := match f_pol self with PGrouped gs => gs | _ => 0 end.

(* self._notify(event, info): the recorder of the harness is the only subscriber *)
Definition notify (self : obj) (e : event) : obj := {| o_q := o_q self; o_ev := o_ev self ++ [e] |}.
Definition ev_added (i : info) : event := EAdded (i_key i) (i_t0 i).
Definition ev_removed (i : info) : event := ERemoved (i_key i) (i_t0 i).

(* ---- NumPy ---- *)
(* np.zeros(n): ValueError on a negative length *)
Definition np_zeros (n : Z) : res (list osample) :=
  if n <? 0 then Raise EValueError else Ret (repeat OZero (Z.to_nat n)).
(* np.concatenate(list of 1-D arrays): ValueError on an empty list *)
Definition np_concatenate (l : list (list osample)) : res (list osample) :=
  match l with [] => Raise EValueError | _ => Ret (concat l) end.

(* ---- array sources ---- *)
Definition view_len (v : view) : Z := let '(k, a, b) := v in b - a.
(* v[lo:hi] of an ndarray: a view of the same waveform, bounds adjusted as CPython does (Common/PySlice) *)
Definition view_slice (lo hi : option Z) (v : view) : view :=
  let '(k, a, b) := v in
  let n := b - a in
  (k, a + py_lo n lo, a + Z.max (py_lo n lo) (py_hi n hi)).
(* the samples of the array *)
Definition view_samples (v : view) : list osample := let '(k, a, b) := v in zrange (fun i => OWave k i) a (b - a).

(* ---- generator sources: n_samples_remaining(), next(n), is_complete() of a factory at position a of b ---- *)
Definition gen_remaining (v : view) : Z := let '(k, a, b) := v in b - a.
Definition gen_samples (v : view) (n : Z) : list osample := let '(k, a, b) := v in zrange (fun i => OWave k i) a n.
Definition gen_advance (v : view) (n : Z) : view := let '(k, a, b) := v in (k, a + n, b).
Definition gen_complete (v : view) : bool := let '(k, a, b) := v in a >=? b.

Definition has_source (self : obj) : bool := match f_source self with Some _ => true | None => false end.

(* which of _get_samples_waveform / _get_samples_generator `self._get_samples` is bound to: next_trial binds it
   together with the source, according to what was queued (ndarray or factory) *)
Definition src_kind (self : obj) : skind :=
  match f_source self with Some (k, _, _) => kind_of (o_q self) k | None => KArray end.

(* ---- self._data: the stimulus dicts.  A local `data = self._data[key]` is a REFERENCE (the dict is shared and
        changed in place): it is translated to the key, after the KeyError check; keys are never deleted ---- *)
Definition null_entry : entry := mk_entry 0 0 KArray [] false.
Definition lookup (self : obj) (key : Z) : res Z :=
  match znth (f_data self) key with Some _ => Ret key | None => Raise EKeyError end.
Definition deref (self : obj) (ref : Z) : entry :=
  match znth (f_data self) ref with Some e => e | None => null_entry end.
(* data['source'] right after reset() (a factory) / as it is (an ndarray): the whole waveform *)
Definition fresh_source (self : obj) (ref : Z) : view := (ref, 0, e_len (deref self ref)).
(* delay = next(data['delays']); int(round(delay * fs)): the iterator advances; StopIteration when a list is exhausted *)
Definition next_delay_samples (self : obj) (ref : Z) : gres Z :=
  match next_delay (deref self ref) with
  | Some dl => GOk (set_data self (upd_entry (f_data self) ref adv_delay)) dl
  | None => GRaise EStopIteration self
  end.

(* ---- lists ---- *)
(* l[i]: negative indices count from the end; IndexError outside *)
Definition py_get {A} (l : list A) (i : Z) : res A :=
  let n := zlen l in
  let j := if i <? 0 then i + n else i in
  if (0 <=? j) && (j <? n)
  then match nth_error l (Z.to_nat j) with Some x => Ret x | None => Raise EIndexError end
  else Raise EIndexError.
(* l.remove(x): ValueError if absent *)
Definition py_remove (x : Z) (l : list Z) : res (list Z) :=
  if memZ x l then Ret (remove1 x l) else Raise EValueError.
(* l.pop(): the last element; IndexError on an empty list *)
Definition py_pop_last (l : list Z) : res (Z * list Z) :=
  match rev l with [] => Raise EIndexError | x :: r => Ret (x, rev r) end.
(* a % b: ZeroDivisionError; otherwise Python's floor modulo is Z.modulo *)
Definition py_mod (a b : Z) : res Z := if b =? 0 then Raise EZeroDivision else Ret (a mod b).

(* `for x in l: if c(x): return ..`: does some element satisfy c (evaluated in order; an exception of c escapes) *)
Fixpoint exists_r {A} (c : A -> res bool) (l : list A) : res bool :=
  match l with
  | [] => Ret false
  | x :: t => match c x with Raise e => Raise e | Ret true => Ret true | Ret false => exists_r c t end
  end.
(* `for x in l: self.m(x)` *)
Fixpoint gfold {A} (f : obj -> A -> gres unit) (l : list A) (self : obj) : gres unit :=
  match l with
  | [] => GOk self tt
  | x :: t => match f self x with GOk s _ => gfold f t s | GRaise e s => GRaise e s end
  end.

(* ---- oracles (random choices): RandomSignalQueue draws the next KEY from q_choices (the model checks that it is
        queued), BlockedRandomSignalQueue the next shuffled block of indices from q_perms ---- *)
Definition draw_choice (self : obj) : gres Z :=
  match f_choices self with
  | k :: rest => if memZ k (f_ordering self) then GOk (set_choices self rest) k else GRaise EOracle self
  | [] => GRaise EOracle self
  end.
Definition draw_perm (self : obj) (n : Z) : gres (list Z) :=
  match f_perms self with
  | p :: rest => if zlen p =? n then GOk (set_perms self rest) p else GRaise EOracle self
  | [] => GRaise EOracle self
  end.

(* ---- how an outcome is observed, in the vocabulary of Queue/Model.v ---- *)
Definition obs_pop (r : gres (list osample)) : option (qstate * list osample * list event) :=
  match r with GOk s out => Some (o_q s, out, o_ev s) | GRaise _ _ => None end.
