(* C04 over the ADDITIONS of the coverage audit: the lemmas Props/C04.v closes with `exact` for
   xop histories (decrement=False requests, rejected pauses that continue, declared durations). *)
From Coq Require Import ZArith List Bool Lia ZifyBool.
From PV Require Import Queue.Model Queue.Spec Queue.SpecX.
From PV Require Import Queue.LemmasC04 Queue.ProofsC04Inv Queue.ProofsC04.
From PV Require Export Queue.ProofsXC04Inv.
Import ListNotations.
Open Scope Z_scope.

(* ------------------------------------------------------------------ *)
(* conservation over every xop history                                 *)
(* ------------------------------------------------------------------ *)
Lemma conservation_x : forall p es ch pm ops q tev,
  wf_queue_x es = true ->
  run_hist_x all_rep (qinit p es ch pm) ops = Some (q, tev) ->
  (forall k t0, zlen (filter (eqb_pairZ (k, t0)) (live_of q)) =
                zlen (filter (eqb_pairZ (k, t0)) (added_of (all_events tev)))
                - zlen (filter (eqb_pairZ (k, t0)) (removed_of (all_events tev)))) /\
  (forall k e, znth es k = Some e ->
               trials_of (q_data q) k + net_presented k (dec_events tev) = e_requested e) /\
  (forall k, net_presented k (dec_events tev) = countZ k (live_dec q)) /\
  (forall k, net_presented k (nd_events tev) = countZ k (live_nd q) /\ 0 <= net_presented k (nd_events tev)).
Proof.
  intros p es ch pm ops q tev W RH.
  pose proof (reachable_invx _ _ _ _ _ _ _ W RH) as I. repeat split.
  - intros k t0. apply (ix_cnt _ _ _ _ I).
  - intros k e He. rewrite dec_events_sel, (ix_net _ _ _ _ I). apply (ix_req _ _ _ _ I). exact He.
  - intros k. rewrite dec_events_sel, (ix_net _ _ _ _ I). reflexivity.
  - rewrite nd_events_sel, (ix_net _ _ _ _ I). reflexivity.
  - rewrite nd_events_sel, (ix_net _ _ _ _ I). apply countZ_nonneg.
Qed.

Lemma at_empty_x : forall p es ch pm ops q tev,
  wf_queue_x es = true ->
  run_hist_x all_rep (qinit p es ch pm) ops = Some (q, tev) -> q_empty q = true ->
  forall k e, znth es k = Some e ->
    if exact_policy p then net_presented k (dec_events tev) = e_requested e
    else e_requested e <= net_presented k (dec_events tev).
Proof.
  intros p es ch pm ops q tev W RH HE k e He.
  pose proof (reachable_invx _ _ _ _ _ _ _ W RH) as I.
  pose proof (ix_req _ _ _ _ I k e He) as R. rewrite live_dec_sel, <- (ix_net _ _ _ _ I) in R.
  rewrite dec_events_sel.
  pose proof (ix_empty _ _ _ _ I HE k) as D.
  pose proof (ix_policy _ _ _ _ I) as PI. unfold pol_inv in PI.
  destruct p as [|keep| | |gs]; cbn [exact_policy].
  - destruct PI as (_ & _ & N). specialize (N k). lia.
  - destruct keep.
    + lia.
    + destruct PI as (_ & N). specialize (N eq_refl k). lia.
  - destruct PI as (_ & _ & N). specialize (N k). lia.
  - lia.
  - lia.
Qed.

(* ------------------------------------------------------------------ *)
(* a REJECTED pause under the repaired code: nothing happens           *)
(* ------------------------------------------------------------------ *)
Lemma rejected_pause_atomic : forall q t q' ev err,
  q_samples q < t -> pause all_rep q (Some t) = (q', ev, err) -> q' = q /\ ev = [] /\ err = true.
Proof.
  intros q t q' ev err Ht H. rewrite (pause_rejected_atomic q t Ht) in H. inversion H. auto.
Qed.

(* ... so the history simply continues as if the call had not been made *)
Lemma rejected_pause_is_skip : forall q t rest,
  q_samples q < t ->
  run_hist_x all_rep q (XPause (Some t) :: rest) = run_hist_x all_rep q rest.
Proof.
  intros q t rest Ht. cbn [run_hist_x]. rewrite (pause_rejected_atomic q t Ht). cbn [combine].
  destruct (run_hist_x all_rep q rest) as [[q2 e2]|]; reflexivity.
Qed.

(* for whole histories: removing every rejected pause changes neither the final state nor the event stream,
   and what is left has no rejected pause *)
Lemma drop_rejected_same : forall ops q,
  run_hist_x all_rep q (drop_rejected all_rep q ops) = run_hist_x all_rep q ops /\
  rejected_pauses all_rep q (drop_rejected all_rep q ops) = 0.
Proof.
  induction ops as [|op ops IH]; intros q; [split; reflexivity|].
  destruct op as [n dec|tm|tm|tc]; cbn [drop_rejected].
  - cbn [run_hist_x rejected_pauses]. destruct (pop_x all_rep q n dec) as [[[q1 o1] e1]|]; [|split; reflexivity].
    destruct (IH q1) as [IH1 IH2]. rewrite IH1. split; [reflexivity|exact IH2].
  - destruct tm as [t|].
    + destruct (Z_le_dec t (q_samples q)) as [Ht|Ht].
      * rewrite (pause_all_rep q t Ht). cbn [run_hist_x rejected_pauses]. rewrite (pause_all_rep q t Ht).
        destruct (IH (pause_state q t)) as [IH1 IH2]. rewrite IH1, IH2. split; reflexivity.
      * assert (Ht' : q_samples q < t) by lia.
        rewrite (pause_rejected_atomic q t Ht'). rewrite (rejected_pause_is_skip q t ops Ht'). apply IH.
    + cbn [pause]. cbn [run_hist_x rejected_pauses pause].
      match goal with |- context [drop_rejected all_rep ?q1 ops] => destruct (IH q1) as [IH1 IH2] end.
      rewrite IH1, IH2. split; reflexivity.
  - cbn [run_hist_x rejected_pauses]. apply IH.
  - cbn [run_hist_x rejected_pauses]. apply IH.
Qed.

(* ------------------------------------------------------------------ *)
(* pause(t) before that repair, for ANY t: accepted or rejected        *)
(* ------------------------------------------------------------------ *)
Lemma pause_exact_nonatomic_any : forall q t q' ev err,
  (forall i, In i (q_generated q) -> 0 <= i_key i < zlen (q_data q)) ->
  pause rep_nonatomic q (Some t) = (q', ev, err) ->
  err = (t >? q_samples q) /\
  ev = map (fun i => ERemoved (i_key i) (i_t0 i)) (filter (fun i => ends_after i t) (rev (q_generated q))) /\
  q_generated q' = filter (fun i => negb (ends_after i t)) (q_generated q) /\
  q_samples q' = Z.min t (q_samples q) /\ q_paused q' = true /\ q_source q' = None /\ q_delay q' = 0 /\
  (forall k, trials_of (q_data q') k =
             trials_of (q_data q) k +
             countZ k (map i_key (filter i_dec (filter (fun i => ends_after i t) (q_generated q))))).
Proof.
  intros q t q' ev err V H. rewrite pause_nonatomic in H. inversion H; subst q' ev err; clear H.
  repeat split.
  intros k. cbn [with_clock pause_state set_pause q_data]. rewrite trials_fold_requeue.
  assert (C : countZ k (pause_requeue q t) =
              countZ k (map i_key (filter i_dec (filter (fun i => ends_after i t) (q_generated q))))).
  { unfold pause_requeue, countZ. rewrite !filter_rev', map_rev. apply zfilt_rev. }
  unfold trials_of. destruct (znth (q_data q) k) eqn:E; [rewrite C; reflexivity|].
  apply znth_None_iff in E. rewrite <- C.
  pose proof (countZ_nonneg k (pause_requeue q t)) as N.
  destruct (Z_lt_dec 0 (countZ k (pause_requeue q t))) as [Hc|Hc]; [|lia].
  exfalso. apply E. apply countZ_pos_In in Hc. unfold pause_requeue in Hc. apply in_map_iff in Hc.
  destruct Hc as (i & <- & Hi). apply filter_In in Hi. destruct Hi as [Hi _].
  apply filter_In in Hi. destruct Hi as [Hi _]. apply in_rev in Hi. apply V. exact Hi.
Qed.

(* what a rejected pause did before the repair (kept for the record): it raised, but had already announced,
   trimmed and restored the trials ending after t, dropped source and delay and paused the queue *)
Lemma rejected_pause_effect_unrepaired : forall q t q' ev err,
  (forall i, In i (q_generated q) -> 0 <= i_key i < zlen (q_data q)) ->
  q_samples q < t -> pause rep_nonatomic q (Some t) = (q', ev, err) ->
  err = true /\
  ev = map (fun i => ERemoved (i_key i) (i_t0 i)) (filter (fun i => ends_after i t) (rev (q_generated q))) /\
  q_generated q' = filter (fun i => negb (ends_after i t)) (q_generated q) /\
  q_samples q' = q_samples q /\ q_paused q' = true /\ q_source q' = None /\ q_delay q' = 0 /\
  (forall k, trials_of (q_data q') k =
             trials_of (q_data q) k +
             countZ k (map i_key (filter i_dec (filter (fun i => ends_after i t) (q_generated q))))).
Proof.
  intros q t q' ev err V Ht H.
  destruct (pause_exact_nonatomic_any q t q' ev err V H) as (A1 & A2 & A3 & A4 & A5 & A6 & A7 & A8).
  repeat (split; [first [assumption | lia]|]). exact A8.
Qed.

(* an accepted pause is the same with and without that repair *)
Lemma pause_accepted_same q t : t <= q_samples q -> pause all_rep q (Some t) = pause rep_nonatomic q (Some t).
Proof.
  intros Ht. rewrite (pause_all_rep q t Ht), pause_nonatomic.
  assert (E : t >? q_samples q = false) by lia. rewrite E, Z.min_l by lia. reflexivity.
Qed.

Lemma reachable_x_log_valid p es ch pm ops q tev :
  wf_queue_x es = true -> run_hist_x all_rep (qinit p es ch pm) ops = Some (q, tev) ->
  forall i, In i (q_generated q) -> 0 <= i_key i < zlen (q_data q).
Proof.
  intros W RH i Hi. pose proof (reachable_invx _ _ _ _ _ _ _ W RH) as I.
  pose proof (ix_log _ _ _ _ I) as L. rewrite Forall_forall in L.
  apply L in Hi. rewrite (ix_len _ _ _ _ I). exact Hi.
Qed.

(* the formula of C04_pause_exact for an ACCEPTED pause in the xop-reachable states (log entries with
   decrement=False, declared durations) *)
Lemma pause_exact_x : forall p es ch pm ops q tev0 t q' ev err,
  wf_queue_x es = true ->
  run_hist_x all_rep (qinit p es ch pm) ops = Some (q, tev0) ->
  t <= q_samples q -> pause all_rep q (Some t) = (q', ev, err) ->
  err = false /\
  ev = map (fun i => ERemoved (i_key i) (i_t0 i)) (filter (fun i => ends_after i t) (rev (q_generated q))) /\
  q_generated q' = filter (fun i => negb (ends_after i t)) (q_generated q) /\
  q_samples q' = t /\ q_paused q' = true /\ q_source q' = None /\ q_delay q' = 0 /\
  (forall k, trials_of (q_data q') k =
             trials_of (q_data q) k +
             countZ k (map i_key (filter i_dec (filter (fun i => ends_after i t) (q_generated q))))).
Proof.
  intros p es ch pm ops q tev0 t q' ev err W RH Ht H. rewrite (pause_accepted_same q t Ht) in H.
  destruct (pause_exact_nonatomic_any q t q' ev err (reachable_x_log_valid _ _ _ _ _ _ _ W RH) H)
    as (A1 & A2 & A3 & A4 & A5 & A6 & A7 & A8).
  repeat (split; [first [assumption | lia]|]). exact A8.
Qed.

(* Before the repair a rejected pause was NOT a no-op, and not even a clean cancellation: the trial in
   progress was dropped (source := None) although neither announced as removed nor given back - here it ends
   at 5, the rejected pause time is 7, the clock is 2: samples 2..4 of the waveform were never played. *)
Lemma rejected_pause_unrepaired_refuted : exists p es ops q tev t q' ev err k pos len,
  wf_queue p es = true /\ wf_queue_x es = true /\
  run_hist_x rep_nonatomic (qinit p es [] []) ops = Some (q, tev) /\
  q_samples q < t /\ pause rep_nonatomic q (Some t) = (q', ev, err) /\ err = true /\
  q_source q = Some (k, pos, len) /\ pos < len /\
  ev = [] /\ q_generated q' = q_generated q /\ q_data q' = q_data q /\
  q_source q' = None /\ q_paused q' = true /\ q' <> q.
Proof.
  set (es := [mk_entry 2 5 KArray [2] true]).
  set (ops := [XPop 2 true]).
  destruct (run_hist_x rep_nonatomic (qinit PFifo es [] []) ops) as [[q tev]|] eqn:RH; [|vm_compute in RH; discriminate].
  exists PFifo, es, ops, q, tev, 7,
         (fst (fst (pause rep_nonatomic q (Some 7)))), (snd (fst (pause rep_nonatomic q (Some 7)))),
         (snd (pause rep_nonatomic q (Some 7))), 0, 2, 5.
  vm_compute in RH. inversion RH; subst q tev; clear RH.
  vm_compute. repeat split; try reflexivity; discriminate.
Qed.

(* ------------------------------------------------------------------ *)
(* after an accepted pause(t) and resume(t2)                           *)
(* ------------------------------------------------------------------ *)
Lemma first_added_at_clock_nd : forall fuel q n q3 out ev,
  q_paused q = false -> q_source q = None -> q_delay q = 0 ->
  pop_loop_nd fuel all_rep q n = Some (q3, out, ev) ->
  match added_of ev with (_, t0) :: _ => t0 = q_samples q | [] => True end.
Proof.
  intros fuel q n q3 out ev Hp Hs Hd H.
  destruct fuel as [|f]; cbn [pop_loop_nd] in H.
  - destruct (n <=? 0); [|discriminate]. inversion H; subst. exact Logic.I.
  - destruct (n <=? 0). { inversion H; subst. exact Logic.I. }
    unfold pop_step_nd in H. rewrite Hp, Hs, Hd in H. cbn [Z.gtb Z.compare] in H.
    destruct (next_trial_nd all_rep q) as [q1 e| |] eqn:NT.
    + apply next_trial_nd_ok in NT. destruct NT as (key & TS).
      rewrite (tx_ev _ _ _ _ _ TS) in H.
      destruct (pop_loop_nd f all_rep _ _) as [[[q2 o2] e2]|]; [|discriminate].
      inversion H; subst. cbn. reflexivity.
    + inversion H; subst. exact Logic.I.
    + discriminate.
Qed.

(* C04_resume_start for requests with or without decrement *)
Lemma resume_start_x : forall q t t2 q1 ev1 err n dec q3 out ev,
  t <= q_samples q ->
  pause all_rep q (Some t) = (q1, ev1, err) ->
  pop_x all_rep (resume q1 (Some t2)) n dec = Some (q3, out, ev) ->
  match added_of ev with (_, t0) :: _ => t0 = t2 | [] => True end.
Proof.
  intros q t t2 q1 ev1 err n dec q3 out ev Ht HP HB.
  rewrite (pause_all_rep q t Ht) in HP. inversion HP; subst q1 ev1 err; clear HP.
  unfold pop_x, pop_buffer, pop_buffer_nd in HB. destruct dec.
  - apply first_added_at_clock in HB; try reflexivity. exact HB.
  - apply first_added_at_clock_nd in HB; try reflexivity. exact HB.
Qed.

(* ------------------------------------------------------------------ *)
(* hypotheses are satisfiable                                          *)
(* ------------------------------------------------------------------ *)
(* declared durations differing from the waveform (longer, shorter, zero), a finite delay list, requests
   with decrement=False, two rejected pauses (20 and 30 > clock) that do not end the history *)
Example hist_x_hyps_ex :
  let es := [mk_entry_dur 2 3 KArray [2] true 5; mk_entry_dur 2 4 KGen [1; 0; 3; 1] false 1] in
  let ops := [XPop 4 false; XPause (Some 20); XResume None; XPop 5 true; XClosest 3; XPause (Some 30);
              XPause (Some 2); XResume (Some 1); XPop 40 true; XPop 40 true] in
  forallb (fun p =>
    let q0 := qinit p es [0;1;0;1;0;1;0;1] [[0;1];[1;0];[0;1];[1;0];[0;1]] in
    wf_queue_x es && negb (wf_queue p es) && wf_hist_x ops && (rejected_pauses all_rep q0 ops =? 2)
    && conservation_x_test p es [0;1;0;1;0;1;0;1] [[0;1];[1;0];[0;1];[1;0];[0;1]] ops
    && match run_hist_x all_rep q0 ops with
       | Some (q, tev) => q_empty q && negb (zlen (nd_events tev) =? 0)
       | None => false end)
    [PFifo; PInter true; PInter false; PRandom; PBlockedRandom; PGrouped 1; PGrouped 2] = true.
Proof. vm_compute. reflexivity. Qed.

(* a reachable mid-trial state (clock 7): pause(9) is rejected and changes nothing - not paused, the pending
   delay kept, nothing announced - and the history with it equals the history without it; an accepted pause(6)
   followed by resume(12) makes the next trial, set up without decrement, start at 12 *)
Example rejected_hyps_ex :
  let es := [mk_entry_dur 2 3 KArray [2] true 5; mk_entry 1 2 KGen [1] true] in
  let q0 := qinit PFifo es [] [] in
  match run_hist_x all_rep q0 [XPop 7 true] with
  | Some (q, _) =>
    let '(q1, ev1, err) := pause all_rep q (Some 9) in
    (q_samples q <? 9) && err && (q_samples q1 =? 7) && negb (q_paused q1) && (zlen ev1 =? 0)
    && (q_delay q1 =? q_delay q) && (zlen (q_generated q1) =? zlen (q_generated q))
    && (rejected_pauses all_rep q0 [XPop 7 true; XPause (Some 9); XPop 30 true] =? 1)
    && (zlen (drop_rejected all_rep q0 [XPop 7 true; XPause (Some 9); XPop 30 true]) =? 2)
    && let '(q2, _, err2) := pause all_rep q (Some 6) in
       negb err2 &&
       match pop_x all_rep (resume q2 (Some 12)) 9 false with
       | Some (_, _, ev) => match added_of ev with (_, t0) :: _ => t0 =? 12 | [] => false end
       | None => false
       end
  | None => false
  end = true.
Proof. vm_compute. reflexivity. Qed.

(* what the DECLARED duration changes (e_dur <> e_len; Spec.wf_entry, hence C04_pause_exact and the C02
   theorems, assume e_dur = e_len): `ends_after` - so cancellation, restoration and log trimming - follow
   the declared duration, not the waveform.
   (a) declared LONGER (8 > 3): at clock 4 the waveform is over (delay running), pause(4) still removes and
       restores the trial, because it is declared to last until 8;
   (b) declared SHORTER (1 < 5): at clock 3 the waveform is still playing, pause(2) neither removes nor
       restores it (declared over at 1) but drops the rest of the waveform. *)
Example declared_duration_governs_ex :
  (let es := [mk_entry_dur 2 3 KArray [2] true 8] in
   match run_hist_x all_rep (qinit PFifo es [] []) [XPop 4 true] with
   | Some (q, _) =>
     let '(q1, ev1, err) := pause all_rep q (Some 4) in
     negb err && match q_source q with None => true | _ => false end
     && eqb_list eqb_pairZ (removed_of ev1) [(0, 0)] && (trials_of (q_data q1) 0 =? 2)
   | None => false end) &&
  (let es := [mk_entry_dur 2 5 KArray [2] true 1] in
   match run_hist_x all_rep (qinit PFifo es [] []) [XPop 3 true] with
   | Some (q, _) =>
     let '(q1, ev1, err) := pause all_rep q (Some 2) in
     negb err && match q_source q with Some (0, 3, 5) => true | _ => false end
     && (zlen ev1 =? 0) && (trials_of (q_data q1) 0 =? 1)
     && match q_source q1 with None => true | _ => false end
   | None => false end) = true.
Proof. vm_compute. reflexivity. Qed.
