(* A queue to which NOTHING has been appended: every policy answers every request with silence and the
   'empty' notification (repair r_empty_guard for the interleaved and blocked-random queues). *)
From Coq Require Import ZArith List Bool Lia ZifyBool.
From PV Require Import Queue.Model Queue.Spec Queue.LemmasC04.
Import ListNotations.
Open Scope Z_scope.

(* every repair in force except r_empty_guard *)
Definition rep_noguard : qrep :=
  {| r_cancel_once := true; r_trim_log := true; r_complete_reset := true; r_grouped_mod := true;
     r_empty_reset := true; r_pause_atomic := true; r_empty_guard := false |}.

(* a running queue with no stimulus, nothing in progress *)
Definition blank (q : qstate) : Prop :=
  q_data q = [] /\ q_ordering q = [] /\ q_source q = None /\ q_delay q = 0 /\ q_paused q = false /\
  q_generated q = [].

Lemma blank_init p ch pm : blank (qinit p [] ch pm).
Proof. repeat split. Qed.

Lemma next_key_blank q : blank q -> next_key all_rep q = NEmpty.
Proof.
  intros (_ & O & _). unfold next_key. rewrite O. cbn [all_rep r_empty_guard r_grouped_mod].
  destruct (q_pol q); try reflexivity; destruct (q_complete q); reflexivity.
Qed.

Definition is_pos (n : Z) : bool := 0 <? n.

(* one request: a positive one returns n zeros, notifies 'empty' once, sets the empty flag and advances the
   clock; a zero-sample one returns nothing, notifies nothing and leaves the state (flag included) as it was *)
Lemma pop_blank q n : blank q -> 0 <= n ->
  pop_buffer all_rep q n =
  Some (if is_pos n then add_samples q n true else q, repeat OZero (Z.to_nat n), if is_pos n then [EEmpty] else []).
Proof.
  intros B Hn. pose proof B as (D & O & S & Dl & Pa & G). unfold pop_buffer, is_pos.
  destruct (pop_fuel_pos q n Hn) as [f ->]. cbn [pop_loop].
  destruct (n <=? 0) eqn:E.
  - assert (n = 0) by lia. subst n. reflexivity.
  - assert (P : 0 <? n = true) by lia. rewrite P.
    unfold pop_step. rewrite Pa, S, Dl. cbn [Z.gtb Z.compare].
    unfold next_trial. rewrite (next_key_blank q B). reflexivity.
Qed.

Lemma blank_add q n b : blank q -> blank (add_samples q n b).
Proof. intros (D & O & S & Dl & Pa & G). repeat split; assumption. Qed.

Lemma pops_blank : forall ns q, blank q -> forallb (fun n => 0 <=? n) ns = true ->
  exists q', pops all_rep q ns =
             Some (q', repeat OZero (Z.to_nat (sumZ ns)), map (fun _ => EEmpty) (filter is_pos ns)) /\
             blank q' /\ q_samples q' = q_samples q + sumZ ns /\
             q_empty q' = q_empty q || existsb is_pos ns.
Proof.
  induction ns as [|n ns IH]; intros q B N.
  - exists q. cbn. rewrite orb_false_r. split; [reflexivity|]. split; [exact B|]. split; [lia|reflexivity].
  - cbn [forallb] in N. apply andb_true_iff in N. destruct N as [N0 N].
    assert (Hn : 0 <= n) by lia.
    assert (S0 : 0 <= sumZ ns).
    { clear - N. induction ns as [|x l IHl]; cbn [sumZ fold_right]; [lia|].
      cbn [forallb] in N. apply andb_true_iff in N. destruct N as [Nx Nl]. specialize (IHl Nl).
      unfold sumZ in IHl. lia. }
    cbn [pops]. rewrite (pop_blank q n B Hn).
    set (q1 := if is_pos n then add_samples q n true else q).
    assert (B1 : blank q1) by (unfold q1; destruct (is_pos n); [apply blank_add|]; exact B).
    destruct (IH q1 B1 N) as (q' & P & B' & Sm & Em). rewrite P. exists q'.
    split; [|split; [exact B'|split]].
    + assert (Hsum : sumZ (n :: ns) = n + sumZ ns) by reflexivity.
      rewrite Hsum, Z2Nat.inj_add, repeat_app by lia.
      cbn [filter]. destruct (is_pos n); reflexivity.
    + assert (Hsum : sumZ (n :: ns) = n + sumZ ns) by reflexivity.
      rewrite Sm, Hsum. unfold q1, is_pos.
      destruct (0 <? n) eqn:P0; cbn [add_samples q_samples]; lia.
    + rewrite Em. cbn [existsb]. unfold q1. destruct (is_pos n); cbn [add_samples q_empty orb];
        [rewrite orb_true_r; reflexivity|reflexivity].
Qed.

(* NO STIMULI: for every policy, every oracle and every sequence of non-negative requests the run succeeds;
   the output is all zeros, of total length sum ns; the notifications are exactly one 'empty' per request of at
   least one sample (a zero-sample request notifies nothing), so no trial is ever added; the clock is sum ns;
   the queue reports empty as soon as one request of at least one sample has been made - and not before:
   zero-sample requests leave the flag as it was; nothing is logged, no trial remains *)
Lemma no_stimuli : forall p ch pm ns, forallb (fun n => 0 <=? n) ns = true ->
  exists q, pops all_rep (qinit p [] ch pm) ns =
            Some (q, repeat OZero (Z.to_nat (sumZ ns)), map (fun _ => EEmpty) (filter (fun n => 0 <? n) ns)) /\
            added_of (map (fun _ : Z => EEmpty) (filter (fun n => 0 <? n) ns)) = [] /\
            q_samples q = sumZ ns /\ q_empty q = existsb (fun n => 0 <? n) ns /\
            q_generated q = [] /\ count_trials q = 0 /\ count_requested q = 0.
Proof.
  intros p ch pm ns N.
  destruct (pops_blank ns (qinit p [] ch pm) (blank_init p ch pm) N) as (q & P & (D & _ & _ & _ & _ & G) & S & E).
  exists q. split; [exact P|]. split.
  { induction (filter (fun n => 0 <? n) ns) as [|x l IH]; [reflexivity|exact IH]. }
  split; [cbn in S; lia|]. split; [exact E|]. split; [exact G|].
  unfold count_trials, count_requested. rewrite D. split; reflexivity.
Qed.

(* before the repair: the interleaved and the blocked-random queue RAISED (ZeroDivisionError / IndexError) on
   any request of at least one sample, whatever the oracle *)
Lemma no_stimuli_unrepaired_refuted : forall ch pm n, 0 < n ->
  pops rep_noguard (qinit (PInter true) [] ch pm) [n] = None /\
  pops rep_noguard (qinit (PInter false) [] ch pm) [n] = None /\
  pops rep_noguard (qinit PBlockedRandom [] ch pm) [n] = None.
Proof.
  intros ch pm n Hn.
  assert (Hn0 : 0 <= n) by lia. assert (E : n <=? 0 = false) by lia.
  repeat split; cbn [pops]; unfold pop_buffer;
    match goal with |- context [pop_fuel ?q n] => destruct (pop_fuel_pos q n Hn0) as [f ->] end;
    cbn [pop_loop]; rewrite E; cbn.
  - reflexivity.
  - reflexivity.
  - destruct pm as [|pp rest]; [reflexivity|]. destruct pp; reflexivity.
Qed.

(* the repaired model on the same requests (hypotheses of no_stimuli are satisfiable; 0-sample requests) *)
Example no_stimuli_ex :
  forallb (fun p =>
    match pops all_rep (qinit p [] [1; 0] [[0]; []]) [0; 5; 0; 3] with
    | Some (q, out, ev) => (zlen out =? 8) && (zlen ev =? 2) && q_empty q && (q_samples q =? 8)
    | None => false end
    && match pops all_rep (qinit p [] [] []) [0; 0] with
       | Some (q, out, ev) => (zlen out =? 0) && (zlen ev =? 0) && negb (q_empty q)
       | None => false end)
    [PFifo; PInter true; PInter false; PRandom; PBlockedRandom; PGrouped 1; PGrouped 2] = true.
Proof. vm_compute. reflexivity. Qed.
