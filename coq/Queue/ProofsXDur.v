(* The declared duration (e_dur) is carried along in the log only: pop_buffer commutes with duration
   erasure, for every repair setting and from every state.  From that, the C02 theorems for stimuli with
   arbitrary declared durations. *)
From Coq Require Import ZArith List Bool Lia ZifyBool.
From PV Require Import Queue.Model Queue.Spec Queue.SpecLists Queue.SpecXDur Queue.LemmasC04.
Import ListNotations.
Open Scope Z_scope.

(* ------------------------------------------------------------------ *)
(* entries                                                             *)
(* ------------------------------------------------------------------ *)
Lemma znth_map {A B} (f : A -> B) l k : znth (map f l) k = option_map f (znth l k).
Proof.
  unfold znth. destruct (k <? 0); [reflexivity|].
  destruct (nth_error l (Z.to_nat k)) eqn:E.
  - rewrite (map_nth_error f _ _ E). reflexivity.
  - apply nth_error_None in E. cbn [option_map]. apply nth_error_None. rewrite map_length. exact E.
Qed.

Lemma zlen_map {A B} (f : A -> B) l : zlen (map f l) = zlen l.
Proof. unfold zlen. rewrite map_length. reflexivity. Qed.

Lemma zupd_map {A} (g f f' : A -> A) : (forall x, g (f x) = f' (g x)) ->
  forall d i, map g (zupd d i f) = zupd (map g d) i f'.
Proof.
  intros H. induction d as [|x d IH]; intros [|i]; cbn [zupd map]; try reflexivity.
  - rewrite H. reflexivity.
  - rewrite IH. reflexivity.
Qed.

Lemma upd_norm d key f : (forall e, norm_dur (f e) = f (norm_dur e)) ->
  map norm_dur (upd_entry d key f) = upd_entry (map norm_dur d) key f.
Proof. intros H. unfold upd_entry. destruct (key <? 0); [reflexivity|]. apply zupd_map. exact H. Qed.

Lemma norm_add n e : norm_dur (add_trials n e) = add_trials n (norm_dur e).
Proof. reflexivity. Qed.
Lemma norm_adv e : norm_dur (adv_delay e) = adv_delay (norm_dur e).
Proof. reflexivity. Qed.

Lemma trials_norm d k : trials_of (map norm_dur d) k = trials_of d k.
Proof. unfold trials_of. rewrite znth_map. destruct (znth d k); reflexivity. Qed.

Lemma len_norm d k : len_of (map norm_dur d) k = len_of d k.
Proof. unfold len_of. rewrite znth_map. destruct (znth d k); reflexivity. Qed.

Lemma len_upd d key f k : (forall e, e_len (f e) = e_len e) -> len_of (upd_entry d key f) k = len_of d k.
Proof.
  intros H. unfold len_of. rewrite znth_upd. destruct (k =? key); [|reflexivity].
  destruct (znth d k); cbn [option_map]; [apply H|reflexivity].
Qed.

Lemma forallb_ext' {A} (f g : A -> bool) l : (forall x, f x = g x) -> forallb f l = forallb g l.
Proof. intros H. induction l as [|x l IH]; cbn [forallb]; [reflexivity|]. rewrite H, IH. reflexivity. Qed.

Lemma all_done_norm d : all_done (map norm_dur d) = all_done d.
Proof. unfold all_done. induction d as [|e d IH]; cbn [map forallb]; [reflexivity|]. rewrite IH. reflexivity. Qed.

Lemma erase_info_ext d d' l : (forall k, len_of d' k = len_of d k) -> map (erase_info d') l = map (erase_info d) l.
Proof. intros H. apply map_ext. intros i. unfold erase_info. rewrite H. reflexivity. Qed.

Lemma erase_set_state q d o i ip c ch pm : (forall k, len_of d k = len_of (q_data q) k) ->
  erase_dur (set_state q d o i ip c ch pm) = set_state (erase_dur q) (map norm_dur d) o i ip c ch pm.
Proof.
  intros H. unfold erase_dur, set_state. cbn. f_equal. apply erase_info_ext. exact H.
Qed.

(* ------------------------------------------------------------------ *)
(* next_key / decrement_key / next_trial                               *)
(* ------------------------------------------------------------------ *)
Lemma inter_skip_norm fuel : forall d o i, inter_skip fuel (map norm_dur d) o i = inter_skip fuel d o i.
Proof.
  induction fuel as [|f IH]; intros d o i; cbn [inter_skip]; [reflexivity|].
  destruct (znth o ((i + 1) mod zlen o)); [|reflexivity]. rewrite trials_norm, IH. reflexivity.
Qed.

Definition erase_nk (r : nk) : nk :=
  match r with NKey k q => NKey k (erase_dur q) | NEmpty => NEmpty | NError => NError end.

Lemma next_key_erase R q : next_key R (erase_dur q) = erase_nk (next_key R q).
Proof.
  unfold next_key.
  cbn [erase_dur q_pol q_ordering q_complete q_i q_data q_choices q_perms q_iperm].
  destruct (q_pol q) as [|keep| | |gs].
  - destruct (q_ordering q); reflexivity.
  - destruct (q_complete q); [reflexivity|].
    destruct (zlen (q_ordering q) =? 0); [destruct (r_empty_guard R); reflexivity|].
    destruct keep.
    + destruct (znth (q_ordering q) ((q_i q + 1) mod zlen (q_ordering q))); reflexivity.
    + rewrite inter_skip_norm. destruct (inter_skip _ _ _ _) as [[i' k]|]; reflexivity.
  - destruct (q_ordering q); [reflexivity|]. destruct (q_choices q); [reflexivity|].
    destruct (memZ _ _); reflexivity.
  - destruct (q_complete q); [reflexivity|].
    destruct (r_empty_guard R && (zlen (q_ordering q) =? 0)); [reflexivity|].
    destruct (q_iperm q) as [|x ip].
    + destruct (q_perms q) as [|pp rest]; [reflexivity|].
      destruct (zlen pp =? zlen (q_ordering q)); cbn [negb]; [|reflexivity].
      destruct (rev pp); [reflexivity|]. destruct (znth (q_ordering q) z); reflexivity.
    + cbn [negb]. destruct (rev (x :: ip)); [reflexivity|]. destruct (znth (q_ordering q) z); reflexivity.
  - destruct (q_ordering q) eqn:O; [reflexivity|]. rewrite <- O.
    destruct (if r_grouped_mod R then Z.min gs (zlen (q_ordering q)) else gs) eqn:M; cbn [Z.eqb];
      try reflexivity;
      destruct (znth (q_ordering q) _); reflexivity.
Qed.

Lemma decrement_key_erase q key :
  decrement_key (erase_dur q) key = option_map erase_dur (decrement_key q key).
Proof.
  unfold decrement_key.
  cbn [erase_dur q_pol q_ordering q_complete q_i q_data q_choices q_perms q_iperm].
  destruct (memZ key (q_ordering q)); cbn [negb]; [|reflexivity].
  rewrite <- (upd_norm _ _ _ (norm_add (-1))).
  set (d := upd_entry (q_data q) key (add_trials (-1))).
  assert (L : forall k, len_of d k = len_of (q_data q) k) by (intros k; apply len_upd; reflexivity).
  destruct (q_pol q) as [|keep| | |gs]; cbn [option_map].
  - rewrite trials_norm, (erase_set_state q d _ _ _ _ _ _ L). reflexivity.
  - rewrite all_done_norm, (erase_set_state q d _ _ _ _ _ _ L). reflexivity.
  - rewrite trials_norm, (erase_set_state q d _ _ _ _ _ _ L). reflexivity.
  - rewrite all_done_norm, (erase_set_state q d _ _ _ _ _ _ L). reflexivity.
  - rewrite (forallb_ext' (fun k => trials_of (map norm_dur d) k <=? 0) (fun k => trials_of d k <=? 0))
      by (intros k; rewrite trials_norm; reflexivity).
    destruct (forallb _ _); cbn [option_map]; rewrite (erase_set_state q d _ _ _ _ _ _ L); reflexivity.
Qed.

Definition erase_nt (r : ntres) : ntres :=
  match r with NTok q ev => NTok (erase_dur q) ev | NTempty => NTempty | NTerror => NTerror end.

Lemma erase_trial q2 key e b :
  znth (q_data q2) key = Some e ->
  forall dl,
  erase_dur
    {| q_pol := q_pol q2; q_data := upd_entry (q_data q2) key adv_delay;
       q_ordering := q_ordering q2; q_source := Some (key, 0, e_len e); q_delay := dl;
       q_samples := q_samples q2; q_paused := q_paused q2; q_empty := q_empty q2;
       q_generated := q_generated q2 ++ [{| i_t0 := q_samples q2; i_dur := e_dur e; i_key := key; i_dec := b |}];
       q_i := q_i q2; q_iperm := q_iperm q2;
       q_complete := q_complete q2; q_choices := q_choices q2; q_perms := q_perms q2 |} =
    {| q_pol := q_pol q2; q_data := upd_entry (map norm_dur (q_data q2)) key adv_delay;
       q_ordering := q_ordering q2; q_source := Some (key, 0, e_len e); q_delay := dl;
       q_samples := q_samples q2; q_paused := q_paused q2; q_empty := q_empty q2;
       q_generated := map (erase_info (q_data q2)) (q_generated q2) ++
                      [{| i_t0 := q_samples q2; i_dur := e_len e; i_key := key; i_dec := b |}];
       q_i := q_i q2; q_iperm := q_iperm q2;
       q_complete := q_complete q2; q_choices := q_choices q2; q_perms := q_perms q2 |}.
Proof.
  intros E dl. unfold erase_dur. cbn.
  assert (L : forall k, len_of (upd_entry (q_data q2) key adv_delay) k = len_of (q_data q2) k)
    by (intros k; apply len_upd; reflexivity).
  rewrite (upd_norm _ _ _ norm_adv), map_app, (erase_info_ext _ _ _ L). cbn [map].
  unfold erase_info at 2. cbn [i_t0 i_key i_dec]. rewrite L. unfold len_of. rewrite E. reflexivity.
Qed.

Lemma next_trial_erase R q : next_trial R (erase_dur q) = erase_nt (next_trial R q).
Proof.
  unfold next_trial. rewrite next_key_erase.
  destruct (next_key R q) as [key q1| |]; cbn [erase_nk erase_nt]; try reflexivity.
  rewrite decrement_key_erase.
  destruct (decrement_key q1 key) as [q2|]; cbn [option_map erase_nt]; [|reflexivity].
  change (q_data (erase_dur q2)) with (map norm_dur (q_data q2)). rewrite znth_map.
  destruct (znth (q_data q2) key) as [e|] eqn:E; cbn [option_map erase_nt]; [|reflexivity].
  change (next_delay (norm_dur e)) with (next_delay e).
  destruct (next_delay e) as [dl|]; [|reflexivity].
  destruct (dl <? 0); [reflexivity|]. cbn [erase_nt]. rewrite (erase_trial q2 key e true E dl). reflexivity.
Qed.

Lemma next_trial_nd_erase R q : next_trial_nd R (erase_dur q) = erase_nt (next_trial_nd R q).
Proof.
  unfold next_trial_nd. rewrite next_key_erase.
  destruct (next_key R q) as [key q2| |]; cbn [erase_nk erase_nt]; try reflexivity.
  change (q_data (erase_dur q2)) with (map norm_dur (q_data q2)). rewrite znth_map.
  destruct (znth (q_data q2) key) as [e|] eqn:E; cbn [option_map erase_nt]; [|reflexivity].
  change (next_delay (norm_dur e)) with (next_delay e).
  destruct (next_delay e) as [dl|]; [|reflexivity].
  destruct (dl <? 0); [reflexivity|]. cbn [erase_nt]. rewrite (erase_trial q2 key e false E dl). reflexivity.
Qed.

(* ------------------------------------------------------------------ *)
(* pop_step / pop_loop / pop_buffer / pops                             *)
(* ------------------------------------------------------------------ *)
Definition erase_pb (r : pbres) : pbres :=
  match r with PBok q o e => PBok (erase_dur q) o e | PBempty => PBempty | PBerror => PBerror end.

Lemma kind_of_erase q key : kind_of (erase_dur q) key = kind_of q key.
Proof. unfold kind_of. cbn [erase_dur q_data]. rewrite znth_map. destruct (znth (q_data q) key); reflexivity. Qed.

Lemma pop_step_erase R q n : pop_step R (erase_dur q) n = erase_pb (pop_step R q n).
Proof.
  unfold pop_step. rewrite next_trial_erase.
  change (q_paused (erase_dur q)) with (q_paused q). change (q_source (erase_dur q)) with (q_source q).
  change (q_delay (erase_dur q)) with (q_delay q).
  destruct (q_paused q); [reflexivity|].
  destruct (q_source q) as [[[key pos] len]|].
  - rewrite kind_of_erase. destruct (kind_of q key).
    + destruct (n >? len - pos); reflexivity.
    + reflexivity.
  - destruct (q_delay q >? 0); [reflexivity|].
    destruct (next_trial R q); reflexivity.
Qed.

Lemma pop_step_nd_erase R q n : pop_step_nd R (erase_dur q) n = erase_pb (pop_step_nd R q n).
Proof.
  unfold pop_step_nd. rewrite pop_step_erase, next_trial_nd_erase.
  change (q_paused (erase_dur q)) with (q_paused q). change (q_source (erase_dur q)) with (q_source q).
  change (q_delay (erase_dur q)) with (q_delay q).
  destruct (q_paused q); [reflexivity|]. destruct (q_source q); [reflexivity|].
  destruct (q_delay q >? 0); [reflexivity|]. destruct (next_trial_nd R q); reflexivity.
Qed.

Lemma add_samples_erase q n b : erase_dur (add_samples q n b) = add_samples (erase_dur q) n b.
Proof. reflexivity. Qed.

Lemma pop_loop_erase R : forall fuel q n, pop_loop fuel R (erase_dur q) n = erase_res (pop_loop fuel R q n).
Proof.
  induction fuel as [|f IH]; intros q n; cbn [pop_loop].
  - destruct (n <=? 0); reflexivity.
  - destruct (n <=? 0); [reflexivity|]. rewrite pop_step_erase.
    destruct (pop_step R q n) as [q1 o1 e1| |]; cbn [erase_pb erase_res]; try reflexivity.
    rewrite <- add_samples_erase, IH.
    destruct (pop_loop f R (add_samples q1 (zlen o1) false) (n - zlen o1)) as [[[q2 o2] e2]|]; reflexivity.
Qed.

Lemma pop_loop_nd_erase R : forall fuel q n, pop_loop_nd fuel R (erase_dur q) n = erase_res (pop_loop_nd fuel R q n).
Proof.
  induction fuel as [|f IH]; intros q n; cbn [pop_loop_nd].
  - destruct (n <=? 0); reflexivity.
  - destruct (n <=? 0); [reflexivity|]. rewrite pop_step_nd_erase.
    destruct (pop_step_nd R q n) as [q1 o1 e1| |]; cbn [erase_pb erase_res]; try reflexivity.
    rewrite <- add_samples_erase, IH.
    destruct (pop_loop_nd f R (add_samples q1 (zlen o1) false) (n - zlen o1)) as [[[q2 o2] e2]|]; reflexivity.
Qed.

Lemma pop_fuel_erase q n : pop_fuel (erase_dur q) n = pop_fuel q n.
Proof.
  unfold pop_fuel, count_trials. cbn [erase_dur q_data]. rewrite zlen_map, map_map. reflexivity.
Qed.

(* pop_buffer commutes with duration erasure: in ANY state, for ANY repair setting *)
Lemma pop_buffer_erase R q n : pop_buffer R (erase_dur q) n = erase_res (pop_buffer R q n).
Proof. unfold pop_buffer. rewrite pop_fuel_erase. apply pop_loop_erase. Qed.

Lemma pop_buffer_nd_erase R q n : pop_buffer_nd R (erase_dur q) n = erase_res (pop_buffer_nd R q n).
Proof. unfold pop_buffer_nd. apply pop_loop_nd_erase. Qed.

Lemma pops_erase R : forall ns q, pops R (erase_dur q) ns = erase_res (pops R q ns).
Proof.
  induction ns as [|n ns IH]; intros q; cbn [pops]; [reflexivity|].
  rewrite pop_buffer_erase. destruct (pop_buffer R q n) as [[[q1 o1] e1]|]; cbn [erase_res]; [|reflexivity].
  rewrite IH. destruct (pops R q1 ns) as [[[q2 o2] e2]|]; reflexivity.
Qed.

Lemma qinit_erase p es ch pm : erase_dur (qinit p es ch pm) = qinit p (map norm_dur es) ch pm.
Proof. unfold erase_dur, qinit. cbn. rewrite zlen_map. reflexivity. Qed.

(* (1) a no-pause run from stimuli with arbitrary declared durations and the run from the same stimuli with
   the duration erased: same success, same output, same notifications, and final states that differ in the
   declared durations (data and log) only - so clock, flags, trial counters, ordering ... are equal *)
Lemma pops_duration_erasure : forall R p es ch pm ns,
  pops R (qinit p (map norm_dur es) ch pm) ns = erase_res (pops R (qinit p es ch pm) ns).
Proof. intros. rewrite <- qinit_erase. apply pops_erase. Qed.

Lemma erase_observables q :
  q_samples (erase_dur q) = q_samples q /\ q_empty (erase_dur q) = q_empty q /\
  q_paused (erase_dur q) = q_paused q /\ q_source (erase_dur q) = q_source q /\
  q_delay (erase_dur q) = q_delay q /\ q_ordering (erase_dur q) = q_ordering q /\
  q_complete (erase_dur q) = q_complete q /\
  map e_trials (q_data (erase_dur q)) = map e_trials (q_data q) /\
  count_trials (erase_dur q) = count_trials q /\ count_requested (erase_dur q) = count_requested q /\
  map (fun i => (i_t0 i, i_key i, i_dec i)) (q_generated (erase_dur q)) =
  map (fun i => (i_t0 i, i_key i, i_dec i)) (q_generated q).
Proof.
  repeat split; unfold count_trials, count_requested; cbn [erase_dur q_data q_generated]; rewrite map_map; reflexivity.
Qed.

(* ------------------------------------------------------------------ *)
(* (3) what the declared duration DOES influence in a request          *)
(* ------------------------------------------------------------------ *)
(* q' continues q by the trials notified in ev: the log grows by one entry per 'added' notification, each
   carrying the declared duration of its stimulus; the declared durations themselves never change *)
Definition grows (q q' : qstate) (ev : list event) : Prop :=
  (exists new, q_generated q' = q_generated q ++ new /\
               map (fun i => (i_key i, i_t0 i)) new = added_of ev /\
               Forall (fun i => i_dur i = dur_of q (i_key i) /\ i_dec i = true) new) /\
  (forall k, dur_of q' k = dur_of q k).

Lemma grows_same q q' ev : q_generated q' = q_generated q -> q_data q' = q_data q -> added_of ev = [] ->
  grows q q' ev.
Proof.
  intros G D A. split.
  - exists []. rewrite app_nil_r, A. repeat split; auto.
  - intros k. unfold dur_of. rewrite D. reflexivity.
Qed.

Lemma grows_trans q q1 q2 e1 e2 : grows q q1 e1 -> grows q1 q2 e2 -> grows q q2 (e1 ++ e2).
Proof.
  intros [(n1 & G1 & A1 & F1) D1] [(n2 & G2 & A2 & F2) D2]. split.
  - exists (n1 ++ n2). rewrite G2, G1, app_assoc, map_app, added_of_app, A1, A2.
    repeat split; auto. apply Forall_app. split; [exact F1|].
    eapply Forall_impl; [|exact F2]. cbn. intros i [H1 H2]. rewrite <- D1. auto.
  - intros k. rewrite D2. apply D1.
Qed.

Lemma dur_of_upd q d' : (forall k, option_map e_dur (znth d' k) = option_map e_dur (znth (q_data q) k)) ->
  forall q', q_data q' = d' -> forall k, dur_of q' k = dur_of q k.
Proof.
  intros H q' E k. unfold dur_of. rewrite E. specialize (H k).
  destruct (znth d' k), (znth (q_data q) k); cbn [option_map] in H; congruence.
Qed.

Lemma dur_upd' d key f k : (forall e, e_dur (f e) = e_dur e) ->
  option_map e_dur (znth (upd_entry d key f) k) = option_map e_dur (znth d k).
Proof.
  intros Hf. rewrite znth_upd. destruct (k =? key); [|reflexivity].
  destruct (znth d k); cbn [option_map]; [rewrite Hf|]; reflexivity.
Qed.

Lemma grows_trial q q' ev key e : trial_step q q' ev key e -> grows q q' [ev].
Proof.
  intros TS. pose proof (ts_e _ _ _ _ _ TS) as E. rewrite znth_upd, Z.eqb_refl in E.
  destruct (znth (q_data q) key) as [e0|] eqn:E0; [|discriminate]. cbn [option_map] in E. inversion E as [E'].
  split.
  - eexists [_]. split; [exact (ts_gen _ _ _ _ _ TS)|]. rewrite (ts_ev _ _ _ _ _ TS). cbn.
    split; [reflexivity|]. constructor; [|constructor]. split; [|reflexivity].
    cbn [i_dur i_key]. unfold dur_of. rewrite E0, <- E'. reflexivity.
  - eapply dur_of_upd; [|exact (ts_data _ _ _ _ _ TS)].
    intros k. rewrite !dur_upd'; reflexivity.
Qed.

Lemma pop_step_grows R q n : match pop_step R q n with
                             | PBok q1 out ev => forall m b, grows q (add_samples q1 m b) ev
                             | _ => True end.
Proof.
  unfold pop_step. destruct (q_paused q). { intros m b. apply grows_same; reflexivity. }
  destruct (q_source q) as [[[key pos] len]|].
  { destruct (kind_of q key); [destruct (n >? len - pos)|]; intros m b; apply grows_same; reflexivity. }
  destruct (q_delay q >? 0). { intros m b. apply grows_same; reflexivity. }
  destruct (next_trial R q) as [q' e| |] eqn:NT; [|exact Logic.I|exact Logic.I].
  intros m b. apply next_trial_ok in NT. destruct NT as (key & en & TS).
  rewrite <- (app_nil_r [e]). eapply grows_trans; [eapply grows_trial; exact TS|].
  apply grows_same; reflexivity.
Qed.

Lemma pop_loop_grows R : forall fuel q n q' out ev,
  pop_loop fuel R q n = Some (q', out, ev) -> grows q q' ev.
Proof.
  induction fuel as [|f IH]; intros q n q' out ev H; cbn [pop_loop] in H.
  - destruct (n <=? 0); [|discriminate]. inversion H; subst. apply grows_same; reflexivity.
  - destruct (n <=? 0). { inversion H; subst. apply grows_same; reflexivity. }
    pose proof (pop_step_grows R q n) as PS.
    destruct (pop_step R q n) as [q1 o1 e1| |].
    + destruct (pop_loop f R (add_samples q1 (zlen o1) false) (n - zlen o1)) as [[[q2 o2] e2]|] eqn:RR;
        [|discriminate].
      inversion H; subst. eapply grows_trans; [apply PS|]. eapply IH; exact RR.
    + inversion H; subst. apply grows_same; reflexivity.
    + discriminate.
Qed.

(* One request, any state, any repair setting.  The declared durations influence NOTHING but the duration
   recorded with each trial set up: the erased state answers the same request with the same output and the
   same notifications and ends in the erased final state; the log grows by exactly one entry per 'added'
   notification (same key and start, decrement = true), whose i_dur is the declared duration of its stimulus -
   the value the notification's info dict carries (dur_of, as encoded by enc_event_x) - and the declared
   durations themselves are never modified. *)
Lemma duration_only_in_log : forall R q n q' out ev,
  pop_buffer R q n = Some (q', out, ev) ->
  pop_buffer R (erase_dur q) n = Some (erase_dur q', out, ev) /\
  (exists new, q_generated q' = q_generated q ++ new /\
               map (fun i => (i_key i, i_t0 i)) new = added_of ev /\
               Forall (fun i => i_dur i = dur_of q (i_key i) /\ i_dec i = true /\
                                enc_event_x q' (EAdded (i_key i) (i_t0 i)) = [1; i_key i; i_t0 i; i_dur i]) new) /\
  (forall k, dur_of q' k = dur_of q k).
Proof.
  intros R q n q' out ev H. split; [rewrite pop_buffer_erase, H; reflexivity|].
  destruct (pop_loop_grows R _ _ _ _ _ _ H) as [(new & G & A & F) D].
  split; [|exact D]. exists new. repeat split; auto.
  eapply Forall_impl; [|exact F]. cbn. intros i [H1 H2]. rewrite D, H1. auto.
Qed.

(* two states that differ in declared durations only answer every request alike *)
Lemma duration_irrelevant : forall R q1 q2 n,
  erase_dur q1 = erase_dur q2 ->
  match pop_buffer R q1 n, pop_buffer R q2 n with
  | Some (q1', o1, e1), Some (q2', o2, e2) => o1 = o2 /\ e1 = e2 /\ erase_dur q1' = erase_dur q2'
  | None, None => True
  | _, _ => False
  end.
Proof.
  intros R q1 q2 n E. pose proof (pop_buffer_erase R q1 n) as H1. pose proof (pop_buffer_erase R q2 n) as H2.
  rewrite E, H2 in H1.
  destruct (pop_buffer R q1 n) as [[[a b] c]|], (pop_buffer R q2 n) as [[[a' b'] c']|];
    cbn [erase_res] in H1; try discriminate; [|exact Logic.I].
  inversion H1. repeat split; congruence.
Qed.

(* ------------------------------------------------------------------ *)
(* (2) the C02 theorems for arbitrary declared durations               *)
(* ------------------------------------------------------------------ *)
From PV Require Import Queue.ProofsC02 Queue.ProofsC02Lists.

Lemma forallb_map' {A B} (f : B -> bool) (g : A -> B) l : forallb f (map g l) = forallb (fun x => f (g x)) l.
Proof. induction l as [|x l IH]; cbn [map forallb]; [reflexivity|]. rewrite IH. reflexivity. Qed.

Lemma wf_norm p es : wf_queue_d p es = true -> wf_queue p (map norm_dur es) = true.
Proof.
  unfold wf_queue_d, wf_queue. rewrite zlen_map, forallb_map'. intros H.
  rewrite (forallb_ext' (fun x => wf_entry (norm_dur x)) wf_entry_d); [exact H|].
  intros e. unfold wf_entry, wf_entry_d. cbn [norm_dur e_trials e_requested e_len e_dur e_dpos e_cyclic e_delays].
  rewrite Z.eqb_refl, andb_true_r. reflexivity.
Qed.

Lemma wf_norm_l p es : wf_queue_ld p es = true -> wf_queue_l p (map norm_dur es) = true.
Proof.
  unfold wf_queue_ld, wf_queue_l. rewrite zlen_map, forallb_map'. intros H.
  rewrite (forallb_ext' (fun x => wf_entry_l (norm_dur x)) wf_entry_ld); [exact H|].
  intros e. unfold wf_entry_l, wf_entry_ld. cbn [norm_dur e_trials e_requested e_len e_dur e_dpos e_cyclic e_delays].
  rewrite Z.eqb_refl, andb_true_r. reflexivity.
Qed.

Lemma progress_norm es : forallb progress_entry (map norm_dur es) = forallb progress_entry es.
Proof. rewrite forallb_map'. reflexivity. Qed.

Lemma find_ext' {A} (f g : A -> bool) l : (forall x, f x = g x) -> find f l = find g l.
Proof. intros H. induction l as [|x l IH]; cbn [find]; [reflexivity|]. rewrite H, IH. reflexivity. Qed.

Lemma zr_ext {A} (f g : Z -> A) : (forall x, f x = g x) -> forall n lo, zr f lo n = zr g lo n.
Proof. intros H. induction n as [|n IH]; intros lo; cbn [zr]; [reflexivity|]. rewrite H, IH. reflexivity. Qed.

Lemma render_norm es added n : render (map norm_dur es) added n = render es added n.
Proof.
  unfold render, zrange. apply zr_ext. intros x. unfold render_at.
  rewrite (find_ext' _ (fun kt => (snd kt <=? x) && (x <? snd kt + len_of es (fst kt)))); [reflexivity|].
  intros kt. rewrite len_norm. reflexivity.
Qed.

Lemma delay_norm es k n : delay_of (map norm_dur es) k n = delay_of es k n.
Proof. unfold delay_of. rewrite znth_map. destruct (znth es k); reflexivity. Qed.

Lemma delay_l_norm es k n : delay_of_l (map norm_dur es) k n = delay_of_l es k n.
Proof. unfold delay_of_l. rewrite znth_map. destruct (znth es k); reflexivity. Qed.

Lemma spacing_norm es : forall added seen, spacing_from (map norm_dur es) seen added = spacing_from es seen added.
Proof.
  induction added as [|[k t0] rest IH]; intros seen; [reflexivity|].
  destruct rest as [|[k1 t1] rest']; [reflexivity|].
  cbn [spacing_from]. cbn [spacing_from] in IH. rewrite len_norm, delay_norm, IH. reflexivity.
Qed.

Lemma spacing_l_norm es : forall added seen, spacing_from_l (map norm_dur es) seen added = spacing_from_l es seen added.
Proof.
  induction added as [|[k t0] rest IH]; intros seen; [reflexivity|].
  destruct rest as [|[k1 t1] rest']; [reflexivity|].
  cbn [spacing_from_l]. cbn [spacing_from_l] in IH. rewrite len_norm, delay_l_norm, IH. reflexivity.
Qed.

Lemma pops_erased p es ch pm ns q out ev :
  pops all_rep (qinit p es ch pm) ns = Some (q, out, ev) ->
  pops all_rep (qinit p (map norm_dur es) ch pm) ns = Some (erase_dur q, out, ev).
Proof. intros H. rewrite pops_duration_erasure, H. reflexivity. Qed.

Lemma timeline_any_duration : forall p es ch pm ns q out ev,
  wf_queue_d p es = true -> forallb (fun n => 0 <=? n) ns = true ->
  pops all_rep (qinit p es ch pm) ns = Some (q, out, ev) ->
  out = render es (added_of ev) (sumZ ns) /\ q_samples q = sumZ ns /\ spacing_ok es (added_of ev) = true.
Proof.
  intros p es ch pm ns q out ev W N H.
  destruct (timeline _ _ _ _ _ _ _ _ (wf_norm _ _ W) N (pops_erased _ _ _ _ _ _ _ _ H)) as (A & B & C).
  rewrite render_norm in A. unfold spacing_ok in *. rewrite spacing_norm in C. auto.
Qed.

Lemma timeline_l_any_duration : forall p es ch pm ns q out ev,
  wf_queue_ld p es = true -> forallb (fun n => 0 <=? n) ns = true ->
  pops all_rep (qinit p es ch pm) ns = Some (q, out, ev) ->
  out = render es (added_of ev) (sumZ ns) /\ q_samples q = sumZ ns /\ spacing_ok_l es (added_of ev) = true.
Proof.
  intros p es ch pm ns q out ev W N H.
  destruct (timeline_l _ _ _ _ _ _ _ _ (wf_norm_l _ _ W) N (pops_erased _ _ _ _ _ _ _ _ H)) as (A & B & C).
  rewrite render_norm in A. unfold spacing_ok_l in *. rewrite spacing_l_norm in C. auto.
Qed.

Lemma chunk_transfer q a b q1 o1 e1 :
  pop_buffer all_rep q (a + b) = Some (q1, o1, e1) ->
  (exists q2 o2 e2, pops all_rep (erase_dur q) [a; b] = Some (q2, o2, e2) /\
     o1 = o2 /\ added_of e1 = added_of e2 /\ q_samples (erase_dur q1) = q_samples q2 /\
     q_empty (erase_dur q1) = q_empty q2 /\
     map e_trials (q_data (erase_dur q1)) = map e_trials (q_data q2)) ->
  exists q2 o2 e2, pops all_rep q [a; b] = Some (q2, o2, e2) /\
    o1 = o2 /\ added_of e1 = added_of e2 /\ q_samples q1 = q_samples q2 /\ q_empty q1 = q_empty q2 /\
    map e_trials (q_data q1) = map e_trials (q_data q2).
Proof.
  intros _ (q2' & o2 & e2 & P & A1 & A2 & A3 & A4 & A5).
  rewrite pops_erase in P. destruct (pops all_rep q [a; b]) as [[[q2 o2'] e2']|]; [|discriminate].
  cbn [erase_res] in P. inversion P; subst q2' o2' e2'. exists q2, o2, e2.
  cbn [erase_dur q_samples q_empty q_data] in A3, A4, A5. rewrite !map_map in A5. cbn [norm_dur e_trials] in A5.
  repeat split; auto.
Qed.

Lemma chunk_invariant_any_duration : forall p es ch pm pre a b q o0 e0 q1 o1 e1,
  wf_queue_d p es = true -> forallb progress_entry es = true ->
  forallb (fun n => 0 <=? n) (a :: b :: pre) = true ->
  pops all_rep (qinit p es ch pm) pre = Some (q, o0, e0) ->
  pop_buffer all_rep q (a + b) = Some (q1, o1, e1) ->
  exists q2 o2 e2, pops all_rep q [a; b] = Some (q2, o2, e2) /\
    o1 = o2 /\ added_of e1 = added_of e2 /\ q_samples q1 = q_samples q2 /\ q_empty q1 = q_empty q2 /\
    map e_trials (q_data q1) = map e_trials (q_data q2).
Proof.
  intros p es ch pm pre a b q o0 e0 q1 o1 e1 W Pg N H PB.
  apply (chunk_transfer q a b q1 o1 e1 PB).
  eapply (chunk_invariant p (map norm_dur es) ch pm pre a b (erase_dur q) o0 e0 (erase_dur q1) o1 e1);
    [apply wf_norm; exact W|rewrite progress_norm; exact Pg|exact N|apply pops_erased; exact H|].
  rewrite pop_buffer_erase, PB. reflexivity.
Qed.

Lemma chunk_invariant_l_any_duration : forall p es ch pm pre a b q o0 e0 q1 o1 e1,
  wf_queue_ld p es = true -> forallb progress_entry es = true ->
  forallb (fun n => 0 <=? n) (a :: b :: pre) = true ->
  pops all_rep (qinit p es ch pm) pre = Some (q, o0, e0) ->
  pop_buffer all_rep q (a + b) = Some (q1, o1, e1) ->
  exists q2 o2 e2, pops all_rep q [a; b] = Some (q2, o2, e2) /\
    o1 = o2 /\ added_of e1 = added_of e2 /\ q_samples q1 = q_samples q2 /\ q_empty q1 = q_empty q2 /\
    map e_trials (q_data q1) = map e_trials (q_data q2).
Proof.
  intros p es ch pm pre a b q o0 e0 q1 o1 e1 W Pg N H PB.
  apply (chunk_transfer q a b q1 o1 e1 PB).
  eapply (chunk_invariant_l p (map norm_dur es) ch pm pre a b (erase_dur q) o0 e0 (erase_dur q1) o1 e1);
    [apply wf_norm_l; exact W|rewrite progress_norm; exact Pg|exact N|apply pops_erased; exact H|].
  rewrite pop_buffer_erase, PB. reflexivity.
Qed.

Lemma never_stuck_any_duration : forall p es ch pm ns,
  wf_queue_d p es = true -> forallb progress_entry es = true -> forallb (fun n => 0 <=? n) ns = true ->
  match p with PRandom | PBlockedRandom => True | _ => pops all_rep (qinit p es ch pm) ns <> None end.
Proof.
  intros p es ch pm ns W Pg N.
  pose proof (never_stuck p (map norm_dur es) ch pm ns (wf_norm _ _ W)) as NS.
  rewrite progress_norm in NS. specialize (NS Pg N).
  rewrite pops_duration_erasure in NS.
  destruct p; auto; intros E; rewrite E in NS; apply NS; reflexivity.
Qed.

(* hypotheses are satisfiable with declared durations longer / shorter than the waveform, zero and negative *)
Example dur_hyps_ex :
  let es := [mk_entry_dur 2 3 KArray [1] true 7; mk_entry_dur 1 2 KGen [0] true (-4); mk_entry_dur 1 1 KArray [2] true 0] in
  let esl := [mk_entry_dur 2 3 KArray [1; 4] false 1; mk_entry_dur 1 0 KGen [2] false 9] in
  wf_queue_d PFifo es = true /\ wf_queue PFifo es = false /\ forallb progress_entry es = true /\
  wf_queue_ld PFifo esl = true /\ wf_queue_l PFifo esl = false /\ forallb progress_entry esl = true /\
  timeline_test PFifo (map norm_dur es) [] [] [2; 5; 0; 9] = true /\
  match pops all_rep (qinit PFifo es [] []) [2; 5; 0; 9] with
  | Some (q, _, ev) => eqb_list eqb_pairZ (added_of ev) [(0, 0); (0, 4); (1, 8); (2, 10)]
                       && eqb_listZ (map i_dur (q_generated q)) [7; 7; -4; 0]
  | None => false end = true /\
  match pops all_rep (qinit PFifo es [] []) [4] with
  | Some (q, _, _) => match pop_buffer all_rep q (3 + 4) with Some _ => true | None => false end
  | None => false end = true /\
  match pops all_rep (qinit PFifo esl [] []) [2; 0; 9; 4] with
  | Some (_, _, ev) => eqb_list eqb_pairZ (added_of ev) [(0, 0); (0, 4); (1, 11)]
  | None => false end = true.
Proof. vm_compute. repeat split; reflexivity. Qed.
