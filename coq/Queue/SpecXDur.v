(* Vocabulary for lifting the C02 theorems to arbitrary DECLARED durations (append(..., duration=d),
   Model.mk_entry_dur: e_dur <> e_len).  Definitions only. *)
From PV Require Export Queue.Model Queue.Spec Queue.SpecLists.

(* ---------- duration erasure: forget the declared duration, keep everything else ---------- *)
Definition norm_dur (e : entry) : entry :=
  {| e_trials := e_trials e; e_requested := e_requested e; e_len := e_len e; e_kind := e_kind e;
     e_delays := e_delays e; e_cyclic := e_cyclic e; e_dpos := e_dpos e; e_dur := e_len e |}.

(* a log entry with the duration the erased stimulus would have logged *)
Definition erase_info (d : list entry) (i : info) : info :=
  {| i_t0 := i_t0 i; i_dur := len_of d (i_key i); i_key := i_key i; i_dec := i_dec i |}.

(* the state with every declared duration replaced by the waveform length, in the data and in the log *)
Definition erase_dur (q : qstate) : qstate :=
  {| q_pol := q_pol q; q_data := map norm_dur (q_data q); q_ordering := q_ordering q;
     q_source := q_source q; q_delay := q_delay q; q_samples := q_samples q; q_paused := q_paused q;
     q_empty := q_empty q; q_generated := map (erase_info (q_data q)) (q_generated q);
     q_i := q_i q; q_iperm := q_iperm q; q_complete := q_complete q; q_choices := q_choices q;
     q_perms := q_perms q |}.

Definition erase_res (r : option (qstate * list osample * list event)) :=
  match r with Some (q, o, e) => Some (erase_dur q, o, e) | None => None end.

(* ---------- well-formedness without the clause e_dur = e_len ---------- *)
(* Spec.wf_entry minus (e_dur e =? e_len e): the declared duration is ARBITRARY (longer, shorter, zero, negative) *)
Definition wf_entry_d (e : entry) : bool :=
  (1 <=? e_trials e) && (e_requested e =? e_trials e) && (0 <=? e_len e)
  && (e_dpos e =? 0) && e_cyclic e
  && match e_delays e with [] => false | _ => forallb (fun d => 0 <=? d) (e_delays e) end.
Definition wf_queue_d (p : policy) (es : list entry) : bool :=
  (1 <=? zlen es) && forallb wf_entry_d es && wf_policy p (zlen es).

(* SpecLists.wf_entry_l minus the same clause (per-trial delay lists allowed) *)
Definition wf_entry_ld (e : entry) : bool :=
  (1 <=? e_trials e) && (e_requested e =? e_trials e) && (0 <=? e_len e)
  && (e_dpos e =? 0)
  && match e_delays e with [] => false | _ => forallb (fun d => 0 <=? d) (e_delays e) end.
Definition wf_queue_ld (p : policy) (es : list entry) : bool :=
  (1 <=? zlen es) && forallb wf_entry_ld es && wf_policy p (zlen es).
