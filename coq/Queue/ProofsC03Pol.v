(* C03: what one call of next_trial does under each policy (repaired code, all_rep). *)
From PV Require Import Queue.Model Queue.Spec Queue.LemmasC03 Queue.ProofsC03Run.
From PV Require Import Stim.ProofsLib.
From Coq Require Import ZArith List Bool Lia ZifyBool.
Import ListNotations.
Open Scope Z_scope.

Ltac prj := cbn [q_pol q_data q_ordering q_source q_delay q_samples q_paused q_empty q_generated
                 q_i q_iperm q_complete q_choices q_perms set_state set_src add_samples] in *.

Lemma all_done_map d : all_done d = forallb (fun x => x <=? 0) (map e_trials d).
Proof. unfold all_done. now rewrite forallb_map. Qed.
Lemma map_trials_adv d k : map e_trials (upd_entry d k adv_delay) = map e_trials d.
Proof. unfold upd_entry. destruct (k <? 0); [reflexivity|]. apply map_zupd_id. reflexivity. Qed.
Lemma all_done_adv d k : all_done (upd_entry d k adv_delay) = all_done d.
Proof. now rewrite !all_done_map, map_trials_adv. Qed.

Definition dec_data (q : qstate) (k : Z) : list entry := upd_entry (q_data q) k (add_trials (-1)).

Lemma nt_fifo q q' k t : q_pol q = PFifo -> next_trial all_rep q = NTok q' (EAdded k t) ->
  (exists rest, q_ordering q = k :: rest) /\
  q_ordering q' = (if trials_of (dec_data q k) k <=? 0 then remove1 k (q_ordering q) else q_ordering q).
Proof.
  intros Hpol H. apply next_trial_inv in H.
  destruct H as (key & q1 & q2 & e & dl & Hk & Hd & He & Hdl & Hdl0 & Hev & Hq').
  injection Hev as <- _.
  unfold next_key in Hk. rewrite Hpol in Hk. destruct (q_ordering q) as [|k0 rest] eqn:Eo; [discriminate|].
  injection Hk as <- <-.
  unfold decrement_key in Hd. rewrite Hpol, Eo in Hd. destruct (memZ k0 (k0 :: rest)); cbn [negb] in Hd; [|discriminate].
  injection Hd as <-. subst q'. prj. split; [eauto|]. reflexivity.
Qed.

Lemma nt_random q q' k t : q_pol q = PRandom -> next_trial all_rep q = NTok q' (EAdded k t) ->
  q_ordering q' = (if trials_of (dec_data q k) k <=? 0 then remove1 k (q_ordering q) else q_ordering q).
Proof.
  intros Hpol H. apply next_trial_inv in H.
  destruct H as (key & q1 & q2 & e & dl & Hk & Hd & He & Hdl & Hdl0 & Hev & Hq').
  injection Hev as <- _.
  unfold next_key in Hk. rewrite Hpol in Hk. destruct (q_ordering q) as [|k0 rest] eqn:Eo; [discriminate|].
  destruct (q_choices q) as [|c chs]; [discriminate|]. destruct (memZ c (k0 :: rest)); [|discriminate].
  injection Hk as <- <-.
  unfold decrement_key in Hd. prj. rewrite Hpol, ?Eo in Hd.
  destruct (memZ c (k0 :: rest)); cbn [negb] in Hd; [|discriminate].
  injection Hd as <-. subst q'. prj. reflexivity.
Qed.

Lemma nt_inter keep q q' k t : q_pol q = PInter keep -> next_trial all_rep q = NTok q' (EAdded k t) ->
  q_complete q = false /\ zlen (q_ordering q) <> 0 /\ q_ordering q' = q_ordering q /\
  q_complete q' = all_done (q_data q') /\
  (if keep then q_i q' = (q_i q + 1) mod zlen (q_ordering q) /\ znth (q_ordering q) (q_i q') = Some k
   else inter_skip (length (q_ordering q)) (q_data q) (q_ordering q) (q_i q) = Some (q_i q', k)).
Proof.
  intros Hpol H. apply next_trial_inv in H.
  destruct H as (key & q1 & q2 & e & dl & Hk & Hd & He & Hdl & Hdl0 & Hev & Hq').
  injection Hev as <- _.
  unfold next_key in Hk. rewrite Hpol in Hk. destruct (q_complete q) eqn:Ec; [discriminate|].
  destruct (zlen (q_ordering q) =? 0) eqn:Ez; [discriminate|].
  assert (Hcore : forall i', q1 = set_state q (q_data q) (q_ordering q) i' (q_iperm q) false (q_choices q) (q_perms q) ->
     q_ordering q' = q_ordering q /\ q_complete q' = all_done (q_data q') /\ q_i q' = i').
  { intros i' ->. unfold decrement_key in Hd. prj. rewrite Hpol in Hd.
    destruct (memZ k (q_ordering q)); cbn [negb] in Hd; [|discriminate].
    injection Hd as <-. subst q'. prj. rewrite all_done_adv. auto. }
  split; [reflexivity|]. split; [lia|].
  destruct keep.
  - destruct (znth (q_ordering q) _) as [k0|] eqn:En; [|discriminate]. injection Hk as <- <-.
    destruct (Hcore _ eq_refl) as (Ho & Hc & Hi). rewrite Hi. auto.
  - destruct (inter_skip _ _ _ _) as [[i' k0]|] eqn:En; [|discriminate]. injection Hk as <- <-.
    destruct (Hcore _ eq_refl) as (Ho & Hc & Hi). rewrite Hi. auto.
Qed.

Lemma nt_blocked q q' k t : q_pol q = PBlockedRandom -> next_trial all_rep q = NTok q' (EAdded k t) ->
  q_complete q = false /\ q_ordering q' = q_ordering q /\ q_complete q' = all_done (q_data q') /\
  exists i, znth (q_ordering q) i = Some k /\
    rev (q_iperm q) ++ blocks_order (q_perms q) = i :: rev (q_iperm q') ++ blocks_order (q_perms q').
Proof.
  intros Hpol H. apply next_trial_inv in H.
  destruct H as (key & q1 & q2 & e & dl & Hk & Hd & He & Hdl & Hdl0 & Hev & Hq').
  injection Hev as <- _.
  unfold next_key in Hk. rewrite Hpol in Hk. destruct (q_complete q) eqn:Ec; [discriminate|].
  destruct (r_empty_guard all_rep && (zlen (q_ordering q) =? 0)); [discriminate|].
  assert (Hcore : forall ip' pm', q1 = set_state q (q_data q) (q_ordering q) (q_i q) ip' false (q_choices q) pm' ->
     q_ordering q' = q_ordering q /\ q_complete q' = all_done (q_data q') /\ q_iperm q' = ip' /\ q_perms q' = pm').
  { intros ip' pm' ->. unfold decrement_key in Hd. prj. rewrite Hpol in Hd.
    destruct (memZ k (q_ordering q)); cbn [negb] in Hd; [|discriminate].
    injection Hd as <-. subst q'. prj. rewrite all_done_adv. auto. }
  split; [reflexivity|].
  destruct (q_iperm q) as [|a ip] eqn:Eip.
  - destruct (q_perms q) as [|pp rest] eqn:Epm; [discriminate|].
    destruct (negb _); [discriminate|]. destruct (rev pp) as [|i rr] eqn:Er; [discriminate|].
    destruct (znth (q_ordering q) i) as [k0|] eqn:En; [|discriminate]. injection Hk as <- <-.
    destruct (Hcore _ _ eq_refl) as (Ho & Hc & Hi & Hp). split; [exact Ho|]. split; [exact Hc|].
    exists i. split; [exact En|]. rewrite Hi, Hp, rev_involutive. unfold blocks_order. cbn [map concat rev app].
    rewrite Er. reflexivity.
  - cbn [negb] in Hk. destruct (rev (a :: ip)) as [|i rr] eqn:Er; [discriminate|].
    destruct (znth (q_ordering q) i) as [k0|] eqn:En; [|discriminate]. injection Hk as <- <-.
    destruct (Hcore _ _ eq_refl) as (Ho & Hc & Hi & Hp). split; [exact Ho|]. split; [exact Hc|].
    exists i. split; [exact En|]. rewrite Hi, Hp, rev_involutive. reflexivity.
Qed.

Lemma nt_grouped gs q q' k t : q_pol q = PGrouped gs -> next_trial all_rep q = NTok q' (EAdded k t) ->
  let o := q_ordering q in
  let m := Z.min gs (zlen o) in
  o <> [] /\ m <> 0 /\ q_i q' = (q_i q + 1) mod m /\ znth o (q_i q') = Some k /\
  q_ordering q' = (if forallb (fun j => trials_of (dec_data q k) j <=? 0) (firstn (Z.to_nat gs) o)
                   then skipn (Z.to_nat gs) o else o).
Proof.
  intros Hpol H. apply next_trial_inv in H.
  destruct H as (key & q1 & q2 & e & dl & Hk & Hd & He & Hdl & Hdl0 & Hev & Hq').
  injection Hev as <- _.
  unfold next_key in Hk. rewrite Hpol in Hk. cbn [r_grouped_mod all_rep] in Hk.
  destruct (q_ordering q) as [|k0 rest] eqn:Eo; [discriminate|]. rewrite <- Eo in *.
  destruct (Z.min gs (zlen (q_ordering q)) =? 0) eqn:Em; [discriminate|].
  destruct (znth (q_ordering q) _) as [k1|] eqn:En; [|discriminate]. injection Hk as -> <-.
  unfold decrement_key in Hd. prj. rewrite Hpol in Hd.
  destruct (memZ k (q_ordering q)); cbn [negb] in Hd; [|discriminate].
  cbv zeta. split; [congruence|]. split; [lia|]. fold (dec_data q k) in Hd.
  destruct (forallb _ _) eqn:Ef; injection Hd as <-; subst q'; prj; rewrite ?fold_remove1_firstn; auto.
Qed.

(* ====================================================================== *)
(* FIFO and random: ordering = stimuli with trials left; counts are exact *)
Lemma trials_of_dec d k j : 0 <= k < zlen d ->
  trials_of (upd_entry d k (add_trials (-1))) j = trials_of d j - (if j =? k then 1 else 0).
Proof.
  intros Hk. rewrite trials_of_upd. destruct (j =? k) eqn:E; [|lia].
  apply Z.eqb_eq in E. subst j. destruct (znth_some d k Hk) as [e He]. unfold trials_of. rewrite He. cbn. lia.
Qed.

Definition CExactR (data : list entry) (ord : list Z) : Prop :=
  NoDup ord /\ (forall k, In k ord <-> 0 < trials_of data k) /\ (forall k, 0 <= trials_of data k).
Definition CExact (keys : list Z) (q : qstate) : Prop := CExactR (q_data q) (q_ordering q).

Definition rest_of (data : list entry) (ord : list Z) : list Z :=
  concat (map (fun k => repeat k (Z.to_nat (trials_of data k))) ord).
Definition CFifo (es : list entry) (keys : list Z) (q : qstate) : Prop :=
  CExactR (q_data q) (q_ordering q) /\ keys ++ rest_of (q_data q) (q_ordering q) = fifo_order es.

Section Exact.
Variables (p : policy) (es : list entry).
Hypothesis Hwf : forallb wf_entry es = true.

Lemma CExact_init ch pm : CExact [] (qinit p es ch pm).
Proof.
  unfold CExact, CExactR. cbn. split; [apply NoDup_zrange_id|]. split.
  - intros k. rewrite In_zrange_id. unfold trials_of. destruct (znth es k) as [e|] eqn:E.
    + pose proof (znth_range _ _ _ E). apply znth_In in E.
      pose proof (wf_entry_facts _ (es_wf _ Hwf _ E)). lia.
    + split; [|lia]. intros Hr. destruct (znth_some es k) as [x Hx]; [lia|congruence].
  - intros k. unfold trials_of. destruct (znth es k) as [e|] eqn:E; [|lia].
    apply znth_In in E. pose proof (wf_entry_facts _ (es_wf _ Hwf _ E)). lia.
Qed.

Lemma CExact_step keys q q' k t : Base p es keys q -> CExact keys q ->
  next_trial all_rep q = NTok q' (EAdded k t) ->
  q_ordering q' = (if trials_of (dec_data q k) k <=? 0 then remove1 k (q_ordering q) else q_ordering q) ->
  CExact (keys ++ [k]) q' /\ 1 <= trials_of (q_data q) k /\ 0 <= k < zlen (q_data q) /\
  (forall j, trials_of (q_data q') j = trials_of (q_data q) j - (if j =? k then 1 else 0)) /\
  trials_of (dec_data q k) k = trials_of (q_data q) k - 1.
Proof.
  intros B (Hnd & Hin & Hnn) Hnt Ho'. pose proof (Base_zlen _ _ _ _ B) as Hlen.
  destruct (next_trial_facts _ _ _ _ Hnt) as (k' & e & dl & Hev & F). injection Hev as <- _.
  assert (Hk : 0 <= k < zlen (q_data q)).
  { rewrite Hlen. apply (b_ord _ _ _ _ _ _ _ _ _ _ _ _ B). apply (nf_in _ _ _ _ _ F). }
  assert (Ht : 1 <= trials_of (q_data q) k).
  { pose proof (proj1 (Hin k) (nf_in _ _ _ _ _ F)). lia. }
  assert (Htr : forall j, trials_of (q_data q') j = trials_of (q_data q) j - (if j =? k then 1 else 0)).
  { intros j. rewrite (nf_data _ _ _ _ _ F). now apply trials_of_dec_adv. }
  assert (Hdk : trials_of (dec_data q k) k = trials_of (q_data q) k - 1).
  { unfold dec_data. rewrite trials_of_dec by exact Hk. rewrite Z.eqb_refl. lia. }
  split; [|auto]. unfold CExact, CExactR. rewrite Ho', Hdk. split; [|split].
  - destruct (trials_of (q_data q) k - 1 <=? 0); [now apply remove1_NoDup|exact Hnd].
  - intros j. rewrite Htr. destruct (trials_of (q_data q) k - 1 <=? 0) eqn:E.
    + rewrite (remove1_In_iff _ _ _ Hnd), Hin. destruct (Z.eqb_spec j k) as [->|Hne]; lia.
    + rewrite Hin. destruct (Z.eqb_spec j k) as [->|Hne]; lia.
  - intros j. rewrite Htr. specialize (Hnn j). destruct (Z.eqb_spec j k) as [->|Hne]; lia.
Qed.

Lemma CExact_done keys q : Base p es keys q -> CExact keys q -> q_ordering q = [] ->
  count_trials q = 0 /\ forall k, countZ k keys = reqk es k.
Proof.
  intros B (Hnd & Hin & Hnn) Ho. rewrite Ho in Hin.
  assert (Hz : forall k, trials_of (q_data q) k = 0).
  { intros k. specialize (Hin k). specialize (Hnn k). cbn [In] in Hin. lia. }
  split.
  - apply count_trials_zero. apply all_done_iff. intros k. rewrite Hz. lia.
  - intros k. pose proof (b_trials _ _ _ _ _ _ _ _ _ _ _ _ B k). rewrite Hz in H. lia.
Qed.

Lemma rest_of_init : rest_of es (zrange idZ 0 (zlen es)) = fifo_order es.
Proof.
  unfold rest_of, fifo_order. f_equal. rewrite zrange_map. apply zrange_ext. intros k Hk.
  cbn beta. rewrite Z.add_0_l. f_equal. f_equal. unfold trials_of.
  destruct (znth es k) as [e|] eqn:E; [|reflexivity].
  apply znth_In in E. pose proof (wf_entry_facts _ (es_wf _ Hwf _ E)). lia.
Qed.

Lemma CFifo_init ch pm : p = PFifo -> CFifo es [] (qinit p es ch pm).
Proof.
  intros _. split; [apply (CExact_init ch pm)|]. cbn. apply rest_of_init.
Qed.

Lemma CFifo_step keys q q' k t : p = PFifo -> Base p es keys q -> CFifo es keys q ->
  next_trial all_rep q = NTok q' (EAdded k t) -> CFifo es (keys ++ [k]) q'.
Proof.
  intros Hp B (HE & Hseq) Hnt.
  assert (Hpol : q_pol q = PFifo) by (rewrite <- Hp; apply (b_pol _ _ _ _ _ _ _ _ _ _ _ _ B)).
  destruct (nt_fifo _ _ _ _ Hpol Hnt) as ((rest & Ho) & Ho').
  destruct (CExact_step _ _ _ _ _ B HE Hnt Ho') as (HE' & Ht & Hk & Htr & Hdk).
  split; [exact HE'|]. rewrite <- Hseq, Ho', Hdk, Ho. destruct HE as (Hnd & _ & _). rewrite Ho in Hnd.
  inversion Hnd as [|? ? Hnotin Hnd']; subst.
  assert (Hrest : rest_of (q_data q') rest = rest_of (q_data q) rest).
  { unfold rest_of. f_equal. apply map_ext_in. intros j Hj. rewrite Htr.
    destruct (j =? k) eqn:Ej; [apply Z.eqb_eq in Ej; subst; contradiction|]. now rewrite Z.sub_0_r. }
  unfold rest_of at 2. cbn [map concat]. fold (rest_of (q_data q) rest).
  replace (Z.to_nat (trials_of (q_data q) k)) with (S (Z.to_nat (trials_of (q_data q) k - 1))) by lia.
  cbn [repeat]. rewrite <- app_assoc. cbn [app]. f_equal. f_equal.
  destruct (trials_of (q_data q) k - 1 <=? 0) eqn:E.
  - cbn [remove1]. rewrite Z.eqb_refl, Hrest.
    replace (Z.to_nat (trials_of (q_data q) k - 1)) with O by lia. reflexivity.
  - unfold rest_of at 1. cbn [map concat]. fold (rest_of (q_data q') rest). rewrite Hrest, Htr, Z.eqb_refl.
    reflexivity.
Qed.
End Exact.
