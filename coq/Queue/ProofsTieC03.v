(* C03 over runs of the GENERATED pop_buffer (gen/QueueStepGen.v, regenerated from psiaudio/queue.py on every run):
   a successful generated run IS the model's run (ProofsTie.tie_pops), so the C03 theorems about `pops` hold of it. *)
From Coq Require Import ZArith List Bool Lia.
From PV Require Import Queue.Model Queue.Spec Queue.ProofsC03 Queue.TieLib gen.QueueStepGen Queue.ProofsTie.
Import ListNotations.
Open Scope Z_scope.

Theorem source_run_is_model_run : forall p es ch pm ns self out,
  wf_policy p (zlen es) = true -> oracle_ok p pm ->
  g_pops (mk (qinit p es ch pm) []) ns = GOk self out ->
  pops all_rep (qinit p es ch pm) ns = Some (o_q self, out, o_ev self).
Proof.
  intros p es ch pm ns self out Hp Ho Hg.
  pose proof (tie_pops ns (qinit p es ch pm) [] (tie_wf_init p es ch pm Hp Ho)) as H.
  destruct (pops all_rep (qinit p es ch pm) ns) as [[[q' o'] ev]|].
  - rewrite H in Hg. injection Hg as <- <-. reflexivity.
  - destruct H as (x & s & H). rewrite H in Hg. discriminate.
Qed.

Theorem source_policy_order : forall p es ch pm ns self out,
  wf_queue p es = true -> forallb progress_entry es = true -> oracle_ok p pm ->
  forallb (fun n => 0 <=? n) ns = true ->
  g_pops (mk (qinit p es ch pm) []) ns = GOk self out -> q_empty (o_q self) = true ->
  let keys := keys_of (o_ev self) in
  let req := requested_of es in
  count_trials (o_q self) = 0 /\ count_requested (o_q self) = sumZ req /\
  match p with
  | PFifo => keys = fifo_order es
  | PInter keep => keys = inter_order keep es /\
                   (if keep then stops_at_first_moment req keys = true else counts_of (zlen es) keys = req)
  | PRandom => counts_of (zlen es) keys = req
  | PBlockedRandom => stops_at_first_moment req keys = true /\ is_prefix keys (blocks_order pm) = true
  | PGrouped gs => stops_at_first_moment req keys = true /\ groups_in_order gs keys = true
  end.
Proof.
  intros p es ch pm ns self out Hwf Hpr Ho Hns Hg He.
  pose proof (source_run_is_model_run p es ch pm ns self out (wf_queue_policy _ _ Hwf) Ho Hg) as Hm.
  exact (policy_order p es ch pm ns (o_q self) out (o_ev self) Hwf Hpr Hns Hm He).
Qed.

(* after the generated run has reported empty, one more generated request: silence, one 'empty' notification *)
Theorem source_after_empty : forall p es ch pm ns self out n,
  wf_queue p es = true -> oracle_ok p pm -> forallb (fun n => 0 <=? n) ns = true -> 1 <= n ->
  g_pops (mk (qinit p es ch pm) []) ns = GOk self out -> q_empty (o_q self) = true ->
  exists self', g_pop_buffer (pop_fuel (o_q self) n) self n true = GOk self' (repeat OZero (Z.to_nat n)) /\
    o_ev self' = o_ev self ++ [EEmpty] /\
    q_empty (o_q self') = true /\ count_trials (o_q self') = 0 /\ count_requested (o_q self') = count_requested (o_q self).
Proof.
  intros p es ch pm ns self out n Hwf Ho Hns Hn Hg He.
  pose proof (source_run_is_model_run p es ch pm ns self out (wf_queue_policy _ _ Hwf) Ho Hg) as Hm.
  destruct (after_empty p es ch pm ns (o_q self) out (o_ev self) n Hwf Hns Hn Hm He) as (q' & Hp & A1 & A2 & A3).
  pose proof (tie_wf_pops _ _ _ _ _ (tie_wf_init p es ch pm (wf_queue_policy _ _ Hwf) Ho) Hm) as Hw.
  pose proof (tie_pop_buffer_ev (pop_fuel (o_q self) n) (o_q self) (o_ev self) n Hw) as H1.
  unfold pop_buffer in Hp. rewrite Hp in H1.
  exists (mk q' (o_ev self ++ [EEmpty])). destruct self as [q ev]. cbn [o_q o_ev mk] in *. auto.
Qed.

Example source_c03_ex :
  let es := [mk_entry 2 1 KArray [0] true; mk_entry 1 2 KGen [1] true] in
  wf_queue (PInter true) es = true /\ forallb progress_entry es = true /\ oracle_ok (PInter true) [] /\
  match g_pops (mk (qinit (PInter true) es [] []) []) [3; 20] with
  | GOk self out => q_empty (o_q self) && eqb_listZ (keys_of (o_ev self)) [0; 1; 0]
  | GRaise _ _ => false
  end = true.
Proof. cbn zeta. repeat split; try reflexivity. intros H; discriminate. Qed.
