(* List / Z helper lemmas for the C03 proofs (Queue/ProofsC03*.v).  Stdlib only. *)
From PV Require Import Queue.Model Queue.Spec.
From PV Require Import Stim.ProofsLib.
From Coq Require Import ZArith List Bool Lia ZifyBool.
Import ListNotations.
Open Scope Z_scope.

Notation idZ := (fun i : Z => i).

(* ---------- zlen ---------- *)
Lemma zlen_nonneg {A} (l : list A) : 0 <= zlen l.
Proof. unfold zlen. lia. Qed.
Lemma zlen_nil {A} : zlen (@nil A) = 0.
Proof. reflexivity. Qed.
Lemma zlen_cons {A} (x : A) l : zlen (x :: l) = zlen l + 1.
Proof. unfold zlen. cbn [length]. lia. Qed.
Lemma zlen_app {A} (a b : list A) : zlen (a ++ b) = zlen a + zlen b.
Proof. unfold zlen. rewrite app_length. lia. Qed.
Lemma zlen_zero_nil {A} (l : list A) : zlen l = 0 -> l = [].
Proof. destruct l; [reflexivity|]. rewrite zlen_cons. pose proof (zlen_nonneg l). lia. Qed.
Lemma zlen_repeat {A} (x : A) n : zlen (repeat x n) = Z.of_nat n.
Proof. unfold zlen. now rewrite repeat_length. Qed.
Lemma zlen_zrange' {A} (f : Z -> A) lo n : zlen (zrange f lo n) = Z.max 0 n.
Proof. unfold zlen, zrange. rewrite zr_length. lia. Qed.

(* ---------- znth ---------- *)
Lemma znth_range {A} (l : list A) i x : znth l i = Some x -> 0 <= i < zlen l.
Proof.
  unfold znth, zlen. destruct (i <? 0) eqn:E; [discriminate|]. intros H.
  assert (Hn : nth_error l (Z.to_nat i) <> None) by congruence.
  apply nth_error_Some in Hn. lia.
Qed.
Lemma znth_some {A} (l : list A) i : 0 <= i < zlen l -> exists x, znth l i = Some x.
Proof.
  unfold znth, zlen. intros H. destruct (i <? 0) eqn:E; [lia|].
  destruct (nth_error l (Z.to_nat i)) eqn:En; [eauto|].
  apply nth_error_None in En. lia.
Qed.
Lemma znth_none {A} (l : list A) i : ~ (0 <= i < zlen l) -> znth l i = None.
Proof.
  intros H. destruct (znth l i) eqn:E; [|reflexivity]. apply znth_range in E. lia.
Qed.
Lemma znth_In {A} (l : list A) i x : znth l i = Some x -> In x l.
Proof. unfold znth. destruct (i <? 0); [discriminate|]. apply nth_error_In. Qed.
Lemma In_znth {A} (l : list A) x : In x l -> exists i, znth l i = Some x.
Proof.
  intros H. apply In_nth_error in H. destruct H as [k Hk]. exists (Z.of_nat k).
  unfold znth. destruct (Z.of_nat k <? 0) eqn:E; [lia|]. now rewrite Nat2Z.id.
Qed.
Lemma znth_cons_0 {A} (x : A) l : znth (x :: l) 0 = Some x.
Proof. reflexivity. Qed.
Lemma znth_map {A B} (g : A -> B) l i : znth (map g l) i = option_map g (znth l i).
Proof. unfold znth. destruct (i <? 0); [reflexivity|]. apply nth_error_map. Qed.

Lemma nth_error_zr {A} (f : Z -> A) n : forall lo j, (j < n)%nat ->
  nth_error (zr f lo n) j = Some (f (lo + Z.of_nat j)).
Proof.
  induction n as [|n IH]; intros lo j Hj; [lia|]. cbn [zr].
  destruct j as [|j]; cbn [nth_error].
  - f_equal. f_equal. lia.
  - rewrite IH by lia. f_equal. f_equal. lia.
Qed.
Lemma znth_zrange {A} (f : Z -> A) lo n i : 0 <= i < n -> znth (zrange f lo n) i = Some (f (lo + i)).
Proof.
  intros H. unfold znth, zrange. destruct (i <? 0) eqn:E; [lia|].
  rewrite nth_error_zr by lia. f_equal. f_equal. lia.
Qed.
Lemma znth_zrange_inv {A} (f : Z -> A) lo n i x :
  znth (zrange f lo n) i = Some x -> 0 <= i < n /\ x = f (lo + i).
Proof.
  intros H. pose proof (znth_range _ _ _ H) as Hr. rewrite zlen_zrange' in Hr.
  assert (Hi : 0 <= i < n) by lia. split; [exact Hi|].
  rewrite znth_zrange in H by exact Hi. congruence.
Qed.

Lemma list_ext_nth {A} (a : list A) : forall b, (forall i, nth_error a i = nth_error b i) -> a = b.
Proof.
  induction a as [|x a IH]; intros b H.
  - destruct b as [|y b]; [reflexivity|]. specialize (H O). discriminate.
  - destruct b as [|y b]; [specialize (H O); discriminate|].
    f_equal.
    + specialize (H O). cbn in H. congruence.
    + apply IH. intros i. exact (H (S i)).
Qed.
Lemma list_ext_znth {A} (a b : list A) : (forall i, znth a i = znth b i) -> a = b.
Proof.
  intros H. apply list_ext_nth. intros i. specialize (H (Z.of_nat i)). unfold znth in H.
  destruct (Z.of_nat i <? 0) eqn:E; [lia|]. now rewrite Nat2Z.id in H.
Qed.

(* ---------- zr / zrange of the identity ---------- *)
Lemma zr_map {A B} (f : Z -> A) (g : A -> B) n : forall lo, map g (zr f lo n) = zr (fun k => g (f k)) lo n.
Proof. induction n as [|n IH]; intros lo; cbn [zr map]; [reflexivity|]. now rewrite IH. Qed.
Lemma zrange_map {A B} (f : Z -> A) (g : A -> B) lo n : map g (zrange f lo n) = zrange (fun k => g (f k)) lo n.
Proof. apply zr_map. Qed.

Lemma In_zr_id n : forall lo k, In k (zr idZ lo n) <-> lo <= k < lo + Z.of_nat n.
Proof.
  induction n as [|n IH]; intros lo k; cbn [zr In]; [lia|]. rewrite IH. lia.
Qed.
Lemma In_zrange_id a L k : In k (zrange idZ a L) <-> a <= k < a + L.
Proof. unfold zrange. rewrite In_zr_id. lia. Qed.
Lemma NoDup_zr_id n : forall lo, NoDup (zr idZ lo n).
Proof.
  induction n as [|n IH]; intros lo; cbn [zr]; constructor; [|apply IH].
  rewrite In_zr_id. lia.
Qed.
Lemma NoDup_zrange_id a L : NoDup (zrange idZ a L).
Proof. apply NoDup_zr_id. Qed.
Lemma zrange_id_cons a L : 0 < L -> zrange idZ a L = a :: zrange idZ (a + 1) (L - 1).
Proof.
  intros H. unfold zrange. replace (Z.to_nat L) with (S (Z.to_nat (L - 1))) by lia. reflexivity.
Qed.
Lemma map_as_zrange {A B} (g : A -> B) (d0 : B) (l : list A) :
  map g l = zrange (fun k => match znth l k with Some e => g e | None => d0 end) 0 (zlen l).
Proof.
  apply list_ext_znth. intros i. rewrite znth_map.
  destruct (znth l i) eqn:E.
  - pose proof (znth_range _ _ _ E) as Hr. rewrite znth_zrange by exact Hr.
    cbn [option_map]. rewrite Z.add_0_l, E. reflexivity.
  - cbn [option_map]. symmetry. apply znth_none. rewrite zlen_zrange'.
    intros Hr. destruct (znth_some l i) as [x Hx]; [pose proof (zlen_nonneg l); lia|]. congruence.
Qed.

(* ---------- zupd / upd_entry ---------- *)
Lemma zupd_length {A} (l : list A) f : forall i, length (zupd l i f) = length l.
Proof. induction l as [|x l IH]; intros [|i]; cbn [zupd length]; auto. Qed.
Lemma zlen_zupd {A} (l : list A) f i : zlen (zupd l i f) = zlen l.
Proof. unfold zlen. now rewrite zupd_length. Qed.
Lemma nth_error_zupd {A} (l : list A) f : forall i j,
  nth_error (zupd l i f) j = if Nat.eqb j i then option_map f (nth_error l j) else nth_error l j.
Proof.
  induction l as [|x l IH]; intros i j.
  - destruct i; cbn [zupd]; destruct j; cbn [nth_error]; destruct (Nat.eqb _ _); reflexivity.
  - destruct i as [|i]; destruct j as [|j]; cbn [zupd nth_error Nat.eqb]; try reflexivity.
    apply IH.
Qed.
Lemma znth_zupd {A} (l : list A) f i j : 0 <= j ->
  znth (zupd l i f) j = if j =? Z.of_nat i then option_map f (znth l j) else znth l j.
Proof.
  intros Hj. unfold znth. destruct (j <? 0) eqn:E; [lia|]. rewrite nth_error_zupd.
  destruct (Nat.eqb (Z.to_nat j) i) eqn:E1; destruct (j =? Z.of_nat i) eqn:E2; try reflexivity.
  - apply Nat.eqb_eq in E1. lia.
  - apply Nat.eqb_neq in E1. lia.
Qed.
Lemma zlen_upd_entry d k f : zlen (upd_entry d k f) = zlen d.
Proof. unfold upd_entry. destruct (k <? 0); [reflexivity|]. apply zlen_zupd. Qed.
Lemma znth_upd_entry d k f j :
  znth (upd_entry d k f) j = if j =? k then option_map f (znth d j) else znth d j.
Proof.
  unfold upd_entry. destruct (k <? 0) eqn:Ek.
  - destruct (j =? k) eqn:E; [|reflexivity].
    unfold znth. destruct (j <? 0) eqn:Ej; [reflexivity|lia].
  - destruct (j <? 0) eqn:Ej.
    + unfold znth. rewrite Ej. destruct (j =? k); reflexivity.
    + rewrite znth_zupd by lia. rewrite Z2Nat.id by lia. reflexivity.
Qed.
Lemma trials_of_upd d k f j :
  trials_of (upd_entry d k f) j =
  if j =? k then match znth d j with Some e => e_trials (f e) | None => 0 end else trials_of d j.
Proof.
  unfold trials_of. rewrite znth_upd_entry. destruct (j =? k); [|reflexivity].
  destruct (znth d j); reflexivity.
Qed.
Lemma trials_of_dec_adv d k j : 0 <= k < zlen d ->
  trials_of (upd_entry (upd_entry d k (add_trials (-1))) k adv_delay) j
  = trials_of d j - (if j =? k then 1 else 0).
Proof.
  intros Hk. rewrite trials_of_upd. destruct (j =? k) eqn:E.
  - rewrite znth_upd_entry, E. apply Z.eqb_eq in E. subst j.
    destruct (znth_some d k Hk) as [e He]. unfold trials_of. rewrite He. cbn. lia.
  - rewrite trials_of_upd, E. lia.
Qed.
Lemma Forall2_zupd {A B} (R : A -> B -> Prop) (f : A -> A) l l' :
  (forall x y, R x y -> R (f x) y) -> Forall2 R l l' -> forall i, Forall2 R (zupd l i f) l'.
Proof.
  intros Hf H. induction H as [|x y l l' Hxy H IH]; intros [|i]; cbn [zupd]; constructor; auto.
Qed.
Lemma Forall2_upd_entry {B} (R : entry -> B -> Prop) f d l' k :
  (forall x y, R x y -> R (f x) y) -> Forall2 R d l' -> Forall2 R (upd_entry d k f) l'.
Proof. intros Hf H. unfold upd_entry. destruct (k <? 0); [exact H|]. now apply Forall2_zupd. Qed.
Lemma Forall2_znth {A B} (R : A -> B -> Prop) l l' : Forall2 R l l' ->
  forall i x, znth l i = Some x -> exists y, znth l' i = Some y /\ R x y.
Proof.
  intros H i x. unfold znth. destruct (i <? 0); [discriminate|]. generalize (Z.to_nat i). clear i.
  induction H as [|a b l l' Hab H IH]; intros [|k]; cbn [nth_error]; try discriminate.
  - intros [= <-]. eauto.
  - apply IH.
Qed.
Lemma Forall2_zlen {A B} (R : A -> B -> Prop) l l' : Forall2 R l l' -> zlen l = zlen l'.
Proof. intros H. unfold zlen. induction H; cbn [length]; lia. Qed.
Lemma Forall2_map_eq {A B C} (R : A -> B -> Prop) (g : A -> C) (h : B -> C) l l' :
  (forall x y, R x y -> g x = h y) -> Forall2 R l l' -> map g l = map h l'.
Proof. intros Hg H. induction H; cbn [map]; [reflexivity|]. f_equal; auto. Qed.
Lemma Forall2_same {A} (R : A -> A -> Prop) l : (forall x, R x x) -> Forall2 R l l.
Proof. intros H. induction l; constructor; auto. Qed.

Lemma map_zupd {A B} (g : A -> B) (f : A -> A) (f' : B -> B) l :
  (forall x, g (f x) = f' (g x)) -> forall i, map g (zupd l i f) = zupd (map g l) i f'.
Proof.
  intros H. induction l as [|x l IH]; intros [|i]; cbn [zupd map]; try reflexivity.
  - now rewrite H.
  - now rewrite IH.
Qed.
Lemma map_zupd_id {A B} (g : A -> B) (f : A -> A) l :
  (forall x, g (f x) = g x) -> forall i, map g (zupd l i f) = map g l.
Proof.
  intros H. induction l as [|x l IH]; intros [|i]; cbn [zupd map]; try reflexivity.
  - now rewrite H.
  - now rewrite IH.
Qed.
Lemma sumZ_cons x l : sumZ (x :: l) = x + sumZ l.
Proof. reflexivity. Qed.
Lemma sum_map_zupd {A} (g : A -> Z) (f : A -> A) l : forall i x, nth_error l i = Some x ->
  sumZ (map g (zupd l i f)) = sumZ (map g l) - g x + g (f x).
Proof.
  induction l as [|y l IH]; intros [|i] x; cbn [nth_error]; try discriminate.
  - intros [= ->]. cbn [zupd map]. rewrite !sumZ_cons. lia.
  - intros H. cbn [zupd map]. rewrite !sumZ_cons. rewrite (IH _ _ H). lia.
Qed.
Lemma sum_map_upd_entry (g : entry -> Z) d k f e : znth d k = Some e ->
  sumZ (map g (upd_entry d k f)) = sumZ (map g d) - g e + g (f e).
Proof.
  unfold znth, upd_entry. destruct (k <? 0); [discriminate|]. apply sum_map_zupd.
Qed.

(* ---------- sums ---------- *)
Lemma sumZ_app a b : sumZ (a ++ b) = sumZ a + sumZ b.
Proof. induction a as [|x a IH]; cbn [app]; [cbn; lia|]. rewrite !sumZ_cons. lia. Qed.
Lemma sumZ_nonneg l : (forall x, In x l -> 0 <= x) -> 0 <= sumZ l.
Proof.
  induction l as [|y l IH]; intros H; [cbn; lia|]. rewrite sumZ_cons.
  assert (0 <= y) by (apply H; now left). assert (0 <= sumZ l) by (apply IH; intros; apply H; now right). lia.
Qed.
Lemma sumZ_In_le l x : (forall y, In y l -> 0 <= y) -> In x l -> x <= sumZ l.
Proof.
  induction l as [|y l IH]; intros H Hin; [contradiction|]. rewrite sumZ_cons.
  assert (0 <= y) by (apply H; now left).
  assert (0 <= sumZ l) by (apply sumZ_nonneg; intros; apply H; now right).
  destruct Hin as [->|Hin]; [lia|].
  assert (x <= sumZ l) by (apply IH; [intros; apply H; now right|exact Hin]). lia.
Qed.

(* ---------- countZ / memZ / remove1 ---------- *)
Lemma countZ_nil k : countZ k [] = 0.
Proof. reflexivity. Qed.
Lemma countZ_cons k x l : countZ k (x :: l) = (if k =? x then 1 else 0) + countZ k l.
Proof. unfold countZ. cbn [filter]. destruct (k =? x); [rewrite zlen_cons|]; lia. Qed.
Lemma countZ_app k a b : countZ k (a ++ b) = countZ k a + countZ k b.
Proof. unfold countZ. now rewrite filter_app, zlen_app. Qed.
Lemma countZ_snoc k l x : countZ k (l ++ [x]) = countZ k l + (if k =? x then 1 else 0).
Proof. rewrite countZ_app, countZ_cons, countZ_nil. lia. Qed.
Lemma countZ_nonneg k l : 0 <= countZ k l.
Proof. apply zlen_nonneg. Qed.
Lemma countZ_notin k l : ~ In k l -> countZ k l = 0.
Proof.
  induction l as [|x l IH]; intros H; [reflexivity|]. rewrite countZ_cons.
  destruct (k =? x) eqn:E; [exfalso; apply H; left; lia|]. rewrite IH; [lia|]. intros Hin. apply H. now right.
Qed.
Lemma countZ_le_zlen k l : countZ k l <= zlen l.
Proof.
  induction l as [|x l IH]; [cbn; lia|]. rewrite countZ_cons, zlen_cons. destruct (k =? x); lia.
Qed.

Lemma memZ_In x l : memZ x l = true <-> In x l.
Proof.
  unfold memZ. rewrite existsb_exists. split.
  - intros [y [Hy E]]. apply Z.eqb_eq in E. now subst.
  - intros H. exists x. split; [exact H|apply Z.eqb_refl].
Qed.

Lemma remove1_In x k l : In x (remove1 k l) -> In x l.
Proof.
  induction l as [|y l IH]; cbn [remove1]; [tauto|]. destruct (k =? y).
  - intros H. now right.
  - intros [H|H]; [now left|right; auto].
Qed.
Lemma remove1_NoDup k l : NoDup l -> NoDup (remove1 k l).
Proof.
  induction l as [|y l IH]; cbn [remove1]; intros H; [constructor|].
  inversion H as [|? ? Hy Hl]; subst. destruct (k =? y); [exact Hl|].
  constructor; [|auto]. intros Hin. apply Hy. eapply remove1_In; eauto.
Qed.
Lemma remove1_In_iff x k l : NoDup l -> (In x (remove1 k l) <-> In x l /\ x <> k).
Proof.
  induction l as [|y l IH]; cbn [remove1 In]; intros H; [tauto|].
  inversion H as [|? ? Hy Hl]; subst. destruct (k =? y) eqn:E.
  - apply Z.eqb_eq in E. subst y. split.
    + intros Hin. split; [now right|]. intros ->. contradiction.
    + intros [[Hx|Hx] Hne]; [congruence|exact Hx].
  - apply Z.eqb_neq in E. cbn [In]. rewrite (IH Hl). split.
    + intros [Hx|[Hx Hne]]; [split; [now left|congruence]|split; [now right|exact Hne]].
    + intros [[Hx|Hx] Hne]; [now left|right; tauto].
Qed.
Lemma fold_remove1_firstn c : forall o, fold_left (fun o k => remove1 k o) (firstn c o) o = skipn c o.
Proof.
  induction c as [|c IH]; intros o; [reflexivity|]. destruct o as [|x o]; [reflexivity|].
  cbn [firstn fold_left skipn remove1]. rewrite Z.eqb_refl. apply IH.
Qed.

(* ---------- all_done / count_trials ---------- *)
Lemma all_done_iff d : all_done d = true <-> forall k, trials_of d k <= 0.
Proof.
  unfold all_done. rewrite forallb_forall. split.
  - intros H k. unfold trials_of. destruct (znth d k) eqn:E; [|lia].
    apply znth_In in E. specialize (H _ E). lia.
  - intros H e He. apply In_znth in He. destruct He as [i Hi]. specialize (H i).
    unfold trials_of in H. rewrite Hi in H. lia.
Qed.
Lemma all_done_false d : all_done d = false -> exists k, 0 <= k < zlen d /\ 0 < trials_of d k.
Proof.
  unfold all_done. intros H.
  assert (Hex : exists e, In e d /\ (e_trials e <=? 0) = false).
  { induction d as [|e d IH]; [discriminate|]. cbn [forallb] in H. apply andb_false_iff in H.
    destruct H as [H|H]; [exists e; split; [now left|exact H]|].
    destruct (IH H) as [e' [Hin He']]. exists e'. split; [now right|exact He']. }
  destruct Hex as [e [Hin He]]. apply In_znth in Hin. destruct Hin as [i Hi]. exists i.
  split; [eapply znth_range; eauto|]. unfold trials_of. rewrite Hi. lia.
Qed.
Lemma count_trials_nonneg q : 0 <= count_trials q.
Proof.
  unfold count_trials. apply sumZ_nonneg. intros x Hx. apply in_map_iff in Hx.
  destruct Hx as [e [<- _]]. lia.
Qed.
Lemma count_trials_zero q : count_trials q = 0 <-> all_done (q_data q) = true.
Proof.
  unfold count_trials, all_done. induction (q_data q) as [|e d IH]; [cbn; tauto|].
  cbn [map forallb]. rewrite sumZ_cons, andb_true_iff, <- IH.
  assert (0 <= sumZ (map (fun e0 => Z.max (e_trials e0) 0) d)).
  { apply sumZ_nonneg. intros x Hx. apply in_map_iff in Hx. destruct Hx as [e' [<- _]]. lia. }
  lia.
Qed.

(* ---------- satisfied ---------- *)
Lemma forallb_combine_zr (P : Z -> Z -> bool) l : forall lo,
  forallb (fun kr => P (fst kr) (snd kr)) (combine (zr idZ lo (length l)) l) = true <->
  (forall j r, nth_error l j = Some r -> P (lo + Z.of_nat j) r = true).
Proof.
  induction l as [|x l IH]; intros lo.
  - cbn. split; [intros _ j r; destruct j; discriminate|reflexivity].
  - cbn [length zr combine forallb fst snd]. rewrite andb_true_iff, IH. split.
    + intros [H0 H] [|j] r; cbn [nth_error].
      * intros [= <-]. replace (lo + Z.of_nat 0) with lo by lia. exact H0.
      * intros Hj. specialize (H _ _ Hj). replace (lo + Z.of_nat (S j)) with (lo + 1 + Z.of_nat j) by lia. exact H.
    + intros H. split.
      * specialize (H O x eq_refl). replace (lo + Z.of_nat 0) with lo in H by lia. exact H.
      * intros j r Hj. specialize (H (S j) r Hj).
        replace (lo + Z.of_nat (S j)) with (lo + 1 + Z.of_nat j) in H by lia. exact H.
Qed.
Lemma satisfied_iff req keys :
  satisfied req keys = true <-> forall k r, znth req k = Some r -> r <= countZ k keys.
Proof.
  unfold satisfied, zrange, zlen. rewrite Nat2Z.id.
  rewrite (forallb_combine_zr (fun k r => r <=? countZ k keys)). split.
  - intros H k r Hk. pose proof (znth_range _ _ _ Hk) as Hr. unfold znth in Hk.
    destruct (k <? 0) eqn:E; [discriminate|]. specialize (H _ _ Hk).
    rewrite Z2Nat.id in H by lia. cbn in H. lia.
  - intros H j r Hj. specialize (H (Z.of_nat j) r). unfold znth in H.
    destruct (Z.of_nat j <? 0) eqn:E; [lia|]. rewrite Nat2Z.id in H. specialize (H Hj). cbn. lia.
Qed.

(* ---------- misc ---------- *)
Lemma nondecreasing_snoc l x : nondecreasing l = true -> (forall y, In y l -> y <= x) ->
  nondecreasing (l ++ [x]) = true.
Proof.
  induction l as [|a l IH]; intros Hnd Hle; [reflexivity|].
  destruct l as [|b l].
  - cbn. rewrite andb_true_r. apply Z.leb_le. apply Hle. now left.
  - cbn [nondecreasing app] in *. apply andb_true_iff in Hnd. destruct Hnd as [Hab Hnd].
    apply andb_true_iff. split; [exact Hab|]. apply IH; [exact Hnd|]. intros y Hy. apply Hle. now right.
Qed.
Lemma is_prefix_app a b : is_prefix a (a ++ b) = true.
Proof. induction a as [|x a IH]; [reflexivity|]. cbn [app is_prefix]. now rewrite Z.eqb_refl, IH. Qed.
Lemma forallb_map {A B} (P : B -> bool) (g : A -> B) l : forallb P (map g l) = forallb (fun x => P (g x)) l.
Proof. induction l as [|x l IH]; cbn [map forallb]; [reflexivity|]. now rewrite IH. Qed.
Lemma forallb_false_ex {A} (P : A -> bool) l : forallb P l = false -> exists x, In x l /\ P x = false.
Proof.
  induction l as [|y l IH]; [discriminate|]. cbn [forallb]. intros H. apply andb_false_iff in H.
  destruct H as [H|H]; [exists y; split; [now left|exact H]|].
  destruct (IH H) as [x [Hin Hx]]. exists x. split; [now right|exact Hx].
Qed.
Lemma removelast_snoc {A} (l : list A) x : removelast (l ++ [x]) = l.
Proof. apply removelast_last. Qed.
Lemma zlen_concat_le (a b c : list Z) : a ++ b = c -> zlen a <= zlen c.
Proof. intros <-. rewrite zlen_app. pose proof (zlen_nonneg b). lia. Qed.
