(* C02: the request loop needs at most 4*samples + 3 iterations (under progress_entry), the fuel of
   pop_buffer is therefore enough, and the deterministic policies never raise. *)
From PV Require Import Queue.Model Queue.Spec Queue.LemmasC02.
From Coq Require Import ZArith List Bool Lia ZifyBool.
Import ListNotations.
Open Scope Z_scope.

(* number of zero-length iterations that may still precede the next sample *)
Definition rank (q : qstate) : Z :=
  match q_source q with
  | Some (_, pos, len) => if pos <? len then 0 else if q_delay q >? 0 then 1 else 3
  | None => if q_delay q >? 0 then 0 else 2
  end.

Lemma rank_bound q : 0 <= rank q <= 3.
Proof.
  unfold rank. destruct (q_source q) as [[[k pos] len]|].
  - destruct (pos <? len); [lia|]. destruct (q_delay q >? 0); lia.
  - destruct (q_delay q >? 0); lia.
Qed.

Lemma count_trials_nonneg q : 0 <= count_trials q.
Proof.
  unfold count_trials. induction (q_data q) as [|e t IH]; cbn [map sumZ fold_right]; [lia|].
  unfold sumZ in IH. lia.
Qed.

Lemma pop_fuel_enough q s : 0 <= s -> 4 * s + 3 <= Z.of_nat (pop_fuel q s).
Proof.
  intros Hs. unfold pop_fuel. pose proof (count_trials_nonneg q) as H1.
  pose proof (zlen_nonneg (q_data q)) as H2.
  assert (0 <= (count_trials q + 1) * (zlen (q_data q) + 1)) by (apply Z.mul_nonneg_nonneg; lia).
  lia.
Qed.

Definition det (p : policy) : Prop := match p with PRandom | PBlockedRandom => False | _ => True end.

Lemma inter_skip_none fuel : forall d n i, 0 < n ->
  inter_skip fuel d (zrange (fun i => i) 0 n) i = None ->
  forall t, 1 <= t <= Z.of_nat fuel -> trials_of d ((i + t) mod n) <= 0.
Proof.
  induction fuel as [|f IH]; intros d n i Hn H t Ht; [lia|].
  cbn [inter_skip] in H. rewrite Qzlen_zrange in H by lia.
  assert (Hi : 0 <= (i + 1) mod n < n) by (apply Z.mod_pos_bound; lia).
  rewrite znth_zrange in H by lia. rewrite Z.add_0_l in H.
  destruct (trials_of d ((i + 1) mod n) >? 0) eqn:E; [discriminate|].
  destruct (Z.eq_dec t 1) as [->|Hne]; [lia|].
  specialize (IH d n ((i + 1) mod n) Hn H (t - 1)).
  rewrite Zplus_mod_idemp_l in IH. replace (i + 1 + (t - 1)) with (i + t) in IH by lia.
  apply IH. lia.
Qed.

Lemma all_done_false_key d : all_done d = false ->
  exists j, 0 <= j < zlen d /\ 0 < trials_of d j.
Proof.
  intros H. unfold all_done in H. apply forallb_false_nth in H. destruct H as (i & x & Hi & Hx).
  exists (Z.of_nat i). split.
  - assert (nth_error d i <> None) by congruence. apply nth_error_Some in H. unfold zlen. lia.
  - unfold trials_of, znth. destruct (Z.of_nat i <? 0) eqn:E; [lia|].
    rewrite Nat2Z.id, Hi. lia.
Qed.

Section FUEL.
Variable p : policy.
Variable es : list entry.
Hypothesis Hwf : wf_queue p es = true.

Notation Inv := (Inv p es).

Lemma data_len q : Inv q -> zlen (q_data q) = zlen es.
Proof.
  intros I. pose proof (inv_stat _ _ _ I) as H. apply (f_equal (@length _)) in H.
  rewrite !map_length in H. unfold zlen. lia.
Qed.

Lemma next_key_noerr q : Inv q -> det p -> next_key all_rep q <> NError.
Proof.
  intros I Hd. destruct (wf_parts p es Hwf) as (Hn & _ & Hg).
  pose proof (inv_polok _ _ _ I) as P. pose proof (data_len _ I) as DL. pose proof (inv_pol _ _ _ I) as Ep.
  unfold pol_ok in P. unfold next_key. rewrite Ep. clear Hwf. destruct p as [|keep| | |gs]; try contradiction.
  - destruct (q_ordering q); discriminate.
  - destruct P as [P1 P2]. destruct (q_complete q) eqn:Ec; [discriminate|].
    rewrite P1. rewrite Qzlen_zrange by lia.
    destruct (zlen es =? 0) eqn:E0; [lia|].
    assert (Hi : 0 <= (q_i q + 1) mod zlen es < zlen es) by (apply Z.mod_pos_bound; lia).
    destruct keep.
    + rewrite znth_zrange by lia. discriminate.
    + destruct (inter_skip _ _ _ _) as [[i' k]|] eqn:Es; [discriminate|]. exfalso.
      symmetry in P2. destruct (all_done_false_key _ P2) as (j & Hj & Htr).
      unfold zrange in Es. rewrite Qzr_length in Es. fold (zrange (fun i : Z => i) 0 (zlen es)) in Es.
      assert (Hm : 0 <= (j - q_i q - 1) mod zlen es < zlen es) by (apply Z.mod_pos_bound; lia).
      assert (Hpos : 0 < zlen es) by lia.
      pose proof (inter_skip_none _ (q_data q) (zlen es) (q_i q) Hpos Es ((j - q_i q - 1) mod zlen es + 1)) as Hc.
      specialize (Hc ltac:(lia)).
      replace (q_i q + ((j - q_i q - 1) mod zlen es + 1)) with (q_i q + 1 + (j - q_i q - 1) mod zlen es) in Hc by lia.
      rewrite Zplus_mod_idemp_r in Hc. replace (q_i q + 1 + (j - q_i q - 1)) with j in Hc by lia.
      rewrite Z.mod_small in Hc by lia. lia.
  - destruct (q_ordering q) as [|k0 o] eqn:Eo; [discriminate|].
    cbn [r_grouped_mod all_rep wf_policy] in *.
    pose proof (zlen_nonneg o) as Ho. rewrite zlen_cons.
    destruct (Z.min gs (zlen o + 1) =? 0) eqn:Em; [lia|].
    assert (Hi : 0 <= (q_i q + 1) mod Z.min gs (zlen o + 1) < Z.min gs (zlen o + 1)) by (apply Z.mod_pos_bound; lia).
    destruct (znth_some (k0 :: o) ((q_i q + 1) mod Z.min gs (zlen o + 1))) as (k & Hk).
    { rewrite zlen_cons. lia. }
    rewrite Hk. discriminate.
Qed.

Lemma next_trial_noerr q : Inv q -> det p -> next_trial all_rep q <> NTerror.
Proof.
  intros I Hd. pose proof (next_key_noerr _ I Hd) as Hk. unfold next_trial.
  destruct (next_key all_rep q) as [key q1| |] eqn:Ek; [|discriminate|contradiction].
  destruct (next_key_core _ _ _ _ Ek) as [(C1 & C2 & C3 & C4 & C5 & C6 & C7 & C8 & C9) Hin].
  destruct (decrement_key_some q1 key) as (q2 & Hq2); [rewrite C3; exact Hin|]. rewrite Hq2.
  destruct (decrement_key_facts _ _ _ Hq2) as (D1 & D2 & _).
  assert (Hst : map stat (q_data q2) = map stat es).
  { rewrite D2, C2. rewrite map_upd_entry; auto. apply (inv_stat _ _ _ I). }
  assert (Hr : 0 <= key < zlen (q_data q2)).
  { pose proof (inv_ord _ _ _ I) as O. rewrite Forall_forall in O. specialize (O _ Hin).
    apply (f_equal (@length _)) in Hst. rewrite !map_length in Hst. unfold zlen in *. lia. }
  destruct (znth_some _ _ Hr) as (e & He). rewrite He.
  destruct (entry_facts p es Hwf _ _ _ Hst He) as (_ & _ & dl & N1 & N2 & _).
  rewrite N1. destruct (dl <? 0) eqn:E; [lia|discriminate].
Qed.

Section PROG.
Hypothesis Hprog : forallb progress_entry es = true.

Lemma step_rank q s q1 out ev : Inv q -> 0 < s -> pop_step all_rep q s = PBok q1 out ev ->
  rank (add_samples q1 (zlen out) false) + 1 <= rank q + 4 * zlen out.
Proof.
  intros I Hs H. pose proof (Inv_step p es Hwf _ _ _ _ _ I Hs H) as I1.
  pose proof (rank_bound q1) as B1.
  change (rank (add_samples q1 (zlen out) false)) with (rank q1).
  unfold pop_step in H. rewrite (inv_paused _ _ _ I) in H.
  pose proof (inv_src _ _ _ I) as S. unfold src_ok in S. pose proof (inv_delay _ _ _ I) as Dl.
  unfold rank at 2. destruct (q_source q) as [[[key pos] len]|] eqn:Es.
  - destruct S as (S1 & S2 & S3). specialize (S3 Hprog). destruct (kind_of q key).
    + destruct (s >? len - pos) eqn:E; injection H as <- <- <-; unfold rank in *; qsimpl;
        rewrite Qzlen_zrange by lia;
        destruct (pos <? len) eqn:E1; destruct (q_delay q >? 0) eqn:E2; try lia.
      all: destruct (pos + s <? len) eqn:E3; lia.
    + injection H as <- <- <-. unfold rank in *; qsimpl. rewrite Qzlen_zrange by lia.
      destruct (pos + Z.min (len - pos) s >=? len) eqn:E0;
      destruct (pos <? len) eqn:E1; destruct (q_delay q >? 0) eqn:E2; try lia.
      all: destruct (pos + Z.min (len - pos) s <? len) eqn:E3; lia.
  - destruct (q_delay q >? 0) eqn:E.
    + injection H as <- <- <-. rewrite zlen_repeat by lia. lia.
    + destruct (next_trial all_rep q) as [q' ev'| |] eqn:En; try discriminate. injection H as <- <- <-.
      destruct (next_trial_ok _ _ _ _ En) as
        (key & e & dl & q3 & q2 & _ & _ & _ & _ & _ & _ & _ & _ & F3 & F4 & _).
      pose proof (inv_src _ _ _ I1) as S1. unfold src_ok in S1. unfold rank. rewrite F3 in *.
      destruct S1 as (S1 & S2 & S3). specialize (S3 Hprog).
      change (zlen (@nil osample)) with 0.
      destruct (0 <? e_len e) eqn:E1; [lia|]. destruct (q_delay q' >? 0) eqn:E2; lia.
Qed.

Lemma suff_fuel f : forall q s r, Inv q -> 0 <= s -> pop_loop f all_rep q s = Some r ->
  forall f2, 4 * s + rank q <= Z.of_nat f2 -> pop_loop f2 all_rep q s = Some r.
Proof.
  induction f as [|f IH]; intros q s r I Hs H f2 Hf2.
  - destruct (Z.eq_dec s 0) as [->|Hne].
    + rewrite pop_loop_done in * by lia. auto.
    + rewrite pop_loop_O in H by lia. discriminate.
  - destruct (Z.eq_dec s 0) as [->|Hne].
    + rewrite pop_loop_done in * by lia. auto.
    + pose proof (rank_bound q) as B. destruct f2 as [|f2]; [lia|].
      rewrite pop_loop_S in * by lia.
      destruct (pop_step all_rep q s) as [q1 out ev| |] eqn:Est; auto.
      assert (Hs' : 0 < s) by lia.
      pose proof (step_len p es Hwf _ _ _ _ _ I Hs' Est) as L.
      pose proof (step_rank _ _ _ _ _ I Hs' Est) as R.
      destruct (pop_loop f all_rep _ _) as [r1|] eqn:El; [|discriminate].
      rewrite (IH _ _ r1); auto; try lia.
      apply Inv_add_samples. eapply Inv_step; eauto; lia.
Qed.

Lemma loop_to_buffer f q s r : Inv q -> 0 <= s -> pop_loop f all_rep q s = Some r ->
  pop_buffer all_rep q s = Some r.
Proof.
  intros I Hs H. unfold pop_buffer. eapply suff_fuel; eauto.
  pose proof (pop_fuel_enough q s Hs). pose proof (rank_bound q). lia.
Qed.

Lemma loop_total f : forall q s, Inv q -> det p -> 0 <= s -> 4 * s + rank q <= Z.of_nat f ->
  pop_loop f all_rep q s <> None.
Proof.
  induction f as [|f IH]; intros q s I Hd Hs Hf.
  - pose proof (rank_bound q). rewrite pop_loop_done by lia. discriminate.
  - destruct (Z.eq_dec s 0) as [->|Hne]; [rewrite pop_loop_done by lia; discriminate|].
    rewrite pop_loop_S by lia.
    destruct (pop_step all_rep q s) as [q1 out ev| |] eqn:Est.
    + assert (Hs' : 0 < s) by lia.
      pose proof (step_len p es Hwf _ _ _ _ _ I Hs' Est) as L.
      pose proof (step_rank _ _ _ _ _ I Hs' Est) as R.
      assert (I1 : Inv (add_samples q1 (zlen out) false)).
      { apply Inv_add_samples. eapply Inv_step; eauto; lia. }
      assert (H1 : 0 <= s - zlen out) by lia.
      assert (H2 : 4 * (s - zlen out) + rank (add_samples q1 (zlen out) false) <= Z.of_nat f) by lia.
      specialize (IH _ (s - zlen out) I1 Hd H1 H2).
      destruct (pop_loop f all_rep _ _) as [[[q2 o2] e2]|]; [discriminate|contradiction].
    + discriminate.
    + exfalso. unfold pop_step in Est. rewrite (inv_paused _ _ _ I) in Est.
      destruct (q_source q) as [[[key pos] len]|].
      * destruct (kind_of q key); [destruct (s >? len - pos)|]; discriminate.
      * destruct (q_delay q >? 0); [discriminate|].
        pose proof (next_trial_noerr _ I Hd). destruct (next_trial all_rep q); congruence.
Qed.

Lemma buffer_total q s : Inv q -> det p -> 0 <= s -> pop_buffer all_rep q s <> None.
Proof.
  intros I Hd Hs. unfold pop_buffer. apply loop_total; auto.
  pose proof (pop_fuel_enough q s Hs). pose proof (rank_bound q). lia.
Qed.

Lemma pops_total ns : forall q, Inv q -> det p -> forallb (fun n => 0 <=? n) ns = true ->
  pops all_rep q ns <> None.
Proof.
  induction ns as [|n t IH]; intros q I Hd Hns; cbn [pops]; [discriminate|].
  cbn [forallb] in Hns. apply andb_true_iff in Hns. destruct Hns as [Hn Ht].
  assert (Hn0 : 0 <= n) by lia.
  pose proof (buffer_total q n I Hd Hn0) as B.
  destruct (pop_buffer all_rep q n) as [[[q1 o1] e1]|] eqn:E; [|contradiction].
  assert (I1 : Inv q1) by (unfold pop_buffer in E; eapply Inv_loop; eauto).
  specialize (IH q1 I1 Hd Ht). destruct (pops all_rep q1 t) as [[[q2 o2] e2]|]; [discriminate|contradiction].
Qed.

End PROG.
End FUEL.

Lemma never_stuck : forall p es ch pm ns,
  wf_queue p es = true -> forallb progress_entry es = true -> forallb (fun n => 0 <=? n) ns = true ->
  match p with PRandom | PBlockedRandom => True | _ => pops all_rep (qinit p es ch pm) ns <> None end.
Proof.
  intros p es ch pm ns Hwf Hp Hns.
  pose proof (pops_total p es Hwf Hp ns (qinit p es ch pm) (Inv_init p es Hwf ch pm)) as H.
  destruct p; auto; apply H; cbn; auto.
Qed.
