(* C04 support: list / entry lemmas and specifications of the single steps of Queue/Model.v
   (next_key, decrement_key, next_trial, pause under all_rep).  No property statements here. *)
From Coq Require Import ZArith List Bool Lia ZifyBool.
From PV Require Import Queue.Model Queue.Spec.
Import ListNotations.
Open Scope Z_scope.

(* ------------------------------------------------------------------ *)
(* zlen / filter counting                                              *)
(* ------------------------------------------------------------------ *)
Lemma zlen_nil {A} : zlen (@nil A) = 0.
Proof. reflexivity. Qed.

Lemma zlen_cons {A} (x : A) l : zlen (x :: l) = 1 + zlen l.
Proof. unfold zlen. cbn [length]. lia. Qed.

Lemma zlen_app {A} (a b : list A) : zlen (a ++ b) = zlen a + zlen b.
Proof. unfold zlen. rewrite app_length. lia. Qed.

Lemma zlen_nonneg {A} (l : list A) : 0 <= zlen l.
Proof. unfold zlen. lia. Qed.

Lemma zfilt_app {A} (c : A -> bool) a b :
  zlen (filter c (a ++ b)) = zlen (filter c a) + zlen (filter c b).
Proof. rewrite filter_app. apply zlen_app. Qed.

Lemma zfilt_cons {A} (c : A -> bool) x l :
  zlen (filter c (x :: l)) = (if c x then 1 else 0) + zlen (filter c l).
Proof. cbn [filter]. destruct (c x); [rewrite zlen_cons|]; lia. Qed.

Lemma zfilt_nonneg {A} (c : A -> bool) l : 0 <= zlen (filter c l).
Proof. apply zlen_nonneg. Qed.

Lemma zfilt_rev {A} (c : A -> bool) l : zlen (filter c (rev l)) = zlen (filter c l).
Proof.
  induction l as [|x l IH]; [reflexivity|].
  cbn [rev]. rewrite zfilt_app, IH. rewrite (zfilt_cons c x l), (zfilt_cons c x []).
  cbn [filter]. pose proof (@zlen_nil A). lia.
Qed.

Lemma filter_rev' {A} (P : A -> bool) l : filter P (rev l) = rev (filter P l).
Proof.
  induction l as [|x l IH]; [reflexivity|].
  cbn [rev filter]. rewrite filter_app, IH. cbn [filter].
  destruct (P x); cbn [rev]; [reflexivity|apply app_nil_r].
Qed.

Lemma zfilt_split {A B} (h : A -> B) (c : B -> bool) (P : A -> bool) l :
  zlen (filter c (map h l)) =
  zlen (filter c (map h (filter P l))) + zlen (filter c (map h (filter (fun x => negb (P x)) l))).
Proof.
  induction l as [|x l IH]; [reflexivity|].
  cbn [map]. rewrite zfilt_cons. cbn [filter].
  destruct (P x); cbn [negb map]; rewrite zfilt_cons, IH; lia.
Qed.

Lemma zfilt_map_filter_rev {A B} (h : A -> B) (c : B -> bool) (P : A -> bool) l :
  zlen (filter c (map h (filter P (rev l)))) = zlen (filter c (map h (filter P l))).
Proof. rewrite filter_rev', map_rev. apply zfilt_rev. Qed.

Lemma filter_all {A} (P : A -> bool) l : Forall (fun x => P x = true) l -> filter P l = l.
Proof.
  induction 1 as [|x l Hx _ IH]; [reflexivity|]. cbn [filter]. rewrite Hx, IH. reflexivity.
Qed.

Lemma Forall_filter {A} (Q : A -> Prop) (P : A -> bool) l : Forall Q l -> Forall Q (filter P l).
Proof.
  induction 1 as [|x l Hx _ IH]; [constructor|]. cbn [filter]. destruct (P x); [constructor|]; assumption.
Qed.

Lemma countZ_nil k : countZ k [] = 0.
Proof. reflexivity. Qed.

Lemma countZ_cons k x l : countZ k (x :: l) = (if k =? x then 1 else 0) + countZ k l.
Proof. unfold countZ. apply zfilt_cons. Qed.

Lemma countZ_app k a b : countZ k (a ++ b) = countZ k a + countZ k b.
Proof. unfold countZ. apply zfilt_app. Qed.

Lemma countZ_nonneg k l : 0 <= countZ k l.
Proof. unfold countZ. apply zlen_nonneg. Qed.

Lemma countZ_pos_In k l : 0 < countZ k l <-> In k l.
Proof.
  induction l as [|x l IH]; [rewrite countZ_nil; cbn; lia|].
  rewrite countZ_cons. cbn [In]. pose proof (countZ_nonneg k l).
  destruct (Z.eqb_spec k x); split; intros; try lia; auto.
  - right. apply IH. lia.
  - destruct H0; [congruence|]. apply IH in H0. lia.
Qed.

Lemma countZ_rev k l : countZ k (rev l) = countZ k l.
Proof. unfold countZ. apply zfilt_rev. Qed.

(* ------------------------------------------------------------------ *)
(* znth / upd_entry / trials_of                                        *)
(* ------------------------------------------------------------------ *)
Lemma nth_error_zupd {A} (f : A -> A) : forall d i j,
  nth_error (zupd d i f) j = if Nat.eqb i j then option_map f (nth_error d j) else nth_error d j.
Proof.
  induction d as [|x d IH]; intros i j.
  - cbn. destruct j; cbn; destruct (Nat.eqb i _); reflexivity.
  - destruct i, j; cbn; try reflexivity. apply IH.
Qed.

Lemma zupd_length {A} (f : A -> A) : forall d i, length (zupd d i f) = length d.
Proof. induction d as [|x d IH]; intros [|i]; cbn; auto. Qed.

Lemma zlen_upd_entry d key f : zlen (upd_entry d key f) = zlen d.
Proof. unfold upd_entry, zlen. destruct (key <? 0); [reflexivity|]. rewrite zupd_length. reflexivity. Qed.

Lemma znth_upd d key f k :
  znth (upd_entry d key f) k = if k =? key then option_map f (znth d k) else znth d k.
Proof.
  unfold znth, upd_entry.
  destruct (k <? 0) eqn:Ek.
  - destruct (k =? key); reflexivity.
  - destruct (key <? 0) eqn:Ekey.
    + destruct (Z.eqb_spec k key); [lia|reflexivity].
    + rewrite nth_error_zupd.
      destruct (Nat.eqb_spec (Z.to_nat key) (Z.to_nat k)); destruct (Z.eqb_spec k key); try reflexivity; lia.
Qed.

Lemma znth_valid {A} (l : list A) k : (exists x, znth l k = Some x) <-> 0 <= k < zlen l.
Proof.
  unfold znth, zlen. destruct (k <? 0) eqn:E.
  - split; [intros [x H]; discriminate|lia].
  - split.
    + intros [x H]. assert (nth_error l (Z.to_nat k) <> None) by congruence.
      apply nth_error_Some in H0. lia.
    + intros H. destruct (nth_error l (Z.to_nat k)) eqn:N; [eauto|].
      apply nth_error_None in N. lia.
Qed.

Lemma znth_Some_valid {A} (l : list A) k x : znth l k = Some x -> 0 <= k < zlen l.
Proof. intros H. apply znth_valid. eauto. Qed.

Lemma znth_None_iff {A} (l : list A) k : znth l k = None <-> ~ (0 <= k < zlen l).
Proof.
  rewrite <- znth_valid. destruct (znth l k); split; intros; try congruence.
  - exfalso. apply H. eauto.
  - intros [x Hx]. discriminate.
Qed.

Lemma znth_In {A} (l : list A) k x : znth l k = Some x -> In x l.
Proof. unfold znth. destruct (k <? 0); [discriminate|]. apply nth_error_In. Qed.

Lemma In_znth {A} (l : list A) x : In x l -> exists k, znth l k = Some x.
Proof.
  intros H. apply In_nth_error in H. destruct H as [n Hn]. exists (Z.of_nat n).
  unfold znth. destruct (Z.of_nat n <? 0) eqn:E; [lia|]. rewrite Nat2Z.id. exact Hn.
Qed.

Lemma trials_upd_add d key n k :
  trials_of (upd_entry d key (add_trials n)) k =
  match znth d k with Some e => e_trials e + (if k =? key then n else 0) | None => 0 end.
Proof.
  unfold trials_of. rewrite znth_upd. destruct (k =? key); destruct (znth d k); cbn; lia.
Qed.

Lemma trials_upd_adv d key k : trials_of (upd_entry d key adv_delay) k = trials_of d k.
Proof.
  unfold trials_of. rewrite znth_upd. destruct (k =? key); destruct (znth d k); reflexivity.
Qed.

Lemma trials_of_invalid d k : ~ (0 <= k < zlen d) -> trials_of d k = 0.
Proof. intros H. unfold trials_of. apply znth_None_iff in H. rewrite H. reflexivity. Qed.

Lemma trials_nonzero_valid d k : trials_of d k <> 0 -> 0 <= k < zlen d.
Proof.
  intros H. destruct (Z_le_dec 0 k); [destruct (Z_lt_dec k (zlen d)); [lia|]|];
  exfalso; apply H; apply trials_of_invalid; lia.
Qed.

(* requeue: one trial back per occurrence *)
Lemma trials_fold_requeue l : forall d k,
  trials_of (fold_left (fun d k => upd_entry d k (add_trials 1)) l d) k =
  match znth d k with Some e => e_trials e + countZ k l | None => 0 end.
Proof.
  induction l as [|x l IH]; intros d k.
  - cbn [fold_left]. rewrite countZ_nil. unfold trials_of. destruct (znth d k); lia.
  - cbn [fold_left]. rewrite IH, znth_upd, countZ_cons.
    destruct (k =? x); destruct (znth d k); cbn [option_map add_trials e_trials]; lia.
Qed.

Lemma zlen_fold_requeue l : forall d,
  zlen (fold_left (fun d k => upd_entry d k (add_trials 1)) l d) = zlen d.
Proof.
  induction l as [|x l IH]; intros d; [reflexivity|]. cbn [fold_left]. rewrite IH. apply zlen_upd_entry.
Qed.

Lemma all_done_iff d : all_done d = true <-> forall k, trials_of d k <= 0.
Proof.
  unfold all_done. rewrite forallb_forall. split.
  - intros H k. unfold trials_of. destruct (znth d k) eqn:E; [|lia].
    apply znth_In in E. apply H in E. lia.
  - intros H e He. apply In_znth in He. destruct He as [k Hk].
    specialize (H k). unfold trials_of in H. rewrite Hk in H. lia.
Qed.

(* ------------------------------------------------------------------ *)
(* memZ / remove1 / requeue ordering                                   *)
(* ------------------------------------------------------------------ *)
Lemma memZ_In x l : memZ x l = true <-> In x l.
Proof.
  unfold memZ. rewrite existsb_exists. split.
  - intros [y [Hy E]]. apply Z.eqb_eq in E. subst. exact Hy.
  - intros H. exists x. split; [exact H|apply Z.eqb_refl].
Qed.

Lemma memZ_false x l : memZ x l = false <-> ~ In x l.
Proof. rewrite <- memZ_In. destruct (memZ x l); split; congruence. Qed.

Lemma In_remove1 x l k : In k (remove1 x l) -> In k l.
Proof.
  induction l as [|y l IH]; cbn; [auto|]. destruct (x =? y); cbn; intros; [auto|]. destruct H; auto.
Qed.

Lemma In_remove1_neq x l k : k <> x -> In k l -> In k (remove1 x l).
Proof.
  intros Hne. induction l as [|y l IH]; cbn; [auto|].
  destruct (Z.eqb_spec x y); cbn; intros [H|H]; subst; auto; congruence.
Qed.

Lemma NoDup_remove1 x l : NoDup l -> NoDup (remove1 x l).
Proof.
  induction 1 as [|y l Hy Hl IH]; cbn; [constructor|].
  destruct (x =? y); [assumption|]. constructor; [|assumption].
  intros H. apply Hy. eapply In_remove1; eauto.
Qed.

Lemma NoDup_remove1_notin x l : NoDup l -> ~ In x (remove1 x l).
Proof.
  induction 1 as [|y l Hy Hl IH]; cbn; [auto|].
  destruct (Z.eqb_spec x y); [subst; assumption|]. cbn. intros [H|H]; [congruence|auto].
Qed.

Lemma In_fold_remove1 grp : forall o k, ~ In k grp -> In k o ->
  In k (fold_left (fun o k => remove1 k o) grp o).
Proof.
  induction grp as [|g grp IH]; intros o k Hn Hi; [exact Hi|].
  cbn [fold_left]. apply IH; [intros H; apply Hn; right; exact H|].
  apply In_remove1_neq; [|exact Hi]. intros ->. apply Hn. left. reflexivity.
Qed.

Definition requeue_ord (l o : list Z) : list Z :=
  fold_left (fun o k => if memZ k o then o else k :: o) l o.

Lemma In_requeue_ord l : forall o k, In k (requeue_ord l o) <-> In k l \/ In k o.
Proof.
  unfold requeue_ord. induction l as [|x l IH]; intros o k; cbn [fold_left In]; [tauto|].
  rewrite IH. destruct (memZ x o) eqn:E.
  - apply memZ_In in E. split; [tauto|]. intros [[->|H]|H]; auto.
  - cbn [In]. tauto.
Qed.

Lemma NoDup_requeue_ord l : forall o, NoDup o -> NoDup (requeue_ord l o).
Proof.
  unfold requeue_ord. induction l as [|x l IH]; intros o H; [exact H|].
  cbn [fold_left]. apply IH. destruct (memZ x o) eqn:E; [exact H|].
  constructor; [apply memZ_false; exact E|exact H].
Qed.

(* the initial ordering *)
Lemma In_zr_id n : forall lo k, In k (zr (fun i => i) lo n) <-> lo <= k < lo + Z.of_nat n.
Proof.
  induction n as [|n IH]; intros lo k; cbn [zr In]; [lia|]. rewrite IH. lia.
Qed.

Lemma NoDup_zr_id n : forall lo, NoDup (zr (fun i => i) lo n).
Proof.
  induction n as [|n IH]; intros lo; cbn [zr]; constructor; [|apply IH].
  rewrite In_zr_id. lia.
Qed.

Lemma In_zrange_id n k : 0 <= n -> In k (zrange (fun i => i) 0 n) <-> 0 <= k < n.
Proof. intros H. unfold zrange. rewrite In_zr_id. lia. Qed.

(* ------------------------------------------------------------------ *)
(* events                                                              *)
(* ------------------------------------------------------------------ *)
Lemma added_of_app a b : added_of (a ++ b) = added_of a ++ added_of b.
Proof. unfold added_of. apply flat_map_app. Qed.

Lemma removed_of_app a b : removed_of (a ++ b) = removed_of a ++ removed_of b.
Proof. unfold removed_of. apply flat_map_app. Qed.

Lemma added_of_removed (f : info -> Z * Z) l :
  added_of (map (fun i => ERemoved (fst (f i)) (snd (f i))) l) = [].
Proof. induction l as [|x l IH]; [reflexivity|]. cbn. exact IH. Qed.

Lemma added_of_map_removed l : added_of (map (fun i => ERemoved (i_key i) (i_t0 i)) l) = [].
Proof. induction l as [|x l IH]; [reflexivity|]. cbn. exact IH. Qed.

Lemma removed_of_map_removed l :
  removed_of (map (fun i => ERemoved (i_key i) (i_t0 i)) l) = map (fun i => (i_key i, i_t0 i)) l.
Proof. induction l as [|x l IH]; [reflexivity|]. cbn. f_equal. exact IH. Qed.

(* ------------------------------------------------------------------ *)
(* fuel                                                                *)
(* ------------------------------------------------------------------ *)
Lemma count_trials_nonneg q : 0 <= count_trials q.
Proof.
  unfold count_trials, sumZ. induction (q_data q) as [|e d IH]; cbn [map fold_right]; lia.
Qed.

Lemma pop_fuel_pos q n : 0 <= n -> exists f, pop_fuel q n = S f.
Proof.
  intros Hn. unfold pop_fuel.
  pose proof (count_trials_nonneg q) as H1. pose proof (zlen_nonneg (q_data q)) as H2.
  assert (0 <= 4 * (count_trials q + 1) * (zlen (q_data q) + 1)) by nia.
  destruct (Z.to_nat _) eqn:E; [lia|eauto].
Qed.

(* ------------------------------------------------------------------ *)
(* next_key / decrement_key / next_trial                               *)
(* ------------------------------------------------------------------ *)
Ltac dmatch H :=
  repeat match type of H with
         | context [match ?x with _ => _ end] => destruct x eqn:?
         | context [if ?x then _ else _] => destruct x eqn:?
         end.

(* the fields next_key never touches *)
Definition same_core (q q1 : qstate) : Prop :=
  q_pol q1 = q_pol q /\ q_data q1 = q_data q /\ q_ordering q1 = q_ordering q /\
  q_source q1 = q_source q /\ q_delay q1 = q_delay q /\ q_samples q1 = q_samples q /\
  q_paused q1 = q_paused q /\ q_empty q1 = q_empty q /\ q_generated q1 = q_generated q /\
  q_complete q1 = q_complete q.

Lemma inter_skip_pos fuel : forall d o i i' key,
  inter_skip fuel d o i = Some (i', key) -> 0 < trials_of d key.
Proof.
  induction fuel as [|f IH]; intros d o i i' key H; cbn [inter_skip] in H; [discriminate|].
  destruct (znth o ((i + 1) mod zlen o)) eqn:E; [|discriminate].
  destruct (trials_of d z >? 0) eqn:T.
  - inversion H; subst. lia.
  - eapply IH; eauto.
Qed.

Lemma next_key_core R q key q1 : next_key R q = NKey key q1 ->
  same_core q q1 /\ (q_pol q = PInter false -> 0 < trials_of (q_data q) key).
Proof.
  unfold next_key, same_core. intros H.
  destruct (q_pol q) eqn:P.
  - dmatch H; inversion H; subst; repeat split; auto; discriminate.
  - destruct (q_complete q); [discriminate|].
    destruct (zlen (q_ordering q) =? 0); [destruct (r_empty_guard R); discriminate|].
    destruct keep.
    + dmatch H; inversion H; subst; cbn; repeat split; auto; discriminate.
    + destruct (inter_skip _ _ _ _) as [[i' k]|] eqn:S; [|discriminate].
      inversion H; subst; cbn. repeat split; auto. intros _. eapply inter_skip_pos; eauto.
  - dmatch H; inversion H; subst; cbn; repeat split; auto; discriminate.
  - dmatch H; inversion H; subst; cbn; repeat split; auto; discriminate.
  - dmatch H; inversion H; subst; cbn; repeat split; auto; discriminate.
Qed.

Lemma zlen0_nil {A} (l : list A) : (zlen l =? 0) = true -> l = [].
Proof. unfold zlen. destruct l; cbn [length]; [reflexivity|lia]. Qed.

Lemma next_key_empty R q : next_key R q = NEmpty ->
  match q_pol q with
  | PFifo | PRandom | PGrouped _ => q_ordering q = []
  | PInter _ | PBlockedRandom => q_complete q = true \/ q_ordering q = []
  end.
Proof.
  unfold next_key. intros H. destruct (q_pol q).
  - dmatch H; try discriminate; auto.
  - destruct (q_complete q); [auto|]. destruct (zlen (q_ordering q) =? 0) eqn:Z0.
    + right. apply zlen0_nil. exact Z0.
    + dmatch H; discriminate.
  - dmatch H; try discriminate; auto.
  - destruct (q_complete q); [auto|]. destruct (zlen (q_ordering q) =? 0) eqn:Z0.
    + right. apply zlen0_nil. exact Z0.
    + rewrite andb_false_r in H. dmatch H; discriminate.
  - dmatch H; try discriminate; auto.
Qed.

Definition dec_ordering (q : qstate) (key : Z) (d : list entry) : list Z :=
  match q_pol q with
  | PFifo | PRandom => if trials_of d key <=? 0 then remove1 key (q_ordering q) else q_ordering q
  | PInter _ | PBlockedRandom => q_ordering q
  | PGrouped gs =>
    let grp := firstn (Z.to_nat gs) (q_ordering q) in
    if forallb (fun k => trials_of d k <=? 0) grp
    then fold_left (fun o k => remove1 k o) grp (q_ordering q) else q_ordering q
  end.
Definition dec_complete (q : qstate) (d : list entry) : bool :=
  match q_pol q with
  | PInter _ | PBlockedRandom => q_complete q || all_done d
  | _ => q_complete q
  end.

Lemma decrement_key_spec q key q2 : decrement_key q key = Some q2 ->
  memZ key (q_ordering q) = true /\
  q_data q2 = upd_entry (q_data q) key (add_trials (-1)) /\
  q_ordering q2 = dec_ordering q key (q_data q2) /\
  q_complete q2 = dec_complete q (q_data q2) /\
  q_pol q2 = q_pol q /\ q_source q2 = q_source q /\ q_delay q2 = q_delay q /\ q_samples q2 = q_samples q /\
  q_paused q2 = q_paused q /\ q_empty q2 = q_empty q /\ q_generated q2 = q_generated q.
Proof.
  unfold decrement_key, dec_ordering, dec_complete. intros H.
  destruct (memZ key (q_ordering q)); [|discriminate]. cbn [negb] in H.
  destruct (q_pol q) eqn:P.
  - inversion H; subst; cbn. rewrite P. repeat split; auto.
  - inversion H; subst; cbn. rewrite P. repeat split; auto.
  - inversion H; subst; cbn. rewrite P. repeat split; auto.
  - inversion H; subst; cbn. rewrite P. repeat split; auto.
  - destruct (forallb _ _) eqn:F; inversion H; subst; cbn; rewrite P, ?F; repeat split; auto.
Qed.

(* everything C04 needs to know about one trial set-up *)
Record trial_step (q q' : qstate) (ev : event) (key : Z) (e : entry) : Prop := {
  ts_mem : memZ key (q_ordering q) = true;
  ts_e : znth (upd_entry (q_data q) key (add_trials (-1))) key = Some e;
  ts_data : q_data q' = upd_entry (upd_entry (q_data q) key (add_trials (-1))) key adv_delay;
  ts_ord : q_ordering q' = dec_ordering q key (upd_entry (q_data q) key (add_trials (-1)));
  ts_compl : q_complete q' = dec_complete q (upd_entry (q_data q) key (add_trials (-1)));
  ts_gen : q_generated q' = q_generated q ++
             [{| i_t0 := q_samples q; i_dur := e_dur e; i_key := key; i_dec := true |}];
  ts_ev : ev = EAdded key (q_samples q);
  ts_pol : q_pol q' = q_pol q;
  ts_samples : q_samples q' = q_samples q;
  ts_paused : q_paused q' = q_paused q;
  ts_empty : q_empty q' = q_empty q;
  ts_inter : q_pol q = PInter false -> 0 < trials_of (q_data q) key
}.

Lemma dec_ordering_core q q1 key d : same_core q q1 -> dec_ordering q1 key d = dec_ordering q key d.
Proof.
  intros (Hp & Hd & Ho & _). unfold dec_ordering. rewrite Hp, Ho. reflexivity.
Qed.
Lemma dec_complete_core q q1 d : same_core q q1 -> dec_complete q1 d = dec_complete q d.
Proof.
  intros (Hp & Hd & Ho & _ & _ & _ & _ & _ & _ & Hc). unfold dec_complete. rewrite Hp, Hc. reflexivity.
Qed.

Lemma next_trial_ok R q q' ev : next_trial R q = NTok q' ev -> exists key e, trial_step q q' ev key e.
Proof.
  unfold next_trial. intros H.
  destruct (next_key R q) as [key q1| |] eqn:NK; try discriminate.
  destruct (decrement_key q1 key) as [q2|] eqn:DK; [|discriminate].
  destruct (znth (q_data q2) key) as [e|] eqn:ZE; [|discriminate].
  destruct (next_delay e) as [dl|]; [|discriminate].
  destruct (dl <? 0); [discriminate|].
  apply next_key_core in NK. destruct NK as [Hc Hi].
  pose proof Hc as (Hp & Hd & Ho & Hs & Hdl & Hsm & Hpa & Hem & Hg & Hcm).
  apply decrement_key_spec in DK.
  destruct DK as (M & D2 & O2 & C2 & P2 & S2 & DL2 & SM2 & PA2 & EM2 & G2).
  inversion H; subst q' ev; clear H.
  exists key, e. rewrite D2, Hd in *.
  constructor; cbn; try congruence.
  - rewrite O2. apply dec_ordering_core. exact Hc.
  - rewrite C2. apply dec_complete_core. exact Hc.
  - exact Hi.
Qed.

Lemma next_trial_empty R q : next_trial R q = NTempty -> next_key R q = NEmpty.
Proof.
  unfold next_trial. intros H. dmatch H; try discriminate. reflexivity.
Qed.

(* ------------------------------------------------------------------ *)
(* pause under the repaired code                                       *)
(* ------------------------------------------------------------------ *)
Definition pause_requeue (q : qstate) (t : Z) : list Z :=
  map i_key (filter i_dec (filter (fun i => ends_after i t) (rev (q_generated q)))).

Definition pause_state (q : qstate) (t : Z) : qstate :=
  let l := pause_requeue q t in
  let d2 := fold_left (fun d k => upd_entry d k (add_trials 1)) l (q_data q) in
  set_pause q d2 (requeue_ord l (q_ordering q)) None 0 t true
            (match l with [] => q_empty q | _ => false end)
            (filter (fun i => negb (ends_after i t)) (q_generated q))
            (match q_pol q with PInter _ | PBlockedRandom => all_done d2 | _ => q_complete q end).

Lemma pause_all_rep q t : t <= q_samples q ->
  pause all_rep q (Some t) =
  (pause_state q t,
   map (fun i => ERemoved (i_key i) (i_t0 i)) (filter (fun i => ends_after i t) (rev (q_generated q))),
   false).
Proof.
  intros Ht. unfold pause, pause_state, pause_requeue, requeue_ord.
  cbn [all_rep r_cancel_once r_trim_log r_complete_reset r_empty_reset r_pause_atomic].
  assert (E : t >? q_samples q = false) by lia. rewrite E. cbn [andb].
  assert (D1 : match q_source q, lastinfo (q_generated q) with
               | Some _, Some i => q_data q | _, _ => q_data q end = q_data q).
  { destruct (q_source q); [destruct (lastinfo _)|]; reflexivity. }
  rewrite D1. reflexivity.
Qed.
