(* C04 over the ADDITIONS of the coverage audit (Queue/SpecX.v): the invariant of xop histories - requests with
   decrement=False, pauses whether accepted or REJECTED, resumes, arbitrary declared durations - and its
   preservation by every step of run_hist_x.  Re-uses Queue/LemmasC04.v and Queue/ProofsC04Inv.v. *)
From Coq Require Import ZArith List Bool Lia ZifyBool.
From PV Require Import Queue.Model Queue.Spec Queue.SpecX Queue.LemmasC04 Queue.ProofsC04Inv.
Import ListNotations.
Open Scope Z_scope.

(* ------------------------------------------------------------------ *)
(* tagged event streams                                                *)
(* ------------------------------------------------------------------ *)
(* the sub-stream / the logged keys selected by a predicate Q on the 'decrement' flag:
   dec_events = sel_events id, nd_events = sel_events negb (by conversion) *)
Definition sel_events (Q : bool -> bool) (tev : list tevent) : list event :=
  map fst (filter (fun x => Q (snd x)) tev).
Definition live_sel (Q : bool -> bool) (q : qstate) : list Z :=
  map i_key (filter (fun i => Q (i_dec i)) (q_generated q)).

Lemma dec_events_sel tev : dec_events tev = sel_events (fun b => b) tev.
Proof. reflexivity. Qed.
Lemma nd_events_sel tev : nd_events tev = sel_events negb tev.
Proof. reflexivity. Qed.
Lemma live_dec_sel q : live_dec q = live_sel (fun b => b) q.
Proof. reflexivity. Qed.
Lemma live_nd_sel q : live_nd q = live_sel negb q.
Proof. reflexivity. Qed.

Lemma sel_events_app Q a b : sel_events Q (a ++ b) = sel_events Q a ++ sel_events Q b.
Proof. unfold sel_events. rewrite filter_app, map_app. reflexivity. Qed.

Lemma all_events_app a b : all_events (a ++ b) = all_events a ++ all_events b.
Proof. apply map_app. Qed.

Lemma sel_events_tag Q b ev : sel_events Q (map (fun e => (e, b)) ev) = if Q b then ev else [].
Proof.
  unfold sel_events. induction ev as [|e ev IH]; cbn [map filter snd]; [destruct (Q b); reflexivity|].
  destruct (Q b); cbn [map fst]; [f_equal|]; exact IH.
Qed.

Lemma all_events_tag b ev : all_events (map (fun e : event => (e, b)) ev) = ev.
Proof. unfold all_events. rewrite map_map. cbn [fst]. apply map_id. Qed.

Definition ERem (i : info) : event := ERemoved (i_key i) (i_t0 i).

Lemma sel_events_combine Q c :
  sel_events Q (combine (map ERem c) (map i_dec c)) = map ERem (filter (fun i => Q (i_dec i)) c).
Proof.
  unfold sel_events. induction c as [|i c IH]; [reflexivity|].
  cbn [map combine filter snd]. destruct (Q (i_dec i)); cbn [map fst]; [f_equal|]; exact IH.
Qed.

Lemma all_events_combine c : all_events (combine (map ERem c) (map i_dec c)) = map ERem c.
Proof.
  unfold all_events. induction c as [|i c IH]; [reflexivity|]. cbn [map combine fst]. f_equal. exact IH.
Qed.

Lemma net_nil k : net_presented k [] = 0.
Proof. reflexivity. Qed.

Lemma net_app k a b : net_presented k (a ++ b) = net_presented k a + net_presented k b.
Proof. unfold net_presented. rewrite added_of_app, removed_of_app, !map_app, !countZ_app. lia. Qed.

Lemma net_added k key t : net_presented k [EAdded key t] = if k =? key then 1 else 0.
Proof. unfold net_presented. cbn. rewrite countZ_cons, !countZ_nil. lia. Qed.

Lemma net_empty k : net_presented k [EEmpty] = 0.
Proof. reflexivity. Qed.

Lemma net_removed k c : net_presented k (map ERem c) = - countZ k (map i_key c).
Proof.
  unfold net_presented, ERem. rewrite added_of_map_removed, removed_of_map_removed, map_map. cbn [map fst].
  rewrite countZ_nil. change (fun x : info => i_key x) with i_key. lia.
Qed.

Lemma filter_comm {A} (P Q : A -> bool) l : filter P (filter Q l) = filter Q (filter P l).
Proof.
  induction l as [|x l IH]; [reflexivity|]. cbn [filter].
  destruct (P x) eqn:EP, (Q x) eqn:EQ; cbn [filter]; rewrite ?EP, ?EQ, IH; reflexivity.
Qed.

(* ------------------------------------------------------------------ *)
(* the invariant                                                       *)
(* ------------------------------------------------------------------ *)
Record invx (p : policy) (es : list entry) (q : qstate) (tev : list tevent) : Prop := {
  ix_pol : q_pol q = p;
  ix_len : zlen (q_data q) = zlen es;
  ix_log : Forall (fun i => 0 <= i_key i < zlen es) (q_generated q);
  ix_cnt : forall kt, zlen (filter (eqb_pairZ kt) (live_of q)) =
                      zlen (filter (eqb_pairZ kt) (added_of (all_events tev)))
                      - zlen (filter (eqb_pairZ kt) (removed_of (all_events tev)));
  (* for EVERY selection by the decrement flag: net notifications = logged trials *)
  ix_net : forall Q k, net_presented k (sel_events Q tev) = countZ k (live_sel Q q);
  (* only the decrementing trials hold a trial of their stimulus *)
  ix_req : forall k e, znth es k = Some e -> trials_of (q_data q) k + countZ k (live_dec q) = e_requested e;
  ix_empty : q_empty q = true -> forall k, trials_of (q_data q) k <= 0;
  ix_policy : pol_inv p q
}.

Lemma invx_frame' p es q q' tev :
  q_pol q' = q_pol q -> q_data q' = q_data q -> q_generated q' = q_generated q ->
  q_ordering q' = q_ordering q -> q_complete q' = q_complete q ->
  (q_empty q' = true -> q_empty q = true \/ forall k, trials_of (q_data q) k <= 0) ->
  invx p es q tev -> invx p es q' tev.
Proof.
  intros Hp Hd Hg Ho Hc He [I1 I2 I3 I4 I5 I6 I7 I8].
  constructor; unfold live_of, live_sel, live_dec, pol_inv in *; rewrite ?Hp, ?Hd, ?Hg, ?Ho, ?Hc; auto.
  intros E. destruct (He E) as [E'|E']; auto.
Qed.

Lemma invx_frame p es q q' tev :
  q_pol q' = q_pol q -> q_data q' = q_data q -> q_generated q' = q_generated q ->
  q_ordering q' = q_ordering q -> q_complete q' = q_complete q -> q_empty q' = q_empty q ->
  invx p es q tev -> invx p es q' tev.
Proof.
  intros Hp Hd Hg Ho Hc He. apply invx_frame'; auto. rewrite He. auto.
Qed.

Lemma invx_ev_empty p es q tev b : invx p es q tev -> invx p es q (tev ++ [(EEmpty, b)]).
Proof.
  intros [I1 I2 I3 I4 I5 I6 I7 I8]. constructor; auto.
  - intros kt. rewrite all_events_app, added_of_app, removed_of_app. cbn. rewrite !app_nil_r. apply I4.
  - intros Q k. rewrite sel_events_app, net_app, I5.
    unfold sel_events. cbn [filter snd]. destruct (Q b); cbn [map fst]; rewrite ?net_empty, ?net_nil; lia.
Qed.

Lemma invx_init p es ch pm : wf_queue_x es = true -> invx p es (qinit p es ch pm) [].
Proof.
  unfold wf_queue_x. intros W2. rewrite forallb_forall in W2.
  assert (F : forall e, In e es -> 1 <= e_trials e /\ e_requested e = e_trials e).
  { intros e He. apply W2 in He. unfold wf_entry_x in He. lia. }
  assert (T : forall k, (0 <= k < zlen es -> 1 <= trials_of es k) /\ (~ (0 <= k < zlen es) -> trials_of es k = 0)).
  { intros k. split; intros Hk.
    - apply znth_valid in Hk. destruct Hk as [e He]. unfold trials_of. rewrite He.
      apply znth_In in He. apply F in He. lia.
    - apply trials_of_invalid. exact Hk. }
  constructor; cbn [qinit q_pol q_data q_generated q_empty live_of live_sel live_dec map filter]; auto.
  - intros k e He. unfold trials_of. rewrite He. rewrite countZ_nil.
    apply znth_In in He. apply F in He. lia.
  - discriminate.
  - assert (O : forall k, In k (zrange (fun i => i) 0 (zlen es)) <-> 1 <= trials_of es k).
    { intros k. rewrite In_zrange_id by apply zlen_nonneg. destruct (T k) as [T1 T2]. split; [auto|].
      intros H. destruct (Z_le_dec 0 k); [destruct (Z_lt_dec k (zlen es)); [lia|]|]; rewrite T2 in H; lia. }
    assert (N : forall k, 0 <= trials_of es k).
    { intros k. destruct (T k) as [T1 T2].
      destruct (Z_le_dec 0 k); [destruct (Z_lt_dec k (zlen es)); [specialize (T1 (conj l l0)); lia|]|]; rewrite T2; lia. }
    unfold pol_inv. cbn [qinit q_ordering q_data q_complete].
    assert (E0 : zrange (fun i => i) 0 (zlen es) = [] -> forall k, trials_of es k <= 0).
    { intros E k. destruct (T k) as [T1 T2].
      destruct (Z_le_dec 0 k); [destruct (Z_lt_dec k (zlen es)); [|rewrite T2; lia]|rewrite T2; lia].
      assert (Hin : In k (zrange (fun i => i) 0 (zlen es))) by (apply In_zrange_id; [apply zlen_nonneg|lia]).
      rewrite E in Hin. destruct Hin. }
    destruct p.
    + split; [apply NoDup_zr_id|]. split; assumption.
    + split; [intros [H|H]; [discriminate|apply E0; exact H]|]. intros _. exact N.
    + split; [apply NoDup_zr_id|]. split; assumption.
    + intros [H|H]; [discriminate|apply E0; exact H].
    + intros k Hk. apply O. lia.
Qed.

(* ------------------------------------------------------------------ *)
(* one trial set-up, with or without decrement                         *)
(* ------------------------------------------------------------------ *)
Record tstep (b : bool) (q q' : qstate) (ev : event) (key : Z) : Prop := {
  tx_key : 0 <= key < zlen (q_data q);
  tx_trials : forall k, trials_of (q_data q') k =
                        trials_of (q_data q) k - (if b then (if k =? key then 1 else 0) else 0);
  tx_len : zlen (q_data q') = zlen (q_data q);
  tx_durs : forall k, option_map e_dur (znth (q_data q') k) = option_map e_dur (znth (q_data q) k);
  tx_gen : exists d, option_map e_dur (znth (q_data q) key) = Some d /\
             q_generated q' = q_generated q ++ [{| i_t0 := q_samples q; i_dur := d; i_key := key; i_dec := b |}];
  tx_ev : ev = EAdded key (q_samples q);
  tx_pol : q_pol q' = q_pol q;
  tx_samples : q_samples q' = q_samples q;
  tx_paused : q_paused q' = q_paused q;
  tx_empty : q_empty q' = q_empty q;
  tx_polinv : pol_inv (q_pol q) q -> pol_inv (q_pol q) q'
}.

Lemma dur_upd d key f k : (forall e, e_dur (f e) = e_dur e) ->
  option_map e_dur (znth (upd_entry d key f) k) = option_map e_dur (znth d k).
Proof.
  intros Hf. rewrite znth_upd. destruct (k =? key); [|reflexivity].
  destruct (znth d k); cbn [option_map]; [rewrite Hf|]; reflexivity.
Qed.

Lemma tstep_dec q q' ev key e : trial_step q q' ev key e -> tstep true q q' ev key.
Proof.
  intros TS. destruct (trial_trials _ _ _ _ _ TS) as (V & T1 & T).
  pose proof (ts_e _ _ _ _ _ TS) as E. rewrite znth_upd, Z.eqb_refl in E.
  destruct (znth (q_data q) key) as [e0|] eqn:E0; [|discriminate].
  cbn [option_map] in E. inversion E as [E']. clear E.
  constructor.
  - exact V.
  - exact T.
  - rewrite (ts_data _ _ _ _ _ TS), !zlen_upd_entry. reflexivity.
  - intros k. rewrite (ts_data _ _ _ _ _ TS), !dur_upd; reflexivity.
  - exists (e_dur e0). rewrite E0. split; [reflexivity|]. rewrite (ts_gen _ _ _ _ _ TS). rewrite <- E'. reflexivity.
  - exact (ts_ev _ _ _ _ _ TS).
  - exact (ts_pol _ _ _ _ _ TS).
  - exact (ts_samples _ _ _ _ _ TS).
  - exact (ts_paused _ _ _ _ _ TS).
  - exact (ts_empty _ _ _ _ _ TS).
  - eapply pol_inv_trial; eauto.
Qed.

Lemma pol_inv_ext p q q' :
  (forall k, trials_of (q_data q') k = trials_of (q_data q) k) ->
  q_ordering q' = q_ordering q -> q_complete q' = q_complete q -> pol_inv p q -> pol_inv p q'.
Proof.
  intros T O C. unfold pol_inv. rewrite O, C. destruct p; intros H.
  - destruct H as (ND & IO & NN). split; [exact ND|]. split; intros k; rewrite T; auto.
  - destruct H as [H1 H2]. split; intros c k; rewrite T; auto.
  - destruct H as (ND & IO & NN). split; [exact ND|]. split; intros k; rewrite T; auto.
  - intros c k. rewrite T. auto.
  - intros k. rewrite T. auto.
Qed.

(* next_trial(decrement=False) *)
Lemma next_trial_nd_ok R q q' ev : next_trial_nd R q = NTok q' ev -> exists key, tstep false q q' ev key.
Proof.
  unfold next_trial_nd. intros H.
  destruct (next_key R q) as [key q1| |] eqn:NK; try discriminate.
  destruct (znth (q_data q1) key) as [e|] eqn:ZE; [|discriminate].
  destruct (next_delay e) as [dl|]; [|discriminate].
  destruct (dl <? 0); [discriminate|].
  apply next_key_core in NK. destruct NK as [Hc _].
  destruct Hc as (Hp & Hd & Ho & Hs & Hdl & Hsm & Hpa & Hem & Hg & Hcm).
  inversion H; subst q' ev; clear H. rewrite Hd in ZE.
  exists key. constructor; cbn [q_data q_generated q_pol q_samples q_paused q_empty].
  - eapply znth_Some_valid; eauto.
  - intros k. rewrite Hd, trials_upd_adv. lia.
  - rewrite Hd, zlen_upd_entry. reflexivity.
  - intros k. rewrite Hd. apply dur_upd. reflexivity.
  - exists (e_dur e). rewrite ZE. split; [reflexivity|]. rewrite Hg, Hsm. reflexivity.
  - rewrite Hsm. reflexivity.
  - exact Hp.
  - exact Hsm.
  - exact Hpa.
  - exact Hem.
  - apply pol_inv_ext; cbn [q_data q_ordering q_complete]; try assumption.
    intros k. rewrite Hd. apply trials_upd_adv.
Qed.

Lemma next_trial_nd_empty R q : next_trial_nd R q = NTempty -> next_key R q = NEmpty.
Proof.
  unfold next_trial_nd. intros H. dmatch H; try discriminate. reflexivity.
Qed.

Lemma invx_tstep p es b q q' tev ev key :
  tstep b q q' ev key -> invx p es q tev -> invx p es q' (tev ++ [(ev, b)]).
Proof.
  intros TS [I1 I2 I3 I4 I5 I6 I7 I8].
  destruct (tx_gen _ _ _ _ _ TS) as (d & _ & G).
  pose proof (tx_trials _ _ _ _ _ TS) as T. pose proof (tx_key _ _ _ _ _ TS) as V.
  pose proof (tx_ev _ _ _ _ _ TS) as EV. subst ev.
  assert (L : live_of q' = live_of q ++ [(key, q_samples q)]).
  { unfold live_of. rewrite G, map_app. reflexivity. }
  assert (LS : forall Q, live_sel Q q' = live_sel Q q ++ (if Q b then [key] else [])).
  { intros Q. unfold live_sel. rewrite G, filter_app, map_app. cbn [filter i_dec].
    destruct (Q b); reflexivity. }
  constructor.
  - rewrite (tx_pol _ _ _ _ _ TS). exact I1.
  - rewrite (tx_len _ _ _ _ _ TS). exact I2.
  - rewrite G. apply Forall_app. split; [exact I3|]. constructor; [|constructor]. cbn [i_key]. lia.
  - intros kt. rewrite L, all_events_app, added_of_app, removed_of_app.
    cbn [all_events map fst added_of removed_of flat_map].
    rewrite !app_nil_r, !zfilt_app, I4. lia.
  - intros Q k. rewrite sel_events_app, net_app, I5, LS, countZ_app.
    unfold sel_events. cbn [filter snd]. destruct (Q b); cbn [map fst].
    + rewrite net_added, countZ_cons, countZ_nil. lia.
    + rewrite net_nil, countZ_nil. lia.
  - intros k e0 He0. rewrite T, live_dec_sel, LS, countZ_app. specialize (I6 k e0 He0).
    rewrite live_dec_sel in I6. destruct b.
    + rewrite countZ_cons, countZ_nil. destruct (k =? key); lia.
    + rewrite countZ_nil. lia.
  - rewrite (tx_empty _ _ _ _ _ TS). intros E k. rewrite T. specialize (I7 E k).
    destruct b; [destruct (k =? key)|]; lia.
  - subst p. apply (tx_polinv _ _ _ _ _ TS). exact I8.
Qed.

(* ------------------------------------------------------------------ *)
(* lifting a step invariant through pop_buffer / pop_buffer_nd         *)
(* ------------------------------------------------------------------ *)
Section Lift.
  Variable I : qstate -> list tevent -> Prop.
  Hypothesis I_src : forall q tev s dl, I q tev -> I (set_src q s dl) tev.
  Hypothesis I_add : forall q tev m, 0 <= m -> I q tev -> I (add_samples q m false) tev.
  Hypothesis I_tstep : forall b q q' ev key tev, tstep b q q' ev key -> I q tev -> I q' (tev ++ [(ev, b)]).
  Hypothesis I_empty : forall R b q tev n, 0 <= n -> next_key R q = NEmpty -> I q tev ->
                                       I (add_samples q n true) (tev ++ [(EEmpty, b)]).

  Definition step_x (b : bool) := if b then pop_step else pop_step_nd.

  Lemma step_frame q n tev : I q tev ->
    (q_paused q = true \/ q_source q <> None \/ q_delay q >? 0 = true) ->
    exists q1 out, pop_step all_rep q n = PBok q1 out [] /\
                   forall m, 0 <= m -> I (add_samples q1 m false) tev.
  Proof.
    intros HI C. unfold pop_step. destruct (q_paused q).
    { eexists _, _. split; [reflexivity|]. intros m Hm. apply I_add; assumption. }
    destruct (q_source q) as [[[key pos] len]|].
    { destruct (kind_of q key).
      - destruct (n >? len - pos); eexists _, _; (split; [reflexivity|]); intros m Hm; apply I_add, I_src; assumption.
      - eexists _, _; (split; [reflexivity|]); intros m Hm; apply I_add, I_src; assumption. }
    destruct (q_delay q >? 0).
    { eexists _, _; (split; [reflexivity|]); intros m Hm; apply I_add, I_src; assumption. }
    exfalso. destruct C as [H|[H|H]]; [discriminate|congruence|discriminate].
  Qed.

  Lemma step_lift b q n tev : I q tev ->
    match step_x b all_rep q n with
    | PBok q1 out ev => forall m, 0 <= m -> I (add_samples q1 m false) (tev ++ map (fun e => (e, b)) ev)
    | PBempty => 0 <= n -> I (add_samples q n true) (tev ++ [(EEmpty, b)])
    | PBerror => True
    end.
  Proof.
    intros HI.
    assert (FR : (q_paused q = true \/ q_source q <> None \/ q_delay q >? 0 = true) ->
                 match pop_step all_rep q n with
                 | PBok q1 out ev => forall m, 0 <= m -> I (add_samples q1 m false) (tev ++ map (fun e => (e, b)) ev)
                 | PBempty => 0 <= n -> I (add_samples q n true) (tev ++ [(EEmpty, b)])
                 | PBerror => True
                 end).
    { intros C. destruct (step_frame q n tev HI C) as (q1 & out & E & F). rewrite E.
      intros m Hm. cbn [map]. rewrite app_nil_r. apply F. exact Hm. }
    unfold step_x. destruct b.
    - destruct (q_paused q) eqn:Pa. { apply FR. left. reflexivity. }
      destruct (q_source q) as [s|] eqn:So. { apply FR. right. left. discriminate. }
      destruct (q_delay q >? 0) eqn:Dl. { apply FR. right. right. reflexivity. }
      clear FR. unfold pop_step. rewrite Pa, So, Dl.
      destruct (next_trial all_rep q) as [q' e| |] eqn:NT.
      + intros m Hm. apply I_add; [exact Hm|]. apply next_trial_ok in NT. destruct NT as (key & en & TS).
        cbn [map]. eapply I_tstep; [|exact HI]. eapply tstep_dec; eauto.
      + intros Hn. apply next_trial_empty in NT. eapply I_empty; eauto.
      + exact Logic.I.
    - unfold pop_step_nd.
      destruct (q_paused q) eqn:Pa. { apply FR. left. reflexivity. }
      destruct (q_source q) as [s|] eqn:So. { apply FR. right. left. discriminate. }
      destruct (q_delay q >? 0) eqn:Dl. { apply FR. right. right. reflexivity. }
      clear FR.
      destruct (next_trial_nd all_rep q) as [q' e| |] eqn:NT.
      + intros m Hm. apply I_add; [exact Hm|]. apply next_trial_nd_ok in NT. destruct NT as (key & TS).
        cbn [map]. eapply I_tstep; [exact TS|exact HI].
      + intros Hn. apply next_trial_nd_empty in NT. eapply I_empty; eauto.
      + exact Logic.I.
  Qed.

  Lemma pop_loop_lift : forall fuel q n q' out ev tev,
    I q tev -> pop_loop fuel all_rep q n = Some (q', out, ev) -> I q' (tev ++ map (fun e => (e, true)) ev).
  Proof.
    induction fuel as [|f IH]; intros q n q' out ev tev HI H; cbn [pop_loop] in H.
    - destruct (n <=? 0); [|discriminate]. inversion H; subst. cbn [map]. rewrite app_nil_r. exact HI.
    - destruct (n <=? 0) eqn:En. { inversion H; subst. cbn [map]. rewrite app_nil_r. exact HI. }
      pose proof (step_lift true q n tev HI) as PS. unfold step_x in PS.
      destruct (pop_step all_rep q n) as [q1 o1 e1| |].
      + destruct (pop_loop f all_rep (add_samples q1 (zlen o1) false) (n - zlen o1)) as [[[q2 o2] e2]|] eqn:R;
          [|discriminate].
        inversion H; subst. rewrite map_app, app_assoc. eapply IH; [|exact R]. apply PS. apply zlen_nonneg.
      + inversion H; subst. apply PS. lia.
      + discriminate.
  Qed.

  Lemma pop_loop_nd_lift : forall fuel q n q' out ev tev,
    I q tev -> pop_loop_nd fuel all_rep q n = Some (q', out, ev) -> I q' (tev ++ map (fun e => (e, false)) ev).
  Proof.
    induction fuel as [|f IH]; intros q n q' out ev tev HI H; cbn [pop_loop_nd] in H.
    - destruct (n <=? 0); [|discriminate]. inversion H; subst. cbn [map]. rewrite app_nil_r. exact HI.
    - destruct (n <=? 0) eqn:En. { inversion H; subst. cbn [map]. rewrite app_nil_r. exact HI. }
      pose proof (step_lift false q n tev HI) as PS. unfold step_x in PS.
      destruct (pop_step_nd all_rep q n) as [q1 o1 e1| |].
      + destruct (pop_loop_nd f all_rep (add_samples q1 (zlen o1) false) (n - zlen o1)) as [[[q2 o2] e2]|] eqn:R;
          [|discriminate].
        inversion H; subst. rewrite map_app, app_assoc. eapply IH; [|exact R]. apply PS. apply zlen_nonneg.
      + inversion H; subst. apply PS. lia.
      + discriminate.
  Qed.

  Lemma pop_x_lift b q n q' out ev tev :
    I q tev -> pop_x all_rep q n b = Some (q', out, ev) -> I q' (tev ++ map (fun e => (e, b)) ev).
  Proof.
    intros HI H. unfold pop_x in H. destruct b.
    - eapply pop_loop_lift; eauto.
    - eapply pop_loop_nd_lift; eauto.
  Qed.
End Lift.

(* ------------------------------------------------------------------ *)
(* pause(t)                                                            *)
(* ------------------------------------------------------------------ *)
Definition with_clock (q : qstate) (s : Z) : qstate :=
  set_pause q (q_data q) (q_ordering q) (q_source q) (q_delay q) s (q_paused q) (q_empty q)
            (q_generated q) (q_complete q).

(* repaired code: a pause time after the clock is rejected and NOTHING happens, in any state *)
Lemma pause_rejected_atomic q t : q_samples q < t -> pause all_rep q (Some t) = (q, [], true).
Proof.
  intros Ht. unfold pause. cbn [all_rep r_pause_atomic].
  assert (E : t >? q_samples q = true) by lia. rewrite E. reflexivity.
Qed.

(* before that repair, for ANY t: the state is pause_state with the clock at min(t, clock); the error flag is
   t > clock *)
Lemma pause_nonatomic q t :
  pause rep_nonatomic q (Some t) =
  (with_clock (pause_state q t) (Z.min t (q_samples q)),
   map ERem (filter (fun i => ends_after i t) (rev (q_generated q))),
   t >? q_samples q).
Proof.
  unfold pause, pause_state, pause_requeue, requeue_ord, with_clock.
  cbn [rep_nonatomic r_cancel_once r_trim_log r_complete_reset r_empty_reset r_pause_atomic andb].
  assert (D1 : match q_source q, lastinfo (q_generated q) with
               | Some _, Some i => q_data q | _, _ => q_data q end = q_data q).
  { destruct (q_source q); [destruct (lastinfo _)|]; reflexivity. }
  rewrite D1.
  destruct (t >? q_samples q) eqn:E.
  - rewrite Z.min_r by lia. reflexivity.
  - rewrite Z.min_l by lia. reflexivity.
Qed.

Lemma invx_pause p es q tev t : invx p es q tev ->
  let c := filter (fun i => ends_after i t) (rev (q_generated q)) in
  invx p es (pause_state q t) (tev ++ combine (map ERem c) (map i_dec c)).
Proof.
  intros [I1 I2 I3 I4 I5 I6 I7 I8] c.
  set (P := fun i => ends_after i t).
  set (g := q_generated q) in *.
  set (l := pause_requeue q t).
  assert (Lg : l = map i_key (filter i_dec (filter P (rev g)))) by reflexivity.
  assert (Lv : forall k, In k l -> 0 <= k < zlen es).
  { intros k Hk. rewrite Lg in Hk. apply in_map_iff in Hk. destruct Hk as (i & <- & Hi).
    apply filter_In in Hi. destruct Hi as [Hi _].
    apply filter_In in Hi. destruct Hi as [Hi _]. apply in_rev in Hi.
    rewrite Forall_forall in I3. apply I3 in Hi. exact Hi. }
  assert (Lc : forall k, countZ k l = countZ k (map i_key (filter P (filter i_dec g)))).
  { intros k. rewrite Lg, filter_comm. unfold countZ.
    rewrite <- (zfilt_map_filter_rev i_key (Z.eqb k) P (filter i_dec g)).
    rewrite (filter_rev' i_dec g). reflexivity. }
  set (d2 := fold_left (fun d k => upd_entry d k (add_trials 1)) l (q_data q)).
  assert (T : forall k, trials_of d2 k = trials_of (q_data q) k + countZ k l).
  { intros k. unfold d2. rewrite trials_fold_requeue. unfold trials_of.
    destruct (znth (q_data q) k) eqn:E; [reflexivity|].
    apply znth_None_iff in E. rewrite I2 in E.
    pose proof (countZ_nonneg k l). destruct (Z_lt_dec 0 (countZ k l)); [|lia].
    apply countZ_pos_In, Lv in l0. contradiction. }
  assert (Dq : q_data (pause_state q t) = d2) by reflexivity.
  assert (Gq : q_generated (pause_state q t) = filter (fun i => negb (P i)) g) by reflexivity.
  assert (Lq : live_of (pause_state q t) = map (fun i => (i_key i, i_t0 i)) (filter (fun i => negb (P i)) g))
    by reflexivity.
  constructor.
  - exact I1.
  - rewrite Dq. unfold d2. rewrite zlen_fold_requeue. exact I2.
  - rewrite Gq. apply Forall_filter. exact I3.
  - intros kt. rewrite Lq, all_events_app, all_events_combine, added_of_app, removed_of_app.
    unfold ERem. rewrite added_of_map_removed, removed_of_map_removed.
    rewrite app_nil_r, zfilt_app. unfold c. fold P. rewrite zfilt_map_filter_rev.
    specialize (I4 kt). unfold live_of in I4. fold g in I4.
    rewrite (zfilt_split (fun i => (i_key i, i_t0 i)) (eqb_pairZ kt) P g) in I4. clear - I4. lia.
  - intros Q k. rewrite sel_events_app, net_app, I5, sel_events_combine, net_removed.
    unfold live_sel. rewrite Gq. fold g. unfold c. fold P.
    set (QD := fun i : info => Q (i_dec i)).
    rewrite (filter_comm QD (fun i => negb (P i)) g).
    assert (S : countZ k (map i_key (filter QD g)) =
                countZ k (map i_key (filter P (filter QD g))) +
                countZ k (map i_key (filter (fun i => negb (P i)) (filter QD g)))).
    { unfold countZ. apply zfilt_split. }
    assert (R : countZ k (map i_key (filter QD (filter P (rev g)))) =
                countZ k (map i_key (filter P (filter QD g)))).
    { rewrite filter_comm. unfold countZ.
      rewrite <- (zfilt_map_filter_rev i_key (Z.eqb k) P (filter QD g)).
      rewrite (filter_rev' QD g). reflexivity. }
    clear - S R. lia.
  - intros k e He. rewrite Dq, T, Lc. unfold live_dec in *. rewrite Gq. fold g in I6 |- *.
    rewrite (filter_comm i_dec (fun i => negb (P i)) g).
    assert (S : countZ k (map i_key (filter i_dec g)) =
                countZ k (map i_key (filter P (filter i_dec g))) +
                countZ k (map i_key (filter (fun i => negb (P i)) (filter i_dec g)))).
    { unfold countZ. apply zfilt_split. }
    specialize (I6 k e He). clear - I6 S. lia.
  - cbn [pause_state set_pause q_empty q_data]. fold l. fold d2.
    destruct l eqn:El; [|discriminate]. intros E k. rewrite T, countZ_nil. specialize (I7 E k). lia.
  - unfold pol_inv in *. cbn [pause_state set_pause q_ordering q_data q_complete]. fold l. fold d2.
    assert (FR : NoDup (q_ordering q) /\ (forall k, In k (q_ordering q) <-> 1 <= trials_of (q_data q) k) /\
                 (forall k, 0 <= trials_of (q_data q) k) ->
                 NoDup (requeue_ord l (q_ordering q)) /\
                 (forall k, In k (requeue_ord l (q_ordering q)) <-> 1 <= trials_of d2 k) /\
                 (forall k, 0 <= trials_of d2 k)).
    { intros (ND & IO & NN). split; [apply NoDup_requeue_ord; exact ND|]. split.
      - intros k. rewrite In_requeue_ord, T, IO, <- countZ_pos_In.
        specialize (NN k). pose proof (countZ_nonneg k l). lia.
      - intros k. rewrite T. specialize (NN k). pose proof (countZ_nonneg k l). lia. }
    assert (OE : (q_complete q = true \/ q_ordering q = [] -> forall k, trials_of (q_data q) k <= 0) ->
                 all_done d2 = true \/ requeue_ord l (q_ordering q) = [] -> forall k, trials_of d2 k <= 0).
    { intros Old [C|C]; [apply all_done_iff; exact C|]. intros k. rewrite T.
      assert (Onil : q_ordering q = []).
      { destruct (q_ordering q) as [|x o'] eqn:EO; [reflexivity|]. exfalso.
        assert (Hx : In x (requeue_ord l (x :: o'))) by (apply In_requeue_ord; right; left; reflexivity).
        try rewrite EO in C. rewrite C in Hx. destruct Hx. }
      assert (Cz : countZ k l = 0).
      { pose proof (countZ_nonneg k l). destruct (Z_lt_dec 0 (countZ k l)) as [Hc|Hc]; [|lia]. exfalso.
        apply countZ_pos_In in Hc.
        assert (Hx : In k (requeue_ord l (q_ordering q))) by (apply In_requeue_ord; left; exact Hc).
        rewrite C in Hx. destruct Hx. }
      specialize (Old (or_intror Onil) k). lia. }
    rewrite I1. destruct p.
    + apply FR. exact I8.
    + destruct I8 as [I8a I8]. split; [apply OE; exact I8a|].
      intros K k. rewrite T. specialize (I8 K k). pose proof (countZ_nonneg k l). lia.
    + apply FR. exact I8.
    + apply OE. exact I8.
    + intros k Hk. rewrite T in Hk. apply In_requeue_ord.
      destruct (Z_lt_dec 0 (countZ k l)); [left; apply countZ_pos_In; assumption|].
      right. apply I8. lia.
Qed.

(* ------------------------------------------------------------------ *)
(* histories                                                           *)
(* ------------------------------------------------------------------ *)
Lemma invx_pop p es b q n q' out ev tev :
  invx p es q tev -> pop_x all_rep q n b = Some (q', out, ev) -> invx p es q' (tev ++ map (fun e => (e, b)) ev).
Proof.
  apply (pop_x_lift (invx p es)).
  - intros q0 tev0 s dl. apply invx_frame; reflexivity.
  - intros q0 tev0 m _. apply invx_frame; try reflexivity. cbn. apply orb_false_r.
  - intros b0 q0 q0' ev0 key tev0. apply invx_tstep.
  - intros R b0 q0 tev0 n0 _ NK HI. apply invx_ev_empty. eapply invx_frame'; try exact HI; try reflexivity.
    intros _. right.
    (* next_key = NEmpty: nothing left, by the policy part of the invariant *)
    destruct HI as [I1 I2 I3 I4 I5 I6 I7 I8]. intros k. apply next_key_empty in NK.
    unfold pol_inv in I8. rewrite I1 in NK. destruct p.
    + destruct I8 as (_ & IO & _). specialize (IO k). rewrite NK in IO. cbn in IO.
      destruct (Z_le_dec 1 (trials_of (q_data q0) k)); [|lia]. exfalso. apply IO. assumption.
    + destruct I8 as [I8 _]. auto.
    + destruct I8 as (_ & IO & _). specialize (IO k). rewrite NK in IO. cbn in IO.
      destruct (Z_le_dec 1 (trials_of (q_data q0) k)); [|lia]. exfalso. apply IO. assumption.
    + auto.
    + destruct (Z_lt_dec 0 (trials_of (q_data q0) k)); [|lia].
      apply I8 in l. rewrite NK in l. destruct l.
Qed.

Lemma run_hist_x_invx p es : forall ops q tev0 q' tev,
  invx p es q tev0 -> run_hist_x all_rep q ops = Some (q', tev) -> invx p es q' (tev0 ++ tev).
Proof.
  induction ops as [|op ops IH]; intros q tev0 q' tev HI H; cbn [run_hist_x] in H.
  - inversion H; subst. rewrite app_nil_r. exact HI.
  - destruct op as [n dec|tm|tm|tc].
    + destruct (pop_x all_rep q n dec) as [[[q1 o1] e1]|] eqn:PB; [|discriminate].
      destruct (run_hist_x all_rep q1 ops) as [[q2 e2]|] eqn:RH; [|discriminate].
      inversion H; subst. rewrite app_assoc. eapply IH; [|exact RH]. eapply invx_pop; eauto.
    + destruct tm as [t|].
      * destruct (Z_le_dec t (q_samples q)) as [Ht|Ht].
        -- rewrite (pause_all_rep q t Ht) in H. cbn [pause_flags] in H.
           destruct (run_hist_x all_rep _ ops) as [[q2 e2]|] eqn:RH; [|discriminate].
           inversion H; subst. rewrite app_assoc. eapply IH; [|exact RH].
           apply invx_pause; exact HI.
        -- rewrite (pause_rejected_atomic q t) in H by lia. cbn [combine] in H.
           destruct (run_hist_x all_rep q ops) as [[q2 e2]|] eqn:RH; [|discriminate].
           inversion H; subst. cbn [app]. eapply IH; [exact HI|exact RH].
      * cbn [pause pause_flags combine] in H.
        destruct (run_hist_x all_rep _ ops) as [[q2 e2]|] eqn:RH; [|discriminate].
        inversion H; subst. cbn [app]. eapply IH; [|exact RH].
        eapply invx_frame; [..|exact HI]; reflexivity.
    + eapply IH; [|exact H]. eapply invx_frame; [..|exact HI]; reflexivity.
    + eapply IH; eauto.
Qed.

Lemma reachable_invx p es ch pm ops q tev :
  wf_queue_x es = true -> run_hist_x all_rep (qinit p es ch pm) ops = Some (q, tev) -> invx p es q tev.
Proof.
  intros W H. change tev with ([] ++ tev). eapply run_hist_x_invx; [|exact H]. apply invx_init. exact W.
Qed.
