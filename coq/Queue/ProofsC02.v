(* C02 - Queue output is a faithful, chunk-invariant timeline of the notified trials: the lemmas
   Props/C02.v closes with `exact`.

     LemmasC02.v      list / zrange / znth algebra, structure of next_key / decrement_key / next_trial,
                      the state invariant [Inv] of no-pause runs and its preservation
     ProofsC02Fuel.v  at most 4*samples + 3 loop iterations under progress_entry; the deterministic
                      policies never raise                                   -> never_stuck
     ProofsC02Time.v  ghost invariant tying the output to the notifications  -> timeline
     ProofsC02Chunk.v fuel-free big-step semantics and the a+b = a;b split   -> chunk_invariant  *)
From PV Require Export Queue.LemmasC02 Queue.ProofsC02Fuel Queue.ProofsC02Time Queue.ProofsC02Chunk.
From PV Require Import Queue.Model Queue.Spec.

(* the hypotheses of the three theorems are satisfiable, and the conclusions are not vacuous *)
Example c02_hyps_ex :
  let es := [mk_entry 2 3 KArray [1] true; mk_entry 1 0 KGen [2] true] in
  wf_queue (PGrouped 2) es = true /\ forallb progress_entry es = true /\
  (* a run succeeds and notifies trials *)
  match pops all_rep (qinit (PGrouped 2) es [] []) [2; 0; 5] with
  | Some (_, _, ev) => negb (eqb_list eqb_pairZ (added_of ev) [])
  | None => false
  end = true /\
  (* a reachable state from which the single request of chunk_invariant succeeds *)
  match pops all_rep (qinit PFifo es [] []) [4] with
  | Some (q, _, _) => match pop_buffer all_rep q (3 + 4) with Some _ => true | None => false end
  | None => false
  end = true.
Proof. vm_compute. repeat split; reflexivity. Qed.

Print Assumptions timeline.
Print Assumptions chunk_invariant.
Print Assumptions never_stuck.
