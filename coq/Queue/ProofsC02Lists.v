(* C02 for per-trial delay LISTS: timeline and chunk invariance under wf_queue_l (Queue/SpecLists.v),
   where a stimulus may carry a finite list of delays (e_cyclic = false) instead of a cycled scalar.
   A run that exhausts a list is None in the model (StopIteration), so both theorems are conditional
   on the run returning Some, like the originals.

   The proofs are those of LemmasC02 / ProofsC02Fuel / ProofsC02Time / ProofsC02Chunk replayed under the
   weaker hypothesis inside the module [Lists] (same lemma names; the invariant record [Inv], the
   big-step relation [run] and every hypothesis-free lemma are reused, not copied).  The only real
   change is [entry_facts]: what is known about next_delay is now conditional on it returning Some,
   and the delay is the one [delay_of_l] reads (cycled or k-th element). *)
From PV Require Import Queue.Model Queue.Spec Queue.SpecLists.
From PV Require Import Queue.LemmasC02 Queue.ProofsC02Fuel Queue.ProofsC02Time Queue.ProofsC02Chunk.
From Coq Require Import ZArith List Bool Lia ZifyBool.
Import ListNotations.
Open Scope Z_scope.

Lemma wf_entry_l_facts e : wf_entry_l e = true ->
  1 <= e_trials e /\ 0 <= e_len e /\ e_dpos e = 0 /\ e_delays e <> [] /\
  forallb (fun d => 0 <=? d) (e_delays e) = true.
Proof.
  unfold wf_entry_l. rewrite !andb_true_iff. intros [[[[[H1 H2] H3] H4] H5] H7].
  repeat split; try lia; auto.
  - intros E. rewrite E in H7. discriminate.
  - destruct (e_delays e); [discriminate|assumption].
Qed.

(* the list vocabulary extends the scalar one *)
Lemma wf_entry_l_of_wf e : wf_entry e = true -> wf_entry_l e = true.
Proof.
  unfold wf_entry, wf_entry_l. rewrite !andb_true_iff. intros [[[[[[H1 H2] H3] H4] H5] H6] H7]. auto 10.
Qed.

Lemma wf_queue_l_of_wf p es : wf_queue p es = true -> wf_queue_l p es = true.
Proof.
  unfold wf_queue, wf_queue_l. rewrite !andb_true_iff. intros [[H1 H2] H3]. repeat split; auto.
  rewrite forallb_forall in *. intros x Hx. apply wf_entry_l_of_wf. auto.
Qed.

Lemma delay_of_l_cyclic es k c : forallb e_cyclic es = true -> delay_of_l es k c = delay_of es k c.
Proof.
  intros H. unfold delay_of_l, delay_of. destruct (znth es k) as [e|] eqn:E; [|reflexivity].
  cbn zeta. now rewrite (forallb_znth _ _ _ _ H E).
Qed.

Lemma spacing_from_l_cyclic es : forallb e_cyclic es = true ->
  forall added seen, spacing_from_l es seen added = spacing_from es seen added.
Proof.
  intros H. induction added as [|[k t0] rest IH]; intros seen; [reflexivity|].
  destruct rest as [|[k1 t1] rest']; [reflexivity|].
  change (spacing_from_l es seen ((k, t0) :: (k1, t1) :: rest')) with
    ((t1 =? t0 + len_of es k + delay_of_l es k (countZ k seen)) && spacing_from_l es (k :: seen) ((k1, t1) :: rest')).
  change (spacing_from es seen ((k, t0) :: (k1, t1) :: rest')) with
    ((t1 =? t0 + len_of es k + delay_of es k (countZ k seen)) && spacing_from es (k :: seen) ((k1, t1) :: rest')).
  rewrite delay_of_l_cyclic by exact H. now rewrite IH.
Qed.

Module Lists.

(* ---------- the state invariant (LemmasC02, Section INV) ---------- *)
Section INV.
Variable p : policy.
Variable es : list entry.
Hypothesis Hwf : wf_queue_l p es = true.
Notation Inv := (Inv p es).

Lemma wf_parts : 1 <= zlen es /\ forallb wf_entry_l es = true /\ wf_policy p (zlen es) = true.
Proof.
  unfold wf_queue_l in Hwf. rewrite !andb_true_iff in Hwf. destruct Hwf as [[H1 H2] H3].
  repeat split; auto. lia.
Qed.

Lemma all_done_es : all_done es = false.
Proof.
  destruct wf_parts as (H1 & H2 & _). destruct es as [|e t]; [rewrite zlen_nil in H1; lia|].
  cbn [forallb all_done] in *. apply andb_true_iff in H2. destruct H2 as [H2 _].
  apply wf_entry_l_facts in H2. destruct (e_trials e <=? 0) eqn:E; [lia|reflexivity].
Qed.

Lemma Inv_init ch pm : Inv (qinit p es ch pm).
Proof.
  pose proof all_done_es as HA.
  constructor; unfold qinit, src_ok, pol_ok; cbn; auto; try lia.
  - apply Forall_forall. intros x Hx. apply In_zr in Hx. destruct Hx as (i & Hi & ->).
    unfold zlen in *. lia.
  - destruct p; auto.
Qed.

(* what a well-formed static part gives for a data entry; the delay iterator may be exhausted *)
Lemma entry_facts d k e : map stat d = map stat es -> znth d k = Some e ->
  0 <= e_len e /\ len_of es k = e_len e /\
  forall dl, next_delay e = Some dl ->
    0 <= dl /\ delay_of_l es k (e_dpos e) = dl /\
    (forallb progress_entry es = true -> 1 <= e_len e \/ 1 <= dl).
Proof.
  intros I He. destruct (stat_lookup _ _ _ _ I He) as (e0 & H0 & Es).
  unfold stat in Es. injection Es as E1 E2 E3 E4 E5.
  destruct wf_parts as (_ & Hw & _). pose proof (forallb_znth _ _ _ _ Hw H0) as W.
  apply wf_entry_l_facts in W. destruct W as (W1 & W2 & W3 & W5 & W6).
  split; [lia|]. split; [unfold len_of; rewrite H0; lia|].
  rewrite E3 in W5, W6. intros dl Hdl.
  assert (Hl : 0 < zlen (e_delays e)).
  { destruct (e_delays e); [congruence|]. rewrite zlen_cons. pose proof (zlen_nonneg l). lia. }
  assert (Hz : znth (e_delays e)
                 (if e_cyclic e then e_dpos e mod Z.max 1 (zlen (e_delays e)) else e_dpos e) = Some dl).
  { unfold next_delay in Hdl. destruct (zlen (e_delays e) =? 0) eqn:E0; [lia|].
    replace (Z.max 1 (zlen (e_delays e))) with (zlen (e_delays e)) by lia.
    destruct (e_cyclic e); exact Hdl. }
  pose proof (forallb_znth _ _ _ _ W6 Hz) as Hnn.
  split; [lia|]. split.
  - unfold delay_of_l. rewrite H0. cbn zeta. rewrite E3, E4, Hz. reflexivity.
  - intros Hp. pose proof (forallb_znth _ _ _ _ Hp H0) as P. unfold progress_entry in P.
    apply orb_true_iff in P. destruct P as [P|P]; [left; lia|right].
    rewrite E3 in P. pose proof (forallb_znth _ _ _ _ P Hz). lia.
Qed.

Lemma Inv_next_trial q q' ev : Inv q -> next_trial all_rep q = NTok q' ev -> Inv q'.
Proof.
  intros I H. destruct (next_trial_ok _ _ _ _ H) as
    (key & e & dl & q1 & q2 & Hk & Hd & -> & He & Hdl & Hdl0 & F1 & F2 & F3 & F4 & F5 & F6 & F7 & F8 & F9).
  destruct (next_key_core _ _ _ _ Hk) as [(C1 & C2 & C3 & C4 & C5 & C6 & C7 & C8 & C9) Hin].
  destruct (decrement_key_facts _ _ _ Hd) as (D1 & D2 & D3 & D4 & D5 & D6 & D7 & D8 & D9 & D10).
  assert (Hst : map stat (upd_entry (q_data q) key (add_trials (-1))) = map stat es).
  { rewrite map_upd_entry; auto. apply (inv_stat _ _ _ I). }
  destruct (entry_facts _ _ _ Hst He) as (L1 & L2 & N). destruct (N _ Hdl) as (N2 & N3 & N4).
  destruct I as [I1 I2 I3 I4 I5 I6 I7]. constructor.
  - rewrite F6. exact I1.
  - rewrite F4. exact Hdl0.
  - unfold src_ok. rewrite F3, F4. split; [split; [apply Z.le_refl|exact L1]|].
    split; [symmetry; exact L2|exact N4].
  - rewrite F2. rewrite !map_upd_entry; auto.
  - rewrite F1. exact I5.
  - rewrite F8. apply Forall_forall. intros x Hx. apply D9 in Hx. rewrite C3 in Hx.
    rewrite Forall_forall in I6. auto.
  - unfold pol_ok in *. destruct p eqn:Ep; auto.
    rewrite C1, I5 in D10. destruct D10 as [D10 D11]. destruct I7 as [I7 I8].
    split; [rewrite F8, D10, C3; exact I7|]. rewrite F9, D11, C9.
    assert (Hc : q_complete q = false).
    { destruct (q_complete q) eqn:Ec; [|reflexivity].
      assert (is_empty_state q) by (unfold is_empty_state; rewrite I5; left; exact Ec).
      apply (next_key_empty all_rep eq_refl) in H0. rewrite H0 in Hk. discriminate. }
    rewrite Hc. cbn [orb]. apply all_done_trials. rewrite F2, D2, C2.
    rewrite (map_upd_entry e_trials _ key adv_delay); auto.
Qed.

(* one successful step of _pop_buffer *)
Lemma step_len q s q1 out ev : Inv q -> 0 < s -> pop_step all_rep q s = PBok q1 out ev ->
  0 <= zlen out <= s.
Proof.
  intros I Hs H. unfold pop_step in H. rewrite (inv_paused _ _ _ I) in H.
  pose proof (inv_src _ _ _ I) as S. unfold src_ok in S. pose proof (inv_delay _ _ _ I) as Dl.
  destruct (q_source q) as [[[key pos] len]|] eqn:Es.
  - destruct S as (S1 & S2 & S3). destruct (kind_of q key).
    + destruct (s >? len - pos) eqn:E; injection H as <- <- <-; rewrite Qzlen_zrange; lia.
    + injection H as <- <- <-. rewrite Qzlen_zrange; lia.
  - destruct (q_delay q >? 0) eqn:E.
    + injection H as <- <- <-. rewrite zlen_repeat; lia.
    + destruct (next_trial all_rep q); try discriminate. injection H as <- <- <-. unfold zlen; cbn [length]. lia.
Qed.

Lemma Inv_step q s q1 out ev : Inv q -> 0 < s -> pop_step all_rep q s = PBok q1 out ev -> Inv q1.
Proof.
  intros I Hs H. unfold pop_step in H. rewrite (inv_paused _ _ _ I) in H.
  pose proof (inv_src _ _ _ I) as S. unfold src_ok in S. pose proof (inv_delay _ _ _ I) as Dl.
  destruct (q_source q) as [[[key pos] len]|] eqn:Es.
  - destruct S as (S1 & S2 & S3). destruct (kind_of q key).
    + destruct (s >? len - pos) eqn:E; injection H as <- <- <-;
        destruct I as [I1 I2 I3 I4 I5 I6 I7]; constructor; unfold src_ok, pol_ok in *; qsimpl; auto.
      repeat split; auto; lia.
    + injection H as <- <- <-.
      destruct I as [I1 I2 I3 I4 I5 I6 I7]; constructor; unfold src_ok, pol_ok in *; qsimpl; auto.
      destruct (pos + Z.min (len - pos) s >=? len) eqn:E; auto. repeat split; auto; lia.
  - destruct (q_delay q >? 0) eqn:E.
    + injection H as <- <- <-.
      destruct I as [I1 I2 I3 I4 I5 I6 I7]; constructor; unfold src_ok, pol_ok in *; qsimpl; auto. lia.
    + destruct (next_trial all_rep q) eqn:En; try discriminate. injection H as <- <- <-.
      eapply Inv_next_trial; eauto.
Qed.

Lemma Inv_loop f : forall q s q2 o e, Inv q -> pop_loop f all_rep q s = Some (q2, o, e) -> Inv q2.
Proof.
  induction f as [|f IH]; intros q s q2 o e I H.
  - destruct (Z_le_gt_dec s 0) as [Hs|Hs].
    + rewrite pop_loop_done in H by lia. injection H as <- <- <-. auto.
    + rewrite pop_loop_O in H by lia. discriminate.
  - destruct (Z_le_gt_dec s 0) as [Hs|Hs].
    + rewrite pop_loop_done in H by lia. injection H as <- <- <-. auto.
    + rewrite pop_loop_S in H by lia.
      destruct (pop_step all_rep q s) as [q1 out ev| |] eqn:Est; try discriminate.
      * destruct (pop_loop f all_rep _ _) as [[[q3 o3] e3]|] eqn:El; [|discriminate].
        injection H as <- <- <-. eapply IH; [|exact El].
        apply Inv_add_samples. eapply Inv_step; eauto. lia.
      * injection H as <- <- <-. now apply Inv_add_samples.
Qed.

Lemma Inv_pops ns : forall q q2 o e, Inv q -> pops all_rep q ns = Some (q2, o, e) -> Inv q2.
Proof.
  induction ns as [|n t IH]; intros q q2 o e I H; cbn [pops] in H.
  - injection H as <- <- <-. auto.
  - unfold pop_buffer in H.
    destruct (pop_loop _ all_rep q n) as [[[q1 o1] e1]|] eqn:E1; [|discriminate].
    destruct (pops all_rep q1 t) as [[[q3 o3] e3]|] eqn:E2; [|discriminate].
    injection H as <- <- <-. eapply IH; [|exact E2]. eapply Inv_loop; eauto.
Qed.

End INV.

(* ---------- fuel (ProofsC02Fuel) ---------- *)
Section FUEL.
Variable p : policy.
Variable es : list entry.
Hypothesis Hwf : wf_queue_l p es = true.
Notation Inv := (Inv p es).
Section PROG.
Hypothesis Hprog : forallb progress_entry es = true.

Lemma step_rank q s q1 out ev : Inv q -> 0 < s -> pop_step all_rep q s = PBok q1 out ev ->
  rank (add_samples q1 (zlen out) false) + 1 <= rank q + 4 * zlen out.
Proof.
  intros I Hs H. pose proof (Inv_step p es Hwf _ _ _ _ _ I Hs H) as I1.
  pose proof (rank_bound q1) as B1.
  change (rank (add_samples q1 (zlen out) false)) with (rank q1).
  unfold pop_step in H. rewrite (inv_paused _ _ _ I) in H.
  pose proof (inv_src _ _ _ I) as S. unfold src_ok in S. pose proof (inv_delay _ _ _ I) as Dl.
  unfold rank at 2. destruct (q_source q) as [[[key pos] len]|] eqn:Es.
  - destruct S as (S1 & S2 & S3). specialize (S3 Hprog). destruct (kind_of q key).
    + destruct (s >? len - pos) eqn:E; injection H as <- <- <-; unfold rank in *; qsimpl;
        rewrite Qzlen_zrange by lia;
        destruct (pos <? len) eqn:E1; destruct (q_delay q >? 0) eqn:E2; try lia.
      all: destruct (pos + s <? len) eqn:E3; lia.
    + injection H as <- <- <-. unfold rank in *; qsimpl. rewrite Qzlen_zrange by lia.
      destruct (pos + Z.min (len - pos) s >=? len) eqn:E0;
      destruct (pos <? len) eqn:E1; destruct (q_delay q >? 0) eqn:E2; try lia.
      all: destruct (pos + Z.min (len - pos) s <? len) eqn:E3; lia.
  - destruct (q_delay q >? 0) eqn:E.
    + injection H as <- <- <-. rewrite zlen_repeat by lia. lia.
    + destruct (next_trial all_rep q) as [q' ev'| |] eqn:En; try discriminate. injection H as <- <- <-.
      destruct (next_trial_ok _ _ _ _ En) as
        (key & e & dl & q3 & q2 & _ & _ & _ & _ & _ & _ & _ & _ & F3 & F4 & _).
      pose proof (inv_src _ _ _ I1) as S1. unfold src_ok in S1. unfold rank. rewrite F3 in *.
      destruct S1 as (S1 & S2 & S3). specialize (S3 Hprog).
      change (zlen (@nil osample)) with 0.
      destruct (0 <? e_len e) eqn:E1; [lia|]. destruct (q_delay q' >? 0) eqn:E2; lia.
Qed.

Lemma suff_fuel f : forall q s r, Inv q -> 0 <= s -> pop_loop f all_rep q s = Some r ->
  forall f2, 4 * s + rank q <= Z.of_nat f2 -> pop_loop f2 all_rep q s = Some r.
Proof.
  induction f as [|f IH]; intros q s r I Hs H f2 Hf2.
  - destruct (Z.eq_dec s 0) as [->|Hne].
    + rewrite pop_loop_done in * by lia. auto.
    + rewrite pop_loop_O in H by lia. discriminate.
  - destruct (Z.eq_dec s 0) as [->|Hne].
    + rewrite pop_loop_done in * by lia. auto.
    + pose proof (rank_bound q) as B. destruct f2 as [|f2]; [lia|].
      rewrite pop_loop_S in * by lia.
      destruct (pop_step all_rep q s) as [q1 out ev| |] eqn:Est; auto.
      assert (Hs' : 0 < s) by lia.
      pose proof (step_len p es Hwf _ _ _ _ _ I Hs' Est) as L.
      pose proof (step_rank _ _ _ _ _ I Hs' Est) as R.
      destruct (pop_loop f all_rep _ _) as [r1|] eqn:El; [|discriminate].
      rewrite (IH _ _ r1); auto; try lia.
      apply Inv_add_samples. eapply Inv_step; eauto; lia.
Qed.

Lemma loop_to_buffer f q s r : Inv q -> 0 <= s -> pop_loop f all_rep q s = Some r ->
  pop_buffer all_rep q s = Some r.
Proof.
  intros I Hs H. unfold pop_buffer. eapply suff_fuel; eauto.
  pose proof (pop_fuel_enough q s Hs). pose proof (rank_bound q). lia.
Qed.

End PROG.
End FUEL.

(* ---------- timeline (ProofsC02Time) ---------- *)
Lemma spacing_snoc d : forall pre seen k0 t0 k t,
  spacing_from_l d seen (pre ++ [(k0, t0); (k, t)]) =
  spacing_from_l d seen (pre ++ [(k0, t0)]) &&
  (t =? t0 + len_of d k0 + delay_of_l d k0 (countZ k0 seen + countZ k0 (map fst pre))).
Proof.
  induction pre as [|[ka ta] pre IH]; intros seen k0 t0 k t.
  - cbn [app spacing_from_l map]. rewrite countZ_nil, Z.add_0_r, andb_true_r. reflexivity.
  - assert (Hc : countZ k0 seen + countZ k0 (map fst ((ka, ta) :: pre))
                 = countZ k0 (ka :: seen) + countZ k0 (map fst pre)).
    { cbn [map fst]. rewrite !countZ_cons. lia. }
    rewrite Hc. specialize (IH (ka :: seen) k0 t0 k t).
    destruct pre as [|[kb tb] pre']; cbn [app spacing_from_l] in *; rewrite IH, andb_assoc; reflexivity.
Qed.

Section TL.
Variable p : policy.
Variable es : list entry.
Hypothesis Hwf : wf_queue_l p es = true.
Notation Inv := (Inv p es).

Definition tsrc_ok (q : qstate) (added : list (Z * Z)) : Prop :=
  match q_source q with
  | Some (k, pos, len) =>
      exists pre t0, added = pre ++ [(k, t0)] /\ t0 + pos = q_samples q /\
                     q_delay q = delay_of_l es k (countZ k (map fst pre)) /\ Forall (ends_by es t0) pre
  | None =>
      Forall (ends_by es (q_samples q)) added /\
      (q_empty q = false -> forall pre k t0, added = pre ++ [(k, t0)] ->
         q_samples q + q_delay q = t0 + len_of es k + delay_of_l es k (countZ k (map fst pre)))
  end.

Record TI (q : qstate) (added : list (Z * Z)) : Prop := {
  t_clock : 0 <= q_samples q;
  t_spacing : spacing_ok_l es added = true;
  t_dpos : forall k e, znth (q_data q) k = Some e -> e_dpos e = countZ k (map fst added);
  t_empty : q_empty q = true -> is_empty_state q;
  t_src : tsrc_ok q added
}.

Lemma TI_init ch pm : TI (qinit p es ch pm) [].
Proof.
  destruct (wf_parts p es Hwf) as (_ & Hw & _).
  constructor; unfold tsrc_ok; cbn; try lia; auto; try discriminate.
  - intros k e He. pose proof (forallb_znth _ _ _ _ Hw He) as W. apply wf_entry_l_facts in W. tauto.
  - split; [constructor|]. intros _ pre k t0 E. destruct pre; discriminate.
Qed.

Lemma TI_play_end q added key pos len m : TI q added -> q_source q = Some (key, pos, len) ->
  len = len_of es key -> 0 <= pos -> pos + m = len -> 0 <= m ->
  TI (add_samples (set_src q None (q_delay q)) m false) added.
Proof.
  intros [C Sp Dp Em Sr] Es Hl Hp Hm Hm0. unfold tsrc_ok in Sr. rewrite Es in Sr.
  destruct Sr as (pre & t0 & Ha & Ht0 & Hdl & Hpre).
  constructor; unfold tsrc_ok; qsimpl; auto; try lia.
  - rewrite orb_false_r. exact Em.
  - split.
    + rewrite Ha. apply Forall_app. split.
      * eapply ends_by_mono; [|exact Hpre]. lia.
      * constructor; [|constructor]. unfold ends_by. cbn [fst snd]. lia.
    + intros _ pre' k' t0' E. rewrite Ha in E. apply app_inj_tail in E. destruct E as [<- E].
      injection E as <- <-. lia.
Qed.

Lemma TI_play_on q added key pos len m : TI q added -> q_source q = Some (key, pos, len) -> 0 <= m ->
  TI (add_samples (set_src q (Some (key, pos + m, len)) (q_delay q)) m false) added.
Proof.
  intros [C Sp Dp Em Sr] Es Hm0. unfold tsrc_ok in Sr. rewrite Es in Sr.
  destruct Sr as (pre & t0 & Ha & Ht0 & Hdl & Hpre).
  constructor; unfold tsrc_ok; qsimpl; auto; try lia.
  - rewrite orb_false_r. exact Em.
  - exists pre, t0. repeat split; auto. lia.
Qed.

Lemma TI_delay q added n : TI q added -> q_source q = None -> 0 <= n ->
  TI (add_samples (set_src q None (q_delay q - n)) n false) added.
Proof.
  intros [C Sp Dp Em Sr] Es Hn. unfold tsrc_ok in Sr. rewrite Es in Sr. destruct Sr as [Sr1 Sr2].
  constructor; unfold tsrc_ok; qsimpl; auto; try lia.
  - rewrite orb_false_r. exact Em.
  - split.
    + eapply ends_by_mono; [|exact Sr1]. lia.
    + rewrite orb_false_r. intros He pre k t0 E. specialize (Sr2 He pre k t0 E). lia.
Qed.

Lemma TI_empty q added n : TI q added -> q_source q = None -> is_empty_state q -> 0 <= n ->
  TI (add_samples q n true) added.
Proof.
  intros [C Sp Dp Em Sr] Es He Hn. unfold tsrc_ok in Sr. rewrite Es in Sr. destruct Sr as [Sr1 Sr2].
  constructor; unfold tsrc_ok; qsimpl; auto; try lia.
  rewrite Es. split.
  - eapply ends_by_mono; [|exact Sr1]. lia.
  - rewrite orb_true_r. discriminate.
Qed.

Lemma TI_trial q added q' ev : Inv q -> TI q added -> q_source q = None -> q_delay q <= 0 ->
  next_trial all_rep q = NTok q' ev ->
  exists key, ev = EAdded key (q_samples q) /\
              TI (add_samples q' 0 false) (added ++ [(key, q_samples q)]).
Proof.
  intros I [C Sp Dp Em Sr] Es Hd0 H.
  destruct (next_trial_ok _ _ _ _ H) as
    (key & e & dl & q1 & q2 & Hk & Hd & -> & He & Hdl & Hdl0 & F1 & F2 & F3 & F4 & F5 & F6 & F7 & F8 & F9).
  exists key. split; [reflexivity|].
  unfold tsrc_ok in Sr. rewrite Es in Sr. destruct Sr as [Sr1 Sr2].
  pose proof (inv_delay _ _ _ I) as Dl.
  assert (Hne : q_empty q = false).
  { destruct (q_empty q) eqn:E; [|reflexivity]. specialize (Em eq_refl).
    apply (next_key_empty all_rep eq_refl) in Em. rewrite Em in Hk. discriminate. }
  assert (Hst : map stat (upd_entry (q_data q) key (add_trials (-1))) = map stat es).
  { rewrite map_upd_entry; auto. apply (inv_stat _ _ _ I). }
  destruct (entry_facts p es Hwf _ _ _ Hst He) as (L1 & L2 & N). destruct (N _ Hdl) as (N2 & N3 & N4). clear N.
  rewrite znth_upd, Z.eqb_refl in He.
  destruct (znth (q_data q) key) as [e0|] eqn:E0; [|discriminate]. cbn [option_map] in He.
  injection He as <-. cbn [e_dpos add_trials] in N3. rewrite (Dp _ _ E0) in N3.
  clear H Hk Hd Hst N4 Hdl.
  constructor; unfold tsrc_ok; qsimpl.
  - lia.
  - destruct (list_last_cases added) as [->|(pre & [k0 t0] & ->)]; [reflexivity|].
    rewrite <- app_assoc. cbn [app]. unfold spacing_ok_l in *. rewrite spacing_snoc, Sp. cbn [andb].
    specialize (Sr2 Hne pre k0 t0 eq_refl). rewrite countZ_nil. cbn [Z.add]. lia.
  - intros k e'. rewrite F2, !znth_upd. rewrite map_app, countZ_app. cbn [map fst]. rewrite countZ_cons, countZ_nil.
    destruct (k =? key) eqn:Ek.
    + assert (k = key) by lia. subst k. rewrite E0. cbn [option_map]. intros E. injection E as <-.
      cbn [e_dpos adv_delay add_trials]. rewrite (Dp _ _ E0). lia.
    + intros E. rewrite (Dp _ _ E). lia.
  - rewrite F7, orb_false_r, Hne. discriminate.
  - rewrite F3. exists added, (q_samples q). repeat split; auto.
    + rewrite F5. lia.
    + rewrite F4. lia.
Qed.

(* one successful step *)
Lemma tstep q added s q1 out ev : Inv q -> TI q added -> 0 < s ->
  pop_step all_rep q s = PBok q1 out ev ->
  TI (add_samples q1 (zlen out) false) (added ++ added_of ev) /\
  render es (added ++ added_of ev) (q_samples q + zlen out) = render es added (q_samples q) ++ out.
Proof.
  intros I T Hs H. pose proof (t_clock _ _ T) as C.
  unfold pop_step in H. rewrite (inv_paused _ _ _ I) in H.
  pose proof (inv_src _ _ _ I) as S. unfold src_ok in S. pose proof (inv_delay _ _ _ I) as Dl.
  pose proof (t_src _ _ T) as Sr. unfold tsrc_ok in Sr.
  destruct (q_source q) as [[[key pos] len]|] eqn:Es.
  - destruct S as (S1 & S2 & _). destruct Sr as (pre & t0 & Ha & Ht0 & Hdl & Hpre).
    destruct (kind_of q key).
    + destruct (s >? len - pos) eqn:E; injection H as <- <- <-; cbn [added_of flat_map]; rewrite app_nil_r;
        rewrite Qzlen_zrange by lia.
      * split; [eapply TI_play_end; eauto; lia|]. rewrite Ha. apply render_play; auto; lia.
      * split; [eapply TI_play_on; eauto; lia|]. rewrite Ha. apply render_play; auto; lia.
    + injection H as <- <- <-. cbn [added_of flat_map]. rewrite app_nil_r. rewrite Qzlen_zrange by lia.
      split; [|rewrite Ha; apply render_play; auto; lia].
      destruct (pos + Z.min (len - pos) s >=? len) eqn:E.
      * eapply TI_play_end; eauto; lia.
      * eapply TI_play_on; eauto; lia.
  - destruct Sr as [Sr1 Sr2]. destruct (q_delay q >? 0) eqn:E.
    + injection H as <- <- <-. cbn [added_of flat_map]. rewrite app_nil_r. rewrite zlen_repeat by lia.
      split; [apply TI_delay; auto; lia|]. apply render_silence; auto; lia.
    + destruct (next_trial all_rep q) as [q' ev'| |] eqn:En; try discriminate. injection H as <- <- <-.
      destruct (TI_trial _ _ _ _ I T Es ltac:(lia) En) as (key & -> & T').
      cbn [added_of flat_map app]. change (zlen (@nil osample)) with 0.
      split; [exact T'|]. rewrite Z.add_0_r, app_nil_r. apply render_new.
Qed.

Lemma step_empty_facts q s : Inv q -> pop_step all_rep q s = PBempty ->
  q_source q = None /\ is_empty_state q.
Proof.
  intros I H. unfold pop_step in H. rewrite (inv_paused _ _ _ I) in H.
  destruct (q_source q) as [[[key pos] len]|].
  { destruct (kind_of q key); [destruct (s >? len - pos)|]; discriminate. }
  destruct (q_delay q >? 0); [discriminate|].
  destruct (next_trial all_rep q) eqn:En; try discriminate.
  split; [reflexivity|]. now apply (next_trial_empty all_rep eq_refl).
Qed.

Lemma tloop f : forall q added s q2 o e, Inv q -> TI q added -> 0 <= s ->
  pop_loop f all_rep q s = Some (q2, o, e) ->
  TI q2 (added ++ added_of e) /\ q_samples q2 = q_samples q + s /\
  render es (added ++ added_of e) (q_samples q + s) = render es added (q_samples q) ++ o.
Proof.
  induction f as [|f IH]; intros q added s q2 o e I T Hs H.
  - destruct (Z.eq_dec s 0) as [->|Hne].
    + rewrite pop_loop_done in H by lia. injection H as <- <- <-.
      cbn [added_of flat_map]. rewrite !app_nil_r, Z.add_0_r. auto.
    + rewrite pop_loop_O in H by lia. discriminate.
  - destruct (Z.eq_dec s 0) as [->|Hne].
    + rewrite pop_loop_done in H by lia. injection H as <- <- <-.
      cbn [added_of flat_map]. rewrite !app_nil_r, Z.add_0_r. auto.
    + assert (Hs' : 0 < s) by lia. rewrite pop_loop_S in H by lia.
      destruct (pop_step all_rep q s) as [q1 out ev| |] eqn:Est; try discriminate.
      * destruct (pop_loop f all_rep _ _) as [[[q3 o3] e3]|] eqn:El; [|discriminate].
        injection H as <- <- <-.
        pose proof (step_len p es Hwf _ _ _ _ _ I Hs' Est) as L.
        destruct (tstep _ _ _ _ _ _ I T Hs' Est) as [T1 R1].
        assert (I1 : Inv (add_samples q1 (zlen out) false)).
        { apply Inv_add_samples. eapply Inv_step; eauto. }
        assert (Hs1 : 0 <= s - zlen out) by lia.
        destruct (IH _ _ _ _ _ _ I1 T1 Hs1 El) as (T2 & C2 & R2).
        qsimpl. rewrite added_of_app, app_assoc.
        replace (q_samples q1 + zlen out + (s - zlen out)) with (q_samples q1 + s) in * by lia.
        assert (Eq1 : q_samples q1 = q_samples q).
        { clear - I Est. unfold pop_step in Est. rewrite (inv_paused _ _ _ I) in Est.
          destruct (q_source q) as [[[key pos] len]|].
          - destruct (kind_of q key); [destruct (s >? len - pos)|]; injection Est as <- _ _; reflexivity.
          - destruct (q_delay q >? 0); [injection Est as <- _ _; reflexivity|].
            destruct (next_trial all_rep q) eqn:En; try discriminate. injection Est as <- _ _.
            destruct (next_trial_ok _ _ _ _ En) as
              (key & e & dl & q3 & q2 & _ & _ & _ & _ & _ & _ & _ & _ & _ & _ & F5 & _). exact F5. }
        rewrite Eq1 in *. split; [exact T2|]. split; [exact C2|].
        rewrite R2, R1, app_assoc. reflexivity.
      * injection H as <- <- <-. destruct (step_empty_facts _ _ I Est) as [Es He].
        cbn [added_of flat_map]. rewrite app_nil_r. qsimpl.
        split; [apply TI_empty; auto; lia|]. split; [reflexivity|].
        apply render_silence; try lia. apply (t_clock _ _ T).
        pose proof (t_src _ _ T) as Sr. unfold tsrc_ok in Sr. rewrite Es in Sr. tauto.
Qed.

Lemma tpops ns : forall q added q2 o e, Inv q -> TI q added ->
  forallb (fun n => 0 <=? n) ns = true -> pops all_rep q ns = Some (q2, o, e) ->
  TI q2 (added ++ added_of e) /\ q_samples q2 = q_samples q + sumZ ns /\
  render es (added ++ added_of e) (q_samples q + sumZ ns) = render es added (q_samples q) ++ o.
Proof.
  induction ns as [|n t IH]; intros q added q2 o e I T Hns H; cbn [pops] in H.
  - injection H as <- <- <-. cbn [added_of flat_map sumZ fold_right]. rewrite !app_nil_r, Z.add_0_r. auto.
  - cbn [forallb] in Hns. apply andb_true_iff in Hns. destruct Hns as [Hn Ht].
    destruct (pop_buffer all_rep q n) as [[[q1 o1] e1]|] eqn:E1; [|discriminate].
    destruct (pops all_rep q1 t) as [[[q3 o3] e3]|] eqn:E2; [|discriminate].
    injection H as <- <- <-. unfold pop_buffer in E1.
    assert (Hn0 : 0 <= n) by lia.
    destruct (tloop _ _ _ _ _ _ _ I T Hn0 E1) as (T1 & C1 & R1).
    assert (I1 : Inv q1) by (eapply Inv_loop; eauto).
    destruct (IH _ _ _ _ _ I1 T1 Ht E2) as (T2 & C2 & R2).
    rewrite added_of_app, app_assoc. cbn [sumZ fold_right]. fold (sumZ t).
    rewrite C1 in *. rewrite Z.add_assoc.
    split; [exact T2|]. split; [exact C2|]. rewrite R2, R1, app_assoc. reflexivity.
Qed.

End TL.

Lemma timeline : forall p es ch pm ns q out ev,
  wf_queue_l p es = true -> forallb (fun n => 0 <=? n) ns = true ->
  pops all_rep (qinit p es ch pm) ns = Some (q, out, ev) ->
  out = render es (added_of ev) (sumZ ns) /\ q_samples q = sumZ ns /\ spacing_ok_l es (added_of ev) = true.
Proof.
  intros p es ch pm ns q out ev Hwf Hns H.
  destruct (tpops p es Hwf ns _ [] _ _ _ (Inv_init p es Hwf ch pm) (TI_init p es Hwf ch pm) Hns H)
    as (T & C & R).
  cbn [app q_samples qinit] in *. rewrite Z.add_0_l in *.
  split; [|split; [exact C|exact (t_spacing _ _ _ T)]].
  rewrite R. reflexivity.
Qed.

(* ---------- chunk invariance (ProofsC02Chunk) ---------- *)
Section CHUNK.
Variable p : policy.
Variable es : list entry.
Hypothesis Hwf : wf_queue_l p es = true.
Notation Inv := (Inv p es).

Lemma step_split q a b q1 out ev : Inv q -> 0 < a -> 0 <= b ->
  pop_step all_rep q (a + b) = PBok q1 out ev ->
  (zlen out < a /\ pop_step all_rep q a = PBok q1 out ev) \/
  (exists qa outa outb,
      pop_step all_rep q a = PBok qa outa [] /\ ev = [] /\ zlen outa = a /\ out = outa ++ outb /\
      ((outb = [] /\ add_samples qa a false = add_samples q1 (zlen out) false) \/
       (0 < b /\ exists qb, pop_step all_rep (add_samples qa a false) b = PBok qb outb [] /\
                            add_samples qb (zlen outb) false = add_samples q1 (zlen out) false))).
Proof.
  intros I Ha Hb H.
  pose proof (inv_paused _ _ _ I) as Hp.
  pose proof (inv_src _ _ _ I) as S. unfold src_ok in S. pose proof (inv_delay _ _ _ I) as Dl.
  unfold pop_step, kind_of in *. qsimpl. rewrite Hp in *.
  destruct (q_source q) as [[[key pos] len]|] eqn:Es.
  - destruct S as (S1 & S2 & _).
    destruct (match znth (q_data q) key with Some e => e_kind e | None => KArray end) eqn:Ek.
    + (* array *)
      destruct (a + b >? len - pos) eqn:E; injection H as <- <- <-.
      * destruct (a >? len - pos) eqn:Ea.
        { left. rewrite Qzlen_zrange by lia. split; [lia|reflexivity]. }
        right. exists (set_src q (Some (key, pos + a, len)) (q_delay q)),
                 (zrange (fun i => OWave key i) pos a),
                 (zrange (fun i => OWave key i) (pos + a) (len - pos - a)).
        split; [reflexivity|]. split; [reflexivity|]. split; [apply Qzlen_zrange; lia|].
        split. { rewrite <- Qzrange_app by lia. f_equal. lia. }
        right. split; [lia|]. eexists. qsimpl. rewrite Hp, Ek.
        destruct (b >? len - (pos + a)) eqn:Eb; [|lia].
        split. { f_equal. f_equal. lia. }
        apply qstate_eq; qsimpl; try reflexivity.
        -- rewrite !Qzlen_zrange by lia. lia.
        -- now rewrite !orb_false_r.
      * right. exists (set_src q (Some (key, pos + a, len)) (q_delay q)),
                 (zrange (fun i => OWave key i) pos a),
                 (zrange (fun i => OWave key i) (pos + a) b).
        destruct (a >? len - pos) eqn:Ea; [lia|].
        split; [reflexivity|]. split; [reflexivity|]. split; [apply Qzlen_zrange; lia|].
        split. { apply Qzrange_app; lia. }
        destruct (Z.eq_dec b 0) as [->|Hb0].
        -- left. split; [reflexivity|]. apply qstate_eq; qsimpl; try reflexivity.
           ++ do 3 f_equal. lia.
           ++ rewrite Qzlen_zrange by lia. lia.
        -- right. split; [lia|]. eexists. qsimpl. rewrite Hp, Ek.
           destruct (b >? len - (pos + a)) eqn:Eb; [lia|].
           split; [reflexivity|].
           apply qstate_eq; qsimpl; try reflexivity.
           ++ do 3 f_equal. lia.
           ++ rewrite !Qzlen_zrange by lia. lia.
           ++ now rewrite !orb_false_r.
    + (* generator *)
      injection H as <- <- <-.
      destruct (Z_lt_ge_dec (len - pos) a) as [Hr|Hr].
      { left. rewrite Qzlen_zrange by lia. split; [lia|].
        replace (Z.min (len - pos) (a + b)) with (Z.min (len - pos) a) by lia. reflexivity. }
      right.
      exists (set_src q (if pos + a >=? len then None else Some (key, pos + a, len)) (q_delay q)),
             (zrange (fun i => OWave key i) pos a),
             (zrange (fun i => OWave key i) (pos + a) (Z.min (len - pos) (a + b) - a)).
      split. { replace (Z.min (len - pos) a) with a by lia. reflexivity. }
      split; [reflexivity|]. split; [apply Qzlen_zrange; lia|].
      split. { rewrite <- Qzrange_app by lia. f_equal. lia. }
      destruct (Z.eq_dec (Z.min (len - pos) (a + b)) a) as [Hm|Hm].
      * left. rewrite Hm. split; [apply Qzrange_nil; lia|].
        apply qstate_eq; qsimpl; try reflexivity.
        rewrite Qzlen_zrange by lia. lia.
      * right. split; [lia|]. eexists. qsimpl. rewrite Hp.
        destruct (pos + a >=? len) eqn:Eg; [lia|]. qsimpl. rewrite Ek.
        replace (Z.min (len - (pos + a)) b) with (Z.min (len - pos) (a + b) - a) by lia.
        split; [reflexivity|].
        apply qstate_eq; qsimpl; try reflexivity.
        -- replace (pos + a + (Z.min (len - pos) (a + b) - a)) with (pos + Z.min (len - pos) (a + b)) by lia.
           reflexivity.
        -- rewrite !Qzlen_zrange by lia. lia.
        -- now rewrite !orb_false_r.
  - destruct (q_delay q >? 0) eqn:Ed.
    + injection H as <- <- <-.
      destruct (Z_lt_ge_dec (q_delay q) a) as [Hr|Hr].
      { left. rewrite zlen_repeat by lia. split; [lia|].
        replace (Z.min (q_delay q) (a + b)) with (Z.min (q_delay q) a) by lia. reflexivity. }
      right.
      exists (set_src q None (q_delay q - a)), (repeat OZero (Z.to_nat a)),
             (repeat OZero (Z.to_nat (Z.min (q_delay q) (a + b) - a))).
      split. { replace (Z.min (q_delay q) a) with a by lia. reflexivity. }
      split; [reflexivity|]. split; [apply zlen_repeat; lia|].
      split. { rewrite <- repeat_split by lia. do 2 f_equal. lia. }
      destruct (Z.eq_dec (Z.min (q_delay q) (a + b)) a) as [Hm|Hm].
      * left. rewrite Hm. split; [replace (a - a) with 0 by lia; reflexivity|].
        apply qstate_eq; qsimpl; try reflexivity.
        rewrite zlen_repeat by lia. lia.
      * right. split; [lia|]. eexists. qsimpl. rewrite Hp.
        destruct (q_delay q - a >? 0) eqn:Eg; [|lia].
        replace (Z.min (q_delay q - a) b) with (Z.min (q_delay q) (a + b) - a) by lia.
        split; [reflexivity|].
        apply qstate_eq; qsimpl; try reflexivity.
        -- lia.
        -- rewrite !zlen_repeat by lia. lia.
        -- now rewrite !orb_false_r.
    + left. destruct (next_trial all_rep q); try discriminate. injection H as <- <- <-.
      split; [unfold zlen; cbn [length]; lia|reflexivity].
Qed.

Lemma run_split q s q1 o1 e1 : run q s q1 o1 e1 ->
  forall a b, s = a + b -> 0 <= a -> 0 <= b -> Inv q ->
  exists qa oa ea ob eb, run q a qa oa ea /\ run qa b q1 ob eb /\
                         o1 = oa ++ ob /\ added_of e1 = added_of (ea ++ eb).
Proof.
  induction 1 as [q s Hs|q s Hs He|q s q1 out ev q2 out2 ev2 Hs Hst Hr IH]; intros a b -> Ha Hb I.
  - exists q, [], [], [], []. repeat split; try reflexivity; constructor; lia.
  - destruct (Z.eq_dec a 0) as [->|Ha0].
    { exists q, [], [], (repeat OZero (Z.to_nat (0 + b))), [EEmpty].
      repeat split; try reflexivity; [constructor; lia|].
      replace b with (0 + b) at 1 by lia. now apply run_empty. }
    destruct (step_empty _ _ _ _ I He) as [E1 E2].
    exists (add_samples q a true), (repeat OZero (Z.to_nat a)), [EEmpty].
    destruct (Z.eq_dec b 0) as [->|Hb0].
    + exists [], []. replace (a + 0) with a by lia.
      repeat split; try (now rewrite app_nil_r); [apply run_empty; auto; lia|constructor; lia].
    + exists (repeat OZero (Z.to_nat b)), [EEmpty].
      split; [apply run_empty; auto; lia|]. split.
      * replace (add_samples q (a + b) true) with (add_samples (add_samples q a true) b true).
        { apply run_empty; auto. lia. }
        apply qstate_eq; qsimpl; try reflexivity; [lia|]. destruct (q_empty q); reflexivity.
      * split; [apply repeat_split; lia|reflexivity].
  - destruct (Z.eq_dec a 0) as [->|Ha0].
    { exists q, [], [], (out ++ out2), (ev ++ ev2).
      repeat split; try reflexivity; [constructor; lia|].
      replace b with (0 + b) by lia. eapply run_step; eauto. }
    assert (Ha' : 0 < a) by lia.
    destruct (step_split _ _ _ _ _ _ I Ha' Hb Hst) as [[Hn Hsa]|(qa & outa & outb & Hsa & -> & Hla & -> & Hcase)].
    + assert (I1 : Inv (add_samples q1 (zlen out) false)).
      { apply Inv_add_samples. eapply Inv_step; eauto. }
      pose proof (step_len p es Hwf _ _ _ _ _ I Hs Hst) as L.
      destruct (IH (a - zlen out) b ltac:(lia) ltac:(lia) Hb I1) as (qa & oa & ea & ob & eb & R1 & R2 & -> & Hadd).
      exists qa, (out ++ oa), (ev ++ ea), ob, eb.
      split; [eapply run_step; eauto|]. split; [exact R2|]. split; [now rewrite app_assoc|].
      rewrite <- app_assoc, !added_of_app in *. now rewrite Hadd.
    + exists (add_samples qa a false), (outa ++ []), ([] ++ []), (outb ++ out2), ev2.
      split.
      { eapply run_step; eauto. rewrite Hla. constructor. lia. }
      split.
      { destruct Hcase as [[-> Heq]|[Hb0 (qb & Hsb & Heq)]].
        - rewrite Heq. cbn [app]. rewrite app_nil_r, Hla in Hr.
          rewrite app_nil_r, Hla. replace (a + b - a) with b in Hr by lia. exact Hr.
        - change ev2 with ([] ++ ev2). eapply run_step; eauto. rewrite Heq. rewrite zlen_app, Hla in *.
          replace (b - zlen outb) with (a + b - (a + zlen outb)) by lia. exact Hr. }
      split; [now rewrite !app_nil_r, app_assoc|reflexivity].
Qed.

End CHUNK.

Lemma chunk_invariant : forall p es ch pm pre a b q o0 e0 q1 o1 e1,
  wf_queue_l p es = true -> forallb progress_entry es = true ->
  forallb (fun n => 0 <=? n) (a :: b :: pre) = true ->
  pops all_rep (qinit p es ch pm) pre = Some (q, o0, e0) ->
  pop_buffer all_rep q (a + b) = Some (q1, o1, e1) ->
  exists q2 o2 e2, pops all_rep q [a; b] = Some (q2, o2, e2) /\
    o1 = o2 /\ added_of e1 = added_of e2 /\ q_samples q1 = q_samples q2 /\ q_empty q1 = q_empty q2 /\
    map e_trials (q_data q1) = map e_trials (q_data q2).
Proof.
  intros p es ch pm pre a b q o0 e0 q1 o1 e1 Hwf Hp Hns Hpre Hbuf.
  cbn [forallb] in Hns. apply andb_true_iff in Hns. destruct Hns as [Ha Hns].
  apply andb_true_iff in Hns. destruct Hns as [Hb _].
  assert (Ha0 : 0 <= a) by lia. assert (Hb0 : 0 <= b) by lia.
  assert (I : Inv p es q) by (eapply Inv_pops; eauto using Inv_init).
  unfold pop_buffer in Hbuf. apply loop_run in Hbuf.
  destruct (run_split p es Hwf _ _ _ _ _ Hbuf a b eq_refl Ha0 Hb0 I) as (qa & oa & ea & ob & eb & R1 & R2 & -> & Hadd).
  destruct (run_loop _ _ _ _ _ R1) as [fa L1]. destruct (run_loop _ _ _ _ _ R2) as [fb L2].
  assert (Ia : Inv p es qa) by (eapply Inv_loop; eauto).
  apply (loop_to_buffer p es Hwf Hp) in L1; auto. apply (loop_to_buffer p es Hwf Hp) in L2; auto.
  exists q1, (oa ++ ob ++ []), (ea ++ eb ++ []). cbn [pops]. rewrite L1, L2.
  repeat split; try reflexivity.
  - now rewrite app_nil_r.
  - now rewrite app_nil_r.
Qed.

End Lists.

Lemma timeline_l : forall p es ch pm ns q out ev,
  wf_queue_l p es = true -> forallb (fun n => 0 <=? n) ns = true ->
  pops all_rep (qinit p es ch pm) ns = Some (q, out, ev) ->
  out = render es (added_of ev) (sumZ ns) /\ q_samples q = sumZ ns /\ spacing_ok_l es (added_of ev) = true.
Proof. exact Lists.timeline. Qed.

Lemma chunk_invariant_l : forall p es ch pm pre a b q o0 e0 q1 o1 e1,
  wf_queue_l p es = true -> forallb progress_entry es = true ->
  forallb (fun n => 0 <=? n) (a :: b :: pre) = true ->
  pops all_rep (qinit p es ch pm) pre = Some (q, o0, e0) ->
  pop_buffer all_rep q (a + b) = Some (q1, o1, e1) ->
  exists q2 o2 e2, pops all_rep q [a; b] = Some (q2, o2, e2) /\
    o1 = o2 /\ added_of e1 = added_of e2 /\ q_samples q1 = q_samples q2 /\ q_empty q1 = q_empty q2 /\
    map e_trials (q_data q1) = map e_trials (q_data q2).
Proof. exact Lists.chunk_invariant. Qed.

(* the hypotheses are satisfiable with a genuine (non-cyclic) list, the run notifies trials, and a
   list that is too short makes the run None (StopIteration), which is why the theorems are conditional *)
Example lists_hyps_ex :
  let es := [mk_entry 2 3 KArray [1; 4] false; mk_entry 1 0 KGen [2] false] in
  wf_queue_l PFifo es = true /\ wf_queue PFifo es = false /\ forallb progress_entry es = true /\
  match pops all_rep (qinit PFifo es [] []) [2; 0; 9; 4] with
  | Some (_, _, ev) => 3 <=? zlen (added_of ev)
  | None => false
  end = true /\
  timeline_l_test PFifo es [] [] [2; 0; 9; 4] = true /\
  pops all_rep (qinit PFifo [mk_entry 3 1 KArray [1; 1] false] [] []) [20] = None.
Proof. vm_compute. repeat split; reflexivity. Qed.

Print Assumptions timeline_l.
Print Assumptions chunk_invariant_l.
