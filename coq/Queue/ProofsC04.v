(* C04 - pause/resume conserves trials: the lemmas Props/C04.v closes with `exact`. *)
From Coq Require Import ZArith List Bool Lia ZifyBool.
From PV Require Import Queue.Model Queue.Spec.
From PV Require Export Queue.LemmasC04 Queue.ProofsC04Inv.
Import ListNotations.
Open Scope Z_scope.

(* ------------------------------------------------------------------ *)
(* pause(t), t not after the clock                                     *)
(* ------------------------------------------------------------------ *)

(* hypothesis-free form: holds for ANY state.  The trials clause is stated through znth because a log key
   that is not an index of q_data restores nothing (upd_entry is then the identity). *)
Lemma pause_exact_general : forall q t q' ev err,
  0 <= t <= q_samples q -> pause all_rep q (Some t) = (q', ev, err) ->
  err = false /\
  ev = map (fun i => ERemoved (i_key i) (i_t0 i)) (filter (fun i => ends_after i t) (rev (q_generated q))) /\
  q_generated q' = filter (fun i => negb (ends_after i t)) (q_generated q) /\
  q_samples q' = t /\ q_paused q' = true /\ q_source q' = None /\ q_delay q' = 0 /\
  (forall k, trials_of (q_data q') k =
             match znth (q_data q) k with
             | Some e => e_trials e +
                         countZ k (map i_key (filter i_dec (filter (fun i => ends_after i t) (q_generated q))))
             | None => 0
             end).
Proof.
  intros q t q' ev err [_ Ht] H. rewrite (pause_all_rep q t Ht) in H. inversion H; subst q' ev err; clear H.
  repeat split.
  intros k. cbn [pause_state set_pause q_data]. rewrite trials_fold_requeue.
  destruct (znth (q_data q) k); [|reflexivity]. f_equal.
  unfold pause_requeue, countZ. rewrite !filter_rev', map_rev. apply zfilt_rev.
Qed.

(* with every log key an index of the data: exactly the C04 formula *)
Lemma pause_exact_valid : forall q t q' ev err,
  (forall i, In i (q_generated q) -> 0 <= i_key i < zlen (q_data q)) ->
  0 <= t <= q_samples q -> pause all_rep q (Some t) = (q', ev, err) ->
  err = false /\
  ev = map (fun i => ERemoved (i_key i) (i_t0 i)) (filter (fun i => ends_after i t) (rev (q_generated q))) /\
  q_generated q' = filter (fun i => negb (ends_after i t)) (q_generated q) /\
  q_samples q' = t /\ q_paused q' = true /\ q_source q' = None /\ q_delay q' = 0 /\
  (forall k, trials_of (q_data q') k =
             trials_of (q_data q) k +
             countZ k (map i_key (filter i_dec (filter (fun i => ends_after i t) (q_generated q))))).
Proof.
  intros q t q' ev err V Ht H.
  destruct (pause_exact_general q t q' ev err Ht H) as (A1 & A2 & A3 & A4 & A5 & A6 & A7 & A8).
  repeat (split; [assumption|]).
  intros k. rewrite A8. unfold trials_of. destruct (znth (q_data q) k) eqn:E; [reflexivity|].
  apply znth_None_iff in E.
  set (c := countZ k _). pose proof (countZ_nonneg k (map i_key (filter i_dec (filter (fun i => ends_after i t) (q_generated q))))) as N.
  fold c in N. destruct (Z_lt_dec 0 c) as [Hc|Hc]; [|lia].
  exfalso. apply E. unfold c in Hc. apply countZ_pos_In in Hc. apply in_map_iff in Hc.
  destruct Hc as (i & <- & Hi). apply filter_In in Hi. destruct Hi as [Hi _].
  apply filter_In in Hi. destruct Hi as [Hi _]. apply V. exact Hi.
Qed.

(* the state quantified over must be one a history can reach: for an arbitrary record the formula fails *)
Lemma pause_exact_unconstrained_refuted : exists q t q' ev err k,
  0 <= t <= q_samples q /\ pause all_rep q (Some t) = (q', ev, err) /\
  trials_of (q_data q') k <>
  trials_of (q_data q) k +
  countZ k (map i_key (filter i_dec (filter (fun i => ends_after i t) (q_generated q)))).
Proof.
  set (q := {| q_pol := PFifo; q_data := []; q_ordering := []; q_source := None; q_delay := 0; q_samples := 0;
               q_paused := false; q_empty := false;
               q_generated := [ {| i_t0 := 0; i_dur := 10; i_key := 0; i_dec := true |} ];
               q_i := -1; q_iperm := []; q_complete := false; q_choices := []; q_perms := [] |}).
  exists q, 0, (fst (fst (pause all_rep q (Some 0)))), (snd (fst (pause all_rep q (Some 0)))),
         (snd (pause all_rep q (Some 0))), 0.
  split; [cbn; lia|]. split; [reflexivity|]. vm_compute. discriminate.
Qed.

Lemma pause_exact : forall p es ch pm ops q ev0 t q' ev err,
  wf_queue p es = true -> wf_hist all_rep (qinit p es ch pm) ops = true ->
  run_hist all_rep (qinit p es ch pm) ops = Some (q, ev0) ->
  0 <= t <= q_samples q -> pause all_rep q (Some t) = (q', ev, err) ->
  err = false /\
  ev = map (fun i => ERemoved (i_key i) (i_t0 i)) (filter (fun i => ends_after i t) (rev (q_generated q))) /\
  q_generated q' = filter (fun i => negb (ends_after i t)) (q_generated q) /\
  q_samples q' = t /\ q_paused q' = true /\ q_source q' = None /\ q_delay q' = 0 /\
  (forall k, trials_of (q_data q') k =
             trials_of (q_data q) k +
             countZ k (map i_key (filter i_dec (filter (fun i => ends_after i t) (q_generated q))))).
Proof.
  intros p es ch pm ops q ev0 t q' ev err W _ RH Ht H.
  pose proof (reachable_inv _ _ _ _ _ _ _ W RH) as I.
  apply pause_exact_valid; try assumption.
  intros i Hi. pose proof (inv_log _ _ _ _ I) as L. rewrite Forall_forall in L.
  apply L in Hi. rewrite (inv_len _ _ _ _ I). tauto.
Qed.

Lemma future_pause_rejected : forall q t q' ev err,
  q_samples q < t -> pause all_rep q (Some t) = (q', ev, err) -> err = true.
Proof.
  intros q t q' ev err Ht H. unfold pause in H.
  assert (E : t >? q_samples q = true) by lia. rewrite E in H. inversion H. reflexivity.
Qed.

(* ------------------------------------------------------------------ *)
(* while paused                                                        *)
(* ------------------------------------------------------------------ *)
Lemma paused_silent : forall q n, q_paused q = true -> 0 <= n ->
  exists q', pop_buffer all_rep q n = Some (q', repeat OZero (Z.to_nat n), []) /\
             q_generated q' = q_generated q /\ q_data q' = q_data q /\ q_paused q' = true.
Proof.
  intros q n Hp Hn. unfold pop_buffer.
  destruct (pop_fuel_pos q n Hn) as [f ->]. cbn [pop_loop].
  destruct (n <=? 0) eqn:E.
  - assert (n = 0) by lia. subst n. exists q. cbn. auto.
  - unfold pop_step. rewrite Hp.
    assert (L : zlen (repeat OZero (Z.to_nat n)) = n).
    { unfold zlen. rewrite repeat_length. lia. }
    rewrite L.
    assert (R : pop_loop f all_rep (add_samples q n false) (n - n) = Some (add_samples q n false, [], [])).
    { destruct f; cbn [pop_loop]; assert (E0 : n - n <=? 0 = true) by lia; rewrite E0; reflexivity. }
    rewrite R. exists (add_samples q n false). rewrite app_nil_r. cbn. auto.
Qed.

(* ------------------------------------------------------------------ *)
(* after resume the first trial starts at the resume time              *)
(* ------------------------------------------------------------------ *)
Lemma first_added_at_clock : forall fuel q n q3 out ev,
  q_paused q = false -> q_source q = None -> q_delay q = 0 ->
  pop_loop fuel all_rep q n = Some (q3, out, ev) ->
  match added_of ev with (_, t0) :: _ => t0 = q_samples q | [] => True end.
Proof.
  intros fuel q n q3 out ev Hp Hs Hd H.
  destruct fuel as [|f]; cbn [pop_loop] in H.
  - destruct (n <=? 0); [|discriminate]. inversion H; subst. exact Logic.I.
  - destruct (n <=? 0). { inversion H; subst. exact Logic.I. }
    unfold pop_step in H. rewrite Hp, Hs, Hd in H. cbn [Z.gtb Z.compare] in H.
    destruct (next_trial all_rep q) as [q1 e| |] eqn:NT.
    + apply next_trial_ok in NT. destruct NT as (key & en & TS).
      rewrite (ts_ev _ _ _ _ _ TS) in H.
      destruct (pop_loop f all_rep _ _) as [[[q2 o2] e2]|]; [|discriminate].
      inversion H; subst. cbn. reflexivity.
    + inversion H; subst. exact Logic.I.
    + discriminate.
Qed.

Lemma resume_start : forall q t t2 q1 ev1 n q3 out ev,
  0 <= t <= q_samples q -> 0 <= t2 -> 0 <= n ->
  pause all_rep q (Some t) = (q1, ev1, false) ->
  pop_buffer all_rep (resume q1 (Some t2)) n = Some (q3, out, ev) ->
  match added_of ev with (_, t0) :: _ => t0 = t2 | [] => True end.
Proof.
  intros q t t2 q1 ev1 n q3 out ev [_ Ht] _ _ HP HB.
  rewrite (pause_all_rep q t Ht) in HP. inversion HP; subst q1 ev1; clear HP.
  unfold pop_buffer in HB.
  apply first_added_at_clock in HB; try reflexivity. exact HB.
Qed.

(* ------------------------------------------------------------------ *)
(* conservation over every history                                     *)
(* ------------------------------------------------------------------ *)
Lemma conservation : forall p es ch pm ops q ev,
  wf_queue p es = true -> wf_hist all_rep (qinit p es ch pm) ops = true ->
  run_hist all_rep (qinit p es ch pm) ops = Some (q, ev) ->
  (forall k t0, zlen (filter (eqb_pairZ (k, t0)) (live_of q)) =
                zlen (filter (eqb_pairZ (k, t0)) (added_of ev)) - zlen (filter (eqb_pairZ (k, t0)) (removed_of ev))) /\
  (forall k e, znth es k = Some e -> trials_of (q_data q) k + net_presented k ev = e_requested e).
Proof.
  intros p es ch pm ops q ev W _ RH.
  pose proof (reachable_inv _ _ _ _ _ _ _ W RH) as I. split.
  - intros k t0. apply (inv_cnt _ _ _ _ I).
  - intros k e He. rewrite (inv_net _ _ _ _ I). apply (inv_req _ _ _ _ I). exact He.
Qed.

Lemma at_empty : forall p es ch pm ops q ev,
  wf_queue p es = true -> wf_hist all_rep (qinit p es ch pm) ops = true ->
  run_hist all_rep (qinit p es ch pm) ops = Some (q, ev) -> q_empty q = true ->
  forall k e, znth es k = Some e ->
    if exact_policy p then net_presented k ev = e_requested e else e_requested e <= net_presented k ev.
Proof.
  intros p es ch pm ops q ev W _ RH HE k e He.
  pose proof (reachable_inv _ _ _ _ _ _ _ W RH) as I.
  pose proof (inv_req _ _ _ _ I k e He) as R. rewrite <- (inv_net _ _ _ _ I) in R.
  pose proof (inv_empty _ _ _ _ I HE k) as D.
  pose proof (inv_policy _ _ _ _ I) as PI. unfold pol_inv in PI.
  destruct p as [|keep| | |gs]; cbn [exact_policy].
  - destruct PI as (_ & _ & N). specialize (N k). lia.
  - destruct keep.
    + lia.
    + destruct PI as (_ & N). specialize (N eq_refl k). lia.
  - destruct PI as (_ & _ & N). specialize (N k). lia.
  - lia.
  - lia.
Qed.

(* ------------------------------------------------------------------ *)
(* the code before the repairs                                         *)
(* ------------------------------------------------------------------ *)
Lemma unrepaired_refuted : exists p es ops q ev k e,
  wf_queue p es = true /\ wf_hist no_rep (qinit p es [] []) ops = true /\
  run_hist no_rep (qinit p es [] []) ops = Some (q, ev) /\ q_empty q = true /\ exact_policy p = true /\
  znth es k = Some e /\ net_presented k ev <> e_requested e.
Proof.
  set (es := [mk_entry 2 3 KArray [2] true]).
  set (ops := [Pop 2; Pause (Some 1); Resume (Some 1); Pop 100]).
  destruct (run_hist no_rep (qinit PFifo es [] []) ops) as [[q ev]|] eqn:RH; [|vm_compute in RH; discriminate].
  exists PFifo, es, ops, q, ev, 0, (mk_entry 2 3 KArray [2] true).
  vm_compute in RH. inversion RH; subst q ev; clear RH.
  vm_compute. repeat split; try reflexivity. discriminate.
Qed.

(* the hypotheses of the history theorems are satisfiable, for every policy *)
Example hist_hyps_ex :
  let es := [mk_entry 2 3 KArray [2] true; mk_entry 1 2 KGen [1] true] in
  let ops := [Pop 7; Pause (Some 4); Pop 3; Resume (Some 6); Pop 9; Pause (Some 8); Resume (Some 8); Pop 60] in
  forallb (fun p => wf_queue p es && wf_hist all_rep (qinit p es [0;1;0;1;0;1] [[0;1];[1;0];[0;1];[1;0]]) ops
                    && match run_hist all_rep (qinit p es [0;1;0;1;0;1] [[0;1];[1;0];[0;1];[1;0]]) ops with
                       | Some (q, _) => q_empty q | None => false end)
          [PFifo; PInter true; PInter false; PRandom; PBlockedRandom; PGrouped 1; PGrouped 2] = true.
Proof. vm_compute. reflexivity. Qed.

(* ... and those of the single-step lemmas: a reachable mid-trial state, paused at 4 and resumed at 6 *)
Example step_hyps_ex :
  let es := [mk_entry 2 3 KArray [2] true; mk_entry 1 2 KGen [1] true] in
  match run_hist all_rep (qinit PFifo es [] []) [Pop 7] with
  | Some (q, _) =>
    let '(q1, ev1, err) := pause all_rep q (Some 4) in
    (4 <=? q_samples q) && negb err && q_paused q1
    && match pop_buffer all_rep q1 5 with Some (_, _, []) => true | _ => false end          (* paused_silent *)
    && match pop_buffer all_rep (resume q1 (Some 6)) 9 with                                 (* resume_start *)
       | Some (_, _, ev) => match added_of ev with (_, t0) :: _ => t0 =? 6 | [] => false end
       | None => false
       end
    && snd (pause all_rep q (Some 8))                                                       (* future pause *)
  | None => false
  end = true.
Proof. vm_compute. reflexivity. Qed.
