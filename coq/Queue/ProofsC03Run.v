(* C03: sample-level mechanics separated from the policies.
   - inversion lemmas for next_key / decrement_key / next_trial
   - the policy-independent invariant [Base] of no-pause runs
   - the induction principle [pops_inv] for policy invariants that only read the policy fields *)
From PV Require Import Queue.Model Queue.Spec Queue.LemmasC03.
From PV Require Import Stim.ProofsLib.
From Coq Require Import ZArith List Bool Lia ZifyBool.
Import ListNotations.
Open Scope Z_scope.

(* ---------- keys_of ---------- *)
Lemma keys_of_app a b : keys_of (a ++ b) = keys_of a ++ keys_of b.
Proof. unfold keys_of, added_of. now rewrite flat_map_app, map_app. Qed.
Lemma keys_of_nil : keys_of [] = [].
Proof. reflexivity. Qed.

(* ---------- next_key ---------- *)
Lemma set_state_id q : set_state q (q_data q) (q_ordering q) (q_i q) (q_iperm q) (q_complete q) (q_choices q) (q_perms q) = q.
Proof. destruct q; reflexivity. Qed.

Lemma next_key_frame R q key q1 : next_key R q = NKey key q1 ->
  exists i ip chs pms, q1 = set_state q (q_data q) (q_ordering q) i ip (q_complete q) chs pms.
Proof.
  unfold next_key. destruct (q_pol q) as [|keep| | |gs].
  - destruct (q_ordering q) eqn:Eo; [discriminate|]. intros [= <- <-]. rewrite <- Eo.
    eexists _, _, _, _. symmetry. apply set_state_id.
  - destruct (q_complete q); [discriminate|].
    destruct (zlen (q_ordering q) =? 0); [destruct (r_empty_guard R); discriminate|].
    destruct keep.
    + destruct (znth _ _); [|discriminate]. intros [= <- <-]. eexists _, _, _, _. reflexivity.
    + destruct (inter_skip _ _ _ _) as [[i' k]|]; [|discriminate]. intros [= <- <-]. eexists _, _, _, _. reflexivity.
  - destruct (q_ordering q); [discriminate|]. destruct (q_choices q); [discriminate|].
    destruct (memZ _ _); [|discriminate]. intros [= <- <-]. eexists _, _, _, _. reflexivity.
  - destruct (q_complete q); [discriminate|].
    destruct (r_empty_guard R && (zlen (q_ordering q) =? 0)); [discriminate|].
    destruct (q_iperm q) as [|a ip].
    + destruct (q_perms q) as [|pp rest]; [discriminate|].
      destruct (negb _); [discriminate|]. destruct (rev pp); [discriminate|].
      destruct (znth _ _); [|discriminate]. intros [= <- <-]. eexists _, _, _, _. reflexivity.
    + cbn [negb]. destruct (rev (a :: ip)); [discriminate|].
      destruct (znth _ _); [|discriminate]. intros [= <- <-]. eexists _, _, _, _. reflexivity.
  - destruct (q_ordering q) eqn:Eo; [discriminate|]. destruct (_ =? 0); [discriminate|].
    destruct (znth _ _); [|discriminate]. intros [= <- <-]. eexists _, _, _, _. reflexivity.
Qed.

(* the emptiness test of each policy, as a function of the policy fields *)
Definition is_empty_core (q : qstate) : bool :=
  match q_pol q with
  | PFifo | PRandom | PGrouped _ => match q_ordering q with [] => true | _ => false end
  | PInter _ | PBlockedRandom => q_complete q || (zlen (q_ordering q) =? 0)
  end.

(* under the repair r_empty_guard (interleaved / blocked-random queues with nothing queued report empty) *)
Lemma next_key_empty R (HR : r_empty_guard R = true) q : next_key R q = NEmpty <-> is_empty_core q = true.
Proof.
  unfold next_key, is_empty_core. rewrite HR. destruct (q_pol q) as [|keep| | |gs].
  - destruct (q_ordering q); split; intros; try reflexivity; discriminate.
  - destruct (q_complete q); [tauto|]. cbn [orb].
    destruct (zlen (q_ordering q) =? 0); [tauto|]. split; [|discriminate].
    destruct keep.
    + destruct (znth _ _); discriminate.
    + destruct (inter_skip _ _ _ _) as [[i' k]|]; discriminate.
  - destruct (q_ordering q); [tauto|]. split; [|discriminate].
    destruct (q_choices q); [discriminate|]. destruct (memZ _ _); discriminate.
  - destruct (q_complete q); [tauto|]. cbn [orb andb].
    destruct (zlen (q_ordering q) =? 0); [tauto|]. split; [|discriminate].
    destruct (q_iperm q) as [|a ip].
    + destruct (q_perms q) as [|pp rest]; [discriminate|].
      destruct (negb _); [discriminate|]. destruct (rev pp); [discriminate|]. destruct (znth _ _); discriminate.
    + cbn [negb]. destruct (rev (a :: ip)); [discriminate|]. destruct (znth _ _); discriminate.
  - destruct (q_ordering q); [tauto|]. split; [|discriminate].
    destruct (_ =? 0); [discriminate|]. destruct (znth _ _); discriminate.
Qed.

(* ---------- decrement_key ---------- *)
Lemma fold_remove1_In x g : forall o, In x (fold_left (fun o k => remove1 k o) g o) -> In x o.
Proof.
  induction g as [|k g IH]; intros o; cbn [fold_left]; [tauto|]. intros H. apply IH in H.
  eapply remove1_In; eauto.
Qed.

Lemma decrement_key_frame q key q2 : decrement_key q key = Some q2 ->
  In key (q_ordering q) /\
  exists o c, q2 = set_state q (upd_entry (q_data q) key (add_trials (-1))) o (q_i q) (q_iperm q) c (q_choices q) (q_perms q)
              /\ (forall x, In x o -> In x (q_ordering q)).
Proof.
  unfold decrement_key. destruct (memZ key (q_ordering q)) eqn:Em; cbn [negb]; [|discriminate].
  apply memZ_In in Em. intros H. split; [exact Em|].
  destruct (q_pol q) as [|keep| | |gs].
  1,3: injection H as <-; eexists _, _; split; [reflexivity|];
       destruct (_ <=? 0); [intros x; apply remove1_In|tauto].
  1,2: injection H as <-; eexists _, _; split; [reflexivity|tauto].
  destruct (forallb _ _); injection H as <-; eexists _, _; (split; [reflexivity|]).
  - intros x. apply fold_remove1_In.
  - tauto.
Qed.

(* ---------- next_trial ---------- *)
Lemma next_trial_inv R q q' ev : next_trial R q = NTok q' ev ->
  exists key q1 q2 e dl,
    next_key R q = NKey key q1 /\ decrement_key q1 key = Some q2 /\
    znth (q_data q2) key = Some e /\ next_delay e = Some dl /\ 0 <= dl /\
    ev = EAdded key (q_samples q2) /\
    q' = {| q_pol := q_pol q2; q_data := upd_entry (q_data q2) key adv_delay;
            q_ordering := q_ordering q2; q_source := Some (key, 0, e_len e); q_delay := dl;
            q_samples := q_samples q2; q_paused := q_paused q2; q_empty := q_empty q2;
            q_generated := q_generated q2 ++ [{| i_t0 := q_samples q2; i_dur := e_dur e; i_key := key; i_dec := true |}];
            q_i := q_i q2; q_iperm := q_iperm q2;
            q_complete := q_complete q2; q_choices := q_choices q2; q_perms := q_perms q2 |}.
Proof.
  unfold next_trial. destruct (next_key R q) as [key q1| |] eqn:Ek; try discriminate.
  destruct (decrement_key q1 key) as [q2|] eqn:Ed; [|discriminate].
  destruct (znth (q_data q2) key) as [e|] eqn:Ee; [|discriminate].
  destruct (next_delay e) as [dl|] eqn:Edl; [|discriminate].
  destruct (dl <? 0) eqn:El; [discriminate|]. intros [= <- <-].
  exists key, q1, q2, e, dl. repeat split; auto. lia.
Qed.

Lemma next_trial_empty R (HR : r_empty_guard R = true) q : next_trial R q = NTempty <-> is_empty_core q = true.
Proof.
  rewrite <- (next_key_empty R HR). unfold next_trial.
  destruct (next_key R q) as [key q1| |]; [|tauto|split; discriminate].
  split; [|discriminate].
  destruct (decrement_key q1 key) as [q2|]; [|discriminate].
  destruct (znth (q_data q2) key) as [e|]; [|discriminate].
  destruct (next_delay e) as [dl|]; [|discriminate].
  destruct (dl <? 0); discriminate.
Qed.

Record nt_facts (q q' : qstate) (key : Z) (e : entry) (dl : Z) : Prop := {
  nf_in : In key (q_ordering q);
  nf_pol : q_pol q' = q_pol q;
  nf_data : q_data q' = upd_entry (upd_entry (q_data q) key (add_trials (-1))) key adv_delay;
  nf_e : znth (upd_entry (q_data q) key (add_trials (-1))) key = Some e;
  nf_dl : next_delay e = Some dl;
  nf_dlnn : 0 <= dl;
  nf_src : q_source q' = Some (key, 0, e_len e);
  nf_delay : q_delay q' = dl;
  nf_samples : q_samples q' = q_samples q;
  nf_paused : q_paused q' = q_paused q;
  nf_empty : q_empty q' = q_empty q;
  nf_ord : forall x, In x (q_ordering q') -> In x (q_ordering q)
}.

Lemma next_trial_facts R q q' ev : next_trial R q = NTok q' ev ->
  exists key e dl, ev = EAdded key (q_samples q) /\ nt_facts q q' key e dl.
Proof.
  intros H. apply next_trial_inv in H.
  destruct H as (key & q1 & q2 & e & dl & Hk & Hd & He & Hdl & Hdl0 & Hev & Hq').
  apply next_key_frame in Hk. destruct Hk as (i & ip & chs & pms & ->).
  apply decrement_key_frame in Hd. destruct Hd as (Hin & o & c & -> & Ho).
  cbn in *. exists key, e, dl. split; [exact Hev|]. subst q'. constructor; cbn; auto.
Qed.

(* ---------- pop_step ---------- *)
Definition rem_of (src : option (Z * Z * Z)) : Z :=
  match src with Some (_, pos, len) => len - pos | None => 0 end.
Definition rem_src (q : qstate) : Z := rem_of (q_source q).

Lemma zlen_zrange_nn {A} (f : Z -> A) lo n : 0 <= n -> zlen (zrange f lo n) = n.
Proof. intros H. rewrite zlen_zrange'. lia. Qed.

Lemma pop_step_ok_cases R q s q1 o1 e1 :
  q_paused q = false -> 0 < s -> 0 <= rem_src q -> pop_step R q s = PBok q1 o1 e1 ->
  (e1 = [] /\ (q_source q <> None \/ 0 < q_delay q) /\
   exists src dl, q1 = set_src q src dl /\ 0 <= rem_of src /\ (0 <= q_delay q -> 0 <= dl) /\
                  rem_of src + dl + zlen o1 <= rem_src q + q_delay q) \/
  (q_source q = None /\ q_delay q <= 0 /\ o1 = [] /\
   exists k t, e1 = [EAdded k t] /\ next_trial R q = NTok q1 (EAdded k t)).
Proof.
  intros Hp Hs Hrem. unfold pop_step. rewrite Hp. unfold rem_src in Hrem.
  destruct (q_source q) as [[[key pos] len]|] eqn:Es; cbn [rem_of] in Hrem.
  - destruct (kind_of q key).
    + destruct (s >? len - pos) eqn:E; intros [= <- <- <-]; left; (split; [reflexivity|]);
        (split; [left; discriminate|]); eexists _, _; (split; [reflexivity|]); cbn [rem_of];
        rewrite zlen_zrange_nn by lia; unfold rem_src; rewrite Es; cbn [rem_of]; lia.
    + intros [= <- <- <-]. left. split; [reflexivity|]. split; [left; discriminate|].
      eexists _, _. split; [reflexivity|].
      rewrite zlen_zrange_nn by lia. unfold rem_src. rewrite Es. cbn [rem_of].
      destruct (pos + Z.min (len - pos) s >=? len) eqn:E; cbn [rem_of]; lia.
  - destruct (q_delay q >? 0) eqn:Ed.
    + intros [= <- <- <-]. left. split; [reflexivity|]. split; [right; lia|].
      eexists _, _. split; [reflexivity|]. cbn [rem_of]. rewrite zlen_repeat.
      unfold rem_src. rewrite Es. cbn [rem_of]. lia.
    + destruct (next_trial R q) as [q' ev| |] eqn:En; try discriminate.
      intros [= <- <- <-]. right. split; [reflexivity|]. split; [lia|]. split; [reflexivity|].
      destruct (next_trial_facts _ _ _ _ En) as (k & e & dl & -> & _). eauto.
Qed.

Lemma pop_step_empty_cases R q s : q_paused q = false -> pop_step R q s = PBempty ->
  q_source q = None /\ q_delay q <= 0 /\ next_trial R q = NTempty.
Proof.
  intros Hp. unfold pop_step. rewrite Hp.
  destruct (q_source q) as [[[key pos] len]|] eqn:Es.
  - destruct (kind_of q key); [destruct (s >? len - pos)|]; discriminate.
  - destruct (q_delay q >? 0) eqn:Ed; [discriminate|].
    destruct (next_trial R q) eqn:En; try discriminate. intros _. repeat split; lia.
Qed.

Lemma pop_step_samples R q s q1 o1 e1 : pop_step R q s = PBok q1 o1 e1 -> q_samples q1 = q_samples q.
Proof.
  unfold pop_step. destruct (q_paused q); [intros [= <- _ _]; reflexivity|].
  destruct (q_source q) as [[[key pos] len]|].
  - destruct (kind_of q key); [destruct (s >? len - pos)|]; intros [= <- _ _]; reflexivity.
  - destruct (q_delay q >? 0); [intros [= <- _ _]; reflexivity|].
    destruct (next_trial R q) as [q' ev| |] eqn:En; try discriminate. intros [= <- _ _].
    destruct (next_trial_facts _ _ _ _ En) as (k & e & dl & _ & F). apply (nf_samples _ _ _ _ _ F).
Qed.

Lemma pop_loop_samples R fuel : forall q s q' out ev,
  pop_loop fuel R q s = Some (q', out, ev) -> q_samples q + s <= q_samples q'.
Proof.
  induction fuel as [|f IH]; intros q s q' out ev; cbn [pop_loop];
    destruct (s <=? 0) eqn:Es; try discriminate; try (intros [= <- _ _]; lia).
  destruct (pop_step R q s) as [q1 o1 e1| |] eqn:Ep; [| |discriminate].
  - destruct (pop_loop f R _ _) as [[[q2 o2] e2]|] eqn:El; [|discriminate]. intros [= <- _ _].
    apply IH in El. cbn [q_samples add_samples] in El. rewrite (pop_step_samples _ _ _ _ _ _ Ep) in El. lia.
  - intros [= <- _ _]. cbn. lia.
Qed.

Lemma pops_samples R ns : forall q q' out ev,
  pops R q ns = Some (q', out, ev) -> q_samples q + sumZ ns <= q_samples q'.
Proof.
  induction ns as [|n ns IH]; intros q q' out ev; cbn [pops].
  - intros [= <- _ _]. cbn. lia.
  - unfold pop_buffer. destruct (pop_loop _ R q n) as [[[q1 o1] e1]|] eqn:E1; [|discriminate].
    destruct (pops R q1 ns) as [[[q2 o2] e2]|] eqn:E2; [|discriminate]. intros [= <- _ _].
    apply pop_loop_samples in E1. apply IH in E2. rewrite sumZ_cons. lia.
Qed.

(* ---------- well-formed entries ---------- *)
Lemma wf_entry_facts e : wf_entry e = true ->
  1 <= e_trials e /\ e_requested e = e_trials e /\ 0 <= e_len e /\ e_dpos e = 0 /\ e_cyclic e = true /\
  e_delays e <> [] /\ (forall d, In d (e_delays e) -> 0 <= d).
Proof.
  unfold wf_entry. rewrite !andb_true_iff. intros [[[[[[H1 H2] H3] H4] H5] H6] H7].
  repeat split; try lia.
  - destruct (e_delays e); [discriminate|congruence].
  - destruct (e_delays e) eqn:E; [discriminate|]. rewrite forallb_forall in H7.
    intros d Hd. specialize (H7 _ Hd). lia.
Qed.
Lemma wf_queue_facts p es : wf_queue p es = true ->
  1 <= zlen es /\ forallb wf_entry es = true /\ wf_policy p (zlen es) = true.
Proof. unfold wf_queue. rewrite !andb_true_iff. intros [[H1 H2] H3]. repeat split; auto. lia. Qed.

(* ---------- the policy-independent invariant ---------- *)
Definition same_static (e e0 : entry) : Prop :=
  e_requested e = e_requested e0 /\ e_len e = e_len e0 /\ e_delays e = e_delays e0.
Definition reqk (es : list entry) (k : Z) : Z :=
  match znth es k with Some e => e_requested e | None => 0 end.
Definition Lsum (es : list entry) : Z := sumZ (map e_len es).
Definition Dsum (es : list entry) : Z := sumZ (map (fun e => sumZ (e_delays e)) es).
Definition Mtrial (es : list entry) : Z := Lsum es + Dsum es.

Record BaseR (p : policy) (es : list entry) (keys : list Z)
       (pol : policy) (data : list entry) (ord : list Z) (src : option (Z * Z * Z))
       (delay samples : Z) (paused empty emptycore : bool) : Prop := {
  b_pol : pol = p;
  b_paused : paused = false;
  b_static : Forall2 same_static data es;
  b_trials : forall k, trials_of data k = reqk es k - countZ k keys;
  b_ord : forall k, In k ord -> 0 <= k < zlen es;
  b_delay : 0 <= delay;
  b_src : 0 <= rem_of src;
  b_empty : empty = true -> src = None /\ delay <= 0 /\ emptycore = true;
  b_time : empty = false -> samples + rem_of src + delay <= zlen keys * Mtrial es
}.
Definition Base (p : policy) (es : list entry) (keys : list Z) (q : qstate) : Prop :=
  BaseR p es keys (q_pol q) (q_data q) (q_ordering q) (q_source q) (q_delay q) (q_samples q)
        (q_paused q) (q_empty q) (is_empty_core q).

Lemma Base_zlen p es keys q : Base p es keys q -> zlen (q_data q) = zlen es.
Proof. intros B. apply (Forall2_zlen _ _ _ (b_static _ _ _ _ _ _ _ _ _ _ _ _ B)). Qed.

Lemma countZ_zero_notin k keys : countZ k keys = 0 -> ~ In k keys.
Proof.
  induction keys as [|x keys IH]; intros H Hin; [contradiction|]. rewrite countZ_cons in H.
  pose proof (countZ_nonneg k keys). destruct Hin as [->|Hin]; [rewrite Z.eqb_refl in H; lia|].
  apply IH; [|exact Hin]. destruct (k =? x); lia.
Qed.

Lemma Base_keys_range p es keys q k : Base p es keys q -> In k keys -> 0 <= k < zlen es.
Proof.
  intros B Hin. pose proof (b_trials _ _ _ _ _ _ _ _ _ _ _ _ B k) as Ht.
  pose proof (Base_zlen _ _ _ _ B) as Hlen.
  destruct (Z_lt_dec k 0) as [Hlt|Hge]; [|destruct (Z_lt_dec k (zlen es)) as [Hlt|Hge2]; [lia|]];
    exfalso; unfold trials_of, reqk in Ht; rewrite (znth_none (q_data q)), (znth_none es) in Ht by lia;
    apply (countZ_zero_notin k keys); auto; lia.
Qed.

Section BaseSteps.
Variables (p : policy) (es : list entry).
Hypothesis Hwf : forallb wf_entry es = true.

Lemma es_wf e : In e es -> wf_entry e = true.
Proof. rewrite forallb_forall in Hwf. apply Hwf. Qed.

Lemma es_len0 e : In e es -> 0 <= e_len e.
Proof. intros He. destruct (wf_entry_facts _ (es_wf _ He)) as (_ & _ & H0 & _). exact H0. Qed.
Lemma es_delay0 e d : In e es -> In d (e_delays e) -> 0 <= d.
Proof. intros He. destruct (wf_entry_facts _ (es_wf _ He)) as (_ & _ & _ & _ & _ & _ & H0). apply H0. Qed.

Lemma es_len_le e : In e es -> 0 <= e_len e <= Lsum es.
Proof.
  intros He. split; [now apply es_len0|].
  unfold Lsum. apply sumZ_In_le; [|now apply in_map].
  intros y Hy. apply in_map_iff in Hy. destruct Hy as [e' [<- He']]. now apply es_len0.
Qed.
Lemma es_delay_le e d : In e es -> In d (e_delays e) -> 0 <= d <= Dsum es.
Proof.
  intros He Hd. split; [eapply es_delay0; eauto|].
  transitivity (sumZ (e_delays e)); [apply sumZ_In_le; [intros y Hy; eapply es_delay0; eauto|exact Hd]|].
  unfold Dsum. apply sumZ_In_le; [|apply (in_map (fun e => sumZ (e_delays e))); exact He].
  intros y Hy. apply in_map_iff in Hy. destruct Hy as [e' [<- He']]. apply sumZ_nonneg.
  intros z Hz. eapply es_delay0; eauto.
Qed.
Lemma Mtrial_nonneg : 0 <= Mtrial es.
Proof.
  unfold Mtrial, Lsum, Dsum.
  assert (0 <= sumZ (map e_len es)).
  { apply sumZ_nonneg. intros y Hy. apply in_map_iff in Hy. destruct Hy as [e' [<- He']].
    now apply es_len0. }
  assert (0 <= sumZ (map (fun e => sumZ (e_delays e)) es)).
  { apply sumZ_nonneg. intros y Hy. apply in_map_iff in Hy. destruct Hy as [e' [<- He']].
    apply sumZ_nonneg. intros z Hz. eapply es_delay0; eauto. }
  lia.
Qed.

Lemma Base_init ch pm : Base p es [] (qinit p es ch pm).
Proof.
  constructor; cbn; try reflexivity; try lia.
  - apply Forall2_same. intros x. repeat split.
  - intros k. unfold trials_of, reqk. destruct (znth es k) eqn:E; [|reflexivity].
    apply znth_In in E. pose proof (wf_entry_facts _ (es_wf _ E)). lia.
  - intros k Hk. apply In_zrange_id in Hk. lia.
Qed.

(* waveform / delay emission: only source, delay, clock move *)
Lemma Base_frame keys q src dl c :
  Base p es keys q -> 0 <= dl -> 0 <= rem_of src ->
  rem_of src + dl + c <= rem_src q + q_delay q ->
  (q_source q <> None \/ 0 < q_delay q) ->
  Base p es keys (add_samples (set_src q src dl) c false).
Proof.
  intros B Hdl Hrem Hle Hne. destruct B. constructor; cbn; auto.
  - rewrite orb_false_r. intros He. destruct (b_empty0 He) as (Hs & Hd & _).
    destruct Hne as [Hne|Hne]; [contradiction|lia].
  - rewrite orb_false_r. intros He. specialize (b_time0 He). unfold rem_src in Hle. lia.
Qed.

Lemma Base_empty_step keys q s :
  Base p es keys q -> q_source q = None -> q_delay q <= 0 -> next_trial all_rep q = NTempty ->
  Base p es keys (add_samples q s true).
Proof.
  intros B Hs Hd Hn. apply (next_trial_empty all_rep eq_refl) in Hn. destruct B. constructor; cbn; auto.
  rewrite orb_true_r. discriminate.
Qed.

Lemma Base_add0 keys q : Base p es keys q -> Base p es keys (add_samples q 0 false).
Proof.
  intros B. destruct B. constructor; cbn; auto.
  - rewrite orb_false_r. exact b_empty0.
  - rewrite orb_false_r. intros He. specialize (b_time0 He). lia.
Qed.

Lemma Base_trial keys q q' key e dl :
  Base p es keys q -> q_source q = None -> nt_facts q q' key e dl ->
  next_trial all_rep q = NTok q' (EAdded key (q_samples q)) ->
  Base p es (keys ++ [key]) q'.
Proof.
  intros B Hsrc F Hnt. pose proof (Base_zlen _ _ _ _ B) as Hlen. destruct B. destruct F.
  assert (Hkey : 0 <= key < zlen (q_data q)) by (rewrite Hlen; auto).
  (* the entry *)
  rewrite znth_upd_entry, Z.eqb_refl in nf_e0. destruct (znth (q_data q) key) as [e1|] eqn:E1; [|discriminate].
  cbn [option_map] in nf_e0. injection nf_e0 as <-.
  destruct (Forall2_znth _ _ _ b_static0 _ _ E1) as (e0 & E0 & (Hr & Hl & Hdls)).
  apply znth_In in E0.
  assert (Hdin : In dl (e_delays e0)).
  { unfold next_delay in nf_dl0. cbn [add_trials e_delays e_cyclic e_dpos] in nf_dl0. rewrite Hdls in nf_dl0.
    destruct (zlen (e_delays e0) =? 0); [discriminate|].
    destruct (e_cyclic e1); eapply znth_In; eauto. }
  pose proof (es_len_le _ E0) as HL. pose proof (es_delay_le _ _ E0 Hdin) as HD.
  constructor.
  - congruence.
  - congruence.
  - rewrite nf_data0. apply Forall2_upd_entry; [|apply Forall2_upd_entry; [|exact b_static0]];
      intros x y Hxy; exact Hxy.
  - intros k. rewrite nf_data0, trials_of_dec_adv by exact Hkey. rewrite b_trials0, countZ_snoc. lia.
  - auto.
  - lia.
  - rewrite nf_src0. cbn [rem_of add_trials e_len]. lia.
  - rewrite nf_empty0. intros He. destruct (b_empty0 He) as (_ & _ & Hc).
    apply (next_trial_empty all_rep eq_refl) in Hc. congruence.
  - rewrite nf_empty0. intros He. specialize (b_time0 He). rewrite Hsrc in b_time0. cbn [rem_of] in b_time0.
    rewrite nf_src0, nf_delay0, nf_samples0, zlen_app. cbn [rem_of add_trials e_len].
    change (zlen [key]) with 1. unfold Mtrial in *. nia.
Qed.

(* ---------- induction principle for policy invariants ---------- *)
Section Inv.
Variable C : list Z -> qstate -> Prop.
Hypothesis C_src : forall keys q s d, C keys q -> C keys (set_src q s d).
Hypothesis C_add : forall keys q n e, C keys q -> C keys (add_samples q n e).
Hypothesis C_step : forall keys q q' k t,
  Base p es keys q -> C keys q -> next_trial all_rep q = NTok q' (EAdded k t) -> C (keys ++ [k]) q'.

Lemma loop_inv fuel : forall keys q s q' out ev,
  Base p es keys q -> C keys q -> pop_loop fuel all_rep q s = Some (q', out, ev) ->
  Base p es (keys ++ keys_of ev) q' /\ C (keys ++ keys_of ev) q'.
Proof.
  induction fuel as [|f IH]; intros keys q s q' out ev B HC; cbn [pop_loop];
    destruct (s <=? 0) eqn:Es; try discriminate;
    try (intros [= <- _ <-]; rewrite keys_of_nil, app_nil_r; split; assumption).
  destruct (pop_step all_rep q s) as [q1 o1 e1| |] eqn:Ep; [| |discriminate].
  - destruct (pop_loop f all_rep _ _) as [[[q2 o2] e2]|] eqn:El; [|discriminate]. intros [= <- _ <-].
    rewrite keys_of_app, app_assoc.
    pose proof (b_paused _ _ _ _ _ _ _ _ _ _ _ _ B) as Hp.
    pose proof (b_src _ _ _ _ _ _ _ _ _ _ _ _ B) as Hrem.
    pose proof (b_delay _ _ _ _ _ _ _ _ _ _ _ _ B) as Hdl.
    assert (Hs0 : 0 < s) by lia.
    destruct (pop_step_ok_cases _ _ _ _ _ _ Hp Hs0 Hrem Ep)
      as [(-> & Hne & src & dl & -> & Hr' & Hd' & Hle)|(Hs & Hd & -> & k & t & -> & Hn)].
    + rewrite keys_of_nil, app_nil_r. eapply IH; [| |exact El].
      * apply Base_frame; auto.
      * apply C_add, C_src, HC.
    + destruct (next_trial_facts _ _ _ _ Hn) as (k' & e & dl & Hev & F). injection Hev as <- ->.
      change (keys_of [EAdded k (q_samples q)]) with [k]. eapply IH; [| |exact El].
      * change (zlen (@nil osample)) with 0. apply Base_add0. eapply Base_trial; eauto.
      * apply C_add. eapply C_step; eauto.
  - intros [= <- _ <-]. change (keys_of [EEmpty]) with (@nil Z). rewrite app_nil_r.
    pose proof (b_paused _ _ _ _ _ _ _ _ _ _ _ _ B) as Hp.
    destruct (pop_step_empty_cases _ _ _ Hp Ep) as (Hs & Hd & Hn).
    split; [apply Base_empty_step; auto|apply C_add, HC].
Qed.

Lemma pops_inv ns : forall keys q q' out ev,
  Base p es keys q -> C keys q -> pops all_rep q ns = Some (q', out, ev) ->
  Base p es (keys ++ keys_of ev) q' /\ C (keys ++ keys_of ev) q'.
Proof.
  induction ns as [|n ns IH]; intros keys q q' out ev B HC; cbn [pops].
  - intros [= <- _ <-]. rewrite keys_of_nil, app_nil_r. split; assumption.
  - unfold pop_buffer. destruct (pop_loop _ all_rep q n) as [[[q1 o1] e1]|] eqn:E1; [|discriminate].
    destruct (pops all_rep q1 ns) as [[[q2 o2] e2]|] eqn:E2; [|discriminate]. intros [= <- _ <-].
    rewrite keys_of_app, app_assoc.
    destruct (loop_inv _ _ _ _ _ _ _ B HC E1) as [B1 C1]. eapply IH; eauto.
Qed.
End Inv.
End BaseSteps.
