(* get_closest_key (Model.closest_key) and the order of the log of generated trials along xop histories
   in which time only moves forward (every resume(t2) has t2 not before the clock). *)
From Coq Require Import ZArith List Bool Lia ZifyBool.
From PV Require Import Queue.Model Queue.Spec Queue.SpecX.
From PV Require Import Queue.LemmasC04 Queue.ProofsC04Inv Queue.ProofsXC04Inv.
Import ListNotations.
Open Scope Z_scope.

(* ------------------------------------------------------------------ *)
(* closest_key in ANY state: the key of the LAST logged trial with t0 <= t *)
(* ------------------------------------------------------------------ *)
Lemma find_rev_spec {A} (f : A -> bool) : forall l,
  match find f (rev l) with
  | None => forall x, In x l -> f x = false
  | Some x => exists l1 l2, l = l1 ++ x :: l2 /\ f x = true /\ forall y, In y l2 -> f y = false
  end.
Proof.
  induction l as [|a l IH] using rev_ind; [intros x []|].
  rewrite rev_app_distr. cbn [rev app find]. destruct (f a) eqn:Fa.
  - exists l, []. split; [reflexivity|]. split; [exact Fa|]. intros y [].
  - destruct (find f (rev l)) as [x|].
    + destruct IH as (l1 & l2 & -> & Fx & Hl2). exists l1, (l2 ++ [a]).
      split; [rewrite <- app_assoc; reflexivity|]. split; [exact Fx|].
      intros y Hy. apply in_app_iff in Hy. destruct Hy as [Hy|[<-|[]]]; auto.
    + intros x Hx. apply in_app_iff in Hx. destruct Hx as [Hx|[<-|[]]]; auto.
Qed.

Lemma closest_key_spec : forall q t,
  (closest_key q t = -1 /\ forall i, In i (q_generated q) -> t < i_t0 i) \/
  (exists l1 i l2, q_generated q = l1 ++ i :: l2 /\ i_t0 i <= t /\ (forall j, In j l2 -> t < i_t0 j) /\
                   closest_key q t = i_key i).
Proof.
  intros q t. unfold closest_key.
  pose proof (find_rev_spec (fun i => i_t0 i <=? t) (q_generated q)) as F.
  destruct (find _ (rev (q_generated q))) as [i|].
  - right. destruct F as (l1 & l2 & E & Fi & Hl2). exists l1, i, l2.
    split; [exact E|]. split; [lia|]. split; [|reflexivity]. intros j Hj. apply Hl2 in Hj. lia.
  - left. split; [reflexivity|]. intros i Hi. apply F in Hi. lia.
Qed.

(* ------------------------------------------------------------------ *)
(* the log is sorted by start time                                     *)
(* ------------------------------------------------------------------ *)
Fixpoint ssorted (l : list info) : Prop :=
  match l with [] => True | a :: t => Forall (fun b => i_t0 a <= i_t0 b) t /\ ssorted t end.

Lemma ssorted_filter P l : ssorted l -> ssorted (filter P l).
Proof.
  induction l as [|a l IH]; [auto|]. cbn [ssorted filter]. intros [H1 H2].
  destruct (P a); [cbn [ssorted]; split; [apply Forall_filter; exact H1|auto]|auto].
Qed.

Lemma ssorted_snoc l i : ssorted l -> Forall (fun a => i_t0 a <= i_t0 i) l -> ssorted (l ++ [i]).
Proof.
  induction l as [|a l IH]; cbn [app ssorted]; [auto|]. intros [H1 H2] F. inversion F; subst.
  split; [apply Forall_app; split; [exact H1|constructor; [assumption|constructor]]|auto].
Qed.

Lemma ssorted_mid l1 i l2 : ssorted (l1 ++ i :: l2) -> Forall (fun a => i_t0 a <= i_t0 i) l1.
Proof.
  induction l1 as [|a l1 IH]; cbn [app ssorted]; [constructor|]. intros [H1 H2].
  constructor; [|auto]. rewrite Forall_forall in H1. apply H1. apply in_app_iff. right. left. reflexivity.
Qed.

Lemma ssorted_bool l : ssorted l -> sorted_t0 l = true.
Proof.
  induction l as [|a l IH]; [reflexivity|]. cbn [ssorted]. intros [H1 H2].
  destruct l as [|b l]; [reflexivity|]. cbn [sorted_t0]. fold sorted_t0. inversion H1; subst.
  apply andb_true_intro. split; [lia|auto].
Qed.

Record tinv (q : qstate) : Prop := {
  tv_dur : forall k e, znth (q_data q) k = Some e -> 0 <= e_dur e;
  tv_logdur : Forall (fun i => 0 <= i_dur i) (q_generated q);
  tv_le : Forall (fun i => i_t0 i <= q_samples q) (q_generated q);
  tv_sorted : ssorted (q_generated q)
}.

Lemma tinv_clock q q' : q_data q' = q_data q -> q_generated q' = q_generated q ->
  q_samples q <= q_samples q' -> tinv q -> tinv q'.
Proof.
  intros Hd Hg Hs [T1 T2 T3 T4]. constructor; rewrite ?Hd, ?Hg; auto.
  eapply Forall_impl; [|exact T3]. cbn. intros; lia.
Qed.

Lemma durs_transfer d d' :
  (forall k, option_map e_dur (znth d' k) = option_map e_dur (znth d k)) ->
  (forall k e, znth d k = Some e -> 0 <= e_dur e) -> forall k e, znth d' k = Some e -> 0 <= e_dur e.
Proof.
  intros H T k e E. specialize (H k). rewrite E in H. cbn [option_map] in H.
  destruct (znth d k) as [e0|] eqn:E0; [|discriminate]. cbn [option_map] in H. inversion H.
  specialize (T k e0 E0). lia.
Qed.

Lemma tinv_tstep b q q' ev key : tstep b q q' ev key -> tinv q -> tinv q'.
Proof.
  intros TS [T1 T2 T3 T4]. destruct (tx_gen _ _ _ _ _ TS) as (d & Hd & G).
  pose proof (tx_samples _ _ _ _ _ TS) as S.
  assert (D : 0 <= d).
  { destruct (znth (q_data q) key) as [e0|] eqn:E0; [|discriminate]. cbn [option_map] in Hd.
    inversion Hd; subst d. eapply T1; eauto. }
  constructor.
  - eapply durs_transfer; [exact (tx_durs _ _ _ _ _ TS)|exact T1].
  - rewrite G. apply Forall_app. split; [exact T2|]. constructor; [exact D|constructor].
  - rewrite G, S. apply Forall_app. split; [exact T3|]. constructor; [cbn; lia|constructor].
  - rewrite G. apply ssorted_snoc; [exact T4|exact T3].
Qed.

Lemma tinv_pop b q n q' out ev :
  tinv q -> pop_x all_rep q n b = Some (q', out, ev) -> tinv q'.
Proof.
  intros HI H.
  refine (pop_x_lift (fun q _ => tinv q) _ _ _ _ b q n q' out ev [] HI H).
  - intros q0 _ s dl. apply tinv_clock; cbn; try reflexivity; lia.
  - intros q0 _ m Hm. apply tinv_clock; cbn; try reflexivity; lia.
  - intros b0 q0 q0' ev0 key _. apply tinv_tstep.
  - intros R b0 q0 _ n0 Hn _. apply tinv_clock; cbn; try reflexivity; lia.
Qed.

Lemma durs_fold_requeue l : forall d k,
  option_map e_dur (znth (fold_left (fun d k => upd_entry d k (add_trials 1)) l d) k) = option_map e_dur (znth d k).
Proof.
  induction l as [|x l IH]; intros d k; [reflexivity|]. cbn [fold_left]. rewrite IH. apply dur_upd. reflexivity.
Qed.

(* an accepted pause(t) (a rejected one leaves the state untouched) *)
Lemma tinv_pause q t : t <= q_samples q -> tinv q -> tinv (pause_state q t).
Proof.
  intros Ht [T1 T2 T3 T4]. constructor; cbn [pause_state set_pause q_data q_generated q_samples].
  - eapply durs_transfer; [|exact T1]. intros k. apply durs_fold_requeue.
  - apply Forall_filter. exact T2.
  - rewrite Forall_forall in *. intros i Hi. apply filter_In in Hi. destruct Hi as [Hi NE].
    specialize (T2 i Hi). specialize (T3 i Hi). unfold ends_after in NE. lia.
  - apply ssorted_filter. exact T4.
Qed.

Lemma tinv_init p es ch pm : dur_nonneg es = true -> tinv (qinit p es ch pm).
Proof.
  unfold dur_nonneg. intros W. rewrite forallb_forall in W.
  constructor; cbn [qinit q_data q_generated ssorted]; auto.
  intros k e He. apply znth_In in He. apply W in He. lia.
Qed.

Lemma run_hist_x_tinv : forall ops q q' tev,
  tinv q -> fwd_hist_x all_rep q ops = true -> run_hist_x all_rep q ops = Some (q', tev) -> tinv q'.
Proof.
  induction ops as [|op ops IH]; intros q q' tev HI F H; cbn [run_hist_x] in H; cbn [fwd_hist_x] in F.
  - inversion H; subst. exact HI.
  - destruct op as [n dec|tm|tm|tc].
    + destruct (pop_x all_rep q n dec) as [[[q1 o1] e1]|] eqn:PB; [|discriminate].
      destruct (run_hist_x all_rep q1 ops) as [[q2 e2]|] eqn:RH; [|discriminate].
      inversion H; subst. apply andb_true_iff in F. destruct F as [_ F].
      eapply IH; [|exact F|exact RH]. eapply tinv_pop; eauto.
    + destruct tm as [t|].
      * destruct (Z_le_dec t (q_samples q)) as [Ht|Ht].
        -- rewrite (pause_all_rep q t Ht) in H, F.
           destruct (run_hist_x all_rep _ ops) as [[q2 e2]|] eqn:RH; [|discriminate].
           inversion H; subst. eapply IH; [|exact F|exact RH]. apply tinv_pause; assumption.
        -- rewrite (pause_rejected_atomic q t) in H, F by lia.
           destruct (run_hist_x all_rep q ops) as [[q2 e2]|] eqn:RH; [|discriminate].
           inversion H; subst. eapply IH; [exact HI|exact F|exact RH].
      * cbn [pause] in H, F.
        destruct (run_hist_x all_rep _ ops) as [[q2 e2]|] eqn:RH; [|discriminate].
        inversion H; subst. eapply IH; [|exact F|exact RH].
        eapply tinv_clock; [..|exact HI]; cbn; try reflexivity; lia.
    + apply andb_true_iff in F. destruct F as [F1 F].
      eapply IH; [|exact F|exact H].
      eapply tinv_clock; [..|exact HI]; cbn [resume set_pause q_data q_generated q_samples]; try reflexivity.
      destruct tm; lia.
    + eapply IH; eauto.
Qed.

(* along forward histories the log is sorted by start time and nothing in it starts after the clock *)
Lemma log_sorted : forall p es ch pm ops q tev,
  dur_nonneg es = true ->
  fwd_hist_x all_rep (qinit p es ch pm) ops = true ->
  run_hist_x all_rep (qinit p es ch pm) ops = Some (q, tev) ->
  sorted_t0 (q_generated q) = true /\ (forall i, In i (q_generated q) -> i_t0 i <= q_samples q).
Proof.
  intros p es ch pm ops q tev D F RH.
  pose proof (run_hist_x_tinv _ _ _ _ (tinv_init p es ch pm D) F RH) as [T1 T2 T3 T4].
  split; [apply ssorted_bool; exact T4|]. rewrite Forall_forall in T3. exact T3.
Qed.

(* ... so get_closest_key(t) is the key of the logged (= not cancelled) trial with the LATEST start <= t,
   and None (-1) exactly when no logged trial has started by t *)
Lemma closest_key_latest : forall p es ch pm ops q tev t,
  wf_queue_x es = true -> dur_nonneg es = true ->
  fwd_hist_x all_rep (qinit p es ch pm) ops = true ->
  run_hist_x all_rep (qinit p es ch pm) ops = Some (q, tev) ->
  (closest_key q t = -1 /\ forall i, In i (q_generated q) -> t < i_t0 i) \/
  (exists i, In i (q_generated q) /\ closest_key q t = i_key i /\ 0 <= i_key i < zlen es /\ i_t0 i <= t /\
             forall j, In j (q_generated q) -> i_t0 j <= t -> i_t0 j <= i_t0 i).
Proof.
  intros p es ch pm ops q tev t W D F RH.
  pose proof (run_hist_x_tinv _ _ _ _ (tinv_init p es ch pm D) F RH) as [T1 T2 T3 T4].
  pose proof (reachable_invx _ _ _ _ _ _ _ W RH) as I.
  destruct (closest_key_spec q t) as [C|(l1 & i & l2 & E & Hi & Hl2 & C)]; [left; exact C|].
  right. exists i.
  assert (Ini : In i (q_generated q)) by (rewrite E; apply in_app_iff; right; left; reflexivity).
  split; [exact Ini|]. split; [exact C|]. split.
  { pose proof (ix_log _ _ _ _ I) as L. rewrite Forall_forall in L. apply L. exact Ini. }
  split; [exact Hi|].
  intros j Hj Hjt. rewrite E in Hj, T4. apply in_app_iff in Hj. destruct Hj as [Hj|[<-|Hj]].
  - apply ssorted_mid in T4. rewrite Forall_forall in T4. apply T4. exact Hj.
  - lia.
  - apply Hl2 in Hj. lia.
Qed.

(* a resume to a time BEFORE the clock breaks the order of the log: "newest" is then not "latest start" *)
Lemma log_sorted_backward_resume_refuted : exists p es ops q tev t i j,
  wf_queue p es = true /\ wf_hist_x ops = true /\
  run_hist_x all_rep (qinit p es [] []) ops = Some (q, tev) /\
  fwd_hist_x all_rep (qinit p es [] []) ops = false /\
  sorted_t0 (q_generated q) = false /\
  In i (q_generated q) /\ In j (q_generated q) /\ closest_key q t = i_key i /\
  i_t0 j <= t /\ i_t0 i < i_t0 j /\ i_key i <> i_key j.
Proof.
  set (es := [mk_entry 2 3 KArray [1] true; mk_entry 1 2 KArray [1] true]).
  set (ops := [XPop 2 true; XPause None; XResume (Some 10); XPop 5 true; XPause None; XResume (Some 1); XPop 9 true]).
  destruct (run_hist_x all_rep (qinit PFifo es [] []) ops) as [[q tev]|] eqn:RH; [|vm_compute in RH; discriminate].
  exists PFifo, es, ops, q, tev, 14,
         {| i_t0 := 2; i_dur := 2; i_key := 1; i_dec := true |}, {| i_t0 := 12; i_dur := 3; i_key := 0; i_dec := true |}.
  vm_compute in RH. inversion RH; subst q tev; clear RH.
  vm_compute. repeat split; try reflexivity; try discriminate; auto.
Qed.

Example closest_hyps_ex :
  let es := [mk_entry_dur 2 3 KArray [2] true 4; mk_entry 1 2 KGen [1] true] in
  let ops := [XPop 7 true; XPause (Some 30); XResume (Some 9); XPop 4 false; XPause (Some 6); XResume None; XPop 20 true] in
  let q0 := qinit PFifo es [] [] in
  wf_queue_x es && dur_nonneg es && fwd_hist_x all_rep q0 ops
  && match run_hist_x all_rep q0 ops with
     | Some (q, _) => sorted_t0 (q_generated q) && (2 <=? zlen (q_generated q)) && (0 <=? closest_key q 8)
     | None => false end = true.
Proof. vm_compute. reflexivity. Qed.
