(* C03: blocked-random and grouped policies. *)
From PV Require Import Queue.Model Queue.Spec Queue.LemmasC03 Queue.ProofsC03Run Queue.ProofsC03Pol
     Queue.ProofsC03Inter.
From PV Require Import Stim.ProofsLib.
From Coq Require Import ZArith List Bool Lia ZifyBool.
Import ListNotations.
Open Scope Z_scope.

(* ====================================================================== *)
(* blocked random *)
Definition CBlockedR (es : list entry) (pm : list (list Z)) (keys : list Z)
           (data : list entry) (ord iperm : list Z) (perms : list (list Z)) (complete : bool) : Prop :=
  ord = zrange idZ 0 (zlen es) /\
  complete = all_done data /\
  satisfied (requested_of es) (removelast keys) = false /\
  keys ++ rev iperm ++ blocks_order perms = blocks_order pm.
Definition CBlocked (es : list entry) (pm : list (list Z)) (keys : list Z) (q : qstate) : Prop :=
  CBlockedR es pm keys (q_data q) (q_ordering q) (q_iperm q) (q_perms q) (q_complete q).

Section Blocked.
Variables (es : list entry) (pm : list (list Z)).
Hypothesis Hwf : forallb wf_entry es = true.
Hypothesis Hn : 1 <= zlen es.
Let p := PBlockedRandom.

Lemma CBlocked_init ch : CBlocked es pm [] (qinit p es ch pm).
Proof.
  unfold CBlocked, CBlockedR, qinit. prj. split; [reflexivity|].
  split; [symmetry; now apply all_done_init|]. split; [now apply sat_init|]. reflexivity.
Qed.

Lemma CBlocked_step keys q q' k t : Base p es keys q -> CBlocked es pm keys q ->
  next_trial all_rep q = NTok q' (EAdded k t) -> CBlocked es pm (keys ++ [k]) q'.
Proof.
  intros B (Ho & Hc & Hsat & Hseq) Hnt.
  assert (Hpol : q_pol q = PBlockedRandom) by apply (b_pol _ _ _ _ _ _ _ _ _ _ _ _ B).
  destruct (nt_blocked _ _ _ _ Hpol Hnt) as (Hcf & Ho' & Hc' & i & Hzn & Hrev).
  unfold CBlocked, CBlockedR. rewrite Ho', Ho. split; [reflexivity|]. split; [exact Hc'|].
  rewrite removelast_snoc, (sat_all_done _ _ _ _ B). split; [congruence|].
  rewrite Ho in Hzn. apply znth_zrange_inv in Hzn. destruct Hzn as (_ & Hki). rewrite Z.add_0_l in Hki. subst i.
  rewrite <- Hseq, Hrev, <- app_assoc. reflexivity.
Qed.

Lemma CBlocked_done keys q : Base p es keys q -> CBlocked es pm keys q -> q_complete q = true ->
  count_trials q = 0 /\ stops_at_first_moment (requested_of es) keys = true /\
  is_prefix keys (blocks_order pm) = true.
Proof.
  intros B (Ho & Hc & Hsat & Hseq) Hcomp. rewrite Hcomp in Hc. symmetry in Hc.
  split; [now apply count_trials_zero|]. split.
  - unfold stops_at_first_moment. rewrite Hsat, (sat_all_done _ _ _ _ B), Hc. reflexivity.
  - rewrite <- Hseq. apply is_prefix_app.
Qed.
End Blocked.

(* ====================================================================== *)
(* grouped *)
Lemma cyc_dist m i pidx : 0 < m -> 0 <= pidx < m -> exists d, 1 <= d <= m /\ (i + d) mod m = pidx.
Proof.
  intros Hm Hp. exists ((pidx - i - 1) mod m + 1).
  pose proof (Z.mod_pos_bound (pidx - i - 1) m Hm). split; [lia|].
  replace (i + ((pidx - i - 1) mod m + 1)) with ((i + 1) + (pidx - i - 1) mod m) by lia.
  rewrite Zplus_mod_idemp_r. replace (i + 1 + (pidx - i - 1)) with pidx by lia.
  apply Z.mod_small. lia.
Qed.

Definition CGroupedR (es : list entry) (gs : Z) (keys : list Z)
           (data : list entry) (ord : list Z) (i : Z) : Prop :=
  (exists g, 0 <= g /\ ord = zrange idZ (g * gs) (zlen es - g * gs) /\ forall k, In k keys -> k / gs <= g) /\
  nondecreasing (map (fun k => k / gs) keys) = true /\
  (forall k, In k (skipn (Z.to_nat gs) ord) -> 0 < trials_of data k) /\
  (ord <> [] -> exists k, In k (firstn (Z.to_nat gs) ord) /\ 0 < trials_of data k) /\
  (forall k, 0 < trials_of data k -> In k ord) /\
  satisfied (requested_of es) (removelast keys) = false /\
  (exists d, 1 <= d <= gs /\
     (ord <> [] -> exists k, znth ord ((i + d) mod (Z.min gs (zlen ord))) = Some k /\ 0 < trials_of data k) /\
     zlen keys + gs * sumpos (map e_trials data) + d <= gs * sumZ (requested_of es) + gs).
Definition CGrouped (es : list entry) (gs : Z) (keys : list Z) (q : qstate) : Prop :=
  CGroupedR es gs keys (q_data q) (q_ordering q) (q_i q).

Section Grouped.
Variables (gs : Z) (es : list entry).
Hypothesis Hwf : forallb wf_entry es = true.
Hypothesis Hn : 1 <= zlen es.
Hypothesis Hgs : 1 <= gs.
Let p := PGrouped gs.

Lemma CGrouped_init ch pm : CGrouped es gs [] (qinit p es ch pm).
Proof.
  unfold CGrouped, CGroupedR, qinit. prj.
  assert (Htr : forall k, 0 <= k < zlen es -> 0 < trials_of es k).
  { intros k Hk. unfold trials_of. destruct (znth_some es k Hk) as [e He]. rewrite He.
    apply znth_In in He. pose proof (wf_entry_facts _ (es_wf _ Hwf _ He)). lia. }
  assert (Hne : zrange idZ 0 (zlen es) = 0 :: zrange idZ 1 (zlen es - 1)) by (apply zrange_id_cons; lia).
  split; [|split; [reflexivity|split; [|split; [|split; [|split; [now apply sat_init|]]]]]].
  - exists 0. split; [lia|]. split; [f_equal; lia|]. intros k [].
  - intros k Hk. apply Htr.
    assert (Hin : In k (zrange idZ 0 (zlen es))).
    { rewrite <- (firstn_skipn (Z.to_nat gs) (zrange idZ 0 (zlen es))). apply in_or_app. now right. }
    apply In_zrange_id in Hin. lia.
  - intros _. exists 0. split; [|apply Htr; lia]. rewrite Hne.
    replace (Z.to_nat gs) with (S (Z.to_nat (gs - 1))) by lia. now left.
  - intros k Hk. apply In_zrange_id. unfold trials_of in Hk. destruct (znth es k) eqn:E; [|lia].
    apply znth_range in E. lia.
  - exists 1. split; [lia|]. split.
    + intros _. exists 0. split; [|apply Htr; lia]. rewrite zlen_zrange_nn by lia.
      replace (-1 + 1) with 0 by lia. rewrite Z.mod_0_l by lia. rewrite Hne. reflexivity.
    + rewrite (sumpos_init es Hwf). change (zlen (@nil Z)) with 0. lia.
Qed.

Lemma CGrouped_step keys q q' k t : Base p es keys q -> CGrouped es gs keys q ->
  next_trial all_rep q = NTok q' (EAdded k t) -> CGrouped es gs (keys ++ [k]) q'.
Proof.
  intros B ((g & Hg & Ho & Hkg) & Hndec & Ha & Hb & Hc & Hsat & (d & Hd & Hdp & Hbound)) Hnt.
  pose proof (Base_zlen _ _ _ _ B) as Hlen.
  assert (Hpol : q_pol q = PGrouped gs) by apply (b_pol _ _ _ _ _ _ _ _ _ _ _ _ B).
  destruct (nt_grouped _ _ _ _ _ Hpol Hnt) as (Hone & Hm0 & Hi' & Hzn & Ho').
  destruct (next_trial_facts _ _ _ _ Hnt) as (k' & e & dl & Hev & F). injection Hev as <- _.
  assert (Hk : 0 <= k < zlen es) by (apply (b_ord _ _ _ _ _ _ _ _ _ _ _ _ B); apply (nf_in _ _ _ _ _ F)).
  assert (Htr : forall j, trials_of (q_data q') j = trials_of (q_data q) j - (if j =? k then 1 else 0)).
  { intros j. rewrite (nf_data _ _ _ _ _ F). apply trials_of_dec_adv. lia. }
  assert (Htd : forall j, trials_of (dec_data q k) j = trials_of (q_data q') j).
  { intros j. rewrite Htr. unfold dec_data. apply trials_of_dec. lia. }
  assert (Hmap : map e_trials (q_data q') = zupd (map e_trials (q_data q)) (Z.to_nat k) (fun y => y - 1)).
  { rewrite (nf_data _ _ _ _ _ F). apply map_trials_dec_adv. lia. }
  destruct (znth_some (q_data q) k ltac:(lia)) as [ek Hek].
  assert (Hnk : nth_error (map e_trials (q_data q)) (Z.to_nat k) = Some (e_trials ek)).
  { rewrite <- znth_nth_error by lia. rewrite znth_map, Hek. reflexivity. }
  assert (Htk : trials_of (q_data q) k = e_trials ek) by (unfold trials_of; now rewrite Hek).
  assert (Hsp : sumpos (map e_trials (q_data q')) =
                sumpos (map e_trials (q_data q)) - Z.max (trials_of (q_data q) k) 0 + Z.max (trials_of (q_data q) k - 1) 0).
  { rewrite Hmap, Htk. apply sumpos_zupd. exact Hnk. }
  pose proof (sumpos_nonneg (map e_trials (q_data q'))) as Hspn.
  (* shape of the ordering *)
  set (a := g * gs) in *. set (L := zlen es - a) in *.
  assert (HL : 0 < L).
  { destruct (Z_lt_dec 0 L); [assumption|]. exfalso. apply Hone. rewrite Ho. apply zrange_nil. lia. }
  assert (Hzl : zlen (q_ordering q) = L) by (rewrite Ho; apply zlen_zrange_nn; lia).
  set (m := Z.min gs L) in *.
  assert (Hm : 0 < m <= gs) by lia.
  assert (Hfirst : forall j, In j (firstn (Z.to_nat gs) (q_ordering q)) <-> a <= j < a + m).
  { intros j. rewrite Ho, zrange_firstn by lia. apply In_zrange_id. }
  assert (Hskip : forall j, In j (skipn (Z.to_nat gs) (q_ordering q)) <-> a + gs <= j < a + L).
  { intros j. rewrite Ho, zrange_skipn by lia. rewrite In_zrange_id. lia. }
  assert (Hall : forall j, In j (q_ordering q) <-> a <= j < a + L).
  { intros j. rewrite Ho. apply In_zrange_id. }
  assert (Hznth : forall j x, znth (q_ordering q) j = Some x -> x = a + j /\ 0 <= j < L).
  { intros j x Hx. rewrite Ho in Hx. apply znth_zrange_inv in Hx. lia. }
  rewrite Hzl in *. fold m in Hi', Hdp.
  assert (Hi'r : 0 <= q_i q' < m) by (rewrite Hi'; apply Z.mod_pos_bound; lia).
  destruct (Hznth _ _ Hzn) as (Hka & _).
  assert (Hkdiv : k / gs = g).
  { symmetry. apply (Z.div_unique k gs g (q_i q')); [lia|]. unfold a in Hka. lia. }
  destruct (Hb Hone) as (jp & Hjp & Hjpos). apply Hfirst in Hjp.
  assert (Hnd : all_done (q_data q) = false).
  { destruct (all_done (q_data q)) eqn:E; [|reflexivity]. rewrite all_done_iff in E. specialize (E jp). lia. }
  (* a distance to a stimulus of the front group that still has trials, in a non-empty new ordering *)
  assert (Hdist : forall o' L', o' = zrange idZ (a + (L - L')) L' -> 0 < L' ->
            (exists j, a + (L - L') <= j < a + (L - L') + Z.min gs L' /\ 0 < trials_of (q_data q') j) ->
            exists d', 1 <= d' <= gs /\
              exists kk, znth o' ((q_i q' + d') mod (Z.min gs (zlen o'))) = Some kk /\ 0 < trials_of (q_data q') kk).
  { intros o' L' -> HL' (j & Hj & Hjp').
    rewrite zlen_zrange_nn by lia.
    destruct (cyc_dist (Z.min gs L') (q_i q') (j - (a + (L - L')))) as (d' & Hd' & Hmod); [lia|lia|].
    exists d'. split; [lia|]. exists j. rewrite Hmod. split; [|exact Hjp'].
    rewrite znth_zrange by lia. f_equal. lia. }
  unfold CGrouped, CGroupedR. rewrite Ho'.
  rewrite removelast_snoc, (sat_all_done _ _ _ _ B), map_app. cbn [map].
  assert (Hndec' : nondecreasing (map (fun k0 => k0 / gs) keys ++ [k / gs]) = true).
  { apply nondecreasing_snoc; [exact Hndec|]. intros y Hy. apply in_map_iff in Hy.
    destruct Hy as (x & <- & Hx). rewrite Hkdiv. now apply Hkg. }
  destruct (forallb (fun j => trials_of (dec_data q k) j <=? 0) (firstn (Z.to_nat gs) (q_ordering q))) eqn:Ef.
  - (* the front group is finished and removed *)
    rewrite forallb_forall in Ef.
    assert (Hgrp : forall j, a <= j < a + m -> trials_of (q_data q') j <= 0).
    { intros j Hj. apply Hfirst in Hj. specialize (Ef _ Hj). rewrite Htd in Ef. lia. }
    assert (Hk1 : trials_of (q_data q) k = 1).
    { pose proof (Hgrp jp Hjp) as H1. rewrite Htr in H1. destruct (Z.eqb_spec jp k) as [->|Hne]; lia. }
    assert (Ho2 : skipn (Z.to_nat gs) (q_ordering q) = zrange idZ ((g + 1) * gs) (zlen es - (g + 1) * gs)).
    { rewrite Ho, zrange_skipn by lia. f_equal; unfold L, a; lia. }
    split; [|split; [exact Hndec'|split; [|split; [|split; [|split; [exact Hnd|]]]]]].
    + exists (g + 1). split; [lia|]. split; [exact Ho2|].
      intros x Hx. apply in_app_or in Hx. destruct Hx as [Hx|[<-|[]]]; [specialize (Hkg _ Hx); lia|lia].
    + intros j Hj. assert (Hj2 : In j (skipn (Z.to_nat gs) (q_ordering q))).
      { rewrite <- (firstn_skipn (Z.to_nat gs) (skipn (Z.to_nat gs) (q_ordering q))). apply in_or_app. now right. }
      specialize (Ha _ Hj2). apply Hskip in Hj2. rewrite Htr. destruct (Z.eqb_spec j k); lia.
    + intros Hne.
      assert (HL2 : 0 < L - gs).
      { destruct (Z_lt_dec 0 (L - gs)); [assumption|]. exfalso. apply Hne.
        rewrite Ho, zrange_skipn by lia. apply zrange_nil. lia. }
      exists (a + gs). split.
      * rewrite Ho, zrange_skipn, zrange_firstn by lia. apply In_zrange_id. lia.
      * rewrite Htr. specialize (Ha (a + gs) ltac:(apply Hskip; lia)).
        destruct (Z.eqb_spec (a + gs) k); lia.
    + intros j Hj. apply Hskip. assert (Hj0 : 0 < trials_of (q_data q) j).
      { rewrite Htr in Hj. destruct (j =? k); lia. }
      apply Hc in Hj0. apply Hall in Hj0.
      destruct (Z_lt_dec j (a + m)) as [Hlt|Hge]; [specialize (Hgrp j ltac:(lia)); lia|lia].
    + (* distance bound *)
      destruct (Z_lt_dec 0 (L - gs)) as [HL2|HL2].
      * destruct (Hdist (skipn (Z.to_nat gs) (q_ordering q)) (L - gs)) as (d' & Hd' & Hkk).
        { rewrite Ho, zrange_skipn by lia. f_equal. lia. }
        { exact HL2. }
        { exists (a + gs). split; [lia|]. rewrite Htr. specialize (Ha (a + gs) ltac:(apply Hskip; lia)).
          destruct (Z.eqb_spec (a + gs) k); lia. }
        exists d'. split; [exact Hd'|]. split; [intros _; exact Hkk|].
        rewrite zlen_app, Hsp, Hk1. change (zlen [k]) with 1. nia.
      * exists 1. split; [lia|]. split.
        { intros Hne. exfalso. apply Hne. rewrite Ho, zrange_skipn by lia. apply zrange_nil. lia. }
        { rewrite zlen_app, Hsp, Hk1. change (zlen [k]) with 1. nia. }
  - (* the front group stays *)
    apply forallb_false_ex in Ef. destruct Ef as (jq & Hjq & Hjqp). rewrite Htd in Hjqp. apply Hfirst in Hjq.
    split; [|split; [exact Hndec'|split; [|split; [|split; [|split; [exact Hnd|]]]]]].
    + exists g. split; [lia|]. split; [exact Ho|].
      intros x Hx. apply in_app_or in Hx. destruct Hx as [Hx|[<-|[]]]; [now apply Hkg|lia].
    + intros j Hj. specialize (Ha _ Hj). apply Hskip in Hj. rewrite Htr. destruct (Z.eqb_spec j k); lia.
    + intros _. exists jq. split; [now apply Hfirst|lia].
    + intros j Hj. apply Hc. rewrite Htr in Hj. destruct (j =? k); lia.
    + destruct (Z_lt_dec 0 (trials_of (q_data q) k)) as [Huse|Hwaste].
      * destruct (Hdist (q_ordering q) L) as (d' & Hd' & Hkk).
        { rewrite Ho. f_equal. lia. }
        { exact HL. }
        { exists jq. split; [fold m; lia|lia]. }
        exists d'. split; [exact Hd'|]. split; [intros _; exact Hkk|].
        rewrite zlen_app, Hsp. change (zlen [k]) with 1. nia.
      * destruct (Hdp Hone) as (kk & Hkk & Hkkp).
        assert (Hd1 : d <> 1).
        { intros ->. rewrite <- Hi' in Hkk. rewrite Hkk in Hzn. injection Hzn as ->. lia. }
        exists (d - 1). split; [lia|]. split.
        { intros _. exists kk. rewrite Hzl. fold m. split.
          - rewrite Hi', Zplus_mod_idemp_l. replace (q_i q + 1 + (d - 1)) with (q_i q + d) by lia. exact Hkk.
          - rewrite Htr. destruct (Z.eqb_spec kk k) as [->|Hne]; lia. }
        { rewrite zlen_app, Hsp. change (zlen [k]) with 1. nia. }
Qed.

Lemma CGrouped_done keys q : Base p es keys q -> CGrouped es gs keys q -> q_ordering q = [] ->
  count_trials q = 0 /\ stops_at_first_moment (requested_of es) keys = true /\
  groups_in_order gs keys = true.
Proof.
  intros B (_ & Hndec & _ & _ & Hc & Hsat & _) Ho. rewrite Ho in Hc.
  assert (Hd : all_done (q_data q) = true).
  { apply all_done_iff. intros k. destruct (Z_lt_dec 0 (trials_of (q_data q) k)) as [H|H]; [|lia].
    destruct (Hc _ H). }
  split; [now apply count_trials_zero|]. split; [|exact Hndec].
  unfold stops_at_first_moment. rewrite Hsat, (sat_all_done _ _ _ _ B), Hd. reflexivity.
Qed.

Lemma CGrouped_bound keys q : CGrouped es gs keys q -> zlen keys <= gs * sumZ (requested_of es) + gs.
Proof.
  intros (_ & _ & _ & _ & _ & _ & (d & Hd & _ & Hb)).
  pose proof (sumpos_nonneg (map e_trials (q_data q))). nia.
Qed.
End Grouped.
