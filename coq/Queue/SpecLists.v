(* Vocabulary for queues whose stimuli carry per-trial delay LISTS (finite iterators, e_cyclic = false)
   as well as scalar (cycled) delays.  Definitions only; nothing in Queue/Spec.v is changed.

   Python: `delays` may be a scalar (itertools.cycle) or a list consumed by next(); when a list is
   exhausted next() raises StopIteration, which the model renders as next_delay = None -> NTerror ->
   pop_buffer = None.  Theorems under wf_queue_l are therefore conditional on the run returning Some. *)
From PV Require Export Queue.Model Queue.Spec.

(* as wf_entry, without the requirement e_cyclic e = true *)
Definition wf_entry_l (e : entry) : bool :=
  (1 <=? e_trials e) && (e_requested e =? e_trials e) && (0 <=? e_len e) && (e_dur e =? e_len e)
  && (e_dpos e =? 0)
  && match e_delays e with [] => false | _ => forallb (fun d => 0 <=? d) (e_delays e) end.

Definition wf_queue_l (p : policy) (es : list entry) : bool :=
  (1 <=? zlen es) && forallb wf_entry_l es && wf_policy p (zlen es).

(* the delay that follows the n-th presentation (n = 0, 1, ...) of stimulus k:
   cycled when the delay is a scalar, the n-th element of the list otherwise *)
Definition delay_of_l (d : list entry) (k : Z) (nth_presentation : Z) : Z :=
  match znth d k with
  | Some e =>
    let idx := if e_cyclic e then nth_presentation mod (Z.max 1 (zlen (e_delays e)))
               else nth_presentation in
    match znth (e_delays e) idx with Some x => x | None => 0 end
  | None => 0
  end.

Fixpoint spacing_from_l (d : list entry) (seen : list Z) (added : list (Z * Z)) : bool :=
  match added with
  | (k, t0) :: (((_, t1) :: _) as rest) =>
    (t1 =? t0 + len_of d k + delay_of_l d k (countZ k seen)) && spacing_from_l d (k :: seen) rest
  | _ => true
  end.
Definition spacing_ok_l (d : list entry) (added : list (Z * Z)) : bool := spacing_from_l d [] added.

(* executable form of the statement *)
Definition timeline_l_test (p : policy) (es : list entry) (ch : list Z) (pm : list (list Z)) (ns : list Z) : bool :=
  negb (wf_queue_l p es && forallb (fun n => 0 <=? n) ns) ||
  match pops all_rep (qinit p es ch pm) ns with
  | None => true
  | Some (q, out, ev) =>
    eqb_list eqb_osample out (render es (added_of ev) (sumZ ns))
    && (q_samples q =? sumZ ns) && spacing_ok_l es (added_of ev)
  end.
