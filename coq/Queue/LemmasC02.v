(* General lemmas for the queue proofs (C02): zrange / znth / zupd algebra, the structure of
   next_key / decrement_key / next_trial, and the basic state invariant [Inv] of no-pause runs. *)
From PV Require Import Queue.Model Queue.Spec.
From Coq Require Import ZArith List Bool Lia ZifyBool.
Import ListNotations.
Open Scope Z_scope.

(* ------------------------------------------------------------------ *)
(* zr / zrange / zlen                                                   *)
Section ZRq.
Context {A : Type}.
Implicit Types (f g : Z -> A).

Lemma Qzr_app f lo a b : zr f lo (a + b) = zr f lo a ++ zr f (lo + Z.of_nat a) b.
Proof.
  revert lo; induction a as [|a IH]; intros lo; cbn [zr Nat.add app].
  - f_equal. lia.
  - rewrite IH. do 3 f_equal. lia.
Qed.

Lemma Qzrange_app f lo a b : 0 <= a -> 0 <= b ->
  zrange f lo (a + b) = zrange f lo a ++ zrange f (lo + a) b.
Proof.
  intros Ha Hb. unfold zrange. rewrite Z2Nat.inj_add by lia. rewrite Qzr_app. do 2 f_equal. lia.
Qed.

Lemma Qzr_ext f g lo lo' n :
  (forall k, 0 <= k < Z.of_nat n -> f (lo + k) = g (lo' + k)) -> zr f lo n = zr g lo' n.
Proof.
  revert lo lo'; induction n as [|n IH]; intros lo lo' H; cbn [zr]; [reflexivity|].
  f_equal.
  - specialize (H 0). rewrite !Z.add_0_r in H. apply H. lia.
  - apply IH. intros k Hk. specialize (H (k + 1)).
    replace (lo + 1 + k) with (lo + (k + 1)) by lia.
    replace (lo' + 1 + k) with (lo' + (k + 1)) by lia. apply H. lia.
Qed.

Lemma Qzrange_ext f g lo lo' n :
  (forall k, 0 <= k < n -> f (lo + k) = g (lo' + k)) -> zrange f lo n = zrange g lo' n.
Proof. intros H. unfold zrange. apply Qzr_ext. intros k Hk. apply H. lia. Qed.

Lemma Qzr_length f lo n : length (zr f lo n) = n.
Proof. revert lo; induction n as [|n IH]; intros lo; cbn [zr length]; [reflexivity|]. now rewrite IH. Qed.

Lemma Qzlen_zrange f lo n : 0 <= n -> zlen (zrange f lo n) = n.
Proof. intros H. unfold zlen, zrange. rewrite Qzr_length. lia. Qed.

Lemma Qzlen_zrange_le f lo n : n <= 0 -> zlen (zrange f lo n) = 0.
Proof. intros H. unfold zlen, zrange. rewrite Qzr_length. lia. Qed.

Lemma Qzrange_nil f lo n : n <= 0 -> zrange f lo n = [].
Proof. intros H. unfold zrange. replace (Z.to_nat n) with O by lia. reflexivity. Qed.

Lemma Qrepeat_zr (x : A) lo n : repeat x n = zr (fun _ => x) lo n.
Proof. revert lo; induction n as [|n IH]; intros lo; cbn [zr repeat]; [reflexivity|]. now rewrite <- IH. Qed.

Lemma Qrepeat_zrange (x : A) lo n : repeat x (Z.to_nat n) = zrange (fun _ => x) lo n.
Proof. unfold zrange. apply Qrepeat_zr. Qed.

Lemma zlen_repeat (x : A) n : 0 <= n -> zlen (repeat x (Z.to_nat n)) = n.
Proof. intros H. unfold zlen. rewrite repeat_length. lia. Qed.

Lemma zlen_app (l1 l2 : list A) : zlen (l1 ++ l2) = zlen l1 + zlen l2.
Proof. unfold zlen. rewrite app_length. lia. Qed.

Lemma zlen_nonneg (l : list A) : 0 <= zlen l.
Proof. unfold zlen. lia. Qed.

Lemma zlen_nil : zlen (@nil A) = 0.
Proof. reflexivity. Qed.

Lemma zlen_cons (x : A) l : zlen (x :: l) = zlen l + 1.
Proof. unfold zlen. cbn [length]. lia. Qed.

Lemma znth_range (l : list A) i x : znth l i = Some x -> 0 <= i < zlen l.
Proof.
  unfold znth, zlen. destruct (i <? 0) eqn:E; [discriminate|]. intros H.
  assert (Hn : nth_error l (Z.to_nat i) <> None) by congruence.
  apply nth_error_Some in Hn. lia.
Qed.

Lemma znth_some (l : list A) i : 0 <= i < zlen l -> exists x, znth l i = Some x.
Proof.
  unfold znth, zlen. intros H. destruct (i <? 0) eqn:E; [lia|].
  destruct (nth_error l (Z.to_nat i)) eqn:N; [eauto|].
  apply nth_error_None in N. lia.
Qed.

Lemma znth_In (l : list A) i x : znth l i = Some x -> In x l.
Proof.
  unfold znth. destruct (i <? 0); [discriminate|]. apply nth_error_In.
Qed.

Lemma nth_error_zr f lo n i : (i < n)%nat -> nth_error (zr f lo n) i = Some (f (lo + Z.of_nat i)).
Proof.
  revert lo i; induction n as [|n IH]; intros lo i H; [lia|].
  destruct i as [|i]; cbn [zr nth_error].
  - f_equal. f_equal. lia.
  - rewrite IH by lia. f_equal. f_equal. lia.
Qed.

Lemma znth_zrange f lo n i : 0 <= i < n -> znth (zrange f lo n) i = Some (f (lo + i)).
Proof.
  intros H. unfold znth, zrange. destruct (i <? 0) eqn:E; [lia|].
  rewrite nth_error_zr by lia. f_equal. f_equal. lia.
Qed.

Lemma In_zr f lo n x : In x (zr f lo n) -> exists i, 0 <= i < Z.of_nat n /\ x = f (lo + i).
Proof.
  revert lo; induction n as [|n IH]; intros lo H; cbn [zr In] in H; [contradiction|].
  destruct H as [H|H].
  - exists 0. split; [lia|]. rewrite Z.add_0_r. auto.
  - apply IH in H. destruct H as (i & Hi & ->). exists (i + 1). split; [lia|]. f_equal. lia.
Qed.

Lemma nth_error_zupd (l : list A) i h j :
  nth_error (zupd l i h) j = if Nat.eqb j i then option_map h (nth_error l j) else nth_error l j.
Proof.
  revert i j; induction l as [|x t IH]; intros i j.
  - cbn [zupd]. destruct j; cbn [nth_error option_map]; destruct (Nat.eqb _ i); reflexivity.
  - destruct i as [|i]; cbn [zupd].
    + destruct j as [|j]; cbn [nth_error Nat.eqb option_map]; reflexivity.
    + destruct j as [|j]; cbn [nth_error Nat.eqb]; [reflexivity|]. apply IH.
Qed.

Lemma zupd_length (l : list A) i h : length (zupd l i h) = length l.
Proof.
  revert i; induction l as [|x t IH]; intros i; [reflexivity|].
  destruct i; cbn [zupd length]; [reflexivity|]. now rewrite IH.
Qed.

Lemma map_zupd {B} (g : A -> B) (l : list A) i h :
  (forall x, g (h x) = g x) -> map g (zupd l i h) = map g l.
Proof.
  intros H. revert i; induction l as [|x t IH]; intros i; [reflexivity|].
  destruct i; cbn [zupd map]; [now rewrite H|]. now rewrite IH.
Qed.

Lemma Qfind_app (h : A -> bool) l1 l2 :
  find h (l1 ++ l2) = match find h l1 with Some x => Some x | None => find h l2 end.
Proof.
  induction l1 as [|x t IH]; [reflexivity|]. cbn [app find]. destruct (h x); [reflexivity|apply IH].
Qed.

Lemma Qfind_none (h : A -> bool) l : Forall (fun x => h x = false) l -> find h l = None.
Proof.
  induction 1 as [|x t Hx Ht IH]; [reflexivity|]. cbn [find]. now rewrite Hx.
Qed.

Lemma forallb_false_nth (h : A -> bool) l :
  forallb h l = false -> exists i x, nth_error l i = Some x /\ h x = false.
Proof.
  induction l as [|x t IH]; cbn [forallb]; [discriminate|].
  destruct (h x) eqn:E.
  - cbn [andb]. intros H. destruct (IH H) as (i & y & Hi & Hy). exists (S i), y. auto.
  - intros _. exists O, x. auto.
Qed.

Lemma nth_error_map_inv {B} (g : A -> B) l i y :
  nth_error (map g l) i = Some y -> exists x, nth_error l i = Some x /\ y = g x.
Proof.
  revert i; induction l as [|x t IH]; intros i; destruct i; cbn [map nth_error]; try discriminate.
  - intros H. injection H as <-. eauto.
  - apply IH.
Qed.

End ZRq.

Lemma sumZ_app a b : sumZ (a ++ b) = sumZ a + sumZ b.
Proof. induction a as [|x t IH]; cbn [app sumZ fold_right] in *; [reflexivity|]. unfold sumZ in *. lia. Qed.

(* ------------------------------------------------------------------ *)
(* upd_entry / memZ / remove1                                            *)
Lemma znth_upd (d : list entry) key h k :
  znth (upd_entry d key h) k = if k =? key then option_map h (znth d k) else znth d k.
Proof.
  unfold znth, upd_entry. destruct (key <? 0) eqn:Ek; destruct (k <? 0) eqn:Ekk;
    destruct (k =? key) eqn:E; try reflexivity; try lia.
  - rewrite nth_error_zupd. replace (Nat.eqb (Z.to_nat k) (Z.to_nat key)) with true; [reflexivity|].
    symmetry. apply Nat.eqb_eq. lia.
  - rewrite nth_error_zupd. replace (Nat.eqb (Z.to_nat k) (Z.to_nat key)) with false; [reflexivity|].
    symmetry. apply Nat.eqb_neq. lia.
Qed.

Lemma map_upd_entry {B} (g : entry -> B) d key h :
  (forall x, g (h x) = g x) -> map g (upd_entry d key h) = map g d.
Proof. intros H. unfold upd_entry. destruct (key <? 0); [reflexivity|]. now apply map_zupd. Qed.

Lemma upd_entry_length d key h : length (upd_entry d key h) = length d.
Proof. unfold upd_entry. destruct (key <? 0); [reflexivity|]. apply zupd_length. Qed.

Lemma memZ_In x l : memZ x l = true <-> In x l.
Proof.
  unfold memZ. rewrite existsb_exists. split.
  - intros (y & Hy & E). apply Z.eqb_eq in E. now subst.
  - intros H. exists x. split; [assumption|apply Z.eqb_refl].
Qed.

Lemma In_remove1 x k l : In x (remove1 k l) -> In x l.
Proof.
  induction l as [|y t IH]; cbn [remove1]; [auto|].
  destruct (k =? y); cbn [In]; intuition.
Qed.

Lemma In_fold_remove1 x grp o : In x (fold_left (fun o k => remove1 k o) grp o) -> In x o.
Proof.
  revert o; induction grp as [|k t IH]; intros o; cbn [fold_left]; [auto|].
  intros H. apply IH in H. eapply In_remove1; eauto.
Qed.

(* ------------------------------------------------------------------ *)
(* record extensionality and field simplification                        *)
Lemma qstate_eq (a b : qstate) :
  q_pol a = q_pol b -> q_data a = q_data b -> q_ordering a = q_ordering b -> q_source a = q_source b ->
  q_delay a = q_delay b -> q_samples a = q_samples b -> q_paused a = q_paused b -> q_empty a = q_empty b ->
  q_generated a = q_generated b -> q_i a = q_i b -> q_iperm a = q_iperm b -> q_complete a = q_complete b ->
  q_choices a = q_choices b -> q_perms a = q_perms b -> a = b.
Proof. destruct a, b; cbn; intros; subst; reflexivity. Qed.

Ltac qsimpl :=
  cbn [q_pol q_data q_ordering q_source q_delay q_samples q_paused q_empty q_generated q_i q_iperm
       q_complete q_choices q_perms set_src add_samples set_state] in *.

Ltac bm H :=
  repeat match type of H with
         | context[match ?x with _ => _ end] => destruct x eqn:?; try discriminate
         end.

(* ------------------------------------------------------------------ *)
(* next_key / decrement_key / next_trial                                 *)
Definition same_core (q q1 : qstate) : Prop :=
  q_pol q1 = q_pol q /\ q_data q1 = q_data q /\ q_ordering q1 = q_ordering q /\
  q_source q1 = q_source q /\ q_delay q1 = q_delay q /\ q_samples q1 = q_samples q /\
  q_paused q1 = q_paused q /\ q_empty q1 = q_empty q /\ q_complete q1 = q_complete q.

Lemma inter_skip_In fuel d o i i' k : inter_skip fuel d o i = Some (i', k) -> In k o.
Proof.
  revert i; induction fuel as [|f IH]; intros i; cbn [inter_skip]; [discriminate|].
  destruct (znth o ((i + 1) mod zlen o)) as [key|] eqn:E; [|discriminate].
  destruct (trials_of d key >? 0).
  - intros H. injection H as <- <-. eapply znth_In; eauto.
  - apply IH.
Qed.

Lemma next_key_core R q k q1 : next_key R q = NKey k q1 ->
  same_core q q1 /\ In k (q_ordering q).
Proof.
  unfold next_key, same_core. intros H.
  destruct (q_pol q) eqn:Ep; bm H; injection H as <- <-; qsimpl;
    (split; [repeat split; auto|]); try (eapply znth_In; eassumption).
  - now left.
  - eapply inter_skip_In; eauto.
  - apply memZ_In; assumption.
Qed.

(* the states from which next_key answers QueueEmptyError *)
Definition is_empty_state (q : qstate) : Prop :=
  match q_pol q with
  | PFifo | PRandom | PGrouped _ => q_ordering q = []
  | PInter _ | PBlockedRandom => q_complete q = true \/ q_ordering q = []
  end.

Lemma zlen_eq0_nil {A} (l : list A) : (zlen l =? 0) = true <-> l = [].
Proof. unfold zlen. destruct l; cbn [length]; split; intros H; try reflexivity; try discriminate; lia. Qed.

(* under the repair r_empty_guard (interleaved / blocked-random queues with nothing queued report empty) *)
Lemma next_key_empty R (HR : r_empty_guard R = true) q : next_key R q = NEmpty <-> is_empty_state q.
Proof.
  unfold next_key, is_empty_state. rewrite HR. destruct (q_pol q) eqn:Ep.
  - destruct (q_ordering q); split; intros H; congruence.
  - destruct (q_complete q); [split; auto|].
    destruct (zlen (q_ordering q) =? 0) eqn:Z0.
    + apply zlen_eq0_nil in Z0. split; auto.
    + split; [intros H; bm H|]. intros [H|H]; [discriminate|]. apply zlen_eq0_nil in H. congruence.
  - destruct (q_ordering q); split; intros H; try congruence. bm H.
  - destruct (q_complete q); [split; auto|]. cbn [andb].
    destruct (zlen (q_ordering q) =? 0) eqn:Z0.
    + apply zlen_eq0_nil in Z0. split; auto.
    + split; [intros H; bm H|]. intros [H|H]; [discriminate|]. apply zlen_eq0_nil in H. congruence.
  - destruct (q_ordering q); split; intros H; try congruence. bm H.
Qed.

Lemma decrement_key_facts q key q2 : decrement_key q key = Some q2 ->
  q_pol q2 = q_pol q /\ q_data q2 = upd_entry (q_data q) key (add_trials (-1)) /\
  q_source q2 = q_source q /\ q_delay q2 = q_delay q /\ q_samples q2 = q_samples q /\
  q_paused q2 = q_paused q /\ q_empty q2 = q_empty q /\ q_generated q2 = q_generated q /\
  (forall x, In x (q_ordering q2) -> In x (q_ordering q)) /\
  match q_pol q with
  | PInter _ | PBlockedRandom =>
      q_ordering q2 = q_ordering q /\ q_complete q2 = q_complete q || all_done (q_data q2)
  | _ => q_complete q2 = q_complete q
  end.
Proof.
  unfold decrement_key. intros H.
  destruct (negb (memZ key (q_ordering q))); [discriminate|].
  destruct (q_pol q) eqn:Ep.
  - injection H as <-. qsimpl. rewrite Ep. repeat split; auto.
    intros x. destruct (_ <=? 0); [apply In_remove1|auto].
  - injection H as <-. qsimpl. rewrite Ep. repeat split; auto.
  - injection H as <-. qsimpl. rewrite Ep. repeat split; auto.
    intros x. destruct (_ <=? 0); [apply In_remove1|auto].
  - injection H as <-. qsimpl. rewrite Ep. repeat split; auto.
  - destruct (forallb _ _); injection H as <-; qsimpl; rewrite Ep; repeat split; auto.
    intros x. apply In_fold_remove1.
Qed.

Lemma decrement_key_some q key : In key (q_ordering q) -> exists q2, decrement_key q key = Some q2.
Proof.
  intros H. apply memZ_In in H. unfold decrement_key. rewrite H. cbn [negb].
  destruct (q_pol q); eauto. destruct (forallb _ _); eauto.
Qed.

Lemma next_trial_ok R q q' ev : next_trial R q = NTok q' ev ->
  exists key e dl q1 q2,
    next_key R q = NKey key q1 /\ decrement_key q1 key = Some q2 /\
    ev = EAdded key (q_samples q) /\
    znth (upd_entry (q_data q) key (add_trials (-1))) key = Some e /\
    next_delay e = Some dl /\ 0 <= dl /\
    q_pol q' = q_pol q /\
    q_data q' = upd_entry (upd_entry (q_data q) key (add_trials (-1))) key adv_delay /\
    q_source q' = Some (key, 0, e_len e) /\ q_delay q' = dl /\ q_samples q' = q_samples q /\
    q_paused q' = q_paused q /\ q_empty q' = q_empty q /\
    q_ordering q' = q_ordering q2 /\ q_complete q' = q_complete q2.
Proof.
  unfold next_trial. intros H.
  destruct (next_key R q) as [key q1| |] eqn:Ek; try discriminate.
  destruct (decrement_key q1 key) as [q2|] eqn:Ed; [|discriminate].
  destruct (znth (q_data q2) key) as [e|] eqn:Ee; [|discriminate].
  destruct (next_delay e) as [dl|] eqn:El; [|discriminate].
  destruct (dl <? 0) eqn:Elt; [discriminate|].
  injection H as <- <-.
  destruct (next_key_core _ _ _ _ Ek) as [(C1 & C2 & C3 & C4 & C5 & C6 & C7 & C8 & C9) _].
  destruct (decrement_key_facts _ _ _ Ed) as (D1 & D2 & D3 & D4 & D5 & D6 & D7 & D8 & _).
  exists key, e, dl, q1, q2. qsimpl.
  rewrite D2, C2 in *. repeat split; auto; try congruence. lia.
Qed.

Lemma next_trial_empty R (HR : r_empty_guard R = true) q : next_trial R q = NTempty <-> is_empty_state q.
Proof.
  rewrite <- (next_key_empty R HR). unfold next_trial.
  destruct (next_key R q) as [key q1| |]; split; intros H; try congruence.
  bm H.
Qed.

(* ------------------------------------------------------------------ *)
(* static part of the entries                                            *)
Definition stat (e : entry) := (e_len e, e_kind e, e_delays e, e_cyclic e, e_dur e).

Lemma stat_lookup d es k e : map stat d = map stat es -> znth d k = Some e ->
  exists e0, znth es k = Some e0 /\ stat e0 = stat e.
Proof.
  unfold znth. destruct (k <? 0); [discriminate|]. intros Hm He.
  apply (map_nth_error stat) in He. rewrite Hm in He.
  apply nth_error_map_inv in He. destruct He as (e0 & H0 & E). eauto.
Qed.

Lemma stat_lookup_inv d es k e0 : map stat d = map stat es -> znth es k = Some e0 ->
  exists e, znth d k = Some e /\ stat e0 = stat e.
Proof.
  intros Hm H. symmetry in Hm. destruct (stat_lookup _ _ _ _ Hm H) as (e & He & E). eauto.
Qed.

Lemma forallb_znth {A} (h : A -> bool) l i x : forallb h l = true -> znth l i = Some x -> h x = true.
Proof. intros H Hx. apply znth_In in Hx. rewrite forallb_forall in H. auto. Qed.

Lemma wf_entry_facts e : wf_entry e = true ->
  1 <= e_trials e /\ 0 <= e_len e /\ e_dpos e = 0 /\ e_cyclic e = true /\ e_delays e <> [] /\
  forallb (fun d => 0 <=? d) (e_delays e) = true.
Proof.
  unfold wf_entry. rewrite !andb_true_iff. intros [[[[[[H1 H2] H3] H4] H5] H6] H7].
  repeat split; try lia; auto.
  - intros E. rewrite E in H7. discriminate.
  - destruct (e_delays e); [discriminate|assumption].
Qed.

Lemma next_delay_cyc e : e_cyclic e = true -> e_delays e <> [] ->
  forallb (fun d => 0 <=? d) (e_delays e) = true ->
  exists dl, next_delay e = Some dl /\ 0 <= dl /\
             znth (e_delays e) (e_dpos e mod zlen (e_delays e)) = Some dl.
Proof.
  intros Hc Hn Hf. unfold next_delay. rewrite Hc.
  assert (Hl : 0 < zlen (e_delays e)).
  { destruct (e_delays e); [congruence|]. rewrite zlen_cons. pose proof (zlen_nonneg l). lia. }
  destruct (zlen (e_delays e) =? 0) eqn:E; [lia|].
  destruct (znth_some (e_delays e) (e_dpos e mod zlen (e_delays e))) as (dl & Hd).
  { apply Z.mod_pos_bound. lia. }
  exists dl. repeat split; auto.
  pose proof (forallb_znth _ _ _ _ Hf Hd). lia.
Qed.

Lemma delay_of_eq es k e0 c dl : znth es k = Some e0 -> e_delays e0 <> [] ->
  znth (e_delays e0) (c mod zlen (e_delays e0)) = Some dl -> delay_of es k c = dl.
Proof.
  intros H Hn Hd. unfold delay_of. rewrite H.
  assert (Hl : 0 < zlen (e_delays e0)).
  { destruct (e_delays e0); [congruence|]. rewrite zlen_cons. pose proof (zlen_nonneg l). lia. }
  replace (Z.max 1 (zlen (e_delays e0))) with (zlen (e_delays e0)) by lia. now rewrite Hd.
Qed.

(* ------------------------------------------------------------------ *)
(* pop_loop unfolding                                                    *)
Lemma pop_loop_done f R q s : s <= 0 -> pop_loop f R q s = Some (q, [], []).
Proof. intros H. destruct f; cbn [pop_loop]; destruct (s <=? 0) eqn:E; try lia; reflexivity. Qed.

Lemma pop_loop_S f R q s : 0 < s ->
  pop_loop (S f) R q s =
  match pop_step R q s with
  | PBerror => None
  | PBempty => Some (add_samples q s true, repeat OZero (Z.to_nat s), [EEmpty])
  | PBok q1 out ev =>
    match pop_loop f R (add_samples q1 (zlen out) false) (s - zlen out) with
    | None => None
    | Some (q2, out2, ev2) => Some (q2, out ++ out2, ev ++ ev2)
    end
  end.
Proof. intros H. cbn [pop_loop]. destruct (s <=? 0) eqn:E; [lia|reflexivity]. Qed.

Lemma pop_loop_O R q s : 0 < s -> pop_loop O R q s = None.
Proof. intros H. cbn [pop_loop]. destruct (s <=? 0) eqn:E; [lia|reflexivity]. Qed.

Lemma added_of_app a b : added_of (a ++ b) = added_of a ++ added_of b.
Proof. unfold added_of. apply flat_map_app. Qed.

(* ------------------------------------------------------------------ *)
(* the state invariant of runs without pause                             *)
Section INV.
Variable p : policy.
Variable es : list entry.
Hypothesis Hwf : wf_queue p es = true.

Definition src_ok (q : qstate) : Prop :=
  match q_source q with
  | Some (k, pos, len) =>
      0 <= pos <= len /\ len = len_of es k /\
      (forallb progress_entry es = true -> 1 <= len \/ 1 <= q_delay q)
  | None => True
  end.

Definition pol_ok (q : qstate) : Prop :=
  match p with
  | PInter _ => q_ordering q = zrange (fun i => i) 0 (zlen es) /\ q_complete q = all_done (q_data q)
  | _ => True
  end.

Record Inv (q : qstate) : Prop := {
  inv_paused : q_paused q = false;
  inv_delay : 0 <= q_delay q;
  inv_src : src_ok q;
  inv_stat : map stat (q_data q) = map stat es;
  inv_pol : q_pol q = p;
  inv_ord : Forall (fun k => 0 <= k < zlen es) (q_ordering q);
  inv_polok : pol_ok q
}.

Lemma wf_parts : 1 <= zlen es /\ forallb wf_entry es = true /\ wf_policy p (zlen es) = true.
Proof.
  unfold wf_queue in Hwf. rewrite !andb_true_iff in Hwf. destruct Hwf as [[H1 H2] H3].
  repeat split; auto. lia.
Qed.

Lemma all_done_es : all_done es = false.
Proof.
  destruct wf_parts as (H1 & H2 & _). destruct es as [|e t]; [rewrite zlen_nil in H1; lia|].
  cbn [forallb all_done] in *. apply andb_true_iff in H2. destruct H2 as [H2 _].
  apply wf_entry_facts in H2. destruct (e_trials e <=? 0) eqn:E; [lia|reflexivity].
Qed.

Lemma Inv_init ch pm : Inv (qinit p es ch pm).
Proof.
  pose proof all_done_es as HA.
  constructor; unfold qinit, src_ok, pol_ok; cbn; auto; try lia.
  - apply Forall_forall. intros x Hx. apply In_zr in Hx. destruct Hx as (i & Hi & ->).
    unfold zlen in *. lia.
  - destruct p; auto.
Qed.

(* what a well-formed static part gives for a data entry *)
Lemma entry_facts d k e : map stat d = map stat es -> znth d k = Some e ->
  0 <= e_len e /\ len_of es k = e_len e /\
  exists dl, next_delay e = Some dl /\ 0 <= dl /\ delay_of es k (e_dpos e) = dl /\
             (forallb progress_entry es = true -> 1 <= e_len e \/ 1 <= dl).
Proof.
  intros I He. destruct (stat_lookup _ _ _ _ I He) as (e0 & H0 & Es).
  unfold stat in Es. injection Es as E1 E2 E3 E4 E5.
  destruct wf_parts as (_ & Hw & _). pose proof (forallb_znth _ _ _ _ Hw H0) as W.
  apply wf_entry_facts in W. destruct W as (W1 & W2 & W3 & W4 & W5 & W6).
  split; [lia|]. split; [unfold len_of; rewrite H0; lia|].
  rewrite E3 in W5, W6. rewrite E4 in W4.
  destruct (next_delay_cyc e W4 W5 W6) as (dl & N1 & N2 & N3).
  exists dl. repeat split; auto.
  - eapply delay_of_eq; eauto; rewrite E3; auto.
  - intros Hp. pose proof (forallb_znth _ _ _ _ Hp H0) as P. unfold progress_entry in P.
    apply orb_true_iff in P. destruct P as [P|P]; [left; lia|right].
    rewrite E3 in P. pose proof (forallb_znth _ _ _ _ P N3). lia.
Qed.

Lemma Inv_add_samples q n b : Inv q -> Inv (add_samples q n b).
Proof. intros [I1 I2 I3 I4 I5 I6 I7]. constructor; unfold src_ok, pol_ok in *; qsimpl; auto. Qed.

Lemma all_done_trials d d' : map e_trials d = map e_trials d' -> all_done d = all_done d'.
Proof.
  unfold all_done. intros H.
  assert (E : forall l, forallb (fun e => e_trials e <=? 0) l = forallb (fun t => t <=? 0) (map e_trials l)).
  { induction l as [|x t IH]; cbn [map forallb]; [reflexivity|]. now rewrite IH. }
  now rewrite !E, H.
Qed.

Lemma Inv_next_trial q q' ev : Inv q -> next_trial all_rep q = NTok q' ev -> Inv q'.
Proof.
  intros I H. destruct (next_trial_ok _ _ _ _ H) as
    (key & e & dl & q1 & q2 & Hk & Hd & -> & He & Hdl & Hdl0 & F1 & F2 & F3 & F4 & F5 & F6 & F7 & F8 & F9).
  destruct (next_key_core _ _ _ _ Hk) as [(C1 & C2 & C3 & C4 & C5 & C6 & C7 & C8 & C9) Hin].
  destruct (decrement_key_facts _ _ _ Hd) as (D1 & D2 & D3 & D4 & D5 & D6 & D7 & D8 & D9 & D10).
  assert (Hst : map stat (upd_entry (q_data q) key (add_trials (-1))) = map stat es).
  { rewrite map_upd_entry; auto. apply (inv_stat _ I). }
  destruct (entry_facts _ _ _ Hst He) as (L1 & L2 & dl' & N1 & N2 & N3 & N4).
  assert (Hdd : dl' = dl) by (rewrite N1 in Hdl; injection Hdl; auto). rewrite Hdd in N2, N3, N4.
  destruct I as [I1 I2 I3 I4 I5 I6 I7]. constructor.
  - rewrite F6. exact I1.
  - rewrite F4. exact Hdl0.
  - unfold src_ok. rewrite F3, F4. split; [split; [apply Z.le_refl|exact L1]|].
    split; [symmetry; exact L2|exact N4].
  - rewrite F2. rewrite !map_upd_entry; auto.
  - rewrite F1. exact I5.
  - rewrite F8. apply Forall_forall. intros x Hx. apply D9 in Hx. rewrite C3 in Hx.
    rewrite Forall_forall in I6. auto.
  - unfold pol_ok in *. destruct p eqn:Ep; auto.
    rewrite C1, I5 in D10. destruct D10 as [D10 D11]. destruct I7 as [I7 I8].
    split; [rewrite F8, D10, C3; exact I7|]. rewrite F9, D11, C9.
    assert (Hc : q_complete q = false).
    { destruct (q_complete q) eqn:Ec; [|reflexivity].
      assert (is_empty_state q) by (unfold is_empty_state; rewrite I5; left; exact Ec).
      apply (next_key_empty all_rep eq_refl) in H0. rewrite H0 in Hk. discriminate. }
    rewrite Hc. cbn [orb]. apply all_done_trials. rewrite F2, D2, C2.
    rewrite (map_upd_entry e_trials _ key adv_delay); auto.
Qed.

(* one successful step of _pop_buffer *)
Lemma step_len q s q1 out ev : Inv q -> 0 < s -> pop_step all_rep q s = PBok q1 out ev ->
  0 <= zlen out <= s.
Proof.
  intros I Hs H. unfold pop_step in H. rewrite (inv_paused _ I) in H.
  pose proof (inv_src _ I) as S. unfold src_ok in S. pose proof (inv_delay _ I) as Dl.
  destruct (q_source q) as [[[key pos] len]|] eqn:Es.
  - destruct S as (S1 & S2 & S3). destruct (kind_of q key).
    + destruct (s >? len - pos) eqn:E; injection H as <- <- <-; rewrite Qzlen_zrange; lia.
    + injection H as <- <- <-. rewrite Qzlen_zrange; lia.
  - destruct (q_delay q >? 0) eqn:E.
    + injection H as <- <- <-. rewrite zlen_repeat; lia.
    + destruct (next_trial all_rep q); try discriminate. injection H as <- <- <-. unfold zlen; cbn [length]. lia.
Qed.

Lemma Inv_step q s q1 out ev : Inv q -> 0 < s -> pop_step all_rep q s = PBok q1 out ev -> Inv q1.
Proof.
  intros I Hs H. unfold pop_step in H. rewrite (inv_paused _ I) in H.
  pose proof (inv_src _ I) as S. unfold src_ok in S. pose proof (inv_delay _ I) as Dl.
  destruct (q_source q) as [[[key pos] len]|] eqn:Es.
  - destruct S as (S1 & S2 & S3). destruct (kind_of q key).
    + destruct (s >? len - pos) eqn:E; injection H as <- <- <-;
        destruct I as [I1 I2 I3 I4 I5 I6 I7]; constructor; unfold src_ok, pol_ok in *; qsimpl; auto.
      repeat split; auto; lia.
    + injection H as <- <- <-.
      destruct I as [I1 I2 I3 I4 I5 I6 I7]; constructor; unfold src_ok, pol_ok in *; qsimpl; auto.
      destruct (pos + Z.min (len - pos) s >=? len) eqn:E; auto. repeat split; auto; lia.
  - destruct (q_delay q >? 0) eqn:E.
    + injection H as <- <- <-.
      destruct I as [I1 I2 I3 I4 I5 I6 I7]; constructor; unfold src_ok, pol_ok in *; qsimpl; auto. lia.
    + destruct (next_trial all_rep q) eqn:En; try discriminate. injection H as <- <- <-.
      eapply Inv_next_trial; eauto.
Qed.

Lemma Inv_loop f : forall q s q2 o e, Inv q -> pop_loop f all_rep q s = Some (q2, o, e) -> Inv q2.
Proof.
  induction f as [|f IH]; intros q s q2 o e I H.
  - destruct (Z_le_gt_dec s 0) as [Hs|Hs].
    + rewrite pop_loop_done in H by lia. injection H as <- <- <-. auto.
    + rewrite pop_loop_O in H by lia. discriminate.
  - destruct (Z_le_gt_dec s 0) as [Hs|Hs].
    + rewrite pop_loop_done in H by lia. injection H as <- <- <-. auto.
    + rewrite pop_loop_S in H by lia.
      destruct (pop_step all_rep q s) as [q1 out ev| |] eqn:Est; try discriminate.
      * destruct (pop_loop f all_rep _ _) as [[[q3 o3] e3]|] eqn:El; [|discriminate].
        injection H as <- <- <-. eapply IH; [|exact El].
        apply Inv_add_samples. eapply Inv_step; eauto. lia.
      * injection H as <- <- <-. now apply Inv_add_samples.
Qed.

Lemma Inv_pops ns : forall q q2 o e, Inv q -> pops all_rep q ns = Some (q2, o, e) -> Inv q2.
Proof.
  induction ns as [|n t IH]; intros q q2 o e I H; cbn [pops] in H.
  - injection H as <- <- <-. auto.
  - unfold pop_buffer in H.
    destruct (pop_loop _ all_rep q n) as [[[q1 o1] e1]|] eqn:E1; [|discriminate].
    destruct (pops all_rep q1 t) as [[[q3 o3] e3]|] eqn:E2; [|discriminate].
    injection H as <- <- <-. eapply IH; [|exact E2]. eapply Inv_loop; eauto.
Qed.

End INV.
