(* Model of psiaudio.util: edge_rising / edge_falling / epochs (pad = 0),
   smooth_epochs, debounce_epochs.  Definitions only (proofs are in Runs/Proofs.v).

   Python                                    model
   ----------------------------------------  ------------------------------------------
   np.r_[0, np.diff(x.astype('i'))] == 1     rising  : indices i >= 1 with x[i-1]=0, x[i]=1
   np.r_[0, np.diff(x.astype('i'))] == -1    falling : indices i >= 1 with x[i-1]=1, x[i]=0
   epochs(x)                                 epochs_model (None = the code would raise)
   epochs.sort(axis=0)                       colsort (each column sorted independently)
   the while/while sweep                     sweep
*)
From PV Require Export Common.ListX.

(* ---------- run detection ---------- *)
Fixpoint rising_aux (prev : bool) (i : Z) (l : list bool) : list Z :=
  match l with
  | [] => []
  | b :: t => if negb prev && b then i :: rising_aux b (i + 1) t else rising_aux b (i + 1) t
  end.
Fixpoint falling_aux (prev : bool) (i : Z) (l : list bool) : list Z :=
  match l with
  | [] => []
  | b :: t => if prev && negb b then i :: falling_aux b (i + 1) t else falling_aux b (i + 1) t
  end.
Definition rising (l : list bool) : list Z :=
  match l with [] => [] | b :: t => rising_aux b 1 t end.
Definition falling (l : list bool) : list Z :=
  match l with [] => [] | b :: t => falling_aux b 1 t end.

Definition hdZ (l : list Z) : option Z := match l with [] => None | x :: _ => Some x end.
Fixpoint lastZ (l : list Z) : option Z :=
  match l with [] => None | [x] => Some x | _ :: t => lastZ t end.

(* `np.c_[start, end]` needs equal lengths; anything else raises. *)
Definition zip_same (a b : list Z) : option (list (Z * Z)) :=
  if (length a =? length b)%nat then Some (combine a b) else None.

(* util.epochs with pad = 0, as written (after the all-True repair, see known_findings.txt):
     if no edges at all: [[0, len]] if x is non-empty and x[0] else []
     elif no end and one start: end = [len]        elif one end and no start: start = [0]
     if end[0] < start[0]: start = [0] + start     if end[-1] < start[-1]: end = end + [len]   *)
Definition epochs_model (x : list bool) : option (list (Z * Z)) :=
  let n := zlen x in
  let st := rising x in
  let en := falling x in
  match st, en with
  | [], [] => match x with true :: _ => Some [(0, n)] | _ => Some [] end
  | _, _ =>
    let '(st, en) :=
      match st, en with
      | [_], [] => (st, en ++ [n])
      | [], [_] => (0 :: st, en)
      | _, _ => (st, en)
      end in
    match hdZ en, hdZ st with
    | Some e0, Some s0 =>
      let st := if e0 <? s0 then 0 :: st else st in
      match lastZ en, lastZ st with
      | Some e1, Some s1 =>
        let en := if e1 <? s1 then en ++ [n] else en in
        zip_same st en
      | _, _ => None
      end
    | _, _ => None     (* end[0] / start[0] on an empty array: IndexError *)
    end
  end.

(* the same function before the repair: an array with no edges returns no run at all *)
Definition epochs_model_unrepaired (x : list bool) : option (list (Z * Z)) :=
  match rising x, falling x with
  | [], [] => Some []
  | _, _ => epochs_model x
  end.

(* specification: maximal runs of true, scanned left to right *)
Fixpoint runs_aux (i : Z) (cur : option Z) (l : list bool) : list (Z * Z) :=
  match l with
  | [] => match cur with Some s => [(s, i)] | None => [] end
  | true :: t => runs_aux (i + 1) (match cur with Some s => Some s | None => Some i end) t
  | false :: t =>
    match cur with
    | Some s => (s, i) :: runs_aux (i + 1) None t
    | None => runs_aux (i + 1) None t
    end
  end.
Definition runs (l : list bool) : list (Z * Z) := runs_aux 0 None l.

(* ---------- interval merging ---------- *)
Fixpoint insertZ (x : Z) (l : list Z) : list Z :=
  match l with
  | [] => [x]
  | y :: t => if x <=? y then x :: l else y :: insertZ x t
  end.
Fixpoint sortZ (l : list Z) : list Z :=
  match l with [] => [] | x :: t => insertZ x (sortZ t) end.

Definition colsort (l : list (Z * Z)) : list (Z * Z) :=
  combine (sortZ (map fst l)) (sortZ (map snd l)).

Fixpoint sweep (lb ub : Z) (l : list (Z * Z)) : list (Z * Z) :=
  match l with
  | [] => [(lb, ub)]
  | (s, e) :: t => if ub >=? s then sweep lb e t else (lb, ub) :: sweep s e t
  end.

Definition smooth_model (l : list (Z * Z)) : list (Z * Z) :=
  match colsort l with
  | [] => []
  | (s, e) :: t => sweep s e t
  end.

(* ---------- debouncing ---------- *)
Definition debounce_model (d : Z) (l : list (Z * Z)) : list (Z * Z) :=
  let kept := filter (fun p => snd p - fst p >=? d) l in
  let padded := map (fun p => (fst p, snd p + d)) kept in
  map (fun p => (fst p, snd p - d)) (smooth_model padded).

(* specification for sorted, disjoint input: drop short runs, then join
   survivors whose gap is at most d *)
Fixpoint join (d lb ub : Z) (l : list (Z * Z)) : list (Z * Z) :=
  match l with
  | [] => [(lb, ub)]
  | (s, e) :: t => if s - ub <=? d then join d lb e t else (lb, ub) :: join d s e t
  end.
Definition debounce_spec (d : Z) (l : list (Z * Z)) : list (Z * Z) :=
  match filter (fun p => snd p - fst p >=? d) l with
  | [] => []
  | (s, e) :: t => join d s e t
  end.

(* ---------- checks used by the generated correspondence files ---------- *)
Definition eqb_runs := eqb_list eqb_pairZ.
Definition check_epochs (x : list bool) (got : option (list (Z * Z))) : bool :=
  eqb_option eqb_runs (epochs_model x) got.
Definition check_smooth (l got : list (Z * Z)) : bool := eqb_runs (smooth_model l) got.
Definition check_debounce (d : Z) (l got : list (Z * Z)) : bool := eqb_runs (debounce_model d l) got.

(* ====================================================================================
   Additions of the coverage audit (nothing above is changed; no proof depends on what follows).

   epochs(x, pad) for pad >= 0, as written:
       start = ts(edge_rising(x)); end = ts(edge_falling(x))
       if pad:
           for s in start: x[s-pad:s] = 1      (a NEGATIVE s-pad wraps, as any Python slice bound does)
           for e in end:   x[e:e+pad] = 1
       ... then exactly the pad = 0 code on the modified x (which is the CALLER's array).
   For pad = 0 both slices are empty, so pad_apply 0 x = x also describes the guarded code.
   The slices are fixed by the edges of the original x and only ever write 1, so the order of the
   assignments does not matter. *)
From PV Require Import Common.PySlice.

Definition pad_apply (pad : Z) (x : list bool) : list bool :=
  let x1 := fold_left (fun acc s => py_set_const (Some (s - pad)) (Some s) true acc) (rising x) x in
  fold_left (fun acc e => py_set_const (Some e) (Some (e + pad)) true acc) (falling x) x1.

Definition epochs_pad_model (pad : Z) (x : list bool) : option (list (Z * Z)) :=
  epochs_model (pad_apply pad x).

(* a read-only array with pad <> 0: the (possibly empty) slice assignment raises as soon as there is one edge
   (with pad = 0 the code does not write at all since the repair recorded in known_findings.txt, so a read-only
   array is then an ordinary input: epochs_model) *)
Definition epochs_ro_model (x : list bool) : option (list (Z * Z)) :=
  match rising x, falling x with
  | [], [] => epochs_model x
  | _, _ => None
  end.

Fixpoint eqb_bools (a b : list bool) : bool :=
  match a, b with
  | [], [] => true
  | x :: a', y :: b' => Bool.eqb x y && eqb_bools a' b'
  | _, _ => false
  end.

(* got = the return value; xafter = the caller's array after the call *)
Definition check_epochs_pad (pad : Z) (x xafter : list bool) (got : option (list (Z * Z))) : bool :=
  eqb_bools (pad_apply pad x) xafter && eqb_option eqb_runs (epochs_pad_model pad x) got.
Definition check_epochs_ro (x : list bool) (got : option (list (Z * Z))) : bool :=
  eqb_option eqb_runs (epochs_ro_model x) got.

(* edge_rising / edge_falling called directly: positions of the True entries of the masks *)
Definition check_edges (x : list bool) (r f : list Z) : bool :=
  eqb_listZ (rising x) r && eqb_listZ (falling x) f.
