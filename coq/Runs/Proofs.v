(* Proofs of the C18 lemmas (run detection, interval merging, debouncing).
   Stdlib only; every lemma is closed under the global context. *)
From Coq Require Import ZArith List Bool Lia ZifyBool.
From PV Require Import Runs.Model Runs.Spec.
Import ListNotations.
Open Scope Z_scope.

(* ------------------------------------------------------------------ *)
(* generic helpers                                                     *)
(* ------------------------------------------------------------------ *)
Lemma zlen_nil : forall A, zlen (@nil A) = 0.
Proof. reflexivity. Qed.

Lemma zlen_cons : forall A (a : A) l, zlen (a :: l) = 1 + zlen l.
Proof. intros A a l. unfold zlen. cbn [length]. lia. Qed.

Lemma zlen_app : forall A (l1 l2 : list A), zlen (l1 ++ l2) = zlen l1 + zlen l2.
Proof. intros A l1 l2. unfold zlen. rewrite app_length. lia. Qed.

Lemma zlen_nonneg : forall A (l : list A), 0 <= zlen l.
Proof. intros A l. unfold zlen. lia. Qed.

Lemma last_cons : forall (t : list bool) b p, last (b :: t) p = last t b.
Proof.
  induction t as [|c t IH]; intros b p.
  - reflexivity.
  - change (last (b :: c :: t) p) with (last (c :: t) p).
    rewrite (IH c p), (IH c b). reflexivity.
Qed.

Lemma hdZ_In : forall l x, hdZ l = Some x -> In x l.
Proof. intros [|a l] x H; cbn in H; [discriminate|]. inversion H. left. reflexivity. Qed.

Lemma lastZ_cons : forall a l, lastZ (a :: l) = match l with [] => Some a | _ :: _ => lastZ l end.
Proof. intros a [|b l]; reflexivity. Qed.

Lemma lastZ_In : forall l x, lastZ l = Some x -> In x l.
Proof.
  induction l as [|a l IH]; intros x H.
  - discriminate.
  - rewrite lastZ_cons in H. destruct l as [|b l].
    + inversion H. left. reflexivity.
    + right. apply IH. exact H.
Qed.

Lemma lastZ_nonempty : forall l, l <> [] -> exists x, lastZ l = Some x.
Proof.
  induction l as [|a l IH]; intros H.
  - congruence.
  - rewrite lastZ_cons. destruct l as [|b l].
    + exists a. reflexivity.
    + apply IH. discriminate.
Qed.

Lemma lastZ_cons_some : forall a l x, lastZ l = Some x -> lastZ (a :: l) = Some x.
Proof. intros a l x H. rewrite lastZ_cons. destruct l; [discriminate|exact H]. Qed.

Lemma lastZ_snoc : forall l x, lastZ (l ++ [x]) = Some x.
Proof.
  induction l as [|a l IH]; intros x.
  - reflexivity.
  - cbn [app]. apply lastZ_cons_some. apply IH.
Qed.

(* ------------------------------------------------------------------ *)
(* C18.1  epochs_model = Some (runs x)                                 *)
(* ------------------------------------------------------------------ *)
Definition optl (cur : option Z) : list Z := match cur with Some s => [s] | None => [] end.
Definition isSome (cur : option Z) : bool := match cur with Some _ => true | None => false end.
Definition finl (fin : bool) (n : Z) : list Z := if fin then [n] else [].

(* the scan is the zip of (open start ++ rising edges) with (falling edges ++ closing end) *)
Lemma runs_aux_combine : forall l i cur,
  runs_aux i cur l =
  combine (optl cur ++ rising_aux (isSome cur) i l)
          (falling_aux (isSome cur) i l ++ finl (last l (isSome cur)) (i + zlen l)).
Proof.
  induction l as [|b t IH]; intros i cur.
  - rewrite zlen_nil, Z.add_0_r. destruct cur as [s|]; reflexivity.
  - rewrite zlen_cons, last_cons.
    replace (i + (1 + zlen t)) with (i + 1 + zlen t) by lia.
    destruct cur as [s|]; destruct b;
      cbn [runs_aux isSome rising_aux falling_aux negb andb optl app];
      rewrite IH; cbn [isSome optl app combine]; reflexivity.
Qed.

Lemma aux_len : forall (l : list bool) (prev : bool) (i : Z),
  ((if prev then 1 else 0) + length (rising_aux prev i l) =
   length (falling_aux prev i l) + (if last l prev then 1 else 0))%nat.
Proof.
  induction l as [|b t IH]; intros prev i.
  - destruct prev; reflexivity.
  - rewrite last_cons. specialize (IH b (i + 1)).
    destruct prev; destruct b; cbn [rising_aux falling_aux negb andb length] in *; lia.
Qed.

Lemma rising_bound : forall l prev i r, In r (rising_aux prev i l) -> i <= r < i + zlen l.
Proof.
  induction l as [|b t IH]; intros prev i r H.
  - destruct H.
  - rewrite zlen_cons. pose proof (zlen_nonneg _ t) as Hn. cbn [rising_aux] in H.
    destruct (negb prev && b).
    + destruct H as [H|H]; [lia|]. apply IH in H. lia.
    + apply IH in H. lia.
Qed.

Lemma falling_bound : forall l prev i r, In r (falling_aux prev i l) -> i <= r < i + zlen l.
Proof.
  induction l as [|b t IH]; intros prev i r H.
  - destruct H.
  - rewrite zlen_cons. pose proof (zlen_nonneg _ t) as Hn. cbn [falling_aux] in H.
    destruct (prev && negb b).
    + destruct H as [H|H]; [lia|]. apply IH in H. lia.
    + apply IH in H. lia.
Qed.

Lemma heads_true : forall l i r, hdZ (rising_aux true i l) = Some r ->
  exists f, hdZ (falling_aux true i l) = Some f /\ f < r.
Proof.
  induction l as [|b t IH]; intros i r H.
  - discriminate.
  - destruct b; cbn [rising_aux falling_aux negb andb] in *.
    + apply IH. exact H.
    + exists i. split; [reflexivity|]. apply hdZ_In, rising_bound in H. lia.
Qed.

Lemma heads_false : forall l i f, hdZ (falling_aux false i l) = Some f ->
  exists r, hdZ (rising_aux false i l) = Some r /\ r < f.
Proof.
  induction l as [|b t IH]; intros i f H.
  - discriminate.
  - destruct b; cbn [rising_aux falling_aux negb andb] in *.
    + exists i. split; [reflexivity|]. apply hdZ_In, falling_bound in H. lia.
    + apply IH. exact H.
Qed.

Lemma lasts : forall l prev i,
  (last l prev = true -> forall f, lastZ (falling_aux prev i l) = Some f ->
     exists r, lastZ (rising_aux prev i l) = Some r /\ f < r) /\
  (last l prev = false -> forall r, lastZ (rising_aux prev i l) = Some r ->
     exists f, lastZ (falling_aux prev i l) = Some f /\ r < f).
Proof.
  induction l as [|b t IH]; intros prev i.
  - split; intros _ z H; discriminate.
  - rewrite last_cons. destruct (IH b (i + 1)) as [IHt IHf].
    pose proof (aux_len t b (i + 1)) as Hlen.
    destruct prev; destruct b; cbn [rising_aux falling_aux negb andb] in *.
    + split; assumption.
    + (* falling edge at i *)
      split.
      * intros Hfin f Hf. rewrite lastZ_cons in Hf.
        destruct (falling_aux false (i + 1) t) as [|f1 Ft] eqn:EF.
        -- inversion Hf; subst f. rewrite Hfin in Hlen. cbn [length] in Hlen.
           destruct (lastZ_nonempty (rising_aux false (i + 1) t)) as [r Hr].
           { intros E. rewrite E in Hlen. cbn [length] in Hlen. lia. }
           exists r. split; [exact Hr|]. apply lastZ_In, rising_bound in Hr. lia.
        -- apply IHt; assumption.
      * intros Hfin r Hr. destruct (IHf Hfin r Hr) as [f [Hf Hlt]].
        exists f. split; [|exact Hlt]. apply lastZ_cons_some. exact Hf.
    + (* rising edge at i *)
      split.
      * intros Hfin f Hf. destruct (IHt Hfin f Hf) as [r [Hr Hlt]].
        exists r. split; [|exact Hlt]. apply lastZ_cons_some. exact Hr.
      * intros Hfin r Hr. rewrite lastZ_cons in Hr.
        destruct (rising_aux true (i + 1) t) as [|r1 Rt] eqn:ER.
        -- inversion Hr; subst r. rewrite Hfin in Hlen. cbn [length] in Hlen.
           destruct (lastZ_nonempty (falling_aux true (i + 1) t)) as [f Hf].
           { intros E. rewrite E in Hlen. cbn [length] in Hlen. lia. }
           exists f. split; [exact Hf|]. apply lastZ_In, falling_bound in Hf. lia.
        -- apply IHf; assumption.
    + split; assumption.
Qed.

(* the body of epochs_model, with the edge lists abstracted *)
Definition epochs_body (b0 : bool) (n : Z) (st en : list Z) : option (list (Z * Z)) :=
  match st, en with
  | [], [] => if b0 then Some [(0, n)] else Some []
  | _, _ =>
    let '(st, en) :=
      match st, en with
      | [_], [] => (st, en ++ [n])
      | [], [_] => (0 :: st, en)
      | _, _ => (st, en)
      end in
    match hdZ en, hdZ st with
    | Some e0, Some s0 =>
      let st := if e0 <? s0 then 0 :: st else st in
      match lastZ en, lastZ st with
      | Some e1, Some s1 =>
        let en := if e1 <? s1 then en ++ [n] else en in
        zip_same st en
      | _, _ => None
      end
    | _, _ => None
    end
  end.

Lemma epochs_model_body : forall b t,
  epochs_model (b :: t) = epochs_body b (zlen (b :: t)) (rising (b :: t)) (falling (b :: t)).
Proof. intros b t. destruct b; reflexivity. Qed.

Lemma zip_same_eq : forall a b, length a = length b -> zip_same a b = Some (combine a b).
Proof. intros a b H. unfold zip_same. rewrite H, Nat.eqb_refl. reflexivity. Qed.

Lemma epochs_core : forall (b fin : bool) n R F,
  length ((if b then [0] else []) ++ R) = length (F ++ finl fin n) ->
  (b = true -> forall r, hdZ R = Some r -> exists f, hdZ F = Some f /\ f < r) ->
  (b = false -> forall f, hdZ F = Some f -> exists r, hdZ R = Some r /\ r < f) ->
  (fin = true -> forall f, lastZ F = Some f -> exists r, lastZ R = Some r /\ f < r) ->
  (fin = false -> forall r, lastZ R = Some r -> exists f, lastZ F = Some f /\ r < f) ->
  (forall r, In r R -> 0 < r < n) ->
  (forall f, In f F -> 0 < f < n) ->
  epochs_body b n R F = Some (combine ((if b then [0] else []) ++ R) (F ++ finl fin n)).
Proof.
  intros b fin n R F Hlen Hht Hhf Hlt Hlf HbR HbF.
  destruct R as [|r1 R]; destruct F as [|f1 F].
  - (* no edges *)
    destruct b; destruct fin; cbn in Hlen; try discriminate; reflexivity.
  - (* only falling edges: exactly one, x starts true and ends false *)
    destruct b; destruct fin; cbn [app length finl] in Hlen;
      rewrite ?app_length in Hlen; cbn [length] in Hlen; try lia.
    destruct F as [|f2 F]; [|cbn [length] in Hlen; lia].
    assert (H0 : 0 < f1 < n) by (apply HbF; left; reflexivity).
    cbn [epochs_body hdZ lastZ app finl].
    destruct (f1 <? 0) eqn:E1; [lia|]. cbn [lastZ]. rewrite E1. reflexivity.
  - (* only rising edges: exactly one, x starts false and ends true *)
    destruct b; destruct fin; cbn [app length finl] in Hlen;
      rewrite ?app_length in Hlen; cbn [length] in Hlen; try lia.
    destruct R as [|r2 R]; [|cbn [length] in Hlen; lia].
    assert (H0 : 0 < r1 < n) by (apply HbR; left; reflexivity).
    cbn [epochs_body hdZ lastZ app finl].
    destruct (n <? r1) eqn:E1; [lia|]. cbn [lastZ]. rewrite E1. reflexivity.
  - (* both kinds of edges *)
    assert (Hbody : epochs_body b n (r1 :: R) (f1 :: F) =
      (let st := if f1 <? r1 then 0 :: r1 :: R else r1 :: R in
       match lastZ (f1 :: F), lastZ st with
       | Some e1, Some s1 =>
         let en := if e1 <? s1 then (f1 :: F) ++ [n] else f1 :: F in zip_same st en
       | _, _ => None
       end)).
    { destruct R; reflexivity. }
    rewrite Hbody. clear Hbody. cbv zeta.
    assert (Hst : (if f1 <? r1 then 0 :: r1 :: R else r1 :: R) = (if b then [0] else []) ++ r1 :: R).
    { destruct b.
      - destruct (Hht eq_refl r1 eq_refl) as [f [Hf Hlt']]. inversion Hf; subst f.
        destruct (f1 <? r1) eqn:E; [reflexivity|lia].
      - destruct (Hhf eq_refl f1 eq_refl) as [r [Hr Hlt']]. inversion Hr; subst r.
        destruct (f1 <? r1) eqn:E; [lia|reflexivity]. }
    rewrite Hst. clear Hst.
    destruct (lastZ_nonempty (f1 :: F)) as [e1 He1]; [discriminate|].
    destruct (lastZ_nonempty (r1 :: R)) as [s1 Hs1]; [discriminate|].
    assert (Hs1' : lastZ ((if b then [0] else []) ++ r1 :: R) = Some s1).
    { destruct b; [apply lastZ_cons_some|]; exact Hs1. }
    rewrite He1, Hs1'.
    assert (Hen : (if e1 <? s1 then (f1 :: F) ++ [n] else f1 :: F) = (f1 :: F) ++ finl fin n).
    { destruct fin.
      - destruct (Hlt eq_refl e1 He1) as [r [Hr Hlt']]. rewrite Hs1 in Hr. inversion Hr; subst r.
        destruct (e1 <? s1) eqn:E; [reflexivity|lia].
      - destruct (Hlf eq_refl s1 Hs1) as [f [Hf Hlt']]. rewrite He1 in Hf. inversion Hf; subst f.
        destruct (e1 <? s1) eqn:E; [lia|]. cbn [finl]. rewrite app_nil_r. reflexivity. }
    rewrite Hen. apply zip_same_eq. exact Hlen.
Qed.

Lemma epochs_are_runs : forall x, epochs_model x = Some (runs x).
Proof.
  intros [|b t].
  - reflexivity.
  - rewrite epochs_model_body.
    assert (Hruns : runs (b :: t) =
      combine ((if b then [0] else []) ++ rising (b :: t))
              (falling (b :: t) ++ finl (last t b) (zlen (b :: t)))).
    { unfold runs. cbn [rising falling]. rewrite zlen_cons.
      destruct b; cbn [runs_aux]; rewrite runs_aux_combine; reflexivity. }
    rewrite Hruns. cbn [rising falling].
    pose proof (aux_len t b 1) as Hlen.
    apply epochs_core.
    + rewrite !app_length. revert Hlen. destruct (last t b); destruct b; cbn [length finl]; lia.
    + intros E; subst b. apply heads_true.
    + intros E; subst b. apply heads_false.
    + intros E. apply (lasts t b 1). exact E.
    + intros E. apply (lasts t b 1). exact E.
    + intros r H. apply rising_bound in H. rewrite zlen_cons. lia.
    + intros f H. apply falling_bound in H. rewrite zlen_cons. lia.
Qed.

(* ------------------------------------------------------------------ *)
(* C18.2  the scan is exactly the set of maximal runs                  *)
(* ------------------------------------------------------------------ *)
Lemma bit_app_mid : forall pre b t, bit (pre ++ b :: t) (zlen pre) = b.
Proof.
  intros pre b t. unfold bit. pose proof (zlen_nonneg _ pre) as Hn.
  destruct (zlen pre <? 0) eqn:E; [lia|].
  unfold zlen. rewrite Nat2Z.id. apply nth_middle.
Qed.

(* no maximal run ends at a position that holds true *)
Lemma mr_end_true : forall x s e, is_max_run x s e -> bit x e = true -> e < zlen x -> False.
Proof.
  intros x s e (_ & _ & _ & _ & [He|He]) Hb Hlt; [lia|congruence].
Qed.

(* no maximal run ends just after a position that holds false (or at 0) *)
Lemma mr_end_after_false : forall x s e, is_max_run x s e -> e = 0 \/ bit x (e - 1) = false -> False.
Proof.
  intros x s e (Hse & _ & Hall & _ & _) [H|H]; [lia|].
  rewrite (Hall (e - 1)) in H by lia. discriminate.
Qed.

(* the start of a maximal run is determined by its end *)
Lemma mr_start_unique : forall x s e s0, is_max_run x s e ->
  0 <= s0 < e -> (forall j, s0 <= j < e -> bit x j = true) -> (s0 = 0 \/ bit x (s0 - 1) = false) ->
  s = s0.
Proof.
  intros x s e s0 (Hse & _ & Hall & Hl & _) Hs0 Hall0 Hl0.
  destruct (Z.lt_trichotomy s s0) as [Hlt|[Heq|Hgt]]; [|exact Heq|].
  - destruct Hl0 as [Hl0|Hl0]; [lia|]. rewrite (Hall (s0 - 1)) in Hl0 by lia. discriminate.
  - destruct Hl as [Hl|Hl]; [lia|]. rewrite (Hall0 (s - 1)) in Hl by lia. discriminate.
Qed.

Definition scan_inv (x : list bool) (i : Z) (cur : option Z) : Prop :=
  match cur with
  | Some s0 => 0 <= s0 < i /\ (forall j, s0 <= j < i -> bit x j = true) /\
               (s0 = 0 \/ bit x (s0 - 1) = false)
  | None => i = 0 \/ bit x (i - 1) = false
  end.

Lemma runs_aux_max : forall l pre cur x, x = pre ++ l -> scan_inv x (zlen pre) cur ->
  forall s e, In (s, e) (runs_aux (zlen pre) cur l) <-> (is_max_run x s e /\ zlen pre <= e).
Proof.
  induction l as [|b t IH]; intros pre cur x Hx Hinv s e.
  - rewrite app_nil_r in Hx. subst x. destruct cur as [s0|]; cbn [runs_aux In].
    + destruct Hinv as (H0 & Hb & Hl). split.
      * intros [H|[]]. inversion H; subst s e. split; [|lia].
        unfold is_max_run. repeat split; try lia; auto.
      * intros [Hm Hle]. left.
        assert (He : e = zlen pre) by (destruct Hm as (_ & ? & _); lia). subst e.
        f_equal. symmetry. eapply mr_start_unique; eauto.
    + split; [intros []|]. intros [Hm Hle].
      assert (He : e = zlen pre) by (destruct Hm as (_ & ? & _); lia). subst e.
      eapply mr_end_after_false; eauto.
  - pose proof (zlen_nonneg _ pre) as Hi0. pose proof (zlen_nonneg _ t) as Ht0.
    assert (Hbit : bit x (zlen pre) = b) by (subst x; apply bit_app_mid).
    assert (Hlen : zlen x = zlen pre + 1 + zlen t).
    { subst x. rewrite zlen_app, zlen_cons. lia. }
    assert (Hx' : x = (pre ++ [b]) ++ t).
    { subst x. rewrite <- app_assoc. reflexivity. }
    assert (Hi' : zlen (pre ++ [b]) = zlen pre + 1).
    { rewrite zlen_app, zlen_cons, zlen_nil. lia. }
    remember (zlen pre) as i eqn:Ei.
    (* no maximal run of x ends at i when x[i] is true *)
    assert (Hexcl_true : b = true -> forall s' , is_max_run x s' i -> False).
    { intros Eb s' Hm. eapply mr_end_true; [exact Hm| |]; [congruence|lia]. }
    destruct b; destruct cur as [s0|]; cbn [runs_aux].
    + (* true, run open *)
      destruct Hinv as (H0 & Hb & Hl).
      specialize (IH (pre ++ [true]) (Some s0) x Hx'). rewrite Hi' in IH.
      rewrite IH.
      * split; intros [Hm Hle]; (split; [exact Hm|]); [lia|].
        destruct (Z.eq_dec e i) as [E|E]; [|lia]. subst e.
        exfalso. eapply Hexcl_true; eauto.
      * cbn [scan_inv]. split; [lia|]. split; [|exact Hl].
        intros j Hj. destruct (Z.eq_dec j i) as [E|E]; [subst j; exact Hbit|apply Hb; lia].
    + (* true, no run open: a run starts at i *)
      specialize (IH (pre ++ [true]) (Some i) x Hx'). rewrite Hi' in IH.
      rewrite IH.
      * split; intros [Hm Hle]; (split; [exact Hm|]); [lia|].
        destruct (Z.eq_dec e i) as [E|E]; [|lia]. subst e.
        exfalso. eapply Hexcl_true; eauto.
      * cbn [scan_inv]. split; [lia|]. split; [|exact Hinv].
        intros j Hj. assert (j = i) by lia. subst j. exact Hbit.
    + (* false, run open: the run [s0, i) is closed *)
      destruct Hinv as (H0 & Hb & Hl).
      specialize (IH (pre ++ [false]) None x Hx'). rewrite Hi' in IH.
      cbn [In]. rewrite IH.
      * split.
        -- intros [H|[Hm Hle]].
           ++ inversion H; subst s e. split; [|lia].
              unfold is_max_run. repeat split; try lia; auto.
           ++ split; [exact Hm|lia].
        -- intros [Hm Hle]. destruct (Z.eq_dec e i) as [E|E].
           ++ left. subst e. f_equal. symmetry. eapply mr_start_unique; eauto.
           ++ right. split; [exact Hm|lia].
      * cbn [scan_inv]. right. replace (i + 1 - 1) with i by lia. exact Hbit.
    + (* false, no run open *)
      specialize (IH (pre ++ [false]) None x Hx'). rewrite Hi' in IH.
      rewrite IH.
      * split; intros [Hm Hle]; (split; [exact Hm|]); [lia|].
        destruct (Z.eq_dec e i) as [E|E]; [|lia]. subst e.
        exfalso. eapply mr_end_after_false; [exact Hm|]. exact Hinv.
      * cbn [scan_inv]. right. replace (i + 1 - 1) with i by lia. exact Hbit.
Qed.

Lemma runs_are_maximal : forall x s e, In (s, e) (runs x) <-> is_max_run x s e.
Proof.
  intros x s e.
  pose proof (runs_aux_max x [] None x eq_refl) as H.
  rewrite zlen_nil in H. unfold runs. rewrite H.
  - split; [intros [Hm _]; exact Hm|]. intros Hm. split; [exact Hm|].
    destruct Hm as (? & _). lia.
  - left. reflexivity.
Qed.

(* ------------------------------------------------------------------ *)
(* C18.3  the scan is sorted, disjoint, non-empty, non-touching        *)
(* ------------------------------------------------------------------ *)
Lemma runs_aux_separated : forall l i cur,
  match cur with Some s0 => s0 < i | None => True end ->
  separated 0 (runs_aux i cur l) /\
  match runs_aux i cur l with
  | [] => True
  | (s, _) :: _ => match cur with Some s0 => s = s0 | None => i <= s end
  end.
Proof.
  induction l as [|b t IH]; intros i cur Hcur.
  - destruct cur as [s0|]; cbn [runs_aux separated]; auto.
  - destruct b; destruct cur as [s0|]; cbn [runs_aux].
    + apply IH. lia.
    + destruct (IH (i + 1) (Some i)) as [Hsep Hhd]; [lia|]. split; [exact Hsep|].
      destruct (runs_aux (i + 1) (Some i) t) as [|[s e] r]; [exact I|lia].
    + destruct (IH (i + 1) None I) as [Hsep Hhd]. split; [|reflexivity].
      cbn [separated]. split; [exact Hcur|]. split; [|exact Hsep].
      destruct (runs_aux (i + 1) None t) as [|[s e] r]; [exact I|lia].
    + destruct (IH (i + 1) None I) as [Hsep Hhd]. split; [exact Hsep|].
      destruct (runs_aux (i + 1) None t) as [|[s e] r]; [exact I|lia].
Qed.

Lemma runs_separated : forall x, separated 0 (runs x).
Proof. intros x. unfold runs. apply (runs_aux_separated x 0 None I). Qed.

(* ------------------------------------------------------------------ *)
(* C18.4 / C18.5  interval merging                                     *)
(* ------------------------------------------------------------------ *)
Fixpoint sortedZ (l : list Z) : Prop :=
  match l with
  | [] => True
  | x :: t => (forall y, In y t -> x <= y) /\ sortedZ t
  end.

Lemma insertZ_In : forall x l y, In y (insertZ x l) <-> y = x \/ In y l.
Proof.
  induction l as [|a l IH]; intros y; cbn [insertZ].
  - cbn [In]. intuition.
  - destruct (x <=? a) eqn:E; cbn [In].
    + intuition.
    + rewrite IH. intuition.
Qed.

Lemma insertZ_sorted : forall x l, sortedZ l -> sortedZ (insertZ x l).
Proof.
  induction l as [|a l IH]; intros Hs; cbn [insertZ].
  - cbn [sortedZ]. split; [intros y []|exact I].
  - destruct Hs as [Ha Hs]. destruct (x <=? a) eqn:E.
    + cbn [sortedZ]. split; [|split; assumption].
      intros y [Hy|Hy]; [lia|]. apply Ha in Hy. lia.
    + cbn [sortedZ]. split; [|apply IH; exact Hs].
      intros y Hy. apply insertZ_In in Hy. destruct Hy as [Hy|Hy]; [lia|apply Ha; exact Hy].
Qed.

Lemma sortZ_sorted : forall l, sortedZ (sortZ l).
Proof.
  induction l as [|a l IH]; cbn [sortZ]; [exact I|]. apply insertZ_sorted. exact IH.
Qed.

Lemma insertZ_length : forall x l, length (insertZ x l) = S (length l).
Proof.
  induction l as [|a l IH]; cbn [insertZ]; [reflexivity|].
  destruct (x <=? a); cbn [length]; [reflexivity|]. rewrite IH. reflexivity.
Qed.

Lemma sortZ_length : forall l, length (sortZ l) = length l.
Proof.
  induction l as [|a l IH]; cbn [sortZ]; [reflexivity|].
  rewrite insertZ_length, IH. reflexivity.
Qed.

Lemma sortZ_id : forall l, sortedZ l -> sortZ l = l.
Proof.
  induction l as [|a l IH]; intros Hs; [reflexivity|].
  destruct Hs as [Ha Hs]. cbn [sortZ]. rewrite (IH Hs).
  destruct l as [|b l]; [reflexivity|]. cbn [insertZ].
  assert (a <= b) by (apply Ha; left; reflexivity).
  destruct (a <=? b) eqn:E; [reflexivity|lia].
Qed.

(* counting argument: column sorting does not change the covering depth *)
Fixpoint cnt (t : Z) (l : list Z) : Z :=
  match l with
  | [] => 0
  | x :: r => (if x <=? t then 1 else 0) + cnt t r
  end.

Lemma cnt_insertZ : forall t x l, cnt t (insertZ x l) = (if x <=? t then 1 else 0) + cnt t l.
Proof.
  induction l as [|a l IH]; cbn [insertZ]; [reflexivity|].
  destruct (x <=? a); cbn [cnt]; [reflexivity|]. rewrite IH. lia.
Qed.

Lemma cnt_sortZ : forall t l, cnt t (sortZ l) = cnt t l.
Proof.
  induction l as [|a l IH]; cbn [sortZ]; [reflexivity|].
  rewrite cnt_insertZ, IH. reflexivity.
Qed.

Definition depth (l : list (Z * Z)) (t : Z) : Z := cnt t (map fst l) - cnt t (map snd l).

Lemma covered_cons : forall s e l t, covered ((s, e) :: l) t <-> (s <= t < e \/ covered l t).
Proof.
  intros s e l t. unfold covered. split.
  - intros (s' & e' & [H|H] & Ht).
    + inversion H; subst s' e'. left. exact Ht.
    + right. exists s', e'. split; assumption.
  - intros [Ht|(s' & e' & H & Ht)].
    + exists s, e. split; [left; reflexivity|exact Ht].
    + exists s', e'. split; [right; exact H|exact Ht].
Qed.

Lemma covered_nil : forall t, covered [] t <-> False.
Proof. intros t. unfold covered. split; [intros (s & e & [] & _)|intros []]. Qed.

Lemma depth_covered : forall l t, (forall s e, In (s, e) l -> s <= e) ->
  0 <= depth l t /\ (0 < depth l t <-> covered l t).
Proof.
  induction l as [|[s e] l IH]; intros t Hle.
  - unfold depth. cbn. rewrite covered_nil. split; [lia|]. split; [lia|intros []].
  - assert (Hse : s <= e) by (apply Hle; left; reflexivity).
    destruct (IH t) as [IH0 IH1]; [intros s' e' H; apply Hle; right; exact H|].
    rewrite covered_cons, <- IH1. unfold depth in *. cbn [map fst snd cnt].
    destruct (s <=? t) eqn:E1; destruct (e <=? t) eqn:E2; lia.
Qed.

Lemma map_fst_combine : forall (A B : list Z), length A = length B -> map fst (combine A B) = A.
Proof.
  induction A as [|a A IH]; intros [|b B] H; cbn in *; try discriminate; [reflexivity|].
  f_equal. apply IH. lia.
Qed.

Lemma map_snd_combine : forall (A B : list Z), length A = length B -> map snd (combine A B) = B.
Proof.
  induction A as [|a A IH]; intros [|b B] H; cbn in *; try discriminate; [reflexivity|].
  f_equal. apply IH. lia.
Qed.

Lemma colsort_cols : forall l,
  map fst (colsort l) = sortZ (map fst l) /\ map snd (colsort l) = sortZ (map snd l).
Proof.
  intros l. unfold colsort.
  assert (H : length (sortZ (map fst l)) = length (sortZ (map snd l))).
  { rewrite !sortZ_length, !map_length. reflexivity. }
  split; [apply map_fst_combine|apply map_snd_combine]; exact H.
Qed.

Lemma depth_colsort : forall l t, depth (colsort l) t = depth l t.
Proof.
  intros l t. unfold depth. destruct (colsort_cols l) as [H1 H2].
  rewrite H1, H2, !cnt_sortZ. reflexivity.
Qed.

(* column sorting keeps every start strictly below the end it is paired with *)
Lemma shift_right : forall A B, Forall2 Z.lt A B -> forall a e, a < e ->
  (forall x, In x A -> a <= x) -> sortedZ A -> Forall2 Z.lt (a :: A) (insertZ e B).
Proof.
  induction 1 as [|a2 b2 A B Hab HAB IH]; intros a e Hae Ha Hs.
  - cbn [insertZ]. constructor; [exact Hae|constructor].
  - destruct Hs as [Ha2 Hs].
    assert (Haa2 : a <= a2) by (apply Ha; left; reflexivity).
    cbn [insertZ]. destruct (e <=? b2) eqn:E.
    + constructor; [exact Hae|]. constructor; assumption.
    + constructor; [lia|]. apply IH; [lia|exact Ha2|exact Hs].
Qed.

Lemma shift_left : forall A B, Forall2 Z.lt A B -> forall s b, s < b ->
  (forall y, In y B -> b <= y) -> sortedZ B -> Forall2 Z.lt (insertZ s A) (b :: B).
Proof.
  induction 1 as [|a2 b2 A B Hab HAB IH]; intros s b Hsb Hb Hs.
  - cbn [insertZ]. constructor; [exact Hsb|constructor].
  - destruct Hs as [Hb2 Hs].
    assert (Hbb2 : b <= b2) by (apply Hb; left; reflexivity).
    cbn [insertZ]. destruct (s <=? a2) eqn:E.
    + constructor; [exact Hsb|]. constructor; assumption.
    + constructor; [lia|]. apply IH; [lia|exact Hb2|exact Hs].
Qed.

Lemma insert_pairwise : forall A B, Forall2 Z.lt A B -> sortedZ A -> sortedZ B ->
  forall s e, s < e -> Forall2 Z.lt (insertZ s A) (insertZ e B).
Proof.
  induction 1 as [|a b A B Hab HAB IH]; intros HsA HsB s e Hse.
  - cbn [insertZ]. constructor; [exact Hse|constructor].
  - destruct HsA as [Ha HsA]. destruct HsB as [Hb HsB].
    cbn [insertZ]. destruct (s <=? a) eqn:E1; destruct (e <=? b) eqn:E2.
    + constructor; [exact Hse|]. constructor; assumption.
    + constructor; [lia|]. apply shift_right; [exact HAB|lia|exact Ha|exact HsA].
    + constructor; [lia|]. apply shift_left; [exact HAB|lia|exact Hb|exact HsB].
    + constructor; [exact Hab|]. apply IH; assumption.
Qed.

Lemma colsort_pairwise : forall l, nonempty_ivs l ->
  Forall2 Z.lt (sortZ (map fst l)) (sortZ (map snd l)).
Proof.
  induction l as [|[s e] l IH]; intros Hne.
  - constructor.
  - cbn [map fst snd sortZ]. apply insert_pairwise.
    + apply IH. intros s' e' H. apply Hne. right. exact H.
    + apply sortZ_sorted.
    + apply sortZ_sorted.
    + apply Hne. left. reflexivity.
Qed.

(* both columns sorted and each start strictly below its end *)
Fixpoint good (l : list (Z * Z)) : Prop :=
  match l with
  | [] => True
  | (s, e) :: t => s < e /\ (forall s' e', In (s', e') t -> s <= s' /\ e <= e') /\ good t
  end.

Lemma combine_good : forall A B, Forall2 Z.lt A B -> sortedZ A -> sortedZ B -> good (combine A B).
Proof.
  induction 1 as [|a b A B Hab HAB IH]; intros HsA HsB.
  - exact I.
  - destruct HsA as [Ha HsA]. destruct HsB as [Hb HsB]. cbn [combine good].
    split; [exact Hab|]. split; [|apply IH; assumption].
    intros s' e' H. split.
    + apply Ha. eapply in_combine_l; exact H.
    + apply Hb. eapply in_combine_r; exact H.
Qed.

Lemma colsort_good : forall l, nonempty_ivs l -> good (colsort l).
Proof.
  intros l Hne. unfold colsort.
  apply combine_good; [apply colsort_pairwise; exact Hne|apply sortZ_sorted|apply sortZ_sorted].
Qed.

Lemma good_In_lt : forall l s e, good l -> In (s, e) l -> s < e.
Proof.
  induction l as [|[s0 e0] l IH]; intros s e Hg H; [destruct H|].
  destruct Hg as (H0 & _ & Hg). destruct H as [H|H].
  - inversion H; subst. exact H0.
  - apply IH; assumption.
Qed.

Lemma sweep_cover : forall l lb ub, lb < ub ->
  (forall s e, In (s, e) l -> lb <= s /\ ub <= e) -> good l ->
  forall t, covered (sweep lb ub l) t <-> (lb <= t < ub \/ covered l t).
Proof.
  induction l as [|[s e] l IH]; intros lb ub Hlu Hbnd Hg t.
  - cbn [sweep]. rewrite covered_cons. reflexivity.
  - destruct Hg as (Hse & Hnext & Hg).
    destruct (Hbnd s e) as [Hls Hue]; [left; reflexivity|].
    cbn [sweep]. destruct (ub >=? s) eqn:E.
    + rewrite IH; [|lia| |exact Hg].
      * rewrite covered_cons. split; intros [H|H]; try lia; auto.
        destruct H as [H|H]; [lia|auto].
      * intros s' e' H. destruct (Hnext s' e' H). lia.
    + rewrite covered_cons, IH; [|exact Hse|exact Hnext|exact Hg].
      rewrite covered_cons. reflexivity.
Qed.

Lemma sweep_separated : forall l lb ub, lb < ub ->
  (forall s e, In (s, e) l -> lb <= s /\ ub <= e) -> good l ->
  separated 0 (sweep lb ub l) /\ exists ub' r, sweep lb ub l = (lb, ub') :: r.
Proof.
  induction l as [|[s e] l IH]; intros lb ub Hlu Hbnd Hg.
  - cbn [sweep separated]. split; [auto|]. exists ub, []. reflexivity.
  - destruct Hg as (Hse & Hnext & Hg).
    destruct (Hbnd s e) as [Hls Hue]; [left; reflexivity|].
    cbn [sweep]. destruct (ub >=? s) eqn:E.
    + apply IH; [lia| |exact Hg].
      intros s' e' H. destruct (Hnext s' e' H). lia.
    + destruct (IH s e Hse Hnext Hg) as [Hsep (ub' & r & Hr)].
      split; [|exists ub, (sweep s e l); reflexivity].
      cbn [separated]. split; [exact Hlu|]. split; [|exact Hsep].
      rewrite Hr. lia.
Qed.

Lemma smooth_cover : forall l, nonempty_ivs l ->
  forall t, covered (smooth_model l) t <-> covered l t.
Proof.
  intros l Hne t.
  pose proof (colsort_good l Hne) as Hg.
  assert (Hcs : covered (smooth_model l) t <-> covered (colsort l) t).
  { unfold smooth_model. destruct (colsort l) as [|[s e] r]; [reflexivity|].
    destruct Hg as (Hse & Hnext & Hg).
    rewrite sweep_cover; [|exact Hse|exact Hnext|exact Hg].
    rewrite covered_cons. reflexivity. }
  rewrite Hcs.
  destruct (depth_covered (colsort l) t) as [_ H1].
  { intros s e H. apply (good_In_lt _ _ _ Hg) in H. lia. }
  destruct (depth_covered l t) as [_ H2].
  { intros s e H. apply Hne in H. lia. }
  rewrite <- H1, <- H2, depth_colsort. reflexivity.
Qed.

Lemma smooth_separated : forall l, nonempty_ivs l -> separated 0 (smooth_model l).
Proof.
  intros l Hne. pose proof (colsort_good l Hne) as Hg.
  unfold smooth_model. destruct (colsort l) as [|[s e] r]; [exact I|].
  destruct Hg as (Hse & Hnext & Hg).
  apply sweep_separated; assumption.
Qed.

(* ------------------------------------------------------------------ *)
(* C18.6 / C18.7  debouncing                                           *)
(* ------------------------------------------------------------------ *)
(* separation with the gap stated against every later interval *)
Fixpoint ssep (g : Z) (l : list (Z * Z)) : Prop :=
  match l with
  | [] => True
  | (s, e) :: t => s < e /\ (forall s' e', In (s', e') t -> e + g < s') /\ ssep g t
  end.

Lemma separated_ssep : forall g l, 0 <= g -> separated g l -> ssep g l.
Proof.
  intros g l Hg. induction l as [|[s e] t IH]; intros Hsep; [exact I|].
  destruct Hsep as (Hse & Hnext & Hsep). specialize (IH Hsep).
  cbn [ssep]. split; [exact Hse|]. split; [|exact IH].
  destruct t as [|[s1 e1] t']; [intros s' e' []|].
  destruct IH as (Hse1 & Hnext1 & _).
  intros s' e' [H|H].
  - inversion H; subst. exact Hnext.
  - apply Hnext1 in H. lia.
Qed.

Lemma ssep_filter : forall g f l, ssep g l -> ssep g (filter f l).
Proof.
  intros g f. induction l as [|[s e] t IH]; intros Hs; [exact I|].
  destruct Hs as (Hse & Hnext & Hs). cbn [filter]. destruct (f (s, e)).
  - cbn [ssep]. split; [exact Hse|]. split; [|apply IH; exact Hs].
    intros s' e' H. apply filter_In in H. apply (Hnext s' e'). apply H.
  - apply IH. exact Hs.
Qed.

Lemma ssep_In_lt : forall g l s e, ssep g l -> In (s, e) l -> s < e.
Proof.
  induction l as [|[s0 e0] l IH]; intros s e Hs H; [destruct H|].
  destruct Hs as (H0 & _ & Hs). destruct H as [H|H].
  - inversion H; subst. exact H0.
  - apply IH; assumption.
Qed.

Lemma ssep_pad_sorted : forall d k, ssep 0 k ->
  sortedZ (map fst (map (fun p : Z * Z => (fst p, snd p + d)) k)) /\
  sortedZ (map snd (map (fun p : Z * Z => (fst p, snd p + d)) k)).
Proof.
  intros d. induction k as [|[s e] t IH]; intros Hs; [split; exact I|].
  destruct Hs as (Hse & Hnext & Hs). destruct (IH Hs) as [IH1 IH2].
  cbn [map fst snd sortedZ]. split; (split; [|assumption]).
  - intros y Hy. rewrite map_map in Hy. apply in_map_iff in Hy.
    destruct Hy as ([s' e'] & Hy & Hin). cbn [fst snd] in Hy. subst y.
    apply Hnext in Hin. lia.
  - intros y Hy. rewrite map_map in Hy. apply in_map_iff in Hy.
    destruct Hy as ([s' e'] & Hy & Hin). cbn [fst snd] in Hy. subst y.
    pose proof (ssep_In_lt _ _ _ _ Hs Hin) as Hlt. apply Hnext in Hin. lia.
Qed.

Lemma combine_fst_snd : forall l : list (Z * Z), combine (map fst l) (map snd l) = l.
Proof.
  induction l as [|[s e] l IH]; [reflexivity|]. cbn [map fst snd combine]. rewrite IH. reflexivity.
Qed.

Lemma colsort_id : forall l, sortedZ (map fst l) -> sortedZ (map snd l) -> colsort l = l.
Proof.
  intros l H1 H2. unfold colsort. rewrite (sortZ_id _ H1), (sortZ_id _ H2).
  apply combine_fst_snd.
Qed.

Lemma sweep_join : forall d t lb ub,
  map (fun p : Z * Z => (fst p, snd p - d))
      (sweep lb (ub + d) (map (fun p : Z * Z => (fst p, snd p + d)) t)) = join d lb ub t.
Proof.
  intros d. induction t as [|[s e] t IH]; intros lb ub.
  - cbn [map sweep join fst snd]. replace (ub + d - d) with ub by lia. reflexivity.
  - cbn [map sweep join fst snd].
    destruct (ub + d >=? s) eqn:E1; destruct (s - ub <=? d) eqn:E2; try lia.
    + apply IH.
    + cbn [map fst snd]. replace (ub + d - d) with ub by lia. rewrite IH. reflexivity.
Qed.

Lemma debounce_is_spec : forall d l, 0 <= d -> separated 0 l ->
  debounce_model d l = debounce_spec d l.
Proof.
  intros d l Hd Hsep.
  unfold debounce_model, debounce_spec, smooth_model.
  assert (Hk : ssep 0 (filter (fun p : Z * Z => snd p - fst p >=? d) l)).
  { apply ssep_filter. apply separated_ssep; [lia|exact Hsep]. }
  destruct (ssep_pad_sorted d _ Hk) as [H1 H2].
  rewrite (colsort_id _ H1 H2).
  destruct (filter (fun p : Z * Z => snd p - fst p >=? d) l) as [|[s e] t].
  - reflexivity.
  - cbn [map fst snd]. apply sweep_join.
Qed.

Lemma join_props : forall d t lb ub, 0 <= d -> lb < ub -> ub - lb >= d ->
  (forall s e, In (s, e) t -> ub < s) -> ssep 0 t ->
  (forall s e, In (s, e) t -> e - s >= d) ->
  separated d (join d lb ub t) /\
  (exists ub' r, join d lb ub t = (lb, ub') :: r) /\
  (forall s e, In (s, e) (join d lb ub t) -> e - s >= d) /\
  (forall t0, lb <= t0 < ub \/ covered t t0 -> covered (join d lb ub t) t0).
Proof.
  intros d. induction t as [|[s e] t IH]; intros lb ub Hd Hlu Hlen Hub Hs Hge.
  - cbn [join separated]. split; [auto|]. split; [exists ub, []; reflexivity|]. split.
    + intros s e [H|[]]. inversion H; subst. exact Hlen.
    + intros t0 [H|H]; [|apply covered_nil in H; destruct H].
      apply covered_cons. left. exact H.
  - destruct Hs as (Hse & Hnext & Hs).
    assert (Hus : ub < s) by (apply (Hub s e); left; reflexivity).
    assert (Hdse : e - s >= d) by (apply Hge; left; reflexivity).
    assert (Hge' : forall s' e', In (s', e') t -> e' - s' >= d).
    { intros s' e' H. apply Hge. right. exact H. }
    assert (Hub' : forall s' e', In (s', e') t -> e < s').
    { intros s' e' H. apply Hnext in H. lia. }
    cbn [join]. destruct (s - ub <=? d) eqn:E.
    + destruct (IH lb e Hd) as (P1 & P2 & P3 & P4); try assumption; try lia.
      split; [exact P1|]. split; [exact P2|]. split; [exact P3|].
      intros t0 [H|H].
      * apply P4. left. lia.
      * apply covered_cons in H. destruct H as [H|H]; apply P4; [left; lia|right; exact H].
    + destruct (IH s e Hd) as (P1 & (ub' & r & P2) & P3 & P4); try assumption.
      split; [|split; [|split]].
      * cbn [separated]. split; [exact Hlu|]. split; [|exact P1]. rewrite P2. lia.
      * exists ub, (join d s e t). reflexivity.
      * intros s' e' [H|H]; [inversion H; subst; exact Hlen|apply P3; exact H].
      * intros t0 H. apply covered_cons. destruct H as [H|H]; [left; exact H|].
        right. apply P4. apply covered_cons in H. exact H.
Qed.

Lemma debounce_result : forall d l, 0 <= d -> separated 0 l ->
  separated d (debounce_spec d l) /\
  (forall s e, In (s, e) (debounce_spec d l) -> e - s >= d) /\
  (forall s e t, In (s, e) l -> e - s >= d -> s <= t < e -> covered (debounce_spec d l) t).
Proof.
  intros d l Hd Hsep. unfold debounce_spec.
  assert (Hk : ssep 0 (filter (fun p : Z * Z => snd p - fst p >=? d) l)).
  { apply ssep_filter. apply separated_ssep; [lia|exact Hsep]. }
  assert (Hin : forall s e, In (s, e) (filter (fun p : Z * Z => snd p - fst p >=? d) l) <->
                            In (s, e) l /\ e - s >= d).
  { intros s e. rewrite filter_In. cbn [fst snd]. split; intros [H1 H2]; (split; [exact H1|lia]). }
  destruct (filter (fun p : Z * Z => snd p - fst p >=? d) l) as [|[s e] t].
  - split; [exact I|]. split; [intros s e []|].
    intros s e t0 H1 H2 _. exfalso. apply (proj2 (Hin s e)). split; assumption.
  - destruct Hk as (Hse & Hnext & Hk).
    destruct (join_props d t s e Hd Hse) as (P1 & _ & P3 & P4).
    + apply (Hin s e). left. reflexivity.
    + intros s' e' H. apply Hnext in H. lia.
    + exact Hk.
    + intros s' e' H. apply (Hin s' e'). right. exact H.
    + split; [exact P1|]. split; [exact P3|].
      intros s0 e0 t0 H1 H2 H3. apply P4.
      destruct (proj2 (Hin s0 e0) (conj H1 H2)) as [H|H].
      * inversion H; subst. left. exact H3.
      * right. exists s0, e0. split; assumption.
Qed.

(* ------------------------------------------------------------------ *)
(* C18.8  the unrepaired code loses the all-true signal                *)
(* ------------------------------------------------------------------ *)
Lemma epochs_unrepaired_refuted : exists x, epochs_model_unrepaired x <> Some (runs x).
Proof. exists [true]. vm_compute. discriminate. Qed.

(* non-vacuity of the hypotheses used above *)
Example nonempty_ivs_ex : nonempty_ivs [(4, 6); (0, 2); (1, 5)] /\ good (colsort [(4, 6); (0, 2); (1, 5)]).
Proof.
  assert (H : nonempty_ivs [(4, 6); (0, 2); (1, 5)]).
  { intros s e [H|[H|[H|[]]]]; inversion H; lia. }
  split; [exact H|apply colsort_good; exact H].
Qed.
Example separated_ex : 0 <= 2 /\ separated 0 [(0, 1); (3, 8); (10, 14)] /\ ssep 0 [(0, 1); (3, 8); (10, 14)].
Proof. split; [lia|]. split; [cbn; lia|]. apply separated_ssep; [lia|cbn; lia]. Qed.
