(* Specifications used by the extension theorems of C18 (Runs/ProofsX.v).  Definitions only.
   Nothing here changes Runs/Model.v or Runs/Spec.v. *)
From PV Require Export Runs.Spec.
From PV Require Export Common.PySlice.

(* position i is selected by the Python slice [a:b] of a sequence of length n
   (a negative bound wraps: it is read from the end, exactly as CPython adjusts it) *)
Definition in_slice (n a b i : Z) : bool := (py_lo n (Some a) <=? i) && (i <? py_hi n (Some b)).

(* what `x[s-pad:s] = 1` reaches, written out for 0 <= pad, an index 0 <= i and an edge 0 <= s <= n:
   the pad samples before s when they exist (pad <= s); otherwise the lower bound s - pad is
   negative and WRAPS to s - pad + n, so nothing is written unless pad > n *)
Definition before_edge (n pad s i : Z) : Prop :=
  if pad <=? s then s - pad <= i < s else s - pad + n <= i < s.

(* the reading one would expect: the lower bound clipped at 0 *)
Definition before_edge_clipped (pad s i : Z) : Prop := Z.max 0 (s - pad) <= i < s.

(* weakly well-formed intervals s <= e (empty ones allowed) *)
Definition weak_ivs (l : list (Z * Z)) : Prop := forall s e, In (s, e) l -> s <= e.

(* sorted list of possibly empty intervals, each ending strictly before the next one starts *)
Fixpoint wsep (l : list (Z * Z)) : Prop :=
  match l with
  | [] => True
  | (s, e) :: t =>
    s <= e /\ match t with [] => True | (s', _) :: _ => e < s' end /\ wsep t
  end.
