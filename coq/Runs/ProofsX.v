(* Extension proofs for C18: edge_rising / edge_falling against the run structure, epochs with
   pad >= 0 (pad_apply), the read-only variant, and algebraic laws of smooth_epochs /
   debounce_epochs.  Stdlib only, no axioms.  Nothing in Model.v / Spec.v / Proofs.v is changed. *)
From Coq Require Import ZArith List Bool Lia ZifyBool.
From PV Require Import Runs.Model Runs.Spec Runs.Proofs Runs.SpecX.
Import ListNotations.
Open Scope Z_scope.

(* ------------------------------------------------------------------ *)
(* generic helpers                                                     *)
(* ------------------------------------------------------------------ *)
Lemma filter_all {A} (f : A -> bool) : forall l, (forall x, In x l -> f x = true) -> filter f l = l.
Proof.
  induction l as [|a l IH]; intros H; [reflexivity|]. cbn [filter].
  rewrite (H a) by (left; reflexivity). f_equal. apply IH. intros x Hx. apply H. right. exact Hx.
Qed.

Lemma nth_firstn_lt {A} (d : A) : forall (n i : nat) (l : list A), (i < n)%nat ->
  nth i (firstn n l) d = nth i l d.
Proof.
  induction n as [|n IH]; intros i l H; [lia|].
  destruct l as [|a l]; [destruct i; reflexivity|].
  destruct i as [|i]; cbn [firstn nth]; [reflexivity|]. apply IH. lia.
Qed.

Lemma nth_skipn_add {A} (d : A) : forall (n i : nat) (l : list A),
  nth i (skipn n l) d = nth (n + i) l d.
Proof.
  induction n as [|n IH]; intros i l; [reflexivity|].
  destruct l as [|a l]; [cbn [skipn Nat.add]; destruct i; reflexivity|].
  cbn [skipn Nat.add nth]. apply IH.
Qed.

Lemma nth_repeat_lt {A} (v d : A) : forall (k i : nat), (i < k)%nat -> nth i (repeat v k) d = v.
Proof.
  induction k as [|k IH]; intros i H; [lia|].
  destruct i as [|i]; cbn [repeat nth]; [reflexivity|]. apply IH. lia.
Qed.

(* ------------------------------------------------------------------ *)
(* X.1  edge_rising / edge_falling are the run boundaries              *)
(* ------------------------------------------------------------------ *)
Lemma runs_cons_combine : forall (b : bool) (t : list bool),
  runs (b :: t) = combine ((if b then [0] else []) ++ rising (b :: t))
                          (falling (b :: t) ++ finl (last t b) (zlen (b :: t))).
Proof.
  intros b t. unfold runs. cbn [rising falling]. rewrite zlen_cons.
  destruct b; cbn [runs_aux]; rewrite runs_aux_combine; reflexivity.
Qed.

Lemma runs_cols_len : forall (b : bool) (t : list bool),
  length ((if b then [0] else []) ++ rising (b :: t)) =
  length (falling (b :: t) ++ finl (last t b) (zlen (b :: t))).
Proof.
  intros b t. cbn [rising falling]. pose proof (aux_len t b 1) as Hlen.
  rewrite !app_length. revert Hlen. destruct (last t b); destruct b; cbn [length finl]; lia.
Qed.

(* the starts of the runs are: 0 if the array begins with True, then the rising edges *)
Lemma runs_starts : forall x, map fst (runs x) = (if hd false x then [0] else []) ++ rising x.
Proof.
  intros [|b t]; [reflexivity|]. rewrite runs_cons_combine.
  rewrite map_fst_combine by apply runs_cols_len. reflexivity.
Qed.

(* the ends of the runs are: the falling edges, then the length if the array ends with True *)
Lemma runs_ends : forall x,
  map snd (runs x) = falling x ++ (if last x false then [zlen x] else []).
Proof.
  intros [|b t]; [reflexivity|]. rewrite runs_cons_combine.
  rewrite map_snd_combine by apply runs_cols_len. rewrite last_cons. reflexivity.
Qed.

Lemma rising_range : forall x s, In s (rising x) -> 1 <= s < zlen x.
Proof.
  intros [|b t] s H; [destruct H|]. cbn [rising] in H. apply rising_bound in H.
  rewrite zlen_cons. lia.
Qed.

Lemma falling_range : forall x e, In e (falling x) -> 1 <= e < zlen x.
Proof.
  intros [|b t] e H; [destruct H|]. cbn [falling] in H. apply falling_bound in H.
  rewrite zlen_cons. lia.
Qed.

Lemma edges_are_run_boundaries : forall x,
  rising x = filter (fun s => negb (s =? 0)) (map fst (runs x)) /\
  falling x = filter (fun e => e <? zlen x) (map snd (runs x)).
Proof.
  intros x. rewrite runs_starts, runs_ends, !filter_app. split.
  - rewrite (filter_all _ (rising x)).
    + destruct (hd false x); reflexivity.
    + intros s H. apply rising_range in H. lia.
  - rewrite (filter_all _ (falling x)).
    + destruct (last x false); cbn [filter]; [|rewrite app_nil_r; reflexivity].
      rewrite Z.ltb_irrefl. rewrite app_nil_r. reflexivity.
    + intros e H. apply falling_range in H. lia.
Qed.

(* every rising edge starts a maximal run, every falling edge ends one *)
Lemma edges_in_runs : forall x,
  (forall s, In s (rising x) <-> (s <> 0 /\ exists e, is_max_run x s e)) /\
  (forall e, In e (falling x) <-> (e <> zlen x /\ exists s, is_max_run x s e)).
Proof.
  intros x. destruct (edges_are_run_boundaries x) as [Hr Hf]. split.
  - intros s. rewrite Hr, filter_In, in_map_iff. split.
    + intros [([s' e] & E & Hin) Hs]. cbn [fst] in E. subst s'. split; [lia|].
      exists e. apply runs_are_maximal. exact Hin.
    + intros [Hs (e & Hm)]. split; [|lia]. exists (s, e). split; [reflexivity|].
      apply runs_are_maximal. exact Hm.
  - intros e. rewrite Hf, filter_In, in_map_iff. split.
    + intros [([s e'] & E & Hin) He]. cbn [snd] in E. subst e'. split; [lia|].
      exists s. apply runs_are_maximal. exact Hin.
    + intros [He (s & Hm)]. split.
      * exists (s, e). split; [reflexivity|]. apply runs_are_maximal. exact Hm.
      * destruct Hm as (_ & Hle & _). lia.
Qed.

(* ------------------------------------------------------------------ *)
(* X.2  epochs with pad: the slice assignments                         *)
(* ------------------------------------------------------------------ *)
Lemma adj_bound_range (n b : Z) : 0 <= n -> 0 <= adj_bound n b <= n.
Proof. intros Hn. unfold adj_bound. destruct (b <? 0) eqn:E; lia. Qed.

Lemma zlen_set_const (a b : Z) (v : bool) (l : list bool) :
  zlen (py_set_const (Some a) (Some b) v l) = zlen l.
Proof.
  unfold py_set_const, py_lo, py_hi. cbv zeta.
  pose proof (zlen_nonneg _ l) as Hn.
  pose proof (adj_bound_range (zlen l) a Hn) as Ha. pose proof (adj_bound_range (zlen l) b Hn) as Hb.
  destruct (adj_bound (zlen l) b <=? adj_bound (zlen l) a) eqn:E; [reflexivity|].
  unfold zlen in *. rewrite !app_length, firstn_length, repeat_length, skipn_length. lia.
Qed.

Lemma bit_set_const (a b : Z) (l : list bool) (i : Z) :
  bit (py_set_const (Some a) (Some b) true l) i = bit l i || in_slice (zlen l) a b i.
Proof.
  unfold py_set_const, in_slice, py_lo, py_hi. cbv zeta.
  pose proof (zlen_nonneg _ l) as Hn.
  pose proof (adj_bound_range (zlen l) a Hn) as Ha. pose proof (adj_bound_range (zlen l) b Hn) as Hb.
  set (lo := adj_bound (zlen l) a) in *. set (hi := adj_bound (zlen l) b) in *.
  destruct (hi <=? lo) eqn:E.
  { destruct ((lo <=? i) && (i <? hi)) eqn:E2; [lia|]. rewrite orb_false_r. reflexivity. }
  unfold bit. destruct (i <? 0) eqn:E0.
  { destruct ((lo <=? i) && (i <? hi)) eqn:E2; [lia|]. reflexivity. }
  assert (Hlen1 : length (firstn (Z.to_nat lo) l) = Z.to_nat lo).
  { rewrite firstn_length. unfold zlen in *. lia. }
  destruct (i <? lo) eqn:E1.
  { rewrite app_nth1 by lia. rewrite nth_firstn_lt by lia.
    destruct ((lo <=? i) && (i <? hi)) eqn:E2; [lia|]. rewrite orb_false_r. reflexivity. }
  rewrite app_nth2 by lia. rewrite Hlen1.
  destruct (i <? hi) eqn:E2.
  { rewrite app_nth1 by (rewrite repeat_length; lia). rewrite nth_repeat_lt by lia.
    destruct ((lo <=? i) && true) eqn:E3; [|lia]. rewrite orb_true_r. reflexivity. }
  rewrite app_nth2 by (rewrite repeat_length; lia). rewrite repeat_length.
  rewrite nth_skipn_add.
  replace (Z.to_nat hi + (Z.to_nat i - Z.to_nat lo - Z.to_nat (hi - lo)))%nat with (Z.to_nat i) by lia.
  destruct ((lo <=? i) && false) eqn:E3; [lia|]. rewrite orb_false_r. reflexivity.
Qed.

Lemma fold_set_bit (f g : Z -> Z) : forall (L : list Z) (x : list bool),
  zlen (fold_left (fun acc s => py_set_const (Some (f s)) (Some (g s)) true acc) L x) = zlen x /\
  forall i, bit (fold_left (fun acc s => py_set_const (Some (f s)) (Some (g s)) true acc) L x) i
            = bit x i || existsb (fun s => in_slice (zlen x) (f s) (g s) i) L.
Proof.
  induction L as [|s L IH]; intros x.
  - cbn [fold_left existsb]. split; [reflexivity|]. intros i. rewrite orb_false_r. reflexivity.
  - cbn [fold_left existsb].
    destruct (IH (py_set_const (Some (f s)) (Some (g s)) true x)) as [IH1 IH2].
    rewrite zlen_set_const in IH1, IH2. split; [exact IH1|].
    intros i. rewrite IH2, bit_set_const, orb_assoc. reflexivity.
Qed.

(* pad_apply keeps the length and sets exactly the positions selected by one of the slices
   [s-pad : s] (s a rising edge of the ORIGINAL x) or [e : e+pad] (e a falling edge), for EVERY
   integer pad and every position *)
Lemma pad_apply_bit : forall pad x,
  zlen (pad_apply pad x) = zlen x /\
  forall i, bit (pad_apply pad x) i =
    bit x i || existsb (fun s => in_slice (zlen x) (s - pad) s i) (rising x)
            || existsb (fun e => in_slice (zlen x) e (e + pad) i) (falling x).
Proof.
  intros pad x. unfold pad_apply. cbv zeta.
  destruct (fold_set_bit (fun s => s - pad) (fun s => s) (rising x) x) as [A1 A2]. cbv beta in A1, A2.
  set (x1 := fold_left (fun acc s => py_set_const (Some (s - pad)) (Some s) true acc) (rising x) x) in *.
  destruct (fold_set_bit (fun e => e) (fun e => e + pad) (falling x) x1) as [B1 B2]. cbv beta in B1, B2.
  split; [rewrite B1; exact A1|]. intros i. rewrite B2, A2, A1. reflexivity.
Qed.

Lemma in_slice_before (n pad s i : Z) : 0 <= pad -> 0 <= i -> 0 <= s <= n ->
  (in_slice n (s - pad) s i = true <-> before_edge n pad s i).
Proof.
  intros Hp Hi Hs. unfold in_slice, before_edge, py_lo, py_hi, adj_bound.
  destruct (s - pad <? 0) eqn:E1; destruct (s <? 0) eqn:E2; destruct (pad <=? s) eqn:E3; lia.
Qed.

Lemma in_slice_after (n pad e i : Z) : 0 <= pad -> 0 <= e -> i < n ->
  (in_slice n e (e + pad) i = true <-> e <= i < e + pad).
Proof.
  intros Hp He Hi. unfold in_slice, py_lo, py_hi, adj_bound.
  destruct (e <? 0) eqn:E1; destruct (e + pad <? 0) eqn:E2; lia.
Qed.

Example in_slice_ex : 0 <= 3 /\ 0 <= 0 /\ 0 <= 2 <= 3 /\ before_edge 5 1 2 1 /\ before_edge 3 4 2 1.
Proof. unfold before_edge. cbn. lia. Qed.

(* the characterisation for 0 <= pad, with the wrap-around written out *)
Lemma pad_apply_char : forall pad x i, 0 <= pad -> 0 <= i < zlen x ->
  (bit (pad_apply pad x) i = true <->
   bit x i = true \/
   (exists s, In s (rising x) /\ before_edge (zlen x) pad s i) \/
   (exists e, In e (falling x) /\ e <= i < e + pad)).
Proof.
  intros pad x i Hp Hi. destruct (pad_apply_bit pad x) as [_ H]. rewrite H.
  rewrite !orb_true_iff, !existsb_exists. split.
  - intros [[Hb|(s & Hin & Hs)]|(e & Hin & He)].
    + left. exact Hb.
    + right. left. exists s. split; [exact Hin|]. pose proof (rising_range x s Hin).
      apply in_slice_before; [lia|lia|lia|exact Hs].
    + right. right. exists e. split; [exact Hin|]. pose proof (falling_range x e Hin).
      apply in_slice_after in He; lia.
  - intros [Hb|[(s & Hin & Hs)|(e & Hin & He)]].
    + left. left. exact Hb.
    + left. right. exists s. split; [exact Hin|]. pose proof (rising_range x s Hin).
      apply in_slice_before; [lia|lia|lia|exact Hs].
    + right. exists e. split; [exact Hin|]. pose proof (falling_range x e Hin).
      apply in_slice_after; lia.
Qed.

Example pad_apply_char_ex : 0 <= 2 /\ 0 <= 1 < zlen [false; false; true; true; false; false; false] /\
  pad_apply 2 [false; false; true; true; false; false; false] = [true; true; true; true; true; true; false].
Proof. vm_compute. repeat split; congruence. Qed.

(* when no rising edge is closer than pad to the start, the slices are the clipped ones *)
Lemma pad_apply_char_partial : forall pad x i, 0 <= pad -> 0 <= i < zlen x ->
  (forall s, In s (rising x) -> pad <= s) ->
  (bit (pad_apply pad x) i = true <->
   bit x i = true \/
   (exists s, In s (rising x) /\ before_edge_clipped pad s i) \/
   (exists e, In e (falling x) /\ e <= i < e + pad)).
Proof.
  intros pad x i Hp Hi Hfar. rewrite (pad_apply_char pad x i Hp Hi).
  assert (Heq : forall s, In s (rising x) ->
                (before_edge (zlen x) pad s i <-> before_edge_clipped pad s i)).
  { intros s Hin. specialize (Hfar s Hin). unfold before_edge, before_edge_clipped.
    destruct (pad <=? s) eqn:E; lia. }
  split; (intros [Hb|[(s & Hin & Hs)|He]]; [left; exact Hb| |right; right; exact He]);
    right; left; exists s; (split; [exact Hin|]); apply (Heq s Hin); exact Hs.
Qed.

Example pad_apply_char_partial_ex : 0 <= 2 /\
  (forall s, In s (rising [false; false; true; true; false]) -> 2 <= s).
Proof. split; [lia|]. intros s [H|[]]. lia. Qed.

(* ... and in general they are NOT: a rising edge closer than pad to the start gets no padding at
   all (x = [0,0,1], pad = 3: the slice x[-1:2] is empty).  Replayed on the code:
   util.epochs([0,0,1,1,0,0,0], 3) -> [[2, 7]], whereas pad = 2 gives [[0, 6]]. *)
Lemma pad_clipped_refuted : exists pad x s i, 0 <= pad /\ 0 <= i < zlen x /\
  In s (rising x) /\ before_edge_clipped pad s i /\ bit (pad_apply pad x) i = false.
Proof.
  exists 3, [false; false; true], 2, 0. unfold before_edge_clipped. cbn.
  split; [lia|]. split; [lia|]. split; [left; reflexivity|]. split; [lia|reflexivity].
Qed.

Lemma fold_left_id {A B} (F : A -> B -> A) : forall (L : list B) (x : A),
  (forall acc s, F acc s = acc) -> fold_left F L x = x.
Proof. induction L as [|s L IH]; intros x H; [reflexivity|]. cbn [fold_left]. rewrite H. apply IH. exact H. Qed.

Lemma set_const_empty {A} (a : Z) (v : A) (l : list A) : py_set_const (Some a) (Some a) v l = l.
Proof. unfold py_set_const. cbv zeta. unfold py_lo, py_hi. rewrite Z.leb_refl. reflexivity. Qed.

Lemma pad_apply_0 : forall x, pad_apply 0 x = x.
Proof.
  intros x. unfold pad_apply. cbv zeta.
  rewrite (fold_left_id (fun acc e => py_set_const (Some e) (Some (e + 0)) true acc)).
  - apply fold_left_id. intros acc s. rewrite Z.sub_0_r. apply set_const_empty.
  - intros acc e. rewrite Z.add_0_r. apply set_const_empty.
Qed.

(* epochs(x, pad) returns the maximal runs of the padded array (for every integer pad) *)
Lemma epochs_pad : forall pad x, epochs_pad_model pad x = Some (runs (pad_apply pad x)).
Proof. intros pad x. unfold epochs_pad_model. apply epochs_are_runs. Qed.

Lemma epochs_pad_0 : forall x, epochs_pad_model 0 x = Some (runs x).
Proof. intros x. rewrite epochs_pad, pad_apply_0. reflexivity. Qed.

(* a read-only array with pad <> 0: whenever the call returns, it returns the runs of x *)
Lemma epochs_ro_runs : forall x r, epochs_ro_model x = Some r -> r = runs x.
Proof.
  intros x r H. unfold epochs_ro_model in H.
  destruct (rising x); destruct (falling x); try discriminate H.
  rewrite epochs_are_runs in H. inversion H. reflexivity.
Qed.

Example epochs_ro_runs_ex : epochs_ro_model [true; true] = Some [(0, 2)].
Proof. reflexivity. Qed.

(* ------------------------------------------------------------------ *)
(* X.3  smooth_epochs is idempotent                                    *)
(* ------------------------------------------------------------------ *)
Lemma wsep_all : forall t s e, wsep ((s, e) :: t) ->
  forall s' e', In (s', e') t -> e < s' /\ s' <= e'.
Proof.
  induction t as [|[s1 e1] t IH]; intros s e H s' e' Hin; [destruct Hin|].
  destruct H as (H1 & H2 & H3). destruct Hin as [Hin|Hin].
  - inversion Hin; subst. destruct H3 as (H4 & _). lia.
  - destruct (IH s1 e1 H3 s' e' Hin). destruct H3 as (H4 & _). lia.
Qed.

Lemma wsep_sorted : forall l, wsep l -> sortedZ (map fst l) /\ sortedZ (map snd l).
Proof.
  induction l as [|[s e] t IH]; intros H; [split; exact I|].
  pose proof (wsep_all t s e H) as Hall. destruct H as (H1 & H2 & H3).
  destruct (IH H3) as [IH1 IH2]. cbn [map fst snd sortedZ]. split; (split; [|assumption]).
  - intros y Hy. apply in_map_iff in Hy. destruct Hy as ([s' e'] & Hy & Hin). cbn [fst] in Hy. subst y.
    destruct (Hall s' e' Hin). lia.
  - intros y Hy. apply in_map_iff in Hy. destruct Hy as ([s' e'] & Hy & Hin). cbn [snd] in Hy. subst y.
    destruct (Hall s' e' Hin). lia.
Qed.

Lemma sweep_fix : forall t lb ub, wsep ((lb, ub) :: t) -> sweep lb ub t = (lb, ub) :: t.
Proof.
  induction t as [|[s e] t IH]; intros lb ub H; [reflexivity|].
  destruct H as (H1 & H2 & H3). cbn [sweep].
  destruct (ub >=? s) eqn:E; [lia|]. f_equal. apply IH. exact H3.
Qed.

(* sorted, non-touching lists are fixed points of interval merging *)
Lemma smooth_fix_w : forall l, wsep l -> smooth_model l = l.
Proof.
  intros l H. destruct (wsep_sorted l H) as [H1 H2]. unfold smooth_model.
  rewrite (colsort_id l H1 H2). destruct l as [|[s e] t]; [reflexivity|]. apply sweep_fix. exact H.
Qed.

Lemma separated_wsep : forall l, separated 0 l -> wsep l.
Proof.
  induction l as [|[s e] t IH]; intros H; [exact I|].
  destruct H as (H1 & H2 & H3). cbn [wsep]. split; [lia|]. split; [|apply IH; exact H3].
  destruct t as [|[s1 e1] t]; [exact I|lia].
Qed.

Lemma smooth_fix : forall l, separated 0 l -> smooth_model l = l.
Proof. intros l H. apply smooth_fix_w, separated_wsep. exact H. Qed.

Example smooth_fix_ex : separated 0 [(0, 1); (3, 8); (10, 14)] /\
  smooth_model [(0, 1); (3, 8); (10, 14)] = [(0, 1); (3, 8); (10, 14)].
Proof. split; [cbn; lia|reflexivity]. Qed.

(* column sorting keeps every start at or below the end it is paired with (s <= e version of
   colsort_pairwise) *)
Lemma shift_right_le : forall A B, Forall2 Z.le A B -> forall a e, a <= e ->
  (forall x, In x A -> a <= x) -> sortedZ A -> Forall2 Z.le (a :: A) (insertZ e B).
Proof.
  induction 1 as [|a2 b2 A B Hab HAB IH]; intros a e Hae Ha Hs.
  - cbn [insertZ]. constructor; [exact Hae|constructor].
  - destruct Hs as [Ha2 Hs].
    assert (Haa2 : a <= a2) by (apply Ha; left; reflexivity).
    cbn [insertZ]. destruct (e <=? b2) eqn:E.
    + constructor; [exact Hae|]. constructor; assumption.
    + constructor; [lia|]. apply IH; [lia|exact Ha2|exact Hs].
Qed.

Lemma shift_left_le : forall A B, Forall2 Z.le A B -> forall s b, s <= b ->
  (forall y, In y B -> b <= y) -> sortedZ B -> Forall2 Z.le (insertZ s A) (b :: B).
Proof.
  induction 1 as [|a2 b2 A B Hab HAB IH]; intros s b Hsb Hb Hs.
  - cbn [insertZ]. constructor; [exact Hsb|constructor].
  - destruct Hs as [Hb2 Hs].
    assert (Hbb2 : b <= b2) by (apply Hb; left; reflexivity).
    cbn [insertZ]. destruct (s <=? a2) eqn:E.
    + constructor; [exact Hsb|]. constructor; assumption.
    + constructor; [lia|]. apply IH; [lia|exact Hb2|exact Hs].
Qed.

Lemma insert_pairwise_le : forall A B, Forall2 Z.le A B -> sortedZ A -> sortedZ B ->
  forall s e, s <= e -> Forall2 Z.le (insertZ s A) (insertZ e B).
Proof.
  induction 1 as [|a b A B Hab HAB IH]; intros HsA HsB s e Hse.
  - cbn [insertZ]. constructor; [exact Hse|constructor].
  - destruct HsA as [Ha HsA]. destruct HsB as [Hb HsB].
    cbn [insertZ]. destruct (s <=? a) eqn:E1; destruct (e <=? b) eqn:E2.
    + constructor; [exact Hse|]. constructor; assumption.
    + constructor; [lia|]. apply shift_right_le; [exact HAB|lia|exact Ha|exact HsA].
    + constructor; [lia|]. apply shift_left_le; [exact HAB|lia|exact Hb|exact HsB].
    + constructor; [exact Hab|]. apply IH; assumption.
Qed.

Lemma colsort_pairwise_le : forall l, weak_ivs l ->
  Forall2 Z.le (sortZ (map fst l)) (sortZ (map snd l)).
Proof.
  induction l as [|[s e] l IH]; intros Hw.
  - constructor.
  - cbn [map fst snd sortZ]. apply insert_pairwise_le.
    + apply IH. intros s' e' H. apply Hw. right. exact H.
    + apply sortZ_sorted.
    + apply sortZ_sorted.
    + apply Hw. left. reflexivity.
Qed.

Fixpoint good_le (l : list (Z * Z)) : Prop :=
  match l with
  | [] => True
  | (s, e) :: t => s <= e /\ (forall s' e', In (s', e') t -> s <= s' /\ e <= e') /\ good_le t
  end.

Lemma combine_good_le : forall A B, Forall2 Z.le A B -> sortedZ A -> sortedZ B -> good_le (combine A B).
Proof.
  induction 1 as [|a b A B Hab HAB IH]; intros HsA HsB.
  - exact I.
  - destruct HsA as [Ha HsA]. destruct HsB as [Hb HsB]. cbn [combine good_le].
    split; [exact Hab|]. split; [|apply IH; assumption].
    intros s' e' H. split.
    + apply Ha. eapply in_combine_l; exact H.
    + apply Hb. eapply in_combine_r; exact H.
Qed.

Lemma colsort_good_le : forall l, weak_ivs l -> good_le (colsort l).
Proof.
  intros l Hw. unfold colsort.
  apply combine_good_le; [apply colsort_pairwise_le; exact Hw|apply sortZ_sorted|apply sortZ_sorted].
Qed.

Lemma sweep_wsep : forall l lb ub, lb <= ub ->
  (forall s e, In (s, e) l -> lb <= s /\ ub <= e) -> good_le l ->
  wsep (sweep lb ub l) /\ exists ub' r, sweep lb ub l = (lb, ub') :: r.
Proof.
  induction l as [|[s e] l IH]; intros lb ub Hlu Hbnd Hg.
  - cbn [sweep wsep]. split; [auto|]. exists ub, []. reflexivity.
  - destruct Hg as (Hse & Hnext & Hg).
    destruct (Hbnd s e) as [Hls Hue]; [left; reflexivity|].
    cbn [sweep]. destruct (ub >=? s) eqn:E.
    + apply IH; [lia| |exact Hg].
      intros s' e' H. destruct (Hnext s' e' H). lia.
    + destruct (IH s e Hse Hnext Hg) as [Hsep (ub' & r & Hr)].
      split; [|exists ub, (sweep s e l); reflexivity].
      cbn [wsep]. split; [exact Hlu|]. split; [|exact Hsep].
      rewrite Hr. lia.
Qed.

Lemma smooth_wsep : forall l, weak_ivs l -> wsep (smooth_model l).
Proof.
  intros l Hw. pose proof (colsort_good_le l Hw) as Hg.
  unfold smooth_model. destruct (colsort l) as [|[s e] r]; [exact I|].
  destruct Hg as (Hse & Hnext & Hg).
  apply sweep_wsep; assumption.
Qed.

(* interval merging is idempotent on every list of intervals s <= e (empty intervals included) *)
Lemma smooth_idempotent : forall l, weak_ivs l -> smooth_model (smooth_model l) = smooth_model l.
Proof. intros l Hw. apply smooth_fix_w, smooth_wsep. exact Hw. Qed.

Example smooth_idempotent_ex : weak_ivs [(4, 6); (2, 2); (0, 2); (1, 5)] /\
  smooth_model [(4, 6); (2, 2); (0, 2); (1, 5)] = [(0, 6)].
Proof. split; [intros s e [H|[H|[H|[H|[]]]]]; inversion H; lia|reflexivity]. Qed.

(* ------------------------------------------------------------------ *)
(* X.4  debounce_epochs: fixed points, idempotence, limit 0 and 1      *)
(* ------------------------------------------------------------------ *)
Lemma separated_mono : forall g l, 0 <= g -> separated g l -> separated 0 l.
Proof.
  intros g l Hg. induction l as [|[s e] t IH]; intros H; [exact I|].
  destruct H as (H1 & H2 & H3). cbn [separated]. split; [exact H1|]. split; [|apply IH; exact H3].
  destruct t as [|[s1 e1] t]; [exact I|lia].
Qed.

Lemma separated_In_lt : forall g l s e, separated g l -> In (s, e) l -> s < e.
Proof.
  induction l as [|[s0 e0] l IH]; intros s e H Hin; [destruct Hin|].
  destruct H as (H1 & _ & H3). destruct Hin as [Hin|Hin].
  - inversion Hin; subst. exact H1.
  - apply IH; assumption.
Qed.

Lemma join_fix : forall d t lb ub, separated d ((lb, ub) :: t) -> join d lb ub t = (lb, ub) :: t.
Proof.
  intros d. induction t as [|[s e] t IH]; intros lb ub H; [reflexivity|].
  destruct H as (H1 & H2 & H3). cbn [join].
  destruct (s - ub <=? d) eqn:E; [lia|]. f_equal. apply IH. exact H3.
Qed.

(* runs of length >= d separated by gaps > d are left alone by debouncing with limit d *)
Lemma debounce_fix : forall d l, 0 <= d -> separated d l ->
  (forall s e, In (s, e) l -> e - s >= d) -> debounce_model d l = l.
Proof.
  intros d l Hd Hsep Hlen.
  rewrite debounce_is_spec by (try apply (separated_mono d); assumption).
  unfold debounce_spec. rewrite filter_all.
  - destruct l as [|[s e] t]; [reflexivity|]. apply join_fix. exact Hsep.
  - intros [s e] Hin. cbn [fst snd]. specialize (Hlen s e Hin). lia.
Qed.

Example debounce_fix_ex : 0 <= 2 /\ separated 2 [(0, 2); (5, 8); (11, 14)] /\
  (forall s e, In (s, e) [(0, 2); (5, 8); (11, 14)] -> e - s >= 2).
Proof. split; [lia|]. split; [cbn; lia|]. intros s e [H|[H|[H|[]]]]; inversion H; lia. Qed.

Lemma debounce_idempotent : forall d l, 0 <= d -> separated 0 l ->
  debounce_model d (debounce_model d l) = debounce_model d l.
Proof.
  intros d l Hd Hsep. rewrite (debounce_is_spec d l Hd Hsep).
  destruct (debounce_result d l Hd Hsep) as (P1 & P2 & _).
  apply debounce_fix; assumption.
Qed.

(* limit 0 on the output of run detection changes nothing ... *)
Lemma debounce_0_runs : forall x, debounce_model 0 (runs x) = runs x.
Proof.
  intros x. apply debounce_fix; [lia|apply runs_separated|].
  intros s e Hin. pose proof (separated_In_lt 0 _ s e (runs_separated x) Hin). lia.
Qed.

(* ... but limit 1 is NOT the identity: it joins runs separated by a single False sample *)
Lemma debounce_1_runs_refuted : exists x, debounce_model 1 (runs x) <> runs x.
Proof. exists [true; false; true]. vm_compute. intros H. discriminate H. Qed.

(* what limit 1 does keep: any run list whose gaps are all longer than one sample *)
Lemma debounce_1_runs_partial : forall x, separated 1 (runs x) -> debounce_model 1 (runs x) = runs x.
Proof.
  intros x H. apply debounce_fix; [lia|exact H|].
  intros s e Hin. pose proof (separated_In_lt 1 _ s e H Hin). lia.
Qed.

Example debounce_1_runs_partial_ex : separated 1 (runs [true; false; false; true]).
Proof. cbn. lia. Qed.

(* the two columns of the run list *)
Lemma runs_columns : forall x,
  map fst (runs x) = (if hd false x then [0] else []) ++ rising x /\
  map snd (runs x) = falling x ++ (if last x false then [zlen x] else []).
Proof. intros x. split; [apply runs_starts|apply runs_ends]. Qed.
