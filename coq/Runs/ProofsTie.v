(* TRANSLATOR TIE for C18.  coq/gen/RunsGen.v is regenerated from psiaudio/util.py on every run by
   translate/pyruns2coq.py (statement by statement, in the NumPy vocabulary of Runs/NumpyPrims.v).  Here the generated
   definitions are proved EQUAL to the hand-written model of Runs/Model.v the C18 theorems are about - for every
   boolean list, every list of integer pairs, every limit; the loops of smooth_epochs for every fuel above the number
   of intervals.  With that, the theorems of Runs/Proofs.v are theorems about what the source says now.
   Stdlib only; everything is closed under the global context. *)
From Coq Require Import ZArith List Bool Lia ZifyBool.
From PV Require Import Runs.Model Runs.Spec Runs.Proofs Runs.NumpyPrims gen.RunsGen.
Import ListNotations.
Open Scope Z_scope.

(* ------------------------------------------------------------------ *)
(* the primitives on concrete shapes                                   *)
(* ------------------------------------------------------------------ *)
Lemma zlen_eq0 : forall A (l : list A), (zlen l =? 0) = match l with [] => true | _ => false end.
Proof. intros A [|a l]; [reflexivity|]. rewrite zlen_cons. pose proof (zlen_nonneg _ l). lia. Qed.

Lemma zlen_eq1 : forall A (l : list A), (zlen l =? 1) = match l with [_] => true | _ => false end.
Proof.
  intros A [|a [|b l]]; [reflexivity|reflexivity|]. rewrite !zlen_cons. pose proof (zlen_nonneg _ l). lia.
Qed.

Lemma zlen_gt0 : forall A (l : list A), (zlen l >? 0) = match l with [] => false | _ => true end.
Proof. intros A [|a l]; [reflexivity|]. rewrite zlen_cons. pose proof (zlen_nonneg _ l). lia. Qed.

Lemma np_index_0 : forall A (l : list A), np_index l 0 = hd_error l.
Proof.
  intros A [|a l]; [reflexivity|]. unfold np_index. rewrite zlen_cons. pose proof (zlen_nonneg _ l).
  replace ((0 <=? 0) && (0 <? 1 + zlen l)) with true by lia. reflexivity.
Qed.

Lemma np_index_0_Z : forall l : list Z, np_index l 0 = hdZ l.
Proof. intros l. rewrite np_index_0. destruct l; reflexivity. Qed.

Lemma nth_error_last : forall (l : list Z) a, nth_error (a :: l) (length l) = lastZ (a :: l).
Proof.
  induction l as [|b l IH]; intros a; [reflexivity|].
  change (nth_error (a :: b :: l) (length (b :: l))) with (nth_error (b :: l) (length l)).
  rewrite IH. reflexivity.
Qed.

Lemma np_index_m1 : forall l : list Z, np_index l (-1) = lastZ l.
Proof.
  intros [|a l]; [reflexivity|]. unfold np_index. rewrite zlen_cons. pose proof (zlen_nonneg _ l).
  replace ((0 <=? -1) && (-1 <? 1 + zlen l)) with false by lia.
  replace ((- (1 + zlen l) <=? -1) && (-1 <? 0)) with true by lia.
  replace (Z.to_nat (1 + zlen l + -1)) with (length l) by (unfold zlen; lia).
  apply nth_error_last.
Qed.

(* the element in the middle of pre ++ p :: t is at index len(pre) *)
Lemma np_index_mid : forall A (pre : list A) p t, np_index (pre ++ p :: t) (zlen pre) = Some p.
Proof.
  intros A pre p t. unfold np_index. rewrite zlen_app, zlen_cons.
  pose proof (zlen_nonneg _ pre). pose proof (zlen_nonneg _ t).
  replace ((0 <=? zlen pre) && (zlen pre <? zlen pre + (1 + zlen t))) with true by lia.
  unfold zlen. rewrite Nat2Z.id. rewrite nth_error_app2 by lia. rewrite Nat.sub_diag. reflexivity.
Qed.

Lemma np_index2_mid : forall pre s e t,
  np_index2 (pre ++ (s, e) :: t) (zlen pre) 0 = Some s /\ np_index2 (pre ++ (s, e) :: t) (zlen pre) 1 = Some e.
Proof. intros. unfold np_index2. rewrite np_index_mid. split; reflexivity. Qed.

Lemma np_c_zip : forall a b, np_c_ a b = zip_same a b.
Proof. reflexivity. Qed.

Lemma np_select_map : forall A (f : A -> bool) l, np_select (map f l) l = Some (filter f l).
Proof.
  intros A f l. unfold np_select. rewrite map_length, Nat.eqb_refl. f_equal.
  induction l as [|a l IH]; [reflexivity|]. cbn. rewrite IH. reflexivity.
Qed.

Lemma keep_mask : forall d l,
  np_ge_s (np_sub (np_col1 l) (np_col0 l)) d = map (fun p : Z * Z => snd p - fst p >=? d) l.
Proof.
  intros d l. unfold np_ge_s, np_sub, np_col1, np_col0.
  induction l as [|[s e] l IH]; [reflexivity|]. cbn [map combine fst snd]. rewrite IH. reflexivity.
Qed.

Lemma np_sort_axis0_colsort : forall l, np_sort_axis0 l = colsort l.
Proof. reflexivity. Qed.

(* ------------------------------------------------------------------ *)
(* ts, edge_rising, edge_falling                                       *)
(* ------------------------------------------------------------------ *)
Definition b2z (b : bool) : Z := if b then 1 else 0.

Lemma flat_rising : forall t prev i,
  np_flatnonzero_from i (np_eq_s (np_diff_aux (b2z prev) (np_astype_i t)) 1) = rising_aux prev i t.
Proof.
  induction t as [|b t IH]; intros prev i; [reflexivity|].
  cbn [np_astype_i map np_diff_aux np_eq_s np_flatnonzero_from rising_aux].
  change (if b then 1 else 0) with (b2z b).
  specialize (IH b (i + 1)). unfold np_eq_s, np_astype_i in IH. rewrite IH.
  destruct prev, b; reflexivity.
Qed.

Lemma flat_falling : forall t prev i,
  np_flatnonzero_from i (np_eq_s (np_diff_aux (b2z prev) (np_astype_i t)) (-1)) = falling_aux prev i t.
Proof.
  induction t as [|b t IH]; intros prev i; [reflexivity|].
  cbn [np_astype_i map np_diff_aux np_eq_s np_flatnonzero_from falling_aux].
  change (if b then 1 else 0) with (b2z b).
  specialize (IH b (i + 1)). unfold np_eq_s, np_astype_i in IH. rewrite IH.
  destruct prev, b; reflexivity.
Qed.

(* TIE: the positions marked by the generated edge masks are the model's edge lists *)
Theorem gen_ts_tie : forall m, gen_ts m = np_flatnonzero m.
Proof. reflexivity. Qed.

Theorem gen_edge_rising_tie : forall x, gen_ts (gen_edge_rising x) = rising x.
Proof.
  intros [|b t]; [reflexivity|]. unfold gen_ts, gen_edge_rising, rising, np_flatnonzero, np_r_cons.
  cbn [np_astype_i map np_diff np_eq_s np_flatnonzero_from]. change (0 =? 1) with false. cbv iota.
  change (if b then 1 else 0) with (b2z b). apply (flat_rising t b (0 + 1)).
Qed.

Theorem gen_edge_falling_tie : forall x, gen_ts (gen_edge_falling x) = falling x.
Proof.
  intros [|b t]; [reflexivity|]. unfold gen_ts, gen_edge_falling, falling, np_flatnonzero, np_r_cons.
  cbn [np_astype_i map np_diff np_eq_s np_flatnonzero_from]. change (0 =? -1) with false. cbv iota.
  change (if b then 1 else 0) with (b2z b). apply (flat_falling t b (0 + 1)).
Qed.

(* the masks themselves have the length NumPy gives them: max(len x, 1) *)
Theorem gen_edge_mask_length : forall x,
  zlen (gen_edge_rising x) = Z.max (zlen x) 1 /\ zlen (gen_edge_falling x) = Z.max (zlen x) 1.
Proof.
  assert (D : forall t a, length (np_diff_aux a t) = length t).
  { induction t as [|b t IH]; intros a; [reflexivity|]. cbn. rewrite IH. reflexivity. }
  intros [|b t]; [split; reflexivity|].
  unfold gen_edge_rising, gen_edge_falling, np_eq_s, np_r_cons, np_astype_i, zlen.
  cbn [map np_diff length]. rewrite !map_length, !D, !map_length. split; lia.
Qed.

(* ------------------------------------------------------------------ *)
(* epochs (the pad == 0 path; the `if pad:` block is pinned and excluded by the translator) *)
(* ------------------------------------------------------------------ *)

Ltac ep_step :=
  cbn [bind hdZ app]; rewrite ?np_index_0_Z, ?np_index_m1, ?np_c_zip; cbn [bind hdZ app];
  try match goal with
      | |- context [if ?a <? ?b then _ else _] => destruct (a <? b)
      | |- context [bind (lastZ ?l) _] => destruct (lastZ l)
      end.

Lemma bind_ret : forall A (o : option A), bind o (fun t => Some t) = o.
Proof. intros A [a|]; reflexivity. Qed.

Theorem gen_epochs_tie : forall x, gen_epochs x = epochs_model x.
Proof.
  intros x. unfold gen_epochs, epochs_model. cbv zeta.
  rewrite !gen_edge_rising_tie, !gen_edge_falling_tie.
  generalize (rising x) (falling x). intros st en.
  rewrite !zlen_eq0, !zlen_eq1, zlen_gt0, np_index_0.
  destruct st as [|s [|s2 st]]; destruct en as [|e [|e2 en]]; cbn [andb].
  1: { destruct x as [|[|] t]; reflexivity. }
  all: unfold np_r_cons, np_r_snoc; repeat (progress ep_step); rewrite ?bind_ret; reflexivity.
Qed.


(* ------------------------------------------------------------------ *)
(* smooth_epochs: the two nested while loops, on fuel                  *)
(* ------------------------------------------------------------------ *)

Definition sweep_from (l : list (Z * Z)) : list (Z * Z) :=
  match l with [] => [] | (s, e) :: t => sweep s e t end.

Lemma smooth_model_sweep_from : forall l, smooth_model l = sweep_from (colsort l).
Proof. reflexivity. Qed.

Lemma zlen_snoc : forall A (l : list A) a, zlen (l ++ [a]) = zlen l + 1.
Proof. intros. rewrite zlen_app. reflexivity. Qed.

Lemma while2_ok : forall rest pre ub fuel, (length rest < fuel)%nat ->
  exists ub' pre' rest',
    gen_smooth_epochs_while2 fuel (zlen (pre ++ rest)) (pre ++ rest) ub (zlen pre) = Some (ub', zlen pre') /\
    pre ++ rest = pre' ++ rest' /\ (length rest' <= length rest)%nat /\
    forall lb, sweep lb ub rest = (lb, ub') :: sweep_from rest'.
Proof.
  induction rest as [|[s e] t IH]; intros pre ub fuel Hf; (destruct fuel as [|fuel]; [cbn in Hf; lia|]).
  - exists ub, pre, []. cbn [gen_smooth_epochs_while2]. rewrite app_nil_r, Z.ltb_irrefl. cbn [and_lazy bind].
    (split; [|split; [|split]]); auto; try (cbn [length]; lia).
  - cbn [gen_smooth_epochs_while2].
    assert (Hlt : (zlen pre <? zlen (pre ++ (s, e) :: t)) = true).
    { rewrite zlen_app, zlen_cons. pose proof (zlen_nonneg _ t). lia. }
    rewrite Hlt. cbn [and_lazy]. rewrite (proj1 (np_index2_mid pre s e t)). cbn [bind].
    destruct (ub >=? s) eqn:E.
    + rewrite (proj2 (np_index2_mid pre s e t)). cbn [bind].
      destruct (IH (pre ++ [(s, e)]) e fuel) as (ub' & pre' & rest' & H1 & H2 & H3 & H4); [cbn in Hf; lia|].
      rewrite <- app_assoc in H1, H2. cbn [app] in H1, H2. rewrite zlen_snoc in H1.
      exists ub', pre', rest'. (split; [|split; [|split]]); auto; try (cbn [length]; lia).
      intros lb. cbn [sweep]. rewrite E. apply H4.
    + exists ub, pre, ((s, e) :: t). (split; [|split; [|split]]); auto; try (cbn [length]; lia).
      intros lb. cbn [sweep sweep_from]. rewrite E. reflexivity.
Qed.

Lemma while1_ok : forall fuel rest pre acc, (length rest < fuel)%nat ->
  exists i', gen_smooth_epochs_while1 fuel (zlen (pre ++ rest)) (pre ++ rest) (zlen pre) acc
             = Some (i', acc ++ sweep_from rest).
Proof.
  induction fuel as [|fuel IH]; intros rest pre acc Hf; [lia|].
  destruct rest as [|[s e] t].
  - exists (zlen pre). cbn [gen_smooth_epochs_while1]. rewrite app_nil_r, Z.ltb_irrefl.
    cbn [sweep_from]. rewrite app_nil_r. reflexivity.
  - cbn [gen_smooth_epochs_while1].
    assert (Hlt : (zlen pre <? zlen (pre ++ (s, e) :: t)) = true).
    { rewrite zlen_app, zlen_cons. pose proof (zlen_nonneg _ t). lia. }
    rewrite Hlt, np_index_mid. cbn [bind].
    destruct (while2_ok t (pre ++ [(s, e)]) e fuel) as (ub' & pre' & rest' & H1 & H2 & H3 & H4); [cbn in Hf; lia|].
    rewrite <- app_assoc in H1, H2. cbn [app] in H1, H2. rewrite zlen_snoc in H1.
    rewrite H1. cbn [bind]. rewrite H2.
    destruct (IH rest' pre' (py_append acc (s, ub'))) as (i' & Hi); [cbn in Hf; lia|].
    exists i'. rewrite Hi. unfold py_append. rewrite <- app_assoc. cbn [app sweep_from]. rewrite H4. reflexivity.
Qed.

Theorem gen_smooth_epochs_tie : forall fuel l, (length l < fuel)%nat ->
  gen_smooth_epochs fuel l = Some (smooth_model l).
Proof.
  intros fuel l Hf. unfold gen_smooth_epochs. rewrite zlen_eq0.
  destruct l as [|p l]; [reflexivity|]. cbv zeta. unfold np_array. rewrite np_sort_axis0_colsort.
  destruct (while1_ok fuel (colsort (p :: l)) [] []) as (i' & Hi).
  { unfold colsort. rewrite combine_length, !sortZ_length, !map_length. lia. }
  cbn [app] in Hi. change (zlen (@nil (Z * Z))) with 0 in Hi.
  rewrite Hi. reflexivity.
Qed.


(* the fuel hypothesis is genuinely needed: with fuel = number of intervals the loops run out *)
Theorem gen_smooth_epochs_fuel_refuted : exists fuel l,
  (length l <= fuel)%nat /\ gen_smooth_epochs fuel l <> Some (smooth_model l).
Proof. exists 1%nat, [(0, 1)]. split; [cbn; lia|]. vm_compute. discriminate. Qed.

(* ------------------------------------------------------------------ *)
(* debounce_epochs                                                     *)
(* ------------------------------------------------------------------ *)
Lemma filter_len_le : forall A (f : A -> bool) l, (length (filter f l) <= length l)%nat.
Proof. induction l as [|a l IH]; [cbn; lia|]. cbn. destruct (f a); cbn; lia. Qed.

Theorem gen_debounce_epochs_tie : forall fuel d l, (length l < fuel)%nat ->
  gen_debounce_epochs fuel l d = Some (debounce_model d l).
Proof.
  intros fuel d l Hf. unfold gen_debounce_epochs. cbv zeta.
  rewrite keep_mask, np_select_map. cbn [bind].
  rewrite gen_smooth_epochs_tie.
  - cbn [bind]. reflexivity.
  - unfold np_col1_add. rewrite map_length.
    pose proof (filter_len_le _ (fun p : Z * Z => snd p - fst p >=? d) l). lia.
Qed.

Theorem gen_debounce_epochs_fuel_refuted : exists fuel d l,
  (length l <= fuel)%nat /\ gen_debounce_epochs fuel l d <> Some (debounce_model d l).
Proof. exists 1%nat, 0, [(0, 1)]. split; [cbn; lia|]. vm_compute. discriminate. Qed.

(* ------------------------------------------------------------------ *)
(* the C18 theorems, transported to the generated definitions          *)
(* ------------------------------------------------------------------ *)
Theorem source_epochs_are_runs : forall x, gen_epochs x = Some (runs x).
Proof. intros x. rewrite gen_epochs_tie. apply epochs_are_runs. Qed.

Theorem source_epochs_maximal : forall x, exists r, gen_epochs x = Some r /\
  (forall s e, In (s, e) r <-> is_max_run x s e) /\ separated 0 r.
Proof.
  intros x. exists (runs x). split; [apply source_epochs_are_runs|]. split.
  - apply runs_are_maximal.
  - apply runs_separated.
Qed.

Theorem source_smooth_cover : forall fuel l, (length l < fuel)%nat -> nonempty_ivs l ->
  exists r, gen_smooth_epochs fuel l = Some r /\ (forall t, covered r t <-> covered l t) /\ separated 0 r.
Proof.
  intros fuel l Hf Hn. exists (smooth_model l). split; [apply gen_smooth_epochs_tie; exact Hf|]. split.
  - apply smooth_cover; exact Hn.
  - apply smooth_separated; exact Hn.
Qed.

Theorem source_debounce_spec : forall fuel d l, (length l < fuel)%nat -> 0 <= d -> separated 0 l ->
  gen_debounce_epochs fuel l d = Some (debounce_spec d l).
Proof.
  intros fuel d l Hf Hd Hs. rewrite gen_debounce_epochs_tie by exact Hf. f_equal. apply debounce_is_spec; assumption.
Qed.

Lemma runs_aux_length : forall l i cur,
  (length (runs_aux i cur l) <= length l + match cur with Some _ => 1 | None => 0 end)%nat.
Proof.
  induction l as [|b t IH]; intros i cur.
  - destruct cur; cbn; lia.
  - destruct b; cbn [runs_aux length].
    + specialize (IH (i + 1) (match cur with Some s => Some s | None => Some i end)). destruct cur; lia.
    + destruct cur as [s|]; specialize (IH (i + 1) None); cbn in *; lia.
Qed.

(* the composition the package uses, debounce_epochs(epochs(x), d), from the source to the specification *)
Theorem source_pipeline : forall fuel d x, (length x < fuel)%nat -> 0 <= d ->
  bind (gen_epochs x) (fun r => gen_debounce_epochs fuel r d) = Some (debounce_spec d (runs x)).
Proof.
  intros fuel d x Hf Hd. rewrite source_epochs_are_runs. cbn [bind].
  apply source_debounce_spec; [|exact Hd|apply runs_separated].
  pose proof (runs_aux_length x 0 None) as H. cbv beta iota in H. unfold runs. lia.
Qed.

(* non-vacuity: the hypotheses are satisfiable on non-trivial inputs *)
Example tie_ex_epochs : gen_epochs [true; true; false; true] = Some [(0, 2); (3, 4)].
Proof. vm_compute. reflexivity. Qed.
Example tie_ex_smooth : (length [(4, 6); (0, 2); (1, 5)] < 4)%nat /\ nonempty_ivs [(4, 6); (0, 2); (1, 5)] /\
  gen_smooth_epochs 4 [(4, 6); (0, 2); (1, 5)] = Some [(0, 6)].
Proof. split; [cbn; lia|]. split; [intros s e [H|[H|[H|[]]]]; inversion H; lia | vm_compute; reflexivity]. Qed.
Example tie_ex_debounce : (length [(0, 1); (3, 8); (10, 14)] < 4)%nat /\ separated 0 [(0, 1); (3, 8); (10, 14)] /\
  gen_debounce_epochs 4 [(0, 1); (3, 8); (10, 14)] 2 = Some [(3, 14)].
Proof. split; [cbn; lia|]. split; [simpl; lia | vm_compute; reflexivity]. Qed.
