(* Declarative specifications used by the C18 theorems (no proofs here). *)
From PV Require Export Runs.Model.

Definition bit (x : list bool) (i : Z) : bool :=
  if i <? 0 then false else nth (Z.to_nat i) x false.

(* [s, e) is a maximal run of true in x *)
Definition is_max_run (x : list bool) (s e : Z) : Prop :=
  0 <= s < e /\ e <= zlen x /\
  (forall i, s <= i < e -> bit x i = true) /\
  (s = 0 \/ bit x (s - 1) = false) /\
  (e = zlen x \/ bit x e = false).

(* sorted, disjoint and non-touching list of non-empty intervals, with a gap > g between neighbours *)
Fixpoint separated (g : Z) (l : list (Z * Z)) : Prop :=
  match l with
  | [] => True
  | (s, e) :: t =>
    s < e /\ match t with [] => True | (s', _) :: _ => e + g < s' end /\ separated g t
  end.

Definition covered (l : list (Z * Z)) (t : Z) : Prop :=
  exists s e, In (s, e) l /\ s <= t < e.

Definition nonempty_ivs (l : list (Z * Z)) : Prop := forall s e, In (s, e) l -> s < e.
