(* The small NumPy / Python vocabulary used by the boolean-epoch utilities of psiaudio/util.py
   (ts, edge_rising, edge_falling, epochs, smooth_epochs, debounce_epochs), one Gallina definition
   per primitive.  coq/gen/RunsGen.v (regenerated from the source by translate/pyruns2coq.py on every
   run) is written in this vocabulary only.  Definitions only; they are MODELLED, not verified:
   the translator's self-test evaluates the generated definitions (hence these primitives) against the
   real functions on every run, and harness/C18.py exercises them through Runs/Model.v.

   Arrays are values: a 1-D boolean array is `list bool`, a 1-D integer array `list Z`, an (n, 2)
   integer array or a Python list of 2-tuples `list (Z * Z)`.  `option`: None = the code raises. *)
From PV Require Export Common.ListX Runs.Model.

Definition bind {A B} (o : option A) (f : A -> option B) : option B :=
  match o with Some a => f a | None => None end.

(* Python `a and b` on truth values: b is evaluated (and may raise) only if a is true *)
Definition and_lazy (a : bool) (b : option bool) : option bool := if a then b else Some false.

(* a[i] on a 1-D array / the rows of a 2-D array: negative i counts from the end, out of range raises *)
Definition np_index {A} (l : list A) (i : Z) : option A :=
  let n := zlen l in
  if (0 <=? i) && (i <? n) then nth_error l (Z.to_nat i)
  else if (- n <=? i) && (i <? 0) then nth_error l (Z.to_nat (n + i))
  else None.

(* a[i, j] on an (n, 2) array *)
Definition np_index2 (l : list (Z * Z)) (i j : Z) : option Z :=
  bind (np_index l i) (fun r => np_index [fst r; snd r] j).

(* a[:, 0], a[:, 1] *)
Definition np_col0 (l : list (Z * Z)) : list Z := map fst l.
Definition np_col1 (l : list (Z * Z)) : list Z := map snd l.

(* x.astype('i') on a boolean array *)
Definition np_astype_i (x : list bool) : list Z := map (fun b : bool => if b then 1 else 0) x.

(* np.diff(a) : a[k+1] - a[k] *)
Fixpoint np_diff_aux (prev : Z) (l : list Z) : list Z :=
  match l with [] => [] | b :: t => (b - prev) :: np_diff_aux b t end.
Definition np_diff (l : list Z) : list Z :=
  match l with [] => [] | a :: t => np_diff_aux a t end.

(* np.r_[scalar, array] and np.r_[array, scalar] *)
Definition np_r_cons (a : Z) (l : list Z) : list Z := a :: l.
Definition np_r_snoc (l : list Z) (a : Z) : list Z := l ++ [a].

(* array == scalar, array >= scalar, array - array (equal lengths by construction in the callers) *)
Definition np_eq_s (l : list Z) (c : Z) : list bool := map (fun v => v =? c) l.
Definition np_ge_s (l : list Z) (c : Z) : list bool := map (fun v => v >=? c) l.
Definition np_sub (a b : list Z) : list Z := map (fun p => fst p - snd p) (combine a b).

(* np.flatnonzero(mask) *)
Fixpoint np_flatnonzero_from (i : Z) (m : list bool) : list Z :=
  match m with
  | [] => []
  | b :: t => if b then i :: np_flatnonzero_from (i + 1) t else np_flatnonzero_from (i + 1) t
  end.
Definition np_flatnonzero (m : list bool) : list Z := np_flatnonzero_from 0 m.

(* np.c_[a, b] : two 1-D arrays as the columns of an (n, 2) array; unequal lengths raise *)
Definition np_c_ (a b : list Z) : option (list (Z * Z)) :=
  if (length a =? length b)%nat then Some (combine a b) else None.

(* a[mask] : boolean row selection (a copy); a mask of another length raises *)
Fixpoint np_select_aux {A} (m : list bool) (l : list A) : list A :=
  match m, l with
  | b :: m', x :: l' => if b then x :: np_select_aux m' l' else np_select_aux m' l'
  | _, _ => []
  end.
Definition np_select {A} (m : list bool) (l : list A) : option (list A) :=
  if (length m =? length l)%nat then Some (np_select_aux m l) else None.

(* a[:, 1] += d,  a[:, 1] -= d *)
Definition np_col1_add (l : list (Z * Z)) (d : Z) : list (Z * Z) := map (fun p => (fst p, snd p + d)) l.
Definition np_col1_sub (l : list (Z * Z)) (d : Z) : list (Z * Z) := map (fun p => (fst p, snd p - d)) l.

(* a.sort(axis=0) on an (n, 2) array: each COLUMN sorted independently (sortZ: ascending, Runs/Model.v) *)
Definition np_sort_axis0 (l : list (Z * Z)) : list (Z * Z) :=
  combine (sortZ (np_col0 l)) (sortZ (np_col1 l)).

(* np.array(a) of an (n, 2) array-like / a non-empty list of 2-tuples: a copy with the same rows;
   np.array([]).reshape((0, 2)): no rows;  list.append *)
Definition np_array (l : list (Z * Z)) : list (Z * Z) := l.
Definition np_empty_0_2 : list (Z * Z) := [].
Definition py_append {A} (l : list A) (x : A) : list A := l ++ [x].
