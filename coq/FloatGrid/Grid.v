(* Sample-grid round trips in IEEE binary64 (round-to-nearest-even), proved over the reals with Flocq.

   Queue side:      t0 = fl(T0 + fl(s/fs))                 (T0 = start offset, s = integer sample clock)
   Extractor side:  round(fl(fl(t0 - pre) * fs))           (Python round() on a float = ZnearestE)

   The theorems show both sides agree for every real rate fs in [1, 2^40] (in particular every binary64
   rate in that range) and all sample counts below 2^45.  Overflow is not modelled (FLT format: unbounded
   exponent above); all quantities here are below 2^86, far from the binary64 overflow threshold. *)

From Coq Require Import ZArith Reals Lia Lra Psatz.
From Flocq Require Import Core Relative.
Open Scope R_scope.

Definition emin := (-1074)%Z.
Definition prec := 53%Z.
Definition fexp := FLT_exp emin prec.
Definition RN (x : R) : R := round radix2 fexp ZnearestE x.

Lemma prec_gt0 : Prec_gt_0 prec. Proof. unfold Prec_gt_0, prec; lia. Qed.
#[local] Existing Instance prec_gt0.

Definition u := (/2 * bpow radix2 (-prec + 1)).

Lemma RN_rel x : bpow radix2 (emin + prec - 1) <= Rabs x ->
  exists eps, Rabs eps <= u /\ RN x = x * (1 + eps).
Proof. intros H. unfold RN, fexp. apply relative_error_N_FLT_ex; auto. exact prec_gt0. Qed.

(* python: round(fl(fl(k/fs) * fs)) = k *)
Theorem grid_roundtrip (k : Z) (fs : R) :
  (0 < k < 2^50)%Z -> 1 <= fs -> fs <= bpow radix2 40 ->
  ZnearestE (RN (RN (IZR k / fs) * fs)) = k.
Proof.
  intros Hk Hfs1 Hfs2.
  assert (Hkpos: 1 <= IZR k) by (apply IZR_le; lia).
  assert (Hklt: IZR k < IZR (2^50)) by (apply IZR_lt; lia).
  assert (Hb40 : bpow radix2 40 = IZR (2^40)) by (simpl; reflexivity).
  assert (Hq: bpow radix2 (emin + prec - 1) <= Rabs (IZR k / fs)).
  { rewrite Rabs_pos_eq. 2:{ apply Rmult_le_pos; [lra| left; apply Rinv_0_lt_compat; lra]. }
    apply Rle_trans with (/ bpow radix2 40).
    - rewrite <- bpow_opp. apply bpow_le. unfold emin, prec; lia.
    - unfold Rdiv. rewrite <- (Rmult_1_l (/ bpow radix2 40)).
      apply Rmult_le_compat; try lra.
      + left; apply Rinv_0_lt_compat, bpow_gt_0.
      + apply Rinv_le_contravar; lra. }
  destruct (RN_rel _ Hq) as [e1 [He1 E1]].
  set (a := RN (IZR k / fs)) in *.
  assert (Ha : a * fs = IZR k * (1 + e1)).
  { rewrite E1. field. lra. }
  assert (Hu : u = / IZR (2^53)).
  { unfold u, prec. simpl. lra. }
  assert (Hu' : 0 < u < / 1000) by (rewrite Hu; simpl; lra).
  assert (He1' : -u <= e1 <= u) by (apply Rabs_le_inv; auto).
  assert (Hp: bpow radix2 (emin + prec - 1) <= Rabs (a * fs)).
  { rewrite Ha. rewrite Rabs_pos_eq by nra.
    apply Rle_trans with (/2).
    - change (/2) with (/ 2). replace (/2) with (bpow radix2 (-1)) by (simpl; lra). apply bpow_le. unfold emin, prec; lia.
    - nra. }
  destruct (RN_rel _ Hp) as [e2 [He2 E2]].
  assert (He2' : -u <= e2 <= u) by (apply Rabs_le_inv; auto).
  rewrite E2, Ha.
  apply Znearest_imp.
  assert (Hku : IZR k * u < /8).
  { rewrite Hu. apply Rmult_lt_reg_r with (IZR (2^53)). simpl; lra.
    rewrite Rmult_assoc, Rinv_l by (simpl; lra). simpl in *. lra. }
  replace (IZR k * (1 + e1) * (1 + e2) - IZR k) with (IZR k * (e1 + e2 + e1 * e2)) by ring.
  rewrite Rabs_mult, (Rabs_pos_eq (IZR k)) by lra.
  assert (Rabs (e1 + e2 + e1*e2) <= 3 * u).
  { apply Rabs_le. nra. }
  nra.
Qed.
Print Assumptions grid_roundtrip.

(* ------------------------------------------------------------------------------------------------ *)
(* General error model: RN x = x (1 + eps) + eta, valid for every real x (zero and subnormals too). *)

Definition eta0 := (/2 * bpow radix2 emin).

Lemma RN_err x : exists eps eta, Rabs eps <= u /\ Rabs eta <= eta0 /\ RN x = x * (1 + eps) + eta.
Proof.
  destruct (error_N_FLT radix2 emin prec prec_gt0 (fun n => negb (Z.even n)) x)
    as (eps & eta & He & Hn & _ & E).
  exists eps, eta. repeat split; auto.
Qed.

Lemma u_val : u = / IZR (2^53).
Proof. unfold u, prec. simpl. lra. Qed.

(* absolute error of one rounding, after scaling by the rate, is below `tiny` *)
Definition tiny := bpow radix2 (-70).

Lemma tiny_val : tiny = / IZR (2^70).
Proof. unfold tiny. simpl. reflexivity. Qed.

Lemma eta0_scaled fs : 1 <= fs -> fs <= bpow radix2 40 -> eta0 * fs <= tiny.
Proof.
  intros H1 H2. unfold eta0, tiny.
  apply Rle_trans with (/2 * bpow radix2 emin * bpow radix2 40).
  - apply Rmult_le_compat_l; auto.
    apply Rmult_le_pos; [lra | apply bpow_ge_0].
  - rewrite Rmult_assoc, <- bpow_plus.
    apply Rle_trans with (1 * bpow radix2 (emin + 40)).
    + apply Rmult_le_compat_r; [apply bpow_ge_0 | lra].
    + rewrite Rmult_1_l. apply bpow_le. unfold emin; lia.
Qed.

Lemma bpow40_ge1 : 1 <= bpow radix2 40.
Proof. change 1 with (bpow radix2 0). apply bpow_le; lia. Qed.

(* One rounding rn_step in "sample units": if y*fs is within E of N, then RN y * fs is within
   E + u (|N| + E) + tiny of N. *)
Lemma rn_step (fs y N E : R) :
  1 <= fs -> fs <= bpow radix2 40 ->
  Rabs (y * fs - N) <= E ->
  Rabs (RN y * fs - N) <= E + u * (Rabs N + E) + tiny.
Proof.
  intros Hfs1 Hfs2 H.
  destruct (RN_err y) as (eps & eta & He & Hn & E1).
  rewrite E1.
  replace ((y * (1 + eps) + eta) * fs - N) with ((y * fs - N) + eps * (y * fs) + eta * fs) by ring.
  assert (Hy : Rabs (y * fs) <= Rabs N + E).
  { replace (y * fs) with (N + (y * fs - N)) at 1 by ring.
    eapply Rle_trans; [apply Rabs_triang | lra]. }
  assert (Hu0 : 0 <= u) by (rewrite u_val; simpl; lra).
  assert (H2 : Rabs (eps * (y * fs)) <= u * (Rabs N + E)).
  { rewrite Rabs_mult. apply Rmult_le_compat; auto; apply Rabs_pos. }
  assert (H3 : Rabs (eta * fs) <= tiny).
  { rewrite Rabs_mult, (Rabs_pos_eq fs) by lra.
    eapply Rle_trans; [| apply (eta0_scaled fs Hfs1 Hfs2)].
    apply Rmult_le_compat_r; lra. }
  eapply Rle_trans; [apply Rabs_triang|].
  eapply Rle_trans; [apply Rplus_le_compat_r, Rabs_triang|].
  lra.
Qed.

(* the same with fs = 1: the last rounding, of the product *)
Lemma rn_step1 (y N E : R) :
  Rabs (y - N) <= E ->
  Rabs (RN y - N) <= E + u * (Rabs N + E) + tiny.
Proof.
  intros H.
  generalize (rn_step 1 y N E (Rle_refl 1) bpow40_ge1).
  rewrite !Rmult_1_r. auto.
Qed.

(* coarse uniform version for integer targets below 2^45: each rounding costs at most 1/128 sample *)
Lemma rn_step_c (fs y : R) (n : Z) (E : R) :
  1 <= fs -> fs <= bpow radix2 40 ->
  (Z.abs n <= 2^45)%Z -> E <= 1 ->
  Rabs (y * fs - IZR n) <= E ->
  Rabs (RN y * fs - IZR n) <= E + /128.
Proof.
  intros Hfs1 Hfs2 Hn HE H.
  eapply Rle_trans; [apply (rn_step fs y (IZR n) E Hfs1 Hfs2 H)|].
  assert (HN : Rabs (IZR n) <= IZR (2^45)) by (rewrite <- abs_IZR; apply IZR_le; exact Hn).
  assert (HE0 : 0 <= E) by (eapply Rle_trans; [apply Rabs_pos | exact H]).
  rewrite u_val, tiny_val. simpl in *. lra.
Qed.

Lemma rn_step1_c (y : R) (n : Z) (E : R) :
  (Z.abs n <= 2^45)%Z -> E <= 1 ->
  Rabs (y - IZR n) <= E ->
  Rabs (RN y - IZR n) <= E + /128.
Proof.
  intros Hn HE H.
  generalize (rn_step_c 1 y n E (Rle_refl 1) bpow40_ge1 Hn HE).
  rewrite !Rmult_1_r. auto.
Qed.

(* exact quotient: (IZR n / fs) * fs = IZR n *)
Lemma grid_c (fs : R) (n : Z) :
  1 <= fs -> fs <= bpow radix2 40 -> (Z.abs n <= 2^45)%Z ->
  Rabs (RN (IZR n / fs) * fs - IZR n) <= /128.
Proof.
  intros Hfs1 Hfs2 Hn.
  replace (/128) with (0 + /128) by ring.
  apply rn_step_c; auto; try lra.
  replace (IZR n / fs * fs - IZR n) with 0 by (field; lra).
  rewrite Rabs_R0; lra.
Qed.

(* ------------------------------------------------------------------------------------------------ *)

(* off-tie rounding is stable under a perturbation d *)
Theorem round_stable (x x' d : R) :
  Rabs (x' - x) <= d -> (forall z : Z, Rabs (x - (IZR z + /2)) > d) -> ZnearestE x' = ZnearestE x.
Proof.
  intros Hd Hz.
  set (n := ZnearestE x).
  pose proof (Znearest_half (fun n => negb (Z.even n)) x) as Hn. fold n in Hn.
  pose proof (Hz n) as H1.
  pose proof (Hz (n - 1)%Z) as H2. rewrite minus_IZR in H2.
  apply Znearest_imp.
  split_Rabs; lra.
Qed.
Print Assumptions round_stable.

(* queue side: T0 = fl(j/fs) (start offset on the sample grid), clock s; t0 = fl(T0 + fl(s/fs));
   extractor side with pre-stimulus time pre = fl(m/fs) on the grid: round(fl(fl(t0 - pre) * fs)) = j + s - m.
   m = 0 gives pre = 0 (the default). *)
Theorem grid_offset_roundtrip (j s m : Z) (fs : R) :
  (0 <= j)%Z -> (0 <= s)%Z -> (0 <= m)%Z -> (j + s + m < 2^45)%Z -> 1 <= fs -> fs <= bpow radix2 40 ->
  let T0 := RN (IZR j / fs) in
  let t0 := RN (T0 + RN (IZR s / fs)) in
  let pre := RN (IZR m / fs) in
  ZnearestE (RN (RN (t0 - pre) * fs)) = (j + s - m)%Z.
Proof.
  intros Hj Hs Hm Hsum Hfs1 Hfs2 T0 t0 pre.
  assert (H1 : Rabs (T0 * fs - IZR j) <= /128) by (apply grid_c; auto; lia).
  assert (H2 : Rabs (RN (IZR s / fs) * fs - IZR s) <= /128) by (apply grid_c; auto; lia).
  assert (H4 : Rabs (pre * fs - IZR m) <= /128) by (apply grid_c; auto; lia).
  set (S := RN (IZR s / fs)) in *.
  assert (H3 : Rabs (t0 * fs - IZR (j + s)) <= 2/128 + /128).
  { apply rn_step_c; auto; try lia; try lra.
    rewrite plus_IZR. clear - H1 H2. split_Rabs; lra. }
  assert (H5 : Rabs (RN (t0 - pre) * fs - IZR (j + s - m)) <= 4/128 + /128).
  { apply rn_step_c; auto; try lia; try lra.
    rewrite minus_IZR. clear - H3 H4. split_Rabs; lra. }
  assert (H6 : Rabs (RN (RN (t0 - pre) * fs) - IZR (j + s - m)) <= 5/128 + /128).
  { apply rn_step1_c; auto; try lia; try lra. }
  apply Znearest_imp.
  lra.
Qed.
Print Assumptions grid_offset_roundtrip.

Lemma RN_0 : RN 0 = 0.
Proof. unfold RN. apply round_0. apply valid_rnd_N. Qed.

Lemma RN_RN x : RN (RN x) = RN x.
Proof.
  unfold RN. apply round_generic. apply valid_rnd_N.
  apply generic_format_round. apply FLT_exp_valid, prec_gt0. apply valid_rnd_N.
Qed.

Corollary grid_offset_roundtrip0 (j s : Z) (fs : R) :
  (0 <= j)%Z -> (0 <= s)%Z -> (j + s < 2^45)%Z -> 1 <= fs -> fs <= bpow radix2 40 ->
  ZnearestE (RN (RN (RN (RN (IZR j / fs) + RN (IZR s / fs)) - 0) * fs)) = (j + s)%Z.
Proof.
  intros Hj Hs Hsum Hfs1 Hfs2.
  assert (Hm : (0 <= 0)%Z) by lia.
  assert (Hsum' : (j + s + 0 < 2^45)%Z) by lia.
  pose proof (grid_offset_roundtrip j s 0 fs Hj Hs Hm Hsum' Hfs1 Hfs2) as H.
  cbv zeta in H.
  replace (RN (0 / fs)) with 0 in H.
  2:{ unfold Rdiv. rewrite Rmult_0_l. symmetry. apply RN_0. }
  rewrite H. lia.
Qed.
Print Assumptions grid_offset_roundtrip0.

Corollary grid_offset_roundtrip0' (j s : Z) (fs : R) :
  (0 <= j)%Z -> (0 <= s)%Z -> (j + s < 2^45)%Z -> 1 <= fs -> fs <= bpow radix2 40 ->
  ZnearestE (RN (RN (RN (IZR j / fs) + RN (IZR s / fs)) * fs)) = (j + s)%Z.
Proof.
  intros Hj Hs Hsum Hfs1 Hfs2.
  pose proof (grid_offset_roundtrip0 j s fs Hj Hs Hsum Hfs1 Hfs2) as H.
  rewrite Rminus_0_r, RN_RN in H. exact H.
Qed.
Print Assumptions grid_offset_roundtrip0'.

(* arbitrary (off-grid) pre-stimulus time pre >= 0: the float result is the nearest integer of the exact value
   X = j + s - pre*fs whenever X is farther than d from every half-integer (the property excludes half-sample ties) *)
Theorem grid_offset_stable (j s : Z) (fs pre : R) :
  (0 <= j)%Z -> (0 <= s)%Z -> (j + s < 2^45)%Z -> 1 <= fs -> fs <= bpow radix2 40 -> 0 <= pre -> pre * fs <= IZR (2^45) ->
  let T0 := RN (IZR j / fs) in
  let t0 := RN (T0 + RN (IZR s / fs)) in
  let X := IZR (j + s) - pre * fs in
  let d := (IZR (j + s) + pre * fs + 1) * bpow radix2 (-50) in
  (forall z : Z, Rabs (X - (IZR z + /2)) > d) ->
  ZnearestE (RN (RN (t0 - pre) * fs)) = ZnearestE X.
Proof.
  intros Hj Hs Hsum Hfs1 Hfs2 Hpre HP T0 t0 X d Hz.
  apply round_stable with (d := d); auto.
  assert (HJ : 0 <= IZR j <= IZR (2^45)) by (split; apply IZR_le; lia).
  assert (HS : 0 <= IZR s <= IZR (2^45)) by (split; apply IZR_le; lia).
  assert (HA : IZR j + IZR s <= IZR (2^45)) by (rewrite <- plus_IZR; apply IZR_le; lia).
  assert (HP0 : 0 <= pre * fs) by (apply Rmult_le_pos; lra).
  assert (Hb : bpow radix2 (-50) = / IZR (2^50)) by (simpl; reflexivity).
  set (P := pre * fs) in *.
  assert (H1 : Rabs (T0 * fs - IZR j) <= 0 + u * (Rabs (IZR j) + 0) + tiny).
  { apply rn_step; auto. replace (IZR j / fs * fs - IZR j) with 0 by (field; lra). rewrite Rabs_R0; lra. }
  assert (H2 : Rabs (RN (IZR s / fs) * fs - IZR s) <= 0 + u * (Rabs (IZR s) + 0) + tiny).
  { apply rn_step; auto. replace (IZR s / fs * fs - IZR s) with 0 by (field; lra). rewrite Rabs_R0; lra. }
  set (S := RN (IZR s / fs)) in *.
  rewrite (Rabs_pos_eq (IZR j)) in H1 by lra.
  rewrite (Rabs_pos_eq (IZR s)) in H2 by lra.
  set (E12 := u * (IZR j + IZR s) + 2 * tiny).
  assert (H3 : Rabs (t0 * fs - (IZR j + IZR s)) <= E12 + u * (Rabs (IZR j + IZR s) + E12) + tiny).
  { apply rn_step; auto. unfold E12. clear - H1 H2. split_Rabs; lra. }
  rewrite (Rabs_pos_eq (IZR j + IZR s)) in H3 by lra.
  set (E3 := E12 + u * (IZR j + IZR s + E12) + tiny) in *.
  assert (H4 : Rabs (RN (t0 - pre) * fs - (IZR j + IZR s - P)) <= E3 + u * (Rabs (IZR j + IZR s - P) + E3) + tiny).
  { apply rn_step; auto. replace ((t0 - pre) * fs - (IZR j + IZR s - P)) with (t0 * fs - (IZR j + IZR s)) by (unfold P; ring).
    exact H3. }
  set (D := Rabs (IZR j + IZR s - P)) in *.
  assert (HD : D <= IZR j + IZR s + P) by (unfold D; clear - HJ HS HP0; split_Rabs; lra).
  set (E4 := E3 + u * (D + E3) + tiny) in *.
  assert (H5 : Rabs (RN (RN (t0 - pre) * fs) - (IZR j + IZR s - P)) <= E4 + u * (D + E4) + tiny).
  { apply rn_step1; auto. }
  unfold X, d. rewrite plus_IZR.
  eapply Rle_trans; [exact H5|].
  unfold E4, E3, E12. rewrite Hb, u_val, tiny_val.
  clear - HJ HS HA HP0 HP HD. simpl in *. lra.
Qed.
Print Assumptions grid_offset_stable.

(* the pause time handed to the queue, t = fl(T0 + fl(s/fs)), is converted by the queue with round(fl(fl(t - T0) * fs)): gives s;
   and the declared end of a trial, round(fl(fl(fl(t0 + dur) - T0) * fs)) with dur = fl(len/fs), gives s + len *)
Theorem grid_pause_roundtrip (j s : Z) (fs : R) :
  (0 <= j)%Z -> (0 <= s)%Z -> (j + s < 2^45)%Z -> 1 <= fs -> fs <= bpow radix2 40 ->
  let T0 := RN (IZR j / fs) in
  let t := RN (T0 + RN (IZR s / fs)) in
  ZnearestE (RN (RN (t - T0) * fs)) = s.
Proof.
  intros Hj Hs Hsum Hfs1 Hfs2 T0 t.
  assert (H1 : Rabs (T0 * fs - IZR j) <= /128) by (apply grid_c; auto; lia).
  assert (H2 : Rabs (RN (IZR s / fs) * fs - IZR s) <= /128) by (apply grid_c; auto; lia).
  set (S := RN (IZR s / fs)) in *.
  assert (H3 : Rabs (t * fs - IZR (j + s)) <= 2/128 + /128).
  { apply rn_step_c; auto; try lia; try lra.
    rewrite plus_IZR. clear - H1 H2. split_Rabs; lra. }
  assert (H5 : Rabs (RN (t - T0) * fs - IZR s) <= 4/128 + /128).
  { apply rn_step_c; auto; try lia; try lra.
    rewrite plus_IZR in H3. clear - H3 H1. split_Rabs; lra. }
  assert (H6 : Rabs (RN (RN (t - T0) * fs) - IZR s) <= 5/128 + /128).
  { apply rn_step1_c; auto; try lia; try lra. }
  apply Znearest_imp.
  lra.
Qed.
Print Assumptions grid_pause_roundtrip.

Theorem grid_end_roundtrip (j s len : Z) (fs : R) :
  (0 <= j)%Z -> (0 <= s)%Z -> (0 <= len)%Z -> (j + s + len < 2^45)%Z -> 1 <= fs -> fs <= bpow radix2 40 ->
  let T0 := RN (IZR j / fs) in
  let t0 := RN (T0 + RN (IZR s / fs)) in
  let dur := RN (IZR len / fs) in
  ZnearestE (RN (RN (RN (t0 + dur) - T0) * fs)) = (s + len)%Z.
Proof.
  intros Hj Hs Hl Hsum Hfs1 Hfs2 T0 t0 dur.
  assert (H1 : Rabs (T0 * fs - IZR j) <= /128) by (apply grid_c; auto; lia).
  assert (H2 : Rabs (RN (IZR s / fs) * fs - IZR s) <= /128) by (apply grid_c; auto; lia).
  assert (H4 : Rabs (dur * fs - IZR len) <= /128) by (apply grid_c; auto; lia).
  set (S := RN (IZR s / fs)) in *.
  assert (H3 : Rabs (t0 * fs - IZR (j + s)) <= 2/128 + /128).
  { apply rn_step_c; auto; try lia; try lra.
    rewrite plus_IZR. clear - H1 H2. split_Rabs; lra. }
  assert (H5 : Rabs (RN (t0 + dur) * fs - IZR (j + s + len)) <= 4/128 + /128).
  { apply rn_step_c; auto; try lia; try lra.
    rewrite plus_IZR. clear - H3 H4. split_Rabs; lra. }
  assert (H6 : Rabs (RN (RN (t0 + dur) - T0) * fs - IZR (s + len)) <= 6/128 + /128).
  { apply rn_step_c; auto; try lia; try lra.
    rewrite !plus_IZR in H5. rewrite plus_IZR. clear - H5 H1. split_Rabs; lra. }
  assert (H7 : Rabs (RN (RN (RN (t0 + dur) - T0) * fs) - IZR (s + len)) <= 7/128 + /128).
  { apply rn_step1_c; auto; try lia; try lra. }
  apply Znearest_imp.
  lra.
Qed.
Print Assumptions grid_end_roundtrip.

(* ------------------------------------------------------------------------------------------------ *)
(* The hypotheses are satisfiable (fs = 48000 is in range; small counts are in range). *)
Example hyps_satisfiable :
  (0 <= 3)%Z /\ (0 <= 5)%Z /\ (0 <= 2)%Z /\ (3 + 5 + 2 < 2^45)%Z /\ 1 <= 48000 /\ 48000 <= bpow radix2 40.
Proof. repeat split; try lia; try lra. simpl. lra. Qed.

Example grid_offset_roundtrip_inst :
  ZnearestE (RN (RN (RN (RN (IZR 3 / 48000) + RN (IZR 5 / 48000)) - RN (IZR 2 / 48000)) * 48000)) = 6%Z.
Proof.
  destruct hyps_satisfiable as (a & b & c & d & e & f).
  exact (grid_offset_roundtrip 3 5 2 48000 a b c d e f).
Qed.

(* ------------------------------------------------------------------------------------------------ *)
(* C06_conversions_agree: the seconds <-> samples conversions of the queue (publishes fl(T0 + fl(s/fs)), reads
   pause times and trial ends back with round(fl(fl(. - T0) * fs))) and of the extractor (round(fl(fl(t0 - pre) * fs)))
   agree exactly, for every rate in [1, 2^40] (all reals, so all binary64 values), not only for listed rates. *)
Theorem conversions_agree :
  (forall (k : Z) (fs : R), (0 < k < 2^50)%Z -> 1 <= fs -> fs <= bpow radix2 40 ->
     ZnearestE (RN (RN (IZR k / fs) * fs)) = k) /\
  (forall x x' d : R, Rabs (x' - x) <= d -> (forall z : Z, Rabs (x - (IZR z + /2)) > d) -> ZnearestE x' = ZnearestE x) /\
  (forall (j s m : Z) (fs : R),
     (0 <= j)%Z -> (0 <= s)%Z -> (0 <= m)%Z -> (j + s + m < 2^45)%Z -> 1 <= fs -> fs <= bpow radix2 40 ->
     let T0 := RN (IZR j / fs) in
     let t0 := RN (T0 + RN (IZR s / fs)) in
     let pre := RN (IZR m / fs) in
     ZnearestE (RN (RN (t0 - pre) * fs)) = (j + s - m)%Z) /\
  (forall (j s : Z) (fs : R), (0 <= j)%Z -> (0 <= s)%Z -> (j + s < 2^45)%Z -> 1 <= fs -> fs <= bpow radix2 40 ->
     ZnearestE (RN (RN (RN (RN (IZR j / fs) + RN (IZR s / fs)) - 0) * fs)) = (j + s)%Z) /\
  (forall (j s : Z) (fs pre : R),
     (0 <= j)%Z -> (0 <= s)%Z -> (j + s < 2^45)%Z -> 1 <= fs -> fs <= bpow radix2 40 -> 0 <= pre -> pre * fs <= IZR (2^45) ->
     let T0 := RN (IZR j / fs) in
     let t0 := RN (T0 + RN (IZR s / fs)) in
     let X := IZR (j + s) - pre * fs in
     let d := (IZR (j + s) + pre * fs + 1) * bpow radix2 (-50) in
     (forall z : Z, Rabs (X - (IZR z + /2)) > d) ->
     ZnearestE (RN (RN (t0 - pre) * fs)) = ZnearestE X) /\
  (forall (j s : Z) (fs : R), (0 <= j)%Z -> (0 <= s)%Z -> (j + s < 2^45)%Z -> 1 <= fs -> fs <= bpow radix2 40 ->
     let T0 := RN (IZR j / fs) in
     let t := RN (T0 + RN (IZR s / fs)) in
     ZnearestE (RN (RN (t - T0) * fs)) = s) /\
  (forall (j s len : Z) (fs : R),
     (0 <= j)%Z -> (0 <= s)%Z -> (0 <= len)%Z -> (j + s + len < 2^45)%Z -> 1 <= fs -> fs <= bpow radix2 40 ->
     let T0 := RN (IZR j / fs) in
     let t0 := RN (T0 + RN (IZR s / fs)) in
     let dur := RN (IZR len / fs) in
     ZnearestE (RN (RN (RN (t0 + dur) - T0) * fs)) = (s + len)%Z).
Proof.
  split; [exact grid_roundtrip|]. split; [exact round_stable|]. split; [exact grid_offset_roundtrip|].
  split; [exact grid_offset_roundtrip0|]. split; [exact grid_offset_stable|]. split; [exact grid_pause_roundtrip|].
  exact grid_end_roundtrip.
Qed.
