(* Named statements of the binary64 grid theorems, so that Z-scoped Props files can state them
   without importing Reals (whose notations and names clash with the list/Z developments). *)
From Coq Require Import Reals ZArith.
From Flocq Require Import Core.
From PV Require Import FloatGrid.Grid.
Open Scope R_scope.

(* SignalBuffer.time_to_samples(t) = round(t*fs): for a time that is a sample position k divided by the
   rate (both operations rounded to binary64, ties-to-even; Python's round is ZnearestE) the result is k,
   for EVERY real rate between 1 Hz and 2^40 Hz *)
Definition time_to_samples_on_grid : Prop :=
  forall (k : Z) (fs : R), (0 < k < 2^50)%Z -> 1 <= fs -> fs <= bpow radix2 40 ->
    ZnearestE (RN (RN (IZR k / fs) * fs)) = k.

Lemma time_to_samples_on_grid_holds : time_to_samples_on_grid.
Proof. exact grid_roundtrip. Qed.
