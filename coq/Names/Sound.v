(* C19 - the checker of Names/Checker.v decides the relational specification of Names/Scope.v:
   soundness and completeness, for every scope tree and every environment. *)
From PV Require Import Names.Scope Names.Checker.
From Coq Require Import Lia.
Open Scope string_scope.

(* ---- nested induction principle for scope trees ----------------------------------------------------- *)
Section item_nested_ind.
  Variable P : item -> Prop.
  Hypothesis HBind : forall x k l, P (Bind x k l).
  Hypothesis HUse : forall x l, P (Use x l).
  Hypothesis HAttr : forall x a l, P (AttrUse x a l).
  Hypothesis HImp : forall k n l, P (ImportFrom k n l).
  Hypothesis HGlob : forall x, P (GlobalDecl x).
  Hypothesis HNonl : forall x, P (NonlocalDecl x).
  Hypothesis HGap : forall s, P (Gap s).
  Hypothesis HSub : forall k q body, Forall P body -> P (Sub k q body).
  Fixpoint item_nested_ind (it : item) : P it :=
    match it with
    | Bind x k l => HBind x k l
    | Use x l => HUse x l
    | AttrUse x a l => HAttr x a l
    | ImportFrom k n l => HImp k n l
    | GlobalDecl x => HGlob x
    | NonlocalDecl x => HNonl x
    | Gap s => HGap s
    | Sub k q body =>
        HSub k q body
             ((fix go (l : list item) : Forall P l :=
                 match l with
                 | [] => Forall_nil P
                 | i :: l' => Forall_cons i (item_nested_ind i) (go l')
                 end) body)
    end.
End item_nested_ind.

(* ---- boolean predicates ------------------------------------------------------------------------------- *)
Lemma bindsb_spec : forall its x, bindsb its x = true <-> binds its x.
Proof.
  intros its x. unfold bindsb, binds. rewrite existsb_exists. split.
  - intros [it [Hin Hb]]. destruct it; try discriminate.
    apply String.eqb_eq in Hb. subst x0. eauto.
  - intros [k [l Hin]]. exists (Bind x k l). split; [exact Hin|]. apply String.eqb_refl.
Qed.

Lemma decl_globalb_spec : forall its x, decl_globalb its x = true <-> decl_global its x.
Proof.
  intros its x. unfold decl_globalb, decl_global. rewrite existsb_exists. split.
  - intros [it [Hin Hb]]. destruct it; try discriminate.
    apply String.eqb_eq in Hb. subst x0. exact Hin.
  - intros Hin. exists (GlobalDecl x). split; [exact Hin|]. apply String.eqb_refl.
Qed.

Lemma decl_nonlocalb_spec : forall its x, decl_nonlocalb its x = true <-> decl_nonlocal its x.
Proof.
  intros its x. unfold decl_nonlocalb, decl_nonlocal. rewrite existsb_exists. split.
  - intros [it [Hin Hb]]. destruct it; try discriminate.
    apply String.eqb_eq in Hb. subst x0. exact Hin.
  - intros Hin. exists (NonlocalDecl x). split; [exact Hin|]. apply String.eqb_refl.
Qed.

Lemma bool_spec_false : forall (b : bool) (P : Prop), (b = true <-> P) -> (b = false <-> ~ P).
Proof.
  intros b P H. destruct b; split; intro H1.
  - discriminate.
  - exfalso. apply H1. apply H. reflexivity.
  - intro HP. apply H in HP. discriminate.
  - reflexivity.
Qed.

Lemma is_localb_spec : forall its x, is_localb its x = true <-> is_local its x.
Proof.
  intros its x. unfold is_localb, is_local.
  rewrite !andb_true_iff, !negb_true_iff.
  rewrite (bool_spec_false _ _ (decl_globalb_spec its x)).
  rewrite (bool_spec_false _ _ (decl_nonlocalb_spec its x)).
  rewrite bindsb_spec. tauto.
Qed.

Lemma is_class_true : forall k, is_class k = true <-> k = KClass.
Proof. destruct k; simpl; split; intro H; try discriminate; reflexivity. Qed.

Lemma is_class_false : forall k, is_class k = false <-> k <> KClass.
Proof. intro k. apply bool_spec_false. apply is_class_true. Qed.

(* ---- classification ----------------------------------------------------------------------------------- *)
Lemma enclosing_b_sound : forall st x, enclosing st x (enclosing_b st x).
Proof.
  induction st as [|f t IH]; intro x; simpl.
  - constructor.
  - destruct (is_class (f_kind f)) eqn:Ec.
    + apply enc_class; [apply is_class_true; exact Ec | apply IH].
    + apply is_class_false in Ec.
      destruct (is_localb (f_items f) x) eqn:El.
      * apply enc_local; [exact Ec | apply is_localb_spec; exact El].
      * destruct (decl_globalb (f_items f) x) eqn:Eg.
        -- apply enc_global; [exact Ec | apply decl_globalb_spec; exact Eg].
        -- apply enc_pass; [exact Ec | | | apply IH].
           ++ apply (bool_spec_false _ _ (is_localb_spec _ _)). exact El.
           ++ apply (bool_spec_false _ _ (decl_globalb_spec _ _)). exact Eg.
Qed.

Lemma enclosing_b_complete : forall st x r, enclosing st x r -> enclosing_b st x = r.
Proof.
  intros st x r H. induction H; simpl.
  - reflexivity.
  - apply is_class_true in H. rewrite H. exact IHenclosing.
  - apply is_class_false in H. rewrite H.
    apply is_localb_spec in H0. rewrite H0. reflexivity.
  - apply is_class_false in H. rewrite H.
    assert (El : is_localb (f_items f) x = false).
    { apply (bool_spec_false _ _ (is_localb_spec _ _)). intros [_ [Hn _]]. apply Hn. exact H0. }
    rewrite El. apply decl_globalb_spec in H0. rewrite H0. reflexivity.
  - apply is_class_false in H. rewrite H.
    apply (bool_spec_false _ _ (is_localb_spec _ _)) in H0. rewrite H0.
    apply (bool_spec_false _ _ (decl_globalb_spec _ _)) in H1. rewrite H1.
    exact IHenclosing.
Qed.

Lemma enclosing_b_spec : forall st x r, enclosing st x r <-> enclosing_b st x = r.
Proof.
  intros st x r. split.
  - apply enclosing_b_complete.
  - intro H. subst r. apply enclosing_b_sound.
Qed.

Lemma res_eqb_spec : forall a b, res_eqb a b = true <-> a = b.
Proof. destruct a, b; simpl; split; intro H; try discriminate; reflexivity. Qed.

Lemma classify_b_sound : forall st x r, classify_b st x = Some r -> classify st x r.
Proof.
  intros st x r. destruct st as [|f t]; simpl.
  - intro H. inversion H. constructor.
  - destruct (decl_globalb (f_items f) x) eqn:Eg.
    + intro H. inversion H. apply cl_global. apply decl_globalb_spec. exact Eg.
    + apply (bool_spec_false _ _ (decl_globalb_spec _ _)) in Eg.
      destruct (decl_nonlocalb (f_items f) x) eqn:En.
      * destruct (res_eqb (enclosing_b t x) RFree) eqn:Er; [|discriminate].
        intro H. inversion H. apply cl_nonlocal; [exact Eg | apply decl_nonlocalb_spec; exact En |].
        apply enclosing_b_spec. apply res_eqb_spec. exact Er.
      * apply (bool_spec_false _ _ (decl_nonlocalb_spec _ _)) in En.
        destruct (bindsb (f_items f) x) eqn:Eb.
        -- intro H. inversion H. apply cl_local. split; [apply bindsb_spec; exact Eb | split; assumption].
        -- apply (bool_spec_false _ _ (bindsb_spec _ _)) in Eb.
           intro H. inversion H. apply cl_outer; try assumption. apply enclosing_b_sound.
Qed.

Lemma classify_b_complete : forall st x r, classify st x r -> classify_b st x = Some r.
Proof.
  intros st x r H. destruct H; simpl.
  - reflexivity.
  - apply decl_globalb_spec in H. rewrite H. reflexivity.
  - apply (bool_spec_false _ _ (decl_globalb_spec _ _)) in H. rewrite H.
    apply decl_nonlocalb_spec in H0. rewrite H0.
    apply enclosing_b_spec in H1. rewrite H1. reflexivity.
  - destruct H as [Hb [Hg Hn]].
    apply (bool_spec_false _ _ (decl_globalb_spec _ _)) in Hg. rewrite Hg.
    apply (bool_spec_false _ _ (decl_nonlocalb_spec _ _)) in Hn. rewrite Hn.
    apply bindsb_spec in Hb. rewrite Hb. reflexivity.
  - apply (bool_spec_false _ _ (decl_globalb_spec _ _)) in H0. rewrite H0.
    apply (bool_spec_false _ _ (decl_nonlocalb_spec _ _)) in H1. rewrite H1.
    apply (bool_spec_false _ _ (bindsb_spec _ _)) in H. rewrite H.
    apply enclosing_b_spec in H2. rewrite H2. reflexivity.
Qed.

Lemma classify_b_spec : forall st x r, classify st x r <-> classify_b st x = Some r.
Proof. intros; split; [apply classify_b_complete | apply classify_b_sound]. Qed.

(* name classification is a function: Python's compiler decides it once per scope *)
Lemma classify_deterministic : forall st x r1 r2, classify st x r1 -> classify st x r2 -> r1 = r2.
Proof.
  intros st x r1 r2 H1 H2. apply classify_b_complete in H1, H2. congruence.
Qed.

(* ---- enumeration of scopes ----------------------------------------------------------------------------- *)
Inductive below : list frame -> list item -> list frame -> Prop :=
| below_here : forall st its k q body,
    In (Sub k q body) its -> below st its (mkframe k q body :: st)
| below_deeper : forall st its k q body st',
    In (Sub k q body) its -> below (mkframe k q body :: st) body st' -> below st its st'.

Lemma sub_scopes_spec : forall it st st',
  In st' (sub_scopes st it) <->
  exists k q body, it = Sub k q body /\
                   (st' = mkframe k q body :: st \/ below (mkframe k q body :: st) body st').
Proof.
  induction it using item_nested_ind; intros st st'; simpl;
    try (split; [intros [] | intros [k0 [q0 [b0 [Heq _]]]]; discriminate]).
  split.
  - intros [Heq | Hin].
    + exists k, q, body. split; [reflexivity | left; symmetry; exact Heq].
    + exists k, q, body. split; [reflexivity | right].
      apply in_flat_map in Hin. destruct Hin as [it' [Hit' Hin]].
      rewrite Forall_forall in H. apply (H it' Hit') in Hin.
      destruct Hin as [k' [q' [body' [Heq [Hst | Hb]]]]]; subst it'.
      * subst st'. apply below_here. exact Hit'.
      * eapply below_deeper; eauto.
  - intros [k0 [q0 [b0 [Heq Hor]]]]. inversion Heq; subst k0 q0 b0. clear Heq.
    destruct Hor as [Hst | Hb].
    + left. symmetry. exact Hst.
    + right. apply in_flat_map. rewrite Forall_forall in H.
      inversion Hb; subst.
      * exists (Sub k0 q0 body0). split; [assumption|].
        apply (H _ H0). exists k0, q0, body0. split; [reflexivity | left; reflexivity].
      * exists (Sub k0 q0 body0). split; [assumption|].
        apply (H _ H0). exists k0, q0, body0. split; [reflexivity | right; assumption].
Qed.

Lemma below_spec : forall st its st',
  In st' (flat_map (sub_scopes st) its) <-> below st its st'.
Proof.
  intros st its st'. rewrite in_flat_map. split.
  - intros [it [Hit Hin]]. apply sub_scopes_spec in Hin.
    destruct Hin as [k [q [body [Heq [Hst | Hb]]]]]; subst it.
    + subst st'. apply below_here. exact Hit.
    + eapply below_deeper; eauto.
  - intro Hb. inversion Hb; subst.
    + exists (Sub k q body). split; [assumption|]. apply sub_scopes_spec.
      exists k, q, body. split; [reflexivity | left; reflexivity].
    + exists (Sub k q body). split; [assumption|]. apply sub_scopes_spec.
      exists k, q, body. split; [reflexivity | right; assumption].
Qed.

Lemma below_extend : forall st0 its0 st k q body,
  below st0 its0 st ->
  In (Sub k q body) (match st with [] => [] | f :: _ => f_items f end) ->
  below st0 its0 (mkframe k q body :: st).
Proof.
  intros st0 its0 st k q body Hb. induction Hb; intro Hin.
  - simpl in Hin. eapply below_deeper; [exact H|]. apply below_here. exact Hin.
  - eapply below_deeper; [exact H|]. apply IHHb. exact Hin.
Qed.

Lemma below_nonempty : forall st its st', below st its st' -> st' <> [].
Proof. intros st its st' H. induction H; [discriminate | assumption]. Qed.

Lemma scope_in_below : forall m st, scope_in m st -> st = [] \/ below [] (m_items m) st.
Proof.
  intros m st H. induction H.
  - left. reflexivity.
  - right. destruct IHscope_in as [He | Hb].
    + subst st. simpl in H0. apply below_here. exact H0.
    + apply (below_extend _ _ _ k q body Hb).
      destruct st as [|f t]; [exfalso; eapply below_nonempty; eauto | exact H0].
Qed.

Lemma below_scope_in : forall m st its st',
  scope_in m st -> items_of m st = its -> below st its st' -> scope_in m st'.
Proof.
  intros m st its st' Hs He Hb. revert Hs He. induction Hb; intros Hs He.
  - apply si_sub; [exact Hs | rewrite He; exact H].
  - apply IHHb.
    + apply si_sub; [exact Hs | rewrite He; exact H].
    + reflexivity.
Qed.

Lemma all_scopes_spec : forall m st, In st (all_scopes m) <-> scope_in m st.
Proof.
  intros m st. unfold all_scopes. simpl. rewrite below_spec. split.
  - intros [He | Hb].
    + subst st. constructor.
    + eapply below_scope_in; [apply si_module | reflexivity | exact Hb].
  - intro H. apply scope_in_below in H. destruct H as [He | Hb]; [left; symmetry; exact He | right; exact Hb].
Qed.

(* ---- module globals ------------------------------------------------------------------------------------ *)
Lemma binds_of_spec : forall its x k, In (x, k) (binds_of its) <-> exists l, In (Bind x k l) its.
Proof.
  intros its x k. unfold binds_of. rewrite in_flat_map. split.
  - intros [it [Hit Hin]]. destruct it; simpl in Hin; try contradiction.
    destruct Hin as [Heq | []]. inversion Heq; subst. eauto.
  - intros [l Hin]. exists (Bind x k l). split; [exact Hin | left; reflexivity].
Qed.

Lemma global_bindings_spec : forall m x k, In (x, k) (global_bindings m) <-> global_binding m x k.
Proof.
  intros m x k. unfold global_bindings. rewrite in_app_iff, in_flat_map. split.
  - intros [Htop | [st [Hst Hin]]].
    + apply binds_of_spec in Htop. destruct Htop as [l Hl]. eapply gb_top; eauto.
    + destruct st as [|f t]; [contradiction|].
      apply filter_In in Hin. destruct Hin as [Hin Hg]. simpl in Hg.
      apply binds_of_spec in Hin. destruct Hin as [l Hl].
      apply decl_globalb_spec in Hg.
      apply (gb_decl m (f :: t) x k l); [apply all_scopes_spec; exact Hst | discriminate | exact Hg | exact Hl].
  - intro H. destruct H as [x k l Hin | st x k l Hs Hne Hg Hb].
    + left. apply binds_of_spec. eauto.
    + right. exists st. split; [apply all_scopes_spec; exact Hs|].
      destruct st as [|f t]; [contradiction|]. simpl in Hg, Hb.
      apply filter_In. split; [apply binds_of_spec; eauto | simpl; apply decl_globalb_spec; exact Hg].
Qed.

Lemma is_globalb_spec : forall m x, is_globalb (global_bindings m) x = true <-> is_global m x.
Proof.
  intros m x. unfold is_globalb, is_global. rewrite existsb_exists. split.
  - intros [[y k] [Hin Hb]]. simpl in Hb. apply String.eqb_eq in Hb. subst y.
    exists k. apply global_bindings_spec. exact Hin.
  - intros [k Hk]. exists (x, k). split; [apply global_bindings_spec; exact Hk | apply String.eqb_refl].
Qed.

Lemma memb_spec : forall x l, memb x l = true <-> In x l.
Proof.
  intros x l. unfold memb. rewrite existsb_exists. split.
  - intros [y [Hin Hb]]. apply String.eqb_eq in Hb. subst y. exact Hin.
  - intro Hin. exists x. split; [exact Hin | apply String.eqb_refl].
Qed.

(* ---- resolution ---------------------------------------------------------------------------------------- *)
Lemma resolves_b_spec : forall e m st x,
  resolves_b e (global_bindings m) st x = true <-> Resolves e m st x.
Proof.
  intros e m st x. unfold resolves_b, Resolves. split.
  - destruct (classify_b st x) as [r|] eqn:Ec; [|discriminate].
    apply classify_b_sound in Ec. intro H. exists r. split; [exact Ec|].
    intro Hr. subst r. apply orb_true_iff in H. destruct H as [H | H].
    + left. apply is_globalb_spec. exact H.
    + right. apply memb_spec. exact H.
  - intros [r [Hc Hr]]. apply classify_b_complete in Hc. rewrite Hc.
    destruct r; try reflexivity.
    apply orb_true_iff. destruct (Hr eq_refl) as [H | H].
    + left. apply is_globalb_spec. exact H.
    + right. apply memb_spec. exact H.
Qed.

Lemma chain_okb_spec : forall e attrs key, chain_okb e key attrs = true <-> chain_ok e key attrs.
Proof.
  intros e attrs. induction attrs as [|a rest IH]; intro key; simpl.
  - split; intro; [constructor | reflexivity].
  - destruct (mod_attr e key a) as [[key'|]|] eqn:Em.
    + rewrite IH. split.
      * intro H. eapply chain_mod; eauto.
      * intro H. inversion H as [ | k0 a0 r0 Hm | k0 a0 k1 r0 Hm Hc]; subst.
        -- rewrite Em in Hm. discriminate.
        -- rewrite Em in Hm. inversion Hm; subst. exact Hc.
    + split; intro H; [apply chain_plain; exact Em | reflexivity].
    + split; intro H; [discriminate|].
      inversion H as [ | k0 a0 r0 Hm | k0 a0 k1 r0 Hm Hc]; subst; rewrite Em in Hm; discriminate.
Qed.

Lemma opt_eqb_spec : forall a b, opt_eqb a b = true <-> a = b.
Proof.
  intros [a|] [b|]; simpl; split; intro H; try discriminate; try reflexivity.
  - apply String.eqb_eq in H. subst. reflexivity.
  - inversion H. apply String.eqb_refl.
Qed.

Lemma filter_name_spec : forall (g : list (string * bkind)) x y b,
  In (y, b) (filter (fun xk => String.eqb x (fst xk)) g) <-> y = x /\ In (x, b) g.
Proof.
  intros g x y b. rewrite filter_In. simpl. split.
  - intros [Hin Hb]. apply String.eqb_eq in Hb. subst y. split; [reflexivity | exact Hin].
  - intros [He Hin]. subst y. split; [exact Hin | apply String.eqb_refl].
Qed.

Lemma alias_of_spec : forall e m x key,
  alias_of e (global_bindings m) x = Some key <-> alias e m x key.
Proof.
  intros e m x key. unfold alias_of, alias.
  pose proof (filter_name_spec (global_bindings m) x) as HF.
  destruct (filter (fun xk => String.eqb x (fst xk)) (global_bindings m)) as [|[y b] rest] eqn:Ef.
  - split; [discriminate|]. intros [[k Hk] _]. apply global_bindings_spec in Hk.
    exfalso. apply (HF x k). split; [reflexivity | exact Hk].
  - assert (Hy : y = x) by (apply (HF y b); left; reflexivity). subst y.
    split.
    + destruct (bkind_module e b) as [key0|] eqn:Eb; [|discriminate].
      destruct (forallb _ rest) eqn:Ea; [|discriminate].
      intro H. inversion H; subst key0. clear H. split.
      * exists b. apply global_bindings_spec. apply (HF x b). left. reflexivity.
      * intros b' Hb'. apply global_bindings_spec in Hb'.
        assert (Hin : In (x, b') ((x, b) :: rest)) by (apply HF; split; [reflexivity | exact Hb']).
        destruct Hin as [Heq | Hin].
        -- inversion Heq; subst. exact Eb.
        -- rewrite forallb_forall in Ea. apply Ea in Hin. simpl in Hin. apply opt_eqb_spec in Hin. exact Hin.
    + intros [_ Hall].
      assert (Hb : bkind_module e b = Some key).
      { apply Hall. apply global_bindings_spec. apply (HF x b). left. reflexivity. }
      rewrite Hb.
      assert (Ea : forallb (fun xk => opt_eqb (bkind_module e (snd xk)) (Some key)) rest = true).
      { apply forallb_forall. intros [y b'] Hin. simpl. apply opt_eqb_spec. apply Hall.
        apply global_bindings_spec.
        assert (H2 : y = x /\ In (x, b') (global_bindings m)) by (apply HF; right; exact Hin).
        apply H2. }
      rewrite Ea. reflexivity.
Qed.

Lemma item_okb_spec : forall e m st it,
  item_okb e (global_bindings m) st it = true <-> item_ok e m st it.
Proof.
  intros e m st it. destruct it; simpl; try (split; intro; [exact I | reflexivity]).
  - apply resolves_b_spec.
  - rewrite andb_true_iff, resolves_b_spec. unfold attr_okb. split.
    + intros [Hr Ha]. split; [exact Hr|]. intros key Hc Hal.
      apply classify_b_complete in Hc. rewrite Hc in Ha.
      apply alias_of_spec in Hal. rewrite Hal in Ha. apply chain_okb_spec. exact Ha.
    + intros [Hr Ha]. split; [exact Hr|].
      destruct (classify_b st x) as [[| |]|] eqn:Ec; try reflexivity.
      destruct (alias_of e (global_bindings m) x) as [key|] eqn:Eal; [|reflexivity].
      apply chain_okb_spec. apply Ha; [apply classify_b_sound; exact Ec | apply alias_of_spec; exact Eal].
  - destruct (mod_attr e key name); split; intro H; try reflexivity; try discriminate.
    exfalso. apply H. reflexivity.
  - split; [discriminate | contradiction].
Qed.

Lemma pair_eqb_spec : forall a b, pair_eqb a b = true <-> a = b.
Proof.
  intros [a1 a2] [b1 b2]. unfold pair_eqb. simpl. rewrite andb_true_iff, !String.eqb_eq.
  split; [intros [H1 H2]; subst; reflexivity | intro H; inversion H; auto].
Qed.

Lemma exceptedb_spec : forall allow st it, exceptedb allow st it = true <-> excepted allow st it.
Proof.
  intros allow st it. unfold exceptedb, excepted. destruct (item_name it) as [x|].
  - rewrite existsb_exists. split.
    + intros [p [Hin Hb]]. apply pair_eqb_spec in Hb. subst p. exists x. split; [reflexivity | exact Hin].
    + intros [y [He Hin]]. inversion He; subst y. exists (unit_of st, x). split; [exact Hin|].
      apply pair_eqb_spec. reflexivity.
  - split; [discriminate | intros [y [He _]]; discriminate].
Qed.

(* ---- the checker decides the specification ------------------------------------------------------------- *)
Theorem checker_except_sound : forall allow e m,
  check_module_except allow e m = true -> module_ok_except allow e m.
Proof.
  intros allow e m H st it [Hs Hin] Hne. unfold check_module_except in H.
  rewrite forallb_forall in H. apply all_scopes_spec in Hs. specialize (H st Hs).
  rewrite forallb_forall in H. specialize (H it Hin).
  apply orb_true_iff in H. destruct H as [H | H].
  - exfalso. apply Hne. apply exceptedb_spec. exact H.
  - apply item_okb_spec. exact H.
Qed.

Theorem checker_except_complete : forall allow e m,
  module_ok_except allow e m -> check_module_except allow e m = true.
Proof.
  intros allow e m H. unfold check_module_except.
  apply forallb_forall. intros st Hs. apply forallb_forall. intros it Hin.
  apply all_scopes_spec in Hs.
  destruct (exceptedb allow st it) eqn:Ee; [reflexivity|]. simpl.
  apply item_okb_spec. apply H; [split; assumption|].
  apply (bool_spec_false _ _ (exceptedb_spec allow st it)). exact Ee.
Qed.

Lemma excepted_nil : forall st it, ~ excepted [] st it.
Proof. intros st it [x [_ []]]. Qed.

Theorem checker_sound : forall e m, check_module e m = true -> module_ok e m.
Proof.
  intros e m H st it Ho. apply (checker_except_sound [] e m H st it Ho). apply excepted_nil.
Qed.

Theorem checker_complete : forall e m, module_ok e m -> check_module e m = true.
Proof.
  intros e m H. apply checker_except_complete. intros st it Ho _. apply H. exact Ho.
Qed.

(* the report lists exactly the items that are neither ok nor excepted *)
Theorem unresolved_spec : forall allow e m u t l,
  In (u, t, l) (unresolved_except allow e m) <->
  exists st it, occurs m st it /\ ~ excepted allow st it /\ ~ item_ok e m st it /\
                u = unit_of st /\ t = item_text it /\ l = item_line it.
Proof.
  intros allow e m u t l. unfold unresolved_except. rewrite in_flat_map. split.
  - intros [st [Hs Hin]]. apply in_flat_map in Hin. destruct Hin as [it [Hit Hin]].
    destruct (exceptedb allow st it) eqn:Ee; simpl in Hin; [contradiction|].
    destruct (item_okb e (global_bindings m) st it) eqn:Eo; simpl in Hin; [contradiction|].
    destruct Hin as [Heq | []]. inversion Heq; subst.
    exists st, it. repeat split.
    + apply all_scopes_spec. exact Hs.
    + exact Hit.
    + apply (bool_spec_false _ _ (exceptedb_spec allow st it)). exact Ee.
    + apply (bool_spec_false _ _ (item_okb_spec e m st it)). exact Eo.
  - intros [st [it [[Hs Hit] [Hne [Hno [Hu [Ht Hl]]]]]]]. subst.
    exists st. split; [apply all_scopes_spec; exact Hs|].
    apply in_flat_map. exists it. split; [exact Hit|].
    apply (bool_spec_false _ _ (exceptedb_spec allow st it)) in Hne. rewrite Hne.
    apply (bool_spec_false _ _ (item_okb_spec e m st it)) in Hno. rewrite Hno.
    left. reflexivity.
Qed.

Theorem unresolved_nil_iff : forall allow e m,
  unresolved_except allow e m = [] <-> check_module_except allow e m = true.
Proof.
  intros allow e m. split.
  - intro Hnil. apply checker_except_complete. intros st it Ho Hne.
    destruct (item_okb e (global_bindings m) st it) eqn:Eo.
    + apply item_okb_spec. exact Eo.
    + exfalso.
      assert (Hin : In (unit_of st, item_text it, item_line it) (unresolved_except allow e m)).
      { apply unresolved_spec. exists st, it. repeat split; try apply Ho; try assumption.
        apply (bool_spec_false _ _ (item_okb_spec e m st it)). exact Eo. }
      rewrite Hnil in Hin. contradiction.
  - intro Hc. destruct (unresolved_except allow e m) as [|[[u t] l] rest] eqn:Eu; [reflexivity|].
    exfalso.
    assert (Hin : In (u, t, l) (unresolved_except allow e m)) by (rewrite Eu; left; reflexivity).
    apply unresolved_spec in Hin. destruct Hin as [st [it [Ho [Hne [Hno _]]]]].
    apply Hno. apply (checker_except_sound allow e m Hc st it Ho Hne).
Qed.

(* ---- the per-unit load lists contain every read that is looked up by name at run time -------------- *)
Lemma loaded_by_name_global : forall st x, classify st x RGlobal -> loaded_by_name st x = true.
Proof. intros st x H. unfold loaded_by_name. apply classify_b_complete in H. rewrite H. reflexivity. Qed.

Theorem unit_loads_cover_use : forall m st x l,
  occurs m st (Use x l) -> classify st x RGlobal -> In (x, [], l) (unit_loads m (unit_of st)).
Proof.
  intros m st x l [Hs Hin] Hc. unfold unit_loads. apply in_flat_map.
  exists st. split; [apply all_scopes_spec; exact Hs|].
  rewrite String.eqb_refl. apply in_flat_map. exists (Use x l). split; [exact Hin|].
  rewrite (loaded_by_name_global _ _ Hc). left. reflexivity.
Qed.

Theorem unit_loads_cover_attr : forall m st x attrs l,
  occurs m st (AttrUse x attrs l) -> classify st x RGlobal -> In (x, attrs, l) (unit_loads m (unit_of st)).
Proof.
  intros m st x attrs l [Hs Hin] Hc. unfold unit_loads. apply in_flat_map.
  exists st. split; [apply all_scopes_spec; exact Hs|].
  rewrite String.eqb_refl. apply in_flat_map. exists (AttrUse x attrs l). split; [exact Hin|].
  rewrite (loaded_by_name_global _ _ Hc). left. reflexivity.
Qed.

(* ---- lifting the per-module checks to the package ------------------------------------------------------ *)
Fixpoint all_checked (e : env) (known : module -> list (string * string)) (pkg : list module) : Prop :=
  match pkg with
  | [] => True
  | m :: t => check_module_except (known m) e m = true /\ all_checked e known t
  end.

Lemma all_modules_ok : forall e pkg known,
  all_checked e known pkg -> forall m, In m pkg -> module_ok_except (known m) e m.
Proof.
  intros e pkg known. induction pkg as [|m0 t IH]; simpl; intros H m Hin; [contradiction|].
  destruct H as [H0 Ht]. destruct Hin as [He | Hin].
  - subst m0. apply checker_except_sound. exact H0.
  - apply IH; assumption.
Qed.

(* ==== STRICT reading (added by the coverage audit) ======================================================= *)
Lemma is_global_strictb_spec : forall e m x,
  is_global_strictb e (global_bindings m) x = true <-> is_global_strict e m x.
Proof.
  intros e m x. unfold is_global_strictb, is_global_strict.
  rewrite andb_true_iff, negb_true_iff. split.
  - intros [H1 H2]. split.
    + apply existsb_exists in H1. destruct H1 as [[y b] [Hin Hb]]. simpl in Hb.
      apply andb_true_iff in Hb. destruct Hb as [Hy He]. apply String.eqb_eq in Hy. subst y.
      exists b. split; [apply global_bindings_spec; exact Hin | exact He].
    + intro Hd. apply global_bindings_spec in Hd.
      assert (Ht : existsb (fun xk => String.eqb x (fst xk) && bkind_is_del (snd xk)) (global_bindings m) = true).
      { apply existsb_exists. exists (x, BDel). split; [exact Hd|]. simpl. rewrite String.eqb_refl. reflexivity. }
      rewrite Ht in H2. discriminate.
  - intros [[b [Hb He]] Hnd]. split.
    + apply existsb_exists. exists (x, b). split; [apply global_bindings_spec; exact Hb|].
      simpl. rewrite String.eqb_refl, He. reflexivity.
    + destruct (existsb _ (global_bindings m)) eqn:Ex; [|reflexivity].
      exfalso. apply existsb_exists in Ex. destruct Ex as [[y b'] [Hin Hb']]. simpl in Hb'.
      apply andb_true_iff in Hb'. destruct Hb' as [Hy Hd]. apply String.eqb_eq in Hy. subst y.
      destruct b'; try discriminate. apply Hnd. apply global_bindings_spec. exact Hin.
Qed.

Lemma resolves_strict_b_spec : forall e m st x,
  resolves_strict_b e (global_bindings m) st x = true <-> Resolves_strict e m st x.
Proof.
  intros e m st x. unfold resolves_strict_b, Resolves_strict. split.
  - destruct (classify_b st x) as [r|] eqn:Ec; [|discriminate].
    apply classify_b_sound in Ec. intro H. exists r. split; [exact Ec|].
    intro Hr. subst r. apply orb_true_iff in H. destruct H as [H | H].
    + apply orb_true_iff in H. destruct H as [H | H].
      * left. destruct st; [|discriminate]. split; [reflexivity | apply is_globalb_spec; exact H].
      * right. left. apply is_global_strictb_spec. exact H.
    + right. right. apply memb_spec. exact H.
  - intros [r [Hc Hr]]. apply classify_b_complete in Hc. rewrite Hc.
    destruct r; try reflexivity.
    destruct (Hr eq_refl) as [[Hst Hg] | [Hg | Hb]].
    + subst st. apply is_globalb_spec in Hg. rewrite Hg. reflexivity.
    + apply is_global_strictb_spec in Hg. rewrite Hg. rewrite orb_true_r. reflexivity.
    + apply memb_spec in Hb. rewrite Hb. apply orb_true_r.
Qed.

Lemma filter_eff_spec : forall e (g : list (string * bkind)) x y b,
  In (y, b) (filter (fun xk => String.eqb x (fst xk) && effective e (snd xk)) g) <->
  y = x /\ In (x, b) g /\ effective e b = true.
Proof.
  intros e g x y b. rewrite filter_In. simpl. rewrite andb_true_iff. split.
  - intros [Hin [Hb He]]. apply String.eqb_eq in Hb. subst y. auto.
  - intros [Hy [Hin He]]. subst y. rewrite String.eqb_refl. auto.
Qed.

Lemma alias_of_strict_spec : forall e m x key,
  alias_of_strict e (global_bindings m) x = Some key <-> alias_strict e m x key.
Proof.
  intros e m x key. unfold alias_of_strict, alias_strict.
  pose proof (filter_eff_spec e (global_bindings m) x) as HF.
  destruct (is_global_strictb e (global_bindings m) x) eqn:Eg.
  2:{ split; [discriminate|]. intros [Hg _]. apply is_global_strictb_spec in Hg. congruence. }
  apply is_global_strictb_spec in Eg.
  destruct (filter _ (global_bindings m)) as [|[y b] rest] eqn:Ef.
  - split; [discriminate|]. intros _. exfalso.
    destruct Eg as [[b [Hb He]] _]. apply global_bindings_spec in Hb.
    apply (HF x b). auto.
  - assert (Hy : y = x /\ In (x, b) (global_bindings m) /\ effective e b = true)
      by (apply (HF y b); left; reflexivity).
    destruct Hy as [Hy [Hbin Hbe]]. subst y. split.
    + destruct (bkind_module e b) as [key0|] eqn:Eb; [|discriminate].
      destruct (forallb _ rest) eqn:Ea; [|discriminate].
      intro H. inversion H; subst key0. clear H. split; [exact Eg|].
      intros b' Hb' He'. apply global_bindings_spec in Hb'.
      assert (Hin : In (x, b') ((x, b) :: rest)) by (apply HF; auto).
      destruct Hin as [Heq | Hin].
      * inversion Heq; subst. exact Eb.
      * rewrite forallb_forall in Ea. apply Ea in Hin. simpl in Hin. apply opt_eqb_spec in Hin. exact Hin.
    + intros [_ Hall].
      assert (Hb : bkind_module e b = Some key).
      { apply Hall; [apply global_bindings_spec; exact Hbin | exact Hbe]. }
      rewrite Hb.
      assert (Ea : forallb (fun xk => opt_eqb (bkind_module e (snd xk)) (Some key)) rest = true).
      { apply forallb_forall. intros [y b'] Hin. simpl. apply opt_eqb_spec.
        assert (H2 : y = x /\ In (x, b') (global_bindings m) /\ effective e b' = true)
          by (apply HF; right; exact Hin).
        destruct H2 as [_ [H2 H3]]. apply Hall; [apply global_bindings_spec; exact H2 | exact H3]. }
      rewrite Ea. reflexivity.
Qed.

Lemma item_okb_strict_spec : forall e m st it,
  item_okb_strict e (global_bindings m) st it = true <-> item_ok_strict e m st it.
Proof.
  intros e m st it. destruct it; simpl; try (split; intro; [exact I | reflexivity]).
  - apply resolves_strict_b_spec.
  - rewrite andb_true_iff, resolves_strict_b_spec. unfold attr_ok_strictb. split.
    + intros [Hr Ha]. split; [exact Hr|]. intros key Hc Hal.
      apply classify_b_complete in Hc. rewrite Hc in Ha.
      apply alias_of_strict_spec in Hal. rewrite Hal in Ha. apply chain_okb_spec. exact Ha.
    + intros [Hr Ha]. split; [exact Hr|].
      destruct (classify_b st x) as [[| |]|] eqn:Ec; try reflexivity.
      destruct (alias_of_strict e (global_bindings m) x) as [key|] eqn:Eal; [|reflexivity].
      apply chain_okb_spec. apply Ha; [apply classify_b_sound; exact Ec | apply alias_of_strict_spec; exact Eal].
  - destruct (mod_attr e key name); split; intro H; try reflexivity; try discriminate.
    exfalso. apply H. reflexivity.
  - split; [discriminate | contradiction].
Qed.

Theorem checker_strict_sound : forall allow e m,
  check_module_strict allow e m = true -> module_ok_strict allow e m.
Proof.
  intros allow e m H st it [Hs Hin] Hne. unfold check_module_strict in H.
  rewrite forallb_forall in H. apply all_scopes_spec in Hs. specialize (H st Hs).
  rewrite forallb_forall in H. specialize (H it Hin).
  apply orb_true_iff in H. destruct H as [H | H].
  - exfalso. apply Hne. apply exceptedb_spec. exact H.
  - apply item_okb_strict_spec. exact H.
Qed.

Theorem checker_strict_complete : forall allow e m,
  module_ok_strict allow e m -> check_module_strict allow e m = true.
Proof.
  intros allow e m H. unfold check_module_strict.
  apply forallb_forall. intros st Hs. apply forallb_forall. intros it Hin.
  apply all_scopes_spec in Hs.
  destruct (exceptedb allow st it) eqn:Ee; [reflexivity|]. simpl.
  apply item_okb_strict_spec. apply H; [split; assumption|].
  apply (bool_spec_false _ _ (exceptedb_spec allow st it)). exact Ee.
Qed.

Theorem unresolved_strict_spec : forall allow e m u t l,
  In (u, t, l) (unresolved_strict allow e m) <->
  exists st it, occurs m st it /\ ~ excepted allow st it /\ ~ item_ok_strict e m st it /\
                u = unit_of st /\ t = item_text it /\ l = item_line it.
Proof.
  intros allow e m u t l. unfold unresolved_strict. rewrite in_flat_map. split.
  - intros [st [Hs Hin]]. apply in_flat_map in Hin. destruct Hin as [it [Hit Hin]].
    destruct (exceptedb allow st it) eqn:Ee; simpl in Hin; [contradiction|].
    destruct (item_okb_strict e (global_bindings m) st it) eqn:Eo; simpl in Hin; [contradiction|].
    destruct Hin as [Heq | []]. inversion Heq; subst.
    exists st, it. repeat split.
    + apply all_scopes_spec. exact Hs.
    + exact Hit.
    + apply (bool_spec_false _ _ (exceptedb_spec allow st it)). exact Ee.
    + apply (bool_spec_false _ _ (item_okb_strict_spec e m st it)). exact Eo.
  - intros [st [it [[Hs Hit] [Hne [Hno [Hu [Ht Hl]]]]]]]. subst.
    exists st. split; [apply all_scopes_spec; exact Hs|].
    apply in_flat_map. exists it. split; [exact Hit|].
    apply (bool_spec_false _ _ (exceptedb_spec allow st it)) in Hne. rewrite Hne.
    apply (bool_spec_false _ _ (item_okb_strict_spec e m st it)) in Hno. rewrite Hno.
    left. reflexivity.
Qed.

Fixpoint all_checked_strict (e : env) (known : module -> list (string * string)) (pkg : list module) : bool :=
  match pkg with
  | [] => true
  | m :: t => check_module_strict (known m) e m && all_checked_strict e known t
  end.

Lemma all_modules_ok_strict : forall e pkg known,
  all_checked_strict e known pkg = true -> forall m, In m pkg -> module_ok_strict (known m) e m.
Proof.
  intros e pkg known. induction pkg as [|m0 t IH]; simpl; intros H m Hin; [contradiction|].
  apply andb_true_iff in H. destruct H as [H0 Ht]. destruct Hin as [He | Hin].
  - subst m0. apply checker_strict_sound. exact H0.
  - apply IH; assumption.
Qed.
