(* C19 - the executable checker: boolean `check_module`, the list of unresolved reads, and the per-unit
   load lists that the harness compares with the bytecode of the real code objects.  Definitions only. *)
From PV Require Export Names.Scope.
From PV Require Export Common.ListX.
Open Scope string_scope.

Definition mkframe (k : skind) (q : string) (body : list item) : frame :=
  {| f_kind := k; f_qual := q; f_items := body |}.

(* every scope of the tree below (st, its), as stacks of frames *)
Fixpoint sub_scopes (st : list frame) (it : item) : list (list frame) :=
  match it with
  | Sub k q body =>
      let st' := mkframe k q body :: st in
      st' :: flat_map (sub_scopes st') body
  | _ => []
  end.
Definition all_scopes (m : module) : list (list frame) := [] :: flat_map (sub_scopes []) (m_items m).

(* ---- boolean versions of the predicates of Scope.v ------------------------------------------------- *)
Definition bindsb (its : list item) (x : string) : bool :=
  existsb (fun it => match it with Bind y _ _ => String.eqb x y | _ => false end) its.
Definition decl_globalb (its : list item) (x : string) : bool :=
  existsb (fun it => match it with GlobalDecl y => String.eqb x y | _ => false end) its.
Definition decl_nonlocalb (its : list item) (x : string) : bool :=
  existsb (fun it => match it with NonlocalDecl y => String.eqb x y | _ => false end) its.
Definition is_localb (its : list item) (x : string) : bool :=
  bindsb its x && negb (decl_globalb its x) && negb (decl_nonlocalb its x).

Definition is_class (k : skind) : bool := match k with KClass => true | _ => false end.

Fixpoint enclosing_b (st : list frame) (x : string) : res :=
  match st with
  | [] => RGlobal
  | f :: t =>
      if is_class (f_kind f) then enclosing_b t x
      else if is_localb (f_items f) x then RFree
      else if decl_globalb (f_items f) x then RGlobal
      else enclosing_b t x
  end.

Definition res_eqb (a b : res) : bool :=
  match a, b with RLocal, RLocal | RFree, RFree | RGlobal, RGlobal => true | _, _ => false end.

Definition classify_b (st : list frame) (x : string) : option res :=
  match st with
  | [] => Some RGlobal
  | f :: t =>
      if decl_globalb (f_items f) x then Some RGlobal
      else if decl_nonlocalb (f_items f) x then
        (if res_eqb (enclosing_b t x) RFree then Some RFree else None)
      else if bindsb (f_items f) x then Some RLocal
      else Some (enclosing_b t x)
  end.

(* all bindings of module globals *)
Definition binds_of (its : list item) : list (string * bkind) :=
  flat_map (fun it => match it with Bind x k _ => [(x, k)] | _ => [] end) its.
Definition global_bindings (m : module) : list (string * bkind) :=
  app (binds_of (m_items m))
      (flat_map (fun st => match st with
                           | [] => []
                           | f :: _ => filter (fun xk => decl_globalb (f_items f) (fst xk)) (binds_of (f_items f))
                           end) (all_scopes m)).

Definition memb (x : string) (l : list string) : bool := existsb (String.eqb x) l.
Definition is_globalb (g : list (string * bkind)) (x : string) : bool :=
  existsb (fun xk => String.eqb x (fst xk)) g.

Definition resolves_b (e : env) (g : list (string * bkind)) (st : list frame) (x : string) : bool :=
  match classify_b st x with
  | None => false
  | Some RGlobal => is_globalb g x || memb x (e_builtins e)
  | Some _ => true
  end.

Fixpoint chain_okb (e : env) (key : string) (attrs : list string) : bool :=
  match attrs with
  | [] => true
  | a :: rest =>
      match mod_attr e key a with
      | None => false
      | Some None => true
      | Some (Some key') => chain_okb e key' rest
      end
  end.

Definition opt_eqb (a b : option string) : bool :=
  match a, b with Some x, Some y => String.eqb x y | None, None => true | _, _ => false end.

(* Some key when the global x is an alias of the module `key` *)
Definition alias_of (e : env) (g : list (string * bkind)) (x : string) : option string :=
  match filter (fun xk => String.eqb x (fst xk)) g with
  | [] => None
  | (_, b) :: rest =>
      match bkind_module e b with
      | None => None
      | Some key =>
          if forallb (fun xk => opt_eqb (bkind_module e (snd xk)) (Some key)) rest then Some key else None
      end
  end.

Definition attr_okb (e : env) (g : list (string * bkind)) (st : list frame) (x : string)
           (attrs : list string) : bool :=
  match classify_b st x with
  | Some RGlobal => match alias_of e g x with Some key => chain_okb e key attrs | None => true end
  | _ => true
  end.

Definition item_okb (e : env) (g : list (string * bkind)) (st : list frame) (it : item) : bool :=
  match it with
  | Use x _ => resolves_b e g st x
  | AttrUse x attrs _ => resolves_b e g st x && attr_okb e g st x attrs
  | ImportFrom key name _ => match mod_attr e key name with Some _ => true | None => false end
  | Gap _ => false
  | _ => true
  end.

Definition pair_eqb (a b : string * string) : bool :=
  String.eqb (fst a) (fst b) && String.eqb (snd a) (snd b).
Definition exceptedb (allow : list (string * string)) (st : list frame) (it : item) : bool :=
  match item_name it with
  | Some x => existsb (pair_eqb (unit_of st, x)) allow
  | None => false
  end.

Definition check_module_except (allow : list (string * string)) (e : env) (m : module) : bool :=
  let g := global_bindings m in
  forallb (fun st => forallb (fun it => exceptedb allow st it || item_okb e g st it) (items_of m st))
          (all_scopes m).

Definition check_module (e : env) (m : module) : bool := check_module_except [] e m.

(* ---- reporting: what does not resolve, and why ------------------------------------------------------ *)
Definition item_line (it : item) : Z :=
  match it with
  | Use _ l | AttrUse _ _ l | ImportFrom _ _ l | Bind _ _ l => l
  | _ => 0
  end.
Definition item_text (it : item) : string :=
  match it with
  | Use x _ => x
  | AttrUse x attrs _ => fold_left (fun s a => s ++ "." ++ a) attrs x
  | ImportFrom key name _ => "from " ++ key ++ " import " ++ name
  | Gap msg => "translator gap: " ++ msg
  | _ => ""
  end.

(* (unit, name or chain, line) of every item that is not ok and not excepted *)
Definition unresolved_except (allow : list (string * string)) (e : env) (m : module)
  : list (string * string * Z) :=
  let g := global_bindings m in
  flat_map (fun st =>
              flat_map (fun it => if exceptedb allow st it || item_okb e g st it then []
                                  else [(unit_of st, item_text it, item_line it)])
                       (items_of m st))
           (all_scopes m).
Definition unresolved (e : env) (m : module) := unresolved_except [] e m.

(* ---- environment assembled from the regenerated facts ------------------------------------------------ *)
(* attributes of a module of the package = the globals of its regenerated model *)
Fixpoint dedup_names (l : list (string * bkind)) (seen : list string) : list string :=
  match l with
  | [] => []
  | (x, _) :: t => if memb x seen then dedup_names t seen else x :: dedup_names t (x :: seen)
  end.
Definition internal_attrs (e0 : env) (m : module) : list (string * option string) :=
  let g := global_bindings m in
  map (fun x => (x, alias_of e0 g x)) (dedup_names g []).
Definition mk_env (builtins : list string) (ext : list (string * list (string * option string)))
           (pkg : list module) : env :=
  let e0 := {| e_builtins := builtins; e_mods := ext |} in
  {| e_builtins := builtins;
     e_mods := app (map (fun m => (m_name m, internal_attrs e0 m)) pkg) ext |}.

(* ---- tie to the bytecode: per unit, the global-or-builtin (and class-local) loads ------------------ *)
(* what CPython compiles to LOAD_GLOBAL / LOAD_NAME in the code object of the unit (with its lambdas and
   comprehensions): reads classified RGlobal, and reads of class attributes inside the class body itself *)
Definition loaded_by_name (st : list frame) (x : string) : bool :=
  match classify_b st x with
  | Some RGlobal => true
  | Some RLocal => match st with f :: _ => is_class (f_kind f) | [] => false end
  | _ => false
  end.

Definition load : Type := string * list string * Z.
Definition unit_loads (m : module) (unit : string) : list load :=
  flat_map (fun st =>
              if String.eqb (unit_of st) unit then
                flat_map (fun it => match it with
                                    | Use x l => if loaded_by_name st x then [(x, [], l)] else []
                                    | AttrUse x attrs l => if loaded_by_name st x then [(x, attrs, l)] else []
                                    | _ => []
                                    end) (items_of m st)
              else [])
           (all_scopes m).

Definition load_eqb (a b : load) : bool :=
  let '(x, xs, l) := a in let '(y, ys, k) := b in
  String.eqb x y && eqb_list String.eqb xs ys && (l =? k)%Z.
Definition subsetb (a b : list load) : bool := forallb (fun x => existsb (load_eqb x) b) a.
Definition check_unit (m : module) (unit : string) (expected : list load) : bool :=
  let got := unit_loads m unit in subsetb got expected && subsetb expected got.

(* the units of a module (for the harness: every unit must be compared) *)
Definition units (m : module) : list string :=
  "<module>" :: flat_map (fun st => match st with
                                    | f :: _ => match f_kind f with
                                                | KFunction | KClass => [f_qual f]
                                                | _ => []
                                                end
                                    | [] => []
                                    end) (all_scopes m).
Definition check_units (m : module) (expected : list string) : bool :=
  let got := units m in
  forallb (fun u => memb u expected) got && forallb (fun u => memb u got) expected.

(* recorded, unrepaired defects: (module, (unit, name)) regenerated from /verif/known_findings.txt *)
Definition known_for (known : list (string * (string * string))) (mname : string) : list (string * string) :=
  map snd (filter (fun p => String.eqb (fst p) mname) known).

(* ==== STRICT reading (added by the coverage audit; specification at the end of Scope.v) ================== *)
Definition bkind_is_del (b : bkind) : bool := match b with BDel => true | _ => false end.

Definition is_global_strictb (e : env) (g : list (string * bkind)) (x : string) : bool :=
  existsb (fun xk => String.eqb x (fst xk) && effective e (snd xk)) g &&
  negb (existsb (fun xk => String.eqb x (fst xk) && bkind_is_del (snd xk)) g).

Definition resolves_strict_b (e : env) (g : list (string * bkind)) (st : list frame) (x : string) : bool :=
  match classify_b st x with
  | None => false
  | Some RGlobal =>
      (match st with [] => is_globalb g x | _ :: _ => false end)
      || is_global_strictb e g x || memb x (e_builtins e)
  | Some _ => true
  end.

Definition alias_of_strict (e : env) (g : list (string * bkind)) (x : string) : option string :=
  if is_global_strictb e g x then
    match filter (fun xk => String.eqb x (fst xk) && effective e (snd xk)) g with
    | [] => None
    | (_, b) :: rest =>
        match bkind_module e b with
        | None => None
        | Some key =>
            if forallb (fun xk => opt_eqb (bkind_module e (snd xk)) (Some key)) rest then Some key else None
        end
    end
  else None.

Definition attr_ok_strictb (e : env) (g : list (string * bkind)) (st : list frame) (x : string)
           (attrs : list string) : bool :=
  match classify_b st x with
  | Some RGlobal => match alias_of_strict e g x with Some key => chain_okb e key attrs | None => true end
  | _ => true
  end.

Definition item_okb_strict (e : env) (g : list (string * bkind)) (st : list frame) (it : item) : bool :=
  match it with
  | Use x _ => resolves_strict_b e g st x
  | AttrUse x attrs _ => resolves_strict_b e g st x && attr_ok_strictb e g st x attrs
  | ImportFrom key name _ => match mod_attr e key name with Some _ => true | None => false end
  | Gap _ => false
  | _ => true
  end.

Definition check_module_strict (allow : list (string * string)) (e : env) (m : module) : bool :=
  let g := global_bindings m in
  forallb (fun st => forallb (fun it => exceptedb allow st it || item_okb_strict e g st it) (items_of m st))
          (all_scopes m).

Definition unresolved_strict (allow : list (string * string)) (e : env) (m : module)
  : list (string * string * Z) :=
  let g := global_bindings m in
  flat_map (fun st =>
              flat_map (fun it => if exceptedb allow st it || item_okb_strict e g st it then []
                                  else [(unit_of st, item_text it, item_line it)])
                       (items_of m st))
           (all_scopes m).

(* attributes of a module of the package = its globals that are really bound after import *)
Definition internal_attrs_strict (e0 : env) (m : module) : list (string * option string) :=
  let g := global_bindings m in
  map (fun x => (x, alias_of_strict e0 g x)) (filter (is_global_strictb e0 g) (dedup_names g [])).
Definition mk_env_strict (builtins : list string) (ext : list (string * list (string * option string)))
           (pkg : list module) : env :=
  let e0 := {| e_builtins := builtins; e_mods := ext |} in
  {| e_builtins := builtins;
     e_mods := app (map (fun m => (m_name m, internal_attrs_strict e0 m)) pkg) ext |}.
