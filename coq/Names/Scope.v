(* C19 - scope trees of Python modules and a RELATIONAL definition of Python name resolution
   (language reference 4.2.2 "Resolution of names"; CPython symtable.c analyze_name/analyze_block).

   The scope tree of each psiaudio module is REGENERATED from the source by translate/pynames2coq.py on every
   run (coq/gen/Names_<module>.v); nothing in this file depends on the source.  Definitions and specification only. *)
From Coq Require Export String List ZArith Bool.
Export ListNotations.
Open Scope string_scope.

(* ---- what the translator emits ------------------------------------------------------------------- *)
(* kinds of nested scopes; KFunction/KLambda/KComp are "function-like" (their bindings are visible to
   scopes nested in them), KClass is not (class bodies are skipped when a nested function looks a name up) *)
Inductive skind := KFunction | KLambda | KComp | KClass.

(* how a name was bound *)
Inductive bkind :=
| BPlain                                  (* assignment, def, class, for/with/except target, argument, del, ... *)
| BImport (key : string)                  (* `import a.b as x` (key "a.b")  /  `import a.b` binds `a` (key "a") *)
| BFrom (key : string) (name : string)    (* `from key import name [as x]` *)
(* added by the coverage audit *)
| BAttr (b : bkind) (a : string)          (* module-level `x = r.a1...an` with r bound by an import: the attribute
                                             a of the value denoted by b (x = r itself is emitted with r's kind) *)
| BInert (why : string)                   (* a binding statement that does NOT take effect when the module is
                                             imported: inside `if __name__ == '__main__':`, or the name of a
                                             module-level `except ... as e` (deleted when the clause ends) *)
| BDel.                                   (* `del x`: a binding for the compiler, an UNbinding at run time *)

Inductive item :=
| Bind (x : string) (k : bkind) (line : Z)           (* x is bound in this scope *)
| Use (x : string) (line : Z)                        (* the name x is read (ast.Name in Load context) *)
| AttrUse (x : string) (attrs : list string) (line : Z)  (* x.a1.a2...an is read (x itself is read too) *)
| ImportFrom (key : string) (name : string) (line : Z)   (* `from key import name`, key a module of the package *)
| GlobalDecl (x : string)
| NonlocalDecl (x : string)
| Gap (msg : string)                                 (* a construct the translator does not know: never accepted *)
| Sub (k : skind) (qualname : string) (body : list item).   (* nested scope; decorators, defaults, bases and the
                                                               first comprehension iterable are emitted OUTSIDE it *)

Record module := { m_name : string; m_items : list item }.

(* facts about the environment the code runs in *)
Record env := {
  e_builtins : list string;                                      (* dir(builtins) *)
  e_mods : list (string * list (string * option string))         (* module key -> its attributes;
                                                                    Some k' = the attribute is the module k' *)
}.

(* ---- scopes of a module ---------------------------------------------------------------------------- *)
Record frame := { f_kind : skind; f_qual : string; f_items : list item }.

(* a scope is identified by the stack of frames enclosing it, innermost first; [] is the module scope *)
Definition items_of (m : module) (st : list frame) : list item :=
  match st with [] => m_items m | f :: _ => f_items f end.

Inductive scope_in (m : module) : list frame -> Prop :=
| si_module : scope_in m []
| si_sub : forall st k q body,
    scope_in m st -> In (Sub k q body) (items_of m st) ->
    scope_in m ({| f_kind := k; f_qual := q; f_items := body |} :: st).

(* the item `it` occurs (directly) in the scope `st` of `m` *)
Definition occurs (m : module) (st : list frame) (it : item) : Prop :=
  scope_in m st /\ In it (items_of m st).

(* ---- classification of a name in a scope (compile time) --------------------------------------------- *)
Definition binds (its : list item) (x : string) : Prop := exists k l, In (Bind x k l) its.
Definition decl_global (its : list item) (x : string) : Prop := In (GlobalDecl x) its.
Definition decl_nonlocal (its : list item) (x : string) : Prop := In (NonlocalDecl x) its.
(* "a name assigned anywhere in a block is local to it" unless declared global/nonlocal there *)
Definition is_local (its : list item) (x : string) : Prop :=
  binds its x /\ ~ decl_global its x /\ ~ decl_nonlocal its x.

Inductive res :=
| RLocal     (* local of the scope itself (function local or class attribute): outside the claim *)
| RFree      (* local of an enclosing function-like scope (closure cell): outside the claim *)
| RGlobal.   (* looked up in the module globals, then in builtins, when the code runs *)

(* how a name NOT decided by the scope itself is seen through the enclosing scopes `st` (innermost first) *)
Inductive enclosing : list frame -> string -> res -> Prop :=
| enc_module : forall x, enclosing [] x RGlobal
| enc_class : forall f st x r,             (* class scopes do not extend to nested scopes *)
    f_kind f = KClass -> enclosing st x r -> enclosing (f :: st) x r
| enc_local : forall f st x,
    f_kind f <> KClass -> is_local (f_items f) x -> enclosing (f :: st) x RFree
| enc_global : forall f st x,              (* `global x` in an enclosing function hides outer bindings *)
    f_kind f <> KClass -> decl_global (f_items f) x -> enclosing (f :: st) x RGlobal
| enc_pass : forall f st x r,
    f_kind f <> KClass -> ~ is_local (f_items f) x -> ~ decl_global (f_items f) x ->
    enclosing st x r -> enclosing (f :: st) x r.

Inductive classify : list frame -> string -> res -> Prop :=
| cl_module : forall x, classify [] x RGlobal
| cl_global : forall f st x, decl_global (f_items f) x -> classify (f :: st) x RGlobal
| cl_nonlocal : forall f st x,             (* otherwise: SyntaxError "no binding for nonlocal found" *)
    ~ decl_global (f_items f) x -> decl_nonlocal (f_items f) x ->
    enclosing st x RFree -> classify (f :: st) x RFree
| cl_local : forall f st x, is_local (f_items f) x -> classify (f :: st) x RLocal
| cl_outer : forall f st x r,
    ~ binds (f_items f) x -> ~ decl_global (f_items f) x -> ~ decl_nonlocal (f_items f) x ->
    enclosing st x r -> classify (f :: st) x r.

(* ---- module globals ---------------------------------------------------------------------------------- *)
(* names bound anywhere at module level, or declared `global` and bound in some nested scope *)
Inductive global_binding (m : module) : string -> bkind -> Prop :=
| gb_top : forall x k l, In (Bind x k l) (m_items m) -> global_binding m x k
| gb_decl : forall st x k l,
    scope_in m st -> st <> [] -> In (GlobalDecl x) (items_of m st) -> In (Bind x k l) (items_of m st) ->
    global_binding m x k.

Definition is_global (m : module) (x : string) : Prop := exists k, global_binding m x k.

(* THE resolution predicate: a read of x in scope st of m cannot fail on an unresolved global name *)
Definition Resolves (e : env) (m : module) (st : list frame) (x : string) : Prop :=
  exists r, classify st x r /\ (r = RGlobal -> is_global m x \/ In x (e_builtins e)).

(* ---- attributes of imported modules ------------------------------------------------------------------- *)
Fixpoint assoc {A} (k : string) (l : list (string * A)) : option A :=
  match l with
  | [] => None
  | (k', v) :: t => if String.eqb k k' then Some v else assoc k t
  end.

(* Some None: plain attribute; Some (Some k'): attribute that is the module k'; None: no such attribute/module *)
Definition mod_attr (e : env) (key a : string) : option (option string) :=
  match assoc key (e_mods e) with Some attrs => assoc a attrs | None => None end.

(* reading key.a1.a2...: every module-typed prefix has the next attribute; after the first non-module value
   the rest are instance attributes (outside the claim) *)
Inductive chain_ok (e : env) : string -> list string -> Prop :=
| chain_nil : forall key, chain_ok e key []
| chain_plain : forall key a rest, mod_attr e key a = Some None -> chain_ok e key (a :: rest)
| chain_mod : forall key a key' rest,
    mod_attr e key a = Some (Some key') -> chain_ok e key' rest -> chain_ok e key (a :: rest).

(* the module object a binding denotes, if it is one *)
Fixpoint bkind_module (e : env) (b : bkind) : option string :=
  match b with
  | BPlain => None
  | BImport key => Some key
  | BFrom key name => match mod_attr e key name with Some (Some k') => Some k' | _ => None end
  | BAttr b' a => match bkind_module e b' with
                  | Some key => match mod_attr e key a with Some (Some k') => Some k' | _ => None end
                  | None => None
                  end
  | BInert _ => None
  | BDel => None
  end.

(* the global x denotes the imported module `key`: it is bound, and every binding of it is an import of that module *)
Definition alias (e : env) (m : module) (x key : string) : Prop :=
  is_global m x /\ forall b, global_binding m x b -> bkind_module e b = Some key.

(* ---- the property for one item, one module --------------------------------------------------------- *)
Definition item_ok (e : env) (m : module) (st : list frame) (it : item) : Prop :=
  match it with
  | Use x _ => Resolves e m st x
  | AttrUse x attrs _ =>
      Resolves e m st x /\
      (forall key, classify st x RGlobal -> alias e m x key -> chain_ok e key attrs)
  | ImportFrom key name _ => mod_attr e key name <> None
  | Gap _ => False
  | _ => True
  end.

(* the function/class/module a scope is attributed to: lambdas and comprehensions belong to the nearest
   enclosing def or class body (their code is reported, and compared with the bytecode, under that name) *)
Fixpoint unit_of (st : list frame) : string :=
  match st with
  | [] => "<module>"
  | f :: t => match f_kind f with
              | KFunction | KClass => f_qual f
              | _ => unit_of t
              end
  end.

Definition item_name (it : item) : option string :=
  match it with Use x _ => Some x | AttrUse x _ _ => Some x | _ => None end.

(* reads excluded by name: recorded, unrepaired defects (unit, name) *)
Definition excepted (allow : list (string * string)) (st : list frame) (it : item) : Prop :=
  exists x, item_name it = Some x /\ In (unit_of st, x) allow.

Definition module_ok_except (allow : list (string * string)) (e : env) (m : module) : Prop :=
  forall st it, occurs m st it -> ~ excepted allow st it -> item_ok e m st it.

Definition module_ok (e : env) (m : module) : Prop :=
  forall st it, occurs m st it -> item_ok e m st it.

(* ==== STRICT reading (added by the coverage audit) =====================================================
   The definitions above count a name as a module global as soon as SOME statement binds it.  The strict
   reading below also asks that the binding can take effect when the module is imported in THIS environment:
   - an `import` of a module that is not installed (no facts in the environment) binds nothing - the statement
     raises, and if it is guarded by try/except the name simply stays unbound;
   - `from m import n` binds nothing when m has no attribute n;
   - bindings inside `if __name__ == '__main__':` and the name of a module-level `except ... as e` do not exist
     after import (BInert);
   - a name deleted by `del` at module level (or through `global`) is treated as unbound (BDel).
   Conditional bindings whose condition cannot be decided statically (if/else on a run-time value, for/while
   bodies and their else, try bodies other than imports) still count as bound: "possibly unbound" is outside the
   claim; the live oracle of the harness judges them in the environment at hand.
   Module-level code itself (scope []) ran to completion when the module was imported, so its own reads are
   judged with the permissive reading; the claim is about functions, methods and class bodies. *)
Fixpoint effective (e : env) (b : bkind) : bool :=
  match b with
  | BPlain => true
  | BImport key => match assoc key (e_mods e) with Some _ => true | None => false end
  | BFrom key name => match mod_attr e key name with Some _ => true | None => false end
  | BAttr b' a => effective e b' &&
                  match bkind_module e b' with
                  | Some key => match mod_attr e key a with Some _ => true | None => false end
                  | None => true      (* attribute of a non-module value: outside the claim *)
                  end
  | BInert _ => false
  | BDel => false
  end.

Definition is_global_strict (e : env) (m : module) (x : string) : Prop :=
  (exists b, global_binding m x b /\ effective e b = true) /\ ~ global_binding m x BDel.

Definition Resolves_strict (e : env) (m : module) (st : list frame) (x : string) : Prop :=
  exists r, classify st x r /\
            (r = RGlobal -> (st = [] /\ is_global m x) \/ is_global_strict e m x \/ In x (e_builtins e)).

(* the global x denotes the module `key`: every binding of it that can take effect is an import of that module *)
Definition alias_strict (e : env) (m : module) (x key : string) : Prop :=
  is_global_strict e m x /\
  forall b, global_binding m x b -> effective e b = true -> bkind_module e b = Some key.

Definition item_ok_strict (e : env) (m : module) (st : list frame) (it : item) : Prop :=
  match it with
  | Use x _ => Resolves_strict e m st x
  | AttrUse x attrs _ =>
      Resolves_strict e m st x /\
      (forall key, classify st x RGlobal -> alias_strict e m x key -> chain_ok e key attrs)
  | ImportFrom key name _ => mod_attr e key name <> None
  | Gap _ => False
  | _ => True
  end.

Definition module_ok_strict (allow : list (string * string)) (e : env) (m : module) : Prop :=
  forall st it, occurs m st it -> ~ excepted allow st it -> item_ok_strict e m st it.
