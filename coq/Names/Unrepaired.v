(* C19 - the recorded (unrepaired) defect of util.iir, on the frozen copy `iir_unrepaired` of Names/Env.v. *)
From PV Require Import Names.Scope Names.Checker Names.Sound Names.Env.

Lemma iir_unrepaired_refuted : forall ext,
  ~ module_ok {| e_builtins := gen_builtins; e_mods := ext |} iir_unrepaired.
Proof.
  intros ext H. apply checker_complete in H. vm_compute in H. discriminate.
Qed.
