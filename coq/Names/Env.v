(* C19 - the environment and the ten module models, assembled from the REGENERATED files of coq/gen.
   Definitions only. *)
From PV Require Export Names.Checker.
From PV Require Export gen.Names_env gen.Names_known gen.Names_stim gen.Names_pipeline gen.Names_util
  gen.Names_queue gen.Names_calibration gen.Names_buffer gen.Names_efr gen.Names_stats gen.Names_weighting
  gen.Names_plot gen.Names_selftest gen.Names_selftest2.

Definition gen_pkg : list module :=
  [gen_stim; gen_pipeline; gen_util; gen_queue; gen_calibration; gen_buffer; gen_efr; gen_stats;
   gen_weighting; gen_plot].

(* builtins and third-party/stdlib module attributes as found in the installed interpreter; attributes of the
   package's own modules = the globals of their regenerated models *)
Definition gen_env : env := mk_env gen_builtins gen_ext gen_pkg.

(* reads excluded from the claim for module m: exactly the `known: property=C19 key=<module>:<unit>:<name>`
   lines of /verif/known_findings.txt (gen/Names_known.v); empty when nothing is recorded *)
Definition known (m : module) : list (string * string) := known_for gen_known (m_name m).

(* a frozen copy of the shape of util.iir as found (reads `fs`, which nothing binds): the recorded defect *)
Definition iir_unrepaired : module :=
  {| m_name := "psiaudio.util_unrepaired";
     m_items := [Bind "iir" BPlain 543;
                 Sub KFunction "iir" [Bind "truncate" BPlain 544; Use "int" 584; Use "truncate" 584;
                                      Use "fs" 584; Bind "truncate_samples" BPlain 584]] |}.

(* ---- added by the coverage audit: the STRICT reading (end of Scope.v) ------------------------------------ *)
(* attributes of the package's own modules = only the globals that are really bound after import *)
Definition gen_env_strict : env := mk_env_strict gen_builtins gen_ext gen_pkg.

(* the importable self-test module (translate/pynames_selftest2.py): the harness imports it, calls every probe and
   passes the units whose probe raised NameError / AttributeError-on-a-module; the strict checker must report
   exactly those units *)
Definition selftest2_env : env := mk_env_strict gen_builtins gen_ext [gen_selftest2].
Definition check_strict_report (expected : list string) : bool :=
  let got := map (fun r => fst (fst r)) (unresolved_strict [] selftest2_env gen_selftest2) in
  forallb (fun u => memb u expected) got && forallb (fun u => memb u got) expected.
