(* C05 - placeholder while the model is validated *)
From PV Require Import Extract.Model Extract.Spec.
