(* C05 - Epoch extraction returns exactly the requested samples, once, for any chunking.
   Property theorems only; every proof is `exact <lemma of Extract/Proofs*.v>`.

   Model.run B k fs : what extract_epochs (buffer_samples B, input kind k) shows to the outside, send by
   send, for the schedule fs; a feed of fs = the chunk sent + what was appended to `queue` and
   `removed_queue` before that send + whether source_complete is set.  Chunks are arbitrary lists of
   samples of arbitrary lengths (empty chunks included): "any stream, any chunking".

   wf_sched B fs (Spec.v), the schedules the property quantifies over:
     B >= 0, epoch lengths n >= 0, distinct (t0,key),
     epochs that become complete at the same send are equally long [lengths_ok; they are stacked into
       one array - always true when epoch_size is given; see C05_unequal_lengths_refuted],
     every request's first sample is still in the look-back chunks (or in the future) at the send at
     which it becomes visible [visible B fs],
     no removal notice is processed at an earlier send than the request it names.
   arrives fs a r      : request r is on `queue` before send #a
   removed_at fs j k   : key k is on `removed_queue` before send #j
   seen fs j           : number of samples sent before send #j
   s_item stream r     : the epoch {key, metadata of r, s0 = lo, data = stream[lo : lo+n]}           *)
From PV Require Import Extract.Model Extract.Spec Extract.ProofsRefine Extract.ProofsSpec Extract.Proofs.

(* The coroutine machinery (one capture per pending epoch accumulating slices, replay over the buffered
   prior chunks, pruning) computes, send by send, exactly what the abstract specification computes
   (cut stream[lo, lo+n) when its last sample is in), for EVERY schedule with n >= 0: also for requests
   beyond the look-back, duplicates, unequal lengths. *)
Theorem C05_refines_spec : forall B k fs, Forall (fun r => 0 <= r_n r) (all_reqs fs) ->
  run B k fs = spec_run B k fs.
Proof. exact run_refines_spec. Qed.
Print Assumptions C05_refines_spec.

(* No send of a well-formed schedule raises; every send is answered. *)
Theorem C05_no_error : forall B k fs, wf_sched B fs = true ->
  Forall (fun o => is_err o = false) (run B k fs) /\ length (run B k fs) = length fs.
Proof. exact no_error. Qed.
Print Assumptions C05_no_error.

(* Every request that is never removed and whose samples all arrive is delivered exactly once, and
   the delivered epoch is exactly stream[lo, lo+n) with that request's key and metadata. *)
Theorem C05_exact_once : forall B k fs a r,
  wf_sched B fs = true -> arrives fs a r ->
  (forall j, ~ removed_at fs j (r_key r)) ->
  r_lo r + r_n r <= zlen (stream_of fs) ->
  count_key (r_key r) (delivered (run B k fs)) = 1 /\
  In (s_item (stream_of fs) r) (delivered (run B k fs)) /\
  (forall it, In it (delivered (run B k fs)) -> i_key it = r_key r -> it = s_item (stream_of fs) r).
Proof. exact exact_once. Qed.
Print Assumptions C05_exact_once.

(* A request removed at send #j is never delivered if its last sample had not arrived before that
   send (or if j is the very send at which it became visible). *)
Theorem C05_removed_never : forall B k fs a j r,
  wf_sched B fs = true -> arrives fs a r -> removed_at fs j (r_key r) ->
  ((j <= a)%nat \/ seen fs j < r_lo r + r_n r) ->
  count_key (r_key r) (delivered (run B k fs)) = 0.
Proof. exact removed_never. Qed.
Print Assumptions C05_removed_never.

(* Removal after completion does not affect the epoch: if every removal of the request happens at a
   later send than its arrival and after its last sample had been sent, it is delivered exactly once,
   with exactly its samples.  (C05_exact_once is the case without removals.) *)
Theorem C05_removed_after_unaffected : forall B k fs a r,
  wf_sched B fs = true -> arrives fs a r ->
  (forall j, removed_at fs j (r_key r) -> (a < j)%nat /\ r_lo r + r_n r <= seen fs j) ->
  r_lo r + r_n r <= zlen (stream_of fs) ->
  count_key (r_key r) (delivered (run B k fs)) = 1 /\
  In (s_item (stream_of fs) r) (delivered (run B k fs)) /\
  (forall it, In it (delivered (run B k fs)) -> i_key it = r_key r -> it = s_item (stream_of fs) r).
Proof. exact delivered_once. Qed.
Print Assumptions C05_removed_after_unaffected.

(* Every delivered epoch is the exact slice of some request of the schedule and carries that
   request's own metadata identity (i_rid), key and start sample; none is a "missed" stub. *)
Theorem C05_metadata : forall B k fs, wf_sched B fs = true ->
  forall it, In it (delivered (run B k fs)) ->
  exists a r, arrives fs a r /\ it = s_item (stream_of fs) r.
Proof. exact delivered_sound. Qed.
Print Assumptions C05_metadata.

(* The all-done callback fires at most once - for every schedule whatsoever. *)
Theorem C05_done_once : forall B k fs, fire_count (run B k fs) <= 1.
Proof. exact done_at_most_once. Qed.
Print Assumptions C05_done_once.

(* It fires only at a send after which nothing is pending, with the source flagged complete, and not
   after an earlier firing - for every schedule whatsoever. *)
Theorem C05_done_only_when : forall B k fs j st b,
  nth_error (trace B k xinit fs) j = Some (st, FOut b true) ->
  pending st = [] /\ (exists f, nth_error fs j = Some f /\ f_complete f = true) /\
  existsb fired (firstn j (run B k fs)) = false.
Proof. exact done_only_when. Qed.
Print Assumptions C05_done_only_when.

(* ... at which, for a well-formed schedule, no request waits in the specification either: every
   request made visible so far has been delivered or removed. *)
Theorem C05_done_all_delivered : forall B k fs j st b,
  wf_sched B fs = true ->
  nth_error (trace B k xinit fs) j = Some (st, FOut b true) ->
  exists s, nth_error (spec_trace B k sinit fs) j = Some (s, FOut b true) /\ s_wait s = [].
Proof. exact done_means_all_delivered. Qed.
Print Assumptions C05_done_all_delivered.

(* It does fire: a send with the source complete and nothing pending that does not fire the callback
   comes after the send that did. *)
Theorem C05_done_fires : forall B k fs j st b f,
  nth_error (trace B k xinit fs) j = Some (st, FOut b false) -> nth_error fs j = Some f ->
  f_complete f = true -> pending st = [] ->
  existsb fired (firstn j (run B k fs)) = true.
Proof. exact done_fires. Qed.
Print Assumptions C05_done_fires.

(* The preconditions in the user's terms: it is enough that all epochs have one length n0 (epoch_size
   given) and that each request's first sample is not older than B samples before the chunk being
   sent when the request becomes visible (the configured look-back). *)
Theorem C05_lookback_sufficient : forall B n0 fs,
  (0 <=? B) && (0 <=? n0) && forallb (fun r => r_n r =? n0) (all_reqs fs) && nodupz (req_keys fs) &&
  within_lookback B 0 fs && rems_ok fs = true -> wf_sched B fs = true.
Proof. exact lookback_ok. Qed.
Print Assumptions C05_lookback_sufficient.

(* Without lengths_ok the statement is false of the faithful model (and of the code): two requests with
   different per-request `duration` whose last samples arrive with the same chunk make the send raise
   (np.concatenate of unequal rows), nothing is delivered and the extractor is dead afterwards.
   All other preconditions hold for the witness. *)
Theorem C05_unequal_lengths_refuted : exists B k fs a r,
  (0 <=? B) && forallb (fun r => 0 <=? r_n r) (all_reqs fs) && nodupz (req_keys fs) && visible B fs &&
  rems_ok fs = true /\
  arrives fs a r /\ (forall j, ~ removed_at fs j (r_key r)) /\ r_lo r + r_n r <= zlen (stream_of fs) /\
  count_key (r_key r) (delivered (run B k fs)) = 0 /\ run B k fs = [FErr EStack].
Proof. exact unequal_lengths_refuted. Qed.
Print Assumptions C05_unequal_lengths_refuted.

(* ------------------------------------------------------------------------------------------------ *)
(* The hypotheses are satisfiable: 14 samples in chunks of 3,4,1,4,2; look-back 3; epochs of 5 samples.
   key 0: [2,7) asked before any data - spans three chunks;
   key 1: [5,10) asked at send #3, when [3,8) has already gone by - replayed from the look-back;
   key 2: [6,11) asked at send #1, removed at send #3 - its last sample (10) arrives with send #3;
   key 3: [1,6) asked at send #0, removed at send #4 - after it was delivered. *)
Definition ex_sched : list feed :=
  [ mkfeed [10;11;12] [] [mkreq 0 2 5 100; mkreq 3 1 5 103] false;
    mkfeed [13;14;15;16] [] [mkreq 2 6 5 102] false;
    mkfeed [17] [] [] false;
    mkfeed [18;19;20;21] [2] [mkreq 1 5 5 101] true;
    mkfeed [22;23] [3] [] true ].

Example C05_ex_wf : wf_sched 3 ex_sched = true.
Proof. vm_compute. reflexivity. Qed.

Example C05_ex_run : run 3 (mkkind true false) ex_sched =
  [ FOut [] false;
    FOut [ {| i_key := 0; i_rid := 100; i_s0 := 2; i_data := [12;13;14;15;16]; i_missed := false |};
           {| i_key := 3; i_rid := 103; i_s0 := 1; i_data := [11;12;13;14;15]; i_missed := false |} ] false;
    FOut [] false;
    FOut [ {| i_key := 1; i_rid := 101; i_s0 := 5; i_data := [15;16;17;18;19]; i_missed := false |} ] true;
    FOut [] false ].
Proof. vm_compute. reflexivity. Qed.

Example C05_ex_arrives : arrives ex_sched 3 (mkreq 1 5 5 101) /\ removed_at ex_sched 3 2 /\
  (forall j, ~ removed_at ex_sched j 1) /\ seen ex_sched 3 = 8.
Proof.
  split; [eexists; split; [reflexivity|cbn; auto]|]. split; [eexists; split; [reflexivity|cbn; auto]|].
  split; [|reflexivity].
  intros j (f & E & H). do 5 (destruct j as [|j]; [inversion E; subst; cbn in H; intuition discriminate|]).
  destruct j; discriminate.
Qed.

(* Outside the preconditions the model (hence the code) behaves as follows. *)
(* a request whose start has left the look-back: an empty "missed" epoch is delivered *)
Example C05_ex_missed : run 0 (mkkind false false)
    [mkfeed [1;2] [] [] true; mkfeed [3;4] [] [] true; mkfeed [5;6] [] [mkreq 0 1 2 7] true] =
  [FOut [] true; FOut [] false;
   FOut [{| i_key := 0; i_rid := 7; i_s0 := 1; i_data := []; i_missed := true |}] false].
Proof. vm_compute. reflexivity. Qed.
(* epochs of different lengths completing in the same send cannot be stacked: the send raises *)
Example C05_ex_unequal : run 0 (mkkind false false) [mkfeed [1;2;3;4] [] [mkreq 0 0 2 7; mkreq 1 1 3 8] true] =
  [FErr EStack].
Proof. vm_compute. reflexivity. Qed.
(* a second pending request with the same (t0,key): ValueError *)
Example C05_ex_duplicate : run 0 (mkkind false false) [mkfeed [1;2] [] [mkreq 0 1 5 7; mkreq 0 1 5 8] true] =
  [FErr EDuplicate].
Proof. vm_compute. reflexivity. Qed.
(* a removal notice processed one send before its request is forgotten: the epoch is delivered *)
Example C05_ex_early_removal : run 0 (mkkind false false)
    [mkfeed [1;2] [0] [] true; mkfeed [3;4] [] [mkreq 0 2 2 7] true] =
  [FOut [] true; FOut [{| i_key := 0; i_rid := 7; i_s0 := 2; i_data := [3;4]; i_missed := false |}] false].
Proof. vm_compute. reflexivity. Qed.

(* ================================================================================================ *)
(* The coverage-audit additions of Extract/Model.v: capture_epoch stand-alone (capture_run), extract_epochs
   without the all-done callback (xinit_nocb), and the input kind.  Vocabulary: Extract/SpecX.v.
   tag s0 cs             : the chunks cs sent as (s0, c0), (s0+|c0|, c1), ... - a contiguous stream from sample s0
   cap_spec T e d cs     : CNone for every chunk until the one that brings the stream up to sample e, then [CData d]
   run_nocb B k fs       : Model.run started from xinit_nocb (empty_queue_cb=None)
   silence o             : the send o with the callback output taken away; mute: the same on (state, output) pairs *)
From PV Require Import Extract.SpecX Extract.ProofsXCapture Extract.ProofsXNocb Extract.ProofsXKind.
From Coq Require Import ZArith List.
Import ListNotations.
Open Scope Z_scope.

(* capture_epoch(lo, n) fed with ANY chunking cs (empty chunks included) of a contiguous stream that starts at
   s0 <= lo: nothing until the chunk that contains sample lo+n-1 (for n = 0: that reaches sample lo), then exactly
   stream[lo, lo+n) - a function of the concatenated stream only - and the coroutine is finished. *)
Theorem C05_capture_standalone : forall k rid lo n s0 cs, 0 <= n -> s0 <= lo ->
  capture_run (new_capture (mkreq k lo n rid)) (tag s0 cs) =
  cap_spec s0 (lo + n) (sl (concat cs) (lo - s0) n) cs.
Proof. exact capture_standalone. Qed.
Print Assumptions C05_capture_standalone.

(* The same, spelled out: while the stream is short of sample lo+n every send shows nothing; once it reaches it, the
   capture has shown nothing j times and then the n samples stream[lo, lo+n), where chunk #j is the first one with
   which the stream reaches sample lo+n. *)
Theorem C05_capture_any_chunking : forall k rid lo n s0 cs, 0 <= n -> s0 <= lo ->
  let out := capture_run (new_capture (mkreq k lo n rid)) (tag s0 cs) in
  let d := sl (concat cs) (lo - s0) n in
  (s0 + zlen (concat cs) < lo + n -> out = repeat CNone (length cs)) /\
  (lo + n <= s0 + zlen (concat cs) -> cs <> [] ->
   exists j, (j < length cs)%nat /\ out = repeat CNone j ++ [CData d] /\ zlen d = n /\
             lo + n <= s0 + zlen (concat (firstn (S j) cs)) /\
             (forall i, (i < j)%nat -> s0 + zlen (concat (firstn (S i) cs)) < lo + n)).
Proof. exact capture_any_chunking. Qed.
Print Assumptions C05_capture_any_chunking.

(* Two chunkings of the same stream deliver the same epoch. *)
Theorem C05_capture_chunking_independent : forall k rid lo n s0 cs1 cs2, 0 <= n -> s0 <= lo ->
  concat cs1 = concat cs2 -> lo + n <= s0 + zlen (concat cs1) -> cs1 <> [] -> cs2 <> [] ->
  exists j1 j2,
    capture_run (new_capture (mkreq k lo n rid)) (tag s0 cs1) = repeat CNone j1 ++ [CData (sl (concat cs1) (lo - s0) n)] /\
    capture_run (new_capture (mkreq k lo n rid)) (tag s0 cs2) = repeat CNone j2 ++ [CData (sl (concat cs1) (lo - s0) n)].
Proof. exact capture_chunking_independent. Qed.
Print Assumptions C05_capture_chunking_independent.

(* "Missed" is reported exactly when there is a first chunk and it starts after lo - and then at that first send. *)
Theorem C05_capture_missed : forall k rid lo n s0 cs, 0 <= n ->
  (In CMiss (capture_run (new_capture (mkreq k lo n rid)) (tag s0 cs)) <-> cs <> [] /\ lo < s0) /\
  (forall c t, cs = c :: t -> lo < s0 -> capture_run (new_capture (mkreq k lo n rid)) (tag s0 cs) = [CMiss]).
Proof.
  exact (fun k rid lo n s0 cs Hn => conj (capture_missed_iff k rid lo n s0 cs Hn)
           (fun c t E Hlt => eq_ind_r (fun cs0 => capture_run _ (tag s0 cs0) = [CMiss]) (capture_missed k rid lo n s0 c t Hlt) E)).
Qed.
Print Assumptions C05_capture_missed.

(* The harness predicate check_capture accepts exactly that observation. *)
Theorem C05_check_capture_spec : forall lo n s0 cs got, 0 <= n -> s0 <= lo ->
  check_capture lo n (tag s0 cs) got = true <-> got = cap_spec s0 (lo + n) (sl (concat cs) (lo - s0) n) cs.
Proof. exact check_capture_spec. Qed.
Print Assumptions C05_check_capture_spec.

(* empty_queue_cb=None, for every schedule whatsoever: the run is a simulation of the run with the callback - state
   by state (same tlb, pending captures and look-back chunks, `armed` down) and send by send (same batch or same
   error, callback output removed): the callback is observation only. *)
Theorem C05_nocb : forall B k fs,
  trace B k xinit_nocb fs = map mute (trace B k xinit fs) /\
  run_nocb B k fs = map silence (run B k fs).
Proof. exact nocb_simulation. Qed.
Print Assumptions C05_nocb.

(* ... it never fires, on any schedule ... *)
Theorem C05_nocb_never_fires : forall B k fs,
  Forall (fun o => fired o = false) (run_nocb B k fs) /\ fire_count (run_nocb B k fs) = 0 /\
  Forall (fun p => armed (fst p) = false) (trace B k xinit_nocb fs).
Proof. exact nocb_never_fires. Qed.
Print Assumptions C05_nocb_never_fires.

(* ... and everything else is identical, send by send. *)
Theorem C05_nocb_same_epochs : forall B k fs,
  length (run_nocb B k fs) = length (run B k fs) /\
  map batch_of (run_nocb B k fs) = map batch_of (run B k fs) /\
  map is_err (run_nocb B k fs) = map is_err (run B k fs) /\
  delivered (run_nocb B k fs) = delivered (run B k fs) /\
  (forall j o, nth_error (run B k fs) j = Some o -> nth_error (run_nocb B k fs) j = Some (silence o)).
Proof. exact nocb_same_epochs. Qed.
Print Assumptions C05_nocb_same_epochs.

(* So the property holds without the callback as well: exactly once, exactly the samples, removals respected. *)
Theorem C05_nocb_exact_once : forall B k fs a r,
  wf_sched B fs = true -> arrives fs a r ->
  (forall j, removed_at fs j (r_key r) -> (a < j)%nat /\ r_lo r + r_n r <= seen fs j) ->
  r_lo r + r_n r <= zlen (stream_of fs) ->
  Forall (fun o => is_err o = false) (run_nocb B k fs) /\
  count_key (r_key r) (delivered (run_nocb B k fs)) = 1 /\
  In (s_item (stream_of fs) r) (delivered (run_nocb B k fs)) /\
  (forall it, In it (delivered (run_nocb B k fs)) -> i_key it = r_key r -> it = s_item (stream_of fs) r).
Proof. exact nocb_exact_once. Qed.
Print Assumptions C05_nocb_exact_once.

Theorem C05_nocb_removed_never : forall B k fs a j r,
  wf_sched B fs = true -> arrives fs a r -> removed_at fs j (r_key r) ->
  ((j <= a)%nat \/ seen fs j < r_lo r + r_n r) ->
  count_key (r_key r) (delivered (run_nocb B k fs)) = 0.
Proof. exact nocb_removed_never. Qed.
Print Assumptions C05_nocb_removed_never.

(* The input kind (1-D / multichannel, plain / annotated): every theorem above holds for every kind k.  Moreover the
   kind is irrelevant for states, batches, errors and callback - on EVERY schedule, well-formed or not - as soon as
   every epoch has at least one sample. *)
Theorem C05_kind_irrelevant : forall B k1 k2 fs, Forall (fun r => 1 <= r_n r) (all_reqs fs) ->
  trace B k1 xinit fs = trace B k2 xinit fs /\ run B k1 fs = run B k2 fs /\
  trace B k1 xinit_nocb fs = trace B k2 xinit_nocb fs.
Proof. exact kind_irrelevant. Qed.
Print Assumptions C05_kind_irrelevant.

(* With zero-length epochs (epoch_size = 0, which the code accepts) it is not: a zero-length epoch and the "missed"
   stub of a request beyond the look-back completing in the same send are stacked for 1-D input but raise for
   two-channel input.  (Outside wf_sched: the missed request violates the look-back precondition.) *)
Theorem C05_kind_irrelevant_refuted : exists B k1 k2 fs,
  Forall (fun r => 0 <= r_n r) (all_reqs fs) /\ nodupz (req_keys fs) = true /\ run B k1 fs <> run B k2 fs.
Proof. exact kind_irrelevant_refuted. Qed.
Print Assumptions C05_kind_irrelevant_refuted.

(* What the target observes (Model.observe) at every send of a well-formed schedule, for some requests rs of the
   schedule: one row stream[lo, lo+n) per request; for annotated input (annot k) the start sample of the first epoch
   and every request's OWN metadata identity, none flagged as a metadata-only stub; for plain input no annotation. *)
Theorem C05_observed_metadata : forall B k fs, wf_sched B fs = true ->
  forall o, In o (run B k fs) ->
  exists rs, Forall (fun r => exists a, arrives fs a r) rs /\
             o = FOut (map (s_item (stream_of fs)) rs) (fired o) /\
             observe k o = obs_of_reqs k (stream_of fs) rs (fired o).
Proof. exact observed_metadata. Qed.
Print Assumptions C05_observed_metadata.

(* The hypotheses are satisfiable. *)
Example C05_ex_capture :
  capture_run (new_capture (mkreq 0 4 5 0)) (tag 2 [[12;13;14]; []; [15]; [16;17;18;19]; [20;21]]) =
  [CNone; CNone; CNone; CData [14;15;16;17;18]] /\
  capture_run (new_capture (mkreq 0 4 5 0)) (tag 5 [[15;16]; [17]]) = [CMiss].
Proof. exact capture_ex. Qed.
Example C05_ex_nocb : wf_sched 3 ex_sched = true /\ Forall (fun r => 1 <= r_n r) (all_reqs ex_sched) /\
  run_nocb 3 (mkkind true true) ex_sched = map silence (run 3 (mkkind true false) ex_sched) /\
  fire_count (run 3 (mkkind true false) ex_sched) = 1.
Proof.
  split; [vm_compute; reflexivity|]. split; [repeat (constructor; [vm_compute; discriminate|]); constructor|].
  split; vm_compute; reflexivity.
Qed.

(* ================================================================================================ *)
(* TRANSLATOR TIE.  coq/gen/CaptureGen.v is regenerated on every run from the current source of psiaudio/pipeline.py by
   translate/pycapture2coq.py (fail closed, self-tested against the real coroutines):
     capture_epoch_init / capture_epoch_step : the coroutine capture_epoch as locals-before-the-loop + one
                                               `slb, data = (yield)` iteration -> (state, what target received, `break`)
     extract_epochs_lookback                 : what one send does to tlb and prior_samples in extract_epochs (append,
                                               advance, the pruning loop; None = IndexError)
     extract_epochs_new_capture              : the capture_epoch(...) call of extract_epochs
   Vocabulary (Extract/ProofsTie.v): abs st = the model capture a coroutine state stands for (pieces joined); rep c = a
   coroutine state for a model capture; wf_ce st = auto_send is False; view = a generated step result as Model.cres;
   source_capture_run = sends until `break`.  The theorems below say that the generated definitions compute what
   Extract/Model.v computes, so every theorem above is a theorem about what the source says now. *)
From PV Require Import gen.CaptureGen Extract.ProofsTie.

(* generated step = model step: every state with auto_send = False, every slb, every chunk *)
Theorem C05_source_step : forall st slb data, wf_ce st ->
  view (capture_epoch_step st slb data) = Some (cap_send (abs st) slb data).
Proof. exact step_is_cap_send. Qed.
Print Assumptions C05_source_step.

(* ... and from the model's side: every capture of the model is a state of the coroutine, stepping alike *)
Theorem C05_source_step_onto : forall c slb data,
  abs (rep c) = c /\ wf_ce (rep c) /\ view (capture_epoch_step (rep c) slb data) = Some (cap_send c slb data).
Proof. exact (fun c slb data => conj (abs_rep c) (conj (wf_rep c) (cap_send_is_step c slb data))). Qed.
Print Assumptions C05_source_step_onto.

(* a step keeps auto_send, the start sample and the metadata identity; the "missed" stub carries what missed_item carries *)
Theorem C05_source_step_frame : forall st slb data,
  (wf_ce st -> wf_ce (fst (fst (capture_epoch_step st slb data)))) /\
  (forall s0 md, snd (fst (capture_epoch_step st slb data)) = Some (OMissed s0 md) ->
     s0 = c_s0 (abs st) /\ md = c_rid (abs st) /\ cap_send (abs st) slb data = CMissed).
Proof. exact (fun st slb data => conj (step_wf st slb data) (step_missed_stub st slb data)). Qed.
Print Assumptions C05_source_step_frame.

(* the epoch extract_epochs appends when a capture finishes, read off the generated step, is the model's item *)
Theorem C05_source_item : forall k st slb data st' o, wf_ce st ->
  capture_epoch_step st slb data = (st', Some o, true) ->
  match cap_send (abs st) slb data with
  | CDone d => source_item k st o = done_item k (abs st) d
  | CMissed => source_item k st o = missed_item k (abs st)
  | CCont _ => False
  end.
Proof. exact step_item. Qed.
Print Assumptions C05_source_item.

(* the whole coroutine: created with the source's default for auto_send and sent anything whatsoever *)
Theorem C05_source_run : forall k lo n rid sends,
  source_capture_run (capture_epoch_init lo n rid capture_epoch_default_auto_send) sends =
  capture_run (new_capture (mkreq k lo n rid)) sends.
Proof. exact source_run_init. Qed.
Print Assumptions C05_source_run.

(* the hypothesis is needed: with auto_send = True a piece is handed over and the coroutine goes on *)
Theorem C05_source_step_refuted : exists st slb data,
  ce_auto_send st = true /\
  view (capture_epoch_step st slb data) <> Some (cap_send (abs st) slb data) /\
  capture_epoch_step st slb data =
    ({| ce_epoch_s0 := 4; ce_epoch_samples := 4; ce_info := 0; ce_auto_send := true; ce_accumulated_data := [];
        ce_current_s0 := 5; ce_md := 0 |}, Some (OTarget [14]), false).
Proof. exact step_is_cap_send_refuted. Qed.
Print Assumptions C05_source_step_refuted.

(* C05_capture_standalone / _any_chunking / _chunking_independent / _missed over the GENERATED coroutine *)
Theorem C05_source_capture_standalone : forall rid lo n s0 cs, 0 <= n -> s0 <= lo ->
  source_capture_run (capture_epoch_init lo n rid capture_epoch_default_auto_send) (tag s0 cs) =
  cap_spec s0 (lo + n) (sl (concat cs) (lo - s0) n) cs.
Proof. exact source_capture_standalone. Qed.
Print Assumptions C05_source_capture_standalone.

Theorem C05_source_capture_any_chunking : forall rid lo n s0 cs, 0 <= n -> s0 <= lo ->
  let out := source_capture_run (capture_epoch_init lo n rid capture_epoch_default_auto_send) (tag s0 cs) in
  let d := sl (concat cs) (lo - s0) n in
  (s0 + zlen (concat cs) < lo + n -> out = repeat CNone (length cs)) /\
  (lo + n <= s0 + zlen (concat cs) -> cs <> [] ->
   exists j, (j < length cs)%nat /\ out = repeat CNone j ++ [CData d] /\ zlen d = n /\
             lo + n <= s0 + zlen (concat (firstn (S j) cs)) /\
             (forall i, (i < j)%nat -> s0 + zlen (concat (firstn (S i) cs)) < lo + n)).
Proof. exact source_capture_any_chunking. Qed.
Print Assumptions C05_source_capture_any_chunking.

Theorem C05_source_capture_chunking_independent : forall rid lo n s0 cs1 cs2, 0 <= n -> s0 <= lo ->
  concat cs1 = concat cs2 -> lo + n <= s0 + zlen (concat cs1) -> cs1 <> [] -> cs2 <> [] ->
  exists j1 j2,
    source_capture_run (capture_epoch_init lo n rid capture_epoch_default_auto_send) (tag s0 cs1) =
      repeat CNone j1 ++ [CData (sl (concat cs1) (lo - s0) n)] /\
    source_capture_run (capture_epoch_init lo n rid capture_epoch_default_auto_send) (tag s0 cs2) =
      repeat CNone j2 ++ [CData (sl (concat cs1) (lo - s0) n)].
Proof. exact source_capture_chunking_independent. Qed.
Print Assumptions C05_source_capture_chunking_independent.

Theorem C05_source_capture_missed : forall rid lo n s0 cs, 0 <= n ->
  (In CMiss (source_capture_run (capture_epoch_init lo n rid capture_epoch_default_auto_send) (tag s0 cs)) <->
   cs <> [] /\ lo < s0).
Proof. exact source_capture_missed. Qed.
Print Assumptions C05_source_capture_missed.

(* extract_epochs: after a send that does not raise, tlb and prior_samples are what the generated look-back slice
   computes (any look-back B >= 0, any fuel above the number of buffered chunks) ... *)
Theorem C05_source_lookback : forall B k st f st' b cb fuel, 0 <= B -> (length (prior st) + 1 < fuel)%nat ->
  feed_step B k st f = (st', FOut b cb) ->
  extract_epochs_lookback fuel (tlb st) (prior st) B (f_chunk f) = Some (tlb st', prior st').
Proof. exact source_lookback_feed_step. Qed.
Print Assumptions C05_source_lookback.

(* ... namely the chunk appended, the counter advanced, and Model.prune; the source's pruning loop raises IndexError
   exactly when Model.prune would empty the buffer, which B >= 0 excludes *)
Theorem C05_source_prune : forall B T pr data fuel,
  (0 <= B -> (length pr + 1 < fuel)%nat ->
   extract_epochs_lookback fuel T pr B data = Some (T + zlen data, prune B (T + zlen data) (pr ++ [(T, data)]))) /\
  ((length pr < fuel)%nat -> prune B T pr <> [] -> extract_epochs_prune fuel T pr B = Some (prune B T pr)) /\
  (prune B T pr = [] -> extract_epochs_prune fuel T pr B = None).
Proof.
  exact (fun B T pr data fuel => conj (source_lookback_is_model B T pr data fuel)
           (conj (source_prune_some pr fuel T B) (source_prune_none pr fuel T B))).
Qed.
Print Assumptions C05_source_prune.

Theorem C05_source_lookback_refuted : exists B T pr data fuel,
  (length pr + 1 < fuel)%nat /\
  extract_epochs_lookback fuel T pr B data = None /\
  prune B (T + zlen data) (pr ++ [(T, data)]) = [].
Proof. exact source_lookback_is_model_refuted. Qed.
Print Assumptions C05_source_lookback_refuted.

(* the extractor starts where the model starts, and creates its captures as the model does; what it then sends to a
   capture is the generated step *)
Theorem C05_source_new_capture : forall k lo n rid slb data,
  extract_epochs_tlb0 = tlb xinit /\ extract_epochs_prior_samples0 = prior xinit /\
  abs (extract_epochs_new_capture lo n rid) = new_capture (mkreq k lo n rid) /\
  wf_ce (extract_epochs_new_capture lo n rid) /\
  view (capture_epoch_step (extract_epochs_new_capture lo n rid) slb data) =
  Some (cap_send (new_capture (mkreq k lo n rid)) slb data).
Proof.
  exact (fun k lo n rid slb data =>
           conj (proj1 source_extract_init) (conj (proj2 source_extract_init)
             (conj (proj1 (source_new_capture k lo n rid)) (conj (proj2 (source_new_capture k lo n rid))
               (source_send_new_capture k lo n rid slb data))))).
Qed.
Print Assumptions C05_source_new_capture.

(* The hypotheses are satisfiable. *)
Example C05_ex_source : wf_ce (capture_epoch_init 4 5 0 capture_epoch_default_auto_send) /\
  source_capture_run (capture_epoch_init 4 5 0 capture_epoch_default_auto_send)
    (tag 2 [[12;13;14]; []; [15]; [16;17;18;19]; [20;21]]) = [CNone; CNone; CNone; CData [14;15;16;17;18]] /\
  extract_epochs_lookback 5 6 [(0, [28; 81]); (2, []); (2, [34; 81; 46; 38])] 7 [47; 12; 97; 69; 53] =
  Some (11, [(2, [34; 81; 46; 38]); (6, [47; 12; 97; 69; 53])]).
Proof. exact (conj (proj1 wf_ce_ex) (conj (proj1 source_capture_ex) source_lookback_ex)). Qed.

(* ================================================================================================ *)
(* TRANSLATOR TIE, second part: one WHOLE send(data) of extract_epochs, regenerated from the current source
   (coq/gen/CaptureGen.v): extract_epochs_drain (the `while removed_queue:` loop with its skip list),
   extract_epochs_deliver (the chunk to every pending coroutine; finished ones popped), extract_epochs_replay /
   extract_epochs_intake (the `while queue:` loop: skip list, capture creation, replay of the buffered chunks,
   duplicate check, filing), and extract_epochs_send (the whole loop body: + stacking / target, tlb, pruning, the
   all-done callback condition).  Vocabulary (Extract/ProofsTieSend.v):
     absx g        : the model state a generated state stands for (pending = the coroutine dict through abs)
     wf_xe g       : the model's domain - dict keys distinct, every pending coroutine auto_send = False, `epochs` empty
     source_send   : extract_epochs_send with fuel S (S (|rems| + |reqs| + |prior_samples|))
     source_run    : sends from extract_epochs_init true until one raises;  sout_of : Model.fout as such an output *)
From PV Require Import Extract.ProofsTieSend.

(* (1) the removal drain = Model.drain: which pending captures are dropped, which notices are kept in `skip` *)
Theorem C05_source_drain : forall rems fuel d skip nr np, (length rems < fuel)%nat ->
  (exists nr' np', extract_epochs_drain fuel d rems skip nr np =
     XOk (fst (drain fst rems d skip), [], snd (drain fst rems d skip), nr', np', false)) /\
  drain fst rems (map absp d) skip = (map absp (fst (drain fst rems d skip)), snd (drain fst rems d skip)) /\
  (wf_pend d -> wf_pend (fst (drain fst rems d skip))).
Proof.
  exact (fun rems fuel d skip nr np H => conj (drain_tie rems fuel d skip nr np H)
           (conj (drain_map rems d skip) (drain_wf rems d skip))).
Qed.
Print Assumptions C05_source_drain.

(* (3a) the chunk sent to every pending coroutine = Model.send_all: survivors in order, finished ones popped,
   their epochs appended in order *)
Theorem C05_source_deliver : forall T data items P E, NoDup (map fst (P ++ items)) -> Forall wfp items ->
  exists p', extract_epochs_deliver items T (P ++ items) E data =
               XOk (P ++ p', E ++ snd (send_all T data (map absp items)), false) /\
             map absp p' = fst (send_all T data (map absp items)) /\ Forall wfp p' /\
             NoDup (map fst (P ++ p')).
Proof. exact deliver_tie. Qed.
Print Assumptions C05_source_deliver.

(* (2a) the buffered chunks replayed into a new coroutine = Model.replay *)
Theorem C05_source_replay : forall key pr co E, wf_ce co ->
  match replay (abs co) pr with
  | CCont c' => exists co', extract_epochs_replay pr E key co = XOk (E, co', false) /\ abs co' = c' /\ wf_ce co'
  | CDone d => exists co', extract_epochs_replay pr E key co = XOk (E ++ [done_item key (abs co) d], co', true)
  | CMissed => exists co', extract_epochs_replay pr E key co = XOk (E ++ [missed_item key (abs co)], co', true)
  end.
Proof. exact replay_tie. Qed.
Print Assumptions C05_source_replay.

(* (2b) the request intake = Model.intake (None = ValueError('Duplicate epochs not supported')) *)
Theorem C05_source_intake : forall pr reqs fuel d E skip nq ni, (length reqs < fuel)%nat -> wf_pend d ->
  match intake reqs pr (map absp d) skip with
  | None => extract_epochs_intake fuel d pr E reqs skip nq ni = XRaise RDuplicate
  | Some (pend', ev) => exists d' skip' nq' ni',
      extract_epochs_intake fuel d pr E reqs skip nq ni = XOk (d', E ++ ev, [], skip', nq', ni', false) /\
      map absp d' = pend' /\ wf_pend d'
  end.
Proof. exact intake_tie. Qed.
Print Assumptions C05_source_intake.

(* (3) the whole send = Model.feed_step: every state of the model's domain, every feed, every look-back B >= 0 *)
Theorem C05_source_send : forall B k g f, 0 <= B -> wf_xe g ->
  match feed_step B k (absx g) f with
  | (st', FOut b cb) => exists g' tgt, source_send B k g f = XOk (g', tgt, cb) /\ batch_of_target tgt = b /\
                                       absx g' = st' /\ wf_xe g'
  | (_, FErr EDuplicate) => source_send B k g f = XRaise RDuplicate
  | (_, FErr EStack) => source_send B k g f = XRaise RStack
  end.
Proof. exact send_tie. Qed.
Print Assumptions C05_source_send.

(* ... read from the generated side: it raises nothing but the two exceptions of the model, and stays in the domain *)
Theorem C05_source_send_total : forall B k g f, 0 <= B -> wf_xe g ->
  match source_send B k g f with
  | XOk (g', tgt, cb) => feed_step B k (absx g) f = (absx g', FOut (batch_of_target tgt) cb) /\ wf_xe g'
  | XRaise e => exists st', feed_step B k (absx g) f = (st', FErr match e with RDuplicate => EDuplicate | _ => EStack end) /\
                            (e = RDuplicate \/ e = RStack)
  end.
Proof. exact source_send_is_feed_step. Qed.
Print Assumptions C05_source_send_total.

(* the domain is needed: a "dict" with a repeated key *)
Theorem C05_source_send_refuted : exists B k g f, 0 <= B /\ xe_epochs g = [] /\ Forall wfp (xe_epoch_coroutines g) /\
  ~ NoDup (map fst (xe_epoch_coroutines g)) /\
  forall g' tgt cb, source_send B k g f = XOk (g', tgt, cb) ->
    feed_step B k (absx g) f <> (absx g', FOut (batch_of_target tgt) cb).
Proof. exact send_tie_refuted. Qed.
Print Assumptions C05_source_send_refuted.

(* runs of the generated send are runs of the model, with and without the callback: every theorem above about
   Model.run / run_nocb is a theorem about what the source says now *)
Theorem C05_source_run_is_model : forall B k fs, 0 <= B ->
  source_run B k fs = map sout_of (run B k fs) /\ source_run_nocb B k fs = map sout_of (run_nocb B k fs).
Proof. exact (fun B k fs H => conj (source_run_is_run B k fs H) (source_run_nocb_is_run B k fs H)). Qed.
Print Assumptions C05_source_run_is_model.

(* C05_refines_spec over runs of the GENERATED send *)
Theorem C05_source_refines_spec : forall B k fs, 0 <= B -> Forall (fun r => 0 <= r_n r) (all_reqs fs) ->
  source_run B k fs = map sout_of (spec_run B k fs).
Proof. exact source_refines_spec. Qed.
Print Assumptions C05_source_refines_spec.

(* The hypotheses are satisfiable: the schedule ex_sched above, run by the generated send. *)
Example C05_ex_source_run : wf_xe (extract_epochs_init true) /\
  source_run 3 (mkkind true false) ex_sched = map sout_of (run 3 (mkkind true false) ex_sched) /\
  source_run 3 (mkkind true false) ex_sched =
  [ SOut [] false;
    SOut [ {| i_key := 0; i_rid := 100; i_s0 := 2; i_data := [12;13;14;15;16]; i_missed := false |};
           {| i_key := 3; i_rid := 103; i_s0 := 1; i_data := [11;12;13;14;15]; i_missed := false |} ] false;
    SOut [] false;
    SOut [ {| i_key := 1; i_rid := 101; i_s0 := 5; i_data := [15;16;17;18;19]; i_missed := false |} ] true;
    SOut [] false ].
Proof. split; [exact (proj1 wf_xe_ex)|]. split; vm_compute; reflexivity. Qed.
