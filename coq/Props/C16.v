(* C16 - Spectral and level utilities satisfy their defining identities.
   Property theorems only; every proof is `exact <lemma of Spectrum/Proofs.v>`.
   The level helpers and every SCALE factor are the definitions of gen/UtilExprGen.v, which translate/pyexpr2coq_ext.py
   regenerates from psiaudio/util.py on every run (u_db, u_dbi, u_dbtopa, u_patodb, u_spectrum_to_band_level,
   u_band_to_spectrum_level, csd_scale, csd_to_signal_scale, tone_conv_re/im, tone_power_of_abs, rms_of_meansq);
   np.fft.rfft / irfft are the DFT sums of Spectrum/DFT.v (tied to numpy numerically by harness/C16.py).
   Spectra are those of util.csd / psd / tone_conv WITHOUT detrending; windows are the cosine-sum windows (C16_window_law).
   Print Assumptions lists the axioms of Coq's classical real numbers only. *)
From Coq Require Import Reals Lra Lia ZArith.
From PV Require Import Calib.RBase gen.UtilExprGen Spectrum.TrigSum Spectrum.DFT Spectrum.Proofs Spectrum.Glue.
Open Scope R_scope.

(* ---------------------------------------------------------------- dB conversions *)
(* db / dbi are exact inverses for every reference r > 0, and db is 20 log10 *)
Theorem C16_db_inverse : forall x y r, 0 < r ->
  u_db (u_dbi y r) r = y /\ (0 < x -> u_dbi (u_db x r) r = x) /\ u_db x r = 20 * log10 (x / r).
Proof. exact db_inverse. Qed.
Print Assumptions C16_db_inverse.

(* dB SPL <-> Pascal: inverses, reference 20 uPa (0 dB SPL = 20e-6 Pa, 1 Pa = 20 log10 (1/20e-6) dB SPL) *)
Theorem C16_spl_reference : forall x p, 0 < p ->
  u_patodb (u_dbtopa x) = x /\ u_dbtopa (u_patodb p) = p /\
  u_patodb p = 20 * log10 (p / (20 / 1000000)) /\ u_patodb 1 = 20 * log10 (1 / (20 / 1000000)) /\
  u_dbtopa 0 = 20 / 1000000.
Proof. exact spl_reference. Qed.
Print Assumptions C16_spl_reference.

(* band level = spectrum level + 10 log10 n, and the two conversions are inverse *)
Theorem C16_band_level : forall L n, 0 < n ->
  u_spectrum_to_band_level L n = L + 10 * log10 n /\
  u_spectrum_to_band_level (u_band_to_spectrum_level L n) n = L /\
  u_band_to_spectrum_level (u_spectrum_to_band_level L n) n = L.
Proof. exact band_level. Qed.
Print Assumptions C16_band_level.

(* ... which is the level of n times the power of one band *)
Theorem C16_band_level_power : forall L n, 0 < n ->
  u_dbi (u_spectrum_to_band_level L n) 1 * u_dbi (u_spectrum_to_band_level L n) 1 = n * (u_dbi L 1 * u_dbi L 1).
Proof. exact band_level_power. Qed.
Print Assumptions C16_band_level_power.

(* ---------------------------------------------------------------- the per-bin amplitude / phase law *)
(* a sinusoid of RMS amplitude A and phase p at bin k (0 < 2k < N, N even or odd) reads A (cos p, sin p) at bin k and
   exactly 0 at every other bin 0 <= m <= N/2 *)
Theorem C16_bin_law : forall A p N k m, (0 < 2 * k < N)%nat -> (2 * m <= N)%nat ->
  csd_re (sinusoid A p N k) N m = (if Nat.eq_dec m k then A * cos p else 0) /\
  csd_im (sinusoid A p N k) N m = (if Nat.eq_dec m k then A * sin p else 0).
Proof. exact bin_law. Qed.
Print Assumptions C16_bin_law.

(* ... and A is indeed the RMS of that sinusoid (util.rms) *)
Theorem C16_sinusoid_rms : forall A p N k, 0 <= A -> (0 < 2 * k < N)%nat -> rms (sinusoid A p N k) N = A.
Proof. exact rms_sinusoid. Qed.
Print Assumptions C16_sinusoid_rms.

(* at DC (k = 0) and Nyquist (2k = N) the one-sided scaling doubles: the bin reads 2 A cos p, imaginary part 0 *)
Theorem C16_dc_nyquist_double : forall A p N k m, (0 < N)%nat -> (2 * m <= N)%nat ->
  (csd_re (sinusoid A p N 0) N m = (if Nat.eq_dec m 0 then 2 * A * cos p else 0) /\
   csd_im (sinusoid A p N 0) N m = 0) /\
  ((0 < k)%nat -> N = (2 * k)%nat ->
   csd_re (sinusoid A p N k) N m = (if Nat.eq_dec m k then 2 * A * cos p else 0) /\
   csd_im (sinusoid A p N k) N m = 0).
Proof. exact dc_nyquist_double. Qed.
Print Assumptions C16_dc_nyquist_double.

(* WITH A WINDOW: through any cosine-sum window of order J normalised by its mean (hann, hamming: J = 1; blackman: 2;
   flattop: 4 - scipy's periodic windows, see Spectrum/DFT.v) the sinusoid reads A (cos p, sin p) at its bin whenever
   J < 2k and 2k + J < N: every bin more than J/2 bins from DC and Nyquist, which includes every bin farther than the
   main-lobe width (J + 1 bins).  The mean of such a window is its constant coefficient. *)
Theorem C16_window_law : forall c J N k A p, c 0%nat <> 0 -> (J < 2 * k)%nat -> (2 * k + J < N)%nat ->
  csd_re (windowed (cos_window c J N) N (sinusoid A p N k)) N k = A * cos p /\
  csd_im (windowed (cos_window c J N) N (sinusoid A p N k)) N k = A * sin p.
Proof. exact window_law. Qed.
Print Assumptions C16_window_law.

Theorem C16_window_mean : forall c J N, (J < N)%nat -> wmean (cos_window c J N) N = c 0%nat.
Proof. exact cos_window_mean. Qed.
Print Assumptions C16_window_mean.

(* any averaging count B >= 1 (blocks of L samples, trailing samples trimmed): psd reads A at the bin, 0 elsewhere *)
Theorem C16_psd_average : forall A p L k B m, 0 <= A -> (0 < 2 * k < L)%nat -> (2 * m <= L)%nat -> (0 < B)%nat ->
  psd (sinusoid A p L k) L B m = (if Nat.eq_dec m k then A else 0).
Proof. exact psd_law. Qed.
Print Assumptions C16_psd_average.

(* the single-frequency estimator on a whole-cycle tone (f = k fs / N): tone_conv returns the peak phasor
   A sqrt 2 (cos p, sin p) - so its angle is p - and tone_power_conv returns A *)
Theorem C16_tone_conv : forall A p N k fs, fs <> 0 -> (0 < 2 * k < N)%nat ->
  tone_conv_mean_re (sinusoid A p N k) N fs (INR k * fs / INR N) = A * sqrt 2 * cos p /\
  tone_conv_mean_im (sinusoid A p N k) N fs (INR k * fs / INR N) = A * sqrt 2 * sin p /\
  (0 <= A ->
   tone_power_of_abs (sqrt (tone_conv_mean_re (sinusoid A p N k) N fs (INR k * fs / INR N) *
                            tone_conv_mean_re (sinusoid A p N k) N fs (INR k * fs / INR N) +
                            tone_conv_mean_im (sinusoid A p N k) N fs (INR k * fs / INR N) *
                            tone_conv_mean_im (sinusoid A p N k) N fs (INR k * fs / INR N))) = A).
Proof. exact tone_conv_law. Qed.
Print Assumptions C16_tone_conv.

(* ---------------------------------------------------------------- Parseval and the inverse transform *)
(* total power in the one-sided spectrum = mean square of the frame, after taking out half of the DC bin and (N even)
   half of the Nyquist bin, which the one-sided scaling counts twice; for every real frame x and every N >= 1 *)
Theorem C16_parseval : forall x N, (0 < N)%nat ->
  spectrum_power x N - bin_power x N 0 / 2 - (if Nat.even N then bin_power x N (N / 2) / 2 else 0) = meansq x N.
Proof. exact parseval. Qed.
Print Assumptions C16_parseval.

(* spectrum -> signal inverts signal -> spectrum for every frame of even length N = 2 M (the lengths csd_to_signal
   produces: n = 2 (len(csd) - 1)) *)
Theorem C16_inverse : forall x M n, (0 < M)%nat -> (n < 2 * M)%nat ->
  csd_to_signal (csd_re x (2 * M)) (csd_im x (2 * M)) M n = x n.
Proof. exact inverse_even. Qed.
Print Assumptions C16_inverse.

(* ---------------------------------------------------------------- index arithmetic of averaging / trimming (Z, axiom-free) *)
(* psd uses the first B * (n / B) samples: fewer than B are trimmed, none when B divides n *)
Theorem C16_trimming : forall n B, (0 < B)%Z -> (0 <= n)%Z ->
  (used n B <= n < used n B + B)%Z /\ used n B = (B * block_len n B)%Z /\ ((n mod B = 0)%Z -> used n B = n).
Proof. exact trimming. Qed.
Print Assumptions C16_trimming.

(* the length csd_to_signal reconstructs from the bins of an n-sample frame: n when n is even, n - 1 when odd *)
Theorem C16_roundtrip_length : forall n, (0 <= n)%Z -> signal_len (n_bins n) = (if Z.even n then n else n - 1)%Z.
Proof. exact roundtrip_len. Qed.
Print Assumptions C16_roundtrip_length.

(* util.phase accepts every averaging count (it passes detrend=None to csd) ... *)
Theorem C16_phase_averages : forall wa, csd_accepts (phase_detrend wa) = true.
Proof. exact phase_averages_ok. Qed.
Print Assumptions C16_phase_averages.

(* ... the code before the repair of branch fix-C16C08 passed the averaging count as csd's detrend argument *)
Theorem C16_phase_unrepaired_refuted : exists wa, csd_accepts (phase_detrend_unrepaired wa) = false.
Proof. exact phase_unrepaired_refuted. Qed.
Print Assumptions C16_phase_unrepaired_refuted.

(* hypotheses are satisfiable *)
Example C16_ex_bins : (0 < 2 * 3 < 16)%nat /\ (2 * 8 <= 16)%nat /\ (0 < 2 * 2 < 5)%nat /\ (2 * 2 <= 5)%nat /\ 0 <= 1 /\ 0 < 20 / 1000000.
Proof. repeat split; try lia; lra. Qed.
(* flattop (order 4) at bin 3 of 16 samples *)
Example C16_ex_window : (21557895 / 100000000 <> 0) /\ (4 < 2 * 3)%nat /\ (2 * 3 + 4 < 16)%nat /\ (4 < 16)%nat.
Proof. repeat split; try lia; lra. Qed.
